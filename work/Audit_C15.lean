import OwlModel.Props.C15
#print axioms Owl.Props.C15.rook_lookup_exact
#print axioms Owl.Props.C15.bishop_lookup_exact
#print axioms Owl.Props.C15.king_table_exact
#print axioms Owl.Props.C15.knight_table_exact
#print axioms Owl.Props.C15.pawn_table_exact
#print axioms Owl.Props.C15.rook_valid_iff
#print axioms Owl.Props.C15.bishop_valid_iff
#print axioms Owl.Props.C15.rook_between_exact
#print axioms Owl.Props.C15.bishop_between_exact
