#!/bin/sh
# Build the framework offline from files on disk: harness (against /repo's working tree), generated Lean
# tables, all Lean modules (model, lemmas, property theorems) and the compiled driver.
set -e
cd "$(dirname "$0")"
export PATH="/opt/veriftools/lean/bin:$HOME/.cargo/bin:$PATH"
export CARGO_NET_OFFLINE=true
(cd harness && cargo build --offline 2>&1 | tail -2)
# second build configuration (optimised, no debug assertions, AddressSanitizer when the nightly toolchain is there);
# tools/run_check.py rebuilds it from /repo's working tree on every run, this only warms the cache
(cd harness && RUSTFLAGS=-Zsanitizer=address CARGO_TARGET_DIR=target/cfg cargo +nightly build --offline --release \
    --target x86_64-unknown-linux-gnu 2>&1 | tail -1) \
  || (cd harness && CARGO_TARGET_DIR=target/cfg cargo build --offline --release 2>&1 | tail -1) || true
OUT=$(cd harness && cargo build --offline --message-format=json 2>/dev/null | python3 -c "
import sys, json
o = None
for l in sys.stdin:
    try: m = json.loads(l)
    except Exception: continue
    if m.get('reason') == 'build-script-executed' and 'owlchess_base' not in m.get('package_id','').split('#')[-1] and 'owlchess' in m.get('package_id',''):
        o = m.get('out_dir')
print(o)")
python3 tools/translate.py --out-dir "$OUT" --dest lean/OwlModel/Gen
cd lean
MODS=$(ls OwlModel/Props/*.lean | sed -e 's|/|.|g' -e 's|\.lean$||')
lake build owldrv OwlModel $MODS 2>&1 | tail -3
