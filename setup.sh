#!/bin/sh
exit 0
