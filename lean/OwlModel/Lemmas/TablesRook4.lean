import OwlModel.Lemmas.TablesDef
namespace Owl.Lemmas
theorem rook_rank_4 : rookCheckRank 4 = true := by decide +kernel
end Owl.Lemmas
