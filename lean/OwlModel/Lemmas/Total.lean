/-
C12 lemmas: no modelled parser reaches a panic site (`Res.trap`).
-/
import OwlModel.Lemmas.Capture

namespace Owl.Lemmas
open Owl Owl.Impl

def CellsInv (file rank pos : Nat) : Prop := pos = 8 * rank + file ∧ file ≤ 8 ∧ rank ≤ 7

theorem parseCellsLoop_inv : ∀ (bs : Bytes) (file rank pos : Nat) (cells : Tab 64 Cell), CellsInv file rank pos →
    match parseCellsLoop bs file rank pos cells with
    | .ok (f, r, p, _) => CellsInv f r p
    | .err _ => True
    | .trap _ => False
  | [], file, rank, pos, cells, h => by simpa [parseCellsLoop] using h
  | b :: rest, file, rank, pos, cells, h => by
    obtain ⟨hp, hf, hr⟩ := h
    unfold parseCellsLoop
    by_cases hd : 49 ≤ b ∧ b ≤ 56
    · simp only [hd, and_self, if_true]
      by_cases ho : file + (b - 48) > 8
      · simp only [ho, if_true]
        have : rank < 8 := by omega
        simp [this]
      · simp only [ho, if_false]
        exact parseCellsLoop_inv rest _ _ _ _ ⟨by omega, by omega, hr⟩
    · simp only [hd, if_false]
      by_cases hs : b = 47
      · simp only [hs, if_true]
        by_cases hf8 : file < 8
        · have : rank < 8 := by omega
          simp [hf8, this]
        · simp only [hf8, if_false]
          by_cases hov : rank + 1 ≥ 8
          · simp [hov]
          · simp only [hov, if_false]
            exact parseCellsLoop_inv rest _ _ _ _ ⟨by omega, by omega, by omega⟩
      · simp only [hs, if_false]
        by_cases hf8 : file ≥ 8
        · have : rank < 8 := by omega
          simp [hf8, this]
        · simp only [hf8, if_false]
          cases hc : cellOfByte b with
          | none => simp
          | some c =>
            simp only
            have hpos : pos < 64 := by omega
            simp only [hpos, dite_true]
            exact parseCellsLoop_inv rest _ _ _ _ ⟨by omega, by omega, hr⟩

theorem parseCells_no_trap (s : Bytes) (w : String) : parseCells s ≠ .trap w := by
  unfold parseCells
  have h := parseCellsLoop_inv s 0 0 0 (Tab.fill Cell.empty) ⟨rfl, by omega, by omega⟩
  cases hl : parseCellsLoop s 0 0 0 (Tab.fill Cell.empty) with
  | err e => simp
  | trap w' => rw [hl] at h; exact absurd h id
  | ok v =>
    obtain ⟨f, r, p, c⟩ := v
    rw [hl] at h
    obtain ⟨hp, hf, hr⟩ := h
    simp only
    by_cases h1 : f < 8
    · have : r < 8 := by omega
      simp [h1, this]
    · simp only [h1, if_false]
      by_cases h2 : r < 7
      · simp [h2]
      · have : f = 8 ∧ r = 7 ∧ p = 64 := by omega
        simp [h2, this]

theorem parseFen_no_trap (s : Bytes) (w : String) : parseFen s ≠ .trap w := by
  intro h
  unfold parseFen at h
  dsimp only at h
  repeat' (split at h)
  all_goals first
    | (cases h; done)
    | (rename_i hc; exact absurd hc (parseCells_no_trap _ _))
    | skip

theorem parseUci_no_trap (s : Bytes) (w : String) : parseUci s ≠ .trap w := by
  intro h
  unfold parseUci at h
  dsimp only at h
  repeat' (split at h)
  all_goals first
    | (cases h; done)
    | (simp at h; done)

theorem isFileByte_some (b : Nat) (h : isFileByte b = true) : ∃ f, fileOfByte b = some f := by
  unfold isFileByte at h
  simp only [Bool.and_eq_true, decide_eq_true_eq] at h
  unfold fileOfByte
  exact ⟨⟨b - 97, by omega⟩, by simp [h]⟩

theorem parseSanPiece_no_trap (data : Bytes) (piece : Piece) (rest : Bytes) (w : String) :
    parseSanPiece data piece rest ≠ .trap w := by
  intro h
  unfold parseSanPiece at h
  dsimp only at h
  repeat' (split at h)
  all_goals first
    | (cases h; done)
    | (simp at h; done)

theorem parseSanPawn_no_trap (data : Bytes) (promote : Option Piece) (bytes : Bytes) (w : String) :
    parseSanPawn data promote bytes ≠ .trap w := by
  intro h
  unfold parseSanPawn at h
  split at h
  · cases h
  split at h
  · rename_i hc
    simp only [Bool.and_eq_true, decide_eq_true_eq] at hc
    obtain ⟨f1, h1⟩ := isFileByte_some _ hc.1.2
    obtain ⟨f2, h2⟩ := isFileByte_some _ hc.2
    rw [h1, h2] at h
    cases h
  · dsimp only at h
    split at h
    · cases h
    split at h
    · cases h
    split at h
    · cases h
    · cases h
    · split at h
      · cases h
      · rename_i hc
        simp only [Bool.or_eq_true, Bool.not_eq_true', not_or, Bool.not_eq_false] at hc
        obtain ⟨f, hf⟩ := isFileByte_some _ hc.1
        rw [hf] at h
        cases h
    · cases h

theorem parseSanData_no_trap (s : Bytes) (w : String) : parseSanData s ≠ .trap w := by
  intro h
  unfold parseSanData at h
  split at h
  · cases h
  split at h
  · cases h
  split at h
  · cases h
  rename_i hne
  split at h
  · exact absurd ‹parseUci s = .trap _› (parseUci_no_trap _ _)
  · cases h
  · split at h
    · simp at hne
    · split at h
      · exact parseSanPiece_no_trap _ _ _ _ h
      · exact parseSanPawn_no_trap _ _ _ _ h

theorem parseSan_no_trap (s : Bytes) (w : String) : parseSan s ≠ .trap w := by
  intro h
  unfold parseSan at h
  dsimp only at h
  split at h
  · cases h
  · cases h
  · rename_i hd
    exact parseSanData_no_trap _ _ hd

/-- boards with a king of each colour (true of every board from the validation gate) -/
def HasKings (b : Board) : Prop := ∀ c, (b.kingPos? c).isSome = true

theorem isCheck_some (b : Board) (hk : HasKings b) : ∃ v, isCheck? b = some v := by
  unfold isCheck?
  cases h : b.kingPos? b.r.side with
  | none => have := hk b.r.side; rw [h] at this; cases this
  | some k => exact ⟨_, rfl⟩

theorem mkChecker_some (b : Board) (hk : HasKings b) (pre : Pre) : ∃ ck, mkChecker? b pre = some ck := by
  unfold mkChecker?
  cases h : b.kingPos? b.r.side with
  | none => have := hk b.r.side; rw [h] at this; cases this
  | some k => exact ⟨_, rfl⟩

theorem defaultChecker_some (b : Board) (hk : HasKings b) : ∃ ck, defaultChecker? b = some ck := by
  unfold defaultChecker? defaultPre?
  obtain ⟨v, hv⟩ := isCheck_some b hk
  rw [hv]
  cases v
  · cases h : b.kingPos? b.r.side with
    | none => have := hk b.r.side; rw [h] at this; cases this
    | some k => simp only; exact mkChecker_some b hk _
  · exact mkChecker_some b hk _

theorem validateMove_no_trap (b : Board) (hk : HasKings b) (mv : Move) (w : String) : validateMove b mv ≠ .trap w := by
  intro h
  unfold validateMove isLegalUnchecked? at h
  obtain ⟨ck, hck⟩ := mkChecker_some b hk .nil
  rw [hck] at h
  split at h
  · cases h
  · simp only [Option.map_some] at h
    split at h
    · rename_i he; cases he
    · cases h
    · cases h

theorem moveFromUci_no_trap (b : Board) (hk : HasKings b) (s : Bytes) (w : String) :
    moveFromUci s b ≠ .trap w ∧ moveFromUciSemilegal s b ≠ .trap w ∧ moveFromUciLegal s b ≠ .trap w := by
  have h1 : moveFromUci s b ≠ .trap w := by
    intro h
    unfold moveFromUci at h
    split at h
    · exact parseUci_no_trap _ _ ‹_›
    · cases h
    · split at h <;> cases h
  refine ⟨h1, ?_, ?_⟩
  · intro h
    unfold moveFromUciSemilegal at h
    split at h
    · split at h <;> cases h
    · rename_i r hr
      exact h1 (h ▸ rfl)
  · intro h
    unfold moveFromUciLegal at h
    split at h
    · split at h
      · cases h
      · cases h
      · exact validateMove_no_trap b hk _ _ ‹_›
    · exact h1 (h ▸ rfl)

/-- what the SAN parser can produce: never a `Simple` record for a pawn -/
def _root_.Owl.Impl.SanData.ParserShape : SanData → Prop
  | .simple p _ _ _ _ => p ≠ .pawn
  | _ => True

theorem pieceOfLetter_ne_pawn (b : Nat) (p : Piece) (h : pieceOfLetter b = some p) : p ≠ .pawn := by
  unfold pieceOfLetter at h
  repeat' (split at h)
  all_goals first
    | (cases h; decide)
    | (cases h)

theorem parseSanPiece_shape (data : Bytes) (piece : Piece) (rest : Bytes) (d : SanData) (hp : piece ≠ .pawn)
    (h : parseSanPiece data piece rest = .ok d) : d.ParserShape := by
  unfold parseSanPiece at h
  dsimp only at h
  repeat' (split at h)
  all_goals first
    | (cases h; done)
    | (injection h with h; subst h; exact hp)

theorem parseSanPawn_shape (data : Bytes) (promote : Option Piece) (bytes : Bytes) (d : SanData)
    (h : parseSanPawn data promote bytes = .ok d) : d.ParserShape := by
  unfold parseSanPawn at h
  dsimp only at h
  repeat' (split at h)
  all_goals first
    | (cases h; done)
    | (injection h with h; subst h; trivial)

theorem parseSanData_shape (s : Bytes) (d : SanData) (h : parseSanData s = .ok d) : d.ParserShape := by
  unfold parseSanData at h
  split at h
  · injection h with h; subst h; trivial
  split at h
  · injection h with h; subst h; trivial
  split at h
  · cases h
  split at h
  · cases h
  · injection h with h; subst h; trivial
  · split at h
    · cases h
    · split at h
      · rename_i p hpl
        exact parseSanPiece_shape _ _ _ _ (pieceOfLetter_ne_pawn _ _ hpl) h
      · exact parseSanPawn_shape _ _ _ _ h

theorem pawn_back_site : ∀ (dst : Sq) (side : Color), dst.rank ≠ promoteDstRank side.inv →
    (dst.add? (-(forwardDelta side))).isSome = true := by
  intro dst side; cases side <;> revert dst <;> decide

theorem sanCandidates_some (b : Board) (hk : HasKings b) (piece : Piece) (hp : piece ≠ .pawn) (dst : Sq) :
    ∃ l, sanCandidates? b piece dst = some l := by
  unfold sanCandidates?
  obtain ⟨ck, hck⟩ := defaultChecker_some b hk
  rw [hck]
  simp only
  split
  · exact ⟨_, rfl⟩
  · cases piece <;> first | exact absurd rfl hp | exact ⟨_, rfl⟩

theorem sanIntoMove_no_trap (b : Board) (hk : HasKings b) (d : SanData) (hd : d.ParserShape) (w : String) :
    sanIntoMove d b ≠ .trap w := by
  intro h
  have hv : ∀ mv, validateInto b mv ≠ .trap w := by
    intro mv hh
    unfold validateInto at hh
    split at hh
    · cases hh
    · cases hh
    · exact validateMove_no_trap b hk _ _ ‹_›
  unfold sanIntoMove at h
  dsimp only at h
  cases d with
  | uci u =>
    simp only at h
    split at h
    · cases h
    · exact hv _ h
  | castling s => exact hv _ h
  | pawnMove dst promote =>
    simp only at h
    split at h
    · cases h
    · rename_i hr
      have := pawn_back_site dst b.r.side hr
      cases hadd : dst.add? (-(forwardDelta b.r.side)) with
      | none => rw [hadd] at this; cases this
      | some src0 =>
        rw [hadd] at h
        simp only at h
        split at h
        · cases h
        · exact hv _ h
  | pawnCapture srcFile dst promote =>
    simp only at h
    by_cases hr : dst.rank = promoteDstRank b.r.side.inv
    · rw [if_pos hr] at h; cases h
    · rw [if_neg hr] at h
      have hr' : (Sq.mk srcFile dst.rank).rank ≠ promoteDstRank b.r.side.inv := by rw [Sq.rank_mk]; exact hr
      have hsite := pawn_back_site (Sq.mk srcFile dst.rank) b.r.side hr'
      cases hadd : (Sq.mk srcFile dst.rank).add? (-(forwardDelta b.r.side)) with
      | none => rw [hadd] at hsite; cases hsite
      | some src =>
        rw [hadd] at h
        dsimp only at h
        repeat' (split at h)
        all_goals first
          | (cases h; done)
          | exact hv _ h
  | pawnCaptureShort src dst promote =>
    simp only at h
    obtain ⟨ck, hck⟩ := defaultChecker_some b hk
    have : ∃ l, sanPawnCaptureCandidates? b src dst promote = some l := by
      unfold sanPawnCaptureCandidates?; rw [hck]; exact ⟨_, rfl⟩
    obtain ⟨l, hl⟩ := this
    rw [hl] at h
    simp only at h
    split at h <;> cases h
  | simple piece file rank isCapture dst =>
    simp only at h
    split at h
    · cases h
    · obtain ⟨l, hl⟩ := sanCandidates_some b hk piece hd dst
      rw [hl] at h
      simp only at h
      split at h <;> cases h

theorem moveFromSan_no_trap (b : Board) (hk : HasKings b) (s : Bytes) (w : String) : moveFromSan s b ≠ .trap w := by
  intro h
  unfold moveFromSan at h
  split at h
  · exact parseSan_no_trap _ _ ‹_›
  · cases h
  · rename_i sm hsm
    have hshape : sm.data.ParserShape := by
      unfold parseSan at hsm
      dsimp only at hsm
      split at hsm
      · injection hsm with hsm; subst hsm; exact parseSanData_shape _ _ ‹_›
      · cases hsm
      · cases hsm
    split at h
    · exact sanIntoMove_no_trap b hk _ hshape _ ‹_›
    · cases h
    · cases h

end Owl.Lemmas
