import OwlModel.Lemmas.TablesDef
namespace Owl.Lemmas
theorem rook_rank_5 : rookCheckRank 5 = true := by decide +kernel
end Owl.Lemmas
