/-
Line-attack lookups in terms of the between tables (used by the legality-checker proofs).
-/
import OwlModel.Lemmas.Capture

namespace Owl.Lemmas
open Owl Owl.Impl

/-- a ray that contains `t` is the one `between` picks (rays of one family are disjoint) -/
def betweenRayCheck (dirs : List (Int × Int)) : Bool :=
  Sq.all.all fun s => Sq.all.all fun t => dirs.all fun d =>
    !(Spec.ray d 7 s).contains t || (Spec.between dirs s t == some ((Spec.ray d 7 s).takeWhile (· ≠ t)))

theorem between_ray_rook : betweenRayCheck Spec.rookDirs = true := by decide +kernel
theorem between_ray_bishop : betweenRayCheck Spec.bishopDirs = true := by decide +kernel

theorem between_of_ray (dirs : List (Int × Int)) (hc : betweenRayCheck dirs = true) (s t : Sq) (d : Int × Int)
    (hd : d ∈ dirs) (ht : t ∈ Spec.ray d 7 s) :
    Spec.between dirs s t = some ((Spec.ray d 7 s).takeWhile (· ≠ t)) := by
  have h1 := (List.all_eq_true.mp ((List.all_eq_true.mp ((List.all_eq_true.mp hc) s (List.mem_finRange _))) t
    (List.mem_finRange _))) d hd
  have hcn : (Spec.ray d 7 s).contains t = true := by simpa using ht
  simp only [hcn, Bool.not_true, Bool.false_or, beq_iff_eq] at h1
  exact h1

theorem mem_slide_between (dirs : List (Int × Int)) (hc : betweenRayCheck dirs = true) (occ : Sq → Bool) (s t : Sq) :
    t ∈ Spec.slide dirs occ s ↔ ∃ l, Spec.between dirs s t = some l ∧ ∀ x ∈ l, occ x = false := by
  constructor
  · intro h
    rw [mem_slide_iff] at h
    obtain ⟨d, hd, hm, hf⟩ := h
    exact ⟨_, between_of_ray dirs hc s t d hd hm, hf⟩
  · intro ⟨l, hl, hf⟩
    exact slide_of_between dirs occ s t l hl hf

theorem slide_has_between (dirs : List (Int × Int)) (hsym : raySymCheck dirs = true) (hc : betweenRayCheck dirs = true)
    (t s : Sq) (occ : BB) :
    decide (s ∈ Spec.slide dirs (fun x => occ.has x) t) =
      (match Spec.between dirs s t with
       | some l => (BB.ofList l &&& occ).isEmpty
       | none => false) := by
  have hiff := (slide_symm _ hsym (fun x => occ.has x) t s).trans
    (mem_slide_between _ hc (fun x => occ.has x) s t)
  cases hbt : Spec.between dirs s t with
  | none =>
    rw [hbt] at hiff
    simp only [decide_eq_false_iff_not]
    intro h; obtain ⟨l, hl, _⟩ := hiff.mp h; cases hl
  | some l =>
    rw [hbt] at hiff
    simp only
    cases he : (BB.ofList l &&& occ).isEmpty
    · simp only [decide_eq_false_iff_not]
      intro h
      obtain ⟨l', hl, hf⟩ := hiff.mp h
      cases hl
      have : (BB.ofList l &&& occ).isEmpty = true := by
        rw [BB.isEmpty_iff]
        intro x
        rw [BB.has_and, BB.has_ofList]
        by_cases hx : x ∈ l
        · simp [hf x hx]
        · simp [hx]
      rw [this] at he; cases he
    · simp only [decide_eq_true_eq]
      apply hiff.mpr
      refine ⟨l, rfl, ?_⟩
      intro x hx
      have := (BB.isEmpty_iff _).mp he x
      rw [BB.has_and, BB.has_ofList] at this
      simpa [hx] using this

/-- line attack lookup in terms of the between tables: `s` is hit from `t` iff aligned with nothing in between -/
theorem rookAttack_has (t s : Sq) (occ : BB) :
    (rookAttack t occ).has s = (isRookValid s t && (rookStrict s t &&& occ).isEmpty) := by
  rw [rookAttack_eq_slide]
  unfold slideBB
  rw [BB.has_ofList, slide_has_between _ ray_sym_rook between_ray_rook]
  have hc := between_check_pair s t
  simp only [betweenCheckPair, Bool.and_eq_true, beq_iff_eq] at hc
  obtain ⟨⟨⟨hvr, _⟩, hsr⟩, _⟩ := hc
  cases hbt : Spec.between Spec.rookDirs s t with
  | none => rw [hbt] at hvr; simp [hvr]
  | some l =>
    rw [hbt] at hvr hsr
    simp only [beq_iff_eq] at hsr
    simp [hvr, hsr]

theorem bishopAttack_has (t s : Sq) (occ : BB) :
    (bishopAttack t occ).has s = (isBishopValid s t && (bishopStrict s t &&& occ).isEmpty) := by
  rw [bishopAttack_eq_slide]
  unfold slideBB
  rw [BB.has_ofList, slide_has_between _ ray_sym_bishop between_ray_bishop]
  have hc := between_check_pair s t
  simp only [betweenCheckPair, Bool.and_eq_true, beq_iff_eq] at hc
  obtain ⟨⟨⟨_, hvb⟩, _⟩, hsb⟩ := hc
  cases hbt : Spec.between Spec.bishopDirs s t with
  | none => rw [hbt] at hvb; simp [hvb]
  | some l =>
    rw [hbt] at hvb hsb
    simp only [beq_iff_eq] at hsb
    simp [hvb, hsb]

end Owl.Lemmas
