/-
Membership in the pawn shift sets (`pawns::advance_forward/left/right`) in terms of the square behind.
-/
import OwlModel.Lemmas.BitSet
import OwlModel.Impl.Moves

namespace Owl.Lemmas
open Owl Owl.Impl

theorem has_shr (x : BB) (n : Nat) (d : Sq) : BB.has (x >>> n) d = x.getLsbD (n + d.val) := by
  simp [BB.has, BitVec.getLsbD_ushiftRight]

theorem has_shl (x : BB) (n : Nat) (d : Sq) : BB.has (x <<< n) d = (!decide (d.val < n) && x.getLsbD (d.val - n)) := by
  unfold BB.has
  rw [BitVec.getLsbD_shiftLeft]
  have : decide (d.val < 64) = true := by simp [d.isLt]
  simp [this]

theorem getLsbD_has (x : BB) (i : Nat) (s : Sq) (h : s.val = i) : x.getLsbD i = x.has s := by
  unfold BB.has; rw [h]

theorem getLsbD_oob (x : BB) (i : Nat) (h : 64 ≤ i) : x.getLsbD i = false := by
  exact BitVec.getLsbD_of_ge x i h

/-- the back rank from which a pawn of that colour cannot have come -/
def behindRank : Color → Fin 8 | .white => 7 | .black => 0

theorem adv_idx (c : Color) : ∀ d : Sq,
    (d.rank ≠ behindRank c →
      (c = .white → (addU d (-(forwardDelta c))).val = 8 + d.val) ∧ (c = .black → (addU d (-(forwardDelta c))).val = d.val - 8 ∧ 8 ≤ d.val))
    ∧ (d.rank = behindRank c → (c = .white → 64 ≤ 8 + d.val) ∧ (c = .black → d.val < 8)) := by
  cases c <;> decide

/-- `advance_forward`: `d` is in the shifted set iff the square one step behind `d` is in the set -/
theorem advanceForward_has (c : Color) (X : BB) (d : Sq) :
    (advanceForward c X).has d = (decide (d.rank ≠ behindRank c) && X.has (addU d (-(forwardDelta c)))) := by
  obtain ⟨h1, h2⟩ := adv_idx c d
  cases c
  · simp only [advanceForward, shiftBy, Gen.advForwardWRight, Gen.advForwardWBy, if_true, has_shr]
    by_cases hr : d.rank = behindRank .white
    · rw [getLsbD_oob _ _ ((h2 hr).1 rfl)]; simp [hr]
    · rw [getLsbD_has _ _ _ ((h1 hr).1 rfl)]; simp [hr]
  · simp only [advanceForward, shiftBy, Gen.advForwardBRight, Gen.advForwardBBy, Bool.false_eq_true, if_false, has_shl]
    by_cases hr : d.rank = behindRank .black
    · have := (h2 hr).2 rfl; simp [hr, this]
    · obtain ⟨e, ge⟩ := (h1 hr).2 rfl
      rw [getLsbD_has _ _ _ e]
      have : ¬ d.val < 8 := by omega
      simp [hr, this]

theorem shr_masked (X M : BB) (n : Nat) (d src : Sq) (ok : Bool)
    (h1 : ok = true → src.val = n + d.val ∧ M.getLsbD (n + d.val) = false)
    (h2 : ok = false → 64 ≤ n + d.val ∨ M.getLsbD (n + d.val) = true) :
    BB.has ((X &&& ~~~ M) >>> n) d = (ok && X.has src) := by
  rw [has_shr, BitVec.getLsbD_and]
  cases ok
  · rcases h2 rfl with h | h
    · rw [getLsbD_oob X _ h]; simp
    · simp [BitVec.getLsbD_not, h]
  · obtain ⟨e, hm⟩ := h1 rfl
    have hlt : n + d.val < 64 := by rw [← e]; exact src.isLt
    rw [getLsbD_has X _ _ e, BitVec.getLsbD_not, hm]
    simp [hlt]

theorem shl_masked (X M : BB) (n : Nat) (d src : Sq) (ok : Bool)
    (h1 : ok = true → n ≤ d.val ∧ src.val = d.val - n ∧ M.getLsbD (d.val - n) = false)
    (h2 : ok = false → d.val < n ∨ M.getLsbD (d.val - n) = true) :
    BB.has ((X &&& ~~~ M) <<< n) d = (ok && X.has src) := by
  rw [has_shl, BitVec.getLsbD_and]
  cases ok
  · rcases h2 rfl with h | h
    · simp [h]
    · simp [BitVec.getLsbD_not, h]
  · obtain ⟨hn, e, hm⟩ := h1 rfl
    have hlt : d.val - n < 64 := by have := d.isLt; omega
    have : ¬ d.val < n := by omega
    rw [getLsbD_has X _ _ e, BitVec.getLsbD_not, hm]
    simp [hlt, this]

theorem advL_idx_w : ∀ d : Sq,
    (decide (d.rank ≠ behindRank .white ∧ d.file ≠ 7) = true →
      (addU d (-(leftDelta .white))).val = 9 + d.val ∧ (fileBB (fin8 Gen.advLeftMaskFile)).getLsbD (9 + d.val) = false)
    ∧ (decide (d.rank ≠ behindRank .white ∧ d.file ≠ 7) = false →
      64 ≤ 9 + d.val ∨ (fileBB (fin8 Gen.advLeftMaskFile)).getLsbD (9 + d.val) = true) := by decide +kernel
theorem advL_idx_b : ∀ d : Sq,
    (decide (d.rank ≠ behindRank .black ∧ d.file ≠ 7) = true →
      7 ≤ d.val ∧ (addU d (-(leftDelta .black))).val = d.val - 7 ∧ (fileBB (fin8 Gen.advLeftMaskFile)).getLsbD (d.val - 7) = false)
    ∧ (decide (d.rank ≠ behindRank .black ∧ d.file ≠ 7) = false →
      d.val < 7 ∨ (fileBB (fin8 Gen.advLeftMaskFile)).getLsbD (d.val - 7) = true) := by decide +kernel
theorem advR_idx_w : ∀ d : Sq,
    (decide (d.rank ≠ behindRank .white ∧ d.file ≠ 0) = true →
      (addU d (-(rightDelta .white))).val = 7 + d.val ∧ (fileBB (fin8 Gen.advRightMaskFile)).getLsbD (7 + d.val) = false)
    ∧ (decide (d.rank ≠ behindRank .white ∧ d.file ≠ 0) = false →
      64 ≤ 7 + d.val ∨ (fileBB (fin8 Gen.advRightMaskFile)).getLsbD (7 + d.val) = true) := by decide +kernel
theorem advR_idx_b : ∀ d : Sq,
    (decide (d.rank ≠ behindRank .black ∧ d.file ≠ 0) = true →
      9 ≤ d.val ∧ (addU d (-(rightDelta .black))).val = d.val - 9 ∧ (fileBB (fin8 Gen.advRightMaskFile)).getLsbD (d.val - 9) = false)
    ∧ (decide (d.rank ≠ behindRank .black ∧ d.file ≠ 0) = false →
      d.val < 9 ∨ (fileBB (fin8 Gen.advRightMaskFile)).getLsbD (d.val - 9) = true) := by decide +kernel

/-- `advance_left` / `advance_right`: `d` is in the shifted set iff the square diagonally behind it is in the set -/
theorem advanceLeft_has (c : Color) (X : BB) (d : Sq) :
    (advanceLeft c X).has d = (decide (d.rank ≠ behindRank c ∧ d.file ≠ 7) && X.has (addU d (-(leftDelta c)))) := by
  cases c
  · simp only [advanceLeft, shiftBy, Gen.advLeftWRight, Gen.advLeftWBy, if_true]
    exact shr_masked X _ 9 d _ _ (advL_idx_w d).1 (advL_idx_w d).2
  · simp only [advanceLeft, shiftBy, Gen.advLeftBRight, Gen.advLeftBBy, Bool.false_eq_true, if_false]
    exact shl_masked X _ 7 d _ _ (advL_idx_b d).1 (advL_idx_b d).2

theorem advanceRight_has (c : Color) (X : BB) (d : Sq) :
    (advanceRight c X).has d = (decide (d.rank ≠ behindRank c ∧ d.file ≠ 0) && X.has (addU d (-(rightDelta c)))) := by
  cases c
  · simp only [advanceRight, shiftBy, Gen.advRightWRight, Gen.advRightWBy, if_true]
    exact shr_masked X _ 7 d _ _ (advR_idx_w d).1 (advR_idx_w d).2
  · simp only [advanceRight, shiftBy, Gen.advRightBRight, Gen.advRightBBy, Bool.false_eq_true, if_false]
    exact shl_masked X _ 9 d _ _ (advR_idx_b d).1 (advR_idx_b d).2

end Owl.Lemmas
