import OwlModel.Lemmas.TablesDef
namespace Owl.Lemmas
theorem rook_rank_7 : rookCheckRank 7 = true := by decide +kernel
end Owl.Lemmas
