import OwlModel.Lemmas.TablesDef
namespace Owl.Lemmas
theorem rook_rank_3 : rookCheckRank 3 = true := by decide +kernel
end Owl.Lemmas
