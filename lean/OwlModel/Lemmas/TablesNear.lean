/-
C15: leaper / pawn attack tables and the between tables, decided over all squares / pairs.
-/
import OwlModel.Lemmas.Slide
import OwlModel.Lemmas.BitSet

namespace Owl.Lemmas
open Owl

/-- squares one step away by the given offsets -/
def stepsOf (s : Sq) (steps : List (Int × Int)) : List Sq := steps.filterMap fun d => Spec.step s d
def pawnSteps (c : Color) : List (Int × Int) := [(-1, Spec.forward c), (1, Spec.forward c)]

def nearCheck : Bool :=
  Sq.all.all fun s =>
    Impl.kingAttack s == BB.ofList (stepsOf s Spec.kingSteps)
    && Impl.knightAttack s == BB.ofList (stepsOf s Spec.knightSteps)
    && Impl.pawnAttack .white s == BB.ofList (stepsOf s (pawnSteps .white))
    && Impl.pawnAttack .black s == BB.ofList (stepsOf s (pawnSteps .black))

theorem near_check : nearCheck = true := by decide +kernel

def betweenCheckPair (a b : Sq) : Bool :=
  (Impl.isRookValid a b == (Spec.between Spec.rookDirs a b).isSome)
  && (Impl.isBishopValid a b == (Spec.between Spec.bishopDirs a b).isSome)
  && (match Spec.between Spec.rookDirs a b with
      | some l => Impl.rookStrict a b == BB.ofList l | none => true)
  && (match Spec.between Spec.bishopDirs a b with
      | some l => Impl.bishopStrict a b == BB.ofList l | none => true)

def betweenCheck : Bool := Sq.all.all fun a => Sq.all.all fun b => betweenCheckPair a b

theorem between_check : betweenCheck = true := by decide +kernel

theorem between_check_pair (a b : Sq) : betweenCheckPair a b = true := by
  have h := between_check
  unfold betweenCheck at h
  exact (List.all_eq_true.mp ((List.all_eq_true.mp h) a (List.mem_finRange _))) b (List.mem_finRange _)

theorem near_check_sq (s : Sq) :
    Impl.kingAttack s = BB.ofList (stepsOf s Spec.kingSteps)
    ∧ Impl.knightAttack s = BB.ofList (stepsOf s Spec.knightSteps)
    ∧ Impl.pawnAttack .white s = BB.ofList (stepsOf s (pawnSteps .white))
    ∧ Impl.pawnAttack .black s = BB.ofList (stepsOf s (pawnSteps .black)) := by
  have h := (List.all_eq_true.mp near_check) s (List.mem_finRange _)
  simp only [Bool.and_eq_true, beq_iff_eq] at h
  exact ⟨h.1.1.1, h.1.1.2, h.1.2, h.2⟩

end Owl.Lemmas
