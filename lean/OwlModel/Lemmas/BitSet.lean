/-
Bit-set kit: membership lemmas for bitboards (`BB = BitVec 64`) in one simp-normal form.
-/
import OwlModel.Basic

namespace Owl.BB
open Owl

@[simp] theorem has_zero (s : Sq) : BB.has (0#64) s = false := by simp [BB.has]

@[simp] theorem has_zero' (s : Sq) : BB.has 0 s = false := has_zero s

@[simp] theorem has_single (s t : Sq) : (BB.single s).has t = decide (s = t) := by
  unfold BB.has BB.single
  have hs := s.isLt; have ht := t.isLt
  rw [BitVec.getLsbD_shiftLeft]
  by_cases h : s = t
  · subst h; simp [hs]
  · have hv : s.val ≠ t.val := fun e => h (Fin.ext e)
    simp only [ht, decide_true, Bool.true_and, h, decide_false]
    by_cases hlt : t.val < s.val
    · simp [hlt]
    · simp only [hlt, decide_false, Bool.not_false, Bool.true_and]
      have : t.val - s.val ≠ 0 := by omega
      simp [BitVec.getLsbD_one, this]

@[simp] theorem has_or (a b : BB) (s : Sq) : (a ||| b).has s = (a.has s || b.has s) := by simp [BB.has]
@[simp] theorem has_and (a b : BB) (s : Sq) : (a &&& b).has s = (a.has s && b.has s) := by simp [BB.has]
@[simp] theorem has_xor (a b : BB) (s : Sq) : (a ^^^ b).has s = (a.has s ^^ b.has s) := by simp [BB.has]
@[simp] theorem has_not (a : BB) (s : Sq) : (~~~ a).has s = !a.has s := by
  simp [BB.has, s.isLt]
@[simp] theorem has_allOnes (s : Sq) : BB.has (BitVec.allOnes 64) s = true := by
  unfold BB.has; rw [BitVec.getLsbD_allOnes]; simp [s.isLt]

theorem ext_has {a b : BB} (h : ∀ s : Sq, a.has s = b.has s) : a = b := by
  apply BitVec.eq_of_getLsbD_eq
  intro i hi
  exact h ⟨i, hi⟩

theorem isEmpty_iff (a : BB) : a.isEmpty = true ↔ ∀ s : Sq, a.has s = false := by
  unfold BB.isEmpty
  constructor
  · intro h s; have : a = 0#64 := eq_of_beq h; subst this; simp
  · intro h; have : a = 0#64 := ext_has (by intro s; simp [h s]); simp [this]

theorem has_foldl_or (l : List Sq) (acc : BB) (t : Sq) :
    (l.foldl (fun acc s => acc ||| BB.single s) acc).has t = (acc.has t || decide (t ∈ l)) := by
  induction l generalizing acc with
  | nil => simp
  | cons x xs ih =>
    simp only [List.foldl_cons, ih, has_or, has_single, List.mem_cons]
    by_cases h : x = t
    · subst h; simp
    · have : ¬ t = x := fun e => h e.symm
      simp [h, this]

@[simp] theorem has_ofList (l : List Sq) (t : Sq) : (BB.ofList l).has t = decide (t ∈ l) := by
  unfold BB.ofList; rw [has_foldl_or]; simp

theorem mem_toList (b : BB) (s : Sq) : s ∈ b.toList ↔ b.has s = true := by
  simp [BB.toList, Sq.all, List.mem_finRange]

end Owl.BB
