/-
C06, last clause: move construction accepts exactly the (kind, piece, source, destination) tuples that are
geometrically possible for that kind.

  wf_iff_geom : Move.isWellFormed ⟨k, c, s, d⟩ = Spec.geomPossible k (absCell c) s d
  new?_iff    : (Move.new? k c s d).isSome = Spec.geomPossible k (absCell c) s d

Method. A cell is `Cell.empty` or `Cell.mk col pc` (13 cases, decided). For `Cell.mk col pc` both functions
are reduced *symbolically* (source and destination stay variables) to `kind.matchesPiece pc && core`, where
the cores are the small functions `wfgI*` (implementation) and `wfgS*` (rules) below. The equality of the
cores is a closed fact over 64 × 64 squares for a fixed colour, decided in `WfGeomA/B/C` (sliders: derived
there from the between tables of C15, no enumeration). So the kernel never unfolds the large body of
`Move.isWellFormed` inside an enumeration (that, not the ray walks, is what makes the direct
`decide +kernel` over the 532 480 tuples cost about 20 minutes).
-/
import OwlModel.Abs
import OwlModel.Lemmas.WfGeomA
import OwlModel.Lemmas.WfGeomB
import OwlModel.Lemmas.WfGeomC

namespace Owl.Lemmas
open Owl Owl.Impl

/-! ### cells -/

theorem wfg_color_mk (col : Color) (pc : Piece) : (Cell.mk col pc).color = some col := by
  cases col <;> cases pc <;> rfl
theorem wfg_piece_mk (col : Color) (pc : Piece) : (Cell.mk col pc).piece = some pc := by
  cases col <;> cases pc <;> rfl
theorem wfg_mk_ne (col : Color) (pc : Piece) : (Cell.mk col pc = Cell.empty) = False := by
  cases col <;> cases pc <;> simp [Cell.mk, Cell.empty, Piece.idx] <;> decide
theorem wfg_absCell_mk (col : Color) (pc : Piece) : absCell (Cell.mk col pc) = some ⟨col, pc⟩ := by
  cases col <;> cases pc <;> rfl

theorem wfg_cell_list : ∀ c : Cell,
    c = Cell.empty ∨ c = Cell.mk .white .pawn ∨ c = Cell.mk .white .king ∨ c = Cell.mk .white .knight
      ∨ c = Cell.mk .white .bishop ∨ c = Cell.mk .white .rook ∨ c = Cell.mk .white .queen
      ∨ c = Cell.mk .black .pawn ∨ c = Cell.mk .black .king ∨ c = Cell.mk .black .knight
      ∨ c = Cell.mk .black .bishop ∨ c = Cell.mk .black .rook ∨ c = Cell.mk .black .queen := by
  decide

theorem wfg_cell_cases (c : Cell) : c = Cell.empty ∨ ∃ col pc, c = Cell.mk col pc := by
  rcases wfg_cell_list c with h | h | h | h | h | h | h | h | h | h | h | h | h
  · exact Or.inl h
  all_goals exact Or.inr ⟨_, _, h⟩

/-! ### the implementation side, reduced to a small core per kind -/

def wfgICastle (f : Fin 8) (col : Color) (s d : Sq) : Bool :=
  decide (s = Sq.mk fileE (castlingRank col)) && decide (d = Sq.mk f (castlingRank col))
def wfgIDouble (col : Color) (s d : Sq) : Bool :=
  decide (s.file = d.file) && decide (s.rank = doubleSrcRank col) && decide (d.rank = doubleDstRank col)
def wfgIEp (col : Color) (s d : Sq) : Bool :=
  decide (s.rank = epSrcRank col) && decide (d.rank = epDstRank col)
    && decide (absDiff s.file.val d.file.val = 1)
def wfgIProm (col : Color) (s d : Sq) : Bool :=
  decide (s.rank = promoteSrcRank col) && decide (d.rank = promoteDstRank col)
    && decide (absDiff s.file.val d.file.val ≤ 1)
def wfgIPawn (col : Color) (s d : Sq) : Bool :=
  if absDiff s.file.val d.file.val > 1
      || s.rank.val = 7 || s.rank.val = 0 || d.rank.val = 7 || d.rank.val = 0 then false
  else
    match col with
    | .white => s.rank.val = d.rank.val + 1
    | .black => s.rank.val + 1 = d.rank.val
def wfgISimple (col : Color) (pc : Piece) (s d : Sq) : Bool :=
  match pc with
  | .pawn => wfgIPawn col s d
  | .king => (kingAttack s).has d
  | .knight => (knightAttack s).has d
  | .bishop => isBishopValid s d
  | .rook => isRookValid s d
  | .queen => isBishopValid s d || isRookValid s d

theorem wfgi_empty (k : Kind) (s d : Sq) (hk : k ≠ .null) :
    Move.isWellFormed ⟨k, Cell.empty, s, d⟩ = false := by
  simp [Move.isWellFormed, hk]

theorem wfgi_null_mk (col : Color) (pc : Piece) (s d : Sq) :
    Move.isWellFormed ⟨.null, Cell.mk col pc, s, d⟩ = false := by
  have h := wfg_mk_ne col pc
  simp only [Cell.empty] at h
  simp [Move.isWellFormed, Move.null, h]

theorem wfgi_castleK (col : Color) (pc : Piece) (s d : Sq) :
    Move.isWellFormed ⟨.castleK, Cell.mk col pc, s, d⟩ =
      (Kind.matchesPiece .castleK pc && (!decide (s = d) && wfgICastle fileG col s d)) := by
  by_cases h : s = d <;> cases pc <;>
    simp [Move.isWellFormed, wfg_color_mk, wfg_piece_mk, wfg_mk_ne, Kind.matchesPiece, wfgICastle, h]
theorem wfgi_castleQ (col : Color) (pc : Piece) (s d : Sq) :
    Move.isWellFormed ⟨.castleQ, Cell.mk col pc, s, d⟩ =
      (Kind.matchesPiece .castleQ pc && (!decide (s = d) && wfgICastle fileC col s d)) := by
  by_cases h : s = d <;> cases pc <;>
    simp [Move.isWellFormed, wfg_color_mk, wfg_piece_mk, wfg_mk_ne, Kind.matchesPiece, wfgICastle, h]
theorem wfgi_double (col : Color) (pc : Piece) (s d : Sq) :
    Move.isWellFormed ⟨.double, Cell.mk col pc, s, d⟩ =
      (Kind.matchesPiece .double pc && (!decide (s = d) && wfgIDouble col s d)) := by
  by_cases h : s = d <;> cases pc <;>
    simp [Move.isWellFormed, wfg_color_mk, wfg_piece_mk, wfg_mk_ne, Kind.matchesPiece, wfgIDouble, h]
theorem wfgi_ep (col : Color) (pc : Piece) (s d : Sq) :
    Move.isWellFormed ⟨.ep, Cell.mk col pc, s, d⟩ =
      (Kind.matchesPiece .ep pc && (!decide (s = d) && wfgIEp col s d)) := by
  by_cases h : s = d <;> cases pc <;>
    simp [Move.isWellFormed, wfg_color_mk, wfg_piece_mk, wfg_mk_ne, Kind.matchesPiece, wfgIEp, h]
theorem wfgi_promN (col : Color) (pc : Piece) (s d : Sq) :
    Move.isWellFormed ⟨.promN, Cell.mk col pc, s, d⟩ =
      (Kind.matchesPiece .promN pc && (!decide (s = d) && wfgIProm col s d)) := by
  by_cases h : s = d <;> cases pc <;>
    simp [Move.isWellFormed, wfg_color_mk, wfg_piece_mk, wfg_mk_ne, Kind.matchesPiece, wfgIProm, h]
theorem wfgi_promB (col : Color) (pc : Piece) (s d : Sq) :
    Move.isWellFormed ⟨.promB, Cell.mk col pc, s, d⟩ =
      (Kind.matchesPiece .promB pc && (!decide (s = d) && wfgIProm col s d)) := by
  by_cases h : s = d <;> cases pc <;>
    simp [Move.isWellFormed, wfg_color_mk, wfg_piece_mk, wfg_mk_ne, Kind.matchesPiece, wfgIProm, h]
theorem wfgi_promR (col : Color) (pc : Piece) (s d : Sq) :
    Move.isWellFormed ⟨.promR, Cell.mk col pc, s, d⟩ =
      (Kind.matchesPiece .promR pc && (!decide (s = d) && wfgIProm col s d)) := by
  by_cases h : s = d <;> cases pc <;>
    simp [Move.isWellFormed, wfg_color_mk, wfg_piece_mk, wfg_mk_ne, Kind.matchesPiece, wfgIProm, h]
theorem wfgi_promQ (col : Color) (pc : Piece) (s d : Sq) :
    Move.isWellFormed ⟨.promQ, Cell.mk col pc, s, d⟩ =
      (Kind.matchesPiece .promQ pc && (!decide (s = d) && wfgIProm col s d)) := by
  by_cases h : s = d <;> cases pc <;>
    simp [Move.isWellFormed, wfg_color_mk, wfg_piece_mk, wfg_mk_ne, Kind.matchesPiece, wfgIProm, h]
theorem wfgi_simple (col : Color) (pc : Piece) (s d : Sq) :
    Move.isWellFormed ⟨.simple, Cell.mk col pc, s, d⟩ = (!decide (s = d) && wfgISimple col pc s d) := by
  by_cases h : s = d <;> cases pc <;> cases col <;>
    simp [Move.isWellFormed, wfg_color_mk, wfg_piece_mk, wfg_mk_ne, Kind.matchesPiece, wfgISimple, wfgIPawn, h]

/-! ### the rule side, reduced to a small core per kind -/

def wfgSCastle (f : Fin 8) (col : Color) (s d : Sq) : Bool :=
  decide (s = Spec.kingHome col) && decide (d = Spec.sqOf f (Spec.homeRank col))
def wfgSDouble (col : Color) (s d : Sq) : Bool :=
  decide (Spec.file s = Spec.file d) && decide (Spec.rank s = Spec.pawnStartRank col)
    && decide (Spec.rank d = Spec.doubleDstRank col)
def wfgSEp (col : Color) (s d : Sq) : Bool :=
  decide (Spec.rank s = Spec.doubleDstRank col.inv)
    && ([(-1 : Int), 1].any fun df => Spec.step s (df, Spec.forward col) == some d)
def wfgSProm (col : Color) (s d : Sq) : Bool :=
  decide (Spec.rank d = Spec.promoRank col)
    && ([(-1 : Int), 0, 1].any fun df => Spec.step s (df, Spec.forward col) == some d)
def wfgSPawn (col : Color) (s d : Sq) : Bool :=
  ([(-1 : Int), 0, 1].any fun df => Spec.step s (df, Spec.forward col) == some d)
    && decide (Spec.rank s ≠ 0) && decide (Spec.rank s ≠ 7)
    && decide (Spec.rank d ≠ 0) && decide (Spec.rank d ≠ 7)
def wfgSSimple (col : Color) (pc : Piece) (s d : Sq) : Bool :=
  match pc with
  | .pawn => wfgSPawn col s d
  | .king => Spec.kingSteps.any fun st => Spec.step s st == some d
  | .knight => Spec.knightSteps.any fun st => Spec.step s st == some d
  | pc => Spec.onRay (Spec.dirsOf pc) s d

theorem wfgs_empty (k : Kind) (s d : Sq) (hk : k ≠ .null) :
    Spec.geomPossible k (absCell Cell.empty) s d = false := by
  cases k <;> first | rfl | exact absurd rfl hk

theorem wfgs_null_mk (col : Color) (pc : Piece) (s d : Sq) :
    Spec.geomPossible .null (absCell (Cell.mk col pc)) s d = false := by
  rw [wfg_absCell_mk]; rfl
theorem wfgs_castleK (col : Color) (pc : Piece) (s d : Sq) :
    Spec.geomPossible .castleK (absCell (Cell.mk col pc)) s d =
      (Kind.matchesPiece .castleK pc && wfgSCastle 6 col s d) := by
  rw [wfg_absCell_mk]; cases pc <;> rfl
theorem wfgs_castleQ (col : Color) (pc : Piece) (s d : Sq) :
    Spec.geomPossible .castleQ (absCell (Cell.mk col pc)) s d =
      (Kind.matchesPiece .castleQ pc && wfgSCastle 2 col s d) := by
  rw [wfg_absCell_mk]; cases pc <;> rfl
theorem wfgs_double (col : Color) (pc : Piece) (s d : Sq) :
    Spec.geomPossible .double (absCell (Cell.mk col pc)) s d =
      (Kind.matchesPiece .double pc && wfgSDouble col s d) := by
  rw [wfg_absCell_mk]; cases pc <;> rfl
theorem wfgs_ep (col : Color) (pc : Piece) (s d : Sq) :
    Spec.geomPossible .ep (absCell (Cell.mk col pc)) s d =
      (Kind.matchesPiece .ep pc && wfgSEp col s d) := by
  rw [wfg_absCell_mk]; cases pc <;> rfl
theorem wfgs_promN (col : Color) (pc : Piece) (s d : Sq) :
    Spec.geomPossible .promN (absCell (Cell.mk col pc)) s d =
      (Kind.matchesPiece .promN pc && wfgSProm col s d) := by
  rw [wfg_absCell_mk]; cases pc <;> rfl
theorem wfgs_promB (col : Color) (pc : Piece) (s d : Sq) :
    Spec.geomPossible .promB (absCell (Cell.mk col pc)) s d =
      (Kind.matchesPiece .promB pc && wfgSProm col s d) := by
  rw [wfg_absCell_mk]; cases pc <;> rfl
theorem wfgs_promR (col : Color) (pc : Piece) (s d : Sq) :
    Spec.geomPossible .promR (absCell (Cell.mk col pc)) s d =
      (Kind.matchesPiece .promR pc && wfgSProm col s d) := by
  rw [wfg_absCell_mk]; cases pc <;> rfl
theorem wfgs_promQ (col : Color) (pc : Piece) (s d : Sq) :
    Spec.geomPossible .promQ (absCell (Cell.mk col pc)) s d =
      (Kind.matchesPiece .promQ pc && wfgSProm col s d) := by
  rw [wfg_absCell_mk]; cases pc <;> rfl
theorem wfgs_simple (col : Color) (pc : Piece) (s d : Sq) :
    Spec.geomPossible .simple (absCell (Cell.mk col pc)) s d =
      (decide (s ≠ d) && wfgSSimple col pc s d) := by
  rw [wfg_absCell_mk]; cases pc <;> rfl

/-! ### the cores agree (facts of `WfGeomA/B/C`) -/

theorem wfg_not_decide_eq (s d : Sq) : (!decide (s = d)) = decide (s ≠ d) := by simp

theorem wfg_core_castleK (col : Color) (s d : Sq) :
    (!decide (s = d) && wfgICastle fileG col s d) = wfgSCastle 6 col s d := by
  cases col
  · exact wfg_fact_castleK_w s d
  · exact wfg_fact_castleK_b s d
theorem wfg_core_castleQ (col : Color) (s d : Sq) :
    (!decide (s = d) && wfgICastle fileC col s d) = wfgSCastle 2 col s d := by
  cases col
  · exact wfg_fact_castleQ_w s d
  · exact wfg_fact_castleQ_b s d
theorem wfg_core_double (col : Color) (s d : Sq) :
    (!decide (s = d) && wfgIDouble col s d) = wfgSDouble col s d := by
  cases col
  · exact wfg_fact_double_w s d
  · exact wfg_fact_double_b s d
theorem wfg_core_ep (col : Color) (s d : Sq) :
    (!decide (s = d) && wfgIEp col s d) = wfgSEp col s d := by
  cases col
  · exact wfg_fact_ep_w s d
  · exact wfg_fact_ep_b s d
theorem wfg_core_prom (col : Color) (s d : Sq) :
    (!decide (s = d) && wfgIProm col s d) = wfgSProm col s d := by
  cases col
  · exact wfg_fact_prom_w s d
  · exact wfg_fact_prom_b s d
theorem wfg_core_simple (col : Color) (pc : Piece) (s d : Sq) :
    (!decide (s = d) && wfgISimple col pc s d) = (decide (s ≠ d) && wfgSSimple col pc s d) := by
  cases pc
  · cases col
    · exact wfg_fact_pawn_w s d
    · exact wfg_fact_pawn_b s d
  · exact wfg_fact_king s d
  · exact wfg_fact_knight s d
  · show (!decide (s = d) && isBishopValid s d) = (decide (s ≠ d) && Spec.onRay Spec.bishopDirs s d)
    rw [wfg_fact_bishop, wfg_not_decide_eq]
  · show (!decide (s = d) && isRookValid s d) = (decide (s ≠ d) && Spec.onRay Spec.rookDirs s d)
    rw [wfg_fact_rook, wfg_not_decide_eq]
  · show (!decide (s = d) && (isBishopValid s d || isRookValid s d))
      = (decide (s ≠ d) && Spec.onRay (Spec.bishopDirs ++ Spec.rookDirs) s d)
    rw [wfg_fact_bishop, wfg_fact_rook, wfg_not_decide_eq, wfg_onRay_append]

/-! ### assembly -/

/-- C06: `Move::is_well_formed` accepts exactly the geometrically possible tuples. -/
theorem wf_iff_geom (k : Kind) (c : Cell) (s d : Sq) :
    Move.isWellFormed ⟨k, c, s, d⟩ = Spec.geomPossible k (absCell c) s d := by
  rcases wfg_cell_cases c with rfl | ⟨col, pc, rfl⟩
  · by_cases hk : k = .null
    · subst hk; exact wfg_fact_null s d
    · rw [wfgi_empty k s d hk, wfgs_empty k s d hk]
  · cases k
    · rw [wfgi_null_mk, wfgs_null_mk]
    · rw [wfgi_simple, wfgs_simple, wfg_core_simple]
    · rw [wfgi_castleK, wfgs_castleK, wfg_core_castleK]
    · rw [wfgi_castleQ, wfgs_castleQ, wfg_core_castleQ]
    · rw [wfgi_double, wfgs_double, wfg_core_double]
    · rw [wfgi_ep, wfgs_ep, wfg_core_ep]
    · rw [wfgi_promN, wfgs_promN, wfg_core_prom]
    · rw [wfgi_promB, wfgs_promB, wfg_core_prom]
    · rw [wfgi_promR, wfgs_promR, wfg_core_prom]
    · rw [wfgi_promQ, wfgs_promQ, wfg_core_prom]

/-- C06: `Move::new` returns a move exactly for the geometrically possible tuples. -/
theorem new?_iff (k : Kind) (c : Cell) (s d : Sq) :
    (Move.new? k c s d).isSome = Spec.geomPossible k (absCell c) s d := by
  rw [← wf_iff_geom]
  unfold Move.new?
  cases h : Move.isWellFormed ⟨k, c, s, d⟩ <;> simp [h]

end Owl.Lemmas
