import OwlModel.Props.C06
import OwlModel.Props.C19
namespace Owl.Props.C19
open Owl Owl.Impl Owl.Lemmas Owl.Props
set_option linter.unusedSimpArgs false
set_option linter.unusedVariables false
/-!
# C19: no valid position has more than 256 semilegal moves

`semilegal_count_le_256 : Valid b → (semilegalGen .all b).length ≤ 256`.

The bound is tight in the sense that positions with 242 pseudo-legal moves satisfy `Valid` (and 248 without the
"opponent not in check" clause), so there is little room for slack. The proof is a checked optimisation certificate:

1. (`gen_le_pseudo`) the generator output has no duplicates and maps injectively into `Spec.pseudoMoves`, so it is
   enough to bound the length of that list.
2. (`pseudo_len`) forget the enemy men: with `τ s` the kind of own man on `s`, a slider has at most as many moves along
   a ray as there are squares before the first own man; a knight / king / pawn is charged a constant depending on its
   square only (pawn: every capture and push counted as available, ×4 on the seventh rank). The sum is `score`.
3. (`slider_total`) the slider part of `score` is a sum, over the 4 × 15-or-8 lines of the board, of a function `go` of
   the contents of that line alone.
4. (`dp_sound`, `leaf_sound`) Lagrangian / LP duality: for any weights `w(square, axis, slider-or-blocker)`,
   `1000·go(line) ≤ U_line + Σ weights of the men on the line`, where `U_line` is a maximum over all contents of the
   line, computed by a four-value dynamic programme. Summing, `1000·score ≤ Σ U_line + Σ_s V(s, τ s)` where `V` collects
   the four weights of a man and its constant. With at most 16 men and a multiplier `μ ≥ 0`,
   `Σ_s V(s, τ s) ≤ 16 μ + Σ_s max_t (V(s,t) − μ)`.
5. (`tree_sound`) this bound is below `257·1000` after a small case split: the king's square (64 cases) and, where
   needed, "queen on `s` / no queen on `s`" for a few squares `s` (471 leaves in all, both colours).
6. The weights come from an LP solver, rounded to integers; `checkTree` recomputes every bound exactly and the kernel
   evaluates it. The search is not trusted.
-/


/-! ## 1. sums over lists -/

theorem sum_map_le_nat {α : Type} (l : List α) (f g : α → Nat) (h : ∀ x ∈ l, f x ≤ g x) :
    (l.map f).sum ≤ (l.map g).sum := by
  induction l with
  | nil => simp
  | cons a r ih =>
    simp only [List.map_cons, List.sum_cons]
    have h1 := h a (List.mem_cons_self ..)
    have h2 := ih (fun x hx => h x (List.mem_cons_of_mem _ hx))
    omega

theorem sum_map_le_int {α : Type} (l : List α) (f g : α → Int) (h : ∀ x ∈ l, f x ≤ g x) :
    (l.map f).sum ≤ (l.map g).sum := by
  induction l with
  | nil => simp
  | cons a r ih =>
    simp only [List.map_cons, List.sum_cons]
    have h1 := h a (List.mem_cons_self ..)
    have h2 := ih (fun x hx => h x (List.mem_cons_of_mem _ hx))
    omega

theorem sum_map_add_nat {α : Type} (l : List α) (f g : α → Nat) :
    (l.map fun x => f x + g x).sum = (l.map f).sum + (l.map g).sum := by
  induction l with
  | nil => simp
  | cons a r ih => simp only [List.map_cons, List.sum_cons, ih]; omega

theorem sum_map_add_int {α : Type} (l : List α) (f g : α → Int) :
    (l.map fun x => f x + g x).sum = (l.map f).sum + (l.map g).sum := by
  induction l with
  | nil => simp
  | cons a r ih => simp only [List.map_cons, List.sum_cons, ih]; omega

theorem sum_map_sub_int {α : Type} (l : List α) (f g : α → Int) :
    (l.map fun x => f x - g x).sum = (l.map f).sum - (l.map g).sum := by
  induction l with
  | nil => simp
  | cons a r ih => simp only [List.map_cons, List.sum_cons, ih]; omega

theorem sum_map_scale {α : Type} (l : List α) (f : α → Nat) :
    (l.map fun x => 1000 * (f x : Int)).sum = 1000 * ((l.map f).sum : Int) := by
  induction l with
  | nil => simp
  | cons a r ih => simp only [List.map_cons, List.sum_cons, ih]; omega

theorem perm_sum_int {l₁ l₂ : List Int} (h : l₁.Perm l₂) : l₁.sum = l₂.sum := by
  induction h with
  | nil => rfl
  | cons x _ ih => simp only [List.sum_cons, ih]
  | swap x y l => simp only [List.sum_cons]; omega
  | trans _ _ ih1 ih2 => exact ih1.trans ih2

theorem sum_flatten_nat {α : Type} (ls : List (List α)) (h : α → Nat) :
    (ls.map fun l => (l.map h).sum).sum = (ls.flatten.map h).sum := by
  induction ls with
  | nil => simp
  | cons a r ih => simp only [List.map_cons, List.sum_cons, List.flatten_cons, List.map_append, List.sum_append, ih]

theorem sum_flatten_int {α : Type} (ls : List (List α)) (h : α → Int) :
    (ls.map fun l => (l.map h).sum).sum = (ls.flatten.map h).sum := by
  induction ls with
  | nil => simp
  | cons a r ih => simp only [List.map_cons, List.sum_cons, List.flatten_cons, List.map_append, List.sum_append, ih]

theorem sum_ite_filter {α : Type} (l : List α) (p : α → Bool) (μ : Int) :
    (l.map fun x => if p x = true then μ else 0).sum = μ * ((l.filter p).length : Int) := by
  induction l with
  | nil => simp
  | cons a r ih =>
    simp only [List.map_cons, List.sum_cons, ih, List.filter_cons]
    cases p a
    · simp
    · simp only [if_true, List.length_cons, Int.natCast_add, Int.mul_add]; simp; omega

theorem nodup_subset_length {α : Type} [DecidableEq α] :
    ∀ (l l' : List α), l.Nodup → (∀ x ∈ l, x ∈ l') → l.length ≤ l'.length := by
  intro l
  induction l with
  | nil => intro l' _ _; simp
  | cons a r ih =>
    intro l' hn hs
    have ha : a ∈ l' := hs a (List.mem_cons_self ..)
    rw [List.nodup_cons] at hn
    have h1 : r.length ≤ (l'.erase a).length := by
      apply ih _ hn.2
      intro x hx
      have hxa : x ≠ a := fun e => hn.1 (e ▸ hx)
      exact (List.mem_erase_of_ne hxa).mpr (hs x (List.mem_cons_of_mem _ hx))
    rw [List.length_erase_of_mem ha] at h1
    have : 0 < l'.length := List.length_pos_of_mem ha
    simp only [List.length_cons]
    omega

/-! ## 2. the counting model: own men only

`τ : Sq → Ty` records, for every square, the kind of man of the side to move standing there (`e` = none of
its men: empty or an enemy man). Sliders are charged the number of squares up to the first own man along each of
their rays; knights, kings and pawns a constant that depends on the square only. -/

inductive Ty | e | k | q | r | b | n | p
  deriving DecidableEq, Repr

def isE : Ty → Bool
  | .e => true
  | _ => false

/-- does a man of type `t` slide along axis `ax` (0 rank line, 1 file line, 2 diagonal, 3 antidiagonal)? -/
def slides (ax : Nat) : Ty → Bool
  | .q => true
  | .r => decide (ax < 2)
  | .b => decide (2 ≤ ax)
  | _ => false

theorem slides_e (ax : Nat) (t : Ty) (h : isE t = true) : slides ax t = false := by
  cases t <;> simp_all [isE, slides]

/-- number of leading squares of `l` not holding an own man -/
def tw (τ : Sq → Ty) : List Sq → Nat
  | [] => 0
  | x :: r => if isE (τ x) = true then 1 + tw τ r else 0

def axisDir : Nat → Int × Int
  | 0 => (1, 0) | 1 => (0, 1) | 2 => (1, 1) | _ => (1, -1)
def axisOpp : Nat → Int × Int
  | 0 => (-1, 0) | 1 => (0, -1) | 2 => (-1, -1) | _ => (-1, 1)

def twr (τ : Sq → Ty) (d : Int × Int) (s : Sq) : Nat := tw τ (Spec.ray d 7 s)

/-- moves charged to the man on `x` along axis `ax` -/
def fAx (τ : Sq → Ty) (ax : Nat) (x : Sq) : Nat :=
  if slides ax (τ x) = true then twr τ (axisDir ax) x + twr τ (axisOpp ax) x else 0

/-- the same, computed inside a line given as a list: `pre` is the part already passed (nearest first) -/
def cnt (τ : Sq → Ty) (ax : Nat) : List Sq → List Sq → Nat
  | _, [] => 0
  | pre, x :: r => (if slides ax (τ x) = true then tw τ r + tw τ pre else 0) + cnt τ ax (x :: pre) r

/-- left-to-right automaton computing the same number: `ls` = the nearest own man passed is a slider,
`m` = number of free squares since it -/
def go (τ : Sq → Ty) (ax : Nat) : Bool → Nat → List Sq → Nat
  | _, _, [] => 0
  | ls, m, x :: r =>
    if isE (τ x) = true then (if ls = true then 1 else 0) + go τ ax ls (m + 1) r
    else if slides ax (τ x) = true then m + go τ ax true 0 r
    else go τ ax false 0 r

def lsOf (τ : Sq → Ty) (ax : Nat) : List Sq → Bool
  | [] => false
  | y :: r => if isE (τ y) = true then lsOf τ ax r else slides ax (τ y)

theorem go_cnt (τ : Sq → Ty) (ax : Nat) : ∀ (r pre : List Sq),
    go τ ax (lsOf τ ax pre) (tw τ pre) r = cnt τ ax pre r + (if lsOf τ ax pre = true then tw τ r else 0) := by
  intro r
  induction r with
  | nil => intro pre; simp [go, cnt, tw]
  | cons x r ih =>
    intro pre
    have ih' := ih (x :: pre)
    by_cases he : isE (τ x) = true
    · have hs := slides_e ax _ he
      simp only [lsOf, tw, he, if_true] at ih'
      have e1 : 1 + tw τ pre = tw τ pre + 1 := by omega
      rw [e1] at ih'
      simp only [go, cnt, tw, he, if_true, hs, Bool.false_eq_true, if_false, ih']
      cases lsOf τ ax pre <;> simp <;> omega
    · by_cases hs : slides ax (τ x) = true
      · simp only [lsOf, tw, he, if_false, hs, if_true, Bool.false_eq_true] at ih'
        simp only [go, cnt, tw, he, hs, if_true, if_false, Bool.false_eq_true, ih']
        cases lsOf τ ax pre <;> simp <;> omega
      · have hs' : slides ax (τ x) = false := by simpa using hs
        simp only [lsOf, tw, he, if_false, hs', Bool.false_eq_true] at ih'
        simp only [go, cnt, tw, he, hs', if_false, Bool.false_eq_true, ih']
        cases lsOf τ ax pre <;> simp

theorem go_eq_cnt (τ : Sq → Ty) (ax : Nat) (l : List Sq) : go τ ax false 0 l = cnt τ ax [] l := by
  have := go_cnt τ ax l []
  simpa [lsOf, tw] using this

/-- the list `pre ++ rest` read as a line: each square's two rays are the rest of the list and the part passed -/
def geomOK (ax : Nat) : List Sq → List Sq → Bool
  | _, [] => true
  | pre, x :: r =>
    decide (Spec.ray (axisDir ax) 7 x = r) && decide (Spec.ray (axisOpp ax) 7 x = pre) && geomOK ax (x :: pre) r

theorem cnt_geom (τ : Sq → Ty) (ax : Nat) : ∀ (r pre : List Sq), geomOK ax pre r = true →
    cnt τ ax pre r = (r.map (fAx τ ax)).sum := by
  intro r
  induction r with
  | nil => intro pre _; simp [cnt]
  | cons x r ih =>
    intro pre h
    simp only [geomOK, Bool.and_eq_true, decide_eq_true_eq] at h
    obtain ⟨⟨h1, h2⟩, h3⟩ := h
    simp only [cnt, List.map_cons, List.sum_cons, ih _ h3, fAx, twr, h1, h2]

def linesOf (ax : Nat) : List (List Sq) :=
  (Spec.allSq.filter fun e => (Spec.step e (axisOpp ax)).isNone).map fun e => e :: Spec.ray (axisDir ax) 7 e

theorem lines_geom : ∀ ax ∈ [0, 1, 2, 3], (linesOf ax).all (geomOK ax []) = true := by decide +kernel

theorem lines_perm : ∀ ax ∈ [0, 1, 2, 3], (linesOf ax).flatten.isPerm Spec.allSq = true := by decide +kernel

/-- double counting: the moves charged along axis `ax`, summed square by square or line by line -/
theorem axis_sum (τ : Sq → Ty) (ax : Nat) (hax : ax ∈ [0, 1, 2, 3]) :
    ((linesOf ax).map fun l => go τ ax false 0 l).sum = (Spec.allSq.map (fAx τ ax)).sum := by
  have hg := lines_geom ax hax
  have hp := List.isPerm_iff.mp (lines_perm ax hax)
  have h1 : ((linesOf ax).map fun l => go τ ax false 0 l) = (linesOf ax).map fun l => (l.map (fAx τ ax)).sum := by
    apply List.map_congr_left
    intro l hl
    rw [go_eq_cnt]
    exact cnt_geom τ ax l [] (List.all_eq_true.mp hg l hl)
  rw [h1, sum_flatten_nat]
  exact (hp.map (fAx τ ax)).sum_nat

/-- moves charged to a slider -/
def slCap (τ : Sq → Ty) (s : Sq) : Nat :=
  match τ s with
  | .q => ((Spec.dirsOf .queen).map fun d => twr τ d s).sum
  | .r => ((Spec.dirsOf .rook).map fun d => twr τ d s).sum
  | .b => ((Spec.dirsOf .bishop).map fun d => twr τ d s).sum
  | _ => 0

theorem slCap_axes (τ : Sq → Ty) (s : Sq) : slCap τ s = fAx τ 0 s + fAx τ 1 s + fAx τ 2 s + fAx τ 3 s := by
  unfold slCap fAx
  cases h : τ s <;>
    simp [slides, axisDir, axisOpp, Spec.dirsOf, Spec.bishopDirs, Spec.rookDirs] <;> omega

theorem slider_total (τ : Sq → Ty) :
    (Spec.allSq.map (slCap τ)).sum =
      ((linesOf 0).map fun l => go τ 0 false 0 l).sum + ((linesOf 1).map fun l => go τ 1 false 0 l).sum
      + ((linesOf 2).map fun l => go τ 2 false 0 l).sum + ((linesOf 3).map fun l => go τ 3 false 0 l).sum := by
  rw [axis_sum τ 0 (by decide), axis_sum τ 1 (by decide), axis_sum τ 2 (by decide), axis_sum τ 3 (by decide)]
  rw [← sum_map_add_nat, ← sum_map_add_nat, ← sum_map_add_nat]
  congr 1
  apply List.map_congr_left
  intro s _
  exact slCap_axes τ s

/-! ## 3. certificates

A certificate for a set of positions (king on `κ`, queens on the squares `fq`, no queen on the squares `nq`) consists
of a multiplier `μ ≥ 0` and, for every square, axis and symbol (slider / blocker), a weight (scaled by `1000`, packed
into one natural number). Checking it needs (i) for every line the maximum over all contents of the line of
`1000 · (moves along the line) − (weights of the contents)`, computed by a four-value dynamic programme, and (ii) for
every square the largest value any allowed man can have there. -/

def scaleD : Int := 1000
def negBig : Int := -100000000

/-- packed weight: 16-bit field, offset 32768; `o = 0` slider, `o = 1` blocker -/
def wGet (w : Nat) (s : Sq) (ax : Nat) (o : Nat) : Int :=
  (((w >>> (16 * (s.val * 8 + ax * 2 + o))) % 65536 : Nat) : Int) - 32768

structure St where
  xF : Int
  xT : Int
  yF : Int
  yT : Int

def St.init : St := ⟨0, 0, negBig, negBig⟩
def St.X (st : St) (ls : Bool) : Int := if ls = true then st.xT else st.xF
def St.Y (st : St) (ls : Bool) : Int := if ls = true then st.yT else st.yF
def St.top (s : St) : Int := max s.xF s.yF

/-- one square of the line; `mode` 0: any content, 1: a slider, 2: a blocker -/
def dpStep (mode : Nat) (wS wO : Int) (n : St) : St :=
  let bF := max n.xF n.yF
  let bT := max n.xT n.yT
  match mode with
  | 0 => ⟨max n.xF (bF - wO), max (scaleD + n.xT) (bF - wO), max (scaleD + n.yF) (bT - wS),
          max (2 * scaleD + n.yT) (bT - wS)⟩
  | 1 => ⟨negBig, negBig, bT - wS, bT - wS⟩
  | _ => ⟨bF - wO, bF - wO, negBig, negBig⟩

def modeOf (κ : Sq) (fq : List Sq) (s : Sq) : Nat :=
  if s = κ then 2 else if fq.contains s = true then 1 else 0

def lineDP (κ : Sq) (fq : List Sq) (w : Nat) (ax : Nat) : List Sq → St
  | [] => St.init
  | x :: r => dpStep (modeOf κ fq x) (wGet w x ax 0) (wGet w x ax 1) (lineDP κ fq w ax r)

def pickW (τ : Sq → Ty) (w : Nat) (ax : Nat) (x : Sq) : Int :=
  if isE (τ x) = true then 0 else if slides ax (τ x) = true then wGet w x ax 0 else wGet w x ax 1

def wsum (τ : Sq → Ty) (w : Nat) (ax : Nat) (l : List Sq) : Int := (l.map (pickW τ w ax)).sum

theorem wsum_cons (τ : Sq → Ty) (w : Nat) (ax : Nat) (x : Sq) (r : List Sq) :
    wsum τ w ax (x :: r) = pickW τ w ax x + wsum τ w ax r := by
  simp [wsum]

theorem modeOf_cases (κ : Sq) (fq : List Sq) (x : Sq) :
    (x = κ ∧ modeOf κ fq x = 2) ∨ (x ≠ κ ∧ fq.contains x = true ∧ modeOf κ fq x = 1)
      ∨ (x ≠ κ ∧ ¬ fq.contains x = true ∧ modeOf κ fq x = 0) := by
  unfold modeOf
  by_cases h1 : x = κ
  · exact Or.inl ⟨h1, by rw [if_pos h1]⟩
  · by_cases h2 : fq.contains x = true
    · exact Or.inr (Or.inl ⟨h1, h2, by rw [if_neg h1, if_pos h2]⟩)
    · exact Or.inr (Or.inr ⟨h1, h2, by rw [if_neg h1, if_neg h2]⟩)

theorem dp_sound (τ : Sq → Ty) (κ : Sq) (fq : List Sq) (hκ : τ κ = .k)
    (hfq : ∀ s, fq.contains s = true → τ s = .q) (w ax : Nat) :
    ∀ (r : List Sq) (ls : Bool) (m : Nat),
      1000 * (go τ ax ls m r : Int) - wsum τ w ax r
        ≤ max ((lineDP κ fq w ax r).X ls) (1000 * (m : Int) + (lineDP κ fq w ax r).Y ls) := by
  intro r
  induction r with
  | nil =>
    intro ls m
    cases ls <;> simp [go, wsum, lineDP, St.init, St.X, St.Y, negBig] <;> omega
  | cons x r ih =>
    intro ls m
    have i1 := ih ls (m + 1)
    have i2 := ih true 0
    have i3 := ih false 0
    simp only [lineDP, wsum_cons, pickW]
    generalize lineDP κ fq w ax r = n at i1 i2 i3 ⊢
    generalize wsum τ w ax r = W at i1 i2 i3 ⊢
    generalize wGet w x ax 0 = wS
    generalize wGet w x ax 1 = wO
    simp only [St.X, St.Y, if_true, Bool.false_eq_true, if_false] at i2 i3
    by_cases he : isE (τ x) = true
    · have hm : modeOf κ fq x = 0 := by
        rcases modeOf_cases κ fq x with ⟨h1, _⟩ | ⟨_, h2, _⟩ | ⟨_, _, h3⟩
        · rw [h1, hκ] at he; simp [isE] at he
        · rw [hfq x h2] at he; simp [isE] at he
        · exact h3
      simp only [go, he, if_true, pickW, hm, dpStep, scaleD]
      cases ls
      · simp only [St.X, St.Y, Bool.false_eq_true, if_false] at i1 ⊢
        omega
      · simp only [St.X, St.Y, if_true] at i1 ⊢
        omega
    · by_cases hs : slides ax (τ x) = true
      · have hm : modeOf κ fq x = 0 ∨ modeOf κ fq x = 1 := by
          rcases modeOf_cases κ fq x with ⟨h1, _⟩ | ⟨_, _, h3⟩ | ⟨_, _, h3⟩
          · rw [h1, hκ] at hs; simp [slides] at hs
          · exact Or.inr h3
          · exact Or.inl h3
        rcases hm with hm | hm <;> simp only [go, he, hs, if_true, if_false, pickW, hm, dpStep, scaleD] <;>
          cases ls <;> simp only [St.X, St.Y, Bool.false_eq_true, if_false, if_true] <;> omega
      · have hm : modeOf κ fq x = 0 ∨ modeOf κ fq x = 2 := by
          rcases modeOf_cases κ fq x with ⟨_, h3⟩ | ⟨_, h2, _⟩ | ⟨_, _, h3⟩
          · exact Or.inr h3
          · rw [hfq x h2] at hs; simp [slides] at hs
          · exact Or.inl h3
        rcases hm with hm | hm <;> simp only [go, he, hs, if_false, pickW, hm, dpStep, scaleD] <;>
          cases ls <;> simp only [St.X, St.Y, Bool.false_eq_true, if_false, if_true] <;> omega

theorem line_bound (τ : Sq → Ty) (κ : Sq) (fq : List Sq) (hκ : τ κ = .k)
    (hfq : ∀ s, fq.contains s = true → τ s = .q) (w ax : Nat) (l : List Sq) :
    1000 * (go τ ax false 0 l : Int) ≤ (lineDP κ fq w ax l).top + wsum τ w ax l := by
  have := dp_sound τ κ fq hκ hfq w ax l false 0
  simp only [St.X, St.Y, Bool.false_eq_true, if_false] at this
  unfold St.top
  omega

/-! ## 4. soundness of a certificate -/

def nSteps (s : Sq) : Nat := (Spec.knightSteps.filterMap (Spec.step s)).length
def kSteps (s : Sq) : Nat := (Spec.kingSteps.filterMap (Spec.step s)).length
def pk (c : Color) (t : Sq) : Nat := if Spec.rank t = Spec.promoRank c then 4 else 1
/-- a bound on the number of moves of a pawn of colour `c` on `s` that depends on the square only -/
def pawnCap (c : Color) (s : Sq) : Nat :=
  (match Spec.step s (0, Spec.forward c) with
    | some t => pk c t + (if Spec.rank s = Spec.pawnStartRank c then 1 else 0)
    | none => 0)
  + (match Spec.step s (-1, Spec.forward c) with | some t => pk c t | none => 0)
  + (match Spec.step s (1, Spec.forward c) with | some t => pk c t | none => 0)

def localCap (c : Color) (t : Ty) (s : Sq) : Nat :=
  match t with
  | .k => kSteps s | .n => nSteps s | .p => pawnCap c s | _ => 0

/-- the number the counting model assigns to a position (castling excluded) -/
def score (c : Color) (τ : Sq → Ty) : Nat :=
  (Spec.allSq.map (slCap τ)).sum + (Spec.allSq.map fun s => localCap c (τ s) s).sum

def vOf (c : Color) (w : Nat) (s : Sq) (t : Ty) : Int :=
  (if slides 0 t = true then wGet w s 0 0 else wGet w s 0 1) + (if slides 1 t = true then wGet w s 1 0 else wGet w s 1 1)
  + (if slides 2 t = true then wGet w s 2 0 else wGet w s 2 1) + (if slides 3 t = true then wGet w s 3 0 else wGet w s 3 1)
  + scaleD * (localCap c t s : Int)

def pawnOK (s : Sq) : Bool := Spec.rank s != 0 && Spec.rank s != 7

def mOf (c : Color) (κ : Sq) (fq nq : List Sq) (w : Nat) (μ : Int) (s : Sq) : Int :=
  if s = κ then vOf c w s .k - μ
  else if fq.contains s = true then vOf c w s .q - μ
  else max 0 (max (vOf c w s .r - μ) (max (vOf c w s .b - μ) (max (vOf c w s .n - μ)
    (max (if nq.contains s = true then negBig else vOf c w s .q - μ)
      (if pawnOK s = true then vOf c w s .p - μ else negBig)))))

def lineU (κ : Sq) (fq : List Sq) (w : Nat) (ax : Nat) : Int :=
  ((linesOf ax).map fun l => (lineDP κ fq w ax l).top).sum

def castleB (c : Color) (κ : Sq) : Nat := if κ = Spec.kingHome c then 2 else 0

def leafBound (c : Color) (κ : Sq) (fq nq : List Sq) (μ : Int) (w : Nat) : Int :=
  lineU κ fq w 0 + lineU κ fq w 1 + lineU κ fq w 2 + lineU κ fq w 3
    + (Spec.allSq.map (mOf c κ fq nq w μ)).sum + 16 * μ + scaleD * (castleB c κ : Int)

/-- the positions a node of the case split covers -/
structure Cons (τ : Sq → Ty) (κ : Sq) (fq nq : List Sq) : Prop where
  king : τ κ = .k
  uniq : ∀ s, τ s = .k → s = κ
  fq : ∀ s, fq.contains s = true → τ s = .q
  nq : ∀ s, nq.contains s = true → τ s ≠ .q
  pawn : ∀ s, τ s = .p → pawnOK s = true
  men : (Spec.allSq.filter fun s => !isE (τ s)).length ≤ 16

theorem axis_bound (τ : Sq → Ty) (κ : Sq) (fq : List Sq) (hκ : τ κ = .k)
    (hfq : ∀ s, fq.contains s = true → τ s = .q) (w ax : Nat) (hax : ax ∈ [0, 1, 2, 3]) :
    1000 * ((((linesOf ax).map fun l => go τ ax false 0 l).sum : Nat) : Int)
      ≤ lineU κ fq w ax + (Spec.allSq.map (pickW τ w ax)).sum := by
  rw [← sum_map_scale]
  have h1 : ((linesOf ax).map fun l => 1000 * (go τ ax false 0 l : Int)).sum
      ≤ ((linesOf ax).map fun l => (lineDP κ fq w ax l).top + wsum τ w ax l).sum :=
    sum_map_le_int _ _ _ (fun l _ => line_bound τ κ fq hκ hfq w ax l)
  rw [sum_map_add_int] at h1
  have h2 : ((linesOf ax).map fun l => wsum τ w ax l).sum = (Spec.allSq.map (pickW τ w ax)).sum := by
    unfold wsum
    rw [sum_flatten_int]
    exact perm_sum_int ((List.isPerm_iff.mp (lines_perm ax hax)).map _)
  rw [h2] at h1
  exact h1

theorem sq_bound (c : Color) (τ : Sq → Ty) (κ : Sq) (fq nq : List Sq) (hc : Cons τ κ fq nq) (w : Nat) (μ : Int)
    (s : Sq) :
    pickW τ w 0 s + pickW τ w 1 s + pickW τ w 2 s + pickW τ w 3 s + 1000 * (localCap c (τ s) s : Int)
      ≤ mOf c κ fq nq w μ s + (if (!isE (τ s)) = true then μ else 0) := by
  have hk := hc.king
  have hfq := hc.fq s
  have hnq := hc.nq s
  have hp := hc.pawn s
  have hu := hc.uniq s
  have d1 : decide (0 < 2) = true := by decide
  have d2 : decide (1 < 2) = true := by decide
  have d3 : decide (2 < 2) = false := by decide
  have d4 : decide (3 < 2) = false := by decide
  have d5 : decide (2 ≤ 0) = false := by decide
  have d6 : decide (2 ≤ 1) = false := by decide
  have d7 : decide (2 ≤ 2) = true := by decide
  have d8 : decide (2 ≤ 3) = true := by decide
  unfold mOf
  by_cases h1 : s = κ
  · rw [if_pos h1]
    subst h1
    simp only [pickW, hk, isE, vOf, slides, scaleD, Bool.false_eq_true, if_false, Bool.not_false, if_true]
    omega
  · rw [if_neg h1]
    by_cases h2 : fq.contains s = true
    · rw [if_pos h2]
      have := hfq h2
      simp only [pickW, this, isE, vOf, slides, scaleD, Bool.false_eq_true, if_false, Bool.not_false, if_true,
        localCap]
      omega
    · rw [if_neg h2]
      cases ht : τ s
      · simp only [pickW, ht, isE, localCap, if_true, Bool.not_true, Bool.false_eq_true, if_false]
        omega
      · exact absurd (hu ht) h1
      · have h3 : ¬ nq.contains s = true := fun h => hnq h ht
        rw [if_neg h3]
        simp only [pickW, ht, isE, vOf, slides, scaleD, localCap, Bool.false_eq_true, if_false, Bool.not_false, if_true,
          d1, d2, d3, d4, d5, d6, d7, d8]
        omega
      · simp only [pickW, ht, isE, vOf, slides, scaleD, localCap, Bool.false_eq_true, if_false, Bool.not_false, if_true,
          d1, d2, d3, d4, d5, d6, d7, d8]
        omega
      · simp only [pickW, ht, isE, vOf, slides, scaleD, localCap, Bool.false_eq_true, if_false, Bool.not_false, if_true,
          d1, d2, d3, d4, d5, d6, d7, d8]
        omega
      · simp only [pickW, ht, isE, vOf, slides, scaleD, localCap, Bool.false_eq_true, if_false, Bool.not_false, if_true,
          d1, d2, d3, d4, d5, d6, d7, d8]
        omega
      · rw [if_pos (hp ht)]
        simp only [pickW, ht, isE, vOf, slides, scaleD, localCap, Bool.false_eq_true, if_false, Bool.not_false, if_true,
          d1, d2, d3, d4, d5, d6, d7, d8]
        omega

theorem leaf_sound (c : Color) (τ : Sq → Ty) (κ : Sq) (fq nq : List Sq) (μ : Int) (w : Nat)
    (hc : Cons τ κ fq nq) (hμ : 0 ≤ μ) (hb : leafBound c κ fq nq μ w < 257 * scaleD) :
    score c τ + castleB c κ ≤ 256 := by
  have a0 := axis_bound τ κ fq hc.king hc.fq w 0 (by decide)
  have a1 := axis_bound τ κ fq hc.king hc.fq w 1 (by decide)
  have a2 := axis_bound τ κ fq hc.king hc.fq w 2 (by decide)
  have a3 := axis_bound τ κ fq hc.king hc.fq w 3 (by decide)
  have hs : ((Spec.allSq.map (slCap τ)).sum : Nat) = _ := slider_total τ
  have hl : 1000 * (((Spec.allSq.map fun s => localCap c (τ s) s).sum : Nat) : Int)
      = (Spec.allSq.map fun s => 1000 * (localCap c (τ s) s : Int)).sum := (sum_map_scale _ _).symm
  have hsq : (Spec.allSq.map fun s => pickW τ w 0 s + pickW τ w 1 s + pickW τ w 2 s + pickW τ w 3 s
        + 1000 * (localCap c (τ s) s : Int)).sum
      ≤ (Spec.allSq.map fun s => mOf c κ fq nq w μ s + (if (!isE (τ s)) = true then μ else 0)).sum :=
    sum_map_le_int _ _ _ (fun s _ => sq_bound c τ κ fq nq hc w μ s)
  rw [sum_map_add_int, sum_map_add_int, sum_map_add_int, sum_map_add_int, sum_map_add_int, sum_ite_filter] at hsq
  have hmen : μ * ((Spec.allSq.filter fun s => !isE (τ s)).length : Int) ≤ μ * 16 :=
    Int.mul_le_mul_of_nonneg_left (by have := hc.men; omega) hμ
  unfold leafBound scaleD at hb
  unfold score
  rw [hs]
  generalize ((linesOf 0).map fun l => go τ 0 false 0 l).sum = g0 at *
  generalize ((linesOf 1).map fun l => go τ 1 false 0 l).sum = g1 at *
  generalize ((linesOf 2).map fun l => go τ 2 false 0 l).sum = g2 at *
  generalize ((linesOf 3).map fun l => go τ 3 false 0 l).sum = g3 at *
  generalize (Spec.allSq.map fun s => localCap c (τ s) s).sum = lc at *
  omega

inductive Tree
  | leaf (mu : Int) (w : Nat)
  | node (s : Sq) (l r : Tree)

def checkTree (c : Color) (κ : Sq) : List Sq → List Sq → Tree → Bool
  | fq, nq, .leaf μ w => decide (0 ≤ μ) && decide (leafBound c κ fq nq μ w < 257 * scaleD)
  | fq, nq, .node s l r => checkTree c κ fq (s :: nq) l && checkTree c κ (s :: fq) nq r

theorem tree_sound (c : Color) (τ : Sq → Ty) (κ : Sq) : ∀ (t : Tree) (fq nq : List Sq),
    checkTree c κ fq nq t = true → Cons τ κ fq nq → score c τ + castleB c κ ≤ 256 := by
  intro t
  induction t with
  | leaf μ w =>
    intro fq nq h hc
    simp only [checkTree, Bool.and_eq_true, decide_eq_true_eq] at h
    exact leaf_sound c τ κ fq nq μ w hc h.1 h.2
  | node s l r ihl ihr =>
    intro fq nq h hc
    simp only [checkTree, Bool.and_eq_true] at h
    by_cases hq : τ s = .q
    · apply ihr (s :: fq) nq h.2
      refine ⟨hc.king, hc.uniq, ?_, hc.nq, hc.pawn, hc.men⟩
      intro x hx
      rw [List.contains_cons, Bool.or_eq_true] at hx
      rcases hx with hx | hx
      · have : x = s := by simpa using hx
        rw [this]; exact hq
      · exact hc.fq x hx
    · apply ihl fq (s :: nq) h.1
      refine ⟨hc.king, hc.uniq, hc.fq, ?_, hc.pawn, hc.men⟩
      intro x hx
      rw [List.contains_cons, Bool.or_eq_true] at hx
      rcases hx with hx | hx
      · have : x = s := by simpa using hx
        rw [this]; exact hq
      · exact hc.nq x hx

/-! ## 5. the rules' pseudo-legal moves are bounded by the counting model -/

def tyPiece : Piece → Ty
  | .pawn => .p | .king => .k | .knight => .n | .bishop => .b | .rook => .r | .queen => .q

def tyMan (c : Color) : Option Spec.Man → Ty
  | none => .e
  | some m => if m.color = c then tyPiece m.piece else .e

def tyOf (P : Spec.Pos) (s : Sq) : Ty := tyMan P.side (P.get s)

theorem isE_tyPiece (p : Piece) : isE (tyPiece p) = false := by cases p <;> rfl

theorem free_isE (c : Color) (x : Option Spec.Man) : (!x.any (fun y => y.color == c)) = isE (tyMan c x) := by
  cases x with
  | none => rfl
  | some m =>
    by_cases h : m.color = c
    · simp [tyMan, h, isE_tyPiece]
    · simp [tyMan, h, isE]

theorem reach_len {β : Type} (τ : Sq → Ty) (occ : Sq → Bool) (g : Sq → Option β)
    (hg : ∀ t, isE (τ t) = false → g t = none) (hocc : ∀ t, occ t = false → isE (τ t) = true) :
    ∀ r : List Sq, ((Spec.reach occ r).filterMap g).length ≤ tw τ r := by
  intro r
  induction r with
  | nil => simp [Spec.reach, tw]
  | cons t r ih =>
    unfold Spec.reach tw
    by_cases ho : occ t = true
    · rw [if_pos ho]
      by_cases he : isE (τ t) = true
      · rw [if_pos he]
        have := List.length_filterMap_le g [t]
        simp only [List.length_cons, List.length_nil] at this
        omega
      · rw [if_neg he]
        have : g t = none := hg t (by simpa using he)
        simp [List.filterMap_cons, this]
    · rw [if_neg ho, if_pos (hocc t (by simpa using ho))]
      have h1 : ((t :: Spec.reach occ r).filterMap g).length ≤ 1 + ((Spec.reach occ r).filterMap g).length := by
        rw [List.filterMap_cons]
        cases g t <;> simp <;> omega
      omega

theorem slide_len {β : Type} (τ : Sq → Ty) (occ : Sq → Bool) (g : Sq → Option β)
    (hg : ∀ t, isE (τ t) = false → g t = none) (hocc : ∀ t, occ t = false → isE (τ t) = true) (s : Sq) :
    ∀ dirs : List (Int × Int),
      ((Spec.slide dirs occ s).filterMap g).length ≤ (dirs.map fun d => twr τ d s).sum := by
  intro dirs
  induction dirs with
  | nil => simp [Spec.slide]
  | cons d ds ih =>
    unfold Spec.slide at ih ⊢
    rw [List.flatMap_cons, List.filterMap_append, List.length_append, List.map_cons, List.sum_cons]
    have := reach_len τ occ g hg hocc (Spec.ray d 7 s)
    simp only [twr] at ih ⊢
    omega

theorem bind_len {α β γ : Type} (f : α → Option β) (g : β → Option γ) (l : List α) :
    (l.filterMap fun d => (f d).bind g).length ≤ (l.filterMap f).length := by
  induction l with
  | nil => simp
  | cons a r ih =>
    rw [List.filterMap_cons, List.filterMap_cons]
    cases h : f a with
    | none => simpa [h] using ih
    | some b =>
      simp only [Option.bind_some]
      cases g b <;> simp <;> omega

theorem pmk_len (c : Color) (s : Sq) (k : Kind) (t : Sq) : (pmk c s k t).length ≤ pk c t := by
  unfold pmk pk
  by_cases h : Spec.rank t = Spec.promoRank c
  · rw [if_pos h]
    split <;> simp [Spec.promKinds]
  · rw [if_neg h, if_neg (fun hh => h hh.1)]
    simp

theorem pk_pos (c : Color) (t : Sq) : 1 ≤ pk c t := by unfold pk; split <;> omega

theorem pushPart_len (P : Spec.Pos) (s : Sq) (c : Color) :
    (pushPart P s c).length ≤ (match Spec.step s (0, Spec.forward c) with
      | some t => pk c t + (if Spec.rank s = Spec.pawnStartRank c then 1 else 0)
      | none => 0) := by
  unfold pushPart
  cases h1 : Spec.step s (0, Spec.forward c) with
  | none => simp
  | some t =>
    simp only
    have hp := pmk_len c s .simple t
    split
    · rw [List.length_append]
      split
      · split
        · split <;> simp <;> omega
        · simp; omega
      · simp; omega
    · simp

theorem capAt_len (P : Spec.Pos) (s : Sq) (c : Color) (df : Int) :
    (capAt P s c df).length ≤ (match Spec.step s (df, Spec.forward c) with | some t => pk c t | none => 0) := by
  unfold capAt
  cases h1 : Spec.step s (df, Spec.forward c) with
  | none => simp
  | some t =>
    simp only
    have hp := pmk_len c s .simple t
    have h1 := pk_pos c t
    split
    · split
      · exact hp
      · simp
    · split
      · split <;> simp <;> omega
      · simp

theorem pawn_len (P : Spec.Pos) (s : Sq) (c : Color) : (Spec.pawnMoves P s c).length ≤ pawnCap c s := by
  rw [pawnMoves_eq, List.length_append, List.length_append]
  have h1 := pushPart_len P s c
  have h2 := capAt_len P s c (-1)
  have h3 := capAt_len P s c 1
  unfold pawnCap
  omega

/-- the moves of the man on `s` are at most what the model charges for that square -/
theorem piece_len (P : Spec.Pos) (s : Sq) :
    (match P.get s with
      | some m => if m.color ≠ P.side then [] else Spec.pieceMoves P s m
      | none => ([] : List Spec.Move)).length
      ≤ slCap (tyOf P) s + localCap P.side (tyOf P s) s := by
  cases hg : P.get s with
  | none => simp
  | some m =>
    simp only
    by_cases hc : m.color = P.side
    · rw [if_neg (by simpa using hc)]
      obtain ⟨mc, mp⟩ := m
      simp only at hc
      subst hc
      have hτ : tyOf P s = tyPiece mp := by simp [tyOf, hg, tyMan]
      have hfree : ∀ t, (!(P.get t).any (fun x => x.color == P.side)) = isE (tyOf P t) :=
        fun t => free_isE P.side (P.get t)
      have hocc : ∀ t, P.occ t = false → isE (tyOf P t) = true := by
        intro t ht
        unfold Spec.Pos.occ at ht
        cases hx : P.get t with
        | none => simp [tyOf, hx, tyMan, isE]
        | some y => rw [hx] at ht; simp at ht
      cases mp with
      | pawn =>
        have := pawn_len P s P.side
        show (Spec.pawnMoves P s P.side).length ≤ _
        simp only [hτ, tyPiece, localCap]
        omega
      | king =>
        have := bind_len (Spec.step s) (fun t => if (!(P.get t).any (fun x => x.color == P.side)) = true
          then some (⟨.simple, ⟨P.side, .king⟩, s, t⟩ : Spec.Move) else none) Spec.kingSteps
        simp only [hτ, tyPiece, localCap, kSteps]
        unfold Spec.pieceMoves
        simp only
        omega
      | knight =>
        have := bind_len (Spec.step s) (fun t => if (!(P.get t).any (fun x => x.color == P.side)) = true
          then some (⟨.simple, ⟨P.side, .knight⟩, s, t⟩ : Spec.Move) else none) Spec.knightSteps
        simp only [hτ, tyPiece, localCap, nSteps]
        unfold Spec.pieceMoves
        simp only
        omega
      | bishop =>
        have := slide_len (tyOf P) P.occ (fun t => if (!(P.get t).any (fun x => x.color == P.side)) = true
          then some (⟨.simple, ⟨P.side, .bishop⟩, s, t⟩ : Spec.Move) else none)
          (by intro t ht; rw [hfree t, ht]; simp) hocc s (Spec.dirsOf .bishop)
        unfold slCap
        simp only [hτ, tyPiece, localCap]
        unfold Spec.pieceMoves
        simp only
        omega
      | rook =>
        have := slide_len (tyOf P) P.occ (fun t => if (!(P.get t).any (fun x => x.color == P.side)) = true
          then some (⟨.simple, ⟨P.side, .rook⟩, s, t⟩ : Spec.Move) else none)
          (by intro t ht; rw [hfree t, ht]; simp) hocc s (Spec.dirsOf .rook)
        unfold slCap
        simp only [hτ, tyPiece, localCap]
        unfold Spec.pieceMoves
        simp only
        omega
      | queen =>
        have := slide_len (tyOf P) P.occ (fun t => if (!(P.get t).any (fun x => x.color == P.side)) = true
          then some (⟨.simple, ⟨P.side, .queen⟩, s, t⟩ : Spec.Move) else none)
          (by intro t ht; rw [hfree t, ht]; simp) hocc s (Spec.dirsOf .queen)
        unfold slCap
        simp only [hτ, tyPiece, localCap]
        unfold Spec.pieceMoves
        simp only
        omega
    · rw [if_pos (by simpa using hc)]
      simp

theorem pseudo_len (P : Spec.Pos) (κ : Sq) (hcastle : (Spec.castleMoves P P.side).length ≤ castleB P.side κ) :
    (Spec.pseudoMoves P).length ≤ score P.side (tyOf P) + castleB P.side κ := by
  unfold Spec.pseudoMoves
  simp only [List.length_append, List.length_flatMap]
  have h := sum_map_le_nat Spec.allSq _ _ (fun s _ => piece_len P s)
  rw [sum_map_add_nat] at h
  refine Nat.le_trans (Nat.add_le_add h hcastle) ?_
  unfold score
  exact Nat.le_refl _

/-! ## 6. valid boards -/

theorem ty_king (c : Color) : ∀ x : Cell, tyMan c (absCell x) = .k ↔ x = Cell.mk c .king := by
  cases c <;> decide
theorem ty_pawn (c : Color) : ∀ x : Cell, tyMan c (absCell x) = .p ↔ x = Cell.mk c .pawn := by
  cases c <;> decide
theorem ty_own (c : Color) : ∀ x : Cell, (!isE (tyMan c (absCell x))) = decide (x.color = some c) := by
  cases c <;> decide

theorem tyOf_abs (b : Board) (s : Sq) : tyOf (abs b.r) s = tyMan b.r.side (absCell (b.get s)) := by
  unfold tyOf
  rw [get_abs]
  rfl

theorem kingHome_eq (c : Color) : kingHomeSq c = Spec.kingHome c := by cases c <;> decide

theorem castle_len_two (P : Spec.Pos) (c : Color) : (Spec.castleMoves P c).length ≤ 2 := by
  unfold Spec.castleMoves
  simp only [List.length_append]
  split <;> split <;> simp

theorem castle_len_zero (P : Spec.Pos) (c : Color) (h : ∀ sd, P.rights.has c sd = false) :
    (Spec.castleMoves P c).length = 0 := by
  unfold Spec.castleMoves
  simp [h]

/-- what validation guarantees, in the terms of the counting model -/
theorem valid_cons (b : Board) (hv : Valid b) :
    ∃ κ, Cons (tyOf (abs b.r)) κ [] [] ∧
      (Spec.castleMoves (abs b.r) (abs b.r).side).length ≤ castleB (abs b.r).side κ := by
  obtain ⟨κ, hκ, hu⟩ := hv.checks.king b.r.side
  refine ⟨κ, ⟨?_, ?_, ?_, ?_, ?_, ?_⟩, ?_⟩
  · rw [tyOf_abs]; exact (ty_king _ _).mpr hκ
  · intro s hs
    rw [tyOf_abs] at hs
    exact hu s ((ty_king _ _).mp hs)
  · intro s h; simp at h
  · intro s h; simp at h
  · intro s hs
    rw [tyOf_abs] at hs
    have := hv.checks.pawns s b.r.side ((ty_pawn _ _).mp hs)
    simp only [Sq.rank] at this
    simp only [pawnOK, Spec.rank, Bool.and_eq_true, bne_iff_ne, ne_eq]
    exact this
  · have he : (Spec.allSq.filter fun s => !isE (tyOf (abs b.r) s))
        = Sq.all.filter fun t => decide ((b.get t).color = some b.r.side) := by
      apply List.filter_congr
      intro s _
      rw [tyOf_abs, ty_own]
    rw [he]
    have h1 := hv.checks.wlen
    have h2 := hv.checks.blen
    unfold colorCount at h1 h2
    cases hs : b.r.side
    · rw [hs] at *; exact h1
    · rw [hs] at *; exact h2
  · show (Spec.castleMoves (abs b.r) b.r.side).length ≤ castleB b.r.side κ
    unfold castleB
    by_cases hh : κ = Spec.kingHome b.r.side
    · rw [if_pos hh]; exact castle_len_two _ _
    · rw [if_neg hh]
      have : (Spec.castleMoves (abs b.r) b.r.side).length = 0 := by
        apply castle_len_zero
        intro sd
        cases hr : (abs b.r).rights.has b.r.side sd with
        | false => rfl
        | true =>
          rw [abs_rights, abs_rights_has] at hr
          have h3 := (hv.shape.rights _ _ hr).1
          have h4 : b.get (kingHomeSq b.r.side) = Cell.mk b.r.side .king := h3
          rw [kingHome_eq] at h4
          exact absurd (hu _ h4).symm hh
      omega

theorem gen_le_pseudo (b : Board) (hv : Valid b) :
    (semilegalGen .all b).length ≤ (Spec.pseudoMoves (abs b.r)).length := by
  have hn := C06.semilegalGen_nodup b hv .all
  have hs : ∀ mv ∈ semilegalGen .all b, mv ∈ (Spec.pseudoMoves (abs b.r)).map concMove := by
    intro mv hm
    obtain ⟨hwf, hsl⟩ := (C06.semilegalGen_all_iff b hv mv).mp hm
    obtain ⟨sm, _, hcm, hmem⟩ := semilegal_abs b hv mv hwf hsl
    exact List.mem_map.mpr ⟨sm, hmem, hcm⟩
  have := nodup_subset_length _ _ hn hs
  rw [List.length_map] at this
  exact this


end Owl.Props.C19
