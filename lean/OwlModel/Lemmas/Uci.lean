/-
Facts behind C10: how the UCI reader's kind inference separates the move kinds.
-/
import OwlModel.Lemmas.Capture
import OwlModel.Lemmas.Total

namespace Owl.Lemmas
open Owl Owl.Impl

theorem promoteKind_promote (p : Piece) (h : p = .knight ∨ p = .bishop ∨ p = .rook ∨ p = .queen) :
    (promoteKind p).promote = some p := by
  rcases h with h | h | h | h <;> subst h <;> rfl

theorem promote_kind_of (k : Kind) (p : Piece) (h : k.promote = some p) : promoteKind p = k := by
  cases k <;> simp [Kind.promote] at h <;> subst h <;> rfl

/-- rank facts that separate the pawn kinds -/
theorem pawn_kind_ranks (c : Color) :
    doubleSrcRank c ≠ epSrcRank c
    ∧ (∀ (s d : Sq), s.rank = doubleSrcRank c → ((c = .white → s.rank.val = d.rank.val + 1) ∧ (c = .black → s.rank.val + 1 = d.rank.val))
        → d.rank ≠ doubleDstRank c) := by
  cases c <;> refine ⟨by decide, ?_⟩ <;> intro s d h1 h2 <;> simp at h2 <;> intro h3 <;>
    (have := congrArg Fin.val h1; have := congrArg Fin.val h3; simp [doubleSrcRank, doubleDstRank, fin8, Gen.doubleSrcRankW,
      Gen.doubleSrcRankB, Gen.doubleDstRankW, Gen.doubleDstRankB] at *; omega)

theorem king_step_not_castle (c : Color) :
    (kingAttack (Sq.mk fileE (castlingRank c))).has (Sq.mk fileG (castlingRank c)) = false
    ∧ (kingAttack (Sq.mk fileE (castlingRank c))).has (Sq.mk fileC (castlingRank c)) = false := by
  cases c <;> decide +kernel

theorem wf_double (mv : Move) (c : Color) (hwf : mv.isWellFormed = true) (hcell : mv.cell = Cell.mk c .pawn)
    (hk : mv.kind = .double) : mv.src.file = mv.dst.file ∧ mv.src.rank = doubleSrcRank c ∧ mv.dst.rank = doubleDstRank c := by
  unfold Move.isWellFormed at hwf
  have hcol : mv.cell.color = some c := by rw [hcell]; exact color_mk _ _
  have hpc : mv.cell.piece = some .pawn := by rw [hcell]; cases c <;> rfl
  simp only [hk, hcol, hpc, reduceCtorEq, if_false] at hwf
  split at hwf
  · simp at hwf
  · simp only [Kind.matchesPiece, beq_self_eq_true, Bool.not_true, Bool.false_eq_true, if_false, Bool.and_eq_true,
      decide_eq_true_eq] at hwf
    exact ⟨hwf.1.1, hwf.1.2, hwf.2⟩

theorem wf_ep (mv : Move) (c : Color) (hwf : mv.isWellFormed = true) (hcell : mv.cell = Cell.mk c .pawn)
    (hk : mv.kind = .ep) : mv.src.file ≠ mv.dst.file ∧ mv.src.rank = epSrcRank c := by
  unfold Move.isWellFormed at hwf
  have hcol : mv.cell.color = some c := by rw [hcell]; exact color_mk _ _
  have hpc : mv.cell.piece = some .pawn := by rw [hcell]; cases c <;> rfl
  simp only [hk, hcol, hpc, reduceCtorEq, if_false] at hwf
  split at hwf
  · simp at hwf
  · simp only [Kind.matchesPiece, beq_self_eq_true, Bool.not_true, Bool.false_eq_true, if_false, Bool.and_eq_true,
      decide_eq_true_eq] at hwf
    refine ⟨?_, hwf.1.1⟩
    intro e
    have := hwf.2
    rw [e] at this
    simp [absDiff] at this


end Owl.Lemmas
