/-
Backbone: `Shape` — what the unchecked primitives need of a board — and the precondition of
`make_move_unchecked` derived from well-formedness + semilegality.
-/
import OwlModel.Lemmas.Unmake

namespace Owl.Lemmas
open Owl Owl.Impl

def kingHomeSq (c : Color) : Sq := Sq.mk fileE (castlingRank c)
def rookHomeSq (c : Color) : Side → Sq
  | .king => Sq.mk fileH (castlingRank c)
  | .queen => Sq.mk fileA (castlingRank c)

/-- rights ⇒ king and rook on their home squares -/
def RightsOk (r : RawBoard) : Prop :=
  ∀ c s, rHas r.castling c s = true → r.get (kingHomeSq c) = Cell.mk c .king ∧ r.get (rookHomeSq c s) = Cell.mk c .rook

/-- en-passant mark ⇒ right rank, enemy pawn on it, empty square behind it -/
def EpOk (r : RawBoard) : Prop :=
  ∀ p, r.ep = some p → p.rank = epSrcRank r.side ∧ r.get p = Cell.mk r.side.inv .pawn
    ∧ r.get (addU p (forwardDelta r.side)) = Cell.empty

/-- what the unchecked primitives need: consistent derived state, rights and en-passant mark backed by the squares -/
structure Shape (b : Board) : Prop where
  cons : Consistent b
  rights : RightsOk b.r
  ep : EpOk b.r

theorem piece_of_color_piece {x : Cell} {c : Color} {p : Piece} (hc : x.color = some c) (hp : x.piece = some p) :
    x = Cell.mk c p := by
  revert hc hp; revert x; cases c <;> cases p <;> decide

theorem all_has (b : Board) (hb : Consistent b) (t : Sq) : b.all.has t = decide (b.get t ≠ 0) := by
  rw [consistent_iff'] at hb
  obtain ⟨_, hc, ha, _⟩ := hb
  rw [ha, BB.has_or, hc, hc]
  have := color_cases (b.get t)
  by_cases h0 : b.get t = 0
  · simp [h0]
  · rcases this with h | h | h
    · exact absurd h h0
    · simp [h, h0]
    · simp [h, h0]

theorem pass_masks (c : Color) (t : Sq) :
    (castlingPass c .king).has t = (decide (Sq.mk fileF (castlingRank c) = t) || decide (Sq.mk fileG (castlingRank c) = t))
    ∧ (castlingPass c .queen).has t = (decide (Sq.mk ⟨1, by decide⟩ (castlingRank c) = t)
        || decide (Sq.mk fileC (castlingRank c) = t) || decide (Sq.mk fileD (castlingRank c) = t)) := by
  cases c <;> revert t <;> decide +kernel

theorem empty_of_pass (b : Board) (hb : Consistent b) (m : BB) (h : (b.all &&& m).isEmpty = true) (t : Sq)
    (ht : m.has t = true) : b.get t = Cell.empty := by
  have := (BB.isEmpty_iff _).mp h t
  rw [BB.has_and, ht, all_has b hb] at this
  simpa [Cell.empty] using this

theorem ep_arith (p : Sq) (c : Color) (h : p.rank = epSrcRank c) :
    addU (addU p (forwardDelta c)) (-(forwardDelta c)) = p ∧ addU p (forwardDelta c) ≠ p := by
  revert h; cases c <;> revert p <;> decide
theorem addU_one_ne : ∀ (s : Sq), addU s 1 ≠ s ∧ addU s (-1) ≠ s := by decide



theorem semilegal_base (b : Board) (mv : Move) (hsl : isSemilegal b mv = true) :
    mv.kind ≠ .null ∧ b.get mv.src = mv.cell ∧ mv.cell.color = some b.r.side
      ∧ (b.get mv.dst).color ≠ some b.r.side := by
  unfold isSemilegal at hsl
  simp only at hsl
  split at hsl
  · simp at hsl
  · rename_i hcond
    simp only [Bool.or_eq_true, decide_eq_true_eq, not_or, ne_eq, Decidable.not_not] at hcond
    exact ⟨hcond.1.1.1, hcond.1.1.2, hcond.1.2, hcond.2⟩

/-- facts from well-formedness of a non-null move -/
theorem wf_facts (mv : Move) (hwf : mv.isWellFormed = true) (hk : mv.kind ≠ .null) :
    mv.src ≠ mv.dst ∧ ∃ color piece, mv.cell.color = some color ∧ mv.cell.piece = some piece
      ∧ mv.kind.matchesPiece piece = true
      ∧ (mv.kind = .castleK → mv.src = Sq.mk fileE (castlingRank color) ∧ mv.dst = Sq.mk fileG (castlingRank color))
      ∧ (mv.kind = .castleQ → mv.src = Sq.mk fileE (castlingRank color) ∧ mv.dst = Sq.mk fileC (castlingRank color))
      ∧ (mv.kind = .ep → mv.src.rank = epSrcRank color) := by
  unfold Move.isWellFormed at hwf
  simp only [hk, if_false] at hwf
  split at hwf
  · simp at hwf
  · rename_i hc
    simp only [Bool.or_eq_true, decide_eq_true_eq, not_or] at hc
    refine ⟨hc.2, ?_⟩
    split at hwf
    · rename_i color piece hcol hpc
      refine ⟨color, piece, hcol, hpc, ?_⟩
      split at hwf
      · simp at hwf
      · rename_i hm
        simp only [Bool.not_eq_true, Bool.not_eq_false] at hm
        refine ⟨by simpa using hm, ?_, ?_, ?_⟩
        · intro hkk; simp only [hkk] at hwf; simpa using hwf
        · intro hkk; simp only [hkk] at hwf; simpa using hwf
        · intro hkk; simp only [hkk] at hwf; simp at hwf; exact hwf.1.1
    · simp at hwf

theorem matches_pawn {k : Kind} {p : Piece} (h : k.matchesPiece p = true)
    (hk : k = .double ∨ k = .ep ∨ k = .promN ∨ k = .promB ∨ k = .promR ∨ k = .promQ) : p = .pawn := by
  rcases hk with h' | h' | h' | h' | h' | h' <;> subst h' <;> simpa [Kind.matchesPiece] using h
theorem matches_king {k : Kind} {p : Piece} (h : k.matchesPiece p = true) (hk : k = .castleK ∨ k = .castleQ) :
    p = .king := by
  rcases hk with h' | h' <;> subst h' <;> simpa [Kind.matchesPiece] using h

theorem makeOk_of_semilegal (b : Board) (mv : Move) (hs : Shape b) (hwf : mv.isWellFormed = true)
    (hsl : isSemilegal b mv = true) : MakeOk b mv := by
  obtain ⟨hknull, hsrc, hcol, hdst⟩ := semilegal_base b mv hsl
  obtain ⟨hne, color, piece, hcol', hpiece, hmatch, hwK, hwQ, hwEp⟩ := wf_facts mv hwf hknull
  have hcc : color = b.r.side := by rw [hcol] at hcol'; exact (Option.some.inj hcol').symm
  subst hcc
  have hcell : mv.cell = Cell.mk b.r.side piece := piece_of_color_piece hcol hpiece
  unfold isSemilegal at hsl
  simp only at hsl
  have hcond : ¬ ((mv.kind = Kind.null || b.get mv.src ≠ mv.cell || mv.cell.color ≠ some b.r.side
      || (b.get mv.dst).color = some b.r.side) = true) := by
    simp [hknull, hsrc, hcol, hdst]
  rw [if_neg hcond, hpiece] at hsl
  unfold MakeOk
  cases hk : mv.kind
  · exact absurd hk hknull
  · simp only; exact ⟨hsrc, hcol, hdst, hne⟩
  · -- castleK
    have hp := matches_king hmatch (Or.inl hk); subst hp
    simp only [hk] at hsl ⊢
    simp only [Bool.and_eq_true, Bool.not_eq_true'] at hsl
    obtain ⟨⟨⟨hr, hpass⟩, _⟩, _⟩ := hsl
    obtain ⟨hkh, hrh⟩ := hs.rights b.r.side .king hr
    have pm := fun t => (pass_masks b.r.side t).1
    refine ⟨hkh, ?_, ?_, hrh⟩
    · exact empty_of_pass b hs.cons _ hpass _ (by rw [pm]; simp)
    · exact empty_of_pass b hs.cons _ hpass _ (by rw [pm]; simp)
  · -- castleQ
    have hp := matches_king hmatch (Or.inr hk); subst hp
    simp only [hk] at hsl ⊢
    simp only [Bool.and_eq_true, Bool.not_eq_true'] at hsl
    obtain ⟨⟨⟨hr, hpass⟩, _⟩, _⟩ := hsl
    obtain ⟨hkh, hrh⟩ := hs.rights b.r.side .queen hr
    have pm := fun t => (pass_masks b.r.side t).2
    refine ⟨hrh, ?_, ?_, hkh⟩
    · exact empty_of_pass b hs.cons _ hpass _ (by rw [pm]; simp)
    · exact empty_of_pass b hs.cons _ hpass _ (by rw [pm]; simp)
  · -- double
    have hp := matches_pawn hmatch (Or.inl hk); subst hp
    simp only [hk] at hsl ⊢
    simp only [Bool.and_eq_true, decide_eq_true_eq] at hsl
    exact ⟨hcell ▸ hsrc, hsl.2, hne⟩
  · -- ep
    have hp := matches_pawn hmatch (Or.inr (Or.inl hk)); subst hp
    simp only [hk] at hsl ⊢
    cases hep : b.r.ep with
    | none => simp [hep] at hsl
    | some p =>
      simp only [hep, Bool.and_eq_true, Bool.or_eq_true, decide_eq_true_eq] at hsl
      obtain ⟨hadj, hdstp⟩ := hsl
      obtain ⟨hrank, hpawn, hbehind⟩ := hs.ep p hep
      obtain ⟨har, hne2⟩ := ep_arith p b.r.side hrank
      have htaken : addU mv.dst (-(forwardDelta b.r.side)) = p := by rw [hdstp]; exact har
      rw [htaken]
      refine ⟨hcell ▸ hsrc, ?_, hpawn, hne, ?_, ?_⟩
      · rw [hdstp]; exact hbehind
      · rcases hadj with h | h
        · rw [h]; exact (addU_one_ne mv.src).1
        · rw [h]; exact (addU_one_ne mv.src).2
      · rw [hdstp]; exact hne2.symm
  all_goals
    have hp := matches_pawn hmatch (by simp [hk]); subst hp
    simp only
    exact ⟨hsrc, hcell, hdst, hne⟩

theorem rHas_without (r : Rights) (c c' : Color) (s s' : Side) :
    rHas (rWithout r c s) c' s' = (rHas r c' s' && !(decide (c = c') && decide (s = s'))) := by
  revert r; cases c <;> cases c' <;> cases s <;> cases s' <;> decide

theorem normaliseCastlingColor_spec (raw : RawBoard) (color : Color) :
    (normaliseCastlingColor raw color).cells = raw.cells ∧ (normaliseCastlingColor raw color).side = raw.side
    ∧ (normaliseCastlingColor raw color).ep = raw.ep
    ∧ (∀ c s, rHas (normaliseCastlingColor raw color).castling c s = true → rHas raw.castling c s = true)
    ∧ (∀ s, rHas (normaliseCastlingColor raw color).castling color s = true →
        raw.get (kingHomeSq color) = Cell.mk color .king ∧ raw.get (rookHomeSq color s) = Cell.mk color .rook) := by
  unfold normaliseCastlingColor
  refine ⟨rfl, rfl, rfl, ?_, ?_⟩
  · intro c s h
    simp only at h
    by_cases h1 : raw.get (Sq.mk fileE (castlingRank color)) = Cell.mk color Piece.king <;>
    by_cases h2 : raw.get (Sq.mk fileA (castlingRank color)) = Cell.mk color Piece.rook <;>
    by_cases h3 : raw.get (Sq.mk fileH (castlingRank color)) = Cell.mk color Piece.rook <;>
    simp [h1, h2, h3, rHas_without] at h <;>
    first | exact h | exact h.1 | exact h.1.1 | exact h.1.1.1 | exact h.1.1.1.1
  · intro s h
    simp only at h
    by_cases h1 : raw.get (Sq.mk fileE (castlingRank color)) = Cell.mk color Piece.king <;>
    by_cases h2 : raw.get (Sq.mk fileA (castlingRank color)) = Cell.mk color Piece.rook <;>
    by_cases h3 : raw.get (Sq.mk fileH (castlingRank color)) = Cell.mk color Piece.rook <;>
    simp [h1, h2, h3, rHas_without] at h <;>
    cases s <;> simp_all [kingHomeSq, rookHomeSq]

theorem home_ne (c : Color) : kingHomeSq c.inv ≠ kingHomeSq c := by cases c <;> decide

theorem normaliseCastling_spec (raw : RawBoard) :
    (normaliseCastling raw).cells = raw.cells ∧ (normaliseCastling raw).side = raw.side
    ∧ (normaliseCastling raw).ep = raw.ep ∧ RightsOk (normaliseCastling raw) := by
  unfold normaliseCastling
  obtain ⟨hc1, hs1, he1, hm1, hk1⟩ := normaliseCastlingColor_spec raw .white
  obtain ⟨hc2, hs2, he2, hm2, hk2⟩ := normaliseCastlingColor_spec (normaliseCastlingColor raw .white) .black
  refine ⟨hc2.trans hc1, hs2.trans hs1, he2.trans he1, ?_⟩
  intro c s h
  have hget : ∀ t, (normaliseCastlingColor (normaliseCastlingColor raw .white) .black).get t = raw.get t := by
    intro t; simp [RawBoard.get, hc2, hc1]
  have hget1 : ∀ t, (normaliseCastlingColor raw .white).get t = raw.get t := by
    intro t; simp [RawBoard.get, hc1]
  cases c
  · have := hk1 s (hm2 .white s h)
    rw [hget, hget]; exact this
  · have := hk2 s h
    rw [hget1, hget1] at this
    rw [hget, hget]; exact this

theorem add?_eq_addU (p : Sq) (d : Int) (q : Sq) (h : p.add? d = some q) : addU p d = q := by
  unfold Sq.add? at h
  simp only at h
  by_cases hr : 0 ≤ (p.val : Int) + d ∧ (p.val : Int) + d < 64
  · rw [dif_pos hr] at h
    injection h with h
    subst h
    apply Fin.ext
    simp only [addU]
    have := p.isLt
    omega
  · rw [dif_neg hr] at h; simp at h

theorem normaliseEp_spec (raw raw1 : RawBoard) (h : normaliseEp raw = .ok raw1) :
    raw1.cells = raw.cells ∧ raw1.side = raw.side ∧ raw1.castling = raw.castling ∧ raw1.mc = raw.mc
    ∧ raw1.mn = raw.mn ∧ EpOk raw1 := by
  unfold normaliseEp at h
  cases hep : raw.ep with
  | none =>
    simp only [hep] at h
    injection h with h; subst h
    exact ⟨rfl, rfl, rfl, rfl, rfl, by intro p hp; simp [hep] at hp⟩
  | some p =>
    simp only [hep] at h
    split at h
    · simp at h
    · rename_i hrank
      simp only [ne_eq, Decidable.not_not] at hrank
      cases hadd : p.add? (forwardDelta raw.side) with
      | none => simp [hadd] at h
      | some pp =>
        simp only [hadd] at h
        split at h
        · injection h with h; subst h
          exact ⟨rfl, rfl, rfl, rfl, rfl, by intro q hq; simp at hq⟩
        · rename_i hcond
          injection h with h; subst h
          simp only [Bool.or_eq_true, bne_iff_ne, ne_eq, decide_eq_true_eq, not_or, Decidable.not_not] at hcond
          refine ⟨rfl, rfl, rfl, rfl, rfl, ?_⟩
          intro q hq
          rw [hep] at hq; injection hq with hq; subst hq
          exact ⟨hrank, hcond.1, by rw [add?_eq_addU _ _ _ hadd]; exact hcond.2⟩

/-- the validation gate establishes `Shape` -/
theorem validate_shape (raw : RawBoard) (b : Board) (h : validate raw = .ok b) : Shape b := by
  have hcb : ∀ x : Board, checkBoard x = .ok b → b = x := by
    intro x hx
    unfold checkBoard at hx
    repeat' (split at hx)
    all_goals first
      | (injection hx with hx; exact hx.symm)
      | (exact absurd hx (by simp))
  unfold validate at h
  split at h
  · exact absurd h (by simp)
  · exact absurd h (by simp)
  · rename_i raw1 hne
    have hb := hcb _ h
    subst hb
    obtain ⟨hc, hsd, hcs, _, _, hepok⟩ := normaliseEp_spec raw raw1 hne
    obtain ⟨hc2, hs2, he2, hr2⟩ := normaliseCastling_spec raw1
    refine ⟨rfl, hr2, ?_⟩
    intro p hp
    have hp' : raw1.ep = some p := by rw [← he2]; exact hp
    obtain ⟨h1, h2, h3⟩ := hepok p hp'
    have hget : ∀ t, (buildBoard (normaliseCastling raw1)).r.get t = raw1.get t := by
      intro t; simp [buildBoard, RawBoard.get, hc2]
    have hside : (buildBoard (normaliseCastling raw1)).r.side = raw1.side := hs2
    rw [hside, hget, hget]
    exact ⟨h1, h2, h3⟩

end Owl.Lemmas
