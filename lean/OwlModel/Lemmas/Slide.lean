/-
Helper lemmas for C15: a ray walk ignores the occupancy of the last square of the ray; every
`occ &&& mask` is one of the enumerated submasks of `mask`.
-/
import OwlModel.Spec.Rules
import OwlModel.Impl.Attack

namespace Owl.Lemmas
open Owl

/-- the set of squares reached by sliding, as a bitboard -/
def slideBB (dirs : List (Int × Int)) (occ : BB) (s : Sq) : BB :=
  BB.ofList (Spec.slide dirs (fun t => occ.has t) s)

theorem reach_congr (occ occ' : Sq → Bool) :
    ∀ (l : List Sq), (∀ x ∈ l.dropLast, occ x = occ' x) → Spec.reach occ l = Spec.reach occ' l
  | [], _ => rfl
  | [t], _ => by simp [Spec.reach]
  | t :: u :: rest, h => by
    have ht : occ t = occ' t := h t (by simp [List.dropLast])
    have ih := reach_congr occ occ' (u :: rest) (fun x hx => h x (by
      simp only [List.dropLast_cons_cons, List.mem_cons]; exact Or.inr hx))
    show (if occ t then [t] else t :: Spec.reach occ (u :: rest))
       = (if occ' t then [t] else t :: Spec.reach occ' (u :: rest))
    rw [ih, ht]

theorem slide_congr (dirs : List (Int × Int)) (occ occ' : Sq → Bool) (s : Sq)
    (h : ∀ d ∈ dirs, ∀ x ∈ (Spec.ray d 7 s).dropLast, occ x = occ' x) :
    Spec.slide dirs occ s = Spec.slide dirs occ' s := by
  unfold Spec.slide
  induction dirs with
  | nil => rfl
  | cons d ds ih =>
    simp only [List.flatMap_cons]
    rw [reach_congr occ occ' _ (h d (by simp)), ih (fun d' hd' => h d' (by simp [hd']))]

/-- all sums of subsets of the given bit positions -/
def submasks : List Nat → List Nat
  | [] => [0]
  | b :: bs => submasks bs ++ (submasks bs).map (· ||| (1 <<< b))

def restrict (x : Nat) : List Nat → Nat
  | [] => 0
  | b :: bs => if x.testBit b then restrict x bs ||| (1 <<< b) else restrict x bs

theorem restrict_mem (x : Nat) : ∀ bits, restrict x bits ∈ submasks bits
  | [] => by simp [restrict, submasks]
  | b :: bs => by
    have ih := restrict_mem x bs
    unfold restrict submasks
    split
    · exact List.mem_append_right _ (List.mem_map.mpr ⟨_, ih, rfl⟩)
    · exact List.mem_append_left _ ih

theorem testBit_restrict (x : Nat) (i : Nat) :
    ∀ bits, (restrict x bits).testBit i = (decide (i ∈ bits) && x.testBit i)
  | [] => by simp [restrict]
  | b :: bs => by
    have ih := testBit_restrict x i bs
    unfold restrict
    by_cases hb : x.testBit b
    · rw [if_pos hb, Nat.testBit_or, ih, Nat.one_shiftLeft, Nat.testBit_two_pow]
      by_cases hib : b = i
      · subst hib; simp [hb]
      · have : ¬ i = b := fun e => hib e.symm
        simp [hib, this]
    · rw [if_neg hb, ih]
      by_cases hib : b = i
      · subst hib; simp [hb]
      · have : ¬ i = b := fun e => hib e.symm
        simp [this]

def bitsOf (m : Nat) : List Nat := (List.range 64).filter fun i => m.testBit i

theorem and_eq_restrict (x m : Nat) (hm : m < 2 ^ 64) : x &&& m = restrict x (bitsOf m) := by
  apply Nat.eq_of_testBit_eq
  intro i
  rw [testBit_restrict, Nat.testBit_and]
  by_cases hi : i < 64
  · simp [bitsOf, hi, Bool.and_comm]
  · have : m.testBit i = false := by
      apply Nat.testBit_lt_two_pow
      exact Nat.lt_of_lt_of_le hm (Nat.pow_le_pow_right (by decide) (by omega))
    simp [bitsOf, hi, this]

theorem and_mem_submasks (x m : Nat) (hm : m < 2 ^ 64) : x &&& m ∈ submasks (bitsOf m) := by
  rw [and_eq_restrict x m hm]; exact restrict_mem x _

theorem has_and (a b : BB) (s : Sq) : (a &&& b).has s = (a.has s && b.has s) := by
  simp [BB.has]

end Owl.Lemmas
