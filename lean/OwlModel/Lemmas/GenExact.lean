/-
C06: every component of the semilegal generator emits exactly the well-formed semilegal moves of its class, hence
`mem_genWith_iff`: the generator with flags (simple, capture, simple-promote, castling) emits exactly the well-formed
semilegal moves whose class (`inClass`) is switched on.
-/
import OwlModel.Lemmas.GenPieces

namespace Owl.Lemmas
open Owl Owl.Impl

theorem sl_normal (b : Board) (mv : Move) (hsl : SL b mv) :
    ∃ piece, mv.cell = Cell.mk b.r.side piece ∧ mv.kind.matchesPiece piece = true
      ∧ mv = mkMove b.r.side mv.kind piece mv.src mv.dst := by
  obtain ⟨hknull, hsrc, hcol, hdst⟩ := semilegal_base b mv hsl.2
  obtain ⟨_, color, piece, hcol', hpiece, hmatch, _⟩ := wf_facts mv hsl.1 hknull
  have hcc : color = b.r.side := by rw [hcol] at hcol'; exact (Option.some.inj hcol').symm
  subst hcc
  have hcell := piece_of_color_piece hcol hpiece
  refine ⟨piece, hcell, hmatch, ?_⟩
  cases mv; simp only [mkMove] at *; simp [hcell]

theorem pawns_mask_has (b : Board) (hb : Consistent b) (c : Color) (r : Fin 8) (s : Sq) :
    ((b.piece2 c .pawn &&& rankBB r).has s = (decide (b.get s = Cell.mk c .pawn) && decide (s.rank = r)))
    ∧ ((b.piece2 c .pawn &&& ~~~ rankBB r).has s = (decide (b.get s = Cell.mk c .pawn) && !decide (s.rank = r))) := by
  simp only [BB.has_and, BB.has_not, piece2_has b hb, rankBB_has, and_self]

/-- pawn pushes without promotion -/
theorem mem_push_iff (b : Board) (hv : Valid b) (mv : Move) :
    mv ∈ genPawnSingle b b.r.side false (b.piece2 b.r.side .pawn &&& ~~~ rankBB (promoteSrcRank b.r.side)) ↔
      (SL b mv ∧ mv.kind = .simple ∧ mv.cell = Cell.mk b.r.side .pawn ∧ mv.src.file = mv.dst.file) := by
  have hb := hv.shape.cons
  rw [mem_genPawnSingle]
  simp only [mem_addPawn, Bool.false_eq_true, if_false, (pawns_mask_has b hb b.r.side _ _).2, Bool.and_eq_true,
    decide_eq_true_eq, Bool.not_eq_true', decide_eq_false_iff_not]
  constructor
  · rintro ⟨d, h1, ⟨h2, h3⟩, h4, rfl⟩
    have he : b.get d = Cell.empty := by
      rw [all_has b hb] at h4
      show b.get d = 0
      simpa using h4
    obtain ⟨r0, r7⟩ := hv.checks.pawns _ _ h2
    have hgeo := (pg_push b.r.side (addU d (-(forwardDelta b.r.side))) d).mpr ⟨h1, rfl⟩
    have hr := (pg_ranks b.r.side _ d hgeo.2 r0 r7).1.mpr h3
    refine ⟨(sl_pawn_simple b _ d).mpr ⟨h2, r0, r7, hr.1, hr.2, hgeo.2, Or.inl ⟨hgeo.1, he⟩⟩, rfl, rfl, hgeo.1⟩
  · rintro ⟨hsl, hk, hcell, hf⟩
    obtain ⟨piece, hc, _, hmv⟩ := sl_normal b mv hsl
    have hp : piece = .pawn := (mk_inj (hc.symm.trans hcell)).2
    subst hp
    rw [hk] at hmv
    have hsl' := hsl
    rw [hmv] at hsl'
    obtain ⟨g1, r0, r7, q0, q7, gs, gd⟩ := (sl_pawn_simple b mv.src mv.dst).mp hsl'
    have he : b.get mv.dst = Cell.empty := by
      rcases gd with ⟨_, e⟩ | ⟨h1, _⟩
      · exact e
      · rw [hf] at h1; simp [absDiff] at h1
    obtain ⟨k1, k2⟩ := (pg_push b.r.side mv.src mv.dst).mp ⟨hf, gs⟩
    have hnp := (pg_ranks b.r.side _ _ gs r0 r7).1.mp ⟨q0, q7⟩
    refine ⟨mv.dst, k1, ?_, ?_, ?_⟩
    · rw [← k2]; exact ⟨g1, hnp⟩
    · rw [all_has b hb, he]; rfl
    · rw [← k2]; exact hmv

theorem isPromo_iff (k : Kind) : k.promote.isSome = true ↔ (k = .promN ∨ k = .promB ∨ k = .promR ∨ k = .promQ) := by
  cases k <;> simp [Kind.promote]

theorem empty_of_all (b : Board) (hb : Consistent b) (d : Sq) : b.all.has d = false ↔ b.get d = Cell.empty := by
  rw [all_has b hb]
  show _ ↔ b.get d = 0
  simp

theorem prom_src_ranks (c : Color) : (promoteSrcRank c).val ≠ 0 ∧ (promoteSrcRank c).val ≠ 7 := by cases c <;> decide

/-- promotion pushes -/
theorem mem_promo_push_iff (b : Board) (hv : Valid b) (mv : Move) :
    mv ∈ genPawnSingle b b.r.side true (b.piece2 b.r.side .pawn &&& rankBB (promoteSrcRank b.r.side)) ↔
      (SL b mv ∧ mv.kind.promote.isSome = true ∧ mv.src.file = mv.dst.file) := by
  have hb := hv.shape.cons
  rw [mem_genPawnSingle]
  simp only [mem_addPawn, if_true, (pawns_mask_has b hb b.r.side _ _).1, Bool.and_eq_true, decide_eq_true_eq,
    empty_of_all b hb, isPromo_iff]
  obtain ⟨pr0, pr7⟩ := prom_src_ranks b.r.side
  constructor
  · rintro ⟨d, h1, ⟨h2, h3⟩, he, hm⟩
    have hgeo := (pg_push b.r.side (addU d (-(forwardDelta b.r.side))) d).mpr ⟨h1, rfl⟩
    have hdr := (pg_ranks b.r.side _ d hgeo.2 (by rw [h3]; exact pr0) (by rw [h3]; exact pr7)).2.mp h3
    have hsl : ∀ k, (k = .promN ∨ k = .promB ∨ k = .promR ∨ k = .promQ) →
        SL b (mkMove b.r.side k .pawn (addU d (-(forwardDelta b.r.side))) d) :=
      fun k hk => (sl_pawn_promo b k hk _ d).mpr ⟨h2, h3, hdr, Or.inl ⟨hgeo.1, he⟩⟩
    rcases hm with rfl | rfl | rfl | rfl
    · exact ⟨hsl _ (Or.inl rfl), Or.inl rfl, hgeo.1⟩
    · exact ⟨hsl _ (Or.inr (Or.inl rfl)), Or.inr (Or.inl rfl), hgeo.1⟩
    · exact ⟨hsl _ (Or.inr (Or.inr (Or.inl rfl))), Or.inr (Or.inr (Or.inl rfl)), hgeo.1⟩
    · exact ⟨hsl _ (Or.inr (Or.inr (Or.inr rfl))), Or.inr (Or.inr (Or.inr rfl)), hgeo.1⟩
  · rintro ⟨hsl, hk, hf⟩
    obtain ⟨piece, hc, hmatch, hmv⟩ := sl_normal b mv hsl
    have hp : piece = .pawn := matches_pawn hmatch (by rcases hk with h | h | h | h <;> simp [h])
    subst hp
    have hsl' := hsl
    rw [hmv] at hsl'
    obtain ⟨g1, g2, g3, gd⟩ := (sl_pawn_promo b mv.kind hk mv.src mv.dst).mp hsl'
    have he : b.get mv.dst = Cell.empty := by
      rcases gd with ⟨_, e⟩ | ⟨h1, _⟩
      · exact e
      · rw [hf] at h1; simp [absDiff] at h1
    have hstep := (pg_promo b.r.side mv.src mv.dst g2 (by rw [hf]; simp [absDiff])).mp g3
    obtain ⟨k1, k2⟩ := (pg_push b.r.side mv.src mv.dst).mp ⟨hf, hstep⟩
    refine ⟨mv.dst, k1, ?_, he, ?_⟩
    · rw [← k2]; exact ⟨g1, g2⟩
    · rw [← k2]
      rcases hk with h | h | h | h <;> rw [h] at hmv
      · exact Or.inl hmv
      · exact Or.inr (Or.inl hmv)
      · exact Or.inr (Or.inr (Or.inl hmv))
      · exact Or.inr (Or.inr (Or.inr hmv))

theorem pg_double2 (c : Color) : ∀ d : Sq, d.rank ≠ behindRank c → (addU d (-(forwardDelta c))).rank ≠ behindRank c →
    addU (addU d (-(forwardDelta c))) (-(forwardDelta c)) = addU d (-(2 * forwardDelta c)) := by
  cases c <;> decide +kernel

/-- pawn double steps -/
theorem mem_double_iff (b : Board) (hv : Valid b) (mv : Move) :
    mv ∈ genPawnDouble b b.r.side (b.piece2 b.r.side .pawn &&& rankBB (doubleSrcRank b.r.side)) ↔
      (SL b mv ∧ mv.kind = .double) := by
  have hb := hv.shape.cons
  rw [mem_genPawnDouble]
  simp only [(pawns_mask_has b hb b.r.side _ _).1, Bool.and_eq_true, decide_eq_true_eq, empty_of_all b hb]
  constructor
  · rintro ⟨d, h1, h2, ⟨h3, h4⟩, h5, h6, rfl⟩
    rw [pg_double2 b.r.side d h1 h2] at h3 h4
    obtain ⟨pd1, pd2⟩ := pg_double b.r.side (addU d (-(2 * forwardDelta b.r.side))) d
    obtain ⟨f1, f2, f3⟩ := pd1.mpr ⟨h1, h2, rfl, h4⟩
    have e2 := (pd2 rfl h4).2
    refine ⟨(sl_pawn_double b _ d).mpr ⟨h3, f1, f2, f3, ?_, h6⟩, rfl⟩
    rw [e2]; exact h5
  · rintro ⟨hsl, hk⟩
    obtain ⟨piece, hc, hmatch, hmv⟩ := sl_normal b mv hsl
    have hp : piece = .pawn := matches_pawn hmatch (Or.inl hk)
    subst hp
    rw [hk] at hmv
    have hsl' := hsl
    rw [hmv] at hsl'
    obtain ⟨g1, g2, g3, g4, g5, g6⟩ := (sl_pawn_double b mv.src mv.dst).mp hsl'
    obtain ⟨pd1, pd2⟩ := pg_double b.r.side mv.src mv.dst
    obtain ⟨k1, k2, k3, k4⟩ := pd1.mp ⟨g2, g3, g4⟩
    obtain ⟨e1, e2⟩ := pd2 k3 k4
    refine ⟨mv.dst, k1, k2, ?_, ?_, g6, ?_⟩
    · rw [e1]; exact ⟨g1, g3⟩
    · rw [← e2]; exact g5
    · rw [← k3]; exact hmv

theorem inv_color_has (b : Board) (hb : Consistent b) (c : Color) (d : Sq) :
    (b.color c).has d = decide ((b.get d).color = some c) := ((consistent_iff' b).mp hb).2.1 c d

theorem file_ne_of_diff {s d : Sq} (h : absDiff s.file.val d.file.val = 1) : s.file ≠ d.file := by
  intro e; rw [e] at h; simp [absDiff] at h

theorem diff_of_file_ne {s d : Sq} (h1 : absDiff s.file.val d.file.val ≤ 1) (h2 : s.file ≠ d.file) :
    absDiff s.file.val d.file.val = 1 := by
  unfold absDiff at *
  have : s.file.val ≠ d.file.val := fun e => h2 (Fin.ext e)
  split <;> split at h1 <;> omega

/-- pawn captures without promotion -/
theorem mem_cap_iff (b : Board) (hv : Valid b) (mv : Move) :
    mv ∈ genPawnCaptureOf b b.r.side false (b.piece2 b.r.side .pawn &&& ~~~ rankBB (promoteSrcRank b.r.side)) ↔
      (SL b mv ∧ mv.kind = .simple ∧ mv.cell = Cell.mk b.r.side .pawn ∧ mv.src.file ≠ mv.dst.file) := by
  have hb := hv.shape.cons
  rw [mem_genPawnCaptureOf]
  simp only [mem_addPawn, Bool.false_eq_true, if_false, (pawns_mask_has b hb b.r.side _ _).2, Bool.and_eq_true,
    decide_eq_true_eq, Bool.not_eq_true', decide_eq_false_iff_not, inv_color_has b hb]
  constructor
  · intro h
    have key : ∀ s d, (((d.rank ≠ behindRank b.r.side ∧ d.file ≠ 7) ∧ s = addU d (-(leftDelta b.r.side)))
        ∨ ((d.rank ≠ behindRank b.r.side ∧ d.file ≠ 0) ∧ s = addU d (-(rightDelta b.r.side)))) →
        b.get s = Cell.mk b.r.side .pawn → s.rank ≠ promoteSrcRank b.r.side → (b.get d).color = some b.r.side.inv →
        SL b (mkMove b.r.side .simple .pawn s d) ∧ s.file ≠ d.file := by
      intro s d hgeo h2 h3 h4
      obtain ⟨r0, r7⟩ := hv.checks.pawns _ _ h2
      obtain ⟨g1, g2⟩ := (pg_cap b.r.side s d).mpr hgeo
      have hr := (pg_ranks b.r.side s d g2 r0 r7).1.mpr h3
      exact ⟨(sl_pawn_simple b s d).mpr ⟨h2, r0, r7, hr.1, hr.2, g2, Or.inr ⟨g1, h4⟩⟩, file_ne_of_diff g1⟩
    rcases h with ⟨d, h1, ⟨h2, h3⟩, h4, rfl⟩ | ⟨d, h1, ⟨h2, h3⟩, h4, rfl⟩
    · obtain ⟨k1, k2⟩ := key _ d (Or.inl ⟨h1, rfl⟩) h2 h3 h4
      exact ⟨k1, rfl, rfl, k2⟩
    · obtain ⟨k1, k2⟩ := key _ d (Or.inr ⟨h1, rfl⟩) h2 h3 h4
      exact ⟨k1, rfl, rfl, k2⟩
  · rintro ⟨hsl, hk, hcell, hf⟩
    obtain ⟨piece, hc, _, hmv⟩ := sl_normal b mv hsl
    have hp : piece = .pawn := (mk_inj (hc.symm.trans hcell)).2
    subst hp
    rw [hk] at hmv
    have hsl' := hsl
    rw [hmv] at hsl'
    obtain ⟨g1, r0, r7, q0, q7, gs, gd⟩ := (sl_pawn_simple b mv.src mv.dst).mp hsl'
    obtain ⟨gdiff, gcol⟩ : absDiff mv.src.file.val mv.dst.file.val = 1 ∧ (b.get mv.dst).color = some b.r.side.inv := by
      rcases gd with ⟨e, _⟩ | h
      · exact absurd e hf
      · exact h
    have hnp := (pg_ranks b.r.side _ _ gs r0 r7).1.mp ⟨q0, q7⟩
    rcases (pg_cap b.r.side mv.src mv.dst).mp ⟨gdiff, gs⟩ with ⟨k1, k2⟩ | ⟨k1, k2⟩
    · left; refine ⟨mv.dst, k1, ?_, gcol, ?_⟩
      · rw [← k2]; exact ⟨g1, hnp⟩
      · rw [← k2]; exact hmv
    · right; refine ⟨mv.dst, k1, ?_, gcol, ?_⟩
      · rw [← k2]; exact ⟨g1, hnp⟩
      · rw [← k2]; exact hmv

/-- pawn captures with promotion -/
theorem mem_promo_cap_iff (b : Board) (hv : Valid b) (mv : Move) :
    mv ∈ genPawnCaptureOf b b.r.side true (b.piece2 b.r.side .pawn &&& rankBB (promoteSrcRank b.r.side)) ↔
      (SL b mv ∧ mv.kind.promote.isSome = true ∧ mv.src.file ≠ mv.dst.file) := by
  have hb := hv.shape.cons
  rw [mem_genPawnCaptureOf]
  simp only [mem_addPawn, if_true, (pawns_mask_has b hb b.r.side _ _).1, Bool.and_eq_true,
    decide_eq_true_eq, inv_color_has b hb, isPromo_iff]
  obtain ⟨pr0, pr7⟩ := prom_src_ranks b.r.side
  constructor
  · intro h
    have key : ∀ s d, (((d.rank ≠ behindRank b.r.side ∧ d.file ≠ 7) ∧ s = addU d (-(leftDelta b.r.side)))
        ∨ ((d.rank ≠ behindRank b.r.side ∧ d.file ≠ 0) ∧ s = addU d (-(rightDelta b.r.side)))) →
        b.get s = Cell.mk b.r.side .pawn → s.rank = promoteSrcRank b.r.side → (b.get d).color = some b.r.side.inv →
        ∀ k, (k = .promN ∨ k = .promB ∨ k = .promR ∨ k = .promQ) →
        SL b (mkMove b.r.side k .pawn s d) ∧ s.file ≠ d.file := by
      intro s d hgeo h2 h3 h4 k hk
      obtain ⟨g1, g2⟩ := (pg_cap b.r.side s d).mpr hgeo
      have hdr := (pg_ranks b.r.side s d g2 (by rw [h3]; exact pr0) (by rw [h3]; exact pr7)).2.mp h3
      exact ⟨(sl_pawn_promo b k hk s d).mpr ⟨h2, h3, hdr, Or.inr ⟨g1, h4⟩⟩, file_ne_of_diff g1⟩
    rcases h with ⟨d, h1, ⟨h2, h3⟩, h4, hm⟩ | ⟨d, h1, ⟨h2, h3⟩, h4, hm⟩
    · have kk := key _ d (Or.inl ⟨h1, rfl⟩) h2 h3 h4
      rcases hm with rfl | rfl | rfl | rfl
      · exact ⟨(kk _ (Or.inl rfl)).1, Or.inl rfl, (kk _ (Or.inl rfl)).2⟩
      · exact ⟨(kk _ (Or.inr (Or.inl rfl))).1, Or.inr (Or.inl rfl), (kk _ (Or.inl rfl)).2⟩
      · exact ⟨(kk _ (Or.inr (Or.inr (Or.inl rfl)))).1, Or.inr (Or.inr (Or.inl rfl)), (kk _ (Or.inl rfl)).2⟩
      · exact ⟨(kk _ (Or.inr (Or.inr (Or.inr rfl)))).1, Or.inr (Or.inr (Or.inr rfl)), (kk _ (Or.inl rfl)).2⟩
    · have kk := key _ d (Or.inr ⟨h1, rfl⟩) h2 h3 h4
      rcases hm with rfl | rfl | rfl | rfl
      · exact ⟨(kk _ (Or.inl rfl)).1, Or.inl rfl, (kk _ (Or.inl rfl)).2⟩
      · exact ⟨(kk _ (Or.inr (Or.inl rfl))).1, Or.inr (Or.inl rfl), (kk _ (Or.inl rfl)).2⟩
      · exact ⟨(kk _ (Or.inr (Or.inr (Or.inl rfl)))).1, Or.inr (Or.inr (Or.inl rfl)), (kk _ (Or.inl rfl)).2⟩
      · exact ⟨(kk _ (Or.inr (Or.inr (Or.inr rfl)))).1, Or.inr (Or.inr (Or.inr rfl)), (kk _ (Or.inl rfl)).2⟩
  · rintro ⟨hsl, hk, hf⟩
    obtain ⟨piece, hc, hmatch, hmv⟩ := sl_normal b mv hsl
    have hp : piece = .pawn := matches_pawn hmatch (by rcases hk with h | h | h | h <;> simp [h])
    subst hp
    have hsl' := hsl
    rw [hmv] at hsl'
    obtain ⟨g1, g2, g3, gd⟩ := (sl_pawn_promo b mv.kind hk mv.src mv.dst).mp hsl'
    obtain ⟨gdiff, gcol⟩ : absDiff mv.src.file.val mv.dst.file.val = 1 ∧ (b.get mv.dst).color = some b.r.side.inv := by
      rcases gd with ⟨e, _⟩ | h
      · exact absurd e hf
      · exact h
    have hstep := (pg_promo b.r.side mv.src mv.dst g2 (by omega)).mp g3
    have hmem : mv = mkMove b.r.side .promN .pawn mv.src mv.dst ∨ mv = mkMove b.r.side .promB .pawn mv.src mv.dst
        ∨ mv = mkMove b.r.side .promR .pawn mv.src mv.dst ∨ mv = mkMove b.r.side .promQ .pawn mv.src mv.dst := by
      rcases hk with h | h | h | h <;> rw [h] at hmv
      · exact Or.inl hmv
      · exact Or.inr (Or.inl hmv)
      · exact Or.inr (Or.inr (Or.inl hmv))
      · exact Or.inr (Or.inr (Or.inr hmv))
    rcases (pg_cap b.r.side mv.src mv.dst).mp ⟨gdiff, hstep⟩ with ⟨k1, k2⟩ | ⟨k1, k2⟩
    · left; refine ⟨mv.dst, k1, ?_, gcol, ?_⟩
      · rw [← k2]; exact ⟨g1, g2⟩
      · rw [← k2]; exact hmem
    · right; refine ⟨mv.dst, k1, ?_, gcol, ?_⟩
      · rw [← k2]; exact ⟨g1, g2⟩
      · rw [← k2]; exact hmem

theorem ep_dst_rank (c : Color) : ∀ p : Sq, p.rank = epSrcRank c → (addU p (forwardDelta c)).rank = epDstRank c := by
  cases c <;> decide

/-- en passant -/
theorem mem_ep_iff (b : Board) (hv : Valid b) (mv : Move) :
    mv ∈ genPawnEnpassant b b.r.side ↔ (SL b mv ∧ mv.kind = .ep) := by
  unfold genPawnEnpassant
  cases hep : b.r.ep with
  | none =>
    simp only [List.not_mem_nil, false_iff]
    rintro ⟨hsl, hk⟩
    obtain ⟨piece, hc, hmatch, hmv⟩ := sl_normal b mv hsl
    have hp : piece = .pawn := matches_pawn hmatch (Or.inr (Or.inl hk))
    subst hp
    rw [hk] at hmv
    rw [hmv] at hsl
    obtain ⟨_, _, _, _, _, p, hp, _⟩ := (sl_pawn_ep b mv.src mv.dst).mp hsl
    rw [hep] at hp; cases hp
  | some p =>
    obtain ⟨hrank, hpawn, hfree⟩ := hv.shape.ep p hep
    have hdr := ep_dst_rank b.r.side p hrank
    have hgeo := pg_ep b.r.side p
    have hfree' : b.get (addU p (forwardDelta b.r.side)) = Cell.empty := hfree
    have hdcol : (b.get (addU p (forwardDelta b.r.side))).color ≠ some b.r.side := by
      rw [hfree', empty_color]; simp
    simp only [List.mem_append, mem_ite_single, mem_ite_single', Bool.and_eq_true, bne_iff_ne, ne_eq, decide_eq_true_eq]
    constructor
    · rintro (⟨⟨h1, h2⟩, rfl⟩ | ⟨⟨h1, h2⟩, rfl⟩)
      · obtain ⟨g1, g2, g3, g4⟩ := (hgeo (addU p (-1)) hrank).mpr (Or.inl ⟨h1, rfl⟩)
        exact ⟨(sl_pawn_ep b _ _).mpr ⟨h2, g1, g2, g3, hdcol, p, hep, g4, rfl⟩, rfl⟩
      · obtain ⟨g1, g2, g3, g4⟩ := (hgeo (addU p 1) hrank).mpr (Or.inr ⟨h1, rfl⟩)
        exact ⟨(sl_pawn_ep b _ _).mpr ⟨h2, g1, g2, g3, hdcol, p, hep, g4, rfl⟩, rfl⟩
    · rintro ⟨hsl, hk⟩
      obtain ⟨piece, hc, hmatch, hmv⟩ := sl_normal b mv hsl
      have hp : piece = .pawn := matches_pawn hmatch (Or.inr (Or.inl hk))
      subst hp
      rw [hk] at hmv
      have hsl' := hsl
      rw [hmv] at hsl'
      obtain ⟨g1, g2, g3, g4, _, p', hp', g6, g7⟩ := (sl_pawn_ep b mv.src mv.dst).mp hsl'
      rw [hep] at hp'; cases hp'
      rw [g7] at g3 g4
      rcases (hgeo mv.src hrank).mp ⟨g2, g3, g4, g6⟩ with ⟨k1, k2⟩ | ⟨k1, k2⟩
      · left; refine ⟨⟨k1, ?_⟩, ?_⟩
        · rw [← k2]; exact g1
        · rw [← k2, ← g7]; exact hmv
      · right; refine ⟨⟨k1, ?_⟩, ?_⟩
        · rw [← k2]; exact g1
        · rw [← k2, ← g7]; exact hmv

/-- castling -/
theorem mem_castle_iff (b : Board) (hv : Valid b) (mv : Move) :
    mv ∈ genCastling b b.r.side ↔ (SL b mv ∧ (mv.kind = .castleK ∨ mv.kind = .castleQ)) := by
  have hb := hv.shape.cons
  rw [mem_genCastling]
  have hcomm : ∀ sd, (castlingPass b.r.side sd &&& b.all) = (b.all &&& castlingPass b.r.side sd) := fun sd => BitVec.and_comm _ _
  simp only [hcomm]
  constructor
  · rintro (⟨h1, h2, h3, h4, rfl⟩ | ⟨h1, h2, h3, h4, rfl⟩)
    · obtain ⟨hk, _⟩ := hv.shape.rights b.r.side .king h1
      have hG : b.get (Sq.mk fileG (castlingRank b.r.side)) = Cell.empty :=
        empty_of_pass b hb _ h2 _ (by rw [(pass_masks b.r.side _).1]; simp)
      refine ⟨(sl_castle b .king _ _).mpr ⟨rfl, rfl, hk, ?_, h1, h2, h3, h4⟩, Or.inl rfl⟩
      rw [hG, empty_color]; simp
    · obtain ⟨hk, _⟩ := hv.shape.rights b.r.side .queen h1
      have hC : b.get (Sq.mk fileC (castlingRank b.r.side)) = Cell.empty :=
        empty_of_pass b hb _ h2 _ (by rw [(pass_masks b.r.side _).2]; simp)
      refine ⟨(sl_castle b .queen _ _).mpr ⟨rfl, rfl, hk, ?_, h1, h2, h3, h4⟩, Or.inr rfl⟩
      rw [hC, empty_color]; simp
  · rintro ⟨hsl, hk⟩
    obtain ⟨piece, hc, hmatch, hmv⟩ := sl_normal b mv hsl
    have hp : piece = .king := matches_king hmatch hk
    subst hp
    have hsl' := hsl
    rw [hmv] at hsl'
    rcases hk with hk | hk <;> rw [hk] at hmv hsl'
    · obtain ⟨g1, g2, _, _, g5, g6, g7, g8⟩ := (sl_castle b .king mv.src mv.dst).mp hsl'
      left; rw [g1] at g7
      exact ⟨g5, g6, g7, g8, by rw [← g1, ← g2]; exact hmv⟩
    · obtain ⟨g1, g2, _, _, g5, g6, g7, g8⟩ := (sl_castle b .queen mv.src mv.dst).mp hsl'
      right; rw [g1] at g7
      exact ⟨g5, g6, g7, g8, by rw [← g1, ← g2]; exact hmv⟩

/-- for a pawn's simple move or promotion: straight ahead iff the destination is empty -/
theorem sl_pawn_file_iff (b : Board) (mv : Move) (hsl : SL b mv) (hcell : mv.cell = Cell.mk b.r.side .pawn)
    (hk : mv.kind = .simple ∨ mv.kind.promote.isSome = true) : mv.src.file = mv.dst.file ↔ b.get mv.dst = Cell.empty := by
  obtain ⟨piece, hc, _, hmv⟩ := sl_normal b mv hsl
  have hp : piece = .pawn := (mk_inj (hc.symm.trans hcell)).2
  subst hp
  have hsl' := hsl
  rw [hmv] at hsl'
  have hne : ∀ x : Cell, x.color = some b.r.side.inv → x ≠ Cell.empty := by
    intro x hx e; rw [e, empty_color] at hx; cases hx
  rcases hk with hk | hk
  · rw [hk] at hsl'
    obtain ⟨_, _, _, _, _, _, gd⟩ := (sl_pawn_simple b mv.src mv.dst).mp hsl'
    rcases gd with ⟨e1, e2⟩ | ⟨e1, e2⟩
    · exact ⟨fun _ => e2, fun _ => e1⟩
    · exact ⟨fun h => absurd h (file_ne_of_diff e1), fun h => absurd h (hne _ e2)⟩
  · obtain ⟨_, _, _, gd⟩ := (sl_pawn_promo b mv.kind ((isPromo_iff _).mp hk) mv.src mv.dst).mp hsl'
    rcases gd with ⟨e1, e2⟩ | ⟨e1, e2⟩
    · exact ⟨fun _ => e2, fun _ => e1⟩
    · exact ⟨fun h => absurd h (file_ne_of_diff e1), fun h => absurd h (hne _ e2)⟩

/-- which generator flag a semilegal move falls under -/
def inClass (b : Board) (mv : Move) (fs fc fp fz : Bool) : Bool :=
  match mv.kind with
  | .null => false
  | .castleK | .castleQ => fz
  | .ep => fc
  | .double => fs
  | .simple => if b.get mv.dst = Cell.empty then fs else fc
  | _ => if b.get mv.dst = Cell.empty then fp else fc

theorem mem_if_list {α : Type} (c : Bool) (l : List α) (x : α) : x ∈ (if c = true then l else []) ↔ (c = true ∧ x ∈ l) := by
  cases c <;> simp

theorem genWith_split (b : Board) (c : Color) (fs fc fp fz : Bool) (mv : Move) :
    mv ∈ genWith b c fs fc fp fz ↔
      ((fs = true ∧ mv ∈ genPawnSingle b c false (b.piece2 c .pawn &&& ~~~ rankBB (promoteSrcRank c)))
      ∨ (fs = true ∧ mv ∈ genPawnDouble b c (b.piece2 c .pawn &&& rankBB (doubleSrcRank c)))
      ∨ (fp = true ∧ mv ∈ genPawnSingle b c true (b.piece2 c .pawn &&& rankBB (promoteSrcRank c)))
      ∨ (fc = true ∧ mv ∈ genPawnCaptureOf b c false (b.piece2 c .pawn &&& ~~~ rankBB (promoteSrcRank c)))
      ∨ (fc = true ∧ mv ∈ genPawnCaptureOf b c true (b.piece2 c .pawn &&& rankBB (promoteSrcRank c)))
      ∨ (fc = true ∧ mv ∈ genPawnEnpassant b c)
      ∨ (mv ∈ genKN b c fs fc .knight ++ genKN b c fs fc .king ++ genBRQ b c fs fc)
      ∨ (fz = true ∧ mv ∈ genCastling b c)) := by
  unfold genWith genPawnSimple genPawnCapture
  cases fs <;> cases fc <;> cases fp <;> cases fz <;>
    simp only [Bool.or_self, Bool.or_true, Bool.or_false, Bool.false_eq_true, if_true, if_false, List.mem_append,
      List.not_mem_nil, List.append_nil, List.nil_append, false_and, true_and, false_or, or_false, or_assoc]

/-- C06: the generator with flags (simple, capture, simple-promote, castling) emits exactly the well-formed semilegal
moves of the corresponding classes -/
theorem mem_genWith_iff (b : Board) (hv : Valid b) (fs fc fp fz : Bool) (mv : Move) :
    mv ∈ genWith b b.r.side fs fc fp fz ↔ (SL b mv ∧ inClass b mv fs fc fp fz = true) := by
  have hb := hv.shape.cons
  rw [genWith_split, mem_push_iff b hv, mem_promo_push_iff b hv, mem_double_iff b hv, mem_cap_iff b hv,
    mem_promo_cap_iff b hv, mem_ep_iff b hv, mem_castle_iff b hv, mem_pieces_iff b hb fs fc mv]
  have hpawn_of_promo : SL b mv → mv.kind.promote.isSome = true → mv.cell = Cell.mk b.r.side .pawn := by
    intro hsl hk
    obtain ⟨piece, hc, hmatch, _⟩ := sl_normal b mv hsl
    have hp : piece = .pawn := matches_pawn hmatch (by
      rcases (isPromo_iff _).mp hk with h | h | h | h <;> simp [h])
    rw [hc, hp]
  have hcls_promo : mv.kind.promote.isSome = true → inClass b mv fs fc fp fz = (if b.get mv.dst = Cell.empty then fp else fc) := by
    intro hk
    rcases (isPromo_iff _).mp hk with h | h | h | h <;> simp [inClass, h]
  constructor
  · rintro (⟨hf, hsl, hk, hcell, hfile⟩ | ⟨hf, hsl, hk⟩ | ⟨hf, hsl, hk, hfile⟩ | ⟨hf, hsl, hk, hcell, hfile⟩
      | ⟨hf, hsl, hk, hfile⟩ | ⟨hf, hsl, hk⟩ | ⟨hsl, hk, hcell, hcls⟩ | ⟨hf, hsl, hk⟩)
    · have he := (sl_pawn_file_iff b mv hsl hcell (Or.inl hk)).mp hfile
      exact ⟨hsl, by simp [inClass, hk, he, hf]⟩
    · exact ⟨hsl, by simp [inClass, hk, hf]⟩
    · have he := (sl_pawn_file_iff b mv hsl (hpawn_of_promo hsl hk) (Or.inr hk)).mp hfile
      exact ⟨hsl, by rw [hcls_promo hk]; simp [he, hf]⟩
    · have he : ¬ b.get mv.dst = Cell.empty := fun e => hfile ((sl_pawn_file_iff b mv hsl hcell (Or.inl hk)).mpr e)
      exact ⟨hsl, by simp [inClass, hk, he, hf]⟩
    · have he : ¬ b.get mv.dst = Cell.empty :=
        fun e => hfile ((sl_pawn_file_iff b mv hsl (hpawn_of_promo hsl hk) (Or.inr hk)).mpr e)
      exact ⟨hsl, by rw [hcls_promo hk]; simp [he, hf]⟩
    · exact ⟨hsl, by simp [inClass, hk, hf]⟩
    · refine ⟨hsl, ?_⟩
      rcases hcls with ⟨he, hf⟩ | ⟨he, hf⟩ <;> simp [inClass, hk, he, hf]
    · refine ⟨hsl, ?_⟩
      rcases hk with hk | hk <;> simp [inClass, hk, hf]
  · rintro ⟨hsl, hcls⟩
    obtain ⟨hknull, _, _, _⟩ := semilegal_base b mv hsl.2
    by_cases hpr : mv.kind.promote.isSome = true
    · rw [hcls_promo hpr] at hcls
      have hcell := hpawn_of_promo hsl hpr
      by_cases he : b.get mv.dst = Cell.empty
      · rw [if_pos he] at hcls
        exact Or.inr (Or.inr (Or.inl ⟨hcls, hsl, hpr, (sl_pawn_file_iff b mv hsl hcell (Or.inr hpr)).mpr he⟩))
      · rw [if_neg he] at hcls
        exact Or.inr (Or.inr (Or.inr (Or.inr (Or.inl ⟨hcls, hsl, hpr,
          fun e => he ((sl_pawn_file_iff b mv hsl hcell (Or.inr hpr)).mp e)⟩))))
    · cases hk : mv.kind <;> simp only [hk, Kind.promote, Option.isSome_some, not_true_eq_false] at hpr
      · exact absurd hk hknull
      · -- simple
        by_cases hcell : mv.cell = Cell.mk b.r.side .pawn
        · by_cases he : b.get mv.dst = Cell.empty
          · have : fs = true := by simpa [inClass, hk, he] using hcls
            exact Or.inl ⟨this, hsl, rfl, hcell, (sl_pawn_file_iff b mv hsl hcell (Or.inl hk)).mpr he⟩
          · have : fc = true := by simpa [inClass, hk, he] using hcls
            exact Or.inr (Or.inr (Or.inr (Or.inl ⟨this, hsl, rfl, hcell,
              fun e => he ((sl_pawn_file_iff b mv hsl hcell (Or.inl hk)).mp e)⟩)))
        · refine Or.inr (Or.inr (Or.inr (Or.inr (Or.inr (Or.inr (Or.inl ⟨hsl, rfl, hcell, ?_⟩))))))
          by_cases he : b.get mv.dst = Cell.empty
          · left; exact ⟨he, by simpa [inClass, hk, he] using hcls⟩
          · right; exact ⟨he, by simpa [inClass, hk, he] using hcls⟩
      · have : fz = true := by simpa [inClass, hk] using hcls
        exact Or.inr (Or.inr (Or.inr (Or.inr (Or.inr (Or.inr (Or.inr ⟨this, hsl, Or.inl rfl⟩))))))
      · have : fz = true := by simpa [inClass, hk] using hcls
        exact Or.inr (Or.inr (Or.inr (Or.inr (Or.inr (Or.inr (Or.inr ⟨this, hsl, Or.inr rfl⟩))))))
      · have : fs = true := by simpa [inClass, hk] using hcls
        exact Or.inr (Or.inl ⟨this, hsl, rfl⟩)
      · have : fc = true := by simpa [inClass, hk] using hcls
        exact Or.inr (Or.inr (Or.inr (Or.inr (Or.inr (Or.inl ⟨this, hsl, rfl⟩)))))

end Owl.Lemmas
