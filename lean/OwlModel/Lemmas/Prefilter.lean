/-
Prefilter soundness: `DefaultPrechecker` short-cuts only moves the exact test accepts, so the generators' legality
test (`Checker` behind `DefaultPrechecker`) equals `is_legal_unchecked` on every well-formed semilegal move.
-/
import OwlModel.Lemmas.Pinned

namespace Owl.Lemmas
open Owl Owl.Impl

/-- C01 (prefilter soundness): when the side to move is not in check, a semilegal move of a man that is neither the
king nor in `pinned`, other than en passant, passes the exact legality test -/
theorem prefilter_sound (b : Board) (mv : Move) (hs : Shape b) (hwf : mv.isWellFormed = true)
    (hsl : isSemilegal b mv = true) (k : Sq) (hking : b.get k = Cell.mk b.r.side .king)
    (huniq : ∀ t, b.get t = Cell.mk b.r.side .king → t = k)
    (hnc : isCellAttacked b k b.r.side.inv = false)
    (hpk : (pinned b b.r.side k ||| BB.single k).has mv.src = false) (hep : mv.kind ≠ .ep) :
    Checker.isLegal ⟨b, .nil, b.r.side.inv, k⟩ mv = true := by
  have hb := hs.cons
  rw [BB.has_or, BB.has_single, Bool.or_eq_false_iff] at hpk
  obtain ⟨hpin, hks⟩ := hpk
  have hsk : mv.src ≠ k := by intro e; simp [e] at hks
  obtain ⟨hknull, hsrc, hcol, hdst⟩ := semilegal_base b mv hsl
  obtain ⟨hne, color, piece, hcol', hpiece, hmatch, hK, hQ, _⟩ := wf_facts mv hwf hknull
  have hcc : color = b.r.side := by rw [hcol] at hcol'; exact (Option.some.inj hcol').symm
  subst hcc
  have ok := makeOk_of_semilegal b mv hs hwf hsl
  -- castling moves start on the king's square
  have hn : NonCastle mv := by
    refine ⟨hknull, ?_, ?_⟩
    · intro hc
      unfold MakeOk at ok; simp only [hc] at ok
      exact hsk ((hK hc).1.trans (huniq _ ok.1))
    · intro hc
      unfold MakeOk at ok; simp only [hc] at ok
      exact hsk ((hQ hc).1.trans (huniq _ ok.2.2.2))
  rw [isLegal_other b mv hs hwf hsl hn k hsk]
  have F := moveFacts b mv hs hwf hsl
  have hb' := (make_shape b mv hs hwf hsl).cons
  have hv0 : victimBB mv b.r.side = 0#64 := by unfold victimBB; rw [if_neg hep]
  -- before the move nobody attacks the king
  have hbefore : ∀ s, (attackSet (b.piece2 b.r.side.inv) k b.r.side.inv b.all).has s = false := by
    intro s
    rw [isCellAttacked_set] at hnc
    cases h : (attackSet (b.piece2 b.r.side.inv) k b.r.side.inv b.all).has s
    · rfl
    · have := (nonEmpty_iff _).mpr ⟨s, h⟩
      rw [hnc] at this; cases this
  cases hatt : isCellAttacked (makeMove b mv).1 k b.r.side.inv
  · rfl
  · exfalso
    rw [isCellAttacked_set, nonEmpty_iff] at hatt
    obtain ⟨s, hs'⟩ := hatt
    rw [attackSet_congr _ _ (post_sets b mv hs.cons hb' hn F), post_all b mv hs.cons hb' hn F, hv0] at hs'
    simp only [BitVec.or_zero, BitVec.xor_zero] at hs'
    have h0 := hbefore s
    rw [attackSet_has] at hs' h0
    simp only [BB.has_and, BB.has_not, BB.has_single] at hs'
    -- the near terms would have been attacks before
    simp only [Bool.or_eq_false_iff, Bool.and_eq_false_iff] at h0
    obtain ⟨⟨⟨⟨p1, p2⟩, p3⟩, p4⟩, p5⟩ := h0
    simp only [Bool.or_eq_true, Bool.and_eq_true] at hs'
    have hcs : (b.color b.r.side).has mv.src = true := by
      rw [((consistent_iff' b).mp hb).2.1, hsrc, hcol]; simp
    have hsrcall : b.all.has mv.src = true := by
      rw [all_has b hb, hsrc]
      have : mv.cell ≠ 0 := by intro e; rw [e] at hcol; cases hcol
      simp [this]
    have hocc : ∀ x, (b.all ^^^ BB.single mv.src ||| BB.single mv.dst).has x = false → b.all.has x = true → x = mv.src := by
      intro x h1 h2
      rw [BB.has_or, BB.has_xor, BB.has_single, BB.has_single, h2] at h1
      by_cases e : mv.src = x
      · exact e.symm
      · simp [e] at h1
    have hdiag : (bishopAttack k (b.all ^^^ BB.single mv.src ||| BB.single mv.dst)).has s = true →
        (b.pieceDiag b.r.side.inv).has s = true → False := by
      intro hnew hpc
      have hold : (bishopAttack k b.all).has s = false := by
        rcases p4 with h | h
        · exact h
        · unfold Board.pieceDiag at hpc; rw [BB.has_or] at hpc; rw [h.1, h.2] at hpc; cases hpc
      rw [bishopAttack_has, Bool.and_eq_true] at hnew
      obtain ⟨hv, hemp⟩ := hnew
      rw [bishopAttack_has, hv, Bool.true_and] at hold
      have hfree := (BB.isEmpty_iff _).mp hemp
      have hblk : ∀ y, (bishopStrict s k).has y = true → b.all.has y = true → y = mv.src := by
        intro y hy ha
        have := hfree y
        rw [BB.has_and, hy, Bool.true_and] at this
        exact hocc y this ha
      have hsx : (bishopStrict s k).has mv.src = true := by
        cases hh : (bishopStrict s k).has mv.src
        · exfalso
          have : (bishopStrict s k &&& b.all).isEmpty = true := by
            rw [BB.isEmpty_iff]; intro y; rw [BB.has_and]
            cases hy : (bishopStrict s k).has y
            · rfl
            · cases ha : b.all.has y
              · rfl
              · have := hblk y hy ha; subst this; rw [hh] at hy; cases hy
          rw [this] at hold; cases hold
        · rfl
      have := pinned_has_diag b hb b.r.side k mv.src s hcs hpc hv hsx hblk hsrcall
      rw [hpin] at this; cases this
    have hline : (rookAttack k (b.all ^^^ BB.single mv.src ||| BB.single mv.dst)).has s = true →
        (b.pieceLine b.r.side.inv).has s = true → False := by
      intro hnew hpc
      have hold : (rookAttack k b.all).has s = false := by
        rcases p5 with h | h
        · exact h
        · unfold Board.pieceLine at hpc; rw [BB.has_or] at hpc; rw [h.1, h.2] at hpc; cases hpc
      rw [rookAttack_has, Bool.and_eq_true] at hnew
      obtain ⟨hv, hemp⟩ := hnew
      rw [rookAttack_has, hv, Bool.true_and] at hold
      have hfree := (BB.isEmpty_iff _).mp hemp
      have hblk : ∀ y, (rookStrict s k).has y = true → b.all.has y = true → y = mv.src := by
        intro y hy ha
        have := hfree y
        rw [BB.has_and, hy, Bool.true_and] at this
        exact hocc y this ha
      have hsx : (rookStrict s k).has mv.src = true := by
        cases hh : (rookStrict s k).has mv.src
        · exfalso
          have : (rookStrict s k &&& b.all).isEmpty = true := by
            rw [BB.isEmpty_iff]; intro y; rw [BB.has_and]
            cases hy : (rookStrict s k).has y
            · rfl
            · cases ha : b.all.has y
              · rfl
              · have := hblk y hy ha; subst this; rw [hh] at hy; cases hy
          rw [this] at hold; cases hold
        · rfl
      have := pinned_has_line b hb b.r.side k mv.src s hcs hpc hv hsx hblk hsrcall
      rw [hpin] at this; cases this
    rcases hs' with (((h | h) | h) | h) | h
    · rcases p1 with q | q
      · rw [q] at h; exact absurd h.1.1 (by simp)
      · rw [q] at h; exact absurd h.2 (by simp)
    · rcases p2 with q | q
      · rw [q] at h; exact absurd h.1.1 (by simp)
      · rw [q] at h; exact absurd h.2 (by simp)
    · rcases p3 with q | q
      · rw [q] at h; exact absurd h.1.1 (by simp)
      · rw [q] at h; exact absurd h.2 (by simp)
    · apply hdiag h.1
      unfold Board.pieceDiag; rw [BB.has_or]
      rcases h.2 with q | q
      · simp [q.1]
      · simp [q.1]
    · apply hline h.1
      unfold Board.pieceLine; rw [BB.has_or]
      rcases h.2 with q | q
      · simp [q.1]
      · simp [q.1]

/-- C01: the legality test the generators use (`DefaultPrechecker`) gives the same answers as the exact one -/
theorem isLegal_default (b : Board) (mv : Move) (hv : Valid b) (hwf : mv.isWellFormed = true)
    (hsl : isSemilegal b mv = true) (k : Sq) (hking : b.get k = Cell.mk b.r.side .king) :
    ∃ ck, defaultChecker? b = some ck ∧ ck.isLegal mv = Checker.isLegal ⟨b, .nil, b.r.side.inv, k⟩ mv := by
  obtain ⟨k0, _, hu0⟩ := hv.checks.king b.r.side
  have huniq : ∀ t, b.get t = Cell.mk b.r.side .king → t = k := fun t ht => (hu0 t ht).trans (hu0 k hking).symm
  have hkp := kingPos_of b hv.shape.cons b.r.side k hking huniq
  unfold defaultChecker? defaultPre? isCheck? mkChecker?
  simp only [hkp]
  cases hc : isCellAttacked b k b.r.side.inv
  · simp only
    refine ⟨_, rfl, ?_⟩
    unfold Checker.isLegal
    simp only [Pre.isLegalPre]
    by_cases hcond : (!(pinned b b.r.side k ||| BB.single k).has mv.src && decide (mv.kind ≠ .ep)) = true
    · rw [if_pos hcond]
      simp only [Bool.and_eq_true, Bool.not_eq_true', decide_eq_true_eq] at hcond
      have := prefilter_sound b mv hv.shape hwf hsl k hking huniq hc hcond.1 hcond.2
      unfold Checker.isLegal at this
      simp only [Pre.isLegalPre] at this
      exact this.symm
    · rw [if_neg hcond]; rfl
  · simp only
    exact ⟨_, rfl, rfl⟩

end Owl.Lemmas
