import OwlModel.Lemmas.TablesDef
namespace Owl.Lemmas
theorem rook_rank_1 : rookCheckRank 1 = true := by decide +kernel
end Owl.Lemmas
