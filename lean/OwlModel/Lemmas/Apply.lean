/-
C03 lemmas: `make_move_unchecked` against `Spec.apply`, field by field.
-/
import OwlModel.Lemmas.Validate

namespace Owl.Lemmas
open Owl Owl.Impl

theorem make_side (b : Board) (mv : Move) : (makeMove b mv).1.r.side = b.r.side.inv := by
  unfold makeMove; simp
theorem make_mn (b : Board) (mv : Move) :
    (makeMove b mv).1.r.mn = if b.r.side = .black then satInc b.r.mn else b.r.mn := by
  unfold makeMove; simp
theorem make_mc (b : Board) (mv : Move) :
    (makeMove b mv).1.r.mc =
      if b.get mv.dst ≠ Cell.empty || mv.cell = Cell.mk b.r.side .pawn then 0 else satInc b.r.mc := by
  unfold makeMove; simp

theorem updateCastling_castling (b : Board) (ch : BB) :
    (updateCastling b ch).r.castling = if (ch &&& castlingAllSrcs).isEmpty then b.r.castling else castlingAfter b.r.castling ch := by
  unfold updateCastling
  split
  · rfl
  · split
    · simp
    · rename_i h; simp only [ne_eq, Decidable.not_not] at h; exact h.symm

theorem makeBody_ep (c : Color) (b : Board) (mv : Move) (d : Cell) :
    (makeBody c b mv d).r.ep = if mv.kind = .double then some mv.dst else b.r.ep := by
  unfold makeBody
  cases mv.kind <;>
    simp [makeCastlingK, makeCastlingQ, makePawnDouble, makeEnpassant, updateCastling_ep]
  split <;> simp [updateCastling_ep]

theorem make_ep (b : Board) (mv : Move) :
    (makeMove b mv).1.r.ep = if mv.kind = .double then some mv.dst else none := by
  unfold makeMove
  simp only [refreshAll_r, xorHash_r, setTurn_ep, makeBody_ep, clearEp_ep]

theorem satInc_eq (n : Nat) : satInc n = min (n + 1) 65535 := by
  unfold satInc; split <;> omega

theorem makeBody_cells (c : Color) (b : Board) (mv : Move) (d : Cell) :
    (makeBody c b mv d).r.cells =
      match mv.kind with
      | .null => b.r.cells
      | .simple => (b.r.cells.put mv.src Cell.empty).put mv.dst mv.cell
      | .double => (b.r.cells.put mv.src Cell.empty).put mv.dst (Cell.mk c .pawn)
      | .castleK => (((b.r.cells.put (Sq.mk fileE (castlingRank c)) Cell.empty).put (Sq.mk fileF (castlingRank c)) (Cell.mk c .rook)).put
          (Sq.mk fileG (castlingRank c)) (Cell.mk c .king)).put (Sq.mk fileH (castlingRank c)) Cell.empty
      | .castleQ => (((b.r.cells.put (Sq.mk fileA (castlingRank c)) Cell.empty).put (Sq.mk fileC (castlingRank c)) (Cell.mk c .king)).put
          (Sq.mk fileD (castlingRank c)) (Cell.mk c .rook)).put (Sq.mk fileE (castlingRank c)) Cell.empty
      | .ep => ((b.r.cells.put mv.src Cell.empty).put mv.dst (Cell.mk c .pawn)).put (addU mv.dst (-(forwardDelta c))) Cell.empty
      | _ => (b.r.cells.put mv.src Cell.empty).put mv.dst (Cell.mk c (mv.kind.promote.getD .queen)) := by
  unfold makeBody
  cases mv.kind <;>
    simp [makeCastlingK, makeCastlingQ, makePawnDouble, makeEnpassant, updateCastling_cells]
  split <;> simp [updateCastling_cells]

theorem makeBody_castling (c : Color) (b : Board) (mv : Move) (d : Cell) :
    (makeBody c b mv d).r.castling =
      match mv.kind with
      | .simple =>
        if mv.cell ≠ Cell.mk c .pawn ∧ ¬ ((BB.single mv.src ||| BB.single mv.dst) &&& castlingAllSrcs).isEmpty = true
        then castlingAfter b.r.castling (BB.single mv.src ||| BB.single mv.dst) else b.r.castling
      | .castleK | .castleQ => rWithoutColor b.r.castling c
      | .null | .double | .ep => b.r.castling
      | _ =>
        if ¬ ((BB.single mv.src ||| BB.single mv.dst) &&& castlingAllSrcs).isEmpty = true
        then castlingAfter b.r.castling (BB.single mv.src ||| BB.single mv.dst) else b.r.castling := by
  unfold makeBody
  cases mv.kind <;>
    simp [makeCastlingK, makeCastlingQ, makePawnDouble, makeEnpassant, updateCastling_castling]
  · by_cases hp : mv.cell = Cell.mk c Piece.pawn
    · simp [hp]
    · by_cases he : ((BB.single mv.src ||| BB.single mv.dst) &&& castlingAllSrcs).isEmpty = true <;>
        simp [hp, he, updateCastling_castling]
  all_goals
    by_cases he : ((BB.single mv.src ||| BB.single mv.dst) &&& castlingAllSrcs).isEmpty = true <;> simp [he]

theorem srcs_has (c : Color) (s : Side) (t : Sq) :
    (castlingSrcs c s).has t = (decide (t = kingHomeSq c) || decide (t = rookHomeSq c s)) := by
  cases c <;> cases s <;> revert t <;> decide +kernel

theorem allSrcs_has (t : Sq) :
    castlingAllSrcs.has t = ((castlingSrcs .white .queen).has t || (castlingSrcs .white .king).has t
      || (castlingSrcs .black .queen).has t || (castlingSrcs .black .king).has t) := by
  revert t; decide +kernel

/-- `src` or `dst` is the king or rook home square of (c, s) -/
def touches (mv : Move) (c : Color) (s : Side) : Bool :=
  decide (mv.src = kingHomeSq c) || decide (mv.src = rookHomeSq c s)
    || decide (mv.dst = kingHomeSq c) || decide (mv.dst = rookHomeSq c s)

theorem change_srcs_nonEmpty (mv : Move) (c : Color) (s : Side) :
    ((BB.single mv.src ||| BB.single mv.dst) &&& castlingSrcs c s).nonEmpty = touches mv c s := by
  unfold touches
  cases h : ((BB.single mv.src ||| BB.single mv.dst) &&& castlingSrcs c s).nonEmpty
  · have hn : ¬ (((BB.single mv.src ||| BB.single mv.dst) &&& castlingSrcs c s).nonEmpty = true) := by simp [h]
    rw [nonEmpty_iff] at hn
    symm
    simp only [Bool.or_eq_false_iff, decide_eq_false_iff_not]
    refine ⟨⟨⟨?_, ?_⟩, ?_⟩, ?_⟩ <;> intro e <;> apply hn
    · exact ⟨mv.src, by simp [srcs_has, e]⟩
    · exact ⟨mv.src, by simp [srcs_has, e]⟩
    · exact ⟨mv.dst, by simp [srcs_has, e]⟩
    · exact ⟨mv.dst, by simp [srcs_has, e]⟩
  · obtain ⟨t, ht⟩ := (nonEmpty_iff _).mp h
    simp only [BB.has_and, BB.has_or, BB.has_single, srcs_has, Bool.and_eq_true, Bool.or_eq_true,
      decide_eq_true_eq] at ht
    symm
    simp only [Bool.or_eq_true, decide_eq_true_eq]
    rcases ht with ⟨h1 | h1, h2 | h2⟩ <;> subst h1 <;> simp [h2]

theorem rHas_castlingAfter (r : Rights) (mv : Move) (c : Color) (s : Side) :
    rHas (castlingAfter r (BB.single mv.src ||| BB.single mv.dst)) c s = (rHas r c s && !touches mv c s) := by
  unfold castlingAfter
  simp only [List.foldl_cons, List.foldl_nil, change_srcs_nonEmpty]
  cases h1 : touches mv .white .queen <;> cases h2 : touches mv .white .king <;>
  cases h3 : touches mv .black .queen <;> cases h4 : touches mv .black .king <;>
  cases c <;> cases s <;> simp [rHas_without, h1, h2, h3, h4]

theorem change_all_isEmpty (mv : Move) (h : ((BB.single mv.src ||| BB.single mv.dst) &&& castlingAllSrcs).isEmpty = true)
    (c : Color) (s : Side) : touches mv c s = false := by
  rw [← change_srcs_nonEmpty]
  cases hn : ((BB.single mv.src ||| BB.single mv.dst) &&& castlingSrcs c s).nonEmpty
  · rfl
  · exfalso
    obtain ⟨t, ht⟩ := (nonEmpty_iff _).mp hn
    have := (BB.isEmpty_iff _).mp h t
    rw [BB.has_and] at ht this
    rw [Bool.and_eq_true] at ht
    rw [ht.1, Bool.true_and, allSrcs_has] at this
    cases c <;> cases s <;> simp [ht.2] at this

theorem pos_ext {p q : Spec.Pos} (h1 : p.board = q.board) (h2 : p.side = q.side) (h3 : p.rights = q.rights)
    (h4 : p.ep = q.ep) (h5 : p.half = q.half) (h6 : p.full = q.full) : p = q := by
  cases p; cases q; simp_all

/-- hypotheses of C03: a board with `Shape`, at most one king per colour, a well-formed semilegal move that does
not capture a king (true of every legal move of a valid position) -/
structure ApplyHyp (b : Board) (mv : Move) : Prop where
  shape : Shape b
  wf : mv.isWellFormed = true
  sl : isSemilegal b mv = true
  oneKing : ∀ c s t, b.get s = Cell.mk c .king → b.get t = Cell.mk c .king → s = t
  noKingCapture : ∀ c, b.get mv.dst ≠ Cell.mk c .king

theorem isSome_absCell (x : Cell) : (absCell x).isSome = decide (x ≠ Cell.empty) := by revert x; decide

/-- facts about the moving man shared by all kinds -/
theorem apply_man (b : Board) (mv : Move) (H : ApplyHyp b mv) :
    ∃ piece, mv.cell = Cell.mk b.r.side piece ∧ absMove mv = some ⟨mv.kind, ⟨b.r.side, piece⟩, mv.src, mv.dst⟩
      ∧ mv.kind.matchesPiece piece = true ∧ mv.kind ≠ .null := by
  obtain ⟨hknull, hsrc, hcol, hdst⟩ := semilegal_base b mv H.sl
  obtain ⟨hne, color, piece, hcol', hpiece, hmatch, _⟩ := wf_facts mv H.wf hknull
  have hcc : color = b.r.side := by rw [hcol] at hcol'; exact (Option.some.inj hcol').symm
  subst hcc
  have hcell := piece_of_color_piece hcol hpiece
  refine ⟨piece, hcell, ?_, hmatch, hknull⟩
  unfold absMove
  rw [hcell, absCell_mk]; rfl

theorem apply_side_full (b : Board) (mv : Move) (piece : Piece) :
    (abs (makeMove b mv).1.r).side = (Spec.apply (abs b.r) ⟨mv.kind, ⟨b.r.side, piece⟩, mv.src, mv.dst⟩).side
    ∧ (abs (makeMove b mv).1.r).full = (Spec.apply (abs b.r) ⟨mv.kind, ⟨b.r.side, piece⟩, mv.src, mv.dst⟩).full
    ∧ (abs (makeMove b mv).1.r).ep = (Spec.apply (abs b.r) ⟨mv.kind, ⟨b.r.side, piece⟩, mv.src, mv.dst⟩).ep := by
  refine ⟨?_, ?_, ?_⟩
  · rw [abs_side, make_side]; rfl
  · rw [abs_full, make_mn]
    show _ = (if b.r.side = Color.black then min ((abs b.r).full + 1) 65535 else (abs b.r).full)
    rw [abs_full, satInc_eq]
  · rw [abs_ep, make_ep]; rfl

theorem mk_eq_pawn_iff (c : Color) (p : Piece) : Cell.mk c p = Cell.mk c .pawn ↔ p = .pawn := by
  constructor
  · intro h; exact (mk_inj h).2
  · intro h; rw [h]

theorem apply_half (b : Board) (mv : Move) (H : ApplyHyp b mv) (piece : Piece)
    (hcell : mv.cell = Cell.mk b.r.side piece) (hmatch : mv.kind.matchesPiece piece = true) (hk : mv.kind ≠ .null) :
    (abs (makeMove b mv).1.r).half = (Spec.apply (abs b.r) ⟨mv.kind, ⟨b.r.side, piece⟩, mv.src, mv.dst⟩).half := by
  have ok := makeOk_of_semilegal b mv H.shape H.wf H.sl
  rw [abs_half, make_mc, hcell]
  show _ = (if (piece = Piece.pawn ∨ (Spec.capturedSq (abs b.r) ⟨mv.kind, ⟨b.r.side, piece⟩, mv.src, mv.dst⟩).isSome = true)
      then 0 else min ((abs b.r).half + 1) 65535)
  rw [abs_half, satInc_eq]
  have hdstsome : ((abs b.r).get mv.dst).isSome = decide (b.get mv.dst ≠ Cell.empty) := by
    rw [get_abs, isSome_absCell]; rfl
  unfold Spec.capturedSq
  unfold MakeOk at ok
  cases hkk : mv.kind <;> simp only [hkk] at ok hmatch ⊢
  · exact absurd hkk hk
  · -- simple
    by_cases hd : b.get mv.dst = Cell.empty <;> by_cases hp : piece = .pawn <;>
      simp [hdstsome, hd, hp, mk_eq_pawn_iff]
  · -- castleK
    have hp := matches_king hmatch (Or.inl rfl)
    obtain ⟨hwf1, _⟩ := wf_facts mv H.wf hk
    obtain ⟨_, color, pc, hc', _, _, hK, _, _⟩ := wf_facts mv H.wf hk
    have hcolor : color = b.r.side := by
      rw [hcell, color_mk] at hc'; exact (Option.some.inj hc').symm
    subst hcolor
    have hd : b.get mv.dst = Cell.empty := by rw [(hK hkk).2]; exact ok.2.2.1
    subst hp
    simp [hd, mk_eq_pawn_iff]
  · -- castleQ
    have hp := matches_king hmatch (Or.inr rfl)
    obtain ⟨_, color, pc, hc', _, _, _, hQ, _⟩ := wf_facts mv H.wf hk
    have hcolor : color = b.r.side := by
      rw [hcell, color_mk] at hc'; exact (Option.some.inj hc').symm
    subst hcolor
    have hd : b.get mv.dst = Cell.empty := by rw [(hQ hkk).2]; exact ok.2.1
    subst hp
    simp [hd, mk_eq_pawn_iff]
  · have hp := matches_pawn hmatch (Or.inl rfl); subst hp; simp
  · have hp := matches_pawn hmatch (Or.inr (Or.inl rfl)); subst hp; simp
  all_goals
    have hp := matches_pawn hmatch (by simp); subst hp; simp

theorem rHas_withoutColor (r : Rights) (c cc : Color) (s : Side) :
    rHas (rWithoutColor r c) cc s = (rHas r cc s && !decide (c = cc)) := by
  revert r; cases c <;> cases cc <;> cases s <;> decide

/-- the rights the specification removes -/
def dropS (b : Board) (mv : Move) (piece : Piece) (cc : Color) (s : Side) : Bool :=
  (decide (b.r.side = cc) && decide (piece = .king))
    || (decide (b.r.side = cc) && decide (piece = .rook) && decide (mv.src = rookHomeSq cc s))
    || (decide (mv.dst = rookHomeSq cc s) && decide (b.get mv.dst = Cell.mk cc .rook))

theorem keeps_eq (b : Board) (mv : Move) (piece : Piece) (cc : Color) (s : Side) :
    ((Spec.apply (abs b.r) ⟨mv.kind, ⟨b.r.side, piece⟩, mv.src, mv.dst⟩).rights).has cc s
      = (rHas b.r.castling cc s && !dropS b mv piece cc s) := by
  show (Spec.RightsSet.ofFn _).has cc s = _
  rw [Spec.RightsSet.has_ofFn]
  obtain ⟨hk, hrk, hrq⟩ := home_squares cc
  have hrs : Spec.rookHome cc s = rookHomeSq cc s := by cases s <;> assumption
  simp only [hrs, get_abs_beq, abs_rights, abs_rights_has]
  unfold dropS
  have e1 : ((⟨b.r.side, piece⟩ : Spec.Man) == ⟨cc, .king⟩) = (decide (b.r.side = cc) && decide (piece = .king)) := by
    cases b.r.side <;> cases cc <;> cases piece <;> rfl
  have e2 : ((⟨b.r.side, piece⟩ : Spec.Man) == ⟨cc, .rook⟩) = (decide (b.r.side = cc) && decide (piece = .rook)) := by
    cases b.r.side <;> cases cc <;> cases piece <;> rfl
  have e3 : (mv.src == rookHomeSq cc s) = decide (mv.src = rookHomeSq cc s) := by
    cases h : decide (mv.src = rookHomeSq cc s) <;> simp_all
  have e4 : (mv.dst == rookHomeSq cc s) = decide (mv.dst = rookHomeSq cc s) := by
    cases h : decide (mv.dst = rookHomeSq cc s) <;> simp_all
  rw [e1, e2, e3, e4]
  simp only [Board.get]
  generalize rHas b.r.castling cc s = x1
  generalize decide (b.r.side = cc) = x2
  generalize decide (piece = Piece.king) = x3
  generalize decide (piece = Piece.rook) = x4
  generalize decide (mv.src = rookHomeSq cc s) = x5
  generalize decide (mv.dst = rookHomeSq cc s) = x6
  cases x1 <;> cases x2 <;> cases x3 <;> cases x4 <;> cases x5 <;> cases x6 <;> simp <;> rfl

theorem touch_iff (b : Board) (mv : Move) (H : ApplyHyp b mv) (piece : Piece)
    (hcell : mv.cell = Cell.mk b.r.side piece) (cc : Color) (s : Side) (hr : rHas b.r.castling cc s = true) :
    touches mv cc s = dropS b mv piece cc s := by
  obtain ⟨_, hsrc, _, _⟩ := semilegal_base b mv H.sl
  obtain ⟨hkh, hrh⟩ := H.shape.rights cc s hr
  have hkh' : b.get (kingHomeSq cc) = Cell.mk cc .king := hkh
  have hrh' : b.get (rookHomeSq cc s) = Cell.mk cc .rook := hrh
  rw [hcell] at hsrc
  unfold touches dropS
  have nk := H.noKingCapture cc
  by_cases h1 : mv.src = kingHomeSq cc
  · -- the king moves
    have : Cell.mk b.r.side piece = Cell.mk cc .king := by rw [← hsrc, h1, hkh']
    obtain ⟨hc, hp⟩ := mk_inj this
    simp [h1, hc, hp]
  · by_cases h2 : mv.src = rookHomeSq cc s
    · have : Cell.mk b.r.side piece = Cell.mk cc .rook := by rw [← hsrc, h2, hrh']
      obtain ⟨hc, hp⟩ := mk_inj this
      simp [h2, hc, hp]
    · have h3 : ¬ mv.dst = kingHomeSq cc := by intro e; apply nk; rw [e]; exact hkh'
      by_cases h4 : mv.dst = rookHomeSq cc s
      · simp [h4, hrh']
      · -- nothing is touched: the mover is neither that king nor that rook from home
        have hnk : ¬ (b.r.side = cc ∧ piece = .king) := by
          intro ⟨hc, hp⟩
          subst hc; subst hp
          exact h1 (H.oneKing _ _ _ hsrc hkh')
        simp only [h1, h2, h3, h4, decide_false, Bool.or_false, Bool.false_and, Bool.and_false]
        by_cases hc : b.r.side = cc <;> by_cases hp : piece = .king <;> simp_all

theorem home_ranks (c : Color) (s : Side) :
    ((kingHomeSq c).rank.val = 0 ∨ (kingHomeSq c).rank.val = 7) ∧ ((rookHomeSq c s).rank.val = 0 ∨ (rookHomeSq c s).rank.val = 7) := by
  cases c <;> cases s <;> decide

theorem geom_ranks (c : Color) :
    (doubleSrcRank c).val ≠ 0 ∧ (doubleSrcRank c).val ≠ 7 ∧ (doubleDstRank c).val ≠ 0 ∧ (doubleDstRank c).val ≠ 7
    ∧ (epSrcRank c).val ≠ 0 ∧ (epSrcRank c).val ≠ 7 ∧ (epDstRank c).val ≠ 0 ∧ (epDstRank c).val ≠ 7
    ∧ (promoteSrcRank c).val ≠ 0 ∧ (promoteSrcRank c).val ≠ 7 := by
  cases c <;> decide

/-- pawn moves other than promotions stay off the first and last rank -/
theorem wf_pawn_ranks (mv : Move) (c : Color) (hwf : mv.isWellFormed = true) (hcell : mv.cell = Cell.mk c .pawn)
    (hk : mv.kind = .simple ∨ mv.kind = .double ∨ mv.kind = .ep) :
    mv.src.rank.val ≠ 0 ∧ mv.src.rank.val ≠ 7 ∧ mv.dst.rank.val ≠ 0 ∧ mv.dst.rank.val ≠ 7 := by
  unfold Move.isWellFormed at hwf
  have hnn : mv.kind ≠ .null := by rcases hk with h | h | h <;> simp [h]
  have hce : ¬ (mv.cell = Cell.empty) := by rw [hcell]; exact mk_ne_zero _ _
  have hcol : mv.cell.color = some c := by rw [hcell]; exact color_mk _ _
  have hpc : mv.cell.piece = some .pawn := by rw [hcell]; cases c <;> rfl
  obtain ⟨g1, g2, g3, g4, g5, g6, g7, g8, _, _⟩ := geom_ranks c
  rcases hk with h | h | h
  · simp only [h, hcol, hpc] at hwf
    simp only [reduceCtorEq, if_false] at hwf
    split at hwf
    · simp at hwf
    · simp only [Kind.matchesPiece, Bool.not_true, Bool.false_eq_true, if_false] at hwf
      split at hwf
      · simp at hwf
      · rename_i hc2
        simp only [Bool.or_eq_true, decide_eq_true_eq, not_or] at hc2
        omega
  · simp only [h, hcol, hpc] at hwf
    simp only [reduceCtorEq, if_false] at hwf
    split at hwf
    · simp at hwf
    · simp only [Kind.matchesPiece, beq_self_eq_true, Bool.not_true, Bool.false_eq_true, if_false, Bool.and_eq_true,
        decide_eq_true_eq] at hwf
      obtain ⟨⟨_, h1⟩, h2⟩ := hwf
      rw [h1, h2]; exact ⟨g1, g2, g3, g4⟩
  · simp only [h, hcol, hpc] at hwf
    simp only [reduceCtorEq, if_false] at hwf
    split at hwf
    · simp at hwf
    · simp only [Kind.matchesPiece, beq_self_eq_true, Bool.not_true, Bool.false_eq_true, if_false, Bool.and_eq_true,
        decide_eq_true_eq] at hwf
      obtain ⟨⟨h1, h2⟩, _⟩ := hwf
      rw [h1, h2]; exact ⟨g5, g6, g7, g8⟩

theorem no_touch_of_ranks (mv : Move) (h : mv.src.rank.val ≠ 0 ∧ mv.src.rank.val ≠ 7 ∧ mv.dst.rank.val ≠ 0 ∧ mv.dst.rank.val ≠ 7)
    (c : Color) (s : Side) : touches mv c s = false := by
  obtain ⟨hk, hr⟩ := home_ranks c s
  unfold touches
  simp only [Bool.or_eq_false_iff, decide_eq_false_iff_not]
  refine ⟨⟨⟨?_, ?_⟩, ?_⟩, ?_⟩ <;> intro e <;> rw [e] at h <;> omega

theorem make_castling (b : Board) (mv : Move) :
    (makeMove b mv).1.r.castling = (makeBody b.r.side b.clearEp mv (b.get mv.dst)).r.castling := by
  unfold makeMove; simp

theorem apply_rights (b : Board) (mv : Move) (H : ApplyHyp b mv) (piece : Piece)
    (hcell : mv.cell = Cell.mk b.r.side piece) (hmatch : mv.kind.matchesPiece piece = true) (hk : mv.kind ≠ .null) :
    (abs (makeMove b mv).1.r).rights = (Spec.apply (abs b.r) ⟨mv.kind, ⟨b.r.side, piece⟩, mv.src, mv.dst⟩).rights := by
  apply rightsSet_ext
  intro cc s
  rw [keeps_eq, abs_rights, abs_rights_has, make_castling, makeBody_castling, clearEp_castling]
  have ok := makeOk_of_semilegal b mv H.shape H.wf H.sl
  cases hr : rHas b.r.castling cc s
  · -- a right that is absent stays absent
    cases hkk : mv.kind <;> simp only [hkk] <;> (try split) <;>
      simp [hr, rHas_castlingAfter, rHas_withoutColor]
  · have ht := touch_iff b mv H piece hcell cc s hr
    cases hkk : mv.kind <;> simp only [hkk]
    · exact absurd hkk hk
    · -- simple
      by_cases hp : mv.cell = Cell.mk b.r.side .pawn
      · have hpp : piece = .pawn := (mk_inj (hcell ▸ hp)).2
        have hnt := no_touch_of_ranks mv (wf_pawn_ranks mv b.r.side H.wf hp (Or.inl hkk)) cc s
        rw [← ht, hnt]; simp [hp, hr]
      · by_cases he : ((BB.single mv.src ||| BB.single mv.dst) &&& castlingAllSrcs).isEmpty = true
        · have := change_all_isEmpty mv he cc s
          rw [← ht, this]; simp [hp, he, hr]
        · simp [hp, he, rHas_castlingAfter, hr, ht]
    · -- castleK
      have hp := matches_king hmatch (Or.inl hkk); subst hp
      rw [rHas_withoutColor, hr]
      unfold MakeOk at ok; simp only [hkk] at ok
      obtain ⟨_, color, pc, hc', _, _, hK, _, _⟩ := wf_facts mv H.wf hk
      have hcolor : color = b.r.side := by rw [hcell, color_mk] at hc'; exact (Option.some.inj hc').symm
      subst hcolor
      have hd : b.get mv.dst = Cell.empty := by rw [(hK hkk).2]; exact ok.2.2.1
      unfold dropS
      by_cases hc : b.r.side = cc
      · simp [hc]
      · have : ¬ Cell.empty = Cell.mk cc .rook := fun e => mk_ne_zero _ _ e.symm
        simp [hc, hd, this]
    · -- castleQ
      have hp := matches_king hmatch (Or.inr hkk); subst hp
      rw [rHas_withoutColor, hr]
      unfold MakeOk at ok; simp only [hkk] at ok
      obtain ⟨_, color, pc, hc', _, _, _, hQ, _⟩ := wf_facts mv H.wf hk
      have hcolor : color = b.r.side := by rw [hcell, color_mk] at hc'; exact (Option.some.inj hc').symm
      subst hcolor
      have hd : b.get mv.dst = Cell.empty := by rw [(hQ hkk).2]; exact ok.2.1
      unfold dropS
      by_cases hc : b.r.side = cc
      · simp [hc]
      · have : ¬ Cell.empty = Cell.mk cc .rook := fun e => mk_ne_zero _ _ e.symm
        simp [hc, hd, this]
    · -- double
      have hp := matches_pawn hmatch (Or.inl hkk); subst hp
      have hnt := no_touch_of_ranks mv (wf_pawn_ranks mv b.r.side H.wf hcell (Or.inr (Or.inl hkk))) cc s
      rw [← ht, hnt]; simp [hr]
    · -- ep
      have hp := matches_pawn hmatch (Or.inr (Or.inl hkk)); subst hp
      have hnt := no_touch_of_ranks mv (wf_pawn_ranks mv b.r.side H.wf hcell (Or.inr (Or.inr hkk))) cc s
      rw [← ht, hnt]; simp [hr]
    all_goals
      by_cases he : ((BB.single mv.src ||| BB.single mv.dst) &&& castlingAllSrcs).isEmpty = true
      · have := change_all_isEmpty mv he cc s
        rw [← ht, this]; simp [he, hr]
      · simp [he, rHas_castlingAfter, hr, ht]

theorem make_cells (b : Board) (mv : Move) :
    (makeMove b mv).1.r.cells = (makeBody b.r.side b.clearEp mv (b.get mv.dst)).r.cells := by
  unfold makeMove; simp

theorem castle_squares (c : Color) :
    Spec.sqOf 7 (Spec.homeRank c) = Sq.mk fileH (castlingRank c) ∧ Spec.sqOf 5 (Spec.homeRank c) = Sq.mk fileF (castlingRank c)
    ∧ Spec.sqOf 0 (Spec.homeRank c) = Sq.mk fileA (castlingRank c) ∧ Spec.sqOf 3 (Spec.homeRank c) = Sq.mk fileD (castlingRank c) := by
  cases c <;> decide

theorem ep_taken (b : Board) (mv : Move) (H : ApplyHyp b mv) (hk : mv.kind = .ep) :
    b.r.ep = some (addU mv.dst (-(forwardDelta b.r.side))) := by
  obtain ⟨hknull, hsrc, hcol, hdst⟩ := semilegal_base b mv H.sl
  obtain ⟨hne, color, piece, hcol', hpiece, hmatch, _⟩ := wf_facts mv H.wf hknull
  have hsl := H.sl
  unfold isSemilegal at hsl
  simp only at hsl
  have hcond : ¬ ((mv.kind = Kind.null || b.get mv.src ≠ mv.cell || mv.cell.color ≠ some b.r.side
      || (b.get mv.dst).color = some b.r.side) = true) := by
    simp [hknull, hsrc, hcol, hdst]
  rw [if_neg hcond, hpiece] at hsl
  have hp := matches_pawn hmatch (Or.inr (Or.inl hk)); subst hp
  simp only [hk] at hsl
  cases hep : b.r.ep with
  | none => simp [hep] at hsl
  | some p =>
    simp only [hep, Bool.and_eq_true, Bool.or_eq_true, decide_eq_true_eq] at hsl
    obtain ⟨_, hdstp⟩ := hsl
    obtain ⟨hrank, _, _⟩ := H.shape.ep p hep
    obtain ⟨har, _⟩ := ep_arith p b.r.side hrank
    rw [hdstp, har]

theorem absCell_empty : absCell Cell.empty = none := by decide

theorem apply_board (b : Board) (mv : Move) (H : ApplyHyp b mv) (piece : Piece)
    (hcell : mv.cell = Cell.mk b.r.side piece) (hmatch : mv.kind.matchesPiece piece = true) (hk : mv.kind ≠ .null) :
    (abs (makeMove b mv).1.r).board = (Spec.apply (abs b.r) ⟨mv.kind, ⟨b.r.side, piece⟩, mv.src, mv.dst⟩).board := by
  rw [abs_board, make_cells, makeBody_cells, clearEp_cells]
  show _ = Tab.ofFn _
  apply Tab.ext
  intro s
  rw [Tab.get_ofFn, Tab.get_ofFn]
  have ok := makeOk_of_semilegal b mv H.shape H.wf H.sl
  obtain ⟨hne, color, pc, hc', _, _, hK, hQ, _⟩ := wf_facts mv H.wf hk
  have hcolor : color = b.r.side := by rw [hcell, color_mk] at hc'; exact (Option.some.inj hc').symm
  subst hcolor
  obtain ⟨sH, sF, sA, sD⟩ := castle_squares b.r.side
  have hget : ∀ t, (abs b.r).get t = absCell (b.r.cells.get t) := fun t => get_abs b.r t
  unfold Spec.capturedSq
  unfold MakeOk at ok
  cases hkk : mv.kind <;> simp only [hkk] at ok hmatch ⊢
  · exact absurd hkk hk
  · -- simple
    simp only [Tab.get_put, Kind.promote, hget, reduceCtorEq, false_and, if_false]
    by_cases h1 : mv.dst = s
    · subst h1; simp [hcell, absCell_mk]
    · have h1' : ¬ s = mv.dst := fun e => h1 e.symm
      by_cases h2 : mv.src = s
      · subst h2; simp [h1, h1', absCell_empty]
      · have h2' : ¬ s = mv.src := fun e => h2 e.symm
        simp only [h1, h1', h2, h2', if_false]
        split <;> simp [h1']
  · -- castleK
    have hp := matches_king hmatch (Or.inl rfl); subst hp
    obtain ⟨hsrcE, hdstG⟩ := hK hkk
    obtain ⟨nEF, nEG, nEH, nFG, nFH, nGH, -⟩ := castle_sq_ne b.r.side
    have nFE := Ne.symm nEF; have nGE := Ne.symm nEG; have nHE := Ne.symm nEH
    have nGF := Ne.symm nFG; have nHF := Ne.symm nFH; have nHG := Ne.symm nGH
    simp only [Tab.get_put, Kind.promote, hget, sH, sF, hsrcE, hdstG, true_and, reduceCtorEq, false_and, if_false]
    by_cases h4 : Sq.mk fileH (castlingRank b.r.side) = s
    · subst h4; simp_all [absCell_mk, absCell_empty]
    · by_cases h3 : Sq.mk fileG (castlingRank b.r.side) = s
      · subst h3; simp_all [absCell_mk, absCell_empty]
      · by_cases h2 : Sq.mk fileF (castlingRank b.r.side) = s
        · subst h2; simp_all [absCell_mk, absCell_empty]
        · by_cases h1 : Sq.mk fileE (castlingRank b.r.side) = s
          · subst h1; simp_all [absCell_mk, absCell_empty]
          · have e1 : ¬ s = Sq.mk fileE (castlingRank b.r.side) := fun e => h1 e.symm
            have e2 : ¬ s = Sq.mk fileF (castlingRank b.r.side) := fun e => h2 e.symm
            have e3 : ¬ s = Sq.mk fileG (castlingRank b.r.side) := fun e => h3 e.symm
            have e4 : ¬ s = Sq.mk fileH (castlingRank b.r.side) := fun e => h4 e.symm
            simp [h1, h2, h3, h4, e1, e2, e3, e4]
  · -- castleQ
    have hp := matches_king hmatch (Or.inr rfl); subst hp
    obtain ⟨hsrcE, hdstC⟩ := hQ hkk
    obtain ⟨-, -, -, -, -, -, nAC, nAD, nAE, nCD, nCE, nDE⟩ := castle_sq_ne b.r.side
    have nCA := Ne.symm nAC; have nDA := Ne.symm nAD; have nEA := Ne.symm nAE
    have nDC := Ne.symm nCD; have nEC := Ne.symm nCE; have nED := Ne.symm nDE
    simp only [Tab.get_put, Kind.promote, hget, sA, sD, hsrcE, hdstC, true_and, reduceCtorEq, false_and, if_false]
    by_cases h4 : Sq.mk fileE (castlingRank b.r.side) = s
    · subst h4; simp_all [absCell_mk, absCell_empty]
    · by_cases h3 : Sq.mk fileD (castlingRank b.r.side) = s
      · subst h3; simp_all [absCell_mk, absCell_empty]
      · by_cases h2 : Sq.mk fileC (castlingRank b.r.side) = s
        · subst h2; simp_all [absCell_mk, absCell_empty]
        · by_cases h1 : Sq.mk fileA (castlingRank b.r.side) = s
          · subst h1; simp_all [absCell_mk, absCell_empty]
          · have e1 : ¬ s = Sq.mk fileA (castlingRank b.r.side) := fun e => h1 e.symm
            have e2 : ¬ s = Sq.mk fileC (castlingRank b.r.side) := fun e => h2 e.symm
            have e3 : ¬ s = Sq.mk fileD (castlingRank b.r.side) := fun e => h3 e.symm
            have e4 : ¬ s = Sq.mk fileE (castlingRank b.r.side) := fun e => h4 e.symm
            simp [h1, h2, h3, h4, e1, e2, e3, e4]
  · -- double
    have hp := matches_pawn hmatch (Or.inl rfl); subst hp
    simp only [Tab.get_put, Kind.promote, hget, reduceCtorEq, false_and, if_false]
    by_cases h1 : mv.dst = s
    · subst h1; simp [absCell_mk]
    · have h1' : ¬ s = mv.dst := fun e => h1 e.symm
      by_cases h2 : mv.src = s
      · subst h2; simp [h1, h1', absCell_empty]
      · have h2' : ¬ s = mv.src := fun e => h2 e.symm
        simp only [h1, h1', h2, h2', if_false]
        split <;> simp [h1']
  · -- ep
    have hp := matches_pawn hmatch (Or.inr (Or.inl rfl)); subst hp
    have hep := ep_taken b mv H hkk
    obtain ⟨_, _, _, _, hts, htd⟩ := ok
    rw [abs_ep, hep]
    generalize addU mv.dst (-(forwardDelta b.r.side)) = tk at *
    simp only [Tab.get_put, Kind.promote, hget, reduceCtorEq, false_and, if_false]
    by_cases h3 : tk = s
    · subst h3
      simp [absCell_empty, htd, hts]
    · have h3' : ¬ s = tk := fun e => h3 e.symm
      by_cases h1 : mv.dst = s
      · subst h1; simp [absCell_mk, h3]
      · have h1' : ¬ s = mv.dst := fun e => h1 e.symm
        by_cases h2 : mv.src = s
        · subst h2; simp [h1, h1', h3, absCell_empty]
        · have h2' : ¬ s = mv.src := fun e => h2 e.symm
          simp [h1, h1', h2, h2', h3, h3']
  all_goals
    have hp := matches_pawn hmatch (by simp); subst hp
    simp only [Tab.get_put, Kind.promote, hget, reduceCtorEq, false_and, if_false, Option.getD_some]
    by_cases h1 : mv.dst = s
    · subst h1; simp [absCell_mk]
    · have h1' : ¬ s = mv.dst := fun e => h1 e.symm
      by_cases h2 : mv.src = s
      · subst h2; simp [h1, h1', absCell_empty]
      · have h2' : ¬ s = mv.src := fun e => h2 e.symm
        simp only [h1, h1', h2, h2', if_false]
        split <;> simp [h1']

/-- C03 backbone: the raw position after `make_move_unchecked` is the position the rules prescribe -/
theorem make_refines_apply (b : Board) (mv : Move) (H : ApplyHyp b mv) :
    ∃ sm, absMove mv = some sm ∧ abs (makeMove b mv).1.r = Spec.apply (abs b.r) sm := by
  obtain ⟨piece, hcell, habs, hmatch, hk⟩ := apply_man b mv H
  refine ⟨_, habs, ?_⟩
  obtain ⟨hs, hf, he⟩ := apply_side_full b mv piece
  exact pos_ext (apply_board b mv H piece hcell hmatch hk) hs (apply_rights b mv H piece hcell hmatch hk) he
    (apply_half b mv H piece hcell hmatch hk) hf

end Owl.Lemmas
