/-
C11 lemmas: the validation gate against the specification (`Spec.ValidRaw`, `Spec.normalise`, `Spec.Holds`).
-/
import OwlModel.Lemmas.Attacks

namespace Owl.Lemmas
open Owl Owl.Impl

theorem rHas_normaliseCastlingColor (raw : RawBoard) (color : Color) (c : Color) (s : Side) :
    rHas (normaliseCastlingColor raw color).castling c s =
      (rHas raw.castling c s && (decide (c ≠ color) ||
        (decide (raw.get (kingHomeSq color) = Cell.mk color .king) && decide (raw.get (rookHomeSq color s) = Cell.mk color .rook)))) := by
  unfold normaliseCastlingColor kingHomeSq rookHomeSq
  simp only
  by_cases h1 : raw.get (Sq.mk fileE (castlingRank color)) = Cell.mk color Piece.king <;>
  by_cases h2 : raw.get (Sq.mk fileA (castlingRank color)) = Cell.mk color Piece.rook <;>
  by_cases h3 : raw.get (Sq.mk fileH (castlingRank color)) = Cell.mk color Piece.rook <;>
  simp only [h1, h2, h3, ne_eq, not_true_eq_false, not_false_eq_true, if_true, if_false, rHas_without] <;>
  cases c <;> cases color <;> cases s <;> simp_all

theorem rHas_normaliseCastling (raw : RawBoard) (c : Color) (s : Side) :
    rHas (normaliseCastling raw).castling c s =
      (rHas raw.castling c s && decide (raw.get (kingHomeSq c) = Cell.mk c .king)
        && decide (raw.get (rookHomeSq c s) = Cell.mk c .rook)) := by
  unfold normaliseCastling
  rw [rHas_normaliseCastlingColor, rHas_normaliseCastlingColor]
  have hget : ∀ t, (normaliseCastlingColor raw .white).get t = raw.get t := by
    intro t; simp [RawBoard.get, normaliseCastlingColor]
  simp only [hget]
  cases c <;> simp [Bool.and_assoc]

theorem home_squares (c : Color) :
    Spec.kingHome c = kingHomeSq c ∧ Spec.rookHome c .king = rookHomeSq c .king
      ∧ Spec.rookHome c .queen = rookHomeSq c .queen := by cases c <;> decide

theorem get_abs_beq (r : RawBoard) (x : Sq) (c : Color) (p : Piece) :
    ((abs r).get x == some (⟨c, p⟩ : Spec.Man)) = decide (r.get x = Cell.mk c p) := by
  rw [get_abs]
  cases h : decide (r.get x = Cell.mk c p)
  · have : ¬ r.get x = Cell.mk c p := by simpa using h
    have h2 : ¬ absCell (r.get x) = some ⟨c, p⟩ := fun e => this ((absCell_eq_some _ c p).mp e)
    simpa using h2
  · have : r.get x = Cell.mk c p := by simpa using h
    simp [this, absCell_mk]

theorem abs_rights_has (r : Rights) (c : Color) (s : Side) : (absRights r).has c s = rHas r c s := by
  cases c <;> cases s <;> rfl

theorem rightsSet_ext (a b : Spec.RightsSet) (h : ∀ c s, a.has c s = b.has c s) : a = b := by
  cases a; cases b
  have h1 := h .white .king; have h2 := h .white .queen; have h3 := h .black .king; have h4 := h .black .queen
  simp only [Spec.RightsSet.has] at h1 h2 h3 h4
  simp [h1, h2, h3, h4]

theorem add_forward_eq_step (p : Sq) (c : Color) :
    p.add? (forwardDelta c) = Spec.step p (0, Spec.forward c) := by
  cases c <;> revert p <;> decide

theorem epSrcRank_eq (p : Sq) (c : Color) : (p.rank = epSrcRank c) ↔ (Spec.rank p = Spec.epRank c) := by
  cases c <;> revert p <;> decide

@[simp] theorem abs_ep (r : RawBoard) : (abs r).ep = r.ep := rfl
@[simp] theorem abs_side (r : RawBoard) : (abs r).side = r.side := rfl
@[simp] theorem abs_half (r : RawBoard) : (abs r).half = r.mc := rfl
@[simp] theorem abs_full (r : RawBoard) : (abs r).full = r.mn := rfl
theorem abs_rights (r : RawBoard) : (abs r).rights = absRights r.castling := rfl
theorem abs_board (r : RawBoard) : (abs r).board = Tab.ofFn fun s => absCell (r.cells.get s) := rfl

theorem normaliseEp_ep (raw raw1 : RawBoard) (h : normaliseEp raw = .ok raw1) :
    raw1.ep = Spec.epKept (abs raw) := by
  unfold normaliseEp at h
  unfold Spec.epKept
  cases hre : raw.ep with
  | none =>
    simp only [hre] at h
    have e := congrArg RawBoard.ep (Res.ok.inj h)
    rw [← e, abs_ep, hre]
  | some p =>
    simp only [hre] at h
    rw [abs_ep, hre]
    simp only
    split at h
    · exact absurd h (by simp)
    · rw [add_forward_eq_step] at h
      rw [abs_side]
      cases hst : Spec.step p (0, Spec.forward raw.side) with
      | none => rw [hst] at h; exact absurd h (by simp)
      | some pp =>
        rw [hst] at h
        simp only at h
        have e1 : ((abs raw).get p = some (⟨raw.side.inv, .pawn⟩ : Spec.Man)) ↔ raw.get p = Cell.mk raw.side.inv .pawn := by
          rw [get_abs]; exact absCell_eq_some _ _ _
        have e2 : ((abs raw).get pp).isNone = decide (raw.get pp = Cell.empty) := by
          rw [get_abs]; generalize raw.get pp = x; revert x; decide
        split at h
        · rename_i hcond
          have e := congrArg RawBoard.ep (Res.ok.inj h)
          simp only at e
          rw [← e]
          simp only [Bool.or_eq_true, bne_iff_ne, ne_eq, decide_eq_true_eq] at hcond
          simp only [Option.any_some, e2, e1]
          rcases hcond with hcnd | hcnd
          · simp [hcnd]
          · simp [hcnd]
        · rename_i hcond
          have e := congrArg RawBoard.ep (Res.ok.inj h)
          rw [← e, hre]
          simp only [Bool.or_eq_true, bne_iff_ne, ne_eq, decide_eq_true_eq, not_or, Decidable.not_not] at hcond
          simp [e2, e1, hcond.1, hcond.2]

/-- the two normalisation steps of the gate, when the en-passant rank test passes -/
theorem abs_normalise (raw raw1 : RawBoard) (h : normaliseEp raw = .ok raw1) :
    abs (normaliseCastling raw1) = Spec.normalise (abs raw) := by
  obtain ⟨hc, hsd, hcs, hmc, hmn, _⟩ := normaliseEp_spec raw raw1 h
  obtain ⟨hc2, hs2, he2, _⟩ := normaliseCastling_spec raw1
  have hget1 : ∀ t, raw1.get t = raw.get t := by intro t; simp [RawBoard.get, hc]
  have hep := normaliseEp_ep raw raw1 h
  -- assemble
  unfold Spec.normalise
  have hb : (abs (normaliseCastling raw1)).board = (abs raw).board := by
    rw [abs_board, abs_board, hc2, hc]
  have hr : (abs (normaliseCastling raw1)).rights = Spec.RightsSet.ofFn (Spec.rightKept (abs raw)) := by
    apply rightsSet_ext
    intro c s
    rw [Spec.RightsSet.has_ofFn]
    show (absRights (normaliseCastling raw1).castling).has c s = _
    rw [abs_rights_has, rHas_normaliseCastling, hcs]
    unfold Spec.rightKept
    obtain ⟨hk, hrk, hrq⟩ := home_squares c
    have hrs : Spec.rookHome c s = rookHomeSq c s := by cases s <;> assumption
    rw [hk, hrs, get_abs_beq, get_abs_beq, hget1, hget1]
    show _ = ((absRights raw.castling).has c s && _ && _)
    rw [abs_rights_has]
  cases hn : abs (normaliseCastling raw1) with
  | mk board side rights ep half full =>
    have hb' : board = (abs raw).board := by rw [← hb, hn]
    have hr' : rights = Spec.RightsSet.ofFn (Spec.rightKept (abs raw)) := by rw [← hr, hn]
    have hs' : side = (abs raw).side := by
      have : (abs (normaliseCastling raw1)).side = (abs raw).side := by rw [abs_side, abs_side, hs2, hsd]
      rw [hn] at this; exact this
    have he' : ep = Spec.epKept (abs raw) := by
      have : (abs (normaliseCastling raw1)).ep = raw1.ep := by rw [abs_ep, he2]
      rw [hn] at this; rw [← hep]; exact this
    have hh' : half = (abs raw).half := by
      have : (abs (normaliseCastling raw1)).half = (abs raw).half := by
        rw [abs_half, abs_half, ← hmc]; rfl
      rw [hn] at this; exact this
    have hf' : full = (abs raw).full := by
      have : (abs (normaliseCastling raw1)).full = (abs raw).full := by
        rw [abs_full, abs_full, ← hmn]; rfl
      rw [hn] at this; exact this
    subst hb' hr' hs' he' hh' hf'
    rfl

theorem any_color (x : Cell) (c : Color) : (absCell x).any (fun m => m.color == c) = decide (x.color = some c) := by
  revert x; cases c <;> decide
theorem any_pawn (x : Cell) : (absCell x).any (fun m => m.piece == .pawn)
    = (decide (x = Cell.mk .white .pawn) || decide (x = Cell.mk .black .pawn)) := by
  revert x; decide

theorem len_colorSet (r : RawBoard) (c : Color) : (colorSet r.cells c).len = (Spec.menOf (abs r) c).length := by
  unfold BB.len BB.toList Spec.menOf Spec.allSq Sq.all
  rw [List.filter_congr (fun s _ => by rw [has_colorSet, get_abs, any_color]; rfl :
    ∀ s ∈ List.finRange 64, (colorSet r.cells c).has s = ((abs r).get s).any (fun m => m.color == c))]

theorem king_set_has (r : RawBoard) (c : Color) (s : Sq) :
    ((buildBoard r).piece2 c .king).has s = ((abs r).get s == some (⟨c, .king⟩ : Spec.Man)) := by
  rw [get_abs_beq]
  unfold Board.piece2 buildBoard
  simp only [Tab.get_ofFn]
  rw [has_pieceSet]
  have : (Cell.mk c .king).val ≠ 0 := by cases c <;> decide
  simp [this, RawBoard.get]
  rfl

theorem len_kings (r : RawBoard) (c : Color) :
    ((buildBoard r).piece2 c .king).len = (Spec.kingSqs (abs r) c).length := by
  unfold BB.len BB.toList Spec.kingSqs Spec.allSq Sq.all
  rw [List.filter_congr (fun s _ => king_set_has r c s)]

theorem isEmpty_iff_len (a : BB) : a.isEmpty = true ↔ a.len = 0 := by
  rw [BB.isEmpty_iff]
  unfold BB.len BB.toList
  rw [List.length_eq_zero_iff, List.filter_eq_nil_iff]
  constructor
  · intro h s _; simp [h s]
  · intro h s; have := h s (List.mem_finRange _); simpa using this

theorem bad_mask (s : Sq) : (BB.ofNat Gen.badPawnPoses).has s = (decide (Spec.rank s = 0) || decide (Spec.rank s = 7)) := by
  revert s; decide +kernel

theorem pawn_sets_has (r : RawBoard) (s : Sq) :
    (((buildBoard r).piece2 .white .pawn ||| (buildBoard r).piece2 .black .pawn) &&& BB.ofNat Gen.badPawnPoses).has s
      = (((abs r).get s).any (fun m => m.piece == .pawn) && (decide (Spec.rank s = 0) || decide (Spec.rank s = 7))) := by
  rw [BB.has_and, BB.has_or, bad_mask, get_abs, any_pawn]
  unfold Board.piece2 buildBoard
  simp only [Tab.get_ofFn]
  rw [has_pieceSet, has_pieceSet]
  have h1 : (Cell.mk .white .pawn).val ≠ 0 := by decide
  have h2 : (Cell.mk .black .pawn).val ≠ 0 := by decide
  simp [h1, h2, RawBoard.get]
  rfl

def absErr : ValidateError → Spec.Reject
  | .invalidEnpassant s => .invalidEnpassant s
  | .tooManyPieces c => .tooManyPieces c
  | .noKing c => .noKing c
  | .tooManyKings c => .tooManyKings c
  | .invalidPawn s => .invalidPawn s
  | .opponentKingAttacked => .opponentKingAttacked

theorem first?_none (a : BB) : a.first? = none ↔ ∀ s : Sq, a.has s = false := by
  unfold BB.first?
  rw [List.find?_eq_none]
  constructor
  · intro h s; have := h s (List.mem_finRange _); simpa using this
  · intro h s _; simp [h s]

theorem first?_some (a : BB) (p : Sq) (h : a.first? = some p) : a.has p = true := by
  unfold BB.first? at h
  exact List.find?_some h

/-- abstract form of the gate's checks, over the numbers they read -/
structure Facts (B : Board) (r : RawBoard) : Prop where
  hw : B.white.len = (Spec.menOf (abs r) .white).length
  hb : B.black.len = (Spec.menOf (abs r) .black).length
  hkw : (B.piece2 .white .king).len = (Spec.kingSqs (abs r) .white).length
  hkb : (B.piece2 .black .king).len = (Spec.kingSqs (abs r) .black).length
  hp : ∀ s, ((B.piece2 .white .pawn ||| B.piece2 .black .pawn) &&& BB.ofNat Gen.badPawnPoses).has s
      = (((abs r).get s).any (fun m => m.piece == .pawn) && (decide (Spec.rank s = 0) || decide (Spec.rank s = 7)))
  hopp : isOpponentKingAttacked? B = (Spec.kingSq (abs r) r.side.inv).map fun k => Spec.attackedBy (abs r) k r.side

theorem facts_build (r : RawBoard) : Facts (buildBoard r) r := by
  constructor
  · exact len_colorSet r .white
  · exact len_colorSet r .black
  · exact len_kings r .white
  · exact len_kings r .black
  · exact pawn_sets_has r
  · have hc : Consistent (buildBoard r) := rfl
    have hr : (buildBoard r).r = r := rfl
    have hk := kingPos_eq (buildBoard r) hc r.side.inv
    rw [hr] at hk
    have hat : ∀ k, isCellAttacked (buildBoard r) k r.side = Spec.attackedBy (abs r) k r.side := by
      intro k
      have := isCellAttacked_iff (buildBoard r) hc k r.side
      rw [hr] at this
      exact this
    unfold isOpponentKingAttacked?
    simp only [hr, hk]
    cases Spec.kingSq (abs r) r.side.inv with
    | none => rfl
    | some k => simp only [Option.map_some, hat]

theorem kingSq_of_len (p : Spec.Pos) (c : Color) (h : (Spec.kingSqs p c).length ≠ 0) : ∃ k, Spec.kingSq p c = some k := by
  unfold Spec.kingSq
  cases hk : Spec.kingSqs p c with
  | nil => simp [hk] at h
  | cons k _ => exact ⟨k, rfl⟩

theorem pawn_all_ok (r : RawBoard) (h : ∀ s : Sq, (((abs r).get s).any (fun m => m.piece == .pawn)
      && (decide (Spec.rank s = 0) || decide (Spec.rank s = 7))) = false) :
    (Spec.pawnSqs (abs r)).all (fun s => decide (Spec.rank s ≠ 0 ∧ Spec.rank s ≠ 7)) = true := by
  rw [List.all_eq_true]
  intro s hs
  unfold Spec.pawnSqs at hs
  have hm := (List.mem_filter.mp hs).2
  have := h s
  rw [hm] at this
  simp only [Bool.true_and, Bool.or_eq_false_iff, decide_eq_false_iff_not] at this
  simpa using this

theorem checkBoard_ok (B b : Board) (r : RawBoard) (F : Facts B r) (h : checkBoard B = .ok b) :
    b = B ∧ (Spec.menOf (abs r) .white).length ≤ 16 ∧ (Spec.menOf (abs r) .black).length ≤ 16
      ∧ (Spec.kingSqs (abs r) .white).length = 1 ∧ (Spec.kingSqs (abs r) .black).length = 1
      ∧ (Spec.pawnSqs (abs r)).all (fun s => decide (Spec.rank s ≠ 0 ∧ Spec.rank s ≠ 7)) = true
      ∧ Spec.inCheck (abs r) r.side.inv = false := by
  obtain ⟨hw, hb, hkw, hkb, hp, hopp⟩ := F
  unfold checkBoard at h
  simp only [Gen.tooManyW, Gen.tooManyB, Gen.tooManyKingsW, Gen.tooManyKingsB, decide_eq_true_eq, isEmpty_iff_len,
    hw, hb, hkw, hkb] at h
  have hkq := kingSq_of_len (abs r) r.side.inv
  have hpa := pawn_all_ok r
  generalize hnw : (Spec.menOf (abs r) .white).length = nw at *
  generalize hnb : (Spec.menOf (abs r) .black).length = nb at *
  generalize hkwn : (Spec.kingSqs (abs r) .white).length = kw at *
  generalize hkbn : (Spec.kingSqs (abs r) .black).length = kb at *
  split at h
  · cases h
  split at h
  · cases h
  split at h
  · cases h
  split at h
  · cases h
  split at h
  · cases h
  split at h
  · cases h
  rename_i h1 h2 h3 h4 h5 h6
  split at h
  · cases h
  rename_i hfirst
  rw [first?_none] at hfirst
  rw [hopp] at h
  have hkb' : (Spec.kingSqs (abs r) r.side.inv).length ≠ 0 := by
    cases hs : r.side
    · simp only [Color.inv]; rw [hkbn]; exact h4
    · simp only [Color.inv]; rw [hkwn]; exact h3
  obtain ⟨k, hk⟩ := hkq hkb'
  rw [hk] at h
  simp only [Option.map_some] at h
  split at h
  · cases h
  · cases h
  · rename_i hatt
    injection h with h
    refine ⟨h.symm, by omega, by omega, by omega, by omega, ?_, ?_⟩
    · exact hpa (fun s => by rw [← hp]; exact hfirst s)
    · unfold Spec.inCheck
      rw [hk]
      simp only [Option.any_some, Color.inv_inv]
      injection hatt with hatt

theorem checkBoard_err (B : Board) (r : RawBoard) (F : Facts B r) (e : ValidateError) (h : checkBoard B = .err e) :
    match e with
    | .tooManyPieces c => (Spec.menOf (abs r) c).length > 16
    | .noKing c => Spec.kingSqs (abs r) c = []
    | .tooManyKings c => (Spec.kingSqs (abs r) c).length > 1
    | .invalidPawn s => s ∈ Spec.pawnSqs (abs r) ∧ (Spec.rank s = 0 ∨ Spec.rank s = 7)
    | .opponentKingAttacked => Spec.inCheck (abs r) r.side.inv = true
    | .invalidEnpassant _ => False := by
  obtain ⟨hw, hb, hkw, hkb, hp, hopp⟩ := F
  unfold checkBoard at h
  simp only [Gen.tooManyW, Gen.tooManyB, Gen.tooManyKingsW, Gen.tooManyKingsB, decide_eq_true_eq, isEmpty_iff_len,
    hw, hb, hkw, hkb] at h
  split at h
  · injection h with h; subst h; assumption
  split at h
  · injection h with h; subst h; assumption
  split at h
  · injection h with h; subst h; rename_i h3; exact List.length_eq_zero_iff.mp h3
  split at h
  · injection h with h; subst h; rename_i h4; exact List.length_eq_zero_iff.mp h4
  split at h
  · injection h with h; subst h; assumption
  split at h
  · injection h with h; subst h; assumption
  split at h
  · rename_i p hfirst
    injection h with h; subst h
    have := first?_some _ p hfirst
    rw [hp] at this
    simp only [Bool.and_eq_true, Bool.or_eq_true, decide_eq_true_eq] at this
    refine ⟨?_, this.2⟩
    unfold Spec.pawnSqs
    exact List.mem_filter.mpr ⟨List.mem_finRange _, this.1⟩
  · rw [hopp] at h
    cases hk : Spec.kingSq (abs r) r.side.inv with
    | none => rw [hk] at h; cases h
    | some k =>
      rw [hk] at h
      simp only [Option.map_some] at h
      split at h
      · cases h
      · rename_i hatt
        injection h with h; subst h
        unfold Spec.inCheck
        rw [hk]
        simp only [Option.any_some, Color.inv_inv]
        injection hatt with hatt
      · cases h

theorem checkBoard_notrap (B : Board) (r : RawBoard) (F : Facts B r) (w : String) : checkBoard B ≠ .trap w := by
  intro h
  obtain ⟨hw, hb, hkw, hkb, hp, hopp⟩ := F
  unfold checkBoard at h
  simp only [Gen.tooManyW, Gen.tooManyB, Gen.tooManyKingsW, Gen.tooManyKingsB, decide_eq_true_eq, isEmpty_iff_len,
    hw, hb, hkw, hkb] at h
  have hkq := kingSq_of_len (abs r) r.side.inv
  generalize hkwn : (Spec.kingSqs (abs r) .white).length = kw at *
  generalize hkbn : (Spec.kingSqs (abs r) .black).length = kb at *
  split at h
  · cases h
  split at h
  · cases h
  split at h
  · cases h
  split at h
  · cases h
  rename_i h1 h2 h3 h4
  split at h
  · cases h
  split at h
  · cases h
  split at h
  · cases h
  rw [hopp] at h
  have hkb' : (Spec.kingSqs (abs r) r.side.inv).length ≠ 0 := by
    cases hs : r.side
    · simp only [Color.inv]; rw [hkbn]; exact h4
    · simp only [Color.inv]; rw [hkwn]; exact h3
  obtain ⟨k, hk⟩ := hkq hkb'
  rw [hk] at h
  simp only [Option.map_some] at h
  split at h <;> cases h
  all_goals (rename_i hx; cases hx)

theorem rights_ext' (r r' : Rights) (h : ∀ c s, rHas r c s = rHas r' c s) : r = r' := by
  have h1 := h .white .king; have h2 := h .white .queen; have h3 := h .black .king; have h4 := h .black .queen
  revert h1 h2 h3 h4; clear h; revert r r'; decide

theorem normaliseCastling_fix (r : RawBoard) (h : RightsOk r) : normaliseCastling r = r := by
  obtain ⟨hc, hs, he, _⟩ := normaliseCastling_spec r
  have hcast : (normaliseCastling r).castling = r.castling := by
    apply rights_ext'
    intro c s
    rw [rHas_normaliseCastling]
    cases hr : rHas r.castling c s
    · simp
    · obtain ⟨h1, h2⟩ := h c s hr
      simp [h1, h2]
  have hmc : (normaliseCastling r).mc = r.mc := rfl
  have hmn : (normaliseCastling r).mn = r.mn := rfl
  exact raw_ext hc hs hcast he hmc hmn

theorem normaliseEp_fix (r : RawBoard) (h : EpOk r) : normaliseEp r = .ok r := by
  unfold normaliseEp
  cases hep : r.ep with
  | none => rfl
  | some p =>
    obtain ⟨hrank, hpawn, hbehind⟩ := h p hep
    simp only [hrank, ne_eq, not_true_eq_false, if_false]
    have hs := add_forward_eq_step p r.side
    cases hadd : p.add? (forwardDelta r.side) with
    | none =>
      exfalso
      have : ∀ (p : Sq) (c : Color), p.rank = epSrcRank c → (p.add? (forwardDelta c)).isSome = true := by
        intro p c; cases c <;> revert p <;> decide
      have := this p r.side hrank
      rw [hadd] at this; cases this
    | some pp =>
      have hpp : addU p (forwardDelta r.side) = pp := add?_eq_addU _ _ _ hadd
      rw [hpp] at hbehind
      simp [hpawn, hbehind]

end Owl.Lemmas
