/-
A semilegal move onto an occupied square is an attack of that square (used for C03: legal moves never
capture a king; and for C06/C01).
-/
import OwlModel.Lemmas.Apply

namespace Owl.Lemmas
open Owl Owl.Impl

/-- aligned squares with an empty strictly-between set see each other along the ray walk -/
theorem slide_of_between (dirs : List (Int × Int)) (occ : Sq → Bool) (a b : Sq) (l : List Sq)
    (hb : Spec.between dirs a b = some l) (hfree : ∀ x ∈ l, occ x = false) : b ∈ Spec.slide dirs occ a := by
  unfold Spec.between at hb
  obtain ⟨d, hd, hdd⟩ := List.exists_of_findSome?_eq_some hb
  simp only at hdd
  split at hdd
  · rename_i hc
    injection hdd with hdd
    rw [mem_slide_iff]
    refine ⟨d, hd, by simpa using hc, ?_⟩
    rw [hdd]; exact hfree
  · cases hdd

theorem bishop_sees (b : Board) (hb : Consistent b) (src dst : Sq) (hv : isBishopValid src dst = true)
    (he : (bishopStrict src dst &&& b.all).isEmpty = true) : (bishopAttack dst b.all).has src = true := by
  rw [bishop_has b hb]
  simp only [decide_eq_true_eq]
  have hc := between_check_pair src dst
  simp only [betweenCheckPair, Bool.and_eq_true, beq_iff_eq] at hc
  obtain ⟨⟨⟨_, hvb⟩, _⟩, hsb⟩ := hc
  rw [hv] at hvb
  cases hbt : Spec.between Spec.bishopDirs src dst with
  | none => rw [hbt] at hvb; cases hvb
  | some l =>
    rw [hbt] at hsb
    simp only [beq_iff_eq] at hsb
    apply slide_of_between _ _ _ _ l hbt
    intro x hx
    have := (BB.isEmpty_iff _).mp he x
    rw [BB.has_and, hsb, BB.has_ofList] at this
    simp only [hx, decide_true, Bool.true_and] at this
    rw [occ_abs b hb]; exact this

theorem rook_sees (b : Board) (hb : Consistent b) (src dst : Sq) (hv : isRookValid src dst = true)
    (he : (rookStrict src dst &&& b.all).isEmpty = true) : (rookAttack dst b.all).has src = true := by
  rw [rook_has b hb]
  simp only [decide_eq_true_eq]
  have hc := between_check_pair src dst
  simp only [betweenCheckPair, Bool.and_eq_true, beq_iff_eq] at hc
  obtain ⟨⟨⟨hvr, _⟩, hsr⟩, _⟩ := hc
  rw [hv] at hvr
  cases hbt : Spec.between Spec.rookDirs src dst with
  | none => rw [hbt] at hvr; cases hvr
  | some l =>
    rw [hbt] at hsr
    simp only [beq_iff_eq] at hsr
    apply slide_of_between _ _ _ _ l hbt
    intro x hx
    have := (BB.isEmpty_iff _).mp he x
    rw [BB.has_and, hsr, BB.has_ofList] at this
    simp only [hx, decide_true, Bool.true_and] at this
    rw [occ_abs b hb]; exact this

theorem near_table_sym : ∀ (s t : Sq), ((kingAttack s).has t = (kingAttack t).has s)
    ∧ ((knightAttack s).has t = (knightAttack t).has s) := by decide +kernel

/-- a well-formed diagonal pawn step is an attack of the destination by that pawn -/
theorem pawn_step_attacks (c : Color) : ∀ (src dst : Sq),
    absDiff src.file.val dst.file.val ≤ 1 → src.file ≠ dst.file →
    ((c = .white → src.rank.val = dst.rank.val + 1) ∧ (c = .black → src.rank.val + 1 = dst.rank.val)) →
    (pawnAttack c.inv dst).has src = true := by
  cases c <;> simp only [reduceCtorEq, forall_const, false_imp_iff, true_imp_iff, and_true, true_and] <;> decide +kernel

theorem semilegal_tail (b : Board) (mv : Move) (hsl : isSemilegal b mv = true) (piece : Piece)
    (hpiece : mv.cell.piece = some piece) :
    (match piece with
      | .pawn =>
        (match mv.kind with
        | .double => decide (b.get (addU mv.src (forwardDelta b.r.side)) = Cell.empty) && decide (b.get mv.dst = Cell.empty)
        | .ep => (match b.r.ep with
          | some p => (decide (p = addU mv.src 1) || decide (p = addU mv.src (-1))) && decide (mv.dst = addU p (forwardDelta b.r.side))
          | none => false)
        | _ => (decide (mv.dst.file = mv.src.file)) == (decide (b.get mv.dst = Cell.empty)))
      | .king =>
        (match mv.kind with
        | .castleK => rHas b.r.castling b.r.side .king && (b.all &&& castlingPass b.r.side .king).isEmpty
            && !isCellAttacked b mv.src b.r.side.inv && !isCellAttacked b (addU mv.src 1) b.r.side.inv
        | .castleQ => rHas b.r.castling b.r.side .queen && (b.all &&& castlingPass b.r.side .queen).isEmpty
            && !isCellAttacked b mv.src b.r.side.inv && !isCellAttacked b (addU mv.src (-1)) b.r.side.inv
        | _ => true)
      | .knight => true
      | .bishop => (bishopStrict mv.src mv.dst &&& b.all).isEmpty
      | .rook => (rookStrict mv.src mv.dst &&& b.all).isEmpty
      | .queen => isQueenSemilegal mv.src mv.dst b.all) = true := by
  obtain ⟨hknull, hsrc, hcol, hdst⟩ := semilegal_base b mv hsl
  unfold isSemilegal at hsl
  simp only at hsl
  have hcond : ¬ ((mv.kind = Kind.null || b.get mv.src ≠ mv.cell || mv.cell.color ≠ some b.r.side
      || (b.get mv.dst).color = some b.r.side) = true) := by
    simp [hknull, hsrc, hcol, hdst]
  rw [if_neg hcond, hpiece] at hsl
  cases piece <;> exact hsl

/-- wf geometry of the piece kinds relevant to captures -/
theorem wf_geometry (mv : Move) (hwf : mv.isWellFormed = true) (c : Color) (piece : Piece)
    (hcell : mv.cell = Cell.mk c piece) (hk : mv.kind ≠ .null) :
    (mv.kind = .simple → piece = .knight → (knightAttack mv.src).has mv.dst = true)
    ∧ (mv.kind = .simple → piece = .king → (kingAttack mv.src).has mv.dst = true)
    ∧ (mv.kind = .simple → piece = .bishop → isBishopValid mv.src mv.dst = true)
    ∧ (mv.kind = .simple → piece = .rook → isRookValid mv.src mv.dst = true)
    ∧ (mv.kind = .simple → piece = .queen → (isBishopValid mv.src mv.dst || isRookValid mv.src mv.dst) = true)
    ∧ ((mv.kind = .simple ∨ mv.kind = .promN ∨ mv.kind = .promB ∨ mv.kind = .promR ∨ mv.kind = .promQ) → piece = .pawn →
        absDiff mv.src.file.val mv.dst.file.val ≤ 1
        ∧ ((c = .white → mv.src.rank.val = mv.dst.rank.val + 1) ∧ (c = .black → mv.src.rank.val + 1 = mv.dst.rank.val))) := by
  unfold Move.isWellFormed at hwf
  have hce : ¬ (mv.cell = Cell.empty) := by rw [hcell]; exact mk_ne_zero _ _
  have hcol : mv.cell.color = some c := by rw [hcell]; exact color_mk _ _
  have hpc : mv.cell.piece = some piece := by rw [hcell]; cases c <;> cases piece <;> rfl
  simp only [hk, if_false, hcol, hpc] at hwf
  split at hwf
  · simp at hwf
  split at hwf
  · simp at hwf
  refine ⟨?_, ?_, ?_, ?_, ?_, ?_⟩
  · intro h1 h2; subst h2; simpa [h1] using hwf
  · intro h1 h2; subst h2; simpa [h1] using hwf
  · intro h1 h2; subst h2; simpa [h1] using hwf
  · intro h1 h2; subst h2; simpa [h1] using hwf
  · intro h1 h2; subst h2; simpa [h1] using hwf
  · intro h1 h2; subst h2
    rcases h1 with h1 | h1 | h1 | h1 | h1 <;> simp only [h1] at hwf
    · split at hwf
      · simp at hwf
      · rename_i hc2
        simp only [Bool.or_eq_true, decide_eq_true_eq, not_or, Nat.not_lt] at hc2
        refine ⟨by omega, ?_⟩
        cases c <;> simp_all
    all_goals
      simp only [Bool.and_eq_true, decide_eq_true_eq] at hwf
      obtain ⟨⟨h1', h2'⟩, h3'⟩ := hwf
      refine ⟨h3', ?_⟩
      cases c <;> simp only [h1', h2', reduceCtorEq, false_imp_iff, true_imp_iff, and_true, true_and, forall_const] <;> decide

/-- a well-formed semilegal move onto an occupied square is an attack of that square by the mover -/
theorem semilegal_capture_attacks (b : Board) (mv : Move) (hs : Shape b) (hwf : mv.isWellFormed = true)
    (hsl : isSemilegal b mv = true) (hocc : b.get mv.dst ≠ Cell.empty) :
    isCellAttacked b mv.dst b.r.side = true := by
  obtain ⟨hknull, hsrc, hcol, hdst⟩ := semilegal_base b mv hsl
  obtain ⟨hne, color, piece, hcol', hpiece, hmatch, _⟩ := wf_facts mv hwf hknull
  have hcc : color = b.r.side := by rw [hcol] at hcol'; exact (Option.some.inj hcol').symm
  subst hcc
  have hcell := piece_of_color_piece hcol hpiece
  have ok := makeOk_of_semilegal b mv hs hwf hsl
  have htail := semilegal_tail b mv hsl piece hpiece
  obtain ⟨gN, gK, gB, gR, gQ, gP⟩ := wf_geometry mv hwf b.r.side piece hcell hknull
  have hb := hs.cons
  have hp2 : ∀ p, (b.piece2 b.r.side p).has mv.src = decide (piece = p) := by
    intro p
    rw [piece2_has b hb, hsrc, hcell]
    by_cases e : piece = p
    · subst e; simp
    · have : ¬ Cell.mk b.r.side piece = Cell.mk b.r.side p := fun h => e (mk_inj h).2
      simp [e, this]
  rw [isCellAttacked_eq, nonEmpty_iff]
  refine ⟨mv.src, ?_⟩
  unfold cellAttackers Board.pieceDiag Board.pieceLine
  simp only [BB.has_or, BB.has_and, hp2]
  unfold MakeOk at ok
  -- which kinds can land on an occupied square
  have hkind : mv.kind = .simple ∨ mv.kind = .promN ∨ mv.kind = .promB ∨ mv.kind = .promR ∨ mv.kind = .promQ := by
    cases hkk : mv.kind <;> simp only [hkk] at ok
    · exact absurd hkk hknull
    · exact Or.inl rfl
    · obtain ⟨_, c2, p2, hc2, _, _, hK, _, _⟩ := wf_facts mv hwf hknull
      have : c2 = b.r.side := by rw [hcol] at hc2; exact (Option.some.inj hc2).symm
      subst this
      exact absurd (by rw [(hK hkk).2]; exact ok.2.2.1) hocc
    · obtain ⟨_, c2, p2, hc2, _, _, _, hQ, _⟩ := wf_facts mv hwf hknull
      have : c2 = b.r.side := by rw [hcol] at hc2; exact (Option.some.inj hc2).symm
      subst this
      exact absurd (by rw [(hQ hkk).2]; exact ok.2.1) hocc
    · exact absurd ok.2.1 hocc
    · exact absurd ok.2.1 hocc
    · exact Or.inr (Or.inl rfl)
    · exact Or.inr (Or.inr (Or.inl rfl))
    · exact Or.inr (Or.inr (Or.inr (Or.inl rfl)))
    · exact Or.inr (Or.inr (Or.inr (Or.inr rfl)))
  cases piece
  · -- pawn
    obtain ⟨hfd, hstep⟩ := gP hkind rfl
    have hfile : mv.src.file ≠ mv.dst.file := by
      intro e
      rcases hkind with h | h | h | h | h <;> simp only [h] at htail <;> simp_all
    have := pawn_step_attacks b.r.side mv.src mv.dst hfd hfile hstep
    simp [this]
  · -- king
    have hsimple : mv.kind = .simple := by
      rcases hkind with h | h | h | h | h
      · exact h
      all_goals (rw [h] at hmatch; simp [Kind.matchesPiece] at hmatch)
    have := gK hsimple rfl
    rw [(near_table_sym mv.src mv.dst).1] at this
    simp [this]
  · have hsimple : mv.kind = .simple := by
      rcases hkind with h | h | h | h | h
      · exact h
      all_goals (rw [h] at hmatch; simp [Kind.matchesPiece] at hmatch)
    have := gN hsimple rfl
    rw [(near_table_sym mv.src mv.dst).2] at this
    simp [this]
  · have hsimple : mv.kind = .simple := by
      rcases hkind with h | h | h | h | h
      · exact h
      all_goals (rw [h] at hmatch; simp [Kind.matchesPiece] at hmatch)
    have := bishop_sees b hb mv.src mv.dst (gB hsimple rfl) htail
    simp [this]
  · have hsimple : mv.kind = .simple := by
      rcases hkind with h | h | h | h | h
      · exact h
      all_goals (rw [h] at hmatch; simp [Kind.matchesPiece] at hmatch)
    have := rook_sees b hb mv.src mv.dst (gR hsimple rfl) htail
    simp [this]
  · have hsimple : mv.kind = .simple := by
      rcases hkind with h | h | h | h | h
      · exact h
      all_goals (rw [h] at hmatch; simp [Kind.matchesPiece] at hmatch)
    have hq := gQ hsimple rfl
    unfold isQueenSemilegal at htail
    by_cases hv : isBishopValid mv.src mv.dst = true
    · rw [if_pos hv] at htail
      have := bishop_sees b hb mv.src mv.dst hv htail
      simp [this]
    · rw [if_neg hv] at htail
      have hr : isRookValid mv.src mv.dst = true := by
        simp only [Bool.or_eq_true] at hq
        rcases hq with h | h
        · exact absurd h hv
        · exact h
      have := rook_sees b hb mv.src mv.dst hr htail
      simp [this]

end Owl.Lemmas
