/-
C15: lift of the per-square kernel checks to every square and all 2^64 occupancies.
-/
import OwlModel.Lemmas.TablesRook0
import OwlModel.Lemmas.TablesRook1
import OwlModel.Lemmas.TablesRook2
import OwlModel.Lemmas.TablesRook3
import OwlModel.Lemmas.TablesRook4
import OwlModel.Lemmas.TablesRook5
import OwlModel.Lemmas.TablesRook6
import OwlModel.Lemmas.TablesRook7
import OwlModel.Lemmas.TablesBishop

namespace Owl.Lemmas
open Owl

theorem rook_rank : ∀ r : Fin 8, rookCheckRank r = true
  | ⟨0, _⟩ => rook_rank_0 | ⟨1, _⟩ => rook_rank_1 | ⟨2, _⟩ => rook_rank_2 | ⟨3, _⟩ => rook_rank_3
  | ⟨4, _⟩ => rook_rank_4 | ⟨5, _⟩ => rook_rank_5 | ⟨6, _⟩ => rook_rank_6 | ⟨7, _⟩ => rook_rank_7
  | ⟨n+8, h⟩ => absurd h (by omega)

theorem bishop_rank : ∀ r : Fin 8, bishopCheckRank r = true
  | ⟨0, _⟩ => bishop_rank_0 | ⟨1, _⟩ => bishop_rank_1 | ⟨2, _⟩ => bishop_rank_2 | ⟨3, _⟩ => bishop_rank_3
  | ⟨4, _⟩ => bishop_rank_4 | ⟨5, _⟩ => bishop_rank_5 | ⟨6, _⟩ => bishop_rank_6 | ⟨7, _⟩ => bishop_rank_7
  | ⟨n+8, h⟩ => absurd h (by omega)

theorem rook_check_all (s : Sq) : rookCheckSq s = true ∧ rookCoverSq s = true := by
  have h := rook_rank s.rank
  unfold rookCheckRank at h
  have h' := (List.all_eq_true.mp h) s.file (List.mem_finRange _)
  simpa using h'

theorem bishop_check_all (s : Sq) : bishopCheckSq s = true ∧ bishopCoverSq s = true := by
  have h := bishop_rank s.rank
  unfold bishopCheckRank at h
  have h' := (List.all_eq_true.mp h) s.file (List.mem_finRange _)
  simpa using h'

theorem ofNat_toNat (x : BB) : BB.ofNat x.toNat = x := by
  simp [BB.ofNat]

theorem slideBB_and_mask (dirs : List (Int × Int)) (occ mask : BB) (s : Sq)
    (hcov : (dirs.all fun d => (Spec.ray d 7 s).dropLast.all fun x => mask.has x) = true) :
    slideBB dirs (occ &&& mask) s = slideBB dirs occ s := by
  unfold slideBB
  congr 1
  apply slide_congr
  intro d hd x hx
  have hm : mask.has x = true := by
    have := (List.all_eq_true.mp hcov) d hd
    exact (List.all_eq_true.mp this) x hx
  simp [has_and, hm]

/-- C15 (rook lines): for every square and every occupancy the lookup is the ray walk -/
theorem rookAttack_eq_slide (s : Sq) (occ : BB) :
    Impl.rookAttack s occ = slideBB Spec.rookDirs occ s := by
  obtain ⟨hc, hv⟩ := rook_check_all s
  have h1 : Impl.rookAttack s occ = Impl.rookAttack s (occ &&& rookMaskOf s) := by
    unfold Impl.rookAttack Impl.rookIndex rookMaskOf
    simp only [BitVec.and_assoc, BitVec.and_self]
  have hm : (occ &&& rookMaskOf s).toNat ∈ submasks (bitsOf (rookMaskOf s).toNat) := by
    rw [BitVec.toNat_and]; exact and_mem_submasks _ _ (rookMaskOf s).isLt
  have h2 := (List.all_eq_true.mp hc) _ hm
  rw [ofNat_toNat] at h2
  rw [h1, eq_of_beq h2]
  exact slideBB_and_mask _ _ _ _ hv

/-- C15 (bishop lines) -/
theorem bishopAttack_eq_slide (s : Sq) (occ : BB) :
    Impl.bishopAttack s occ = slideBB Spec.bishopDirs occ s := by
  obtain ⟨hc, hv⟩ := bishop_check_all s
  have h1 : Impl.bishopAttack s occ = Impl.bishopAttack s (occ &&& bishopMaskOf s) := by
    unfold Impl.bishopAttack Impl.bishopIndex bishopMaskOf
    simp only [BitVec.and_assoc, BitVec.and_self]
  have hm : (occ &&& bishopMaskOf s).toNat ∈ submasks (bitsOf (bishopMaskOf s).toNat) := by
    rw [BitVec.toNat_and]; exact and_mem_submasks _ _ (bishopMaskOf s).isLt
  have h2 := (List.all_eq_true.mp hc) _ hm
  rw [ofNat_toNat] at h2
  rw [h1, eq_of_beq h2]
  exact slideBB_and_mask _ _ _ _ hv

end Owl.Lemmas
