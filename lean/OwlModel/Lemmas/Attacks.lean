/-
T-between and symmetry facts for attack reasoning (C16 and everything that uses attack queries).
-/
import OwlModel.Lemmas.Tables
import OwlModel.Lemmas.TablesNear
import OwlModel.Lemmas.Shape
import OwlModel.Abs

namespace Owl.Lemmas
open Owl Owl.Impl

/-- membership in a ray walk -/
theorem mem_reach_iff (occ : Sq → Bool) (t : Sq) :
    ∀ l : List Sq, t ∈ Spec.reach occ l ↔ (t ∈ l ∧ ∀ x ∈ l.takeWhile (· ≠ t), occ x = false)
  | [] => by simp [Spec.reach]
  | a :: rest => by
    have ih := mem_reach_iff occ t rest
    by_cases hat : a = t
    · subst hat
      by_cases ho : occ a <;> simp [Spec.reach, ho]
    · have hta : ¬ t = a := fun e => hat e.symm
      by_cases ho : occ a
      · simp [Spec.reach, ho, hat, hta]
      · simp only [Spec.reach, ho, Bool.false_eq_true, if_false, List.mem_cons, hta, false_or, ih]
        simp [List.takeWhile, hat, ho]

theorem mem_slide_iff (dirs : List (Int × Int)) (occ : Sq → Bool) (s t : Sq) :
    t ∈ Spec.slide dirs occ s ↔
      ∃ d ∈ dirs, t ∈ Spec.ray d 7 s ∧ ∀ x ∈ (Spec.ray d 7 s).takeWhile (· ≠ t), occ x = false := by
  unfold Spec.slide
  simp only [List.mem_flatMap, mem_reach_iff]

def negDir (d : Int × Int) : Int × Int := (-d.1, -d.2)

/-- geometric symmetry of rays, decided over all squares and the eight directions -/
def raySymCheck (dirs : List (Int × Int)) : Bool :=
  Sq.all.all fun s => Sq.all.all fun t => dirs.all fun d =>
    !(Spec.ray d 7 s).contains t ||
      (dirs.contains (negDir d) && (Spec.ray (negDir d) 7 t).contains s
        && Sq.all.all fun x => ((Spec.ray d 7 s).takeWhile (· ≠ t)).contains x
              == ((Spec.ray (negDir d) 7 t).takeWhile (· ≠ s)).contains x)

theorem ray_sym_rook : raySymCheck Spec.rookDirs = true := by decide +kernel
theorem ray_sym_bishop : raySymCheck Spec.bishopDirs = true := by decide +kernel

theorem slide_symm_half (dirs : List (Int × Int)) (hsym : raySymCheck dirs = true) (occ : Sq → Bool) (s t : Sq)
    (h : t ∈ Spec.slide dirs occ s) : s ∈ Spec.slide dirs occ t := by
  rw [mem_slide_iff] at h ⊢
  obtain ⟨d, hd, hmem, hfree⟩ := h
  have h1 := (List.all_eq_true.mp ((List.all_eq_true.mp ((List.all_eq_true.mp hsym) s (List.mem_finRange _))) t
    (List.mem_finRange _))) d hd
  have hc : (Spec.ray d 7 s).contains t = true := by simpa using hmem
  simp only [hc, Bool.not_true, Bool.false_or, Bool.and_eq_true] at h1
  obtain ⟨⟨hnd, hs⟩, hall⟩ := h1
  refine ⟨negDir d, by simpa using hnd, by simpa using hs, ?_⟩
  intro x hx
  have hx' := (List.all_eq_true.mp hall) x (List.mem_finRange _)
  have : ((Spec.ray (negDir d) 7 t).takeWhile (· ≠ s)).contains x = true := by simpa using hx
  rw [this] at hx'
  have : x ∈ (Spec.ray d 7 s).takeWhile (· ≠ t) := by simpa using hx'
  exact hfree x this

theorem slide_symm (dirs : List (Int × Int)) (hsym : raySymCheck dirs = true) (occ : Sq → Bool) (s t : Sq) :
    t ∈ Spec.slide dirs occ s ↔ s ∈ Spec.slide dirs occ t :=
  ⟨slide_symm_half dirs hsym occ s t, slide_symm_half dirs hsym occ t s⟩

/-- leaper / pawn attack tables are symmetric in the sense the attack queries use them -/
def nearSymCheck : Bool :=
  Sq.all.all fun s => Sq.all.all fun t =>
    ((kingAttack t).has s == Spec.kingSteps.any fun d => Spec.step s d == some t)
    && ((knightAttack t).has s == Spec.knightSteps.any fun d => Spec.step s d == some t)
    && ((pawnAttack .black t).has s == [((-1 : Int), Spec.forward .white), (1, Spec.forward .white)].any fun d => Spec.step s d == some t)
    && ((pawnAttack .white t).has s == [((-1 : Int), Spec.forward .black), (1, Spec.forward .black)].any fun d => Spec.step s d == some t)

theorem near_sym : nearSymCheck = true := by decide +kernel

theorem near_sym_sq (s t : Sq) :
    ((kingAttack t).has s = Spec.kingSteps.any fun d => Spec.step s d == some t)
    ∧ ((knightAttack t).has s = Spec.knightSteps.any fun d => Spec.step s d == some t)
    ∧ ((pawnAttack .black t).has s = [((-1 : Int), Spec.forward .white), (1, Spec.forward .white)].any fun d => Spec.step s d == some t)
    ∧ ((pawnAttack .white t).has s = [((-1 : Int), Spec.forward .black), (1, Spec.forward .black)].any fun d => Spec.step s d == some t) := by
  have h := (List.all_eq_true.mp ((List.all_eq_true.mp near_sym) s (List.mem_finRange _))) t (List.mem_finRange _)
  simp only [Bool.and_eq_true, beq_iff_eq] at h
  exact ⟨h.1.1.1, h.1.1.2, h.1.2, h.2⟩

/-- occupancy of the specification position = membership in the stored combined set -/
theorem occ_abs (b : Board) (hb : Consistent b) (x : Sq) : (abs b.r).occ x = b.all.has x := by
  rw [all_has b hb]
  unfold Spec.Pos.occ Spec.Pos.get abs
  simp only [Tab.get_ofFn]
  show (absCell (b.get x)).isSome = _
  generalize b.get x = c
  revert c; decide

theorem get_abs (r : RawBoard) (s : Sq) : (abs r).get s = absCell (r.get s) := by
  simp [Spec.Pos.get, abs, RawBoard.get]

theorem absCell_mk (c : Color) (p : Piece) : absCell (Cell.mk c p) = some ⟨c, p⟩ := by
  cases c <;> cases p <;> rfl

theorem absCell_eq_some (x : Cell) (c : Color) (p : Piece) : absCell x = some ⟨c, p⟩ ↔ x = Cell.mk c p := by
  revert x; cases c <;> cases p <;> decide

theorem piece2_has (b : Board) (hb : Consistent b) (c : Color) (p : Piece) (s : Sq) :
    (b.piece2 c p).has s = decide (b.get s = Cell.mk c p) := by
  rw [consistent_iff'] at hb
  obtain ⟨_, _, _, hp⟩ := hb
  unfold Board.piece2
  rw [hp]
  have : (Cell.mk c p).val ≠ 0 := by cases c <;> cases p <;> decide
  simp [this]

/-- slider attack sets in terms of the specification's ray walk on the position -/
theorem rook_has (b : Board) (hb : Consistent b) (t s : Sq) :
    (rookAttack t b.all).has s = decide (t ∈ Spec.slide Spec.rookDirs (abs b.r).occ s) := by
  rw [rookAttack_eq_slide]
  unfold slideBB
  rw [BB.has_ofList]
  have hocc : (fun x => b.all.has x) = (abs b.r).occ := by funext x; exact (occ_abs b hb x).symm
  rw [hocc]
  exact decide_eq_decide.mpr (slide_symm _ ray_sym_rook _ t s)

theorem bishop_has (b : Board) (hb : Consistent b) (t s : Sq) :
    (bishopAttack t b.all).has s = decide (t ∈ Spec.slide Spec.bishopDirs (abs b.r).occ s) := by
  rw [bishopAttack_eq_slide]
  unfold slideBB
  rw [BB.has_ofList]
  have hocc : (fun x => b.all.has x) = (abs b.r).occ := by funext x; exact (occ_abs b hb x).symm
  rw [hocc]
  exact decide_eq_decide.mpr (slide_symm _ ray_sym_bishop _ t s)

theorem decide_slide_append (d1 d2 : List (Int × Int)) (occ : Sq → Bool) (s t : Sq) :
    decide (t ∈ Spec.slide (d1 ++ d2) occ s) = (decide (t ∈ Spec.slide d1 occ s) || decide (t ∈ Spec.slide d2 occ s)) := by
  rw [← Bool.decide_or]
  apply decide_eq_decide.mpr
  simp [Spec.slide, List.flatMap_append]

theorem piece2_has' (b : Board) (hb : Consistent b) (c : Color) (p : Piece) (s : Sq) :
    (b.piece2 c p).has s = decide (absCell (b.get s) = some ⟨c, p⟩) := by
  rw [piece2_has b hb]
  exact decide_eq_decide.mpr (absCell_eq_some _ c p).symm

/-- C16: the attackers query returns exactly the men of that colour that attack the square -/
theorem cellAttackers_has (b : Board) (hb : Consistent b) (t : Sq) (c : Color) (s : Sq) :
    (cellAttackers b t c).has s =
      (((abs b.r).get s).any (fun m => m.color == c) && Spec.attacks (abs b.r) s t) := by
  unfold cellAttackers Board.pieceDiag Board.pieceLine
  simp only [BB.has_or, BB.has_and, piece2_has' b hb, rook_has b hb, bishop_has b hb]
  obtain ⟨hk, hn, hpb, hpw⟩ := near_sym_sq s t
  rw [hk, hn]
  unfold Spec.attacks
  rw [get_abs]
  show _ = _
  have hg : b.r.get s = b.get s := rfl
  rw [hg]
  generalize absCell (b.get s) = m
  cases m with
  | none => simp
  | some m =>
    obtain ⟨mc, mp⟩ := m
    cases c <;> cases mc <;> cases mp <;>
      simp [Color.inv, hpb, hpw, Spec.dirsOf, decide_slide_append]

theorem nonEmpty_iff (a : BB) : a.nonEmpty = true ↔ ∃ s : Sq, a.has s = true := by
  unfold BB.nonEmpty
  constructor
  · intro h
    apply Classical.byContradiction
    intro hne
    have : a = 0#64 := BB.ext_has (by
      intro s; simp only [BB.has_zero]
      cases hs : a.has s
      · rfl
      · exact absurd ⟨s, hs⟩ hne)
    simp [this] at h
  · intro ⟨s, hs⟩
    simp only [bne_iff_ne, ne_eq]
    intro h; subst h; simp at hs

theorem nonEmpty_or (a b : BB) : (a ||| b).nonEmpty = (a.nonEmpty || b.nonEmpty) := by
  cases ha : a.nonEmpty <;> cases hb : b.nonEmpty <;> simp only [Bool.or_false, Bool.or_true, Bool.false_or]
  · have h1 : ¬ (a.nonEmpty = true) := by simp [ha]
    have h2 : ¬ (b.nonEmpty = true) := by simp [hb]
    rw [nonEmpty_iff] at h1 h2
    cases h : (a ||| b).nonEmpty
    · rfl
    · obtain ⟨s, hs⟩ := (nonEmpty_iff _).mp h
      rw [BB.has_or, Bool.or_eq_true] at hs
      rcases hs with hs | hs
      · exact absurd ⟨s, hs⟩ h1
      · exact absurd ⟨s, hs⟩ h2
  · obtain ⟨s, hs⟩ := (nonEmpty_iff _).mp hb
    exact (nonEmpty_iff _).mpr ⟨s, by simp [hs]⟩
  · obtain ⟨s, hs⟩ := (nonEmpty_iff _).mp ha
    exact (nonEmpty_iff _).mpr ⟨s, by simp [hs]⟩
  · obtain ⟨s, hs⟩ := (nonEmpty_iff _).mp ha
    exact (nonEmpty_iff _).mpr ⟨s, by simp [hs]⟩

/-- the Boolean query is the non-emptiness of the attackers set (same five terms) -/
theorem isCellAttacked_eq (b : Board) (t : Sq) (c : Color) :
    isCellAttacked b t c = (cellAttackers b t c).nonEmpty := by
  unfold isCellAttacked cellAttackers
  simp only [nonEmpty_or]
  cases (b.piece2 c Piece.pawn &&& pawnAttack c.inv t).nonEmpty <;>
  cases (b.piece2 c Piece.king &&& kingAttack t).nonEmpty <;>
  cases (b.piece2 c Piece.knight &&& knightAttack t).nonEmpty <;> simp

theorem isCellAttacked_iff (b : Board) (hb : Consistent b) (t : Sq) (c : Color) :
    isCellAttacked b t c = Spec.attackedBy (abs b.r) t c := by
  rw [isCellAttacked_eq]
  unfold Spec.attackedBy Spec.attackers
  cases h : (cellAttackers b t c).nonEmpty
  · have hn : ¬ ((cellAttackers b t c).nonEmpty = true) := by simp [h]
    rw [nonEmpty_iff] at hn
    symm
    simp only [Bool.not_eq_false', List.isEmpty_iff, List.filter_eq_nil_iff]
    intro s _ hs
    exact hn ⟨s, by rw [cellAttackers_has b hb]; exact hs⟩
  · obtain ⟨s, hs⟩ := (nonEmpty_iff _).mp h
    rw [cellAttackers_has b hb] at hs
    symm
    simp only [Bool.not_eq_true', List.isEmpty_eq_false_iff_exists_mem]
    exact ⟨s, List.mem_filter.mpr ⟨List.mem_finRange _, hs⟩⟩

theorem kingPos_eq (b : Board) (hb : Consistent b) (c : Color) : b.kingPos? c = Spec.kingSq (abs b.r) c := by
  unfold Board.kingPos? BB.first? Spec.kingSq Spec.kingSqs Spec.allSq Sq.all
  rw [List.head?_filter]
  have hf : (fun s => (b.piece2 c Piece.king).has s)
      = (fun s => (abs b.r).get s == some ({ color := c, piece := Piece.king } : Spec.Man)) := by
    funext s
    rw [piece2_has' b hb, get_abs]
    show _ = (absCell (b.get s) == _)
    generalize absCell (b.get s) = m
    cases h : (m == some ({ color := c, piece := Piece.king } : Spec.Man)) <;> simp_all
  rw [hf]

theorem isCheck_eq (b : Board) (hb : Consistent b) :
    isCheck? b = (Spec.kingSq (abs b.r) b.r.side).map fun k => Spec.attackedBy (abs b.r) k b.r.side.inv := by
  unfold isCheck?
  rw [kingPos_eq b hb]
  cases Spec.kingSq (abs b.r) b.r.side with
  | none => rfl
  | some k => simp [isCellAttacked_iff b hb]

theorem checkers_eq (b : Board) (hb : Consistent b) (s : Sq) :
    (checkers? b).map (fun bb => bb.has s) =
      (Spec.kingSq (abs b.r) b.r.side).map fun k =>
        (((abs b.r).get s).any (fun m => m.color == b.r.side.inv) && Spec.attacks (abs b.r) s k) := by
  unfold checkers?
  rw [kingPos_eq b hb]
  cases Spec.kingSq (abs b.r) b.r.side with
  | none => rfl
  | some k => simp [cellAttackers_has b hb]

end Owl.Lemmas
