import OwlModel.Lemmas.SanSound
import OwlModel.Props.C07
namespace Owl.Props.C09
open Owl Owl.Impl Owl.Lemmas Owl.Props

/-
C09 (part b)  SAN output.
For every valid position `b` and legal move `mv` (`Legal b mv`: well-formed, semilegal, accepted by
`is_legal_unchecked`):
* `sanData_roundtrip`   `san::Data::from_move` does not panic, the data agrees with the move (`Agrees`) and
                        `san::Data::into_move` resolves it back to `mv` (detector lemmas `detector_fold`, `hints_exclude`;
                        per class `piece_roundtrip`, `pawn_roundtrip`, `castle_roundtrip`);
* `sanData_reparse`, `san_text_reparse`   every printable datum (`Printable`) is written without failure and
                        `FromStr` reads the text back to the same datum and the same check mark;
* `sanFromMove_spec`    `san::Move::from_move` succeeds; `+` iff the opponent is in check after the move and has a legal
                        move, `#` iff in check and no legal move (`markOf`);
* `san_text_roundtrip`  `Move::from_san (to_string (from_move mv b)) b = mv`;
* `san_text_injective`  two legal moves with the same text are equal;
* `san_text_standard`   the text is `Spec.San.write (abs b.r) sm` (`concMove sm = mv`): piece letter, the rules' minimal
                        file / rank / square disambiguation among LEGAL moves (`piece_dis`, `others_bridge`), capture mark
                        (`pawn_isCapture`, `isCapture_get`), promotion suffix, castling symbols, check / mate mark;
                        `write_injective`: the rules' notation is injective on the legal moves of a valid position.
No hypothesis beyond `Valid b` and legality was needed; no counterexample was found.
-/

/-! ## 1. the disambiguation detector (`AmbigDetector`) -/

theorem detector_fold (mv : Move) (l : List Move) : ∀ d0 : Detector,
    (l.foldl (detectorPush mv) d0).simAny = (d0.simAny || l.any fun m => decide (m ≠ mv))
    ∧ (l.foldl (detectorPush mv) d0).simFile =
        (d0.simFile || l.any fun m => decide (m ≠ mv) && decide (mv.src.file = m.src.file))
    ∧ (l.foldl (detectorPush mv) d0).simRank =
        (d0.simRank || l.any fun m => decide (m ≠ mv) && decide (mv.src.rank = m.src.rank)) := by
  induction l with
  | nil => intro d0; simp
  | cons x xs ih =>
    intro d0
    rw [List.foldl_cons]
    obtain ⟨h1, h2, h3⟩ := ih (detectorPush mv d0 x)
    rw [h1, h2, h3]
    unfold detectorPush
    by_cases hx : x = mv
    · simp [hx]
    · simp [hx, Bool.or_assoc]


/-- the origin hints `from_move` writes, as a function of the detector state -/
def hintFile (mv : Move) (d : Detector) : Option (Fin 8) :=
  if d.simAny && (d.simRank || !d.simFile) then some mv.src.file else none
def hintRank (mv : Move) (d : Detector) : Option (Fin 8) :=
  if d.simAny && d.simFile then some mv.src.rank else none

/-- the chosen hints exclude every other candidate (candidates are determined by their source square) -/
theorem hints_exclude (mv : Move) (l : List Move) (m' : Move) (hm : m' ∈ l) (hne : m' ≠ mv)
    (hsrc : m'.src = mv.src → m' = mv) :
    ¬ ((hintFile mv (l.foldl (detectorPush mv) {})).all (· = m'.src.file) = true
      ∧ (hintRank mv (l.foldl (detectorPush mv) {})).all (· = m'.src.rank) = true) := by
  obtain ⟨h1, h2, h3⟩ := detector_fold mv l {}
  simp only [Bool.false_or] at h1 h2 h3
  have hany : (l.foldl (detectorPush mv) {}).simAny = true := by
    rw [h1, List.any_eq_true]; exact ⟨m', hm, by simpa using hne⟩
  unfold hintFile hintRank
  rw [hany]
  intro ⟨hf, hr⟩
  cases hsf : (l.foldl (detectorPush mv) {}).simFile
  · rw [hsf] at hf
    simp only [Bool.not_false, Bool.or_true, Bool.and_self, if_true, Option.all_some, decide_eq_true_eq] at hf
    have : (l.foldl (detectorPush mv) {}).simFile = true := by
      rw [h2, List.any_eq_true]; exact ⟨m', hm, by simp [hne, hf]⟩
    rw [hsf] at this; cases this
  · rw [hsf] at hr hf
    simp only [Bool.and_self, if_true, Option.all_some, decide_eq_true_eq] at hr
    have hsr : (l.foldl (detectorPush mv) {}).simRank = true := by
      rw [h3, List.any_eq_true]; exact ⟨m', hm, by simp [hne, hr]⟩
    rw [hsr] at hf
    simp only [Bool.not_true, Bool.or_false, Bool.and_self, if_true, Option.all_some, decide_eq_true_eq] at hf
    exact hne (hsrc (sq_ext _ _ hf.symm hr.symm))

/-- `from_move` on a piece move -/
theorem sanData_piece (b : Board) (piece : Piece) (hp : piece ≠ .pawn) (s dst : Sq) (cands : List Move)
    (hc : sanCandidates? b piece dst = some cands) :
    sanDataFromMove (mkMove b.r.side .simple piece s dst) b =
      .ok (.simple piece (hintFile (mkMove b.r.side .simple piece s dst)
            (cands.foldl (detectorPush (mkMove b.r.side .simple piece s dst)) {}))
          (hintRank (mkMove b.r.side .simple piece s dst)
            (cands.foldl (detectorPush (mkMove b.r.side .simple piece s dst)) {}))
          (b.get dst).isOcc dst) := by
  unfold sanDataFromMove hintFile hintRank
  simp only [mkMove, piece_mk]
  cases piece <;> first | exact absurd rfl hp | (simp only [hc])


theorem hint_self (mv : Move) (d : Detector) :
    (hintFile mv d).all (· = mv.src.file) = true ∧ (hintRank mv d).all (· = mv.src.rank) = true := by
  unfold hintFile hintRank
  constructor <;> split <;> simp

/-- C09 (output, piece moves): the data written for a legal piece move agrees with the move and resolves back to it -/
theorem piece_roundtrip (b : Board) (hv : Valid b) (piece : Piece) (hp : piece ≠ .pawn) (s dst : Sq)
    (hl : Legal b (mkMove b.r.side .simple piece s dst)) :
    ∃ cands, sanCandidates? b piece dst = some cands ∧
      sanDataFromMove (mkMove b.r.side .simple piece s dst) b =
        .ok (.simple piece (hintFile (mkMove b.r.side .simple piece s dst)
              (cands.foldl (detectorPush (mkMove b.r.side .simple piece s dst)) {}))
            (hintRank (mkMove b.r.side .simple piece s dst)
              (cands.foldl (detectorPush (mkMove b.r.side .simple piece s dst)) {}))
            (b.get dst).isOcc dst)
      ∧ Agrees b (.simple piece (hintFile (mkMove b.r.side .simple piece s dst)
              (cands.foldl (detectorPush (mkMove b.r.side .simple piece s dst)) {}))
            (hintRank (mkMove b.r.side .simple piece s dst)
              (cands.foldl (detectorPush (mkMove b.r.side .simple piece s dst)) {}))
            (b.get dst).isOcc dst) (mkMove b.r.side .simple piece s dst)
      ∧ sanIntoMove (.simple piece (hintFile (mkMove b.r.side .simple piece s dst)
              (cands.foldl (detectorPush (mkMove b.r.side .simple piece s dst)) {}))
            (hintRank (mkMove b.r.side .simple piece s dst)
              (cands.foldl (detectorPush (mkMove b.r.side .simple piece s dst)) {}))
            (b.get dst).isOcc dst) b = .ok (mkMove b.r.side .simple piece s dst) := by
  obtain ⟨l, hc, hnd, hmem⟩ := sanCandidates_spec b hv piece hp dst
  refine ⟨l, hc, sanData_piece b piece hp s dst l hc, ?_⟩
  generalize hmv : mkMove b.r.side .simple piece s dst = mv at *
  have hshape : mv.kind = .simple ∧ mv.cell = Cell.mk b.r.side piece ∧ mv.dst = dst := by
    subst hmv; exact ⟨rfl, rfl, rfl⟩
  have hag : Agrees b (.simple piece (hintFile mv (l.foldl (detectorPush mv) {}))
      (hintRank mv (l.foldl (detectorPush mv) {})) (b.get dst).isOcc dst) mv := by
    refine ⟨hshape.1, hshape.2.1, hshape.2.2, (hint_self mv _).1, (hint_self mv _).2, ?_⟩
    intro h; rw [isOcc_iff] at h; exact h
  refine ⟨hag, ?_⟩
  apply ((san_simple_resolve b hv piece hp _ _ _ dst).1 mv).mpr
  refine ⟨⟨hl, hag⟩, ?_⟩
  rintro m' ⟨hl', ha'⟩
  obtain ⟨a1, a2, a3, a4, a5, _⟩ := ha'
  have hm' : m' ∈ l := (hmem m').mpr ⟨(simple_shape_iff _ _ _ _).mpr ⟨a1, a2, a3⟩, hl'⟩
  by_cases hne : m' = mv
  · exact hne
  · exfalso
    apply hints_exclude mv l m' hm' hne ?_ ⟨a4, a5⟩
    intro hs
    obtain ⟨s', hs'⟩ := (simple_shape_iff _ _ _ _).mpr ⟨a1, a2, a3⟩
    rw [hs', ← hmv] at hs ⊢
    have : s' = s := hs
    rw [this]


/-! ## 2. pawn moves and castling -/

theorem geo_step (c : Color) : ∀ s d : Sq, rankStep c s d →
    (Sq.mk s.file d.rank).add? (-(forwardDelta c)) = some s ∧ d.rank ≠ promoteDstRank c.inv := by
  cases c <;> unfold rankStep <;> decide +kernel

theorem geo_ep (c : Color) : ∀ s d : Sq, s.rank = epSrcRank c → d.rank = epDstRank c → rankStep c s d := by
  cases c <;> unfold rankStep <;> decide +kernel

theorem geo_double (c : Color) : ∀ s d : Sq, s.file = d.file → s.rank = doubleSrcRank c → d.rank = doubleDstRank c →
    d.rank ≠ promoteDstRank c.inv ∧ d.add? (-(forwardDelta c)) = some (addU s (forwardDelta c)) := by
  cases c <;> decide +kernel

theorem geo_epDest (c : Color) : ∀ p : Sq, p.rank = epSrcRank c →
    Sq.mk p.file (epDstRank c) = addU p (forwardDelta c) := by
  cases c <;> decide

theorem epDest_eq (b : Board) (hv : Valid b) (p : Sq) (hp : b.r.ep = some p) :
    b.r.epDest = some (addU p (forwardDelta b.r.side)) := by
  unfold RawBoard.epDest; rw [hp]; simp only; rw [geo_epDest _ p (hv.shape.ep p hp).1]

theorem epDest_free (b : Board) (hv : Valid b) (d : Sq) (h : some d = b.r.epDest) : b.get d = Cell.empty := by
  cases hp : b.r.ep with
  | none => unfold RawBoard.epDest at h; rw [hp] at h; cases h
  | some p => rw [epDest_eq b hv p hp] at h; cases h; exact (hv.shape.ep p hp).2.2

theorem new?_wf (k : Kind) (c : Cell) (s d : Sq) (h : (Move.mk k c s d).isWellFormed = true) :
    Move.new? k c s d = some ⟨k, c, s, d⟩ := by
  unfold Move.new?; simp only [h, if_true]

theorem validateInto_legal (b : Board) (mv : Move) (hl : Legal b mv) : validateInto b mv = .ok mv := by
  unfold validateInto validateMove; simp [hl.2.1, hl.2.2]

/-- `into_move` on a pawn push, given the geometry -/
theorem pawnMove_resolve (b : Board) (k : Kind) (s d src0 : Sq) (promote : Option Piece)
    (hl : Legal b (mkMove b.r.side k .pawn s d))
    (hrank : d.rank ≠ promoteDstRank b.r.side.inv)
    (hadd : d.add? (-(forwardDelta b.r.side)) = some src0)
    (hcase : ((b.get src0).isOcc = true ∧ src0 = s
        ∧ (match promote with | some p => promoteKind p | none => Kind.simple) = k)
      ∨ ((b.get src0).isOcc = false ∧ Sq.mk d.file (doubleSrcRank b.r.side) = s
          ∧ (match promote with | some p => promoteKind p | none => Kind.double) = k)) :
    sanIntoMove (.pawnMove d promote) b = .ok (mkMove b.r.side k .pawn s d) := by
  have hnew := new?_wf _ _ _ _ hl.1
  have hval := validateInto_legal b _ hl
  unfold sanIntoMove
  simp only [hrank, if_false, hadd]
  rcases hcase with ⟨h1, h2, h3⟩ | ⟨h1, h2, h3⟩
  · subst h2
    simp only [h1, Bool.not_true, Bool.false_eq_true, if_false]
    cases promote <;> simp only at h3 ⊢ <;> subst h3 <;> (rw [hnew]; exact hval)
  · simp only [h1, Bool.not_false, if_true, h2]
    cases promote <;> simp only at h3 ⊢ <;> subst h3 <;> (rw [hnew]; exact hval)

/-- `into_move` on a pawn capture with full destination, given the geometry -/
theorem pawnCapture_resolve (b : Board) (k kind0 : Kind) (s d : Sq) (promote : Option Piece)
    (hl : Legal b (mkMove b.r.side k .pawn s d))
    (hrank : d.rank ≠ promoteDstRank b.r.side.inv)
    (hk0 : (if some d = b.r.epDest then Kind.ep else Kind.simple) = kind0)
    (hguard : (kind0 ≠ .ep && (b.get d).isFree) = false)
    (hadd : (Sq.mk s.file d.rank).add? (-(forwardDelta b.r.side)) = some s)
    (hk : (match promote with | some p => promoteKind p | none => kind0) = k) :
    sanIntoMove (.pawnCapture s.file d promote) b = .ok (mkMove b.r.side k .pawn s d) := by
  have hnew := new?_wf _ _ _ _ hl.1
  have hval := validateInto_legal b _ hl
  unfold sanIntoMove
  simp only [hrank, if_false, hk0, hguard, Bool.false_eq_true, hadd]
  cases promote <;> simp only at hk ⊢ <;> subst hk <;> (rw [hnew]; exact hval)


/-- what `from_move` writes for a pawn move -/
def pawnData (mv : Move) : SanData :=
  if mv.src.file = mv.dst.file then .pawnMove mv.dst mv.kind.promote
  else .pawnCapture mv.src.file mv.dst mv.kind.promote

theorem promoteKind_of_promote (k : Kind) (p : Piece) (h : k.promote = some p) : promoteKind p = k := by
  cases k <;> simp [Kind.promote] at h <;> subst h <;> rfl

theorem isFree_of_color (x : Cell) (c : Color) (h : x.color = some c) : x.isFree = false := by
  revert h; revert x; cases c <;> decide

theorem sanData_pawn (b : Board) (c : Color) (k : Kind) (s d : Sq) (h0 : k ≠ .null) (h1 : k ≠ .castleK)
    (h2 : k ≠ .castleQ) (hd : k = .double → s.file = d.file) (he : k = .ep → s.file ≠ d.file) :
    sanDataFromMove (mkMove c k .pawn s d) b = .ok (pawnData (mkMove c k .pawn s d)) := by
  unfold sanDataFromMove pawnData
  simp only [mkMove, piece_mk]
  cases k <;> simp only [Kind.promote] <;> first
    | exact absurd rfl h0 | exact absurd rfl h1 | exact absurd rfl h2
    | (by_cases hf : s.file = d.file <;> simp_all)

/-- single pawn steps (push or capture, with or without promotion) -/
theorem pawn_step_roundtrip (b : Board) (hv : Valid b) (k : Kind) (s d : Sq)
    (hl : Legal b (mkMove b.r.side k .pawn s d))
    (hkk : (match k.promote with | some p => promoteKind p | none => Kind.simple) = k)
    (g1 : b.get s = Cell.mk b.r.side .pawn) (gs : rankStep b.r.side s d)
    (gd : (s.file = d.file ∧ b.get d = Cell.empty)
      ∨ (absDiff s.file.val d.file.val = 1 ∧ (b.get d).color = some b.r.side.inv)) :
    Agrees b (pawnData (mkMove b.r.side k .pawn s d)) (mkMove b.r.side k .pawn s d)
    ∧ sanIntoMove (pawnData (mkMove b.r.side k .pawn s d)) b = .ok (mkMove b.r.side k .pawn s d) := by
  have hne0 : (Cell.mk b.r.side .pawn).isOcc = true := by rw [isOcc_iff]; exact mk_ne_zero _ _
  obtain ⟨hadd, hrank⟩ := geo_step _ s d gs
  have hpo : PromoOK k.promote k := by
    unfold PromoOK
    cases hp : k.promote with
    | none => rfl
    | some p => exact (promoteKind_of_promote k p hp).symm
  by_cases hf : s.file = d.file
  · have hdata : pawnData (mkMove b.r.side k .pawn s d) = .pawnMove d k.promote := by
      unfold pawnData mkMove; simp only [hf, if_true]
    rw [hdata]
    refine ⟨⟨rfl, rfl, hf, hpo⟩, ?_⟩
    rw [hf, Sq.mk_file_rank] at hadd
    refine pawnMove_resolve b k s d s k.promote hl hrank hadd (Or.inl ⟨?_, rfl, hkk⟩)
    rw [g1]; exact hne0
  · have hdata : pawnData (mkMove b.r.side k .pawn s d) = .pawnCapture s.file d k.promote := by
      unfold pawnData mkMove; simp only [hf, if_false]
    rw [hdata]
    refine ⟨⟨rfl, rfl, rfl, hpo⟩, ?_⟩
    have hcol : (b.get d).color = some b.r.side.inv := by
      rcases gd with ⟨h, _⟩ | ⟨_, h⟩
      · exact absurd h hf
      · exact h
    have hk0 : (if some d = b.r.epDest then Kind.ep else Kind.simple) = Kind.simple := by
      rw [if_neg]
      intro h
      rw [epDest_free b hv d h, empty_color] at hcol
      cases hcol
    refine pawnCapture_resolve b k .simple s d k.promote hl hrank hk0 ?_ hadd hkk
    rw [isFree_of_color _ _ hcol]; rfl

/-- C09 (output, pawn moves): the data written for a legal pawn move agrees with the move and resolves back to it -/
theorem pawn_roundtrip (b : Board) (hv : Valid b) (k : Kind) (s d : Sq)
    (hl : Legal b (mkMove b.r.side k .pawn s d)) :
    sanDataFromMove (mkMove b.r.side k .pawn s d) b = .ok (pawnData (mkMove b.r.side k .pawn s d))
    ∧ Agrees b (pawnData (mkMove b.r.side k .pawn s d)) (mkMove b.r.side k .pawn s d)
    ∧ sanIntoMove (pawnData (mkMove b.r.side k .pawn s d)) b = .ok (mkMove b.r.side k .pawn s d) := by
  have hsl : SL b (mkMove b.r.side k .pawn s d) := ⟨hl.1, hl.2.1⟩
  have hknull : k ≠ .null := (semilegal_base b _ hl.2.1).1
  obtain ⟨_, color, piece, _, hpiece, hmatch, _⟩ := wf_facts _ hl.1 hknull
  have hpp : piece = .pawn := by
    have : (mkMove b.r.side k .pawn s d).cell.piece = some .pawn := piece_mk _ _
    rw [this] at hpiece; exact (Option.some.inj hpiece).symm
  subst hpp
  have hmatch' : k.matchesPiece .pawn = true := hmatch
  have hcK : k ≠ .castleK := by intro e; rw [e] at hmatch'; simp [Kind.matchesPiece] at hmatch'
  have hcQ : k ≠ .castleQ := by intro e; rw [e] at hmatch'; simp [Kind.matchesPiece] at hmatch'
  have promo_case : ∀ (hk : k = .promN ∨ k = .promB ∨ k = .promR ∨ k = .promQ),
      Agrees b (pawnData (mkMove b.r.side k .pawn s d)) (mkMove b.r.side k .pawn s d)
      ∧ sanIntoMove (pawnData (mkMove b.r.side k .pawn s d)) b = .ok (mkMove b.r.side k .pawn s d) := by
    intro hk
    obtain ⟨g1, g2, g3, gd⟩ := (sl_pawn_promo b k hk s d).mp hsl
    have hdiff : absDiff s.file.val d.file.val ≤ 1 := by
      rcases gd with ⟨h, _⟩ | ⟨h, _⟩
      · rw [h]; simp [absDiff]
      · omega
    have gs := (pg_promo b.r.side s d g2 hdiff).mp g3
    refine pawn_step_roundtrip b hv k s d hl ?_ g1 gs gd
    rcases hk with rfl | rfl | rfl | rfl <;> rfl
  cases k with
  | null => exact absurd rfl hknull
  | castleK => exact absurd rfl hcK
  | castleQ => exact absurd rfl hcQ
  | simple =>
    refine ⟨sanData_pawn b _ _ s d hknull hcK hcQ (fun h => by cases h) (fun h => by cases h), ?_⟩
    obtain ⟨g1, _, _, _, _, gs, gd⟩ := (sl_pawn_simple b s d).mp hsl
    exact pawn_step_roundtrip b hv .simple s d hl rfl g1 gs gd
  | promN =>
    exact ⟨sanData_pawn b _ _ s d hknull hcK hcQ (fun h => by cases h) (fun h => by cases h),
      promo_case (Or.inl rfl)⟩
  | promB =>
    exact ⟨sanData_pawn b _ _ s d hknull hcK hcQ (fun h => by cases h) (fun h => by cases h),
      promo_case (Or.inr (Or.inl rfl))⟩
  | promR =>
    exact ⟨sanData_pawn b _ _ s d hknull hcK hcQ (fun h => by cases h) (fun h => by cases h),
      promo_case (Or.inr (Or.inr (Or.inl rfl)))⟩
  | promQ =>
    exact ⟨sanData_pawn b _ _ s d hknull hcK hcQ (fun h => by cases h) (fun h => by cases h),
      promo_case (Or.inr (Or.inr (Or.inr rfl)))⟩
  | double =>
    obtain ⟨g1, g2, g3, g4, g5, g6⟩ := (sl_pawn_double b s d).mp hsl
    refine ⟨sanData_pawn b _ _ s d hknull hcK hcQ (fun _ => g2) (fun h => by cases h), ?_⟩
    have hdata : pawnData (mkMove b.r.side .double .pawn s d) = .pawnMove d none := by
      unfold pawnData mkMove; simp only [g2, if_true]; rfl
    rw [hdata]
    refine ⟨⟨rfl, rfl, g2, rfl⟩, ?_⟩
    obtain ⟨hrank, hadd⟩ := geo_double b.r.side s d g2 g3 g4
    refine pawnMove_resolve b .double s d _ none hl hrank hadd (Or.inr ⟨?_, ?_, rfl⟩)
    · rw [g5]; rfl
    · rw [← g2, ← g3, Sq.mk_file_rank]
  | ep =>
    obtain ⟨g1, g2, g3, g4, g5, p, hp, _, hd⟩ := (sl_pawn_ep b s d).mp hsl
    have hf := file_ne_of_diff g4
    refine ⟨sanData_pawn b _ _ s d hknull hcK hcQ (fun h => by cases h) (fun _ => hf), ?_⟩
    have hdata : pawnData (mkMove b.r.side .ep .pawn s d) = .pawnCapture s.file d none := by
      unfold pawnData mkMove; simp only [hf, if_false]; rfl
    rw [hdata]
    refine ⟨⟨rfl, rfl, rfl, rfl⟩, ?_⟩
    obtain ⟨hadd, hrank⟩ := geo_step _ s d (geo_ep _ s d g2 g3)
    have hk0 : (if some d = b.r.epDest then Kind.ep else Kind.simple) = Kind.ep := by
      rw [if_pos]; rw [epDest_eq b hv p hp, hd]
    exact pawnCapture_resolve b .ep .ep s d none hl hrank hk0 (by simp) hadd rfl


def castleKind : Side → Kind | .king => .castleK | .queen => .castleQ

/-- C09 (output, castling) -/
theorem castle_roundtrip (b : Board) (sd : Side) (s d : Sq)
    (hl : Legal b (mkMove b.r.side (castleKind sd) .king s d)) :
    sanDataFromMove (mkMove b.r.side (castleKind sd) .king s d) b = .ok (.castling sd)
    ∧ mkMove b.r.side (castleKind sd) .king s d = Move.fromCastling b.r.side sd
    ∧ sanIntoMove (.castling sd) b = .ok (mkMove b.r.side (castleKind sd) .king s d) := by
  have hsl : SL b (mkMove b.r.side (castleKind sd) .king s d) := ⟨hl.1, hl.2.1⟩
  have heq : mkMove b.r.side (castleKind sd) .king s d = Move.fromCastling b.r.side sd := by
    have h := (sl_castle b sd s d).mp (by cases sd <;> exact hsl)
    obtain ⟨e1, e2, _⟩ := h
    subst e1; subst e2
    cases sd <;> rfl
  refine ⟨?_, heq, ?_⟩
  · cases sd <;> rfl
  · have : sanIntoMove (.castling sd) b = validateInto b (Move.fromCastling b.r.side sd) := rfl
    rw [this, ← heq]
    exact validateInto_legal b _ hl

/-- C09 (output side, data level): for every legal move of a valid position `from_move` does not panic, the data it
writes agrees with the move, and `into_move` resolves that data back to the same move -/
theorem sanData_roundtrip (b : Board) (hv : Valid b) (mv : Move) (hl : Legal b mv) :
    ∃ d, sanDataFromMove mv b = .ok d ∧ Agrees b d mv ∧ sanIntoMove d b = .ok mv := by
  obtain ⟨piece, hc, hmatch, _⟩ := sl_normal b mv ⟨hl.1, hl.2.1⟩
  have hknull := (semilegal_base b mv hl.2.1).1
  obtain ⟨k, cell, s, d⟩ := mv
  simp only at hc hmatch hknull
  subst hc
  change Legal b (mkMove b.r.side k piece s d) at hl
  show ∃ dd, sanDataFromMove (mkMove b.r.side k piece s d) b = .ok dd ∧ Agrees b dd (mkMove b.r.side k piece s d)
    ∧ sanIntoMove dd b = .ok (mkMove b.r.side k piece s d)
  by_cases hp : piece = .pawn
  · subst hp
    exact ⟨_, pawn_roundtrip b hv k s d hl⟩
  · cases k with
    | null => exact absurd rfl hknull
    | simple =>
      obtain ⟨_, _, h1, h2, h3⟩ := piece_roundtrip b hv piece hp s d hl
      exact ⟨_, h1, h2, h3⟩
    | castleK =>
      have := matches_king hmatch (Or.inl rfl); subst this
      obtain ⟨h1, h2, h3⟩ := castle_roundtrip b .king s d hl
      exact ⟨_, h1, h2, h3⟩
    | castleQ =>
      have := matches_king hmatch (Or.inr rfl); subst this
      obtain ⟨h1, h2, h3⟩ := castle_roundtrip b .queen s d hl
      exact ⟨_, h1, h2, h3⟩
    | double => exact absurd (matches_pawn hmatch (Or.inl rfl)) hp
    | ep => exact absurd (matches_pawn hmatch (Or.inr (Or.inl rfl))) hp
    | promN => exact absurd (matches_pawn hmatch (Or.inr (Or.inr (Or.inl rfl)))) hp
    | promB => exact absurd (matches_pawn hmatch (Or.inr (Or.inr (Or.inr (Or.inl rfl))))) hp
    | promR => exact absurd (matches_pawn hmatch (Or.inr (Or.inr (Or.inr (Or.inr (Or.inl rfl)))))) hp
    | promQ => exact absurd (matches_pawn hmatch (Or.inr (Or.inr (Or.inr (Or.inr (Or.inr rfl)))))) hp


/-! ## 3. text level: `Display` then `FromStr` -/

theorem parseCoord_fmtCoord (v : Sq) : parseCoord (fmtCoord v) = .ok v := by revert v; decide
theorem fileOfByte_fileByte (f : Fin 8) : fileOfByte (fileByte f) = some f := by revert f; decide
theorem rankOfByte_rankByte (r : Fin 8) : rankOfByte (rankByte r) = some r := by revert r; decide
theorem isFileByte_fileByte (f : Fin 8) : isFileByte (fileByte f) = true := by revert f; decide
theorem isRankByte_rankByte (r : Fin 8) : isRankByte (rankByte r) = true := by revert r; decide
theorem isFileByte_rankByte (r : Fin 8) : isFileByte (rankByte r) = false := by revert r; decide
theorem fileByte_lt (f : Fin 8) : fileByte f < 128 := by revert f; decide
theorem rankByte_lt (r : Fin 8) : rankByte r < 128 := by revert r; decide
theorem pieceLetter_lt (p : Piece) : pieceLetter p < 128 := by cases p <;> decide

theorem charBoundary_ascii (s : Bytes) (h : ∀ b ∈ s, b < 128) (i : Nat) (hle : i ≤ s.length) :
    isCharBoundary s i = true := by
  unfold isCharBoundary
  cases hi : s[i]? with
  | none =>
    have : s.length ≤ i := by simpa using hi
    have : i = s.length := by omega
    simp [this]
  | some b =>
    have hb := h b (List.mem_of_getElem? hi)
    have : (decide (128 ≤ b) && decide (b < 192)) = false := by simp; omega
    simp [this]


theorem pieceOfLetter_letter (p : Piece) (hp : p ≠ .pawn) : pieceOfLetter (pieceLetter p) = some p := by
  cases p <;> first | exact absurd rfl hp | rfl

theorem parseCoord_err_of_first (L : Nat) (t : Bytes) (hL : fileOfByte L = none) :
    ∃ e, parseCoord (L :: t) = .error e := by
  match t with
  | [] => exact ⟨_, rfl⟩
  | [a] => unfold parseCoord; simp only [hL]; exact ⟨_, rfl⟩
  | a :: b :: t => exact ⟨_, rfl⟩

theorem parseUci_err_of_first (L : Nat) (rest : Bytes) (hL : fileOfByte L = none) (h0 : L ≠ 48) :
    ∃ e, parseUci (L :: rest) = .err e := by
  unfold parseUci
  have hne : ¬ (L :: rest = [48, 48, 48, 48]) := by
    intro h; injection h with h _; exact h0 h
  simp only [hne, if_false]
  split
  · exact ⟨_, rfl⟩
  · split
    · exact ⟨_, rfl⟩
    · rename_i srcTxt hs
      unfold strGet at hs
      split at hs
      · injection hs with hs
        subst hs
        simp only [List.drop_zero, Nat.sub_zero, List.take_succ_cons]
        obtain ⟨e, he⟩ := parseCoord_err_of_first L (List.take 1 rest) hL
        rw [he]
        exact ⟨_, rfl⟩
      · cases hs


theorem parseSanData_piece (piece : Piece) (hp : piece ≠ .pawn) (rest : Bytes) :
    parseSanData (pieceLetter piece :: rest) = parseSanPiece (pieceLetter piece :: rest) piece rest := by
  have hL : fileOfByte (pieceLetter piece) = none := by cases piece <;> rfl
  have h48 : pieceLetter piece ≠ 48 := by cases piece <;> decide
  have h79 : pieceLetter piece ≠ 79 := by cases piece <;> decide
  obtain ⟨e, he⟩ := parseUci_err_of_first _ rest hL h48
  unfold parseSanData
  simp only [List.cons.injEq, h48, h79, false_and, Bool.or_self, decide_false, Bool.false_eq_true, if_false,
    List.isEmpty_cons, he, pieceOfLetter_letter piece hp]

/-- the hint / capture part of a piece move's text -/
def hintBytes (file rank : Option (Fin 8)) (cap : Bool) : Bytes :=
  (match file with | some f => [fileByte f] | none => [])
    ++ (match rank with | some r => [rankByte r] | none => [])
    ++ (if cap then [120] else [])

theorem hintBytes_lt (file rank : Option (Fin 8)) (cap : Bool) : ∀ x ∈ hintBytes file rank cap, x < 128 := by
  intro x hx
  unfold hintBytes at hx
  simp only [List.mem_append] at hx
  rcases hx with (hx | hx) | hx
  · cases file with
    | none => cases hx
    | some f => simp only [List.mem_singleton] at hx; rw [hx]; exact fileByte_lt f
  · cases rank with
    | none => cases hx
    | some r => simp only [List.mem_singleton] at hx; rw [hx]; exact rankByte_lt r
  · cases cap
    · cases hx
    · simp only [if_true, List.mem_singleton] at hx; omega

theorem fmtCoord_lt (s : Sq) : ∀ x ∈ fmtCoord s, x < 128 := by
  intro x hx
  simp only [fmtCoord, List.mem_cons, List.not_mem_nil, or_false] at hx
  rcases hx with rfl | rfl
  · exact fileByte_lt _
  · exact rankByte_lt _

theorem hintBytes_length (file rank : Option (Fin 8)) (cap : Bool) : (hintBytes file rank cap).length ≤ 3 := by
  cases file <;> cases rank <;> cases cap <;> simp [hintBytes]

theorem parseSanPiece_fmt (piece : Piece) (file rank : Option (Fin 8)) (cap : Bool) (dst : Sq) :
    parseSanPiece (pieceLetter piece :: (hintBytes file rank cap ++ fmtCoord dst)) piece
      (hintBytes file rank cap ++ fmtCoord dst) = .ok (.simple piece file rank cap dst) := by
  have hlen : (hintBytes file rank cap ++ fmtCoord dst).length - 2 = (hintBytes file rank cap).length := by
    simp [fmtCoord]
  have hb : isCharBoundary (pieceLetter piece :: (hintBytes file rank cap ++ fmtCoord dst))
      ((hintBytes file rank cap).length + 1) = true := by
    apply charBoundary_ascii
    · intro x hx
      simp only [List.mem_cons, List.mem_append] at hx
      rcases hx with rfl | hx | hx
      · exact pieceLetter_lt _
      · exact hintBytes_lt _ _ _ x hx
      · exact fmtCoord_lt _ x hx
    · simp
  unfold parseSanPiece
  simp only [hlen, hb, Bool.not_true, Bool.false_eq_true, if_false, List.drop_left', List.take_left',
    parseCoord_fmtCoord]
  have h120f : isFileByte 120 = false := by decide
  have h120r : isRankByte 120 = false := by decide
  cases file <;> cases rank <;> cases cap <;>
    simp [hintBytes, isFileByte_fileByte, isRankByte_rankByte, isFileByte_rankByte, fileOfByte_fileByte,
      rankOfByte_rankByte, h120f, h120r]


/-- the promotion pieces `from_move` can write -/
def PromoPiece (p : Option Piece) : Prop :=
  p = none ∨ p = some .knight ∨ p = some .bishop ∨ p = some .rook ∨ p = some .queen

theorem pawnMove_reparse (dst : Sq) (p : Option Piece) (hp : PromoPiece p) :
    parseSanData (fmtCoord dst ++ fmtPromote p) = .ok (.pawnMove dst p) := by
  rcases hp with rfl | rfl | rfl | rfl | rfl <;> revert dst <;> decide +kernel

theorem pawnCapture_reparse (f : Fin 8) (dst : Sq) (p : Option Piece) (hp : PromoPiece p) :
    parseSanData ([fileByte f, 120] ++ fmtCoord dst ++ fmtPromote p) = .ok (.pawnCapture f dst p) := by
  rcases hp with rfl | rfl | rfl | rfl | rfl <;> revert f dst <;> decide +kernel

theorem pawnCaptureShort_reparse (f g : Fin 8) (p : Option Piece) (hp : PromoPiece p) :
    parseSanData ([fileByte f, fileByte g] ++ fmtPromote p) = .ok (.pawnCaptureShort f g p) := by
  rcases hp with rfl | rfl | rfl | rfl | rfl <;> revert f g <;> decide +kernel


/-- the SAN data `from_move` can write (plus the files-only pawn capture) -/
def Printable : SanData → Prop
  | .uci _ => False
  | .castling _ => True
  | .pawnMove _ p => PromoPiece p
  | .pawnCapture _ _ p => PromoPiece p
  | .pawnCaptureShort _ _ p => PromoPiece p
  | .simple piece _ _ _ _ => piece ≠ .pawn

theorem promoPiece_promote (k : Kind) : PromoPiece k.promote := by
  cases k <;> simp [PromoPiece, Kind.promote]

theorem pieceLetter_last (p : Piece) : pieceLetter p ≠ 35 ∧ pieceLetter p ≠ 120 ∧ pieceLetter p ≠ 43 := by
  cases p <;> decide
theorem rankByte_last (r : Fin 8) : rankByte r ≠ 35 ∧ rankByte r ≠ 120 ∧ rankByte r ≠ 43 := by
  revert r; decide

theorem fmtPromote_last (t : Bytes) (r : Fin 8) (p : Option Piece) :
    ∃ x, (t ++ [rankByte r] ++ fmtPromote p).getLast? = some x ∧ x ≠ 35 ∧ x ≠ 120 ∧ x ≠ 43 := by
  cases p with
  | none => exact ⟨rankByte r, by simp [fmtPromote], rankByte_last r⟩
  | some q => exact ⟨pieceLetter q, by simp [fmtPromote], pieceLetter_last q⟩

/-- C09 (text, data part): printable SAN data is written without failure, parses back to the same data, and its text
does not end in a byte the check-mark reader would strip -/
theorem sanData_reparse (d : SanData) (hd : Printable d) :
    ∃ t, fmtSanData d = .ok t ∧ parseSanData t = .ok d
      ∧ ∃ x, t.getLast? = some x ∧ x ≠ 35 ∧ x ≠ 120 ∧ x ≠ 43 := by
  cases d with
  | uci u => exact absurd hd id
  | castling sd => cases sd <;> exact ⟨_, rfl, by decide, _, rfl, by decide⟩
  | pawnMove dst p =>
    refine ⟨_, rfl, pawnMove_reparse dst p hd, ?_⟩
    have := fmtPromote_last [fileByte dst.file] dst.rank p
    simpa [fmtCoord] using this
  | pawnCapture f dst p =>
    refine ⟨_, rfl, pawnCapture_reparse f dst p hd, ?_⟩
    have := fmtPromote_last [fileByte f, 120, fileByte dst.file] dst.rank p
    simpa [fmtCoord] using this
  | pawnCaptureShort f g p =>
    refine ⟨_, rfl, pawnCaptureShort_reparse f g p hd, ?_⟩
    cases p with
    | none => exact ⟨fileByte g, rfl, by clear hd; revert g; decide⟩
    | some q => exact ⟨pieceLetter q, rfl, pieceLetter_last q⟩
  | simple piece file rank cap dst =>
    have hp : piece ≠ .pawn := hd
    have ht : fmtSanData (.simple piece file rank cap dst) =
        .ok (pieceLetter piece :: (hintBytes file rank cap ++ fmtCoord dst)) := by
      unfold fmtSanData hintBytes
      simp only [hp, if_false, List.append_assoc, List.cons_append, List.nil_append]
      cases file <;> cases rank <;> rfl
    refine ⟨_, ht, ?_, rankByte dst.rank, ?_, rankByte_last _⟩
    · rw [parseSanData_piece piece hp, parseSanPiece_fmt]
    · have : pieceLetter piece :: (hintBytes file rank cap ++ fmtCoord dst) =
          (pieceLetter piece :: (hintBytes file rank cap ++ [fileByte dst.file])) ++ [rankByte dst.rank] := by
        simp [fmtCoord]
      rw [this, List.getLast?_concat]


/-- the check-mark suffix `Display` writes -/
def markBytes : Option CheckMark → Bytes
  | some .single => [43] | some .double => [43, 43] | some .checkmate => [35] | none => []

theorem fmtSan_eq (d : SanData) (chk : Option CheckMark) (t : Bytes) (h : fmtSanData d = .ok t) :
    fmtSan ⟨d, chk⟩ = .ok (t ++ markBytes chk) := by
  unfold fmtSan
  simp only [h]
  cases chk with
  | none => rfl
  | some c => cases c <;> rfl

theorem parseSan_mark (body : Bytes) (d : SanData) (x : Nat) (hx : body.getLast? = some x)
    (h35 : x ≠ 35) (h120 : x ≠ 120) (h43 : x ≠ 43) (hp : parseSanData body = .ok d) (chk : Option CheckMark) :
    parseSan (body ++ markBytes chk) = .ok ⟨d, chk⟩ := by
  have hx' : ¬ (body.getLast? = some 43) := by rw [hx]; intro h; injection h with h; exact h43 h
  unfold parseSan
  cases chk with
  | none =>
    simp only [markBytes, List.append_nil, hx, h35, h120, h43, decide_false, Bool.or_self, Bool.false_eq_true,
      if_false, hp]
  | some c =>
    cases c with
    | single =>
      simp only [markBytes, List.getLast?_concat, List.dropLast_concat, hx', if_false]
      simp [hp]
    | double =>
      have e : body ++ [43, 43] = (body ++ [43]) ++ [43] := by simp
      simp only [markBytes, e, List.getLast?_concat, List.dropLast_concat, if_true]
      simp [hp]
    | checkmate =>
      simp only [markBytes, List.getLast?_concat, List.dropLast_concat]
      simp [hp]

/-- C09 (text): a printable SAN move is written without failure and parses back to itself, check mark included -/
theorem san_text_reparse (d : SanData) (hd : Printable d) (chk : Option CheckMark) :
    ∃ t, fmtSan ⟨d, chk⟩ = .ok t ∧ parseSan t = .ok ⟨d, chk⟩ := by
  obtain ⟨t, h1, h2, x, hx, a, b, c⟩ := sanData_reparse d hd
  exact ⟨_, fmtSan_eq d chk t h1, parseSan_mark t d x hx a b c h2 chk⟩

/-- everything `from_move` writes is printable (the null move is written as the UCI null move) -/
theorem sanDataFromMove_printable (mv : Move) (b : Board) (d : SanData) (h : sanDataFromMove mv b = .ok d) :
    mv.kind = .null ∨ Printable d := by
  unfold sanDataFromMove at h
  split at h
  · left; assumption
  · right; cases h; exact promoPiece_promote .double
  · right; cases h; exact promoPiece_promote .double
  · right; cases h; trivial
  · right; cases h; trivial
  · right
    split at h
    · cases h
    · split at h <;> cases h <;> exact promoPiece_promote _
    · rename_i hne _
      split at h
      · cases h
      · cases h
        intro e; subst e
        exact hne rfl


/-! ## 4. the full round trip -/

/-- the check mark `from_move` attaches, in rule terms (position after the move) -/
def markOf (p : Spec.Pos) : Option CheckMark :=
  if Spec.inCheck p p.side then (if (Spec.legalMoves p).isEmpty then some .checkmate else some .single) else none

/-- `san::Move::from_move` on a legal move: no failure; the data of `Data::from_move`; `+` iff the opponent is in check
and has a legal move, `#` iff in check without a legal move, nothing otherwise -/
theorem sanFromMove_spec (b : Board) (hv : Valid b) (mv : Move) (hl : Legal b mv) :
    ∃ d, sanDataFromMove mv b = .ok d ∧ Printable d ∧ Agrees b d mv ∧ sanIntoMove d b = .ok mv
      ∧ Valid (makeMove b mv).1
      ∧ sanFromMove mv b = .ok ⟨d, markOf (abs (makeMove b mv).1.r)⟩ := by
  obtain ⟨d, h1, h2, h3⟩ := sanData_roundtrip b hv mv hl
  have hpr : Printable d := by
    rcases sanDataFromMove_printable mv b d h1 with h | h
    · exact absurd h (semilegal_base b mv hl.2.1).1
    · exact h
  have hmk : makeMoveChecked b mv = .ok (makeMove b mv).1 :=
    (C02.make_checked_iff b mv hv hl.1 _).mpr ⟨hl.2.1, hl.2.2, rfl⟩
  have hv' : Valid (makeMove b mv).1 := (C02.make_checked_valid b mv hv hl.1 _ hmk).1
  refine ⟨d, h1, hpr, h2, h3, hv', ?_⟩
  obtain ⟨l, hl1, hl2⟩ := C07.hasLegalMoves_spec _ hv'
  have hemp := C07.legal_empty_iff _ hv' l hl1
  unfold sanFromMove
  simp only [h1, hmk, C07.isCheck_spec _ hv', hl2, hemp]
  unfold markOf
  rw [abs_side]
  cases Spec.inCheck (abs (makeMove b mv).1.r) (makeMove b mv).1.r.side <;>
    cases (Spec.legalMoves (abs (makeMove b mv).1.r)).isEmpty <;> rfl

/-- C09 (output side, full round trip): for every legal move of a valid position the SAN move is produced without
failure, its text is written without failure, the text parses back to the same SAN move (data and check mark), and
resolving the text in the same position returns the same move -/
theorem san_text_roundtrip (b : Board) (hv : Valid b) (mv : Move) (hl : Legal b mv) :
    ∃ sm t, sanFromMove mv b = .ok sm ∧ sanDataFromMove mv b = .ok sm.data ∧ fmtSan sm = .ok t
      ∧ parseSan t = .ok sm ∧ moveFromSan t b = .ok mv := by
  obtain ⟨d, h1, hpr, _, h3, _, h4⟩ := sanFromMove_spec b hv mv hl
  obtain ⟨t, f1, f2⟩ := san_text_reparse d hpr (markOf (abs (makeMove b mv).1.r))
  refine ⟨_, t, h4, h1, f1, f2, ?_⟩
  unfold moveFromSan
  simp only [f2, h3]

/-- C09 (distinct texts): two legal moves of one position that get the same text are the same move -/
theorem san_text_injective (b : Board) (hv : Valid b) (mv1 mv2 : Move) (hl1 : Legal b mv1) (hl2 : Legal b mv2)
    (sm1 sm2 : SanMove) (t : Bytes) (h1 : sanFromMove mv1 b = .ok sm1) (h2 : sanFromMove mv2 b = .ok sm2)
    (f1 : fmtSan sm1 = .ok t) (f2 : fmtSan sm2 = .ok t) : mv1 = mv2 := by
  obtain ⟨sm1', t1, a1, _, a2, _, a3⟩ := san_text_roundtrip b hv mv1 hl1
  obtain ⟨sm2', t2, b1, _, b2, _, b3⟩ := san_text_roundtrip b hv mv2 hl2
  rw [h1] at a1; cases a1
  rw [h2] at b1; cases b1
  rw [f1] at a2; cases a2
  rw [f2] at b2; cases b2
  rw [a3] at b3; cases b3
  rfl


/-! ## 5. the text is standard algebraic notation (`Spec.San.write`) -/

/-- the rules' legal moves are exactly the moves the checked API accepts -/
theorem legal_iff_spec (b : Board) (hv : Valid b) (o : Spec.Move) :
    o ∈ Spec.legalMoves (abs b.r) ↔ Legal b (concMove o) := by
  obtain ⟨l, h1, _, h3⟩ := C01.legalGen_eq_rules b hv
  obtain ⟨l', g1, _, g3⟩ := C01.legalGen_spec b hv .all
  rw [h1] at g1; cases g1
  rw [h3, g3]
  constructor
  · intro ⟨a, b', _, c⟩; exact ⟨a, b', c⟩
  · intro ⟨a, b', c⟩; exact ⟨a, b', C06.inClass_all b _ (semilegal_base b _ b').1, c⟩


/-- the other legal moves of the same man to the same destination -/
def specOthers (p : Spec.Pos) (m : Spec.Move) : List Spec.Move :=
  (Spec.legalMoves p).filter fun o => o ≠ m ∧ o.man = m.man ∧ o.dst = m.dst

/-- the origin hint of standard notation: nothing, the file, the rank, or both — the first that tells the move apart
from all the others -/
def specDis (p : Spec.Pos) (m : Spec.Move) : Bytes :=
  if (specOthers p m).isEmpty then []
  else if (specOthers p m).all (fun o => Spec.file o.src ≠ Spec.file m.src) then [97 + Spec.file m.src]
  else if (specOthers p m).all (fun o => Spec.rank o.src ≠ Spec.rank m.src) then [56 - Spec.rank m.src]
  else Spec.sqText m.src

/-- the body (without check mark) of `Spec.San.write` -/
def specBody (p : Spec.Pos) (m : Spec.Move) : Bytes :=
  match m.kind with
  | .castleK => [79, 45, 79]
  | .castleQ => [79, 45, 79, 45, 79]
  | _ =>
    if m.man.piece = .pawn then
      (if Spec.isCapture p m then [97 + Spec.file m.src, 120] else []) ++ Spec.sqText m.dst
        ++ (match m.kind.promote with | some pc => [61, Spec.pieceLetter pc] | none => [])
    else
      [Spec.pieceLetter m.man.piece] ++ specDis p m ++ (if Spec.isCapture p m then [120] else []) ++ Spec.sqText m.dst

/-- `Spec.San.write` = body ++ check mark -/
theorem write_eq (p : Spec.Pos) (m : Spec.Move) :
    Spec.San.write p m = specBody p m ++ markBytes (markOf (Spec.apply p m)) := by
  have hmark : (if Spec.inCheck (Spec.apply p m) (Spec.apply p m).side = true then
      (if (Spec.legalMoves (Spec.apply p m)).isEmpty = true then [35] else [43]) else ([] : Bytes))
      = markBytes (markOf (Spec.apply p m)) := by
    unfold markOf markBytes
    cases Spec.inCheck (Spec.apply p m) (Spec.apply p m).side <;>
      cases (Spec.legalMoves (Spec.apply p m)).isEmpty <;> rfl
  unfold Spec.San.write Spec.San.writeWith
  simp only [Bool.false_eq_true, if_false, hmark]
  congr 1


theorem isSome_get_abs (b : Board) (t : Sq) : ((abs b.r).get t).isSome = (b.get t).isOcc := by
  rw [get_abs, isSome_absCell]
  show _ = (b.r.get t).isOcc
  generalize b.r.get t = x
  revert x; decide

theorem isCapture_get (b : Board) (m : Spec.Move) (h1 : m.kind ≠ .ep) (h2 : m.kind ≠ .castleK)
    (h3 : m.kind ≠ .castleQ) (h4 : m.kind ≠ .null) :
    Spec.isCapture (abs b.r) m = (b.get m.dst).isOcc := by
  unfold Spec.isCapture Spec.capturedSq
  rw [← isSome_get_abs]
  cases hk : m.kind <;> first
    | exact absurd hk h1 | exact absurd hk h2 | exact absurd hk h3 | exact absurd hk h4
    | (simp only []; cases ((abs b.r).get m.dst).isSome <;> rfl)

theorem isCapture_ep (b : Board) (m : Spec.Move) (h : m.kind = .ep) :
    Spec.isCapture (abs b.r) m = b.r.ep.isSome := by
  unfold Spec.isCapture Spec.capturedSq
  rw [h]; rfl


theorem isOcc_of_color (x : Cell) (c : Color) (h : x.color = some c) : x.isOcc = true := by
  revert h; revert x; cases c <;> decide

theorem pawn_kinds (b : Board) (k : Kind) (s d : Sq) (hl : Legal b (mkMove b.r.side k .pawn s d)) :
    k ≠ .null ∧ k ≠ .castleK ∧ k ≠ .castleQ := by
  have hknull : k ≠ .null := (semilegal_base b _ hl.2.1).1
  obtain ⟨_, color, piece, _, hpiece, hmatch, _⟩ := wf_facts _ hl.1 hknull
  have hpp : piece = .pawn := by
    have : (mkMove b.r.side k .pawn s d).cell.piece = some .pawn := piece_mk _ _
    rw [this] at hpiece; exact (Option.some.inj hpiece).symm
  subst hpp
  have hmatch' : k.matchesPiece .pawn = true := hmatch
  refine ⟨hknull, ?_, ?_⟩ <;> (intro e; rw [e] at hmatch'; simp [Kind.matchesPiece] at hmatch')

/-- a legal pawn move captures iff it changes file -/
theorem pawn_isCapture (b : Board) (k : Kind) (s d : Sq)
    (hl : Legal b (mkMove b.r.side k .pawn s d)) :
    Spec.isCapture (abs b.r) ⟨k, ⟨b.r.side, .pawn⟩, s, d⟩ = !decide (s.file = d.file) := by
  have hsl : SL b (mkMove b.r.side k .pawn s d) := ⟨hl.1, hl.2.1⟩
  obtain ⟨h0, hK, hQ⟩ := pawn_kinds b k s d hl
  have step : k ≠ .ep → ((s.file = d.file ∧ b.get d = Cell.empty)
      ∨ (absDiff s.file.val d.file.val = 1 ∧ (b.get d).color = some b.r.side.inv)) →
      Spec.isCapture (abs b.r) ⟨k, ⟨b.r.side, .pawn⟩, s, d⟩ = !decide (s.file = d.file) := by
    intro hne gd
    rw [isCapture_get b _ hne hK hQ h0]
    rcases gd with ⟨h1, h2⟩ | ⟨h1, h2⟩
    · show (b.get d).isOcc = _
      rw [h2]; simp [h1]; rfl
    · show (b.get d).isOcc = _
      rw [isOcc_of_color _ _ h2]; simp [file_ne_of_diff h1]
  cases k with
  | null => exact absurd rfl h0
  | castleK => exact absurd rfl hK
  | castleQ => exact absurd rfl hQ
  | simple => exact step (by decide) ((sl_pawn_simple b s d).mp hsl).2.2.2.2.2.2
  | promN => exact step (by decide) ((sl_pawn_promo b _ (Or.inl rfl) s d).mp hsl).2.2.2
  | promB => exact step (by decide) ((sl_pawn_promo b _ (Or.inr (Or.inl rfl)) s d).mp hsl).2.2.2
  | promR => exact step (by decide) ((sl_pawn_promo b _ (Or.inr (Or.inr (Or.inl rfl))) s d).mp hsl).2.2.2
  | promQ => exact step (by decide) ((sl_pawn_promo b _ (Or.inr (Or.inr (Or.inr rfl))) s d).mp hsl).2.2.2
  | double =>
    obtain ⟨_, g2, _, _, _, g6⟩ := (sl_pawn_double b s d).mp hsl
    exact step (by decide) (Or.inl ⟨g2, g6⟩)
  | ep =>
    obtain ⟨_, _, _, g4, _, p, hp, _⟩ := (sl_pawn_ep b s d).mp hsl
    rw [isCapture_ep b _ rfl, hp]
    simp [file_ne_of_diff g4]

theorem pieceLetter_eq (p : Piece) : Spec.pieceLetter p = pieceLetter p := by cases p <;> rfl
theorem sqText_eq (s : Sq) : Spec.sqText s = fmtCoord s := rfl

/-- C09 (standard notation, pawn moves): destination, `x` with the origin file iff the move captures, `=` and the
piece letter iff it promotes -/
theorem pawn_body (b : Board) (k : Kind) (s d : Sq)
    (hl : Legal b (mkMove b.r.side k .pawn s d)) :
    fmtSanData (pawnData (mkMove b.r.side k .pawn s d)) = .ok (specBody (abs b.r) ⟨k, ⟨b.r.side, .pawn⟩, s, d⟩) := by
  have hcap := pawn_isCapture b k s d hl
  obtain ⟨h0, hK, hQ⟩ := pawn_kinds b k s d hl
  have hprom : fmtPromote k.promote = (match k.promote with | some pc => [61, Spec.pieceLetter pc] | none => []) := by
    cases k <;> rfl
  have hbody : specBody (abs b.r) ⟨k, ⟨b.r.side, .pawn⟩, s, d⟩ =
      (if Spec.isCapture (abs b.r) ⟨k, ⟨b.r.side, .pawn⟩, s, d⟩ then [fileByte s.file, 120] else []) ++ fmtCoord d
        ++ fmtPromote k.promote := by
    rw [hprom]
    unfold specBody
    cases k <;> first | exact absurd rfl hK | exact absurd rfl hQ | rfl
  rw [hbody, hcap]
  unfold pawnData
  by_cases hf : s.file = d.file
  · simp [mkMove, hf, fmtSanData]
  · simp [mkMove, hf, fmtSanData]


theorem king_e_not_g (c : Color) :
    (kingAttack (Sq.mk fileE (castlingRank c))).has (Sq.mk fileG (castlingRank c)) = false
    ∧ (kingAttack (Sq.mk fileE (castlingRank c))).has (Sq.mk fileC (castlingRank c)) = false := by
  cases c <;> decide

/-- a castling move and a simple king move never share the destination -/
theorem castle_vs_king (b : Board) (hv : Valid b) (sd : Side) (so s dst : Sq)
    (h1 : SL b (mkMove b.r.side (castleKind sd) .king so dst))
    (h2 : SL b (mkMove b.r.side .simple .king s dst)) : False := by
  obtain ⟨e1, e2, e3, _⟩ := (sl_castle b sd so dst).mp (by cases sd <;> exact h1)
  obtain ⟨g1, g2, _⟩ := (sl_piece b .king (by decide) s dst).mp h2
  obtain ⟨k, _, hku⟩ := hv.checks.king b.r.side
  have hs : s = so := (hku s g1).trans (hku so e3).symm
  rw [hs, e1, e2] at g2
  simp only [pieceAttack] at g2
  cases sd
  · rw [(king_e_not_g b.r.side).2] at g2; cases g2
  · rw [(king_e_not_g b.r.side).1] at g2; cases g2

/-- a legal move of the same (non-pawn) man to the same destination as a legal simple move is a simple move -/
theorem other_kind_simple (b : Board) (hv : Valid b) (piece : Piece) (hp : piece ≠ .pawn) (ko : Kind) (so s dst : Sq)
    (h1 : Legal b (mkMove b.r.side ko piece so dst)) (h2 : Legal b (mkMove b.r.side .simple piece s dst)) :
    ko = .simple := by
  by_cases hk : piece = .king
  · subst hk
    have hknull : ko ≠ .null := (semilegal_base b _ h1.2.1).1
    obtain ⟨_, color, piece', _, hpiece, hmatch, _⟩ := wf_facts _ h1.1 hknull
    have hpp : piece' = .king := by
      have : (mkMove b.r.side ko .king so dst).cell.piece = some .king := piece_mk _ _
      rw [this] at hpiece; exact (Option.some.inj hpiece).symm
    subst hpp
    have hmatch' : ko.matchesPiece .king = true := hmatch
    cases ko <;> first
      | rfl
      | exact absurd rfl hknull
      | (exfalso; exact castle_vs_king b hv .king so s dst ⟨h1.1, h1.2.1⟩ ⟨h2.1, h2.2.1⟩)
      | (exfalso; exact castle_vs_king b hv .queen so s dst ⟨h1.1, h1.2.1⟩ ⟨h2.1, h2.2.1⟩)
      | (simp [Kind.matchesPiece] at hmatch')
  · exact kind_simple_of_piece _ h1.1 b.r.side piece rfl hp hk

/-- the "other" moves of the rules (same man, same destination, legal, different) are exactly the other SAN
candidates -/
theorem others_bridge (b : Board) (hv : Valid b) (piece : Piece) (hp : piece ≠ .pawn) (s dst : Sq)
    (hl : Legal b (mkMove b.r.side .simple piece s dst)) (cands : List Move)
    (hc : sanCandidates? b piece dst = some cands) (q : Sq → Bool) :
    (specOthers (abs b.r) ⟨.simple, ⟨b.r.side, piece⟩, s, dst⟩).any (fun o => q o.src)
      = cands.any (fun m' => decide (m' ≠ mkMove b.r.side .simple piece s dst) && q m'.src) := by
  obtain ⟨_, hmem⟩ := sanCandidates_sound b hv piece hp dst cands hc
  rw [Bool.eq_iff_iff, List.any_eq_true, List.any_eq_true]
  unfold specOthers
  constructor
  · rintro ⟨o, ho, hq⟩
    rw [List.mem_filter, legal_iff_spec b hv] at ho
    obtain ⟨holeg, hpred⟩ := ho
    simp only [decide_eq_true_eq] at hpred
    obtain ⟨hne, hman, hdst⟩ := hpred
    obtain ⟨ko, mano, so, d'⟩ := o
    simp only at hman hdst hq
    subst hman; subst hdst
    have holeg' : Legal b (mkMove b.r.side ko piece so d') := holeg
    have hko := other_kind_simple b hv piece hp ko so s d' holeg' hl
    subst hko
    refine ⟨mkMove b.r.side .simple piece so d', (hmem _).mpr ⟨⟨so, rfl⟩, holeg'⟩, ?_⟩
    rw [Bool.and_eq_true]
    refine ⟨?_, hq⟩
    simp only [decide_eq_true_eq]
    intro e
    apply hne
    have := (mkMove_inj e).2.2.1
    rw [this]
  · rintro ⟨m', hm', hq⟩
    obtain ⟨⟨s', rfl⟩, hleg'⟩ := (hmem m').mp hm'
    rw [Bool.and_eq_true] at hq
    obtain ⟨hne, hq⟩ := hq
    simp only [decide_eq_true_eq] at hne
    refine ⟨⟨.simple, ⟨b.r.side, piece⟩, s', dst⟩, ?_, hq⟩
    rw [List.mem_filter, legal_iff_spec b hv]
    refine ⟨hleg', ?_⟩
    simp only [decide_eq_true_eq, and_true]
    intro e
    apply hne
    injection e with _ _ e3 _
    rw [e3]


theorem isEmpty_eq_not_any {α : Type} (l : List α) : l.isEmpty = !l.any (fun _ => true) := by
  cases l <;> rfl

theorem file_eq_iff (x s : Sq) : (Spec.file x = Spec.file s) ↔ (s.file = x.file) := by
  constructor
  · intro h; exact Fin.ext h.symm
  · intro h; exact (congrArg Fin.val h).symm

theorem rank_eq_iff (x s : Sq) : (Spec.rank x = Spec.rank s) ↔ (s.rank = x.rank) := by
  constructor
  · intro h; exact Fin.ext h.symm
  · intro h; exact (congrArg Fin.val h).symm

/-- C09 (standard notation, disambiguation): the origin hints `from_move` writes are those of the rules — nothing if no
other legal move of the same man goes to the same square, else the file if it differs from all of them, else the rank
if it differs from all of them, else both -/
theorem piece_dis (b : Board) (hv : Valid b) (piece : Piece) (hp : piece ≠ .pawn) (s dst : Sq)
    (hl : Legal b (mkMove b.r.side .simple piece s dst)) (cands : List Move)
    (hc : sanCandidates? b piece dst = some cands) :
    (match hintFile (mkMove b.r.side .simple piece s dst)
        (cands.foldl (detectorPush (mkMove b.r.side .simple piece s dst)) {}) with
      | some f => [fileByte f] | none => [])
    ++ (match hintRank (mkMove b.r.side .simple piece s dst)
        (cands.foldl (detectorPush (mkMove b.r.side .simple piece s dst)) {}) with
      | some r => [rankByte r] | none => [])
    = specDis (abs b.r) ⟨.simple, ⟨b.r.side, piece⟩, s, dst⟩ := by
  obtain ⟨d1, d2, d3⟩ := detector_fold (mkMove b.r.side .simple piece s dst) cands {}
  simp only [Bool.false_or] at d1 d2 d3
  have hd : specDis (abs b.r) ⟨.simple, ⟨b.r.side, piece⟩, s, dst⟩ =
      if (specOthers (abs b.r) ⟨.simple, ⟨b.r.side, piece⟩, s, dst⟩).isEmpty then []
      else if (specOthers (abs b.r) ⟨.simple, ⟨b.r.side, piece⟩, s, dst⟩).all
          (fun o => decide (Spec.file o.src ≠ Spec.file s)) then [97 + Spec.file s]
      else if (specOthers (abs b.r) ⟨.simple, ⟨b.r.side, piece⟩, s, dst⟩).all
          (fun o => decide (Spec.rank o.src ≠ Spec.rank s)) then [56 - Spec.rank s]
      else Spec.sqText s := by
    unfold specDis; rfl
  have h1 : (specOthers (abs b.r) ⟨.simple, ⟨b.r.side, piece⟩, s, dst⟩).isEmpty =
      !(cands.foldl (detectorPush (mkMove b.r.side .simple piece s dst)) {}).simAny := by
    rw [isEmpty_eq_not_any, others_bridge b hv piece hp s dst hl cands hc (fun _ => true), d1]
    simp only [Bool.and_true]
  have hf : (fun o : Spec.Move => !decide (Spec.file o.src ≠ Spec.file s)) =
      (fun o => decide (s.file = o.src.file)) := by
    funext o
    simp only [ne_eq, decide_not, Bool.not_not]
    exact decide_eq_decide.mpr (file_eq_iff _ _)
  have hr : (fun o : Spec.Move => !decide (Spec.rank o.src ≠ Spec.rank s)) =
      (fun o => decide (s.rank = o.src.rank)) := by
    funext o
    simp only [ne_eq, decide_not, Bool.not_not]
    exact decide_eq_decide.mpr (rank_eq_iff _ _)
  have h2 : (specOthers (abs b.r) ⟨.simple, ⟨b.r.side, piece⟩, s, dst⟩).all
        (fun o => decide (Spec.file o.src ≠ Spec.file s)) =
      !(cands.foldl (detectorPush (mkMove b.r.side .simple piece s dst)) {}).simFile := by
    rw [List.all_eq_not_any_not, d2, hf,
      others_bridge b hv piece hp s dst hl cands hc (fun x => decide (s.file = x.file))]
    rfl
  have h3 : (specOthers (abs b.r) ⟨.simple, ⟨b.r.side, piece⟩, s, dst⟩).all
        (fun o => decide (Spec.rank o.src ≠ Spec.rank s)) =
      !(cands.foldl (detectorPush (mkMove b.r.side .simple piece s dst)) {}).simRank := by
    rw [List.all_eq_not_any_not, d3, hr,
      others_bridge b hv piece hp s dst hl cands hc (fun x => decide (s.rank = x.rank))]
    rfl
  rw [hd, h1, h2, h3]
  generalize (cands.foldl (detectorPush (mkMove b.r.side .simple piece s dst)) {}) = D
  obtain ⟨a, f, r⟩ := D
  cases a <;> cases f <;> cases r <;> rfl


/-- C09 (standard notation, piece moves): piece letter, origin hint of the rules, `x` iff the destination is occupied,
destination -/
theorem piece_body (b : Board) (hv : Valid b) (piece : Piece) (hp : piece ≠ .pawn) (s dst : Sq)
    (hl : Legal b (mkMove b.r.side .simple piece s dst)) (cands : List Move)
    (hc : sanCandidates? b piece dst = some cands) :
    fmtSanData (.simple piece
      (hintFile (mkMove b.r.side .simple piece s dst)
        (cands.foldl (detectorPush (mkMove b.r.side .simple piece s dst)) {}))
      (hintRank (mkMove b.r.side .simple piece s dst)
        (cands.foldl (detectorPush (mkMove b.r.side .simple piece s dst)) {}))
      (b.get dst).isOcc dst) = .ok (specBody (abs b.r) ⟨.simple, ⟨b.r.side, piece⟩, s, dst⟩) := by
  have hcap : Spec.isCapture (abs b.r) ⟨.simple, ⟨b.r.side, piece⟩, s, dst⟩ = (b.get dst).isOcc :=
    isCapture_get b _ (by simp) (by simp) (by simp) (by simp)
  have hb : specBody (abs b.r) ⟨.simple, ⟨b.r.side, piece⟩, s, dst⟩ =
      [pieceLetter piece] ++ specDis (abs b.r) ⟨.simple, ⟨b.r.side, piece⟩, s, dst⟩
        ++ (if (b.get dst).isOcc then [120] else []) ++ fmtCoord dst := by
    unfold specBody
    simp only [hp, if_false, hcap, pieceLetter_eq]
    rfl
  rw [hb, ← piece_dis b hv piece hp s dst hl cands hc]
  unfold fmtSanData
  simp only [hp, if_false, List.append_assoc]
  generalize hintFile _ _ = F
  generalize hintRank _ _ = R
  cases F <;> cases R <;> rfl


/-- C09 (standard notation, body): the data `from_move` writes for a legal move prints as the rules' notation of that
move (without the check mark) -/
theorem san_body_standard (b : Board) (hv : Valid b) (sm : Spec.Move) (hl : Legal b (concMove sm)) (d : SanData)
    (hd : sanDataFromMove (concMove sm) b = .ok d) : fmtSanData d = .ok (specBody (abs b.r) sm) := by
  have hcol := sl_color b sm hl.2.1
  obtain ⟨k, ⟨c, piece⟩, s, dst⟩ := sm
  simp only at hcol
  subst hcol
  have hl' : Legal b (mkMove b.r.side k piece s dst) := hl
  have hd' : sanDataFromMove (mkMove b.r.side k piece s dst) b = .ok d := hd
  have hknull : k ≠ .null := (semilegal_base b _ hl'.2.1).1
  obtain ⟨_, color, piece', _, hpiece, hmatch, _⟩ := wf_facts _ hl'.1 hknull
  have hpp : piece' = piece := by
    have : (mkMove b.r.side k piece s dst).cell.piece = some piece := piece_mk _ _
    rw [this] at hpiece; exact (Option.some.inj hpiece).symm
  subst hpp
  have hmatch' : k.matchesPiece piece' = true := hmatch
  by_cases hp : piece' = .pawn
  · subst hp
    obtain ⟨h1, _, _⟩ := pawn_roundtrip b hv k s dst hl'
    rw [h1] at hd'; cases hd'
    exact pawn_body b k s dst hl'
  · cases k with
    | null => exact absurd rfl hknull
    | simple =>
      obtain ⟨cands, hc, h1, _, _⟩ := piece_roundtrip b hv piece' hp s dst hl'
      rw [h1] at hd'; cases hd'
      exact piece_body b hv piece' hp s dst hl' cands hc
    | castleK =>
      have := matches_king hmatch' (Or.inl rfl); subst this
      obtain ⟨h1, _, _⟩ := castle_roundtrip b .king s dst hl'
      have h1' : sanDataFromMove (mkMove b.r.side .castleK .king s dst) b = .ok (.castling .king) := h1
      rw [h1'] at hd'; cases hd'
      rfl
    | castleQ =>
      have := matches_king hmatch' (Or.inr rfl); subst this
      obtain ⟨h1, _, _⟩ := castle_roundtrip b .queen s dst hl'
      have h1' : sanDataFromMove (mkMove b.r.side .castleQ .king s dst) b = .ok (.castling .queen) := h1
      rw [h1'] at hd'; cases hd'
      rfl
    | double => exact absurd (matches_pawn hmatch' (Or.inl rfl)) hp
    | ep => exact absurd (matches_pawn hmatch' (Or.inr (Or.inl rfl))) hp
    | promN => exact absurd (matches_pawn hmatch' (Or.inr (Or.inr (Or.inl rfl)))) hp
    | promB => exact absurd (matches_pawn hmatch' (Or.inr (Or.inr (Or.inr (Or.inl rfl))))) hp
    | promR => exact absurd (matches_pawn hmatch' (Or.inr (Or.inr (Or.inr (Or.inr (Or.inl rfl)))))) hp
    | promQ => exact absurd (matches_pawn hmatch' (Or.inr (Or.inr (Or.inr (Or.inr (Or.inr rfl)))))) hp

/-- C09 (standard notation): for every valid position and legal move the SAN text produced is `Spec.San.write` of that
move — piece letter, the minimal file / rank / square disambiguation computed among the legal moves only, `x` for a
capture, `=Q` for a promotion, `O-O` / `O-O-O`, `+` iff the opponent is in check after the move and has a legal move,
`#` iff in check with no legal move -/
theorem san_text_standard (b : Board) (hv : Valid b) (sm : Spec.Move) (hl : Legal b (concMove sm)) :
    ∃ s, sanFromMove (concMove sm) b = .ok s ∧ fmtSan s = .ok (Spec.San.write (abs b.r) sm) := by
  obtain ⟨d, h1, _, _, _, _, h4⟩ := sanFromMove_spec b hv (concMove sm) hl
  refine ⟨_, h4, ?_⟩
  have hmk : makeMoveChecked b (concMove sm) = .ok (makeMove b (concMove sm)).1 :=
    (C02.make_checked_iff b _ hv hl.1 _).mpr ⟨hl.2.1, hl.2.2, rfl⟩
  obtain ⟨_, _, _, sm', e1, e2⟩ := C02.make_checked_valid b _ hv hl.1 _ hmk
  rw [C01.absMove_conc] at e1; cases e1
  rw [fmtSan_eq d _ _ (san_body_standard b hv sm hl d h1), write_eq, e2]

/-- the same for a move given as a member of the rules' legal-move list -/
theorem san_text_standard' (b : Board) (hv : Valid b) (sm : Spec.Move) (hl : sm ∈ Spec.legalMoves (abs b.r)) :
    ∃ s, sanFromMove (concMove sm) b = .ok s ∧ fmtSan s = .ok (Spec.San.write (abs b.r) sm) :=
  san_text_standard b hv sm ((legal_iff_spec b hv sm).mp hl)

/-- and for an implementation move: the rules-level move is `absMove mv` -/
theorem san_text_standard_impl (b : Board) (hv : Valid b) (mv : Move) (hl : Legal b mv) :
    ∃ sm s, absMove mv = some sm ∧ concMove sm = mv ∧ sm ∈ Spec.legalMoves (abs b.r)
      ∧ sanFromMove mv b = .ok s ∧ fmtSan s = .ok (Spec.San.write (abs b.r) sm) := by
  obtain ⟨sm, h1, h2, _⟩ := semilegal_abs b hv mv hl.1 hl.2.1
  subst h2
  obtain ⟨s, h3, h4⟩ := san_text_standard b hv sm hl
  exact ⟨sm, s, h1, rfl, (legal_iff_spec b hv sm).mpr hl, h3, h4⟩


/-- C09 (distinct texts, rules level): on a valid position the rules' notation is injective on the legal moves -/
theorem write_injective (b : Board) (hv : Valid b) (m1 m2 : Spec.Move) (h1 : m1 ∈ Spec.legalMoves (abs b.r))
    (h2 : m2 ∈ Spec.legalMoves (abs b.r)) (he : Spec.San.write (abs b.r) m1 = Spec.San.write (abs b.r) m2) :
    m1 = m2 := by
  have l1 := (legal_iff_spec b hv m1).mp h1
  have l2 := (legal_iff_spec b hv m2).mp h2
  obtain ⟨s1, a1, a2⟩ := san_text_standard b hv m1 l1
  obtain ⟨s2, b1, b2⟩ := san_text_standard b hv m2 l2
  rw [he] at a2
  exact concMove_inj _ _ (san_text_injective b hv _ _ l1 l2 s1 s2 _ a1 b1 a2 b2)

/-! ### non-vacuity -/

/-- the text `Move::to_san` style output: `san::Move::from_move` then `Display` -/
def sanText (mv : Move) (b : Board) : Option Bytes :=
  match sanFromMove mv b with
  | .ok s => (match fmtSan s with | .ok t => some t | _ => none)
  | _ => none

/-- knights on a1 and c1 (`fenTwoKnights`): a1-b3 is written "Nab3" -/
example : (match parseFenBoard fenTwoKnights with
    | .ok b => sanText ⟨.simple, 3, 56, 41⟩ b
    | _ => none) = some [78, 97, 98, 51] := by
  decide +kernel

/-- "rnbqkbnr/pppp1ppp/8/4p3/6P1/5P2/PPPPP2P/RNBQKBNR b KQkq - 0 2" -/
def fenFoolsMate : Bytes :=
  [114, 110, 98, 113, 107, 98, 110, 114, 47, 112, 112, 112, 112, 49, 112, 112, 112, 47, 56, 47, 52, 112, 51, 47, 54,
    80, 49, 47, 53, 80, 50, 47, 80, 80, 80, 80, 80, 50, 80, 47, 82, 78, 66, 81, 75, 66, 78, 82, 32, 98, 32, 75, 81,
    107, 113, 32, 45, 32, 48, 32, 50]

/-- fool's mate: d8-h4 is written "Qh4#" -/
example : (match parseFenBoard fenFoolsMate with
    | .ok b => sanText ⟨.simple, 12, 3, 39⟩ b
    | _ => none) = some [81, 104, 52, 35] := by
  decide +kernel

end Owl.Props.C09
