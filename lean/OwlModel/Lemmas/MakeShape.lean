/-
`make_shape`: a well-formed semilegal move preserves `Shape` (consistent derived state, rights and en-passant mark
backed by the squares).  Backbone of C02 / C13.
-/
import OwlModel.Lemmas.Uci

namespace Owl.Lemmas
open Owl Owl.Impl

theorem make_get (b : Board) (mv : Move) (t : Sq) :
    (makeMove b mv).1.get t = (makeMove b mv).1.r.cells.get t := rfl

/-- squares a move does not name keep their contents -/
theorem make_get_other (b : Board) (mv : Move) (t : Sq) (h1 : t ≠ mv.src) (h2 : t ≠ mv.dst)
    (h3 : (mv.kind = .castleK ∨ mv.kind = .castleQ) → t.rank ≠ castlingRank b.r.side)
    (h4 : mv.kind = .ep → t ≠ addU mv.dst (-(forwardDelta b.r.side))) :
    (makeMove b mv).1.get t = b.get t := by
  rw [make_get, make_cells, makeBody_cells, clearEp_cells]
  have e1 : ¬ mv.src = t := fun e => h1 e.symm
  have e2 : ¬ mv.dst = t := fun e => h2 e.symm
  have hr : ∀ f, (mv.kind = .castleK ∨ mv.kind = .castleQ) → ¬ Sq.mk f (castlingRank b.r.side) = t := by
    intro f hk e; apply h3 hk; rw [← e]; simp
  cases hk : mv.kind <;> simp only [hk, Tab.get_put, e1, e2, if_false] <;> try rfl
  · simp [hr _ (Or.inl hk)]; rfl
  · simp [hr _ (Or.inr hk)]; rfl
  · have : ¬ addU mv.dst (-(forwardDelta b.r.side)) = t := fun e => h4 hk e.symm
    simp [this]; rfl

theorem home_rank_eq (c : Color) (s : Side) :
    (kingHomeSq c).rank = castlingRank c ∧ (rookHomeSq c s).rank = castlingRank c := by
  cases c <;> cases s <;> decide

theorem castlingRank_inj {c cc : Color} (h : castlingRank cc = castlingRank c) : cc = c := by
  revert h; cases c <;> cases cc <;> decide

theorem no_touch_other_rank (mv : Move) (c cc : Color) (s : Side) (hne : cc ≠ c)
    (h1 : mv.src.rank = castlingRank c) (h2 : mv.dst.rank = castlingRank c) : touches mv cc s = false := by
  obtain ⟨hk, hr⟩ := home_rank_eq cc s
  unfold touches
  simp only [Bool.or_eq_false_iff, decide_eq_false_iff_not]
  refine ⟨⟨⟨?_, ?_⟩, ?_⟩, ?_⟩ <;> intro e <;> apply hne <;> apply castlingRank_inj
  · rw [← hk, ← e, h1]
  · rw [← hr, ← e, h1]
  · rw [← hk, ← e, h2]
  · rw [← hr, ← e, h2]

theorem make_rights_sub (b : Board) (mv : Move) (hwf : mv.isWellFormed = true) (hsl : isSemilegal b mv = true)
    (cc : Color) (s : Side) (h : rHas (makeMove b mv).1.r.castling cc s = true) :
    rHas b.r.castling cc s = true ∧ touches mv cc s = false
      ∧ ((mv.kind = .castleK ∨ mv.kind = .castleQ) → cc ≠ b.r.side) := by
  obtain ⟨hknull, hsrc, hcol, hdst⟩ := semilegal_base b mv hsl
  obtain ⟨hne, color, piece, hcol', hpiece, hmatch, hK, hQ, _⟩ := wf_facts mv hwf hknull
  have hcc : color = b.r.side := by rw [hcol] at hcol'; exact (Option.some.inj hcol').symm
  subst hcc
  have hcell := piece_of_color_piece hcol hpiece
  rw [make_castling, makeBody_castling, clearEp_castling] at h
  cases hkk : mv.kind <;> simp only [hkk] at h
  · exact absurd hkk hknull
  · -- simple
    by_cases hp : mv.cell = Cell.mk b.r.side .pawn
    · have hnt := no_touch_of_ranks mv (wf_pawn_ranks mv b.r.side hwf hp (Or.inl hkk)) cc s
      simp only [hp, ne_eq, not_true_eq_false, false_and, if_false] at h
      exact ⟨h, hnt, by simp⟩
    · by_cases he : ((BB.single mv.src ||| BB.single mv.dst) &&& castlingAllSrcs).isEmpty = true
      · simp only [he, not_true_eq_false, and_false, if_false] at h
        exact ⟨h, change_all_isEmpty mv he cc s, by simp⟩
      · simp [hp, he, rHas_castlingAfter] at h
        exact ⟨h.1, h.2, by simp⟩
  · rw [rHas_withoutColor] at h
    simp only [Bool.and_eq_true, Bool.not_eq_true', decide_eq_false_iff_not] at h
    have hp := matches_king hmatch (Or.inl hkk); subst hp
    obtain ⟨e1, e2⟩ := hK hkk
    exact ⟨h.1, no_touch_other_rank mv b.r.side cc s (fun e => h.2 e.symm) (by rw [e1]; simp) (by rw [e2]; simp),
      fun _ e => h.2 e.symm⟩
  · rw [rHas_withoutColor] at h
    simp only [Bool.and_eq_true, Bool.not_eq_true', decide_eq_false_iff_not] at h
    obtain ⟨e1, e2⟩ := hQ hkk
    exact ⟨h.1, no_touch_other_rank mv b.r.side cc s (fun e => h.2 e.symm) (by rw [e1]; simp) (by rw [e2]; simp),
      fun _ e => h.2 e.symm⟩
  · have hp := matches_pawn hmatch (Or.inl hkk); subst hp
    exact ⟨h, no_touch_of_ranks mv (wf_pawn_ranks mv b.r.side hwf hcell (Or.inr (Or.inl hkk))) cc s, by simp⟩
  · have hp := matches_pawn hmatch (Or.inr (Or.inl hkk)); subst hp
    exact ⟨h, no_touch_of_ranks mv (wf_pawn_ranks mv b.r.side hwf hcell (Or.inr (Or.inr hkk))) cc s, by simp⟩
  all_goals
    by_cases he : ((BB.single mv.src ||| BB.single mv.dst) &&& castlingAllSrcs).isEmpty = true
    · simp only [he, not_true_eq_false, if_false] at h
      exact ⟨h, change_all_isEmpty mv he cc s, by simp⟩
    · simp [he, rHas_castlingAfter] at h
      exact ⟨h.1, h.2, by simp⟩

theorem ep_victim (b : Board) (mv : Move) (hs : Shape b) (hwf : mv.isWellFormed = true)
    (hsl : isSemilegal b mv = true) (hk : mv.kind = .ep) :
    ∃ p, b.r.ep = some p ∧ addU mv.dst (-(forwardDelta b.r.side)) = p ∧ mv.dst = addU p (forwardDelta b.r.side)
      ∧ (p = addU mv.src 1 ∨ p = addU mv.src (-1)) := by
  obtain ⟨hknull, hsrc, hcol, hdst⟩ := semilegal_base b mv hsl
  obtain ⟨hne, color, piece, hcol', hpiece, hmatch, _⟩ := wf_facts mv hwf hknull
  have hp := matches_pawn hmatch (Or.inr (Or.inl hk)); subst hp
  have ht := semilegal_tail b mv hsl .pawn hpiece
  simp only [hk] at ht
  cases hep : b.r.ep with
  | none => simp [hep] at ht
  | some p =>
    simp only [hep, Bool.and_eq_true, Bool.or_eq_true, decide_eq_true_eq] at ht
    obtain ⟨hadj, hdstp⟩ := ht
    obtain ⟨hrank, _, _⟩ := hs.ep p hep
    obtain ⟨har, _⟩ := ep_arith p b.r.side hrank
    exact ⟨p, rfl, by rw [hdstp, har], hdstp, hadj⟩

theorem double_arith (c : Color) : ∀ (src dst : Sq), src.file = dst.file → src.rank = doubleSrcRank c →
    dst.rank = doubleDstRank c →
    addU dst (forwardDelta c.inv) = addU src (forwardDelta c) ∧ addU src (forwardDelta c) ≠ src
      ∧ addU src (forwardDelta c) ≠ dst ∧ dst.rank = epSrcRank c.inv := by
  cases c <;> decide +kernel

/-- C02/C13 backbone: a well-formed semilegal move keeps the derived state consistent and the rights and en-passant
mark backed by the squares -/
theorem make_shape (b : Board) (mv : Move) (hs : Shape b) (hwf : mv.isWellFormed = true)
    (hsl : isSemilegal b mv = true) : Shape (makeMove b mv).1 := by
  have ok := makeOk_of_semilegal b mv hs hwf hsl
  obtain ⟨hknull, hsrc, hcol, hdst⟩ := semilegal_base b mv hsl
  obtain ⟨hne, color, piece, hcol', hpiece, hmatch, hK, hQ, hE⟩ := wf_facts mv hwf hknull
  have hcc : color = b.r.side := by rw [hcol] at hcol'; exact (Option.some.inj hcol').symm
  subst hcc
  have hcell := piece_of_color_piece hcol hpiece
  refine ⟨make_consistent b mv hs.cons ok, ?_, ?_⟩
  · -- rights
    intro cc s hr
    obtain ⟨hr0, hnt, hcas⟩ := make_rights_sub b mv hwf hsl cc s hr
    obtain ⟨hkh, hrh⟩ := hs.rights cc s hr0
    unfold touches at hnt
    simp only [Bool.or_eq_false_iff, decide_eq_false_iff_not] at hnt
    obtain ⟨⟨⟨n1, n2⟩, n3⟩, n4⟩ := hnt
    obtain ⟨rk, rr⟩ := home_rank_eq cc s
    have hepn : ∀ t : Sq, (t.rank.val = 0 ∨ t.rank.val = 7) → mv.kind = .ep →
        t ≠ addU mv.dst (-(forwardDelta b.r.side)) := by
      intro t ht hk e
      obtain ⟨p, hep, hv, _, _⟩ := ep_victim b mv hs hwf hsl hk
      obtain ⟨hrank, _, _⟩ := hs.ep p hep
      obtain ⟨_, _, _, _, g5, g6, _⟩ := geom_ranks b.r.side
      rw [hv] at e
      rw [e, hrank] at ht
      omega
    obtain ⟨hk07, hr07⟩ := home_ranks cc s
    constructor
    · show (makeMove b mv).1.get (kingHomeSq cc) = _
      rw [make_get_other b mv _ (fun e => n1 e.symm) (fun e => n3 e.symm)
        (fun hk e => hcas hk (castlingRank_inj (rk ▸ e))) (hepn _ hk07)]
      exact hkh
    · show (makeMove b mv).1.get (rookHomeSq cc s) = _
      rw [make_get_other b mv _ (fun e => n2 e.symm) (fun e => n4 e.symm)
        (fun hk e => hcas hk (castlingRank_inj (rr ▸ e))) (hepn _ hr07)]
      exact hrh
  · -- en-passant mark
    intro p hp
    rw [make_ep] at hp
    split at hp
    · rename_i hkk
      cases hp
      have hpp := matches_pawn hmatch (Or.inl hkk); subst hpp
      obtain ⟨hf, hr1, hr2⟩ := wf_double mv b.r.side hwf hcell hkk
      obtain ⟨a1, a2, a3, a4⟩ := double_arith b.r.side mv.src mv.dst hf hr1 hr2
      have ht := semilegal_tail b mv hsl .pawn hpiece
      simp only [hkk, Bool.and_eq_true, decide_eq_true_eq] at ht
      rw [make_side]
      refine ⟨a4, ?_, ?_⟩
      · show (makeMove b mv).1.get mv.dst = _
        rw [make_get, make_cells, makeBody_cells, clearEp_cells]
        simp only [hkk, Tab.get_put, if_true, Color.inv_inv]
      · show (makeMove b mv).1.get _ = _
        rw [a1, make_get_other b mv _ a2 a3 (by simp [hkk]) (by simp [hkk])]
        exact ht.1
    · cases hp

end Owl.Lemmas
