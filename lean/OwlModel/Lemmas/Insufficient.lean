import OwlModel.Lemmas.Valid
namespace Owl.Props.C07
open Owl Owl.Impl Owl.Lemmas

/-! ### the extracted masks are the light / dark squares of the rules -/

theorem masks_spec : ∀ s : Sq,
    lightSquares.has s = Spec.squareLight s ∧ darkSquares.has s = !Spec.squareLight s := by
  decide +kernel

theorem light_has (s : Sq) : lightSquares.has s = Spec.squareLight s := (masks_spec s).1
theorem dark_has (s : Sq) : darkSquares.has s = !Spec.squareLight s := (masks_spec s).2

/-! ### has-level characterisation of the three bitboards -/

/-- `all ^^^ kings` -/
def nonKings (b : Board) : BB := b.all ^^^ (b.piece2 .white .king ||| b.piece2 .black .king)
def knightsBB (b : Board) : BB := b.piece2 .white .knight ||| b.piece2 .black .knight
def bishopsBB (b : Board) : BB := b.piece2 .white .bishop ||| b.piece2 .black .bishop

theorem nonKings_has (b : Board) (hb : Consistent b) (s : Sq) :
    (nonKings b).has s = ((abs b.r).get s).any (·.piece != .king) := by
  unfold nonKings
  rw [BB.has_xor, BB.has_or, all_has b hb, piece2_has b hb, piece2_has b hb, get_abs]
  show _ = (absCell (b.get s)).any _
  generalize b.get s = x
  revert x; decide

theorem knights_has (b : Board) (hb : Consistent b) (s : Sq) :
    (knightsBB b).has s = ((abs b.r).get s).any (·.piece == .knight) := by
  unfold knightsBB
  rw [BB.has_or, piece2_has b hb, piece2_has b hb, get_abs]
  show _ = (absCell (b.get s)).any _
  generalize b.get s = x
  revert x; decide

theorem bishops_has (b : Board) (hb : Consistent b) (s : Sq) :
    (bishopsBB b).has s = ((abs b.r).get s).any (·.piece == .bishop) := by
  unfold bishopsBB
  rw [BB.has_or, piece2_has b hb, piece2_has b hb, get_abs]
  show _ = (absCell (b.get s)).any _
  generalize b.get s = x
  revert x; decide

theorem sub_of_piece (o : Option Spec.Man) (pc : Piece) (h : pc ≠ .king) :
    o.any (·.piece == pc) = true → o.any (·.piece != .king) = true := by
  cases o with
  | none => simp
  | some m =>
    obtain ⟨c, p⟩ := m
    cases p <;> cases pc <;> simp_all

/-! ### generic bit-set / list translation -/

theorem nonEmpty_and_eq_any (a m : BB) (f : Sq → Bool) (hm : ∀ s, m.has s = f s) :
    (a &&& m).nonEmpty = a.toList.any f := by
  rw [Bool.eq_iff_iff, nonEmpty_iff, List.any_eq_true]
  constructor
  · rintro ⟨s, hs⟩
    rw [BB.has_and, Bool.and_eq_true, hm] at hs
    exact ⟨s, (BB.mem_toList a s).mpr hs.1, hs.2⟩
  · rintro ⟨s, hs, hf⟩
    exact ⟨s, by rw [BB.has_and, hm, (BB.mem_toList a s).mp hs, hf]; rfl⟩

theorem isEmpty_eq (a : BB) : a.isEmpty = a.toList.isEmpty := by
  rw [Bool.eq_iff_iff, BB.isEmpty_iff, List.isEmpty_iff]
  unfold BB.toList
  rw [List.filter_eq_nil_iff]
  constructor
  · intro h s _; rw [h s]; simp
  · intro h s
    have := h s (by simp [Sq.all, List.mem_finRange])
    simpa using this

/-- equality with a subset is "every member is in the subset" -/
theorem eq_sub_iff (a k : BB) (f : Sq → Bool) (hk : ∀ s, k.has s = f s)
    (hsub : ∀ s, f s = true → a.has s = true) :
    decide (a = k) = a.toList.all f := by
  rw [Bool.eq_iff_iff, decide_eq_true_iff, List.all_eq_true]
  constructor
  · intro h s hs
    rw [← hk, ← h]; exact (BB.mem_toList a s).mp hs
  · intro h
    apply BB.ext_has
    intro s
    rw [hk]
    cases hf : f s
    · cases ha : a.has s
      · rfl
      · have := h s ((BB.mem_toList a s).mpr ha); rw [hf] at this; cases this
    · exact hsub s hf

/-! ### the list-level identity -/

theorem any_not_eq (l : List Sq) (f : Sq → Bool) : l.any (fun s => !f s) = !l.all f := by
  induction l with
  | nil => rfl
  | cons x xs ih => simp only [List.any_cons, List.all_cons, ih, Bool.not_and]

theorem any_eq_not_all_not (l : List Sq) (f : Sq → Bool) : l.any f = !l.all (fun s => !f s) := by
  induction l with
  | nil => rfl
  | cons x xs ih => simp only [List.any_cons, List.all_cons, ih, Bool.not_and, Bool.not_not]

theorem list_core (l : List Sq) (light p q : Sq → Bool) :
    (if (l.any light && l.any (fun s => !light s)) = true then false
     else if l.isEmpty = true then true
     else if (l.all p && decide (l.length = 1)) = true then true
     else l.all q)
    = (l.isEmpty || (decide (l.length = 1) && l.all p)
        || (l.all q && (l.all light || l.all (fun s => !light s)))) := by
  rw [any_not_eq, any_eq_not_all_not]
  match l with
  | [] => rfl
  | [x] =>
    simp only [List.all_cons, List.all_nil, Bool.and_true, List.isEmpty_cons, List.length_cons,
      List.length_nil]
    cases light x <;> cases p x <;> cases q x <;> rfl
  | x :: y :: r =>
    have hlen : decide ((x :: y :: r).length = 1) = false := by
      simp only [List.length_cons]; exact decide_eq_false (by omega)
    rw [hlen]
    simp only [List.isEmpty_cons]
    generalize (x :: y :: r).all light = a
    generalize (x :: y :: r).all (fun s => !light s) = d
    generalize (x :: y :: r).all q = c
    generalize (x :: y :: r).all p = e
    cases a <;> cases d <;> cases c <;> cases e <;> rfl

/-! ### C07: the bitboard test is the rule -/

theorem others_eq (b : Board) (hb : Consistent b) :
    (Spec.allSq.filter fun s => ((abs b.r).get s).any (·.piece != .king)) = (nonKings b).toList := by
  unfold BB.toList Spec.allSq Sq.all
  apply List.filter_congr
  intro s _
  exact (nonKings_has b hb s).symm

theorem insufficient_iff (b : Board) (hb : Consistent b) :
    isInsufficientMaterial b = Spec.insufficient (abs b.r) := by
  unfold Spec.insufficient
  simp only []
  rw [others_eq b hb]
  have h1 := nonEmpty_and_eq_any (nonKings b) lightSquares Spec.squareLight light_has
  have h2 := nonEmpty_and_eq_any (nonKings b) darkSquares (fun s => !Spec.squareLight s) dark_has
  have h3 := isEmpty_eq (nonKings b)
  have h4 := eq_sub_iff (nonKings b) (knightsBB b) _ (knights_has b hb)
    (fun s h => by rw [nonKings_has b hb]; exact sub_of_piece _ .knight (by decide) h)
  have h5 := eq_sub_iff (nonKings b) (bishopsBB b) _ (bishops_has b hb)
    (fun s h => by rw [nonKings_has b hb]; exact sub_of_piece _ .bishop (by decide) h)
  have h6 : (decide (nonKings b = knightsBB b) && Gen.loneKnight (knightsBB b).len)
      = (decide (nonKings b = knightsBB b) && decide ((nonKings b).toList.length = 1)) := by
    by_cases h : nonKings b = knightsBB b
    · rw [← h]; rfl
    · simp only [h, decide_false, Bool.false_and]
  have key := list_core (nonKings b).toList Spec.squareLight
    (fun s => ((abs b.r).get s).any (·.piece == .knight))
    (fun s => ((abs b.r).get s).any (·.piece == .bishop))
  rw [← key, ← h1, ← h2, ← h3, ← h4, ← h5, ← h6]
  rfl

/-! ### calc_draw_simple -/

/-- draw reason ↦ rules-level outcome. `agreement` / `unknown` have no rules-level counterpart (they are never
produced by `calcDrawSimple`, see `calcDrawSimple_range`); they are sent to `none` in `trDraw?` and to an
arbitrary value in the total `trDraw`. -/
def trDraw? : DrawReason → Option Spec.Outcome
  | .insufficientMaterial => some .insufficient
  | .moves75 => some .moves75
  | .moves50 => some .moves50
  | .stalemate => some .stalemate
  | .repeat5 => some .repeat5
  | .repeat3 => some .repeat3
  | _ => none

def trDraw (d : DrawReason) : Spec.Outcome := (trDraw? d).getD .stalemate

/-- rules-level outcome ↦ implementation outcome (total, injective) -/
def ofSpec : Spec.Outcome → Impl.Outcome
  | .checkmate c => .win c .checkmate | .stalemate => .draw .stalemate
  | .insufficient => .draw .insufficientMaterial | .moves75 => .draw .moves75 | .moves50 => .draw .moves50
  | .repeat5 => .draw .repeat5 | .repeat3 => .draw .repeat3

theorem ofSpec_injective (x y : Spec.Outcome) (h : ofSpec x = ofSpec y) : x = y := by
  cases x <;> cases y <;> simp_all [ofSpec]

/-- the whole content: `calc_draw_simple` in terms of the rule -/
theorem calcDrawSimple_spec (b : Board) (hb : Consistent b) :
    calcDrawSimple b =
      (if Spec.insufficient (abs b.r) then some .insufficientMaterial
       else if (abs b.r).half ≥ 150 then some .moves75
       else if (abs b.r).half ≥ 100 then some .moves50
       else none) := by
  unfold calcDrawSimple
  rw [insufficient_iff b hb, abs_half]
  unfold Gen.moves75 Gen.moves50
  simp only [decide_eq_true_eq]

theorem calcDrawSimple_eq (b : Board) (hb : Consistent b) :
    (calcDrawSimple b).map trDraw = Spec.drawSimple (abs b.r) := by
  rw [calcDrawSimple_spec b hb]
  unfold Spec.drawSimple
  generalize (abs b.r).half = n
  cases Spec.insufficient (abs b.r)
  · by_cases h1 : n ≥ 150
    · simp [h1, trDraw, trDraw?]
    · by_cases h2 : n ≥ 100
      · simp [h1, h2, trDraw, trDraw?]
      · simp [h1, h2]
  · simp [trDraw, trDraw?]

theorem calcDrawSimple_eq_bind (b : Board) (hb : Consistent b) :
    (calcDrawSimple b).bind trDraw? = Spec.drawSimple (abs b.r) := by
  rw [calcDrawSimple_spec b hb]
  unfold Spec.drawSimple
  generalize (abs b.r).half = n
  cases Spec.insufficient (abs b.r)
  · by_cases h1 : n ≥ 150
    · simp [h1, trDraw?]
    · by_cases h2 : n ≥ 100
      · simp [h1, h2, trDraw?]
      · simp [h1, h2]
  · simp [trDraw?]

/-- the form `calcOutcome?` uses: `(calcDrawSimple b).map .draw` -/
theorem calcDrawSimple_draw (b : Board) (hb : Consistent b) :
    (calcDrawSimple b).map Outcome.draw = (Spec.drawSimple (abs b.r)).map ofSpec := by
  rw [calcDrawSimple_spec b hb]
  unfold Spec.drawSimple
  generalize (abs b.r).half = n
  cases Spec.insufficient (abs b.r)
  · by_cases h1 : n ≥ 150
    · simp [h1, ofSpec]
    · by_cases h2 : n ≥ 100
      · simp [h1, h2, ofSpec]
      · simp [h1, h2]
  · simp [ofSpec]

/-- only these results occur, so the junk value of `trDraw` is never used -/
theorem calcDrawSimple_range (b : Board) :
    calcDrawSimple b = none ∨ calcDrawSimple b = some .insufficientMaterial
      ∨ calcDrawSimple b = some .moves75 ∨ calcDrawSimple b = some .moves50 := by
  unfold calcDrawSimple
  cases isInsufficientMaterial b <;> cases Gen.moves75 b.r.mc <;> cases Gen.moves50 b.r.mc <;> simp

end Owl.Props.C07
