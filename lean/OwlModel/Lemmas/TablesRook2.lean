import OwlModel.Lemmas.TablesDef
namespace Owl.Lemmas
theorem rook_rank_2 : rookCheckRank 2 = true := by decide +kernel
end Owl.Lemmas
