import OwlModel.Lemmas.TablesDef
namespace Owl.Lemmas
theorem bishop_rank_0 : bishopCheckRank 0 = true := by decide +kernel
theorem bishop_rank_1 : bishopCheckRank 1 = true := by decide +kernel
theorem bishop_rank_2 : bishopCheckRank 2 = true := by decide +kernel
theorem bishop_rank_3 : bishopCheckRank 3 = true := by decide +kernel
theorem bishop_rank_4 : bishopCheckRank 4 = true := by decide +kernel
theorem bishop_rank_5 : bishopCheckRank 5 = true := by decide +kernel
theorem bishop_rank_6 : bishopCheckRank 6 = true := by decide +kernel
theorem bishop_rank_7 : bishopCheckRank 7 = true := by decide +kernel
end Owl.Lemmas
