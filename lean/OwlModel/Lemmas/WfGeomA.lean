/-
C06, last clause (move construction accepts exactly the geometrically possible tuples), piece A:
the closed facts for kinds `null`, `castleK`, `castleQ`, `double`, decided over all pairs of squares.
Left sides are the cores of `Move.isWellFormed` (after its common guards), right sides the cores of
`Spec.geomPossible`; `WfGeom.lean` shows that the two functions reduce to these cores.
-/
import OwlModel.Abs

namespace Owl.Lemmas
open Owl Owl.Impl

theorem wfg_fact_null : ∀ s d : Sq,
    Move.isWellFormed ⟨.null, Cell.empty, s, d⟩ = Spec.geomPossible .null (absCell Cell.empty) s d := by
  decide +kernel

theorem wfg_fact_castleK_w : ∀ s d : Sq,
    (!decide (s = d) && (decide (s = Sq.mk fileE (castlingRank .white)) && decide (d = Sq.mk fileG (castlingRank .white))))
      = (decide (s = Spec.kingHome .white) && decide (d = Spec.sqOf 6 (Spec.homeRank .white))) := by
  decide +kernel
theorem wfg_fact_castleK_b : ∀ s d : Sq,
    (!decide (s = d) && (decide (s = Sq.mk fileE (castlingRank .black)) && decide (d = Sq.mk fileG (castlingRank .black))))
      = (decide (s = Spec.kingHome .black) && decide (d = Spec.sqOf 6 (Spec.homeRank .black))) := by
  decide +kernel
theorem wfg_fact_castleQ_w : ∀ s d : Sq,
    (!decide (s = d) && (decide (s = Sq.mk fileE (castlingRank .white)) && decide (d = Sq.mk fileC (castlingRank .white))))
      = (decide (s = Spec.kingHome .white) && decide (d = Spec.sqOf 2 (Spec.homeRank .white))) := by
  decide +kernel
theorem wfg_fact_castleQ_b : ∀ s d : Sq,
    (!decide (s = d) && (decide (s = Sq.mk fileE (castlingRank .black)) && decide (d = Sq.mk fileC (castlingRank .black))))
      = (decide (s = Spec.kingHome .black) && decide (d = Spec.sqOf 2 (Spec.homeRank .black))) := by
  decide +kernel

theorem wfg_fact_double_w : ∀ s d : Sq,
    (!decide (s = d) && (decide (s.file = d.file) && decide (s.rank = doubleSrcRank .white)
        && decide (d.rank = doubleDstRank .white)))
      = (decide (Spec.file s = Spec.file d) && decide (Spec.rank s = Spec.pawnStartRank .white)
        && decide (Spec.rank d = Spec.doubleDstRank .white)) := by
  decide +kernel
theorem wfg_fact_double_b : ∀ s d : Sq,
    (!decide (s = d) && (decide (s.file = d.file) && decide (s.rank = doubleSrcRank .black)
        && decide (d.rank = doubleDstRank .black)))
      = (decide (Spec.file s = Spec.file d) && decide (Spec.rank s = Spec.pawnStartRank .black)
        && decide (Spec.rank d = Spec.doubleDstRank .black)) := by
  decide +kernel

end Owl.Lemmas
