/-
C06 (specification side): on a board that passes the validation gate (`Valid b`) the rules' pseudo-legal move set
`Spec.pseudoMoves (abs b.r)` is exactly the set of well-formed, semilegal implementation moves
(`Move::is_well_formed` ∧ `Move::is_semilegal`), and `concMove` / `absMove` give a bijection between the two.

  * `pseudo_iff_semilegal`, `semilegal_abs`, `concMove_inj` — the results;
  * `mem_pawnMoves`, `mem_pieceMoves`, `mem_castleMoves` — membership in the specification's generators;
  * `pawn_bridge`, `piece_bridge`, `castle_bridge` — each matched with the `sl_*` lemma of `Lemmas/SemiChar.lean`;
  * section `Geo` — the closed geometric facts (`Spec.step` versus `addU` / file / rank arithmetic), decided by the kernel.
-/
import OwlModel.Lemmas.SemiChar
namespace Owl.Lemmas
open Owl Owl.Impl

/-! ### closed geometric facts, decided by the kernel -/
section Geo
set_option maxRecDepth 100000

theorem geo_push (c : Color) : ∀ s d : Sq,
    (Spec.step s (0, Spec.forward c) = some d ↔ (s.file = d.file ∧ rankStep c s d)) := by
  cases c <;> decide +kernel

theorem geo_cap (c : Color) : ∀ s d : Sq,
    ((Spec.step s (-1, Spec.forward c) = some d ∨ Spec.step s (1, Spec.forward c) = some d)
      ↔ (absDiff s.file.val d.file.val = 1 ∧ rankStep c s d)) := by
  cases c <;> decide +kernel

theorem sqOf_eq (c : Color) : ∀ f : Fin 8, Spec.sqOf f (Spec.homeRank c) = Sq.mk f (castlingRank c) := by
  cases c <;> decide +kernel

theorem geo_simple_ranks (c : Color) : ∀ s d : Sq, rankStep c s d → s.rank.val ≠ 0 → s.rank.val ≠ 7 →
    (¬ Spec.rank d = Spec.promoRank c ↔ (d.rank.val ≠ 0 ∧ d.rank.val ≠ 7)) := by
  cases c <;> decide +kernel

theorem geo_promo_ranks (c : Color) : ∀ s d : Sq,
    ((rankStep c s d ∧ Spec.rank d = Spec.promoRank c) ↔ (s.rank = promoteSrcRank c ∧ d.rank = promoteDstRank c)) := by
  cases c <;> decide +kernel

theorem step_fwd_addU (c : Color) : ∀ s t : Sq, Spec.step s (0, Spec.forward c) = some t → t = addU s (forwardDelta c) := by
  cases c <;> decide +kernel

theorem geo_double (c : Color) : ∀ s d : Sq,
    ((s.file = d.file ∧ s.rank = doubleSrcRank c ∧ d.rank = doubleDstRank c) ↔
      (Spec.rank s = Spec.pawnStartRank c ∧ Spec.step s (0, Spec.forward c) = some (addU s (forwardDelta c))
        ∧ Spec.step (addU s (forwardDelta c)) (0, Spec.forward c) = some d)) := by
  cases c <;> decide +kernel

theorem geo_ep (c : Color) : ∀ s e : Sq, e.rank = epSrcRank c →
    ((((Spec.step s (-1, Spec.forward c) = some (addU e (forwardDelta c))
        ∨ Spec.step s (1, Spec.forward c) = some (addU e (forwardDelta c)))
       ∧ Spec.step e (0, Spec.forward c) = some (addU e (forwardDelta c)) ∧ Spec.rank e = Spec.rank s)) ↔
     (s.rank = epSrcRank c ∧ (addU e (forwardDelta c)).rank = epDstRank c
       ∧ absDiff s.file.val (addU e (forwardDelta c)).file.val = 1 ∧ (e = addU s 1 ∨ e = addU s (-1)))) := by
  cases c <;> decide +kernel

theorem cell_isNone : ∀ x : Cell, (absCell x).isNone = true ↔ x = Cell.empty := by decide
theorem cell_enemy (c : Color) : ∀ x : Cell, ((absCell x).any (fun m => m.color != c) = true) ↔ x.color = some c.inv := by
  cases c <;> decide
theorem cell_free (c : Color) : ∀ x : Cell, (!(absCell x).any (fun m => m.color == c)) = true ↔ x.color ≠ some c := by
  cases c <;> decide

end Geo


/-- promotion split of the specification's pawn moves -/
def kindOK (c : Color) (k : Kind) (t : Sq) : Prop :=
  (Spec.rank t = Spec.promoRank c ∧ (k = .promN ∨ k = .promB ∨ k = .promR ∨ k = .promQ))
    ∨ (¬ Spec.rank t = Spec.promoRank c ∧ k = .simple)

def pmk (c : Color) (s : Sq) (k : Kind) (t : Sq) : List Spec.Move :=
  if Spec.rank t = Spec.promoRank c ∧ k = .simple then Spec.promKinds.map fun pk => ⟨pk, ⟨c, .pawn⟩, s, t⟩
  else [⟨k, ⟨c, .pawn⟩, s, t⟩]

theorem mem_pmk (c : Color) (s t : Sq) (sm : Spec.Move) :
    sm ∈ pmk c s .simple t ↔ sm.man = ⟨c, .pawn⟩ ∧ sm.src = s ∧ sm.dst = t ∧ kindOK c sm.kind t := by
  obtain ⟨k, m, s', d⟩ := sm
  unfold pmk kindOK
  by_cases h : Spec.rank t = Spec.promoRank c
  · simp only [h, and_self, if_true, Spec.promKinds, List.map_cons, List.map_nil, List.mem_cons, Spec.Move.mk.injEq,
      List.not_mem_nil, or_false, true_and, not_true_eq_false, false_and]
    constructor
    · rintro (⟨a, b, c, d⟩ | ⟨a, b, c, d⟩ | ⟨a, b, c, d⟩ | ⟨a, b, c, d⟩) <;> simp [a, b, c, d]
    · rintro ⟨a, b, c, (d | d | d | d)⟩ <;> simp [a, b, c, d]
  · simp only [h, false_and, if_false, List.mem_singleton, Spec.Move.mk.injEq, not_false_eq_true, true_and, false_or]
    constructor
    · rintro ⟨a, b, c, d⟩; simp [a, b, c, d]
    · rintro ⟨a, b, c, d⟩; simp [a, b, c, d]

def pushPart (P : Spec.Pos) (s : Sq) (c : Color) : List Spec.Move :=
  match Spec.step s (0, Spec.forward c) with
  | some t => if (P.get t).isNone then
      pmk c s .simple t ++ (if Spec.rank s = Spec.pawnStartRank c then
        match Spec.step t (0, Spec.forward c) with
        | some u => if (P.get u).isNone then [⟨.double, ⟨c, .pawn⟩, s, u⟩] else []
        | none => [] else [])
    else []
  | none => []

def capAt (P : Spec.Pos) (s : Sq) (c : Color) (df : Int) : List Spec.Move :=
  match Spec.step s (df, Spec.forward c) with
  | some t => match P.get t with
    | some x => if x.color ≠ c then pmk c s .simple t else []
    | none => match P.ep with
      | some e => if Spec.step e (0, Spec.forward c) = some t ∧ Spec.rank e = Spec.rank s then [⟨.ep, ⟨c, .pawn⟩, s, t⟩] else []
      | none => []
  | none => []

theorem pawnMoves_eq (P : Spec.Pos) (s : Sq) (c : Color) :
    Spec.pawnMoves P s c = pushPart P s c ++ (capAt P s c (-1) ++ capAt P s c 1) := by
  have h : capAt P s c 1 = capAt P s c 1 ++ [] := (List.append_nil _).symm
  rw [h]
  rfl

theorem mem_pushPart (P : Spec.Pos) (s : Sq) (c : Color) (sm : Spec.Move) :
    sm ∈ pushPart P s c ↔ sm.man = ⟨c, .pawn⟩ ∧ sm.src = s ∧
      ((Spec.step s (0, Spec.forward c) = some sm.dst ∧ (P.get sm.dst).isNone = true ∧ kindOK c sm.kind sm.dst)
       ∨ (sm.kind = .double ∧ ∃ t, Spec.step s (0, Spec.forward c) = some t ∧ (P.get t).isNone = true
            ∧ Spec.rank s = Spec.pawnStartRank c ∧ Spec.step t (0, Spec.forward c) = some sm.dst
            ∧ (P.get sm.dst).isNone = true)) := by
  unfold pushPart
  cases hst : Spec.step s (0, Spec.forward c) with
  | none => simp
  | some t =>
    simp only [Option.some.injEq]
    cases hn : (P.get t).isNone with
    | true =>
      simp only [if_true, List.mem_append, mem_pmk]
      by_cases hr : Spec.rank s = Spec.pawnStartRank c
      · simp only [hr, if_true]
        cases hst2 : Spec.step t (0, Spec.forward c) with
        | none =>
          simp only [List.not_mem_nil, or_false]
          constructor
          · rintro ⟨a, b, c', d⟩; subst c'; exact ⟨a, b, Or.inl ⟨rfl, hn, d⟩⟩
          · rintro ⟨a, b, (⟨c', _, d⟩ | ⟨_, t', e1, _, _, e2, _⟩)⟩
            · exact ⟨a, b, c'.symm, c' ▸ d⟩
            · subst e1; rw [hst2] at e2; cases e2
        | some u =>
          cases hu : (P.get u).isNone with
          | true =>
            simp only [hu, if_true, List.mem_singleton]
            constructor
            · rintro (⟨a, b, c', d⟩ | h)
              · subst c'; exact ⟨a, b, Or.inl ⟨rfl, hn, d⟩⟩
              · subst h; exact ⟨rfl, rfl, Or.inr ⟨rfl, t, rfl, hn, trivial, hst2, hu⟩⟩
            · rintro ⟨a, b, (⟨c', _, d⟩ | ⟨k, t', e1, _, _, e2, _⟩)⟩
              · exact Or.inl ⟨a, b, c'.symm, c' ▸ d⟩
              · subst e1; rw [hst2] at e2
                obtain ⟨k', m', s', d'⟩ := sm
                simp only at a b k e2
                simp only [Option.some.injEq] at e2
                subst a b k e2; exact Or.inr rfl
          | false =>
            simp only [hu, Bool.false_eq_true, if_false, List.not_mem_nil, or_false]
            constructor
            · rintro ⟨a, b, c', d⟩; subst c'; exact ⟨a, b, Or.inl ⟨rfl, hn, d⟩⟩
            · rintro ⟨a, b, (⟨c', _, d⟩ | ⟨_, t', e1, _, _, e2, e3⟩)⟩
              · exact ⟨a, b, c'.symm, c' ▸ d⟩
              · subst e1; rw [hst2] at e2; simp only [Option.some.injEq] at e2; subst e2
                rw [hu] at e3; cases e3
      · simp only [hr, if_false, List.not_mem_nil, or_false, false_and, and_false, exists_false]
        constructor
        · rintro ⟨a, b, c', d⟩; subst c'; exact ⟨a, b, ⟨rfl, hn, d⟩⟩
        · rintro ⟨a, b, c', _, d⟩
          exact ⟨a, b, c'.symm, c' ▸ d⟩
    | false =>
      simp only [Bool.false_eq_true, if_false, List.not_mem_nil, false_iff]
      rintro ⟨a, b, (⟨c', e, d⟩ | ⟨_, t', e1, e, _⟩)⟩
      · subst c'; rw [hn] at e; cases e
      · subst e1; rw [hn] at e; cases e

theorem mem_capAt (P : Spec.Pos) (s : Sq) (c : Color) (df : Int) (sm : Spec.Move) :
    sm ∈ capAt P s c df ↔ sm.man = ⟨c, .pawn⟩ ∧ sm.src = s ∧ Spec.step s (df, Spec.forward c) = some sm.dst ∧
      (((P.get sm.dst).any (fun x => x.color != c) = true ∧ kindOK c sm.kind sm.dst)
       ∨ (sm.kind = .ep ∧ (P.get sm.dst).isNone = true ∧ ∃ e, P.ep = some e
            ∧ Spec.step e (0, Spec.forward c) = some sm.dst ∧ Spec.rank e = Spec.rank s)) := by
  unfold capAt
  cases hst : Spec.step s (df, Spec.forward c) with
  | none => simp
  | some t =>
    simp only [Option.some.injEq]
    cases hg : P.get t with
    | some x =>
      simp only
      by_cases hx : x.color = c
      · simp only [hx, ne_eq, not_true_eq_false, if_false, List.not_mem_nil, false_iff]
        rintro ⟨_, _, e, (⟨h, _⟩ | ⟨_, h, _⟩)⟩
        · subst e; rw [hg] at h; simp [hx] at h
        · subst e; rw [hg] at h; cases h
      · simp only [ne_eq, hx, not_false_eq_true, if_true, mem_pmk]
        constructor
        · rintro ⟨a, b, e, d⟩; subst e
          exact ⟨a, b, rfl, Or.inl ⟨by rw [hg]; simpa using hx, d⟩⟩
        · rintro ⟨a, b, e, (⟨_, d⟩ | ⟨_, h, _⟩)⟩
          · exact ⟨a, b, e.symm, e ▸ d⟩
          · subst e; rw [hg] at h; cases h
    | none =>
      simp only
      cases he : P.ep with
      | none =>
        simp only [List.not_mem_nil, false_iff]
        rintro ⟨_, _, e, (⟨h, _⟩ | ⟨_, _, e', h, _⟩)⟩
        · subst e; rw [hg] at h; cases h
        · cases h
      | some e =>
        simp only [Option.some.injEq]
        by_cases hc : Spec.step e (0, Spec.forward c) = some t ∧ Spec.rank e = Spec.rank s
        · simp only [hc, and_self, if_true, List.mem_singleton]
          constructor
          · intro h; subst h
            exact ⟨rfl, rfl, rfl, Or.inr ⟨rfl, by simp [hg], e, rfl, hc.1, hc.2⟩⟩
          · rintro ⟨a, b, e1, (⟨h, _⟩ | ⟨k, _, e', e2, _⟩)⟩
            · subst e1; rw [hg] at h; cases h
            · obtain ⟨k', m', s', d'⟩ := sm
              simp only at a b k e1
              subst a b k e1; rfl
        · simp only [hc, if_false, List.not_mem_nil, false_iff]
          rintro ⟨_, _, e1, (⟨h, _⟩ | ⟨_, _, e', e2, h1, h2⟩)⟩
          · subst e1; rw [hg] at h; cases h
          · subst e1 e2; exact hc ⟨h1, h2⟩



def CapOK (P : Spec.Pos) (c : Color) (s d : Sq) (k : Kind) : Prop :=
  ((P.get d).any (fun x => x.color != c) = true ∧ kindOK c k d)
    ∨ (k = .ep ∧ (P.get d).isNone = true ∧ ∃ e, P.ep = some e
          ∧ Spec.step e (0, Spec.forward c) = some d ∧ Spec.rank e = Spec.rank s)

/-- the specification's pawn moves from `s`, as a predicate on destination and kind -/
def SpecPawn (P : Spec.Pos) (c : Color) (s d : Sq) (k : Kind) : Prop :=
  (Spec.step s (0, Spec.forward c) = some d ∧ (P.get d).isNone = true ∧ kindOK c k d)
  ∨ (k = .double ∧ ∃ t, Spec.step s (0, Spec.forward c) = some t ∧ (P.get t).isNone = true
        ∧ Spec.rank s = Spec.pawnStartRank c ∧ Spec.step t (0, Spec.forward c) = some d ∧ (P.get d).isNone = true)
  ∨ ((Spec.step s (-1, Spec.forward c) = some d ∨ Spec.step s (1, Spec.forward c) = some d) ∧ CapOK P c s d k)

theorem mem_pawnMoves (P : Spec.Pos) (s : Sq) (c : Color) (sm : Spec.Move) :
    sm ∈ Spec.pawnMoves P s c ↔ sm.man = ⟨c, .pawn⟩ ∧ sm.src = s ∧ SpecPawn P c s sm.dst sm.kind := by
  rw [pawnMoves_eq]
  simp only [List.mem_append, mem_pushPart, mem_capAt]
  unfold SpecPawn CapOK
  constructor
  · rintro (⟨a, b, (h | h)⟩ | ⟨a, b, e, h⟩ | ⟨a, b, e, h⟩)
    · exact ⟨a, b, Or.inl h⟩
    · exact ⟨a, b, Or.inr (Or.inl h)⟩
    · exact ⟨a, b, Or.inr (Or.inr ⟨Or.inl e, h⟩)⟩
    · exact ⟨a, b, Or.inr (Or.inr ⟨Or.inr e, h⟩)⟩
  · rintro ⟨a, b, (h | h | ⟨(e | e), h⟩)⟩
    · exact Or.inl ⟨a, b, Or.inl h⟩
    · exact Or.inl ⟨a, b, Or.inr h⟩
    · exact Or.inr (Or.inl ⟨a, b, e, h⟩)
    · exact Or.inr (Or.inr ⟨a, b, e, h⟩)

theorem wf_pawn_kind (c : Color) (k : Kind) (s d : Sq) (h : (mkMove c k .pawn s d).isWellFormed = true) :
    k ≠ .null ∧ k ≠ .castleK ∧ k ≠ .castleQ := by
  have hne0 : ¬ (Cell.mk c .pawn = Cell.empty) := mk_ne_zero _ _
  have hne1 : ¬ (Cell.mk c .pawn = 0) := mk_ne_zero _ _
  refine ⟨?_, ?_, ?_⟩ <;> intro e <;> subst e <;> revert h <;> unfold Move.isWellFormed mkMove <;>
    simp [Move.null, color_mk, piece_mk, hne0, hne1, Kind.matchesPiece]


theorem pawn_bridge (b : Board) (hv : Valid b) (s d : Sq) (k : Kind) (hs : b.get s = Cell.mk b.r.side .pawn) :
    SpecPawn (abs b.r) b.r.side s d k ↔
      ((mkMove b.r.side k .pawn s d).isWellFormed = true ∧ isSemilegal b (mkMove b.r.side k .pawn s d) = true) := by
  have hget : ∀ t, (abs b.r).get t = absCell (b.get t) := fun t => get_abs b.r t
  obtain ⟨hs0, hs7⟩ := hv.checks.pawns s _ hs
  have hpromo : ∀ k', (k' = Kind.promN ∨ k' = .promB ∨ k' = .promR ∨ k' = .promQ) →
      (SpecPawn (abs b.r) b.r.side s d k' ↔
      ((mkMove b.r.side k' .pawn s d).isWellFormed = true ∧ isSemilegal b (mkMove b.r.side k' .pawn s d) = true)) := by
    intro k' hk'
    rw [sl_pawn_promo b k' hk']
    have g := geo_promo_ranks b.r.side s d
    have hk1 : k' ≠ .simple := by rcases hk' with h | h | h | h <;> subst h <;> decide
    have hk2 : k' ≠ .double := by rcases hk' with h | h | h | h <;> subst h <;> decide
    have hk3 : k' ≠ .ep := by rcases hk' with h | h | h | h <;> subst h <;> decide
    unfold SpecPawn CapOK kindOK
    simp only [hget, cell_isNone, cell_enemy, geo_push, geo_cap, hk1, hk2, hk3, hk', false_and, and_false, or_false, false_or,
      and_true]
    simp only [hs, true_and]
    constructor
    · rintro (⟨⟨a, r⟩, e, q⟩ | ⟨⟨a, r⟩, e, q⟩)
      · exact ⟨(g.mp ⟨r, q⟩).1, (g.mp ⟨r, q⟩).2, Or.inl ⟨a, e⟩⟩
      · exact ⟨(g.mp ⟨r, q⟩).1, (g.mp ⟨r, q⟩).2, Or.inr ⟨a, e⟩⟩
    · rintro ⟨r, q, (⟨a, e⟩ | ⟨a, e⟩)⟩
      · exact Or.inl ⟨⟨a, (g.mpr ⟨r, q⟩).1⟩, e, (g.mpr ⟨r, q⟩).2⟩
      · exact Or.inr ⟨⟨a, (g.mpr ⟨r, q⟩).1⟩, e, (g.mpr ⟨r, q⟩).2⟩
  cases k with
  | null =>
    constructor
    · intro h; unfold SpecPawn CapOK kindOK at h; simp at h
    · intro h; exact absurd rfl (wf_pawn_kind _ _ _ _ h.1).1
  | castleK =>
    constructor
    · intro h; unfold SpecPawn CapOK kindOK at h; simp at h
    · intro h; exact absurd rfl (wf_pawn_kind _ _ _ _ h.1).2.1
  | castleQ =>
    constructor
    · intro h; unfold SpecPawn CapOK kindOK at h; simp at h
    · intro h; exact absurd rfl (wf_pawn_kind _ _ _ _ h.1).2.2
  | simple =>
    rw [sl_pawn_simple]
    unfold SpecPawn CapOK kindOK
    simp only [hget, cell_isNone, cell_enemy, geo_push, geo_cap, reduceCtorEq, false_and, and_false, or_false, false_or,
      and_true, hs, true_and]
    constructor
    · rintro (⟨⟨a, r⟩, e, q⟩ | ⟨⟨a, r⟩, e, q⟩)
      · have g := (geo_simple_ranks b.r.side s d r hs0 hs7).mp q
        exact ⟨hs0, hs7, g.1, g.2, r, Or.inl ⟨a, e⟩⟩
      · have g := (geo_simple_ranks b.r.side s d r hs0 hs7).mp q
        exact ⟨hs0, hs7, g.1, g.2, r, Or.inr ⟨a, e⟩⟩
    · rintro ⟨_, _, d0, d7, r, (⟨a, e⟩ | ⟨a, e⟩)⟩
      · exact Or.inl ⟨⟨a, r⟩, e, (geo_simple_ranks b.r.side s d r hs0 hs7).mpr ⟨d0, d7⟩⟩
      · exact Or.inr ⟨⟨a, r⟩, e, (geo_simple_ranks b.r.side s d r hs0 hs7).mpr ⟨d0, d7⟩⟩
  | double =>
    rw [sl_pawn_double]
    unfold SpecPawn CapOK kindOK
    simp only [hget, cell_isNone, cell_enemy, reduceCtorEq, false_and, and_false, or_false, false_or,
      hs, true_and]
    have g := geo_double b.r.side s d
    constructor
    · rintro ⟨t, h1, e1, h2, h3, e2⟩
      have ht := step_fwd_addU b.r.side s t h1
      subst ht
      obtain ⟨a, b', c'⟩ := g.mpr ⟨h2, h1, h3⟩
      exact ⟨a, b', c', e1, e2⟩
    · rintro ⟨a, b', c', e1, e2⟩
      obtain ⟨h2, h1, h3⟩ := g.mp ⟨a, b', c'⟩
      exact ⟨_, h1, e1, h2, h3, e2⟩
  | ep =>
    rw [sl_pawn_ep]
    unfold SpecPawn CapOK kindOK
    simp only [hget, cell_isNone, cell_enemy, reduceCtorEq, false_and, and_false, or_false, false_or,
      hs, true_and, abs_ep]
    constructor
    · rintro ⟨hst, _, e, hep, h1, h2⟩
      obtain ⟨hr, _, hbe⟩ := hv.shape.ep e hep
      have hd := step_fwd_addU b.r.side e d h1
      subst hd
      obtain ⟨a1, a2, a3, a4⟩ := (geo_ep b.r.side s e hr).mp ⟨hst, h1, h2⟩
      refine ⟨a1, a2, a3, ?_, e, hep, a4, rfl⟩
      have hbe' : b.get (addU e (forwardDelta b.r.side)) = Cell.empty := hbe
      rw [hbe', empty_color]; simp
    · rintro ⟨a1, a2, a3, _, p, hep, a4, hd⟩
      obtain ⟨hr, _, hbe⟩ := hv.shape.ep p hep
      subst hd
      obtain ⟨hst, h1, h2⟩ := (geo_ep b.r.side s p hr).mpr ⟨a1, a2, a3, a4⟩
      exact ⟨hst, hbe, p, hep, h1, h2⟩
  | promN => exact hpromo _ (by simp)
  | promB => exact hpromo _ (by simp)
  | promR => exact hpromo _ (by simp)
  | promQ => exact hpromo _ (by simp)


/-! ### knights, kings and sliders -/

def targets (P : Spec.Pos) (p : Piece) (s : Sq) : List Sq :=
  match p with
  | .knight => stepsOf s Spec.knightSteps
  | .king => stepsOf s Spec.kingSteps
  | pc => Spec.slide (Spec.dirsOf pc) P.occ s

theorem pieceMoves_eq (P : Spec.Pos) (s : Sq) (m : Spec.Man) (hp : m.piece ≠ .pawn) :
    Spec.pieceMoves P s m = (targets P m.piece s).filterMap fun t =>
      if (!(P.get t).any (fun x => x.color == m.color)) = true then some ⟨.simple, m, s, t⟩ else none := by
  obtain ⟨c, p⟩ := m
  cases p
  · exact absurd rfl hp
  all_goals (unfold Spec.pieceMoves targets stepsOf; simp only [List.filterMap_filterMap])

theorem mem_pieceMoves (P : Spec.Pos) (s : Sq) (m : Spec.Man) (hp : m.piece ≠ .pawn) (sm : Spec.Move) :
    sm ∈ Spec.pieceMoves P s m ↔ sm.kind = .simple ∧ sm.man = m ∧ sm.src = s ∧ sm.dst ∈ targets P m.piece s
      ∧ (!(P.get sm.dst).any (fun x => x.color == m.color)) = true := by
  rw [pieceMoves_eq P s m hp, List.mem_filterMap]
  obtain ⟨k, m', s', d⟩ := sm
  constructor
  · rintro ⟨t, ht, h⟩
    by_cases hf : (!(P.get t).any (fun x => x.color == m.color)) = true
    · rw [if_pos hf] at h
      simp only [Option.some.injEq, Spec.Move.mk.injEq] at h
      obtain ⟨rfl, rfl, rfl, rfl⟩ := h
      exact ⟨rfl, rfl, rfl, ht, hf⟩
    · rw [if_neg hf] at h; cases h
  · rintro ⟨h1, h2, h3, h4, h5⟩
    simp only at h1 h2 h3 h4 h5
    subst h1 h2 h3
    exact ⟨d, h4, by rw [if_pos h5]⟩

theorem targets_has (b : Board) (hb : Consistent b) (p : Piece) (hp : p ≠ .pawn) (s d : Sq) :
    (pieceAttack p s b.all).has d = decide (d ∈ targets (abs b.r) p s) := by
  obtain ⟨hk, hn, _, _⟩ := near_check_sq s
  have hocc : (fun x => b.all.has x) = (abs b.r).occ := by funext x; exact (occ_abs b hb x).symm
  cases p
  · exact absurd rfl hp
  · simp only [pieceAttack, targets, hk, BB.has_ofList]
    exact decide_eq_decide.mpr Iff.rfl
  · simp only [pieceAttack, targets, hn, BB.has_ofList]
    exact decide_eq_decide.mpr Iff.rfl
  · simp only [pieceAttack, targets, bishopAttack_eq_slide, slideBB, BB.has_ofList, hocc, Spec.dirsOf]
    exact decide_eq_decide.mpr Iff.rfl
  · simp only [pieceAttack, targets, rookAttack_eq_slide, slideBB, BB.has_ofList, hocc, Spec.dirsOf]
    exact decide_eq_decide.mpr Iff.rfl
  · simp only [pieceAttack, targets, BB.has_or, bishopAttack_eq_slide, rookAttack_eq_slide, slideBB, BB.has_ofList, hocc,
      Spec.dirsOf]
    refine Eq.trans ?_ (Eq.trans (decide_slide_append Spec.bishopDirs Spec.rookDirs (abs b.r).occ s d).symm
      (decide_eq_decide.mpr Iff.rfl))
    congr 1 <;> exact decide_eq_decide.mpr Iff.rfl

theorem wf_piece_kind (c : Color) (k : Kind) (p : Piece) (hp : p ≠ .pawn) (s d : Sq)
    (h : (mkMove c k p s d).isWellFormed = true) : k = .simple ∨ k = .castleK ∨ k = .castleQ := by
  have hne0 : ¬ (Cell.mk c p = Cell.empty) := mk_ne_zero _ _
  have hne1 : ¬ (Cell.mk c p = 0) := mk_ne_zero _ _
  revert h
  unfold Move.isWellFormed mkMove
  cases k <;> cases p <;> simp [Move.null, color_mk, piece_mk, hne0, hne1, Kind.matchesPiece] at hp ⊢

theorem piece_bridge (b : Board) (hv : Valid b) (p : Piece) (hp : p ≠ .pawn) (s d : Sq) (k : Kind)
    (hs : b.get s = Cell.mk b.r.side p) (hk1 : k ≠ .castleK) (hk2 : k ≠ .castleQ) :
    (k = .simple ∧ d ∈ targets (abs b.r) p s
        ∧ (!((abs b.r).get d).any (fun x => x.color == b.r.side)) = true) ↔
      ((mkMove b.r.side k p s d).isWellFormed = true ∧ isSemilegal b (mkMove b.r.side k p s d) = true) := by
  by_cases hk : k = .simple
  · subst hk
    rw [sl_piece b p hp, targets_has b hv.shape.cons p hp, get_abs]
    have : b.r.get d = b.get d := rfl
    rw [this, cell_free]
    simp [hs]
  · constructor
    · intro h; exact absurd h.1 hk
    · intro h
      rcases wf_piece_kind _ _ _ hp _ _ h.1 with h' | h' | h'
      · exact absurd h' hk
      · exact absurd h' hk1
      · exact absurd h' hk2


/-! ### castling -/

theorem pass_iff (b : Board) (hb : Consistent b) (c : Color) :
    ((b.all &&& castlingPass c .king).isEmpty = true ↔
      (b.get (Sq.mk fileF (castlingRank c)) = Cell.empty ∧ b.get (Sq.mk fileG (castlingRank c)) = Cell.empty))
    ∧ ((b.all &&& castlingPass c .queen).isEmpty = true ↔
      (b.get (Sq.mk ⟨1, by decide⟩ (castlingRank c)) = Cell.empty ∧ b.get (Sq.mk fileC (castlingRank c)) = Cell.empty
        ∧ b.get (Sq.mk fileD (castlingRank c)) = Cell.empty)) := by
  have pmK := fun t => (pass_masks c t).1
  have pmQ := fun t => (pass_masks c t).2
  constructor
  · constructor
    · intro h
      exact ⟨empty_of_pass b hb _ h _ (by rw [pmK]; simp), empty_of_pass b hb _ h _ (by rw [pmK]; simp)⟩
    · rintro ⟨h1, h2⟩
      rw [BB.isEmpty_iff]
      intro t
      rw [BB.has_and, pmK, all_has b hb]
      by_cases e1 : Sq.mk fileF (castlingRank c) = t
      · subst e1; rw [h1]; rfl
      · by_cases e2 : Sq.mk fileG (castlingRank c) = t
        · subst e2; rw [h2]; rfl
        · simp only [e1, e2, decide_false, Bool.or_false, Bool.and_false]
  · constructor
    · intro h
      exact ⟨empty_of_pass b hb _ h _ (by rw [pmQ]; simp), empty_of_pass b hb _ h _ (by rw [pmQ]; simp),
        empty_of_pass b hb _ h _ (by rw [pmQ]; simp)⟩
    · rintro ⟨h1, h2, h3⟩
      rw [BB.isEmpty_iff]
      intro t
      rw [BB.has_and, pmQ, all_has b hb]
      by_cases e1 : Sq.mk ⟨1, by decide⟩ (castlingRank c) = t
      · subst e1; rw [h1]; rfl
      · by_cases e2 : Sq.mk fileC (castlingRank c) = t
        · subst e2; rw [h2]; rfl
        · by_cases e3 : Sq.mk fileD (castlingRank c) = t
          · subst e3; rw [h3]; rfl
          · simp only [e1, e2, e3, decide_false, Bool.or_false, Bool.and_false]

theorem mem_castleMoves (P : Spec.Pos) (c : Color) (sm : Spec.Move) :
    sm ∈ Spec.castleMoves P c ↔
      ((P.rights.has c .king = true
          ∧ ((P.get (Spec.sqOf 5 (Spec.homeRank c))).isNone = true ∧ (P.get (Spec.sqOf 6 (Spec.homeRank c))).isNone = true)
          ∧ (Spec.attackedBy P (Spec.sqOf 4 (Spec.homeRank c)) c.inv = false
              ∧ Spec.attackedBy P (Spec.sqOf 5 (Spec.homeRank c)) c.inv = false))
        ∧ sm = ⟨.castleK, ⟨c, .king⟩, Spec.sqOf 4 (Spec.homeRank c), Spec.sqOf 6 (Spec.homeRank c)⟩)
      ∨ ((P.rights.has c .queen = true
          ∧ ((P.get (Spec.sqOf 1 (Spec.homeRank c))).isNone = true ∧ (P.get (Spec.sqOf 2 (Spec.homeRank c))).isNone = true
              ∧ (P.get (Spec.sqOf 3 (Spec.homeRank c))).isNone = true)
          ∧ (Spec.attackedBy P (Spec.sqOf 4 (Spec.homeRank c)) c.inv = false
              ∧ Spec.attackedBy P (Spec.sqOf 3 (Spec.homeRank c)) c.inv = false))
        ∧ sm = ⟨.castleQ, ⟨c, .king⟩, Spec.sqOf 4 (Spec.homeRank c), Spec.sqOf 2 (Spec.homeRank c)⟩) := by
  unfold Spec.castleMoves
  simp only [List.mem_append, mem_ite_single', List.all_cons, List.all_nil, Bool.and_true, Bool.and_eq_true,
    Bool.not_eq_true']


theorem concMove_eq (sm : Spec.Move) : concMove sm = mkMove sm.man.color sm.kind sm.man.piece sm.src sm.dst := rfl

theorem sl_color (b : Board) (sm : Spec.Move) (h : isSemilegal b (concMove sm) = true) : sm.man.color = b.r.side := by
  have := (semilegal_base b _ h).2.2.1
  rw [concMove_eq] at this
  simp only [mkMove, color_mk, Option.some.injEq] at this
  exact this

theorem sl_src (b : Board) (sm : Spec.Move) (h : isSemilegal b (concMove sm) = true) :
    b.get sm.src = Cell.mk sm.man.color sm.man.piece := (semilegal_base b _ h).2.1

theorem wf_castle_piece (c : Color) (k : Kind) (p : Piece) (s d : Sq) (hk : k = .castleK ∨ k = .castleQ)
    (h : (mkMove c k p s d).isWellFormed = true) : p = .king := by
  have hne0 : ¬ (Cell.mk c p = Cell.empty) := mk_ne_zero _ _
  revert h
  unfold Move.isWellFormed mkMove
  rcases hk with rfl | rfl <;> cases p <;> simp [color_mk, piece_mk, hne0, Kind.matchesPiece]

theorem castle_bridge (b : Board) (hv : Valid b) (sm : Spec.Move) :
    sm ∈ Spec.castleMoves (abs b.r) b.r.side ↔
      ((sm.kind = .castleK ∨ sm.kind = .castleQ)
        ∧ (concMove sm).isWellFormed = true ∧ isSemilegal b (concMove sm) = true) := by
  have hb := hv.shape.cons
  have hget : ∀ t, (abs b.r).get t = absCell (b.get t) := fun t => get_abs b.r t
  have hsq := sqOf_eq b.r.side
  have hatt : ∀ t, Spec.attackedBy (abs b.r) t b.r.side.inv = isCellAttacked b t b.r.side.inv :=
    fun t => (isCellAttacked_iff b hb t b.r.side.inv).symm
  obtain ⟨hpK, hpQ⟩ := pass_iff b hb b.r.side
  have s1 : Sq.mk (1 : Fin 8) (castlingRank b.r.side) = Sq.mk ⟨1, by decide⟩ (castlingRank b.r.side) := rfl
  have s2 : Sq.mk (2 : Fin 8) (castlingRank b.r.side) = Sq.mk fileC (castlingRank b.r.side) := rfl
  have s3 : Sq.mk (3 : Fin 8) (castlingRank b.r.side) = Sq.mk fileD (castlingRank b.r.side) := rfl
  have s4 : Sq.mk (4 : Fin 8) (castlingRank b.r.side) = Sq.mk fileE (castlingRank b.r.side) := rfl
  have s5 : Sq.mk (5 : Fin 8) (castlingRank b.r.side) = Sq.mk fileF (castlingRank b.r.side) := rfl
  have s6 : Sq.mk (6 : Fin 8) (castlingRank b.r.side) = Sq.mk fileG (castlingRank b.r.side) := rfl
  rw [mem_castleMoves]
  simp only [hget, cell_isNone, hatt, hsq, abs_rights, abs_rights_has, s1, s2, s3, s4, s5, s6]
  have hK := sl_castle b .king
  have hQ := sl_castle b .queen
  simp only at hK hQ
  constructor
  · rintro (⟨⟨hr, ⟨e1, e2⟩, a1, a2⟩, rfl⟩ | ⟨⟨hr, ⟨e1, e2, e3⟩, a1, a2⟩, rfl⟩)
    · refine ⟨Or.inl rfl, ?_⟩
      rw [concMove_eq]
      refine (hK _ _).mpr ⟨rfl, rfl, (hv.shape.rights _ _ hr).1, ?_, hr, hpK.mpr ⟨e1, e2⟩, a1, a2⟩
      rw [e2, empty_color]; simp
    · refine ⟨Or.inr rfl, ?_⟩
      rw [concMove_eq]
      refine (hQ _ _).mpr ⟨rfl, rfl, (hv.shape.rights _ _ hr).1, ?_, hr, hpQ.mpr ⟨e1, e2, e3⟩, a1, a2⟩
      rw [e2, empty_color]; simp
  · rintro ⟨hk, hwf, hsl⟩
    have hc := sl_color b sm hsl
    rw [concMove_eq] at hwf hsl
    have hp := wf_castle_piece _ _ _ _ _ hk hwf
    obtain ⟨k, ⟨mc, mp⟩, s, d⟩ := sm
    simp only at hk hwf hsl hc hp
    subst hc hp
    rcases hk with rfl | rfl
    · obtain ⟨rfl, rfl, _, _, hr, hpass, a1, a2⟩ := (hK _ _).mp ⟨hwf, hsl⟩
      exact Or.inl ⟨⟨hr, hpK.mp hpass, a1, a2⟩, rfl⟩
    · obtain ⟨rfl, rfl, _, _, hr, hpass, a1, a2⟩ := (hQ _ _).mp ⟨hwf, hsl⟩
      exact Or.inr ⟨⟨hr, hpQ.mp hpass, a1, a2⟩, rfl⟩


/-! ### assembly -/

theorem piece_part (b : Board) (hv : Valid b) (s : Sq) (m : Spec.Man) (hg : (abs b.r).get s = some m)
    (hc : m.color = b.r.side) (sm : Spec.Move) :
    sm ∈ Spec.pieceMoves (abs b.r) s m ↔
      (sm.man = m ∧ sm.src = s ∧ sm.kind ≠ .castleK ∧ sm.kind ≠ .castleQ
        ∧ (concMove sm).isWellFormed = true ∧ isSemilegal b (concMove sm) = true) := by
  obtain ⟨c, p⟩ := m
  simp only at hc
  subst hc
  have hs : b.get s = Cell.mk b.r.side p := by
    rw [get_abs] at hg; exact (absCell_eq_some _ _ _).mp hg
  obtain ⟨k, m', s', d⟩ := sm
  by_cases hp : p = .pawn
  · subst hp
    have : Spec.pieceMoves (abs b.r) s ⟨b.r.side, .pawn⟩ = Spec.pawnMoves (abs b.r) s b.r.side := rfl
    rw [this, mem_pawnMoves]
    simp only
    constructor
    · rintro ⟨rfl, rfl, h⟩
      have hw := (pawn_bridge b hv s' d k hs).mp h
      have hk := wf_pawn_kind _ _ _ _ hw.1
      exact ⟨rfl, rfl, hk.2.1, hk.2.2, hw⟩
    · rintro ⟨rfl, rfl, _, _, hw⟩
      exact ⟨rfl, rfl, (pawn_bridge b hv s' d k hs).mpr hw⟩
  · rw [mem_pieceMoves _ _ _ hp]
    simp only
    constructor
    · rintro ⟨rfl, rfl, rfl, ht, hf⟩
      exact ⟨rfl, rfl, by decide, by decide,
        (piece_bridge b hv p hp s' d .simple hs (by decide) (by decide)).mp ⟨rfl, ht, hf⟩⟩
    · rintro ⟨rfl, rfl, hk1, hk2, hw⟩
      obtain ⟨hk, ht, hf⟩ := (piece_bridge b hv p hp s' d k hs hk1 hk2).mpr hw
      exact ⟨hk, rfl, rfl, ht, hf⟩

/-- C06 (specification side): on a board that passes the validation gate the rules' pseudo-legal moves are exactly
the well-formed semilegal moves of the implementation -/
theorem pseudo_iff_semilegal (b : Board) (hv : Valid b) (sm : Spec.Move) :
    sm ∈ Spec.pseudoMoves (abs b.r) ↔
      ((concMove sm).isWellFormed = true ∧ isSemilegal b (concMove sm) = true) := by
  unfold Spec.pseudoMoves
  simp only [List.mem_append, List.mem_flatMap, abs_side]
  rw [castle_bridge b hv]
  constructor
  · rintro (⟨s, _, h⟩ | h)
    · cases hg : (abs b.r).get s with
      | none => rw [hg] at h; simp at h
      | some m =>
        rw [hg] at h
        simp only at h
        by_cases hc : m.color = b.r.side
        · simp only [hc, ne_eq, not_true_eq_false, if_false] at h
          exact ((piece_part b hv s m hg hc sm).mp h).2.2.2.2
        · simp [hc] at h
    · exact h.2
  · intro hw
    by_cases hk : sm.kind = .castleK ∨ sm.kind = .castleQ
    · exact Or.inr ⟨hk, hw⟩
    · simp only [not_or] at hk
      have hc := sl_color b sm hw.2
      have hsrc := sl_src b sm hw.2
      have hg : (abs b.r).get sm.src = some sm.man := by
        rw [get_abs]; exact (absCell_eq_some _ _ _).mpr hsrc
      refine Or.inl ⟨sm.src, List.mem_finRange _, ?_⟩
      rw [hg]
      simp only [hc, ne_eq, not_true_eq_false, if_false]
      exact (piece_part b hv sm.src sm.man hg hc sm).mpr ⟨rfl, rfl, hk.1, hk.2, hw⟩

/-- every well-formed semilegal implementation move is the image of a pseudo-legal specification move -/
theorem semilegal_abs (b : Board) (hv : Valid b) (mv : Move) (hwf : mv.isWellFormed = true)
    (hsl : isSemilegal b mv = true) :
    ∃ sm, absMove mv = some sm ∧ concMove sm = mv ∧ sm ∈ Spec.pseudoMoves (abs b.r) := by
  obtain ⟨hknull, _, hcol, _⟩ := semilegal_base b mv hsl
  obtain ⟨_, color, piece, hcol', hpiece, _⟩ := wf_facts mv hwf hknull
  have hcell : mv.cell = Cell.mk color piece := piece_of_color_piece hcol' hpiece
  obtain ⟨k, x, s, d⟩ := mv
  simp only at hcell
  subst hcell
  refine ⟨⟨k, ⟨color, piece⟩, s, d⟩, ?_, rfl, ?_⟩
  · simp [absMove, absCell_mk]
  · exact (pseudo_iff_semilegal b hv _).mpr ⟨hwf, hsl⟩

/-- the correspondence is one-to-one: `concMove` is injective -/
theorem concMove_inj (a b : Spec.Move) (h : concMove a = concMove b) : a = b := by
  obtain ⟨k, ⟨c, p⟩, s, d⟩ := a
  obtain ⟨k', ⟨c', p'⟩, s', d'⟩ := b
  simp only [concMove, Move.mk.injEq] at h
  obtain ⟨rfl, hc, rfl, rfl⟩ := h
  have := (absCell_mk c p).symm.trans ((congrArg absCell hc).trans (absCell_mk c' p'))
  simp only [Option.some.injEq, Spec.Man.mk.injEq] at this
  obtain ⟨rfl, rfl⟩ := this
  rfl

end Owl.Lemmas
