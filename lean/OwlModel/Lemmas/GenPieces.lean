/-
C06: pawn geometry facts (kernel-decided), `SL`, and the piece component of the generator.
-/
import OwlModel.Lemmas.SemiChar

namespace Owl.Lemmas
open Owl Owl.Impl

theorem pg_push (c : Color) : ∀ s d : Sq,
    ((s.file = d.file ∧ rankStep c s d) ↔ (d.rank ≠ behindRank c ∧ s = addU d (-(forwardDelta c)))) := by
  cases c <;> unfold rankStep <;> decide +kernel

theorem pg_cap (c : Color) : ∀ s d : Sq,
    ((absDiff s.file.val d.file.val = 1 ∧ rankStep c s d) ↔
      (((d.rank ≠ behindRank c ∧ d.file ≠ 7) ∧ s = addU d (-(leftDelta c)))
       ∨ ((d.rank ≠ behindRank c ∧ d.file ≠ 0) ∧ s = addU d (-(rightDelta c))))) := by
  cases c <;> unfold rankStep <;> decide +kernel

theorem pg_ranks (c : Color) : ∀ s d : Sq, rankStep c s d → s.rank.val ≠ 0 → s.rank.val ≠ 7 →
    (((d.rank.val ≠ 0 ∧ d.rank.val ≠ 7) ↔ s.rank ≠ promoteSrcRank c)
     ∧ (s.rank = promoteSrcRank c ↔ d.rank = promoteDstRank c)) := by
  cases c <;> unfold rankStep <;> decide +kernel

theorem pg_promo (c : Color) : ∀ s d : Sq, s.rank = promoteSrcRank c → absDiff s.file.val d.file.val ≤ 1 →
    (d.rank = promoteDstRank c ↔ rankStep c s d) := by
  cases c <;> unfold rankStep <;> decide +kernel

theorem pg_double (c : Color) : ∀ s d : Sq,
    ((s.file = d.file ∧ s.rank = doubleSrcRank c ∧ d.rank = doubleDstRank c) ↔
      (d.rank ≠ behindRank c ∧ (addU d (-(forwardDelta c))).rank ≠ behindRank c
        ∧ s = addU d (-(2 * forwardDelta c)) ∧ s.rank = doubleSrcRank c))
    ∧ (s = addU d (-(2 * forwardDelta c)) → s.rank = doubleSrcRank c →
        addU (addU d (-(forwardDelta c))) (-(forwardDelta c)) = s ∧ addU s (forwardDelta c) = addU d (-(forwardDelta c))) := by
  cases c <;> decide +kernel

theorem pg_ep (c : Color) : ∀ p s : Sq, p.rank = epSrcRank c →
    ((s.rank = epSrcRank c ∧ (addU p (forwardDelta c)).rank = epDstRank c
        ∧ absDiff s.file.val (addU p (forwardDelta c)).file.val = 1 ∧ (p = addU s 1 ∨ p = addU s (-1))) ↔
      ((p.file ≠ fileA ∧ s = addU p (-1)) ∨ (p.file ≠ fileH ∧ s = addU p 1))) := by
  cases c <;> decide +kernel

/-- well-formed and semilegal -/
def SL (b : Board) (mv : Move) : Prop := mv.isWellFormed = true ∧ isSemilegal b mv = true

theorem allowed_has (b : Board) (hb : Consistent b) (fs fc : Bool) (d : Sq) (hown : (b.get d).color ≠ some b.r.side) :
    (allowedMask b b.r.side fs fc).has d = ((decide (b.get d = Cell.empty) && fs) || (decide (b.get d ≠ Cell.empty) && fc)) := by
  have hc := ((consistent_iff' b).mp hb).2.1
  have hall := all_has b hb d
  have hinv : (b.color b.r.side.inv).has d = decide (b.get d ≠ Cell.empty) := by
    rw [hc]
    apply decide_eq_decide.mpr
    rw [color_inv_iff]
    exact ⟨fun h => h.2, fun h => ⟨hown, h⟩⟩
  have hown' : (b.color b.r.side).has d = false := by rw [hc]; simpa using hown
  have he : (Cell.empty : Cell) = 0 := rfl
  cases fs <;> cases fc <;> simp only [allowedMask, BB.has_not, BB.has_zero, hown', hall, hinv, he] <;>
    by_cases h0 : b.get d = 0 <;> simp [h0]

theorem allowed_not_own (b : Board) (hb : Consistent b) (fs fc : Bool) (d : Sq)
    (h : (allowedMask b b.r.side fs fc).has d = true) : (b.get d).color ≠ some b.r.side := by
  have hc := ((consistent_iff' b).mp hb).2.1
  intro hown
  have h1 : (b.color b.r.side).has d = true := by rw [hc]; simpa using hown
  have h2 : b.all.has d = true := by
    rw [all_has b hb]
    have : b.get d ≠ 0 := by intro e; rw [e] at hown; cases hown
    simpa using this
  have h3 : (b.color b.r.side.inv).has d = false := by
    rw [hc]
    have : ¬ (b.r.side = b.r.side.inv) := fun e => inv_ne _ e.symm
    simp [hown, this]
  cases fs <;> cases fc <;> simp [allowedMask, h1, h2, h3] at h

/-- pieces: the generator's knight / king / bishop / rook / queen part -/
theorem mem_pieces_iff (b : Board) (hb : Consistent b) (fs fc : Bool) (mv : Move) :
    (mv ∈ genKN b b.r.side fs fc .knight ++ genKN b b.r.side fs fc .king ++ genBRQ b b.r.side fs fc) ↔
      (SL b mv ∧ mv.kind = .simple ∧ mv.cell ≠ Cell.mk b.r.side .pawn
        ∧ ((b.get mv.dst = Cell.empty ∧ fs = true) ∨ (b.get mv.dst ≠ Cell.empty ∧ fc = true))) := by
  rw [mem_gen_pieces]
  constructor
  · rintro ⟨p, s, d, hp, h1, h2, h3, rfl⟩
    rw [piece2_has b hb] at h1
    have hown := allowed_not_own b hb fs fc d h3
    have hsl := (sl_piece b p hp s d).mpr ⟨by simpa using h1, h2, hown⟩
    refine ⟨hsl, rfl, ?_, ?_⟩
    · intro e; exact hp (mk_inj e).2
    · rw [allowed_has b hb fs fc d hown] at h3
      show (b.get d = Cell.empty ∧ fs = true) ∨ (b.get d ≠ Cell.empty ∧ fc = true)
      simpa using h3
  · rintro ⟨hsl, hk, hnp, hcls⟩
    obtain ⟨hknull, hsrc, hcol, hdst⟩ := semilegal_base b mv hsl.2
    obtain ⟨_, color, piece, hcol', hpiece, _⟩ := wf_facts mv hsl.1 hknull
    have hcc : color = b.r.side := by rw [hcol] at hcol'; exact (Option.some.inj hcol').symm
    subst hcc
    have hcell := piece_of_color_piece hcol hpiece
    have hp : piece ≠ .pawn := by intro e; subst e; exact hnp hcell
    have hmv : mv = mkMove b.r.side .simple piece mv.src mv.dst := by
      cases mv; simp only [mkMove] at *; simp [hk, hcell]
    rw [hmv] at hsl
    obtain ⟨g1, g2, g3⟩ := (sl_piece b piece hp mv.src mv.dst).mp hsl
    refine ⟨piece, mv.src, mv.dst, hp, ?_, g2, ?_, hmv⟩
    · rw [piece2_has b hb]; simpa using g1
    · rw [allowed_has b hb fs fc _ g3]
      rcases hcls with ⟨h1, h2⟩ | ⟨h1, h2⟩ <;> simp [h1, h2]

end Owl.Lemmas
