import OwlModel.Lemmas.TablesDef
namespace Owl.Lemmas
theorem rook_rank_6 : rookCheckRank 6 = true := by decide +kernel
end Owl.Lemmas
