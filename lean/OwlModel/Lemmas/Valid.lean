/-
`Valid b`: the board passes the validation gate unchanged (`valid_iff_validate`).
`valid_make`: a well-formed, semilegal move that `is_legal_unchecked` accepts leads from a valid board to a valid
board — so everything reachable through the checked API stays inside the gate's conditions (C02, C13).
-/
import OwlModel.Lemmas.Checker
import OwlModel.Lemmas.Validate

namespace Owl.Lemmas
open Owl Owl.Impl

theorem sqall_nodup : (Sq.all).Nodup := List.nodup_finRange 64

/-- relocating one member of a set of squares keeps its size -/
theorem count_move (p p' : Sq → Bool) (s d : Sq) (hs : p s = true) (hd : p d = false) (hs' : p' s = false)
    (hd' : p' d = true) (hoth : ∀ x, x ≠ s → x ≠ d → p' x = p x) :
    (Sq.all.filter p').length = (Sq.all.filter p).length := by
  have hsd : s ≠ d := by intro e; rw [e, hd] at hs; cases hs
  have h1 : Sq.all.Perm (s :: Sq.all.erase s) := List.perm_cons_erase (List.mem_finRange s)
  have hdm : d ∈ Sq.all.erase s := (sqall_nodup.mem_erase_iff).mpr ⟨fun e => hsd e.symm, List.mem_finRange d⟩
  have h2 : (Sq.all.erase s).Perm (d :: (Sq.all.erase s).erase d) := List.perm_cons_erase hdm
  have hperm : Sq.all.Perm (s :: d :: (Sq.all.erase s).erase d) := h1.trans (List.Perm.cons s h2)
  rw [← List.countP_eq_length_filter, ← List.countP_eq_length_filter, hperm.countP_eq, hperm.countP_eq]
  simp only [List.countP_cons, hs, hd, hs', hd', if_true, Bool.false_eq_true, if_false]
  have : List.countP p' ((Sq.all.erase s).erase d) = List.countP p ((Sq.all.erase s).erase d) := by
    apply List.countP_congr
    intro x hx
    have hx1 := ((sqall_nodup.erase s).mem_erase_iff).mp hx
    have hx2 := (sqall_nodup.mem_erase_iff).mp hx1.2
    rw [hoth x hx2.1 hx1.1]
  omega

theorem count_le (p p' : Sq → Bool) (h : ∀ x, p' x = true → p x = true) :
    (Sq.all.filter p').length ≤ (Sq.all.filter p).length := by
  rw [← List.countP_eq_length_filter, ← List.countP_eq_length_filter]
  exact List.countP_mono_left (fun x _ => h x)

theorem count_eq (p p' : Sq → Bool) (h : ∀ x, p' x = p x) :
    (Sq.all.filter p').length = (Sq.all.filter p).length := by
  have : p' = p := funext h
  rw [this]

theorem count_one_iff (p : Sq → Bool) :
    (Sq.all.filter p).length = 1 ↔ ∃ k, p k = true ∧ ∀ t, p t = true → t = k := by
  constructor
  · intro h
    obtain ⟨k, hk⟩ := List.length_eq_one_iff.mp h
    have hm : k ∈ Sq.all.filter p := by rw [hk]; simp
    refine ⟨k, (List.mem_filter.mp hm).2, ?_⟩
    intro t ht
    have : t ∈ Sq.all.filter p := List.mem_filter.mpr ⟨List.mem_finRange t, ht⟩
    rw [hk] at this
    simpa using this
  · intro ⟨k, hk, hu⟩
    have h1 : Sq.all.Perm (k :: Sq.all.erase k) := List.perm_cons_erase (List.mem_finRange k)
    rw [← List.countP_eq_length_filter, h1.countP_eq]
    simp only [List.countP_cons, hk, if_true]
    have : List.countP p (Sq.all.erase k) = 0 := by
      rw [List.countP_eq_zero]
      intro a ha hpa
      have := (sqall_nodup.mem_erase_iff).mp ha
      exact this.1 (hu a hpa)
    omega

def colorCount (b : Board) (c : Color) : Nat := (Sq.all.filter fun t => decide ((b.get t).color = some c)).length

/-- the conditions the validation gate checks, on the squares -/
structure Checks (b : Board) : Prop where
  wlen : colorCount b .white ≤ 16
  blen : colorCount b .black ≤ 16
  king : ∀ c, ∃ k, b.get k = Cell.mk c .king ∧ ∀ t, b.get t = Cell.mk c .king → t = k
  pawns : ∀ t c, b.get t = Cell.mk c .pawn → t.rank.val ≠ 0 ∧ t.rank.val ≠ 7
  safe : ∀ k, b.get k = Cell.mk b.r.side.inv .king → isCellAttacked b k b.r.side = false

theorem color_len (b : Board) (hb : Consistent b) (c : Color) : (b.color c).len = colorCount b c := by
  rw [consistent_iff'] at hb
  unfold BB.len BB.toList colorCount
  apply count_eq
  intro x; rw [hb.2.1]

theorem king_len (b : Board) (hb : Consistent b) (c : Color) :
    (b.piece2 c .king).len = (Sq.all.filter fun t => decide (b.get t = Cell.mk c .king)).length := by
  unfold BB.len BB.toList
  apply count_eq
  intro x; rw [piece2_has b hb]

theorem rank07 (s : Sq) : (decide (Spec.rank s = 0) || decide (Spec.rank s = 7)) = (decide (s.rank.val = 0) || decide (s.rank.val = 7)) := by
  revert s; decide

theorem checkBoard_iff (b : Board) (hb : Consistent b) : checkBoard b = .ok b ↔ Checks b := by
  have hw : b.white.len = colorCount b .white := color_len b hb .white
  have hbl : b.black.len = colorCount b .black := color_len b hb .black
  have hpawn : ∀ t, (((b.piece2 .white .pawn ||| b.piece2 .black .pawn) &&& BB.ofNat Gen.badPawnPoses).has t = false)
      ↔ ((b.get t = Cell.mk .white .pawn ∨ b.get t = Cell.mk .black .pawn) → t.rank.val ≠ 0 ∧ t.rank.val ≠ 7) := by
    intro t
    rw [BB.has_and, BB.has_or, piece2_has b hb, piece2_has b hb, bad_mask, rank07]
    by_cases h1 : b.get t = Cell.mk .white .pawn <;> by_cases h2 : b.get t = Cell.mk .black .pawn <;>
      by_cases h3 : t.rank.val = 0 <;> by_cases h4 : t.rank.val = 7 <;> simp [h1, h2, h3, h4]
  have hkone : ∀ c, ((b.piece2 c .king).isEmpty = false ∧ (b.piece2 c .king).len ≤ 1) ↔
      ∃ k, b.get k = Cell.mk c .king ∧ ∀ t, b.get t = Cell.mk c .king → t = k := by
    intro c
    have h0 : (b.piece2 c .king).isEmpty = false ↔ (b.piece2 c .king).len ≠ 0 := by
      constructor
      · intro h e; have := (isEmpty_iff_len _).mpr e; rw [h] at this; cases this
      · intro h
        cases he : (b.piece2 c .king).isEmpty
        · rfl
        · exact absurd ((isEmpty_iff_len _).mp he) h
    rw [h0]
    have : ((b.piece2 c .king).len ≠ 0 ∧ (b.piece2 c .king).len ≤ 1) ↔ (b.piece2 c .king).len = 1 := by omega
    rw [this, king_len b hb, count_one_iff]
    simp only [decide_eq_true_eq]
  constructor
  · intro h
    unfold checkBoard at h
    simp only [Gen.tooManyW, Gen.tooManyB, Gen.tooManyKingsW, Gen.tooManyKingsB, decide_eq_true_eq] at h
    split at h; · cases h
    split at h; · cases h
    split at h; · cases h
    split at h; · cases h
    split at h; · cases h
    split at h; · cases h
    rename_i h1 h2 h3 h4 h5 h6
    split at h; · cases h
    rename_i hfirst
    rw [first?_none] at hfirst
    split at h
    · cases h
    · cases h
    · rename_i hopp
      have hkings : ∀ c, ∃ k, b.get k = Cell.mk c .king ∧ ∀ t, b.get t = Cell.mk c .king → t = k := by
        intro c
        apply (hkone c).mp
        cases c
        · exact ⟨by simpa using h3, by omega⟩
        · exact ⟨by simpa using h4, by omega⟩
      refine ⟨by omega, by omega, hkings, ?_, ?_⟩
      · intro t c hc
        apply (hpawn t).mp (hfirst t)
        cases c
        · exact Or.inl hc
        · exact Or.inr hc
      · intro k hk
        unfold isOpponentKingAttacked? at hopp
        cases hkp : b.kingPos? b.r.side.inv with
        | none => rw [hkp] at hopp; cases hopp
        | some k' =>
          rw [hkp] at hopp
          simp only [Option.some.injEq] at hopp
          have hk' := first?_some _ _ hkp
          rw [piece2_has b hb] at hk'
          obtain ⟨k0, _, hu⟩ := hkings b.r.side.inv
          rw [hu k hk, ← hu k' (by simpa using hk')]
          exact hopp
  · intro ⟨c1, c2, c3, c4, c5⟩
    have k1 := (hkone .white).mpr (c3 .white)
    have k2 := (hkone .black).mpr (c3 .black)
    unfold checkBoard
    simp only [Gen.tooManyW, Gen.tooManyB, Gen.tooManyKingsW, Gen.tooManyKingsB, decide_eq_true_eq]
    rw [if_neg (by omega), if_neg (by omega), if_neg (by simp [k1.1]), if_neg (by simp [k2.1]),
      if_neg (by have := k1.2; omega), if_neg (by have := k2.2; omega)]
    have hf : ((b.piece2 .white .pawn ||| b.piece2 .black .pawn) &&& BB.ofNat Gen.badPawnPoses).first? = none := by
      rw [first?_none]
      intro t
      apply (hpawn t).mpr
      intro h
      rcases h with h | h
      · exact c4 t _ h
      · exact c4 t _ h
    rw [hf]
    simp only
    obtain ⟨k, hk, _⟩ := c3 b.r.side.inv
    unfold isOpponentKingAttacked?
    cases hkp : b.kingPos? b.r.side.inv with
    | none =>
      exfalso
      unfold Board.kingPos? at hkp
      rw [first?_none] at hkp
      have := hkp k
      rw [piece2_has b hb, hk] at this
      simp at this
    | some k' =>
      have hk' := first?_some _ _ hkp
      rw [piece2_has b hb] at hk'
      simp only
      rw [c5 k' (by simpa using hk')]

/-- a board that passes the validation gate unchanged -/
structure Valid (b : Board) : Prop where
  shape : Shape b
  checks : Checks b

theorem valid_iff_validate (b : Board) : Valid b ↔ validate b.r = .ok b := by
  constructor
  · intro ⟨hs, hc⟩
    have hcons : b = buildBoard b.r := hs.cons
    unfold validate
    rw [normaliseEp_fix b.r hs.ep]
    simp only
    rw [normaliseCastling_fix b.r hs.rights, ← hcons]
    exact (checkBoard_iff b hs.cons).mpr hc
  · intro h
    have hs := validate_shape b.r b h
    refine ⟨hs, ?_⟩
    have hcons : b = buildBoard b.r := hs.cons
    unfold validate at h
    rw [normaliseEp_fix b.r hs.ep] at h
    simp only at h
    rw [normaliseCastling_fix b.r hs.rights, ← hcons] at h
    exact (checkBoard_iff b hs.cons).mp h

/-- the man standing on the destination after a non-castling move -/
def newCell (mv : Move) (c : Color) : Cell :=
  match mv.kind with
  | .simple => mv.cell
  | .promN => Cell.mk c .knight | .promB => Cell.mk c .bishop | .promR => Cell.mk c .rook | .promQ => Cell.mk c .queen
  | _ => Cell.mk c .pawn

theorem make_get_dst_eq (b : Board) (mv : Move) (hn : NonCastle mv)
    (hv : mv.kind = .ep → mv.dst ≠ addU mv.dst (-(forwardDelta b.r.side))) :
    (makeMove b mv).1.get mv.dst = newCell mv b.r.side := by
  obtain ⟨h0, h1, h2⟩ := hn
  rw [make_get, make_cells, makeBody_cells, clearEp_cells]
  unfold newCell
  cases hk : mv.kind <;> simp only [hk, Tab.get_put, if_true] <;> first
    | exact absurd hk h0 | exact absurd hk h1 | exact absurd hk h2 | skip
  · have : ¬ addU mv.dst (-(forwardDelta b.r.side)) = mv.dst := fun e => hv hk e.symm
    simp [this]
  all_goals rfl

/-- every square after a non-castling move -/
theorem post_get (b : Board) (mv : Move) (hn : NonCastle mv) (F : MoveFacts b mv) (t : Sq) :
    (makeMove b mv).1.get t =
      if t = mv.src then Cell.empty
      else if t = mv.dst then newCell mv b.r.side
      else if mv.kind = .ep ∧ t = addU mv.dst (-(forwardDelta b.r.side)) then Cell.empty
      else b.get t := by
  by_cases h1 : t = mv.src
  · rw [if_pos h1, h1]; exact make_get_src b mv hn F.ne F.vs
  · rw [if_neg h1]
    by_cases h2 : t = mv.dst
    · rw [if_pos h2, h2]; exact make_get_dst_eq b mv hn F.vd
    · rw [if_neg h2]
      by_cases h3 : mv.kind = .ep ∧ t = addU mv.dst (-(forwardDelta b.r.side))
      · rw [if_pos h3, h3.2]; exact make_get_victim b mv h3.1
      · rw [if_neg h3]
        exact make_get_other b mv t h1 h2 (fun h => absurd h (by simp [hn.2.1, hn.2.2]))
          (fun hk e => h3 ⟨hk, e⟩)

theorem newCell_color (mv : Move) (c : Color) (hcol : mv.cell.color = some c) : (newCell mv c).color = some c := by
  unfold newCell; cases mv.kind <;> simp [hcol]

theorem newCell_king (mv : Move) (c cc : Color) (piece : Piece) (hcell : mv.cell = Cell.mk c piece)
    (hmatch : mv.kind.matchesPiece piece = true) (h : newCell mv c = Cell.mk cc .king) : piece = .king ∧ cc = c := by
  unfold newCell at h
  cases hk : mv.kind <;> simp only [hk] at h hmatch
  all_goals first
    | (rw [hcell] at h; obtain ⟨h1, h2⟩ := mk_inj h; exact ⟨h2, h1.symm⟩)
    | (exact absurd (mk_inj h).2 (by decide))
    | skip
  all_goals (revert hmatch; cases piece <;> simp [Kind.matchesPiece] <;> (intro; exact absurd (mk_inj h).2 (by decide)))

theorem newCell_pawn (mv : Move) (c cc : Color) (piece : Piece) (hcell : mv.cell = Cell.mk c piece)
    (hmatch : mv.kind.matchesPiece piece = true) (hn : NonCastle mv) (h : newCell mv c = Cell.mk cc .pawn) :
    mv.cell = Cell.mk c .pawn ∧ (mv.kind = .simple ∨ mv.kind = .double ∨ mv.kind = .ep) := by
  unfold newCell at h
  obtain ⟨h0, h1, h2⟩ := hn
  cases hk : mv.kind <;> simp only [hk] at h hmatch
  · exact absurd hk h0
  · rw [hcell] at h; obtain ⟨_, e⟩ := mk_inj h; subst e; exact ⟨hcell, Or.inl rfl⟩
  · exact absurd hk h1
  · exact absurd hk h2
  · have := matches_pawn hmatch (Or.inl rfl); subst this; exact ⟨hcell, Or.inr (Or.inl rfl)⟩
  · have := matches_pawn hmatch (Or.inr (Or.inl rfl)); subst this; exact ⟨hcell, Or.inr (Or.inr rfl)⟩
  all_goals exact absurd (mk_inj h).2 (by decide)

theorem empty_color : Cell.empty.color = none := by decide

theorem color_ne_inv {c s : Color} (h : c ≠ s) : c = s.inv := by
  revert h; cases c <;> cases s <;> simp [Color.inv]

theorem no_king_capture' (b : Board) (hv : Valid b) (mv : Move) (hwf : mv.isWellFormed = true)
    (hsl : isSemilegal b mv = true) (c : Color) : b.get mv.dst ≠ Cell.mk c .king := by
  intro hking
  obtain ⟨_, _, _, hdst⟩ := semilegal_base b mv hsl
  have hc : c = b.r.side.inv := by
    rw [hking, color_mk] at hdst
    cases c <;> cases hsd : b.r.side <;> simp_all [Color.inv]
  subst hc
  have hatt := semilegal_capture_attacks b mv hv.shape hwf hsl (by rw [hking]; exact mk_ne_zero _ _)
  rw [hv.checks.safe mv.dst hking] at hatt
  cases hatt

theorem kingPos_of (b : Board) (hb : Consistent b) (c : Color) (k : Sq) (hk : b.get k = Cell.mk c .king)
    (hu : ∀ t, b.get t = Cell.mk c .king → t = k) : b.kingPos? c = some k := by
  cases h : b.kingPos? c with
  | none =>
    unfold Board.kingPos? at h
    rw [first?_none] at h
    have := h k
    rw [piece2_has b hb, hk] at this
    simp at this
  | some k' =>
    have hk' := first?_some _ _ h
    rw [piece2_has b hb] at hk'
    rw [hu k' (by simpa using hk')]

theorem legal_unfold (b : Board) (hb : Consistent b) (mv : Move) (k : Sq) (hk : b.get k = Cell.mk b.r.side .king)
    (hu : ∀ t, b.get t = Cell.mk b.r.side .king → t = k) :
    isLegalUnchecked? b mv = some (Checker.isLegal ⟨b, .nil, b.r.side.inv, k⟩ mv) := by
  unfold isLegalUnchecked? mkChecker?
  rw [kingPos_of b hb _ k hk hu]
  rfl

/-- the gate's conditions survive a legal non-castling move -/
theorem checks_make_nc (b : Board) (mv : Move) (hv : Valid b) (hwf : mv.isWellFormed = true)
    (hsl : isSemilegal b mv = true) (hn : NonCastle mv) :
    (∀ k, b.get k = Cell.mk b.r.side .king →
      (makeMove b mv).1.get (if mv.src = k then mv.dst else k) = Cell.mk b.r.side .king
      ∧ ∀ t, (makeMove b mv).1.get t = Cell.mk b.r.side .king → t = (if mv.src = k then mv.dst else k))
    ∧ ((∀ k, b.get k = Cell.mk b.r.side .king →
        isCellAttacked (makeMove b mv).1 (if mv.src = k then mv.dst else k) b.r.side.inv = false) →
      Checks (makeMove b mv).1) := by
  have hs := hv.shape
  have F := moveFacts b mv hs hwf hsl
  obtain ⟨hknull, hsrc, hcol, hdst⟩ := semilegal_base b mv hsl
  obtain ⟨hne, color, piece, hcol', hpiece, hmatch, _, _, _⟩ := wf_facts mv hwf hknull
  have hcc : color = b.r.side := by rw [hcol] at hcol'; exact (Option.some.inj hcol').symm
  subst hcc
  have hcell := piece_of_color_piece hcol hpiece
  have hnk := no_king_capture' b hv mv hwf hsl
  have hG := post_get b mv hn F
  have hnc := newCell_color mv b.r.side hcol
  obtain ⟨k, hk, hku⟩ := hv.checks.king b.r.side
  obtain ⟨ko, hko, hkou⟩ := hv.checks.king b.r.side.inv
  have hvict : mv.kind = .ep → ∀ cc, b.get (addU mv.dst (-(forwardDelta b.r.side))) ≠ Cell.mk cc .king := by
    intro he cc e; rw [F.vp he] at e; exact absurd (mk_inj e).2 (by decide)
  -- the mover's king afterwards
  let k' := if mv.src = k then mv.dst else k
  have hk' : (makeMove b mv).1.get k' = Cell.mk b.r.side .king ∧
      ∀ t, (makeMove b mv).1.get t = Cell.mk b.r.side .king → t = k' := by
    show (makeMove b mv).1.get (if mv.src = k then mv.dst else k) = _ ∧ ∀ t, _ → t = (if mv.src = k then mv.dst else k)
    by_cases hsk : mv.src = k
    · rw [if_pos hsk]
      have hpk : piece = .king := by rw [← hsk, hsrc, hcell] at hk; exact (mk_inj hk).2
      subst hpk
      have hks : mv.kind = .simple := by
        cases hkk : mv.kind <;> rw [hkk] at hmatch <;> first
          | rfl | exact absurd hkk hknull | exact absurd hkk hn.2.1 | exact absurd hkk hn.2.2
          | (simp [Kind.matchesPiece] at hmatch)
      constructor
      · rw [hG, if_neg (fun e => hne e.symm), if_pos rfl]; unfold newCell; rw [hks]; exact hcell
      · intro t ht
        rw [hG] at ht
        by_cases h1 : t = mv.src
        · rw [if_pos h1] at ht; exact absurd ht.symm (mk_ne_zero _ _)
        · rw [if_neg h1] at ht
          by_cases h2 : t = mv.dst
          · exact h2
          · rw [if_neg h2, if_neg (by simp [hks])] at ht
            exact absurd ((hku t ht).trans hsk.symm) h1
    · rw [if_neg hsk]
      have hkd : k ≠ mv.dst := by intro e; rw [← e, hk, color_mk] at hdst; exact hdst rfl
      constructor
      · rw [hG, if_neg (fun e => hsk e.symm), if_neg hkd]
        split
        · rename_i h; exact absurd hk (by rw [h.2]; exact hvict h.1 _)
        · exact hk
      · intro t ht
        rw [hG] at ht
        by_cases h1 : t = mv.src
        · rw [if_pos h1] at ht; exact absurd ht.symm (mk_ne_zero _ _)
        · rw [if_neg h1] at ht
          by_cases h2 : t = mv.dst
          · rw [if_pos h2] at ht
            obtain ⟨hp, _⟩ := newCell_king mv _ _ piece hcell hmatch ht
            subst hp
            rw [← hsrc] at hcell
            exact absurd (hku _ hcell) hsk
          · rw [if_neg h2] at ht
            split at ht
            · exact absurd ht.symm (mk_ne_zero _ _)
            · exact hku t ht
  -- the opponent's king stays
  have hko' : (makeMove b mv).1.get ko = Cell.mk b.r.side.inv .king ∧
      ∀ t, (makeMove b mv).1.get t = Cell.mk b.r.side.inv .king → t = ko := by
    have h1 : ko ≠ mv.src := by
      intro e; rw [e, hsrc] at hko; rw [hko, color_mk] at hcol; exact inv_ne _ (Option.some.inj hcol)
    have h2 : ko ≠ mv.dst := by intro e; rw [e] at hko; exact hnk _ hko
    constructor
    · rw [hG, if_neg h1, if_neg h2]
      split
      · rename_i h; exact absurd hko (by rw [h.2]; exact hvict h.1 _)
      · exact hko
    · intro t ht
      rw [hG] at ht
      by_cases h1 : t = mv.src
      · rw [if_pos h1] at ht; exact absurd ht.symm (mk_ne_zero _ _)
      · rw [if_neg h1] at ht
        by_cases h2 : t = mv.dst
        · rw [if_pos h2] at ht
          rw [ht, color_mk] at hnc
          exact absurd (Option.some.inj hnc) (inv_ne _)
        · rw [if_neg h2] at ht
          split at ht
          · exact absurd ht.symm (mk_ne_zero _ _)
          · exact hkou t ht
  have hsrcC : (b.get mv.src).color = some b.r.side := by rw [hsrc]; exact hcol
  have hcside : colorCount (makeMove b mv).1 b.r.side = colorCount b b.r.side := by
    unfold colorCount
    apply count_move _ _ mv.src mv.dst
    · simp [hsrcC]
    · simpa using hdst
    · rw [hG, if_pos rfl]; simp [empty_color]
    · rw [hG, if_neg (fun e => hne e.symm), if_pos rfl]; simp [hnc]
    · intro x h1 h2
      rw [hG, if_neg h1, if_neg h2]
      split
      · rename_i h
        rw [h.2, F.vp h.1, color_mk]
        have : ¬ (b.r.side.inv = b.r.side) := inv_ne _
        simp [empty_color, this]
      · rfl
  have hcinv : colorCount (makeMove b mv).1 b.r.side.inv ≤ colorCount b b.r.side.inv := by
    unfold colorCount
    apply count_le
    intro x hx
    rw [hG] at hx
    by_cases h1 : x = mv.src
    · rw [if_pos h1] at hx; simp [empty_color] at hx
    · rw [if_neg h1] at hx
      by_cases h2 : x = mv.dst
      · rw [if_pos h2, hnc] at hx
        have : ¬ (b.r.side = b.r.side.inv) := fun e => inv_ne _ e.symm
        simp [this] at hx
      · rw [if_neg h2] at hx
        split at hx
        · simp [empty_color] at hx
        · exact hx
  have hw0 := hv.checks.wlen
  have hb0 := hv.checks.blen
  refine ⟨fun k2 hk2 => by rw [hku k2 hk2]; exact hk', fun hsafe => ?_⟩
  refine ⟨?_, ?_, ?_, ?_, ?_⟩
  · cases hsd : b.r.side <;> rw [hsd] at hcside hcinv
    · omega
    · exact Nat.le_trans hcinv hw0
  · cases hsd : b.r.side <;> rw [hsd] at hcside hcinv
    · exact Nat.le_trans hcinv hb0
    · omega
  · intro c
    by_cases hc : c = b.r.side
    · subst hc; exact ⟨k', hk'⟩
    · have := color_ne_inv hc
      subst this; exact ⟨ko, hko'⟩
  · intro t c ht
    rw [hG] at ht
    by_cases h1 : t = mv.src
    · rw [if_pos h1] at ht; exact absurd ht.symm (mk_ne_zero _ _)
    · rw [if_neg h1] at ht
      by_cases h2 : t = mv.dst
      · rw [if_pos h2] at ht
        obtain ⟨hp, hkind⟩ := newCell_pawn mv _ _ piece hcell hmatch hn ht
        obtain ⟨_, _, r3, r4⟩ := wf_pawn_ranks mv b.r.side hwf hp hkind
        rw [h2]; exact ⟨r3, r4⟩
      · rw [if_neg h2] at ht
        split at ht
        · exact absurd ht.symm (mk_ne_zero _ _)
        · exact hv.checks.pawns t c ht
  · intro k2 hk2
    rw [make_side, Color.inv_inv] at hk2
    rw [make_side]
    rw [hk'.2 k2 hk2]
    exact hsafe k hk

structure CastleFacts (b b' : Board) (c : Color) (K0 K1 R0 R1 : Sq) : Prop where
  n1 : K0 ≠ K1
  n2 : K0 ≠ R0
  n3 : K0 ≠ R1
  n4 : K1 ≠ R0
  n5 : K1 ≠ R1
  n6 : R0 ≠ R1
  bK0 : b.get K0 = Cell.mk c .king
  bR0 : b.get R0 = Cell.mk c .rook
  bK1 : b.get K1 = Cell.empty
  bR1 : b.get R1 = Cell.empty
  get' : ∀ t, b'.get t = if t = K1 then Cell.mk c .king else if t = R1 then Cell.mk c .rook
    else if t = K0 ∨ t = R0 then Cell.empty else b.get t

theorem checks_castle (b b' : Board) (c : Color) (K0 K1 R0 R1 : Sq) (hc : Checks b) (CF : CastleFacts b b' c K0 K1 R0 R1)
    (hside : b.r.side = c) (hside' : b'.r.side = c.inv) :
    (b'.get K1 = Cell.mk c .king ∧ ∀ t, b'.get t = Cell.mk c .king → t = K1)
    ∧ (isCellAttacked b' K1 c.inv = false → Checks b') := by
  obtain ⟨n1, n2, n3, n4, n5, n6, bK0, bR0, bK1, bR1, hG⟩ := CF
  have hcne : ¬ (c = c.inv) := fun e => inv_ne _ e.symm
  have hcne' : ¬ (c.inv = c) := inv_ne _
  have hmover : colorCount b' c = colorCount b c := by
    unfold colorCount
    let p1 : Sq → Bool := fun t => if t = K0 then false else if t = K1 then true else decide ((b.get t).color = some c)
    have s1 : (Sq.all.filter p1).length = (Sq.all.filter fun t => decide ((b.get t).color = some c)).length := by
      apply count_move _ _ K0 K1
      · simp [bK0]
      · simp [bK1, empty_color]
      · simp [p1]
      · simp [p1, n1.symm]
      · intro x h1 h2; simp [p1, h1, h2]
    rw [← s1]
    apply count_move _ _ R0 R1
    · simp [p1, n2.symm, n4.symm, bR0]
    · simp [p1, n3.symm, n5.symm, bR1, empty_color]
    · rw [hG, if_neg n4.symm, if_neg n6, if_pos (Or.inr rfl)]; simp [empty_color]
    · rw [hG, if_neg n5.symm, if_pos rfl]; simp
    · intro x h1 h2
      rw [hG]
      by_cases e1 : x = K1
      · simp [p1, e1, n1.symm]
      · by_cases e2 : x = K0
        · simp [p1, e1, e2, h2, n3, empty_color, n1]
        · simp [p1, e1, e2, h1, h2]
  have hother : colorCount b' c.inv = colorCount b c.inv := by
    unfold colorCount
    apply count_eq
    intro x
    rw [hG]
    by_cases e1 : x = K1
    · simp [e1, bK1, empty_color, hcne]
    · by_cases e2 : x = R1
      · simp [e2, n5.symm, bR1, empty_color, hcne]
      · by_cases e3 : x = K0
        · simp [e3, n1, n3, bK0, empty_color, hcne]
        · by_cases e4 : x = R0
          · simp [e4, n2.symm, n4.symm, n6, bR0, empty_color, hcne]
          · simp [e1, e2, e3, e4]
  obtain ⟨k, hk, hku⟩ := hc.king c
  have hkK0 : k = K0 := (hku K0 bK0).symm
  obtain ⟨ko, hko, hkou⟩ := hc.king c.inv
  have hko4 : ko ≠ K1 ∧ ko ≠ R1 ∧ ko ≠ K0 ∧ ko ≠ R0 := by
    refine ⟨?_, ?_, ?_, ?_⟩ <;> intro e <;> rw [e] at hko
    · rw [bK1] at hko; exact mk_ne_zero _ _ hko.symm
    · rw [bR1] at hko; exact mk_ne_zero _ _ hko.symm
    · rw [bK0] at hko; exact cell_color_ne _ _ _ hko
    · rw [bR0] at hko; exact cell_color_ne _ _ _ hko
  have hking' : ∀ t, b'.get t = Cell.mk c .king → t = K1 := by
    intro t ht
    rw [hG] at ht
    by_cases e1 : t = K1
    · exact e1
    · rw [if_neg e1] at ht
      by_cases e2 : t = R1
      · rw [if_pos e2] at ht; exact absurd (mk_inj ht).2 (by decide)
      · rw [if_neg e2] at ht
        split at ht
        · exact absurd ht.symm (mk_ne_zero _ _)
        · rename_i h3
          exact absurd ((hku t ht).trans hkK0) (fun e => h3 (Or.inl e))
  have hkingo' : ∀ t, b'.get t = Cell.mk c.inv .king → t = ko := by
    intro t ht
    rw [hG] at ht
    by_cases e1 : t = K1
    · rw [if_pos e1] at ht; exact absurd ht (cell_color_ne _ _ _)
    · rw [if_neg e1] at ht
      by_cases e2 : t = R1
      · rw [if_pos e2] at ht; exact absurd ht (cell_color_ne _ _ _)
      · rw [if_neg e2] at ht
        split at ht
        · exact absurd ht.symm (mk_ne_zero _ _)
        · exact hkou t ht
  have hw0 := hc.wlen
  have hb0 := hc.blen
  refine ⟨⟨by rw [hG, if_pos rfl], hking'⟩, fun hsafe => ?_⟩
  refine ⟨?_, ?_, ?_, ?_, ?_⟩
  · cases c
    · rw [hmover]; exact hw0
    · rw [show Color.white = Color.black.inv from rfl, hother]; exact hw0
  · cases c
    · rw [show Color.black = Color.white.inv from rfl, hother]; exact hb0
    · rw [hmover]; exact hb0
  · intro cc
    by_cases hcc : cc = c
    · subst hcc
      exact ⟨K1, by rw [hG, if_pos rfl], hking'⟩
    · have := color_ne_inv hcc
      subst this
      refine ⟨ko, ?_, hkingo'⟩
      rw [hG, if_neg hko4.1, if_neg hko4.2.1, if_neg (by simp [hko4.2.2.1, hko4.2.2.2])]
      exact hko
  · intro t cc ht
    rw [hG] at ht
    by_cases e1 : t = K1
    · rw [if_pos e1] at ht; exact absurd (mk_inj ht).2 (by decide)
    · rw [if_neg e1] at ht
      by_cases e2 : t = R1
      · rw [if_pos e2] at ht; exact absurd (mk_inj ht).2 (by decide)
      · rw [if_neg e2] at ht
        split at ht
        · exact absurd ht.symm (mk_ne_zero _ _)
        · exact hc.pawns t cc ht
  · intro k2 hk2
    rw [hside', Color.inv_inv] at hk2
    rw [hside', hking' k2 hk2]
    exact hsafe

/-- after a semilegal move from a valid board: where the mover's king stands, and validity of the result provided that
square is not attacked -/
theorem make_valid_core (b : Board) (mv : Move) (hv : Valid b) (hwf : mv.isWellFormed = true)
    (hsl : isSemilegal b mv = true) :
    (∀ k, b.get k = Cell.mk b.r.side .king →
      (makeMove b mv).1.get (if mv.src = k then mv.dst else k) = Cell.mk b.r.side .king
      ∧ ∀ t, (makeMove b mv).1.get t = Cell.mk b.r.side .king → t = (if mv.src = k then mv.dst else k))
    ∧ ((∀ k, b.get k = Cell.mk b.r.side .king →
        isCellAttacked (makeMove b mv).1 (if mv.src = k then mv.dst else k) b.r.side.inv = false) →
      Valid (makeMove b mv).1) := by
  have hs := hv.shape
  have hshape' := make_shape b mv hs hwf hsl
  obtain ⟨hknull, hsrc, hcol, hdst⟩ := semilegal_base b mv hsl
  obtain ⟨hne, color, piece, hcol', hpiece, hmatch, hK, hQ, _⟩ := wf_facts mv hwf hknull
  have hcc : color = b.r.side := by rw [hcol] at hcol'; exact (Option.some.inj hcol').symm
  subst hcc
  have ok := makeOk_of_semilegal b mv hs hwf hsl
  obtain ⟨k, hk, hku⟩ := hv.checks.king b.r.side
  obtain ⟨nEF, nEG, nEH, nFG, nFH, nGH, nAC, nAD, nAE, nCD, nCE, nDE⟩ := castle_sq_ne b.r.side
  by_cases hcK : mv.kind = .castleK
  · unfold MakeOk at ok; simp only [hcK] at ok
    obtain ⟨okE, okF, okG, okH⟩ := ok
    obtain ⟨e1, e2⟩ := hK hcK
    have hsk : mv.src = k := by rw [e1]; exact hku _ okE
    have CF : CastleFacts b (makeMove b mv).1 b.r.side (Sq.mk fileE (castlingRank b.r.side))
        (Sq.mk fileG (castlingRank b.r.side)) (Sq.mk fileH (castlingRank b.r.side)) (Sq.mk fileF (castlingRank b.r.side)) := by
      refine ⟨nEG, nEH, nEF, nGH, nFG.symm, nFH.symm, okE, okH, okG, okF, ?_⟩
      intro t
      rw [make_get_castleK b mv hcK]
      by_cases h1 : Sq.mk fileH (castlingRank b.r.side) = t
      · subst h1; simp [nGH.symm, nFH.symm]
      · by_cases h2 : Sq.mk fileG (castlingRank b.r.side) = t
        · subst h2; simp [h1]
        · by_cases h3 : Sq.mk fileF (castlingRank b.r.side) = t
          · subst h3; simp [h1, h2, nFG]
          · by_cases h4 : Sq.mk fileE (castlingRank b.r.side) = t
            · subst h4; simp [h1, h2, h3, nEG, nEF]
            · have g1 : ¬ t = Sq.mk fileH (castlingRank b.r.side) := fun e => h1 e.symm
              have g2 : ¬ t = Sq.mk fileG (castlingRank b.r.side) := fun e => h2 e.symm
              have g3 : ¬ t = Sq.mk fileF (castlingRank b.r.side) := fun e => h3 e.symm
              have g4 : ¬ t = Sq.mk fileE (castlingRank b.r.side) := fun e => h4 e.symm
              simp [h1, h2, h3, h4, g1, g2, g3, g4]
    obtain ⟨c1, c2⟩ := checks_castle b _ b.r.side _ _ _ _ hv.checks CF rfl (make_side b mv)
    refine ⟨fun k2 hk2 => ?_, fun hsafe => ⟨hshape', c2 ?_⟩⟩
    · rw [hku k2 hk2, if_pos hsk, e2]; exact c1
    · have := hsafe k hk; rw [if_pos hsk, e2] at this; exact this
  · by_cases hcQ : mv.kind = .castleQ
    · unfold MakeOk at ok; simp only [hcQ] at ok
      obtain ⟨okA, okC, okD, okE⟩ := ok
      obtain ⟨e1, e2⟩ := hQ hcQ
      have hsk : mv.src = k := by rw [e1]; exact hku _ okE
      have CF : CastleFacts b (makeMove b mv).1 b.r.side (Sq.mk fileE (castlingRank b.r.side))
          (Sq.mk fileC (castlingRank b.r.side)) (Sq.mk fileA (castlingRank b.r.side)) (Sq.mk fileD (castlingRank b.r.side)) := by
        refine ⟨nCE.symm, nAE.symm, nDE.symm, nAC.symm, nCD, nAD, okE, okA, okC, okD, ?_⟩
        intro t
        rw [make_get_castleQ b mv hcQ]
        by_cases h1 : Sq.mk fileE (castlingRank b.r.side) = t
        · subst h1; simp [nCE.symm, nDE.symm]
        · by_cases h2 : Sq.mk fileD (castlingRank b.r.side) = t
          · subst h2; simp [h1, nCD.symm]
          · by_cases h3 : Sq.mk fileC (castlingRank b.r.side) = t
            · subst h3; simp [h1, h2]
            · by_cases h4 : Sq.mk fileA (castlingRank b.r.side) = t
              · subst h4; simp [h1, h2, h3, nAC, nAD]
              · have g1 : ¬ t = Sq.mk fileE (castlingRank b.r.side) := fun e => h1 e.symm
                have g2 : ¬ t = Sq.mk fileD (castlingRank b.r.side) := fun e => h2 e.symm
                have g3 : ¬ t = Sq.mk fileC (castlingRank b.r.side) := fun e => h3 e.symm
                have g4 : ¬ t = Sq.mk fileA (castlingRank b.r.side) := fun e => h4 e.symm
                simp [h1, h2, h3, h4, g1, g2, g3, g4]
      obtain ⟨c1, c2⟩ := checks_castle b _ b.r.side _ _ _ _ hv.checks CF rfl (make_side b mv)
      refine ⟨fun k2 hk2 => ?_, fun hsafe => ⟨hshape', c2 ?_⟩⟩
      · rw [hku k2 hk2, if_pos hsk, e2]; exact c1
      · have := hsafe k hk; rw [if_pos hsk, e2] at this; exact this
    · obtain ⟨c1, c2⟩ := checks_make_nc b mv hv hwf hsl ⟨hknull, hcK, hcQ⟩
      exact ⟨c1, fun hsafe => ⟨hshape', c2 hsafe⟩⟩

theorem valid_make_of_safe (b : Board) (mv : Move) (hv : Valid b) (hwf : mv.isWellFormed = true)
    (hsl : isSemilegal b mv = true)
    (hsafe0 : ∀ k, b.get k = Cell.mk b.r.side .king →
      isCellAttacked (makeMove b mv).1 (if mv.src = k then mv.dst else k) b.r.side.inv = false) :
    Valid (makeMove b mv).1 := (make_valid_core b mv hv hwf hsl).2 hsafe0

/-- C02 core: a legal move leads from a position that passes the validation gate to another such position -/
theorem valid_make (b : Board) (mv : Move) (hv : Valid b) (hwf : mv.isWellFormed = true)
    (hsl : isSemilegal b mv = true) (hleg : isLegalUnchecked? b mv = some true) : Valid (makeMove b mv).1 := by
  apply valid_make_of_safe b mv hv hwf hsl
  intro k hk
  obtain ⟨k0, _, hku0⟩ := hv.checks.king b.r.side
  have hku : ∀ t, b.get t = Cell.mk b.r.side .king → t = k := fun t ht => (hku0 t ht).trans (hku0 k hk).symm
  have hlegal := isLegal_nil b mv hv.shape hwf hsl k hk hku
  rw [legal_unfold b hv.shape.cons mv k hk hku] at hleg
  rw [Option.some.inj hleg] at hlegal
  simpa using hlegal.symm

end Owl.Lemmas
