/-
C06, last clause, piece B: the closed facts for the pawn kinds `ep`, `promN/B/R/Q` (one fact serves all
four) and for `simple` moves of pawns, decided over all pairs of squares, one colour per declaration.
-/
import OwlModel.Abs

namespace Owl.Lemmas
open Owl Owl.Impl

theorem wfg_fact_ep_w : ∀ s d : Sq,
    (!decide (s = d) && (decide (s.rank = epSrcRank .white) && decide (d.rank = epDstRank .white)
        && decide (absDiff s.file.val d.file.val = 1)))
      = (decide (Spec.rank s = Spec.doubleDstRank Color.white.inv)
        && ([(-1 : Int), 1].any fun df => Spec.step s (df, Spec.forward .white) == some d)) := by
  decide +kernel
theorem wfg_fact_ep_b : ∀ s d : Sq,
    (!decide (s = d) && (decide (s.rank = epSrcRank .black) && decide (d.rank = epDstRank .black)
        && decide (absDiff s.file.val d.file.val = 1)))
      = (decide (Spec.rank s = Spec.doubleDstRank Color.black.inv)
        && ([(-1 : Int), 1].any fun df => Spec.step s (df, Spec.forward .black) == some d)) := by
  decide +kernel

theorem wfg_fact_prom_w : ∀ s d : Sq,
    (!decide (s = d) && (decide (s.rank = promoteSrcRank .white) && decide (d.rank = promoteDstRank .white)
        && decide (absDiff s.file.val d.file.val ≤ 1)))
      = (decide (Spec.rank d = Spec.promoRank .white)
        && ([(-1 : Int), 0, 1].any fun df => Spec.step s (df, Spec.forward .white) == some d)) := by
  decide +kernel
theorem wfg_fact_prom_b : ∀ s d : Sq,
    (!decide (s = d) && (decide (s.rank = promoteSrcRank .black) && decide (d.rank = promoteDstRank .black)
        && decide (absDiff s.file.val d.file.val ≤ 1)))
      = (decide (Spec.rank d = Spec.promoRank .black)
        && ([(-1 : Int), 0, 1].any fun df => Spec.step s (df, Spec.forward .black) == some d)) := by
  decide +kernel

theorem wfg_fact_pawn_w : ∀ s d : Sq,
    (!decide (s = d) &&
      (if (decide (absDiff s.file.val d.file.val > 1) || decide (s.rank.val = 7) || decide (s.rank.val = 0)
            || decide (d.rank.val = 7) || decide (d.rank.val = 0)) = true then false
       else decide (s.rank.val = d.rank.val + 1)))
      = (decide (s ≠ d) &&
        (([(-1 : Int), 0, 1].any fun df => Spec.step s (df, Spec.forward .white) == some d)
          && decide (Spec.rank s ≠ 0) && decide (Spec.rank s ≠ 7)
          && decide (Spec.rank d ≠ 0) && decide (Spec.rank d ≠ 7))) := by
  decide +kernel
theorem wfg_fact_pawn_b : ∀ s d : Sq,
    (!decide (s = d) &&
      (if (decide (absDiff s.file.val d.file.val > 1) || decide (s.rank.val = 7) || decide (s.rank.val = 0)
            || decide (d.rank.val = 7) || decide (d.rank.val = 0)) = true then false
       else decide (s.rank.val + 1 = d.rank.val)))
      = (decide (s ≠ d) &&
        (([(-1 : Int), 0, 1].any fun df => Spec.step s (df, Spec.forward .black) == some d)
          && decide (Spec.rank s ≠ 0) && decide (Spec.rank s ≠ 7)
          && decide (Spec.rank d ≠ 0) && decide (Spec.rank d ≠ 7))) := by
  decide +kernel

end Owl.Lemmas
