/-
`DefaultPrechecker::pinned` contains every own man that alone shields the king from an enemy slider.
-/
import OwlModel.Lemmas.Valid

namespace Owl.Lemmas
open Owl Owl.Impl

/-- geometry of a pin line: a square strictly between an aligned pair is aligned with either end, and the squares
between it and that end are among the squares between the pair -/
theorem strict_sub_bishop : ∀ s k : Sq, isBishopValid s k = true → ∀ x : Sq, (bishopStrict s k).has x = true →
    isBishopValid x k = true ∧ (bishopStrict x k &&& ~~~ bishopStrict s k) = 0#64 ∧ (bishopStrict x k).has x = false := by
  decide +kernel

theorem strict_sub_rook : ∀ s k : Sq, isRookValid s k = true → ∀ x : Sq, (rookStrict s k).has x = true →
    isRookValid x k = true ∧ (rookStrict x k &&& ~~~ rookStrict s k) = 0#64 ∧ (rookStrict x k).has x = false := by
  decide +kernel

theorem has_foldl_acc (f : Sq → BB) (l : List Sq) (acc : BB) (t : Sq) :
    (l.foldl (fun acc p => acc ||| f p) acc).has t = true ↔ (acc.has t = true ∨ ∃ p ∈ l, (f p).has t = true) := by
  induction l generalizing acc with
  | nil => simp
  | cons x xs ih =>
    simp only [List.foldl_cons, ih, BB.has_or, Bool.or_eq_true, List.mem_cons, exists_eq_or_imp]
    constructor
    · rintro ((h | h) | h)
      · exact Or.inl h
      · exact Or.inr (Or.inl h)
      · exact Or.inr (Or.inr h)
    · rintro (h | h | h)
      · exact Or.inl (Or.inl h)
      · exact Or.inl (Or.inr h)
      · exact Or.inr h

theorem sub_of_and_not (a b : BB) (h : a &&& ~~~ b = 0#64) (x : Sq) (hx : a.has x = true) : b.has x = true := by
  have := congrArg (fun v => BB.has v x) h
  simp only [BB.has_and, BB.has_not, BB.has_zero, hx, Bool.true_and] at this
  simpa using this

/-- an own man that is the only man between the king and an enemy slider of the right kind is in `pinned` -/
theorem pinned_has_diag (b : Board) (hb : Consistent b) (c : Color) (k x s : Sq) (hx : (b.color c).has x = true)
    (hs : (b.pieceDiag c.inv).has s = true) (hv : isBishopValid s k = true) (hxs : (bishopStrict s k).has x = true)
    (honly : ∀ y, (bishopStrict s k).has y = true → b.all.has y = true → y = x) (hall : b.all.has x = true) :
    (pinned b c k).has x = true := by
  obtain ⟨g1, g2, g3⟩ := strict_sub_bishop s k hv x hxs
  -- x is seen from the king
  have hnear : (bishopAttack k b.all &&& b.color c).has x = true := by
    rw [BB.has_and, hx, Bool.and_true, bishopAttack_has, g1, Bool.true_and, BB.isEmpty_iff]
    intro y
    rw [BB.has_and]
    cases hy : (bishopStrict x k).has y
    · rfl
    · have hy2 := sub_of_and_not _ _ g2 y hy
      cases ha : b.all.has y
      · rfl
      · have := honly y hy2 ha
        subst this
        rw [g3] at hy; cases hy
  -- s is seen through it
  have hxray : (bishopXray b (b.color c) k).has s = true := by
    unfold bishopXray
    simp only
    rw [bishopAttack_has, hv, Bool.true_and, BB.isEmpty_iff]
    intro y
    rw [BB.has_and, BB.has_xor]
    cases hy : (bishopStrict s k).has y
    · rfl
    · cases ha : b.all.has y
      · -- near ⊆ all
        have : (bishopAttack k b.all &&& b.color c).has y = false := by
          cases hn : (bishopAttack k b.all &&& b.color c).has y
          · rfl
          · exfalso
            rw [BB.has_and, Bool.and_eq_true] at hn
            have hall2 : b.all.has y = true := by
              rw [((consistent_iff' b).mp hb).2.2.1, BB.has_or]
              cases c
              · have : (b.color .white).has y = true := hn.2
                simp [this]
              · have : (b.color .black).has y = true := hn.2
                simp [this]
            rw [ha] at hall2; cases hall2
        simp [this]
      · have := honly y hy ha
        subst this
        simp [hnear]
  unfold pinned
  simp only
  rw [has_foldl_acc]
  left
  rw [has_foldl_acc]
  right
  refine ⟨s, ?_, ?_⟩
  · rw [BB.mem_toList, BB.has_and, hxray, hs]; rfl
  · rw [BB.has_and, hxs, hx]; rfl

/-- an own man that is the only man between the king and an enemy slider of the right kind is in `pinned` -/
theorem pinned_has_line (b : Board) (hb : Consistent b) (c : Color) (k x s : Sq) (hx : (b.color c).has x = true)
    (hs : (b.pieceLine c.inv).has s = true) (hv : isRookValid s k = true) (hxs : (rookStrict s k).has x = true)
    (honly : ∀ y, (rookStrict s k).has y = true → b.all.has y = true → y = x) (hall : b.all.has x = true) :
    (pinned b c k).has x = true := by
  obtain ⟨g1, g2, g3⟩ := strict_sub_rook s k hv x hxs
  -- x is seen from the king
  have hnear : (rookAttack k b.all &&& b.color c).has x = true := by
    rw [BB.has_and, hx, Bool.and_true, rookAttack_has, g1, Bool.true_and, BB.isEmpty_iff]
    intro y
    rw [BB.has_and]
    cases hy : (rookStrict x k).has y
    · rfl
    · have hy2 := sub_of_and_not _ _ g2 y hy
      cases ha : b.all.has y
      · rfl
      · have := honly y hy2 ha
        subst this
        rw [g3] at hy; cases hy
  -- s is seen through it
  have hxray : (rookXray b (b.color c) k).has s = true := by
    unfold rookXray
    simp only
    rw [rookAttack_has, hv, Bool.true_and, BB.isEmpty_iff]
    intro y
    rw [BB.has_and, BB.has_xor]
    cases hy : (rookStrict s k).has y
    · rfl
    · cases ha : b.all.has y
      · -- near ⊆ all
        have : (rookAttack k b.all &&& b.color c).has y = false := by
          cases hn : (rookAttack k b.all &&& b.color c).has y
          · rfl
          · exfalso
            rw [BB.has_and, Bool.and_eq_true] at hn
            have hall2 : b.all.has y = true := by
              rw [((consistent_iff' b).mp hb).2.2.1, BB.has_or]
              cases c
              · have : (b.color .white).has y = true := hn.2
                simp [this]
              · have : (b.color .black).has y = true := hn.2
                simp [this]
            rw [ha] at hall2; cases hall2
        simp [this]
      · have := honly y hy ha
        subst this
        simp [hnear]
  unfold pinned
  simp only
  rw [has_foldl_acc]
  right
  refine ⟨s, ?_, ?_⟩
  · rw [BB.mem_toList, BB.has_and, hxray, hs]; rfl
  · rw [BB.has_and, hxs, hx]; rfl

end Owl.Lemmas
