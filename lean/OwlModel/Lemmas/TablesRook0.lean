import OwlModel.Lemmas.TablesDef
namespace Owl.Lemmas
theorem rook_rank_0 : rookCheckRank 0 = true := by decide +kernel
end Owl.Lemmas
