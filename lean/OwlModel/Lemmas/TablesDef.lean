/-
C15: Boolean checks over the generated magic tables, one per square, decided by the kernel in
`Lemmas/TablesRook*.lean` / `TablesBishop*.lean`, and their lift to all 2^64 occupancies.
-/
import OwlModel.Lemmas.Slide

namespace Owl.Lemmas
open Owl

def rookMaskOf (s : Sq) : BB := tabGet Gen.rookMask s.val
def bishopMaskOf (s : Sq) : BB := tabGet Gen.bishopMask s.val

/-- for every submask of the extracted mask, the lookup equals the ray walk -/
def rookCheckSq (s : Sq) : Bool :=
  (submasks (bitsOf (rookMaskOf s).toNat)).all fun sub =>
    Impl.rookAttack s (BB.ofNat sub) == slideBB Spec.rookDirs (BB.ofNat sub) s
def bishopCheckSq (s : Sq) : Bool :=
  (submasks (bitsOf (bishopMaskOf s).toNat)).all fun sub =>
    Impl.bishopAttack s (BB.ofNat sub) == slideBB Spec.bishopDirs (BB.ofNat sub) s

/-- the mask contains every non-last square of every ray -/
def rookCoverSq (s : Sq) : Bool :=
  Spec.rookDirs.all fun d => (Spec.ray d 7 s).dropLast.all fun x => (rookMaskOf s).has x
def bishopCoverSq (s : Sq) : Bool :=
  Spec.bishopDirs.all fun d => (Spec.ray d 7 s).dropLast.all fun x => (bishopMaskOf s).has x

def rookCheckRank (r : Fin 8) : Bool :=
  (List.finRange 8).all fun f => rookCheckSq (Sq.mk f r) && rookCoverSq (Sq.mk f r)
def bishopCheckRank (r : Fin 8) : Bool :=
  (List.finRange 8).all fun f => bishopCheckSq (Sq.mk f r) && bishopCoverSq (Sq.mk f r)

end Owl.Lemmas
