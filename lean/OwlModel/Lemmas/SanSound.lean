/-
C09 (part a)  Soundness of SAN input.
For any SAN data (hence for any text): `san::Data::into_move` returns a move only if that move is legal in the position
(well-formed, semilegal, accepted by `is_legal_unchecked`) and agrees with the piece, destination, origin hints, capture
mark and promotion written in the text (`san_sound`); the returned move is the ONLY legal move that agrees
(`san_unique`); if two different legal moves agree with a piece move or a short pawn capture the answer is `Ambiguity`
naming two such moves (`san_ambiguity_reported`; complete resolution rules `san_simple_resolve`, `san_short_resolve`).
Ingredients: the searcher fold (`search_spec`), the source filter (`searcherSrcs_has`), exactness of the two SAN
candidate generators behind the legal filter (`sanCandidates_spec`, `sanPawnCapture_spec`).
Corollaries: the SAN push paths are make-likes in the sense of C13 (`makeSanMove_ok`, `makeSanStr_ok`), lead to valid
positions (`makeSan_valid`, C02) and cannot panic on a valid board (`makeSan_no_trap`).
-/
import OwlModel.Lemmas.ChainInv
import OwlModel.Props.C01
namespace Owl.Props.C09
open Owl Owl.Impl Owl.Lemmas Owl.Props

/-! ## 1. the search fold (`AmbigSearcher`) -/

/-- `AmbigSearcher::push` after the source filter -/
def push1 (st : SearchState) (mv : Move) : SearchState :=
  match st with
  | .empty => .found mv
  | .found mv2 => .ambiguity mv mv2
  | s@(.ambiguity _ _) => s

/-- the searcher's state as a function of the candidates that pass the source filter, in order -/
def searchOf : List Move → SearchState
  | [] => .empty
  | [m] => .found m
  | b :: a :: _ => .ambiguity a b

theorem fold_filter (srcs : BB) (l : List Move) : ∀ st,
    l.foldl (searchPush srcs) st = (l.filter fun x => srcs.has x.src).foldl push1 st := by
  induction l with
  | nil => intro st; rfl
  | cons x xs ih =>
    intro st
    rw [List.foldl_cons, List.filter_cons]
    cases h : srcs.has x.src
    · simp only [Bool.false_eq_true, if_false]
      rw [← ih]
      congr 1
      unfold searchPush; simp [h]
    · simp only [if_true, List.foldl_cons]
      rw [← ih]
      congr 1
      unfold searchPush push1; simp only [h, Bool.not_true, Bool.false_eq_true, if_false]
      cases st <;> rfl

theorem fold_ambig (l : List Move) (a b : Move) : l.foldl push1 (.ambiguity a b) = .ambiguity a b := by
  induction l with
  | nil => rfl
  | cons x xs ih => rw [List.foldl_cons]; exact ih

theorem fold_searchOf (l : List Move) : l.foldl push1 .empty = searchOf l := by
  cases l with
  | nil => rfl
  | cons b t =>
    cases t with
    | nil => rfl
    | cons a r => exact fold_ambig r a b

/-- the state of the searcher after the candidates `l` -/
theorem search_state (srcs : BB) (l : List Move) :
    l.foldl (searchPush srcs) .empty = searchOf (l.filter fun x => srcs.has x.src) := by
  rw [fold_filter, fold_searchOf]

/-- C09 (search): the searcher answers `m` iff `m` is the only candidate (with multiplicity) that passes the source
filter, "not found" iff there is none, and an ambiguity (naming the first two) iff there are at least two -/
theorem search_spec (srcs : BB) (l : List Move) :
    (∀ m, searchResult (l.foldl (searchPush srcs) .empty) = .ok m ↔ (l.filter fun x => srcs.has x.src) = [m])
    ∧ (searchResult (l.foldl (searchPush srcs) .empty) = .error .notFound ↔ (l.filter fun x => srcs.has x.src) = [])
    ∧ (∀ a b, searchResult (l.foldl (searchPush srcs) .empty) = .error (.ambiguity a b) ↔
        ∃ rest, (l.filter fun x => srcs.has x.src) = b :: a :: rest)
    ∧ ((∃ a b, searchResult (l.foldl (searchPush srcs) .empty) = .error (.ambiguity a b)) ↔
        2 ≤ (l.filter fun x => srcs.has x.src).length)
    ∧ (∀ e, searchResult (l.foldl (searchPush srcs) .empty) = .error e → e = .notFound ∨ ∃ a b, e = .ambiguity a b) := by
  rw [search_state]
  generalize (l.filter fun x => srcs.has x.src) = fl
  cases fl with
  | nil =>
    refine ⟨?_, ?_, ?_, ?_, ?_⟩
    · intro m; simp [searchOf, searchResult]
    · simp [searchOf, searchResult]
    · intro a b; simp [searchOf, searchResult]
    · simp [searchOf, searchResult]
    · intro e h; left; simp [searchOf, searchResult] at h; exact h.symm
  | cons x t =>
    cases t with
    | nil =>
      refine ⟨?_, ?_, ?_, ?_, ?_⟩
      · intro m; simp [searchOf, searchResult]
      · simp [searchOf, searchResult]
      · intro a b; simp [searchOf, searchResult]
      · simp [searchOf, searchResult]
      · intro e h; simp [searchOf, searchResult] at h
    | cons y r =>
      refine ⟨?_, ?_, ?_, ?_, ?_⟩
      · intro m; simp [searchOf, searchResult]
      · simp [searchOf, searchResult]
      · intro a b; simp only [searchOf, searchResult, Except.error.injEq, SanIntoErr.ambiguity.injEq,
          List.cons.injEq]
        constructor
        · rintro ⟨rfl, rfl⟩; exact ⟨r, rfl, rfl, rfl⟩
        · rintro ⟨_, rfl, rfl, _⟩; exact ⟨rfl, rfl⟩
      · simp only [searchOf, searchResult, List.length_cons]
        constructor
        · intro _; omega
        · intro _; exact ⟨y, x, rfl⟩
      · intro e h; right; simp only [searchOf, searchResult, Except.error.injEq] at h; exact ⟨y, x, h.symm⟩

/-! ## 2. the source filter -/

theorem fileBB_has : ∀ (f : Fin 8) (s : Sq), (fileBB f).has s = decide (s.file = f) := by decide +kernel

theorem searcherSrcs_has (file rank : Option (Fin 8)) (s : Sq) :
    (searcherSrcs file rank).has s = (file.all (· = s.file) && rank.all (· = s.rank)) := by
  unfold searcherSrcs
  cases file <;> cases rank <;>
    simp only [BB.has_and, BB.has_allOnes, fileBB_has, rankBB_has, Option.all_none, Option.all_some, Bool.true_and,
      Bool.and_true, Bool.and_self] <;>
    simp [eq_comm]

/-! ## 3. the candidate generators -/

/-- well-formed, semilegal and accepted by `is_legal_unchecked`: what the checked API accepts -/
def Legal (b : Board) (mv : Move) : Prop :=
  mv.isWellFormed = true ∧ isSemilegal b mv = true ∧ isLegalUnchecked? b mv = some true

theorem Legal.step {b : Board} {mv : Move} (h : Legal b mv) : C13.LegalStep b mv := ⟨h.1, h.2.1, h.2.2⟩
theorem Legal.of_step {b : Board} {mv : Move} (h : C13.LegalStep b mv) : Legal b mv := ⟨h.wf, h.sl, h.legal⟩

/-- the generators' checker exists on a valid board and decides `is_legal_unchecked` on semilegal moves -/
theorem default_checker (b : Board) (hv : Valid b) :
    ∃ ck, defaultChecker? b = some ck ∧ ∀ mv, mv.isWellFormed = true → isSemilegal b mv = true →
      (ck.isLegal mv = true ↔ isLegalUnchecked? b mv = some true) := by
  obtain ⟨k, hk, hku⟩ := hv.checks.king b.r.side
  have hkp := kingPos_of b hv.shape.cons b.r.side k hk hku
  cases hd : defaultChecker? b with
  | none =>
    exfalso
    unfold defaultChecker? defaultPre? isCheck? mkChecker? at hd
    simp only [hkp] at hd
    cases hc : isCellAttacked b k b.r.side.inv <;> simp [hc] at hd
  | some ck =>
    refine ⟨ck, rfl, ?_⟩
    intro mv hwf hsl
    obtain ⟨ck', h1, h2⟩ := isLegal_default b mv hv hwf hsl k hk
    rw [hd] at h1; cases h1
    rw [legal_unfold b hv.shape.cons mv k hk hku, h2]
    constructor
    · intro h; rw [h]
    · intro h; exact Option.some.inj h

theorem pieceAttack_sym (p : Piece) (s d : Sq) (all : BB) :
    (pieceAttack p d all).has s = (pieceAttack p s all).has d := by
  obtain ⟨e1, e2, e3, e4, _⟩ := between_sym s d
  cases p <;> simp only [pieceAttack, BB.has_zero, BB.has_or, bishopAttack_has, rookAttack_has, e1, e2, e3, e4]
  · exact (near_table_sym d s).1
  · exact (near_table_sym d s).2

theorem cand_list (b : Board) (hv : Valid b) (piece : Piece) (hp : piece ≠ .pawn) (dst : Sq) (ck : Checker)
    (hleg : ∀ mv, mv.isWellFormed = true → isSemilegal b mv = true →
      (ck.isLegal mv = true ↔ isLegalUnchecked? b mv = some true))
    (hown : ¬ (b.get dst).color = some b.r.side) (l : List Move)
    (hl : l = (((pieceAttack piece dst b.all &&& b.piece2 b.r.side piece).toList.map
      fun src => mkMove b.r.side .simple piece src dst).filter ck.isLegal)) :
    l.Nodup ∧ ∀ mv, mv ∈ l ↔ ((∃ s, mv = mkMove b.r.side .simple piece s dst) ∧ Legal b mv) := by
  have hb := hv.shape.cons
  subst hl
  constructor
  · exact List.Pairwise.filter _ (nodup_map_of_inj _ _ (toList_nodup _) (fun a b e => (mkMove_inj e).2.2.1))
  · intro mv
    simp only [List.mem_filter, List.mem_map, BB.mem_toList, BB.has_and, Bool.and_eq_true,
      piece2_has b hb, decide_eq_true_eq]
    constructor
    · rintro ⟨⟨s, ⟨h1, h2⟩, rfl⟩, h3⟩
      rw [pieceAttack_sym] at h1
      obtain ⟨hwf, hsl⟩ := (sl_piece b piece hp s dst).mpr ⟨h2, h1, hown⟩
      exact ⟨⟨s, rfl⟩, hwf, hsl, (hleg _ hwf hsl).mp h3⟩
    · rintro ⟨⟨s, rfl⟩, hwf, hsl, hl⟩
      obtain ⟨g1, g2, _⟩ := (sl_piece b piece hp s dst).mp ⟨hwf, hsl⟩
      rw [← pieceAttack_sym] at g2
      exact ⟨⟨s, ⟨g2, g1⟩, rfl⟩, (hleg _ hwf hsl).mpr hl⟩

/-- C09 (candidates): on a valid board `san_candidates` (behind the legal filter) does not panic and returns, each
once, exactly the legal simple moves of that piece to `dst` -/
theorem sanCandidates_spec (b : Board) (hv : Valid b) (piece : Piece) (hp : piece ≠ .pawn) (dst : Sq) :
    ∃ l, sanCandidates? b piece dst = some l ∧ l.Nodup ∧
      ∀ mv, mv ∈ l ↔ ((∃ s, mv = mkMove b.r.side .simple piece s dst) ∧ Legal b mv) := by
  obtain ⟨ck, hck, hleg⟩ := default_checker b hv
  unfold sanCandidates?
  rw [hck]
  simp only
  by_cases hown : (b.get dst).color = some b.r.side
  · rw [if_pos hown]
    refine ⟨[], rfl, List.nodup_nil, ?_⟩
    intro mv
    simp only [List.not_mem_nil, false_iff]
    rintro ⟨⟨s, rfl⟩, hwf, hsl, _⟩
    exact ((sl_piece b piece hp s dst).mp ⟨hwf, hsl⟩).2.2 hown
  · rw [if_neg hown]
    cases piece
    · exact absurd rfl hp
    all_goals exact ⟨_, rfl, cand_list b hv _ hp dst ck hleg hown _ rfl⟩

/-- the same, in the form "whatever list is returned" -/
theorem sanCandidates_sound (b : Board) (hv : Valid b) (piece : Piece) (hp : piece ≠ .pawn) (dst : Sq) (l : List Move)
    (h : sanCandidates? b piece dst = some l) :
    l.Nodup ∧ ∀ mv, mv ∈ l ↔ ((∃ s, mv = mkMove b.r.side .simple piece s dst) ∧ Legal b mv) := by
  obtain ⟨l', h1, h2, h3⟩ := sanCandidates_spec b hv piece hp dst
  rw [h] at h1; cases h1
  exact ⟨h2, h3⟩

/-! ### pawn captures written without the destination rank ("ed") -/

/-- does the move's kind agree with the written promotion -/
def PromoOK (promote : Option Piece) (k : Kind) : Prop :=
  match promote with
  | none => k.promote = none
  | some p => k = promoteKind p

theorem promoteKind_promote (p : Piece) (h : p = .knight ∨ p = .bishop ∨ p = .rook ∨ p = .queen) :
    (promoteKind p).promote = some p := by
  rcases h with rfl | rfl | rfl | rfl <;> rfl

theorem promoteKind_is (p : Piece) : promoteKind p = .promN ∨ promoteKind p = .promB ∨ promoteKind p = .promR
    ∨ promoteKind p = .promQ := by
  cases p <;> simp [promoteKind]

theorem cap_geo (c : Color) : ∀ d : Sq,
    ((d.rank ≠ behindRank c ∧ d.file ≠ 7) → (addU d (-(leftDelta c))).file.val = d.file.val + 1)
    ∧ ((d.rank ≠ behindRank c ∧ d.file ≠ 0) → (addU d (-(rightDelta c))).file.val + 1 = d.file.val) := by
  cases c <;> decide

theorem ep_geo (c : Color) : ∀ p : Sq, p.rank = epSrcRank c →
    (addU p (forwardDelta c)).file = p.file
    ∧ (p.file ≠ fileA → (addU p (-1)).file.val + 1 = p.file.val)
    ∧ (p.file ≠ fileH → (addU p 1).file.val = p.file.val + 1) := by
  cases c <;> decide

/-- a diagonal pawn step of kind `simple`, on the squares -/
theorem pawn_cap_simple (b : Board) (hv : Valid b) (s d : Sq) :
    (SL b (mkMove b.r.side .simple .pawn s d) ∧ s.file ≠ d.file) ↔
      (b.get s = Cell.mk b.r.side .pawn ∧ s.rank ≠ promoteSrcRank b.r.side ∧ (b.get d).color = some b.r.side.inv
        ∧ (((d.rank ≠ behindRank b.r.side ∧ d.file ≠ 7) ∧ s = addU d (-(leftDelta b.r.side)))
          ∨ ((d.rank ≠ behindRank b.r.side ∧ d.file ≠ 0) ∧ s = addU d (-(rightDelta b.r.side))))) := by
  have hb := hv.shape.cons
  have h := mem_cap_iff b hv (mkMove b.r.side .simple .pawn s d)
  rw [mem_genPawnCaptureOf] at h
  simp only [mem_addPawn, Bool.false_eq_true, if_false, (pawns_mask_has b hb b.r.side _ _).2, Bool.and_eq_true,
    decide_eq_true_eq, Bool.not_eq_true', decide_eq_false_iff_not, inv_color_has b hb] at h
  have h' : (SL b (mkMove b.r.side .simple .pawn s d) ∧ s.file ≠ d.file) ↔
      (SL b (mkMove b.r.side .simple .pawn s d) ∧ (mkMove b.r.side .simple .pawn s d).kind = .simple
        ∧ (mkMove b.r.side .simple .pawn s d).cell = Cell.mk b.r.side .pawn
        ∧ (mkMove b.r.side .simple .pawn s d).src.file ≠ (mkMove b.r.side .simple .pawn s d).dst.file) :=
    ⟨fun ⟨a, c⟩ => ⟨a, rfl, rfl, c⟩, fun ⟨a, _, _, c⟩ => ⟨a, c⟩⟩
  rw [h', ← h]
  constructor
  · rintro (⟨d', g, ⟨p1, p2⟩, p3, e⟩ | ⟨d', g, ⟨p1, p2⟩, p3, e⟩)
    · obtain ⟨_, _, e1, e2⟩ := mkMove_inj e
      subst e2; subst e1
      exact ⟨p1, p2, p3, Or.inl ⟨g, rfl⟩⟩
    · obtain ⟨_, _, e1, e2⟩ := mkMove_inj e
      subst e2; subst e1
      exact ⟨p1, p2, p3, Or.inr ⟨g, rfl⟩⟩
  · rintro ⟨p1, p2, p3, ⟨g, e⟩ | ⟨g, e⟩⟩
    · subst e; exact Or.inl ⟨d, g, ⟨p1, p2⟩, p3, rfl⟩
    · subst e; exact Or.inr ⟨d, g, ⟨p1, p2⟩, p3, rfl⟩

/-- a diagonal pawn step with promotion, on the squares -/
theorem pawn_cap_promo (b : Board) (hv : Valid b) (k : Kind)
    (hk : k = .promN ∨ k = .promB ∨ k = .promR ∨ k = .promQ) (s d : Sq) :
    (SL b (mkMove b.r.side k .pawn s d) ∧ s.file ≠ d.file) ↔
      (b.get s = Cell.mk b.r.side .pawn ∧ s.rank = promoteSrcRank b.r.side ∧ (b.get d).color = some b.r.side.inv
        ∧ (((d.rank ≠ behindRank b.r.side ∧ d.file ≠ 7) ∧ s = addU d (-(leftDelta b.r.side)))
          ∨ ((d.rank ≠ behindRank b.r.side ∧ d.file ≠ 0) ∧ s = addU d (-(rightDelta b.r.side))))) := by
  have hb := hv.shape.cons
  have h := mem_promo_cap_iff b hv (mkMove b.r.side k .pawn s d)
  rw [mem_genPawnCaptureOf] at h
  simp only [mem_addPawn, if_true, (pawns_mask_has b hb b.r.side _ _).1, Bool.and_eq_true,
    decide_eq_true_eq, inv_color_has b hb] at h
  have h' : (SL b (mkMove b.r.side k .pawn s d) ∧ s.file ≠ d.file) ↔
      (SL b (mkMove b.r.side k .pawn s d) ∧ (mkMove b.r.side k .pawn s d).kind.promote.isSome = true
        ∧ (mkMove b.r.side k .pawn s d).src.file ≠ (mkMove b.r.side k .pawn s d).dst.file) :=
    ⟨fun ⟨a, c⟩ => ⟨a, (isPromo_iff _).mpr hk, c⟩, fun ⟨a, _, c⟩ => ⟨a, c⟩⟩
  rw [h', ← h]
  have hinj : ∀ s' d', (mkMove b.r.side k .pawn s d = mkMove b.r.side .promN .pawn s' d'
      ∨ mkMove b.r.side k .pawn s d = mkMove b.r.side .promB .pawn s' d'
      ∨ mkMove b.r.side k .pawn s d = mkMove b.r.side .promR .pawn s' d'
      ∨ mkMove b.r.side k .pawn s d = mkMove b.r.side .promQ .pawn s' d') ↔ (s = s' ∧ d = d') := by
    intro s' d'
    constructor
    · rintro (e | e | e | e) <;> exact (mkMove_inj e).2.2
    · rintro ⟨rfl, rfl⟩
      rcases hk with rfl | rfl | rfl | rfl
      · exact Or.inl rfl
      · exact Or.inr (Or.inl rfl)
      · exact Or.inr (Or.inr (Or.inl rfl))
      · exact Or.inr (Or.inr (Or.inr rfl))
  simp only [hinj]
  constructor
  · rintro (⟨d', g, ⟨p1, p2⟩, p3, e1, e2⟩ | ⟨d', g, ⟨p1, p2⟩, p3, e1, e2⟩)
    · subst e2; subst e1
      exact ⟨p1, p2, p3, Or.inl ⟨g, rfl⟩⟩
    · subst e2; subst e1
      exact ⟨p1, p2, p3, Or.inr ⟨g, rfl⟩⟩
  · rintro ⟨p1, p2, p3, ⟨g, e⟩ | ⟨g, e⟩⟩
    · subst e; exact Or.inl ⟨d, g, ⟨p1, p2⟩, p3, rfl, rfl⟩
    · subst e; exact Or.inr ⟨d, g, ⟨p1, p2⟩, p3, rfl, rfl⟩

/-- the kind `san_pawn_capture_candidates` gives to ordinary captures -/
def capKind (promote : Option Piece) : Kind := match promote with | some p => promoteKind p | none => .simple

def capRank (promote : Option Piece) (c : Color) (s : Sq) : Prop :=
  match promote with | some _ => s.rank = promoteSrcRank c | none => s.rank ≠ promoteSrcRank c

instance (promote : Option Piece) (c : Color) (s : Sq) : Decidable (capRank promote c s) := by
  unfold capRank; cases promote <;> exact inferInstance

theorem pawn_cap_kind (b : Board) (hv : Valid b) (promote : Option Piece) (s d : Sq) :
    (SL b (mkMove b.r.side (capKind promote) .pawn s d) ∧ s.file ≠ d.file) ↔
      (b.get s = Cell.mk b.r.side .pawn ∧ capRank promote b.r.side s ∧ (b.get d).color = some b.r.side.inv
        ∧ (((d.rank ≠ behindRank b.r.side ∧ d.file ≠ 7) ∧ s = addU d (-(leftDelta b.r.side)))
          ∨ ((d.rank ≠ behindRank b.r.side ∧ d.file ≠ 0) ∧ s = addU d (-(rightDelta b.r.side))))) := by
  cases promote with
  | none => exact pawn_cap_simple b hv s d
  | some p => exact pawn_cap_promo b hv _ (promoteKind_is p) s d

theorem capMask_has (c : Color) (promote : Option Piece) (s : Sq) :
    ((match promote with
        | some _ => rankBB (promoteSrcRank c) | none => ~~~ rankBB (promoteSrcRank c)).has s = true) ↔
      capRank promote c s := by
  cases promote <;> simp [capRank, rankBB_has]

theorem mem_ite_list {α : Type} (P : Prop) [Decidable P] (l : List α) (x : α) :
    x ∈ (if P then l else []) ↔ (P ∧ x ∈ l) := by
  by_cases h : P <;> simp [h]

theorem mkMove_eta (mv : Move) (c : Color) (p : Piece) (h : mv.cell = Cell.mk c p) :
    mv = mkMove c mv.kind p mv.src mv.dst := by
  cases mv; simp only [mkMove] at *; simp [h]

/-- the ordinary-capture part of `san_pawn_capture_candidates`, before the legal filter -/
theorem mem_capLR (b : Board) (hv : Valid b) (src dst : Fin 8) (promote : Option Piece) (mv : Move) :
    mv ∈ ((if src.val = dst.val + 1 then
        (advanceLeft b.r.side (b.piece2 b.r.side .pawn &&& (match promote with
          | some _ => rankBB (promoteSrcRank b.r.side) | none => ~~~ rankBB (promoteSrcRank b.r.side)) &&& fileBB src)
          &&& b.color b.r.side.inv).toList.map fun d =>
            mkMove b.r.side (capKind promote) .pawn (addU d (-(leftDelta b.r.side))) d
      else [])
      ++ (if src.val + 1 = dst.val then
        (advanceRight b.r.side (b.piece2 b.r.side .pawn &&& (match promote with
          | some _ => rankBB (promoteSrcRank b.r.side) | none => ~~~ rankBB (promoteSrcRank b.r.side)) &&& fileBB src)
          &&& b.color b.r.side.inv).toList.map fun d =>
            mkMove b.r.side (capKind promote) .pawn (addU d (-(rightDelta b.r.side))) d
      else [])) ↔
    (SL b mv ∧ mv.cell = Cell.mk b.r.side .pawn ∧ mv.kind = capKind promote ∧ mv.src.file = src ∧ mv.dst.file = dst
      ∧ mv.src.file ≠ mv.dst.file) := by
  have hb := hv.shape.cons
  simp only [List.mem_append, mem_ite_list, List.mem_map, BB.mem_toList, BB.has_and, advanceLeft_has, advanceRight_has,
    Bool.and_eq_true, decide_eq_true_eq, capMask_has, piece2_has b hb, fileBB_has, inv_color_has b hb, and_assoc]
  constructor
  · rintro (⟨hP, d, g1, g2, p1, p2, p3, p4, rfl⟩ | ⟨hP, d, g1, g2, p1, p2, p3, p4, rfl⟩)
    · obtain ⟨k1, k2⟩ := (pawn_cap_kind b hv promote _ d).mpr ⟨p1, p2, p4, Or.inl ⟨⟨g1, g2⟩, rfl⟩⟩
      have hg := (cap_geo b.r.side d).1 ⟨g1, g2⟩
      refine ⟨k1, rfl, rfl, p3, ?_, k2⟩
      show d.file = dst
      apply Fin.ext
      have : (addU d (-(leftDelta b.r.side))).file.val = src.val := by rw [p3]
      omega
    · obtain ⟨k1, k2⟩ := (pawn_cap_kind b hv promote _ d).mpr ⟨p1, p2, p4, Or.inr ⟨⟨g1, g2⟩, rfl⟩⟩
      have hg := (cap_geo b.r.side d).2 ⟨g1, g2⟩
      refine ⟨k1, rfl, rfl, p3, ?_, k2⟩
      show d.file = dst
      apply Fin.ext
      have : (addU d (-(rightDelta b.r.side))).file.val = src.val := by rw [p3]
      omega
  · rintro ⟨hsl, hcell, hk, hf1, hf2, hne⟩
    have hmv := mkMove_eta mv _ _ hcell
    rw [hk] at hmv
    have hsl' := hsl
    rw [hmv] at hsl'
    obtain ⟨p1, p2, p4, hgeo⟩ := (pawn_cap_kind b hv promote mv.src mv.dst).mp ⟨hsl', hne⟩
    rcases hgeo with ⟨g, e⟩ | ⟨g, e⟩
    · left
      have hg := (cap_geo b.r.side mv.dst).1 g
      rw [← e, hf1, hf2] at hg
      refine ⟨hg, mv.dst, g.1, g.2, ?_, ?_, ?_, p4, ?_⟩
      · rw [← e]; exact p1
      · rw [← e]; exact p2
      · rw [← e]; exact hf1
      · rw [← e]; exact hmv.symm
    · right
      have hg := (cap_geo b.r.side mv.dst).2 g
      rw [← e, hf1, hf2] at hg
      refine ⟨hg, mv.dst, g.1, g.2, ?_, ?_, ?_, p4, ?_⟩
      · rw [← e]; exact p1
      · rw [← e]; exact p2
      · rw [← e]; exact hf1
      · rw [← e]; exact hmv.symm

/-- the en-passant part of `san_pawn_capture_candidates`, before the legal filter -/
def epCands (b : Board) (src dst : Fin 8) (promote : Option Piece) : List Move :=
  match b.r.ep with
  | none => []
  | some ep =>
    if ep.file = dst && promote.isNone then
      (if src.val + 1 = dst.val && b.get (addU ep (-1)) = Cell.mk b.r.side .pawn then
        [mkMove b.r.side .ep .pawn (addU ep (-1)) (addU ep (forwardDelta b.r.side))] else [])
      ++ (if src.val = dst.val + 1 && b.get (addU ep 1) = Cell.mk b.r.side .pawn then
        [mkMove b.r.side .ep .pawn (addU ep 1) (addU ep (forwardDelta b.r.side))] else [])
    else []

theorem mem_epCands (b : Board) (hv : Valid b) (src dst : Fin 8) (promote : Option Piece) (mv : Move) :
    mv ∈ epCands b src dst promote ↔
      (promote = none ∧ (SL b mv ∧ mv.kind = .ep) ∧ mv.src.file = src ∧ mv.dst.file = dst) := by
  rw [← mem_ep_iff b hv]
  unfold epCands genPawnEnpassant
  cases hep : b.r.ep with
  | none => simp
  | some p =>
    obtain ⟨hrank, _, _⟩ := hv.shape.ep p hep
    obtain ⟨g1, g2, g3⟩ := ep_geo b.r.side p hrank
    have hA0 : fileA.val = 0 := rfl
    have hH7 : fileH.val = 7 := rfl
    simp only [List.mem_append, mem_ite_list, List.mem_singleton, Bool.and_eq_true, decide_eq_true_eq,
      ne_eq, Option.isNone_iff_eq_none]
    constructor
    · rintro ⟨⟨hf, hpn⟩, (⟨⟨h1, h2⟩, rfl⟩ | ⟨⟨h1, h2⟩, rfl⟩)⟩
      · have hA : p.file ≠ fileA := by
          intro e; rw [hf] at e; rw [e] at h1; omega
        refine ⟨hpn, Or.inl ⟨⟨hA, h2⟩, rfl⟩, ?_, ?_⟩
        · show (addU p (-1)).file = src
          apply Fin.ext
          have := g2 hA
          rw [hf] at this
          omega
        · show (addU p (forwardDelta b.r.side)).file = dst
          rw [g1]; exact hf
      · have hH : p.file ≠ fileH := by
          intro e; rw [hf] at e; rw [e] at h1; have := src.isLt; omega
        refine ⟨hpn, Or.inr ⟨⟨hH, h2⟩, rfl⟩, ?_, ?_⟩
        · show (addU p 1).file = src
          apply Fin.ext
          have := g3 hH
          rw [hf] at this
          omega
        · show (addU p (forwardDelta b.r.side)).file = dst
          rw [g1]; exact hf
    · rintro ⟨hpn, (⟨⟨hA, h2⟩, rfl⟩ | ⟨⟨hH, h2⟩, rfl⟩), hs, hd⟩
      · have hd' : p.file = dst := by rw [← g1]; exact hd
        have hs' : (addU p (-1)).file = src := hs
        refine ⟨⟨hd', hpn⟩, Or.inl ⟨⟨?_, h2⟩, rfl⟩⟩
        have := g2 hA
        rw [hs', hd'] at this
        exact this
      · have hd' : p.file = dst := by rw [← g1]; exact hd
        have hs' : (addU p 1).file = src := hs
        refine ⟨⟨hd', hpn⟩, Or.inr ⟨⟨?_, h2⟩, rfl⟩⟩
        have := g3 hH
        rw [hs', hd'] at this
        exact this

/-- what "ed" / "ed=Q" asks of a move: a pawn capture (ordinary or en passant) from file `src` to file `dst` with the
written promotion -/
def PawnCapShort (b : Board) (src dst : Fin 8) (promote : Option Piece) (mv : Move) : Prop :=
  mv.cell = Cell.mk b.r.side .pawn ∧ mv.src.file = src ∧ mv.dst.file = dst ∧ mv.src.file ≠ mv.dst.file
    ∧ PromoOK promote mv.kind

/-- a semilegal pawn move that changes file and does not promote is an ordinary capture or en passant -/
theorem pawn_kind_cases (b : Board) (mv : Move) (hsl : SL b mv) (hcell : mv.cell = Cell.mk b.r.side .pawn)
    (hne : mv.src.file ≠ mv.dst.file) (hpr : mv.kind.promote = none) : mv.kind = .simple ∨ mv.kind = .ep := by
  obtain ⟨piece, hc, hmatch, hmv⟩ := sl_normal b mv hsl
  have hp : piece = .pawn := (mk_inj (hc.symm.trans hcell)).2
  subst hp
  obtain ⟨hknull, _⟩ := semilegal_base b mv hsl.2
  cases hk : mv.kind <;> simp only [hk, Kind.promote, reduceCtorEq] at hpr hmatch hknull
  · exact absurd rfl hknull
  · exact Or.inl rfl
  · simp [Kind.matchesPiece] at hmatch
  · simp [Kind.matchesPiece] at hmatch
  · rw [hk] at hmv
    rw [hmv] at hsl
    exact absurd ((sl_pawn_double b mv.src mv.dst).mp hsl).2.1 hne
  · exact Or.inr rfl

theorem mem_capAll (b : Board) (hv : Valid b) (src dst : Fin 8) (promote : Option Piece) (mv : Move) :
    mv ∈ ((if src.val = dst.val + 1 then
        (advanceLeft b.r.side (b.piece2 b.r.side .pawn &&& (match promote with
          | some _ => rankBB (promoteSrcRank b.r.side) | none => ~~~ rankBB (promoteSrcRank b.r.side)) &&& fileBB src)
          &&& b.color b.r.side.inv).toList.map fun d =>
            mkMove b.r.side (capKind promote) .pawn (addU d (-(leftDelta b.r.side))) d
      else [])
      ++ (if src.val + 1 = dst.val then
        (advanceRight b.r.side (b.piece2 b.r.side .pawn &&& (match promote with
          | some _ => rankBB (promoteSrcRank b.r.side) | none => ~~~ rankBB (promoteSrcRank b.r.side)) &&& fileBB src)
          &&& b.color b.r.side.inv).toList.map fun d =>
            mkMove b.r.side (capKind promote) .pawn (addU d (-(rightDelta b.r.side))) d
      else [])
      ++ epCands b src dst promote) ↔ (SL b mv ∧ PawnCapShort b src dst promote mv) := by
  rw [List.mem_append, mem_capLR b hv, mem_epCands b hv]
  unfold PawnCapShort
  constructor
  · rintro (⟨h1, h2, h3, h4, h5, h6⟩ | ⟨h1, ⟨h2, h3⟩, h4, h5⟩)
    · refine ⟨h1, h2, h4, h5, h6, ?_⟩
      cases promote with
      | none => show mv.kind.promote = none; rw [h3]; rfl
      | some p => exact h3
    · subst h1
      obtain ⟨piece, hc, hmatch, hmv⟩ := sl_normal b mv h2
      have hp : piece = .pawn := matches_pawn hmatch (Or.inr (Or.inl h3))
      subst hp
      refine ⟨h2, hc, h4, h5, ?_, ?_⟩
      · have h2' := h2
        rw [hmv, h3] at h2'
        exact file_ne_of_diff ((sl_pawn_ep b mv.src mv.dst).mp h2').2.2.2.1
      · show mv.kind.promote = none; rw [h3]; rfl
  · rintro ⟨h1, h2, h4, h5, h6, h7⟩
    cases promote with
    | none =>
      rcases pawn_kind_cases b mv h1 h2 h6 h7 with hk | hk
      · exact Or.inl ⟨h1, h2, hk, h4, h5, h6⟩
      · exact Or.inr ⟨rfl, ⟨h1, hk⟩, h4, h5⟩
    | some p => exact Or.inl ⟨h1, h2, h7, h4, h5, h6⟩

theorem nodup_ite_prop {α : Type} (P : Prop) [Decidable P] (l : List α) (h : l.Nodup) : (if P then l else []).Nodup := by
  by_cases hp : P <;> simp [hp, h]

theorem epCands_nodup (b : Board) (src dst : Fin 8) (promote : Option Piece) : (epCands b src dst promote).Nodup := by
  unfold epCands
  cases b.r.ep with
  | none => simp
  | some p =>
    simp only
    apply nodup_ite_prop
    rw [List.nodup_append]
    refine ⟨by split <;> simp, by split <;> simp, ?_⟩
    intro x hx y hy e
    rw [mem_ite_list] at hx hy
    simp only [Bool.and_eq_true, decide_eq_true_eq] at hx hy
    omega

/-- C09 (pawn-capture candidates): on a valid board `san_pawn_capture_candidates` (behind the legal filter) does not
panic and returns, each once, exactly the legal pawn captures (ordinary or en passant) from file `src` to file `dst`
with the requested promotion -/
theorem sanPawnCapture_spec (b : Board) (hv : Valid b) (src dst : Fin 8) (promote : Option Piece) :
    ∃ l, sanPawnCaptureCandidates? b src dst promote = some l ∧ l.Nodup ∧
      ∀ mv, mv ∈ l ↔ (Legal b mv ∧ PawnCapShort b src dst promote mv) := by
  obtain ⟨ck, hck, hleg⟩ := default_checker b hv
  unfold sanPawnCaptureCandidates?
  rw [hck]
  simp only [Option.map_some]
  refine ⟨_, rfl, ?_, ?_⟩
  · apply List.Pairwise.filter
    show List.Nodup _
    rw [List.nodup_append]
    refine ⟨?_, epCands_nodup b src dst promote, ?_⟩
    · rw [List.nodup_append]
      refine ⟨?_, ?_, ?_⟩
      · exact nodup_ite_prop _ _ (nodup_map_of_inj _ _ (toList_nodup _) (fun a b e => (mkMove_inj e).2.2.2))
      · exact nodup_ite_prop _ _ (nodup_map_of_inj _ _ (toList_nodup _) (fun a b e => (mkMove_inj e).2.2.2))
      · intro x hx y hy e
        rw [mem_ite_list] at hx hy
        omega
    · intro x hx y hy e
      subst e
      have h1 := ((mem_capLR b hv src dst promote x).mp hx).2.2.1
      obtain ⟨h2, ⟨_, h3⟩, _⟩ := (mem_epCands b hv src dst promote x).mp hy
      subst h2
      rw [h3] at h1; cases h1
  · intro mv
    rw [List.mem_filter]
    constructor
    · rintro ⟨hm, h3⟩
      obtain ⟨h1, h2⟩ := (mem_capAll b hv src dst promote mv).mp hm
      exact ⟨⟨h1.1, h1.2, (hleg mv h1.1 h1.2).mp h3⟩, h2⟩
    · rintro ⟨⟨h1, h2, h3⟩, h4⟩
      exact ⟨(mem_capAll b hv src dst promote mv).mpr ⟨⟨h1, h2⟩, h4⟩, (hleg mv h1 h2).mpr h3⟩

theorem sanPawnCapture_sound (b : Board) (hv : Valid b) (src dst : Fin 8) (promote : Option Piece) (l : List Move)
    (h : sanPawnCaptureCandidates? b src dst promote = some l) :
    l.Nodup ∧ ∀ mv, mv ∈ l ↔ (Legal b mv ∧ PawnCapShort b src dst promote mv) := by
  obtain ⟨l', h1, h2, h3⟩ := sanPawnCapture_spec b hv src dst promote
  rw [h] at h1; cases h1
  exact ⟨h2, h3⟩

/-! ## 4. soundness of `san::Data::into_move` -/

/-- the move agrees with what the SAN text says -/
def Agrees (b : Board) (d : SanData) (mv : Move) : Prop :=
  match d with
  | .uci u => uciIntoMove u b = some mv
  | .castling s => mv = Move.fromCastling b.r.side s
  | .pawnMove dst promote =>
    mv.cell = Cell.mk b.r.side .pawn ∧ mv.dst = dst ∧ mv.src.file = mv.dst.file ∧ PromoOK promote mv.kind
  | .pawnCapture srcFile dst promote =>
    mv.cell = Cell.mk b.r.side .pawn ∧ mv.src.file = srcFile ∧ mv.dst = dst ∧ PromoOK promote mv.kind
  | .pawnCaptureShort src dst promote => PawnCapShort b src dst promote mv
  | .simple piece file rank isCapture dst =>
    mv.kind = .simple ∧ mv.cell = Cell.mk b.r.side piece ∧ mv.dst = dst
      ∧ file.all (· = mv.src.file) = true ∧ rank.all (· = mv.src.rank) = true
      ∧ (isCapture = true → b.get dst ≠ Cell.empty)

theorem validateInto_ok (b : Board) (mv mv' : Move) (h : validateInto b mv = .ok mv') :
    mv' = mv ∧ isSemilegal b mv = true ∧ isLegalUnchecked? b mv = some true := by
  unfold validateInto validateMove at h
  cases hsl : isSemilegal b mv
  · simp [hsl] at h
  · cases hl : isLegalUnchecked? b mv with
    | none => simp [hsl, hl] at h
    | some ok =>
      cases ok
      · simp [hsl, hl] at h
      · simp [hsl, hl] at h
        exact ⟨h.symm, rfl, rfl⟩

theorem fromCastling_wf (c : Color) (s : Side) : (Move.fromCastling c s).isWellFormed = true := by
  cases c <;> cases s <;> decide

theorem add_back_file (c : Color) : ∀ t s : Sq, t.add? (-(forwardDelta c)) = some s → s.file = t.file := by
  cases c <;> decide +kernel

theorem isFree_iff (x : Cell) : x.isFree = true ↔ x = Cell.empty := by
  revert x; decide

theorem sanCandidates_pawn (b : Board) (dst : Sq) (l : List Move) (h : sanCandidates? b .pawn dst = some l) : l = [] := by
  unfold sanCandidates? at h
  split at h
  · cases h
  · simp only at h
    split at h
    · cases h; rfl
    · cases h

theorem mem_of_filter_eq_singleton {α : Type} (p : α → Bool) (l : List α) (m : α) (h : l.filter p = [m]) :
    m ∈ l ∧ p m = true := by
  have : m ∈ l.filter p := by rw [h]; simp
  exact List.mem_filter.mp this

theorem promoOK_of_kind (promote : Option Piece) (kind : Kind) (hk : kind.promote = none) :
    PromoOK promote (match promote with | some p => promoteKind p | none => kind) := by
  cases promote with
  | none => exact hk
  | some p => rfl

/-- C09 (soundness): whatever `into_move` returns is a legal move of the position that agrees with the text -/
theorem san_sound (b : Board) (hv : Valid b) (d : SanData) (mv : Move) (h : sanIntoMove d b = .ok mv) :
    (mv.isWellFormed = true ∧ isSemilegal b mv = true ∧ isLegalUnchecked? b mv = some true) ∧ Agrees b d mv := by
  unfold sanIntoMove at h
  dsimp only at h
  cases d with
  | uci u =>
    simp only at h
    split at h
    · cases h
    · rename_i mv0 hu
      obtain ⟨e, h1, h2⟩ := validateInto_ok b mv0 mv h
      subst e
      exact ⟨⟨C02.uciIntoMove_wf b u _ hu, h1, h2⟩, hu⟩
  | castling s =>
    obtain ⟨e, h1, h2⟩ := validateInto_ok b _ mv h
    subst e
    exact ⟨⟨fromCastling_wf _ _, h1, h2⟩, rfl⟩
  | pawnMove dst promote =>
    simp only at h
    split at h
    · cases h
    · split at h
      · cases h
      · rename_i src0 hadd
        have hf0 := add_back_file b.r.side dst src0 hadd
        by_cases hocc : (b.get src0).isOcc = true
        · simp only [hocc, Bool.not_true, Bool.false_eq_true, if_false] at h
          split at h
          · cases h
          · rename_i mv0 hnew
            obtain ⟨e0, hwf⟩ := C10.new?_some _ _ _ _ _ hnew
            obtain ⟨e, h1, h2⟩ := validateInto_ok b mv0 mv h
            subst e
            refine ⟨⟨hwf, h1, h2⟩, ?_⟩
            subst e0
            exact ⟨rfl, rfl, hf0, promoOK_of_kind promote .simple rfl⟩
        · simp only [hocc, Bool.not_false, if_true] at h
          split at h
          · cases h
          · rename_i mv0 hnew
            obtain ⟨e0, hwf⟩ := C10.new?_some _ _ _ _ _ hnew
            obtain ⟨e, h1, h2⟩ := validateInto_ok b mv0 mv h
            subst e
            refine ⟨⟨hwf, h1, h2⟩, ?_⟩
            subst e0
            exact ⟨rfl, rfl, Sq.file_mk _ _, promoOK_of_kind promote .double rfl⟩
  | pawnCapture srcFile dst promote =>
    simp only at h
    split at h
    · cases h
    · generalize hkind : (if some dst = b.r.epDest then Kind.ep else Kind.simple) = kind at h
      have hkp : kind.promote = none := by subst hkind; split <;> rfl
      split at h
      · cases h
      · split at h
        · cases h
        · rename_i src hadd
          have hf0 := add_back_file b.r.side _ src hadd
          rw [Sq.file_mk] at hf0
          split at h
          · cases h
          · rename_i mv0 hnew
            obtain ⟨e0, hwf⟩ := C10.new?_some _ _ _ _ _ hnew
            obtain ⟨e, h1, h2⟩ := validateInto_ok b mv0 mv h
            subst e
            refine ⟨⟨hwf, h1, h2⟩, ?_⟩
            subst e0
            exact ⟨rfl, hf0, rfl, promoOK_of_kind promote _ hkp⟩
  | pawnCaptureShort src dst promote =>
    simp only at h
    split at h
    · cases h
    · rename_i cands hc
      obtain ⟨_, hmem⟩ := sanPawnCapture_sound b hv src dst promote cands hc
      split at h
      · rename_i m hm
        cases h
        obtain ⟨h1, _⟩ := mem_of_filter_eq_singleton _ _ _ (((search_spec _ cands).1 mv).mp hm)
        obtain ⟨h2, h3⟩ := (hmem mv).mp h1
        exact ⟨h2, h3⟩
      · cases h
  | simple piece file rank isCapture dst =>
    simp only at h
    split at h
    · cases h
    · rename_i hcap
      split at h
      · cases h
      · rename_i cands hc
        split at h
        · rename_i m hm
          cases h
          obtain ⟨h1, hsrc⟩ := mem_of_filter_eq_singleton _ _ _ (((search_spec _ cands).1 mv).mp hm)
          by_cases hp : piece = .pawn
          · subst hp
            rw [sanCandidates_pawn b dst cands hc] at h1
            cases h1
          · obtain ⟨_, hmem⟩ := sanCandidates_sound b hv piece hp dst cands hc
            obtain ⟨⟨s, rfl⟩, h2⟩ := (hmem mv).mp h1
            refine ⟨h2, rfl, rfl, rfl, ?_⟩
            rw [searcherSrcs_has, Bool.and_eq_true] at hsrc
            refine ⟨hsrc.1, hsrc.2, ?_⟩
            intro hic hemp
            apply hcap
            rw [hic, hemp]
            rfl
        · cases h

theorem san_sound_step (b : Board) (hv : Valid b) (d : SanData) (mv : Move) (h : sanIntoMove d b = .ok mv) :
    C13.LegalStep b mv := by
  obtain ⟨⟨h1, h2, h3⟩, _⟩ := san_sound b hv d mv h
  exact ⟨h1, h2, h3⟩

/-- C09 for text input: `Move::from_san` returns only legal moves that agree with the parsed text -/
theorem moveFromSan_sound (b : Board) (hv : Valid b) (s : Bytes) (mv : Move) (h : moveFromSan s b = .ok mv) :
    ∃ sm, parseSan s = .ok sm ∧ sanIntoMove sm.data b = .ok mv ∧ C13.LegalStep b mv ∧ Agrees b sm.data mv := by
  unfold moveFromSan at h
  split at h
  · cases h
  · cases h
  · rename_i sm hsm
    split at h
    · cases h
    · cases h
    · rename_i mv' hmv
      cases h
      exact ⟨sm, hsm, hmv, san_sound_step b hv _ _ hmv, (san_sound b hv _ _ hmv).2⟩

/-! ## 6. the SAN push paths (C02 / C13) -/

/-- `impl Make for san::Move`: an accepted SAN move is a legal step applied by `make_move_unchecked` -/
theorem makeSanMove_ok (b : Board) (hv : Valid b) (m : SanMove) : C13.MakeLikeOk b (makeSanMove b m) := by
  intro mv b' h
  unfold makeSanMove at h
  split at h
  · cases h
  · cases h
  · rename_i mv' hmv
    simp only [Res.ok.injEq, Prod.mk.injEq] at h
    obtain ⟨e1, e2⟩ := h
    subst e1
    exact ⟨san_sound_step b hv _ _ hmv, e2.symm⟩

/-- `impl Make for San<S>`: an accepted SAN string is a legal step applied by `make_move_unchecked` -/
theorem makeSanStr_ok (b : Board) (hv : Valid b) (s : Bytes) : C13.MakeLikeOk b (makeSanStr b s) := by
  intro mv b' h
  unfold makeSanStr at h
  split at h
  · cases h
  · cases h
  · rename_i mv' hmv
    simp only [Res.ok.injEq, Prod.mk.injEq] at h
    obtain ⟨e1, e2⟩ := h
    subst e1
    obtain ⟨_, _, _, hl, _⟩ := moveFromSan_sound b hv s _ hmv
    exact ⟨hl, e2.symm⟩

/-- the position after an accepted SAN push is valid again (C02 for the SAN paths) -/
theorem makeSan_valid (b : Board) (hv : Valid b) :
    (∀ m mv b', makeSanMove b m = .ok (mv, b') → Valid b')
    ∧ (∀ s mv b', makeSanStr b s = .ok (mv, b') → Valid b') := by
  constructor
  · intro m mv b' h
    obtain ⟨hl, e⟩ := makeSanMove_ok b hv m mv b' h
    subst e; exact valid_make b mv hv hl.wf hl.sl hl.legal
  · intro s mv b' h
    obtain ⟨hl, e⟩ := makeSanStr_ok b hv s mv b' h
    subst e; exact valid_make b mv hv hl.wf hl.sl hl.legal

theorem valid_hasKings (b : Board) (hv : Valid b) : HasKings b := by
  intro c
  obtain ⟨k, hk, hu⟩ := hv.checks.king c
  rw [kingPos_of b hv.shape.cons c k hk hu]; rfl

/-- the SAN push paths cannot panic on a valid board (parser-produced data; text) -/
theorem makeSan_no_trap (b : Board) (hv : Valid b) (w : String) :
    (∀ m : SanMove, m.data.ParserShape → makeSanMove b m ≠ .trap w) ∧ (∀ s, makeSanStr b s ≠ .trap w) := by
  have hk := valid_hasKings b hv
  constructor
  · intro m hm h
    unfold makeSanMove at h
    split at h
    · rename_i w' hw; exact sanIntoMove_no_trap b hk _ hm w' hw
    · cases h
    · cases h
  · intro s h
    unfold makeSanStr at h
    split at h
    · rename_i w' hw; exact moveFromSan_no_trap b hk s w' hw
    · cases h
    · cases h

/-! ## 5. ambiguity is reported, never resolved silently -/

theorem nodup_singleton_iff {α : Type} (l : List α) (hl : l.Nodup) (m : α) :
    l = [m] ↔ (m ∈ l ∧ ∀ m' ∈ l, m' = m) := by
  constructor
  · rintro rfl; simp
  · rintro ⟨h1, h2⟩
    cases l with
    | nil => cases h1
    | cons x t =>
      cases t with
      | nil => rw [h2 x (by simp)]
      | cons y r =>
        exfalso
        have hx := h2 x (by simp)
        have hy := h2 y (by simp)
        rw [List.nodup_cons] at hl
        exact hl.1 (by rw [hx, hy]; simp)

theorem nodup_two_iff {α : Type} (l : List α) (hl : l.Nodup) :
    2 ≤ l.length ↔ ∃ m1 m2, m1 ∈ l ∧ m2 ∈ l ∧ m1 ≠ m2 := by
  constructor
  · intro h
    cases l with
    | nil => simp at h
    | cons x t =>
      cases t with
      | nil => simp at h
      | cons y r =>
        rw [List.nodup_cons] at hl
        exact ⟨x, y, by simp, by simp, fun e => hl.1 (by rw [e]; simp)⟩
  · rintro ⟨m1, m2, h1, h2, hne⟩
    cases l with
    | nil => cases h1
    | cons x t =>
      cases t with
      | nil =>
        simp only [List.mem_singleton] at h1 h2
        exact absurd (h1.trans h2.symm) hne
      | cons y r => simp

/-- the searcher over a duplicate-free candidate list whose filtered members are exactly the moves satisfying `A` -/
theorem search_resolve (srcs : BB) (l : List Move) (hl : l.Nodup) (A : Move → Prop)
    (hA : ∀ mv, mv ∈ (l.filter fun x => srcs.has x.src) ↔ A mv) :
    (∀ m, searchResult (l.foldl (searchPush srcs) .empty) = .ok m ↔ (A m ∧ ∀ m', A m' → m' = m))
    ∧ (searchResult (l.foldl (searchPush srcs) .empty) = .error .notFound ↔ ∀ m, ¬ A m)
    ∧ ((∃ x y, searchResult (l.foldl (searchPush srcs) .empty) = .error (.ambiguity x y)) ↔
        ∃ m1 m2, A m1 ∧ A m2 ∧ m1 ≠ m2)
    ∧ (∀ x y, searchResult (l.foldl (searchPush srcs) .empty) = .error (.ambiguity x y) → A x ∧ A y ∧ x ≠ y) := by
  obtain ⟨s1, s2, s3, s4, _⟩ := search_spec srcs l
  have hfl : (l.filter fun x => srcs.has x.src).Nodup := List.Pairwise.filter _ hl
  refine ⟨?_, ?_, ?_, ?_⟩
  · intro m
    rw [s1, nodup_singleton_iff _ hfl, hA]
    constructor
    · rintro ⟨h1, h2⟩; exact ⟨h1, fun m' hm' => h2 m' ((hA m').mpr hm')⟩
    · rintro ⟨h1, h2⟩; exact ⟨h1, fun m' hm' => h2 m' ((hA m').mp hm')⟩
  · rw [s2, List.eq_nil_iff_forall_not_mem]
    constructor
    · intro h m hm; exact h m ((hA m).mpr hm)
    · intro h m hm; exact h m ((hA m).mp hm)
  · rw [s4, nodup_two_iff _ hfl]
    constructor
    · rintro ⟨m1, m2, h1, h2, h3⟩; exact ⟨m1, m2, (hA _).mp h1, (hA _).mp h2, h3⟩
    · rintro ⟨m1, m2, h1, h2, h3⟩; exact ⟨m1, m2, (hA _).mpr h1, (hA _).mpr h2, h3⟩
  · intro x y h
    obtain ⟨rest, hr⟩ := (s3 x y).mp h
    have hx : x ∈ (l.filter fun x => srcs.has x.src) := by rw [hr]; simp
    have hy : y ∈ (l.filter fun x => srcs.has x.src) := by rw [hr]; simp
    refine ⟨(hA x).mp hx, (hA y).mp hy, ?_⟩
    rw [hr, List.nodup_cons] at hfl
    intro e
    exact hfl.1 (by rw [e]; simp)

/-- how `into_move` turns the searcher's answer into its result -/
def liftSearch (r : Except SanIntoErr Move) : Res SanIntoErr Move :=
  match r with
  | .ok m => .ok m
  | .error e => .err e

theorem liftSearch_resolve (r : Except SanIntoErr Move) (A : Move → Prop)
    (r1 : ∀ m, r = .ok m ↔ (A m ∧ ∀ m', A m' → m' = m))
    (r2 : r = .error .notFound ↔ ∀ m, ¬ A m)
    (r3 : (∃ x y, r = .error (.ambiguity x y)) ↔ ∃ m1 m2, A m1 ∧ A m2 ∧ m1 ≠ m2)
    (r4 : ∀ x y, r = .error (.ambiguity x y) → A x ∧ A y ∧ x ≠ y) :
    (∀ m, liftSearch r = .ok m ↔ (A m ∧ ∀ m', A m' → m' = m))
    ∧ (liftSearch r = .err .notFound ↔ ∀ m, ¬ A m)
    ∧ ((∃ x y, liftSearch r = .err (.ambiguity x y)) ↔ ∃ m1 m2, A m1 ∧ A m2 ∧ m1 ≠ m2)
    ∧ (∀ x y, liftSearch r = .err (.ambiguity x y) → A x ∧ A y ∧ x ≠ y) := by
  cases r with
  | ok m0 =>
    simp only [liftSearch, Res.ok.injEq, Except.ok.injEq, reduceCtorEq, false_iff, exists_false, false_imp_iff, implies_true, and_true] at *
    exact ⟨r1, r2, r3⟩
  | error e =>
    simp only [liftSearch, Res.err.injEq, reduceCtorEq, false_iff, Except.error.injEq] at *
    exact ⟨r1, r2, r3, r4⟩

/-- C09 (pawn capture without rank, "ed"): the complete resolution rule — the move is returned iff it is the only legal
move agreeing with the text; an ambiguity is reported iff two different legal moves agree (and the two moves named in
the report are such moves); "not found" iff none agrees -/
theorem san_short_resolve (b : Board) (hv : Valid b) (src dst : Fin 8) (promote : Option Piece) :
    (∀ m, sanIntoMove (.pawnCaptureShort src dst promote) b = .ok m ↔
      ((Legal b m ∧ Agrees b (.pawnCaptureShort src dst promote) m)
        ∧ ∀ m', Legal b m' ∧ Agrees b (.pawnCaptureShort src dst promote) m' → m' = m))
    ∧ (sanIntoMove (.pawnCaptureShort src dst promote) b = .err .notFound ↔
        ∀ m, ¬ (Legal b m ∧ Agrees b (.pawnCaptureShort src dst promote) m))
    ∧ ((∃ x y, sanIntoMove (.pawnCaptureShort src dst promote) b = .err (.ambiguity x y)) ↔
        ∃ m1 m2, (Legal b m1 ∧ Agrees b (.pawnCaptureShort src dst promote) m1)
          ∧ (Legal b m2 ∧ Agrees b (.pawnCaptureShort src dst promote) m2) ∧ m1 ≠ m2)
    ∧ (∀ x y, sanIntoMove (.pawnCaptureShort src dst promote) b = .err (.ambiguity x y) →
        (Legal b x ∧ Agrees b (.pawnCaptureShort src dst promote) x)
          ∧ (Legal b y ∧ Agrees b (.pawnCaptureShort src dst promote) y) ∧ x ≠ y) := by
  obtain ⟨l, hc, hnd, hmem⟩ := sanPawnCapture_spec b hv src dst promote
  have hA : ∀ mv, mv ∈ (l.filter fun x => (searcherSrcs none none).has x.src) ↔
      (Legal b mv ∧ Agrees b (.pawnCaptureShort src dst promote) mv) := by
    intro mv
    rw [List.mem_filter, hmem, searcherSrcs_has]
    simp [Agrees]
  obtain ⟨r1, r2, r3, r4⟩ := search_resolve _ l hnd _ hA
  have hs : sanIntoMove (.pawnCaptureShort src dst promote) b =
      liftSearch (searchResult (l.foldl (searchPush (searcherSrcs none none)) .empty)) := by
    unfold sanIntoMove liftSearch
    simp only [hc]
    generalize searchResult _ = r
    cases r <;> rfl
  rw [hs]
  exact liftSearch_resolve _ _ r1 r2 r3 r4

theorem simple_shape_iff (c : Color) (piece : Piece) (dst : Sq) (mv : Move) :
    (∃ s, mv = mkMove c .simple piece s dst) ↔ (mv.kind = .simple ∧ mv.cell = Cell.mk c piece ∧ mv.dst = dst) := by
  constructor
  · rintro ⟨s, rfl⟩; exact ⟨rfl, rfl, rfl⟩
  · rintro ⟨h1, h2, h3⟩
    refine ⟨mv.src, ?_⟩
    have := mkMove_eta mv c piece h2
    rw [h1, h3] at this
    exact this

/-- C09 (piece moves, "Nbd2"): the complete resolution rule — the move is returned iff it is the only legal move
agreeing with the text (piece, destination, origin hints, capture mark); an ambiguity is reported iff two different
legal moves agree (and the two moves named in the report are such moves); an error "not found" / "capture expected"
iff none agrees -/
theorem san_simple_resolve (b : Board) (hv : Valid b) (piece : Piece) (hp : piece ≠ .pawn) (file rank : Option (Fin 8))
    (isCapture : Bool) (dst : Sq) :
    (∀ m, sanIntoMove (.simple piece file rank isCapture dst) b = .ok m ↔
      ((Legal b m ∧ Agrees b (.simple piece file rank isCapture dst) m)
        ∧ ∀ m', Legal b m' ∧ Agrees b (.simple piece file rank isCapture dst) m' → m' = m))
    ∧ ((sanIntoMove (.simple piece file rank isCapture dst) b = .err .notFound
        ∨ sanIntoMove (.simple piece file rank isCapture dst) b = .err .captureExpected) ↔
        ∀ m, ¬ (Legal b m ∧ Agrees b (.simple piece file rank isCapture dst) m))
    ∧ ((∃ x y, sanIntoMove (.simple piece file rank isCapture dst) b = .err (.ambiguity x y)) ↔
        ∃ m1 m2, (Legal b m1 ∧ Agrees b (.simple piece file rank isCapture dst) m1)
          ∧ (Legal b m2 ∧ Agrees b (.simple piece file rank isCapture dst) m2) ∧ m1 ≠ m2)
    ∧ (∀ x y, sanIntoMove (.simple piece file rank isCapture dst) b = .err (.ambiguity x y) →
        (Legal b x ∧ Agrees b (.simple piece file rank isCapture dst) x)
          ∧ (Legal b y ∧ Agrees b (.simple piece file rank isCapture dst) y) ∧ x ≠ y) := by
  obtain ⟨l, hc, hnd, hmem⟩ := sanCandidates_spec b hv piece hp dst
  by_cases hcap : (isCapture && (b.get dst).isFree) = true
  · have hs : sanIntoMove (.simple piece file rank isCapture dst) b = .err .captureExpected := by
      unfold sanIntoMove; simp only [hcap, if_true]
    rw [Bool.and_eq_true, isFree_iff] at hcap
    have hno : ∀ m, ¬ (Legal b m ∧ Agrees b (.simple piece file rank isCapture dst) m) := by
      rintro m ⟨_, _, _, _, _, _, h6⟩
      exact h6 hcap.1 hcap.2
    rw [hs]
    refine ⟨?_, ?_, ?_, ?_⟩
    · intro m
      constructor
      · intro h; cases h
      · intro h; exact absurd h.1 (hno m)
    · constructor
      · intro _; exact hno
      · intro _; exact Or.inr rfl
    · constructor
      · rintro ⟨x, y, h⟩; cases h
      · rintro ⟨m1, _, h, _⟩; exact absurd h (hno m1)
    · intro x y h; cases h
  · have hs : sanIntoMove (.simple piece file rank isCapture dst) b =
        liftSearch (searchResult (l.foldl (searchPush (searcherSrcs file rank)) .empty)) := by
      unfold sanIntoMove liftSearch
      simp only [hcap, hc]
      generalize searchResult _ = r
      cases r <;> rfl
    have hcap' : isCapture = true → b.get dst ≠ Cell.empty := by
      intro h1 h2
      apply hcap
      rw [h1, h2]; rfl
    have hA : ∀ mv, mv ∈ (l.filter fun x => (searcherSrcs file rank).has x.src) ↔
        (Legal b mv ∧ Agrees b (.simple piece file rank isCapture dst) mv) := by
      intro mv
      rw [List.mem_filter, hmem, searcherSrcs_has, simple_shape_iff, Bool.and_eq_true]
      unfold Agrees
      constructor
      · rintro ⟨⟨⟨h1, h2, h3⟩, h4⟩, h5, h6⟩; exact ⟨h4, h1, h2, h3, h5, h6, hcap'⟩
      · rintro ⟨h4, h1, h2, h3, h5, h6, _⟩; exact ⟨⟨⟨h1, h2, h3⟩, h4⟩, h5, h6⟩
    obtain ⟨r1, r2, r3, r4⟩ := search_resolve _ l hnd _ hA
    obtain ⟨q1, q2, q3, q4⟩ := liftSearch_resolve _ _ r1 r2 r3 r4
    rw [hs]
    refine ⟨q1, ?_, q3, q4⟩
    rw [← q2]
    constructor
    · rintro (h | h)
      · exact h
      · exfalso
        obtain ⟨_, _, _, _, s5⟩ := search_spec (searcherSrcs file rank) l
        cases hr : searchResult (l.foldl (searchPush (searcherSrcs file rank)) .empty) with
        | ok m => rw [hr] at h; simp [liftSearch] at h
        | error e =>
          rw [hr] at h
          simp only [liftSearch, Res.err.injEq] at h
          subst h
          rcases s5 _ hr with h | ⟨x, y, h⟩ <;> cases h
    · intro h; exact Or.inl h

/-! ### uniqueness for every form of SAN data -/

theorem add_back_addU (c : Color) : ∀ t s : Sq, t.add? (-(forwardDelta c)) = some s → addU t (-(forwardDelta c)) = s := by
  cases c <;> decide +kernel

/-- what `into_move` builds for a pawn push -/
theorem pawnMove_ok_shape (b : Board) (dst : Sq) (promote : Option Piece) (mv : Move)
    (h : sanIntoMove (.pawnMove dst promote) b = .ok mv) :
    ∃ src0, dst.add? (-(forwardDelta b.r.side)) = some src0 ∧
      (((b.get src0).isOcc = true ∧
          mv = ⟨(match promote with | some p => promoteKind p | none => .simple), Cell.mk b.r.side .pawn, src0, dst⟩)
       ∨ ((b.get src0).isOcc = false ∧
          mv = ⟨(match promote with | some p => promoteKind p | none => .double), Cell.mk b.r.side .pawn,
            Sq.mk dst.file (doubleSrcRank b.r.side), dst⟩)) := by
  unfold sanIntoMove at h
  simp only at h
  split at h
  · cases h
  · split at h
    · cases h
    · rename_i src0 hadd
      refine ⟨src0, hadd, ?_⟩
      by_cases hocc : (b.get src0).isOcc = true
      · simp only [hocc, Bool.not_true, Bool.false_eq_true, if_false] at h
        split at h
        · cases h
        · rename_i mv0 hnew
          obtain ⟨e0, _⟩ := C10.new?_some _ _ _ _ _ hnew
          obtain ⟨e, _, _⟩ := validateInto_ok b mv0 mv h
          subst e; subst e0
          exact Or.inl ⟨hocc, by cases promote <;> rfl⟩
      · simp only [hocc, Bool.not_false, if_true] at h
        split at h
        · cases h
        · rename_i mv0 hnew
          obtain ⟨e0, _⟩ := C10.new?_some _ _ _ _ _ hnew
          obtain ⟨e, _, _⟩ := validateInto_ok b mv0 mv h
          subst e; subst e0
          exact Or.inr ⟨by simpa using hocc, by cases promote <;> rfl⟩

/-- what `into_move` builds for a pawn capture with full destination -/
theorem pawnCapture_ok_shape (b : Board) (srcFile : Fin 8) (dst : Sq) (promote : Option Piece) (mv : Move)
    (h : sanIntoMove (.pawnCapture srcFile dst promote) b = .ok mv) :
    ∃ src kind, (kind = .simple ∨ kind = .ep) ∧ (kind = .simple → (b.get dst).isFree = false)
      ∧ (Sq.mk srcFile dst.rank).add? (-(forwardDelta b.r.side)) = some src
      ∧ mv = ⟨(match promote with | some p => promoteKind p | none => kind), Cell.mk b.r.side .pawn, src, dst⟩ := by
  unfold sanIntoMove at h
  simp only at h
  split at h
  · cases h
  · generalize hkind : (if some dst = b.r.epDest then Kind.ep else Kind.simple) = kind at h
    have hk2 : kind = .simple ∨ kind = .ep := by subst hkind; split <;> simp
    split at h
    · cases h
    · rename_i hguard
      split at h
      · cases h
      · rename_i src hadd
        split at h
        · cases h
        · rename_i mv0 hnew
          obtain ⟨e0, _⟩ := C10.new?_some _ _ _ _ _ hnew
          obtain ⟨e, _, _⟩ := validateInto_ok b mv0 mv h
          subst e; subst e0
          refine ⟨src, kind, hk2, ?_, hadd, rfl⟩
          intro hk
          rw [hk] at hguard
          simpa using hguard

/-- the kinds a semilegal pawn move can have when it does not promote -/
theorem pawn_kind_cases3 (b : Board) (mv : Move) (hsl : SL b mv) (hcell : mv.cell = Cell.mk b.r.side .pawn)
    (hpr : mv.kind.promote = none) : mv.kind = .simple ∨ mv.kind = .double ∨ mv.kind = .ep := by
  obtain ⟨piece, hc, hmatch, hmv⟩ := sl_normal b mv hsl
  have hp : piece = .pawn := (mk_inj (hc.symm.trans hcell)).2
  subst hp
  obtain ⟨hknull, _⟩ := semilegal_base b mv hsl.2
  cases hk : mv.kind <;> simp only [hk, Kind.promote, reduceCtorEq] at hpr hmatch hknull
  · exact absurd rfl hknull
  · exact Or.inl rfl
  · simp [Kind.matchesPiece] at hmatch
  · simp [Kind.matchesPiece] at hmatch
  · exact Or.inr (Or.inl rfl)
  · exact Or.inr (Or.inr rfl)

theorem pawnMove_unique (b : Board) (dst : Sq) (promote : Option Piece) (mv : Move)
    (h : sanIntoMove (.pawnMove dst promote) b = .ok mv) (mv' : Move) (hl : Legal b mv')
    (ha : Agrees b (.pawnMove dst promote) mv') : mv' = mv := by
  obtain ⟨src0, hadd, hshape⟩ := pawnMove_ok_shape b dst promote mv h
  have hsrc0 := add_back_addU b.r.side dst src0 hadd
  obtain ⟨hcell, hdst, hfile, hpromo⟩ := ha
  have hsl : SL b mv' := ⟨hl.1, hl.2.1⟩
  have hmv := mkMove_eta mv' _ _ hcell
  rw [hdst] at hmv hfile
  have hsl' := hsl
  rw [hmv] at hsl'
  have hne0 : ∀ s, b.get s = Cell.mk b.r.side .pawn → (b.get s).isOcc = true := by
    intro s e; rw [e, isOcc_iff]; exact mk_ne_zero _ _
  cases promote with
  | none =>
    have hpr : mv'.kind.promote = none := hpromo
    rcases pawn_kind_cases3 b mv' hsl hcell hpr with hk | hk | hk
    · rw [hk] at hsl' hmv
      obtain ⟨g1, _, _, _, _, gs, _⟩ := (sl_pawn_simple b mv'.src dst).mp hsl'
      obtain ⟨_, e⟩ := (pg_push b.r.side mv'.src dst).mp ⟨hfile, gs⟩
      rw [hsrc0] at e
      rcases hshape with ⟨_, hm⟩ | ⟨hno, _⟩
      · rw [hm, hmv, e]; rfl
      · rw [← e, hne0 _ g1] at hno; cases hno
    · rw [hk] at hsl' hmv
      obtain ⟨g1, g2, g3, g4, g5, g6⟩ := (sl_pawn_double b mv'.src dst).mp hsl'
      obtain ⟨pd1, pd2⟩ := pg_double b.r.side mv'.src dst
      obtain ⟨_, _, k3, k4⟩ := pd1.mp ⟨g2, g3, g4⟩
      obtain ⟨_, e2⟩ := pd2 k3 k4
      rw [e2, hsrc0] at g5
      rcases hshape with ⟨hocc, _⟩ | ⟨_, hm⟩
      · rw [isOcc_iff] at hocc; exact absurd g5 hocc
      · have hs : mv'.src = Sq.mk dst.file (doubleSrcRank b.r.side) := by
          rw [← g2, ← g3]; exact (Sq.mk_file_rank _).symm
        rw [hm, hmv, hs]; rfl
    · rw [hk] at hsl'
      exact absurd hfile (file_ne_of_diff ((sl_pawn_ep b mv'.src dst).mp hsl').2.2.2.1)
  | some p =>
    have hk : mv'.kind = promoteKind p := hpromo
    rw [hk] at hsl' hmv
    obtain ⟨g1, g2, g3, _⟩ := (sl_pawn_promo b _ (promoteKind_is p) mv'.src dst).mp hsl'
    have hstep := (pg_promo b.r.side mv'.src dst g2 (by rw [hfile]; simp [absDiff])).mp g3
    obtain ⟨_, e⟩ := (pg_push b.r.side mv'.src dst).mp ⟨hfile, hstep⟩
    rw [hsrc0] at e
    rcases hshape with ⟨_, hm⟩ | ⟨hno, _⟩
    · rw [hm, hmv, e]; rfl
    · rw [← e, hne0 _ g1] at hno; cases hno

theorem rankStep_inj (c : Color) (s s' d : Sq) (h1 : rankStep c s d) (h2 : rankStep c s' d) : s.rank = s'.rank := by
  cases c <;> unfold rankStep at h1 h2 <;> apply Fin.ext <;> omega

theorem sq_ext (s t : Sq) (hf : s.file = t.file) (hr : s.rank = t.rank) : s = t := by
  rw [← Sq.mk_file_rank s, ← Sq.mk_file_rank t, hf, hr]

theorem pawnCapture_unique (b : Board) (hv : Valid b) (srcFile : Fin 8) (dst : Sq) (promote : Option Piece) (mv : Move)
    (h : sanIntoMove (.pawnCapture srcFile dst promote) b = .ok mv) (mv' : Move) (hl : Legal b mv')
    (ha : Agrees b (.pawnCapture srcFile dst promote) mv') : mv' = mv := by
  obtain ⟨src, kind, hk2, hguard, hadd, hm⟩ := pawnCapture_ok_shape b srcFile dst promote mv h
  have hsf : src.file = srcFile := by
    have := add_back_file b.r.side _ src hadd
    rwa [Sq.file_mk] at this
  obtain ⟨⟨hwfm, hslm, _⟩, _⟩ := san_sound b hv _ mv h
  have hslm' : SL b mv := ⟨hwfm, hslm⟩
  obtain ⟨hcell, hsrcf, hdst, hpromo⟩ := ha
  have hsl : SL b mv' := ⟨hl.1, hl.2.1⟩
  have hmv := mkMove_eta mv' _ _ hcell
  rw [hdst] at hmv
  have hsl' := hsl
  rw [hmv] at hsl'
  have hff : mv'.src.file = src.file := hsrcf.trans hsf.symm
  have hfree_of_ep : ∀ s, SL b (mkMove b.r.side .ep .pawn s dst) → b.get dst = Cell.empty := by
    intro s hs
    obtain ⟨_, _, _, _, _, p, hp, _, hd⟩ := (sl_pawn_ep b s dst).mp hs
    rw [hd]
    exact (hv.shape.ep p hp).2.2
  cases promote with
  | some p =>
    have hk : mv'.kind = promoteKind p := hpromo
    rw [hk] at hsl' hmv
    simp only at hm
    rw [hm] at hslm'
    obtain ⟨_, g2, _⟩ := (sl_pawn_promo b _ (promoteKind_is p) mv'.src dst).mp hsl'
    obtain ⟨_, g2', _⟩ := (sl_pawn_promo b _ (promoteKind_is p) src dst).mp hslm'
    rw [hm, hmv, sq_ext _ _ hff (g2.trans g2'.symm)]; rfl
  | none =>
    have hpr : mv'.kind.promote = none := hpromo
    simp only at hm
    rw [hm] at hslm'
    rcases pawn_kind_cases3 b mv' hsl hcell hpr with hk | hk | hk <;> rcases hk2 with hk' | hk' <;>
      rw [hk] at hsl' hmv <;> rw [hk'] at hslm' hm
    · obtain ⟨_, _, _, _, _, gs, _⟩ := (sl_pawn_simple b mv'.src dst).mp hsl'
      obtain ⟨_, _, _, _, _, gs', _⟩ := (sl_pawn_simple b src dst).mp hslm'
      rw [hm, hmv, sq_ext _ _ hff (rankStep_inj _ _ _ _ gs gs')]; rfl
    · exfalso
      have he := hfree_of_ep src hslm'
      have hd1 := ((sl_pawn_ep b src dst).mp hslm').2.2.2.1
      obtain ⟨_, _, _, _, _, _, gd⟩ := (sl_pawn_simple b mv'.src dst).mp hsl'
      rcases gd with ⟨e1, _⟩ | ⟨_, e2⟩
      · rw [hff] at e1; exact file_ne_of_diff hd1 e1
      · rw [he, empty_color] at e2; cases e2
    · exfalso
      obtain ⟨_, g2, _⟩ := (sl_pawn_double b mv'.src dst).mp hsl'
      obtain ⟨_, _, _, _, _, _, gd⟩ := (sl_pawn_simple b src dst).mp hslm'
      rcases gd with ⟨_, e2⟩ | ⟨e1, _⟩
      · have := hguard hk'
        rw [e2] at this; exact absurd this (by decide)
      · rw [hff] at g2; exact file_ne_of_diff e1 g2
    · exfalso
      obtain ⟨_, g2, _⟩ := (sl_pawn_double b mv'.src dst).mp hsl'
      have hd1 := ((sl_pawn_ep b src dst).mp hslm').2.2.2.1
      rw [hff] at g2; exact file_ne_of_diff hd1 g2
    · exfalso
      have he := hfree_of_ep _ hsl'
      have := hguard hk'
      rw [he] at this; exact absurd this (by decide)
    · have g2 := ((sl_pawn_ep b mv'.src dst).mp hsl').2.1
      have g2' := ((sl_pawn_ep b src dst).mp hslm').2.1
      rw [hm, hmv, sq_ext _ _ hff (g2.trans g2'.symm)]; rfl

/-- C09: whenever `into_move` returns a move, that move is the ONLY legal move of the position agreeing with the text
(for every form of SAN data) -/
theorem san_unique (b : Board) (hv : Valid b) (d : SanData) (mv : Move) (h : sanIntoMove d b = .ok mv)
    (mv' : Move) (hl : Legal b mv') (ha : Agrees b d mv') : mv' = mv := by
  have hs := (san_sound b hv d mv h).2
  cases d with
  | uci u =>
    have h1 : uciIntoMove u b = some mv' := ha
    have h2 : uciIntoMove u b = some mv := hs
    rw [h1] at h2; exact Option.some.inj h2
  | castling s =>
    have h1 : mv' = Move.fromCastling b.r.side s := ha
    have h2 : mv = Move.fromCastling b.r.side s := hs
    rw [h1, h2]
  | pawnMove dst promote => exact pawnMove_unique b dst promote mv h mv' hl ha
  | pawnCapture srcFile dst promote => exact pawnCapture_unique b hv srcFile dst promote mv h mv' hl ha
  | pawnCaptureShort src dst promote =>
    exact (((san_short_resolve b hv src dst promote).1 mv).mp h).2 mv' ⟨hl, ha⟩
  | simple piece file rank isCapture dst =>
    by_cases hp : piece = .pawn
    · exfalso
      subst hp
      unfold sanIntoMove at h
      simp only at h
      split at h
      · cases h
      · split at h
        · cases h
        · rename_i cands hc
          rw [sanCandidates_pawn b dst cands hc] at h
          simp [searchResult] at h
    · exact (((san_simple_resolve b hv piece hp file rank isCapture dst).1 mv).mp h).2 mv' ⟨hl, ha⟩

/-- C09: ambiguity is reported, never resolved silently — if two different legal moves agree with a piece move
("Nd2", "R1e1", …) or a short pawn capture ("ed"), `into_move` answers `Ambiguity` (naming two different legal moves
that agree with the text) -/
theorem san_ambiguity_reported (b : Board) (hv : Valid b) (d : SanData)
    (hd : (∃ piece file rank isCapture dst, piece ≠ .pawn ∧ d = .simple piece file rank isCapture dst)
      ∨ (∃ src dst promote, d = .pawnCaptureShort src dst promote))
    (m1 m2 : Move) (hne : m1 ≠ m2) (hl1 : Legal b m1) (ha1 : Agrees b d m1) (hl2 : Legal b m2) (ha2 : Agrees b d m2) :
    ∃ x y, sanIntoMove d b = .err (.ambiguity x y) ∧ x ≠ y ∧ Legal b x ∧ Agrees b d x ∧ Legal b y ∧ Agrees b d y := by
  rcases hd with ⟨piece, file, rank, isCapture, dst, hp, rfl⟩ | ⟨src, dst, promote, rfl⟩
  · obtain ⟨_, _, r3, r4⟩ := san_simple_resolve b hv piece hp file rank isCapture dst
    obtain ⟨x, y, hxy⟩ := r3.mpr ⟨m1, m2, ⟨hl1, ha1⟩, ⟨hl2, ha2⟩, hne⟩
    obtain ⟨⟨a1, a2⟩, ⟨a3, a4⟩, a5⟩ := r4 x y hxy
    exact ⟨x, y, hxy, a5, a1, a2, a3, a4⟩
  · obtain ⟨_, _, r3, r4⟩ := san_short_resolve b hv src dst promote
    obtain ⟨x, y, hxy⟩ := r3.mpr ⟨m1, m2, ⟨hl1, ha1⟩, ⟨hl2, ha2⟩, hne⟩
    obtain ⟨⟨a1, a2⟩, ⟨a3, a4⟩, a5⟩ := r4 x y hxy
    exact ⟨x, y, hxy, a5, a1, a2, a3, a4⟩

/-- the extra conjunct `kind = simple` in `Agrees` for piece moves only matters for the king (castling): for the other
pieces a well-formed move of that piece is of kind `simple` anyway -/
theorem kind_simple_of_piece (mv : Move) (hwf : mv.isWellFormed = true) (c : Color) (piece : Piece)
    (hcell : mv.cell = Cell.mk c piece) (hp : piece ≠ .pawn) (hk : piece ≠ .king) : mv.kind = .simple := by
  have hknull : mv.kind ≠ .null := by
    intro e
    unfold Move.isWellFormed at hwf
    rw [if_pos e] at hwf
    have : mv = Move.null := by simpa using hwf
    rw [this] at hcell
    exact mk_ne_zero c piece hcell.symm
  obtain ⟨_, color, piece', hcol, hpiece, hmatch, _⟩ := wf_facts mv hwf hknull
  have : piece' = piece := by
    rw [hcell, piece_mk] at hpiece; exact (Option.some.inj hpiece).symm
  subst this
  cases hkk : mv.kind <;> rw [hkk] at hmatch hknull
  all_goals first
    | rfl
    | exact absurd rfl hknull
    | (revert hmatch; cases piece' <;> simp [Kind.matchesPiece] at hp hk ⊢)

/-! ### non-vacuity -/

/-- "Nf3" in the initial position -/
example : sanIntoMove (.simple .knight none none false 45) (buildBoard C04.initialRaw) = .ok ⟨.simple, 3, 62, 45⟩ := by
  decide +kernel

/-- "4k3/8/8/8/8/8/8/N1N1K3 w - - 0 1" -/
def fenTwoKnights : Bytes :=
  [52, 107, 51, 47, 56, 47, 56, 47, 56, 47, 56, 47, 56, 47, 56, 47, 78, 49, 78, 49, 75, 51, 32, 119, 32, 45, 32, 45,
    32, 48, 32, 49]

/-- "Nb3" with knights on a1 and c1: reported as ambiguous -/
example : (match parseFenBoard fenTwoKnights with
    | .ok b => moveFromSan [78, 98, 51] b
    | _ => .trap "fen") = .err (.convert (.ambiguity ⟨.simple, 3, 58, 41⟩ ⟨.simple, 3, 56, 41⟩)) := by
  decide +kernel

/-- "Nab3" in the same position: resolved by the file hint -/
example : (match parseFenBoard fenTwoKnights with
    | .ok b => moveFromSan [78, 97, 98, 51] b
    | _ => .trap "fen") = .ok ⟨.simple, 3, 56, 41⟩ := by
  decide +kernel

/-- "4k3/8/8/3p4/4P3/3p4/4P3/4K3 w - - 0 1" -/
def fenTwoCaptures : Bytes := [52, 107, 51, 47, 56, 47, 56, 47, 51, 112, 52, 47, 52, 80, 51, 47, 51, 112, 52, 47, 52, 80, 51, 47, 52, 75, 51, 32, 119, 32, 45, 32, 45, 32, 48, 32, 49]

/-- "ed" with e4xd5 and e2xd3 both legal: reported as ambiguous -/
example : (match parseFenBoard fenTwoCaptures with
    | .ok b => moveFromSan [101, 100] b
    | _ => .trap "fen") = .err (.convert (.ambiguity ⟨.simple, 1, 52, 43⟩ ⟨.simple, 1, 36, 27⟩)) := by
  decide +kernel

end Owl.Props.C09
