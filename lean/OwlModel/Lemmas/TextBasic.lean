/-
Helper lemmas about the byte-level parsers of the base types.
-/
import OwlModel.Impl.Text

namespace Owl.Lemmas
open Owl Owl.Impl

theorem fileOfByte_some {b : Nat} {f : Fin 8} (h : fileOfByte b = some f) : b = 97 + f.val := by
  unfold fileOfByte at h; split at h
  · injection h with h; subst h; simp; omega
  · simp at h
theorem rankOfByte_some {b : Nat} {r : Fin 8} (h : rankOfByte b = some r) : b = 56 - r.val := by
  unfold rankOfByte at h; split at h
  · injection h with h; subst h; simp; omega
  · simp at h


theorem cellOfByte_big (b : Nat) (hb : ¬ b < 128) : cellOfByte b = none := by
  unfold cellOfByte toLower isUpper
  have h1 : ¬ b = 46 := by omega
  have h3 : (decide (65 ≤ b) && decide (b ≤ 90)) = false := by simp; omega
  simp only [h1, if_false, h3]
  simp
  have e1 : ¬ b = 112 := by omega
  have e2 : ¬ b = 107 := by omega
  have e3 : ¬ b = 110 := by omega
  have e4 : ¬ b = 98 := by omega
  have e5 : ¬ b = 114 := by omega
  have e6 : ¬ b = 113 := by omega
  simp [e1, e2, e3, e4, e5, e6]

end Owl.Lemmas
