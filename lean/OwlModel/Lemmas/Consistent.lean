/-
Backbone: membership characterisation of the occupancy sets rebuilt from the squares, the XOR-fold
form of the from-scratch hash and its point update, projections of the board-edit helpers.
-/
import OwlModel.Lemmas.BitSet
import OwlModel.Impl.Moves

namespace Owl.Lemmas
open Owl Owl.Impl

theorem has_foldl_cond (p : Sq → Bool) (l : List Sq) (acc : BB) (t : Sq) :
    (l.foldl (fun acc s => if p s then acc ||| BB.single s else acc) acc).has t
      = (acc.has t || (decide (t ∈ l) && p t)) := by
  induction l generalizing acc with
  | nil => simp
  | cons x xs ih =>
    simp only [List.foldl_cons, ih, List.mem_cons]
    by_cases hx : p x
    · simp only [hx, if_true, BB.has_or, BB.has_single]
      by_cases h : x = t
      · subst h; simp [hx]
      · have : ¬ t = x := fun e => h e.symm
        simp [h, this]
    · simp only [hx]
      by_cases h : t = x
      · subst h; simp [hx]
      · simp [h]

theorem has_colorSet (cells : Tab 64 Cell) (c : Color) (t : Sq) :
    (colorSet cells c).has t = decide ((cells.get t).color = some c) := by
  unfold colorSet
  have := has_foldl_cond (fun s => decide ((cells.get s).color = some c)) Sq.all 0#64 t
  simp only [decide_eq_true_eq] at this
  rw [this]; simp [Sq.all, List.mem_finRange]

theorem has_pieceSet (cells : Tab 64 Cell) (x : Cell) (t : Sq) :
    (pieceSet cells x).has t = (decide (x.val ≠ 0) && decide (cells.get t = x)) := by
  unfold pieceSet
  by_cases hx : x.val = 0
  · simp [hx]
  · have := has_foldl_cond (fun s => decide (cells.get s = x)) Sq.all 0#64 t
    simp only [decide_eq_true_eq] at this
    simp only [hx, if_false]
    rw [this]; simp [Sq.all, List.mem_finRange, hx]

end Owl.Lemmas

namespace Owl.Lemmas
open Owl Owl.Impl

/-! ### the from-scratch hash as an XOR fold -/

def xorFold (f : Sq → BB) (l : List Sq) (acc : BB) : BB := l.foldl (fun h s => h ^^^ f s) acc

theorem xorFold_acc (f : Sq → BB) (l : List Sq) (acc : BB) : xorFold f l acc = acc ^^^ xorFold f l 0#64 := by
  unfold xorFold
  induction l generalizing acc with
  | nil => simp
  | cons x xs ih =>
    simp only [List.foldl_cons]
    rw [ih (acc ^^^ f x), ih (0#64 ^^^ f x)]
    simp [BitVec.xor_assoc]

theorem xorFold_congr (f g : Sq → BB) (l : List Sq) (acc : BB) (h : ∀ s ∈ l, f s = g s) :
    xorFold f l acc = xorFold g l acc := by
  unfold xorFold
  induction l generalizing acc with
  | nil => rfl
  | cons x xs ih =>
    simp only [List.foldl_cons]
    rw [h x (by simp), ih _ (fun s hs => h s (by simp [hs]))]

theorem xor_cancel_left (a b : BB) : a ^^^ (a ^^^ b) = b := by
  rw [← BitVec.xor_assoc]; simp

theorem xorFold_update (f g : Sq → BB) (p : Sq) (l : List Sq) (hnd : l.Nodup) (hp : p ∈ l)
    (hfg : ∀ s, s ≠ p → f s = g s) :
    xorFold g l 0#64 = xorFold f l 0#64 ^^^ f p ^^^ g p := by
  induction l with
  | nil => simp at hp
  | cons x xs ih =>
    have hnd' := (List.nodup_cons.mp hnd)
    unfold xorFold
    simp only [List.foldl_cons]
    show xorFold g xs (0#64 ^^^ g x) = xorFold f xs (0#64 ^^^ f x) ^^^ f p ^^^ g p
    rw [xorFold_acc g xs, xorFold_acc f xs]
    by_cases hx : x = p
    · subst hx
      have hcong : xorFold g xs 0#64 = xorFold f xs 0#64 :=
        (xorFold_congr f g xs 0 (fun s hs => hfg s (fun e => hnd'.1 (e ▸ hs)))).symm
      rw [hcong]
      grind
    · have hp' : p ∈ xs := by
        rcases List.mem_cons.mp hp with h | h
        · exact absurd h.symm hx
        · exact h
      rw [ih hnd'.2 hp', hfg x hx]
      grind

/-- key of one square; the emptiness test of `RawBoard::zobrist_hash` is folded in -/
def cellKey (c : Cell) (s : Sq) : BB := if c.isOcc then zPieces c s else 0#64

def cellsHash (cells : Tab 64 Cell) : BB := xorFold (fun s => cellKey (cells.get s) s) Sq.all 0#64

/-- side, en-passant and castling part of the hash -/
def headerHash (side : Color) (ep : Option Sq) (castling : Rights) : BB :=
  ((if side = .white then zMoveSide else 0#64) ^^^ (match ep with | some p => zEnpassant p | none => 0#64))
    ^^^ zCastling castling

theorem zobrist_eq (r : RawBoard) : r.zobrist = headerHash r.side r.ep r.castling ^^^ cellsHash r.cells := by
  unfold RawBoard.zobrist headerHash cellsHash
  have hfold : ∀ acc : BB,
      Sq.all.foldl (fun h s => if (r.get s).isOcc then h ^^^ zPieces (r.get s) s else h) acc
        = xorFold (fun s => cellKey (r.cells.get s) s) Sq.all acc := by
    intro acc
    unfold xorFold
    congr 1
    funext h s
    unfold cellKey RawBoard.get
    by_cases ho : (r.cells.get s).isOcc <;> simp [ho]
  simp only [hfold]
  rw [xorFold_acc]
  congr 1
  cases r.ep <;> simp

theorem sq_all_nodup : Sq.all.Nodup := List.nodup_finRange 64
theorem mem_sq_all (s : Sq) : s ∈ Sq.all := List.mem_finRange s

theorem cellsHash_put (cells : Tab 64 Cell) (p : Sq) (c : Cell) :
    cellsHash (cells.put p c) = cellsHash cells ^^^ cellKey (cells.get p) p ^^^ cellKey c p := by
  unfold cellsHash
  have := xorFold_update (fun s => cellKey (cells.get s) s) (fun s => cellKey ((cells.put p c).get s) s) p
    Sq.all sq_all_nodup (mem_sq_all p) (by
      intro s hs
      have : ¬ p = s := fun e => hs e.symm
      simp [Tab.get_put, this])
  rw [this]
  simp [Tab.get_put]

end Owl.Lemmas
