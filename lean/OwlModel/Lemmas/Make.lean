/-
Backbone: `make_move_unchecked` keeps the derived state consistent (C05) — one lemma per move kind.
-/
import OwlModel.Lemmas.Backbone

namespace Owl.Lemmas
open Owl Owl.Impl

theorem clearEp_color (b : Board) (c : Color) : b.clearEp.color c = b.color c := by
  unfold Board.clearEp; split <;> simp
theorem clearEp_pieces (b : Board) : b.clearEp.pieces = b.pieces := by unfold Board.clearEp; split <;> simp
theorem clearEp_get (b : Board) (t : Sq) : b.clearEp.get t = b.get t := by unfold Board.clearEp; split <;> simp
theorem clearEp_cells (b : Board) : b.clearEp.r.cells = b.r.cells := by unfold Board.clearEp; split <;> simp
theorem clearEp_side (b : Board) : b.clearEp.r.side = b.r.side := by unfold Board.clearEp; split <;> simp
theorem clearEp_castling (b : Board) : b.clearEp.r.castling = b.r.castling := by unfold Board.clearEp; split <;> simp
theorem clearEp_ep (b : Board) : b.clearEp.r.ep = none := by
  unfold Board.clearEp; split <;> simp_all
theorem clearEp_mc (b : Board) : b.clearEp.r.mc = b.r.mc := by unfold Board.clearEp; split <;> simp
theorem clearEp_mn (b : Board) : b.clearEp.r.mn = b.r.mn := by unfold Board.clearEp; split <;> simp
theorem clearEp_hash (b : Board) :
    b.clearEp.hash = b.hash ^^^ (match b.r.ep with | some p => zEnpassant p | none => 0#64) := by
  unfold Board.clearEp; split <;> simp_all

end Owl.Lemmas

namespace Owl.Lemmas
open Owl Owl.Impl

theorem ite_uc_color (p : Prop) [Decidable p] (X : Board) (ch : BB) (c : Color) :
    (if p then updateCastling X ch else X).color c = X.color c := by split <;> simp [updateCastling_color]
theorem ite_uc_pieces (p : Prop) [Decidable p] (X : Board) (ch : BB) :
    (if p then updateCastling X ch else X).pieces = X.pieces := by split <;> simp [updateCastling_pieces]
theorem ite_uc_get (p : Prop) [Decidable p] (X : Board) (ch : BB) (t : Sq) :
    (if p then updateCastling X ch else X).get t = X.get t := by split <;> simp [updateCastling_get]
theorem ite_uc_hash (p : Prop) [Decidable p] (X : Board) (ch : BB) :
    (if p then updateCastling X ch else X).hash
      = X.hash ^^^ zCastling X.r.castling ^^^ zCastling (if p then updateCastling X ch else X).r.castling := by
  split
  · exact updateCastling_hash X ch
  · grind
theorem ite_uc_cells (p : Prop) [Decidable p] (X : Board) (ch : BB) :
    (if p then updateCastling X ch else X).r.cells = X.r.cells := by split <;> simp [updateCastling_cells]
theorem ite_uc_side (p : Prop) [Decidable p] (X : Board) (ch : BB) :
    (if p then updateCastling X ch else X).r.side = X.r.side := by split <;> simp [updateCastling_side]
theorem ite_uc_ep (p : Prop) [Decidable p] (X : Board) (ch : BB) :
    (if p then updateCastling X ch else X).r.ep = X.r.ep := by split <;> simp [updateCastling_ep]

def epKey : Option Sq → BB
  | some p => zEnpassant p
  | none => 0#64

theorem headerHash_change (side : Color) (ep ep' : Option Sq) (k k' : Rights) :
    headerHash side ep' k' = headerHash side ep k ^^^ epKey ep ^^^ epKey ep' ^^^ zCastling k ^^^ zCastling k' := by
  unfold headerHash epKey
  cases ep <;> cases ep' <;> simp <;> grind

theorem headerHash_flip (side : Color) (ep : Option Sq) (k : Rights) :
    headerHash side.inv ep k = headerHash side ep k ^^^ zMoveSide := by
  unfold headerHash
  cases side <;> simp [Color.inv] <;> grind

@[simp] theorem color_empty : Cell.empty.color = none := by decide
@[simp] theorem color_zero : Cell.color 0 = none := by decide
@[simp] theorem color_mk (c : Color) (p : Piece) : (Cell.mk c p).color = some c := by cases c <;> cases p <;> decide
theorem mk_ne_zero (c : Color) (p : Piece) : Cell.mk c p ≠ 0 := by cases c <;> cases p <;> decide
theorem mk_inj {c c' : Color} {p p' : Piece} (h : Cell.mk c p = Cell.mk c' p') : c = c' ∧ p = p' := by
  revert h; cases c <;> cases c' <;> cases p <;> cases p' <;> decide

theorem cell_color_ne_zero {x : Cell} {c : Color} (h : x.color = some c) : x ≠ 0 := by
  intro e; subst e; simp at h

/-- simp set: projections through the board-edit helpers -/
macro "proj_simp" : tactic => `(tactic| simp only [refreshAll_color, refreshAll_hash, refreshAll_pieces, refreshAll_get,
  refreshAll_r, refreshAll_all, xorHash_color, xorHash_hash, xorHash_pieces, xorHash_get, xorHash_r,
  setTurn_color, setTurn_hash, setTurn_pieces, setTurn_get, setTurn_cells, setTurn_side, setTurn_castling, setTurn_ep,
  ite_uc_color, ite_uc_get, ite_uc_pieces, ite_uc_hash, ite_uc_cells, ite_uc_side, ite_uc_ep,
  andNotPiece_color, andNotPiece_get, andNotPiece_pieces, andNotPiece_hash, andNotPiece_r,
  andNotColor_color, andNotColor_get, andNotColor_pieces, andNotColor_hash, andNotColor_r,
  orPiece_color, orPiece_get, orPiece_pieces, orPiece_hash, orPiece_r,
  orColor_color, orColor_get, orColor_pieces, orColor_hash, orColor_r,
  xorPiece_color, xorPiece_get, xorPiece_pieces, xorPiece_hash, xorPiece_r,
  xorColor_color, xorColor_get, xorColor_pieces, xorColor_hash, xorColor_r,
  putCell_color, putCell_get, putCell_pieces, putCell_hash, putCell_cells, putCell_castling, putCell_ep, putCell_side,
  setCastling_color, setCastling_get, setCastling_pieces, setCastling_hash, setCastling_cells, setCastling_castling,
  setCastling_ep, setCastling_side,
  setEp_color, setEp_get, setEp_pieces, setEp_hash, setEp_cells, setEp_castling, setEp_ep, setEp_side,
  clearEp_color, clearEp_get, clearEp_pieces, clearEp_hash, clearEp_cells, clearEp_castling, clearEp_ep, clearEp_side,
  updateCastling_color, updateCastling_pieces, updateCastling_get, updateCastling_cells, updateCastling_side,
  updateCastling_ep, Tab.get_put])

/-- what `make_move_unchecked` needs of its argument, per kind (implied by well-formed + semilegal on a
board with `Shape`, and trivially true for the null move) -/
def MakeOk (b : Board) (mv : Move) : Prop :=
  let c := b.r.side
  match mv.kind with
  | .null => True
  | .simple =>
    b.get mv.src = mv.cell ∧ mv.cell.color = some c ∧ (b.get mv.dst).color ≠ some c ∧ mv.src ≠ mv.dst
  | .promN | .promB | .promR | .promQ =>
    b.get mv.src = mv.cell ∧ mv.cell = Cell.mk c .pawn ∧ (b.get mv.dst).color ≠ some c ∧ mv.src ≠ mv.dst
  | .double =>
    b.get mv.src = Cell.mk c .pawn ∧ b.get mv.dst = Cell.empty ∧ mv.src ≠ mv.dst
  | .ep =>
    let taken := addU mv.dst (-(forwardDelta c))
    b.get mv.src = Cell.mk c .pawn ∧ b.get mv.dst = Cell.empty ∧ b.get taken = Cell.mk c.inv .pawn
      ∧ mv.src ≠ mv.dst ∧ taken ≠ mv.src ∧ taken ≠ mv.dst
  | .castleK =>
    let rank := castlingRank c
    b.get (Sq.mk fileE rank) = Cell.mk c .king ∧ b.get (Sq.mk fileF rank) = Cell.empty
      ∧ b.get (Sq.mk fileG rank) = Cell.empty ∧ b.get (Sq.mk fileH rank) = Cell.mk c .rook
  | .castleQ =>
    let rank := castlingRank c
    b.get (Sq.mk fileA rank) = Cell.mk c .rook ∧ b.get (Sq.mk fileC rank) = Cell.empty
      ∧ b.get (Sq.mk fileD rank) = Cell.empty ∧ b.get (Sq.mk fileE rank) = Cell.mk c .king

/-- everything in `Consistent` except the combined occupancy, which `do_make_move` refreshes at the end -/
def Core (b : Board) : Prop :=
  b.hash = headerHash b.r.side b.r.ep b.r.castling ^^^ cellsHash b.r.cells
  ∧ (∀ c t, (b.color c).has t = decide ((b.get t).color = some c))
  ∧ (∀ x t, (b.pieces.get x).has t = (decide (x.val ≠ 0) && decide (b.get t = x)))

theorem consistent_core (b : Board) : Consistent b ↔ Core b ∧ b.all = b.color .white ||| b.color .black := by
  rw [consistent_iff']; unfold Core
  constructor
  · intro ⟨a, b, c, d⟩; exact ⟨⟨a, b, d⟩, c⟩
  · intro ⟨⟨a, b, d⟩, c⟩; exact ⟨a, b, c, d⟩

theorem clearEp_hash' (b : Board) : b.clearEp.hash = b.hash ^^^ epKey b.r.ep := by
  rw [clearEp_hash]; cases b.r.ep <;> rfl

theorem clearEp_core (b : Board) (hb : Core b) : Core b.clearEp := by
  obtain ⟨hh, hc, hp⟩ := hb
  refine ⟨?_, ?_, ?_⟩
  · rw [clearEp_hash', clearEp_side, clearEp_ep, clearEp_castling, clearEp_cells,
      headerHash_change b.r.side b.r.ep none b.r.castling b.r.castling, hh]
    simp only [epKey]; grind
  · intro c t; rw [clearEp_color, clearEp_get]; exact hc c t
  · intro x t; rw [clearEp_pieces, clearEp_get]; exact hp x t

theorem tail_consistent (B : Board) (mc mn : Nat) (hB : Core B) :
    Consistent (((B.setTurn mc B.r.side.inv mn).xorHash zMoveSide).refreshAll) := by
  rw [consistent_iff']
  obtain ⟨hh, hc, hp⟩ := hB
  refine ⟨?_, ?_, ?_, ?_⟩
  · proj_simp
    rw [headerHash_flip, hh]; grind
  · intro c t; proj_simp; exact hc c t
  · simp
  · intro x t; proj_simp; exact hp x t

theorem body_simple_core (b : Board) (mv : Move) (hb : Core b) (hk : mv.kind = .simple)
    (ok : MakeOk b mv) : Core (makeBody b.r.side b mv (b.get mv.dst)) := by
  obtain ⟨hh, hc, hp⟩ := hb
  simp only [MakeOk, hk] at ok
  obtain ⟨hsrc, hcol, hdst, hne⟩ := ok
  unfold makeBody
  simp only [hk]
  refine ⟨?_, ?_, ?_⟩
  · proj_simp
    generalize (if mv.cell ≠ Cell.mk b.r.side Piece.pawn then _ else _ : Board).r.castling = K
    rw [headerHash_change b.r.side b.r.ep b.r.ep b.r.castling K, cellsHash_put, cellsHash_put, hh]
    simp only [cellKey_eq, Tab.get_put, hne, if_false]
    have e1 : b.r.cells.get mv.src = mv.cell := hsrc
    have e2 : b.r.cells.get mv.dst = b.get mv.dst := rfl
    have e3 : zPieces Cell.empty mv.src = 0#64 := zPieces_empty mv.src
    rw [e1, e2, e3]
    grind
  · intro c t
    proj_simp
    have hd := hc b.r.side mv.dst
    cases hs : b.r.side <;> cases c <;> simp only [hs] at hcol hdst hd ⊢ <;>
      by_cases h1 : mv.dst = t <;> by_cases h2 : mv.src = t <;> simp_all [Color.inv]
  · intro x t
    proj_simp
    have hz := cell_color_ne_zero hcol
    by_cases h1 : mv.dst = t <;> by_cases h2 : mv.src = t <;> by_cases h3 : b.get mv.dst = x <;>
      by_cases h4 : mv.cell = x <;> simp_all [Cell.empty] <;> grind

theorem promote_cell_facts (c : Color) (k : Kind) (hk : k = .promN ∨ k = .promB ∨ k = .promR ∨ k = .promQ) :
    (Cell.mk c (k.promote.getD .queen)).color = some c ∧ Cell.mk c (k.promote.getD .queen) ≠ Cell.mk c .pawn
      ∧ Cell.mk c (k.promote.getD .queen) ≠ 0 := by
  rcases hk with h | h | h | h <;> subst h <;> cases c <;> decide

theorem body_promote_core (b : Board) (mv : Move) (hb : Core b)
    (hk : mv.kind = .promN ∨ mv.kind = .promB ∨ mv.kind = .promR ∨ mv.kind = .promQ)
    (ok : MakeOk b mv) : Core (makeBody b.r.side b mv (b.get mv.dst)) := by
  obtain ⟨hh, hc, hp⟩ := hb
  obtain ⟨hPc, hPne, hPz⟩ := promote_cell_facts b.r.side mv.kind hk
  have ok' : b.get mv.src = mv.cell ∧ mv.cell = Cell.mk b.r.side .pawn ∧ (b.get mv.dst).color ≠ some b.r.side
      ∧ mv.src ≠ mv.dst := by
    rcases hk with h | h | h | h <;> simpa [MakeOk, h] using ok
  obtain ⟨hsrc, hcell, hdst, hne⟩ := ok'
  have hmk : makeBody b.r.side b mv (b.get mv.dst) =
      updateCastling ((((((((b.putCell mv.src Cell.empty).putCell mv.dst
        (Cell.mk b.r.side (mv.kind.promote.getD .queen))).xorHash
          (zPieces mv.cell mv.src ^^^ zPieces (Cell.mk b.r.side (mv.kind.promote.getD .queen)) mv.dst
            ^^^ zPieces (b.get mv.dst) mv.dst)).xorColor b.r.side (BB.single mv.src ||| BB.single mv.dst)).xorPiece
          (Cell.mk b.r.side .pawn) (BB.single mv.src)).xorPiece (Cell.mk b.r.side (mv.kind.promote.getD .queen))
          (BB.single mv.dst)).andNotColor b.r.side.inv (BB.single mv.dst)).andNotPiece (b.get mv.dst) (BB.single mv.dst))
        (BB.single mv.src ||| BB.single mv.dst) := by
    unfold makeBody
    rcases hk with h | h | h | h <;> simp [h]
  rw [hmk]
  generalize hP : Cell.mk b.r.side (mv.kind.promote.getD .queen) = P at *
  refine ⟨?_, ?_, ?_⟩
  · rw [updateCastling_hash]
    proj_simp
    generalize (updateCastling _ _).r.castling = K
    rw [headerHash_change b.r.side b.r.ep b.r.ep b.r.castling K, cellsHash_put, cellsHash_put, hh]
    simp only [cellKey_eq, Tab.get_put, hne, if_false]
    have e1 : b.r.cells.get mv.src = mv.cell := hsrc
    have e2 : b.r.cells.get mv.dst = b.get mv.dst := rfl
    have e3 : zPieces Cell.empty mv.src = 0#64 := zPieces_empty mv.src
    rw [e1, e2, e3]
    grind
  · intro c t
    proj_simp
    have hd := hc b.r.side mv.dst
    cases hs : b.r.side <;> cases c <;> simp only [hs] at hcell hdst hd hPc ⊢ <;>
      by_cases h1 : mv.dst = t <;> by_cases h2 : mv.src = t <;> simp_all [Color.inv]
  · intro x t
    proj_simp
    have hz : mv.cell ≠ 0 := by rw [hcell]; exact mk_ne_zero _ _
    by_cases h1 : mv.dst = t <;> by_cases h2 : mv.src = t <;> by_cases h3 : b.get mv.dst = x <;>
      by_cases h4 : mv.cell = x <;> by_cases h5 : P = x <;> simp_all [Cell.empty] <;> grind

end Owl.Lemmas
