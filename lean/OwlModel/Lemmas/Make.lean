/-
Backbone: `make_move_unchecked` keeps the derived state consistent (C05) — one lemma per move kind.
-/
import OwlModel.Lemmas.Backbone

namespace Owl.Lemmas
open Owl Owl.Impl

theorem clearEp_color (b : Board) (c : Color) : b.clearEp.color c = b.color c := by
  unfold Board.clearEp; split <;> simp
theorem clearEp_pieces (b : Board) : b.clearEp.pieces = b.pieces := by unfold Board.clearEp; split <;> simp
theorem clearEp_get (b : Board) (t : Sq) : b.clearEp.get t = b.get t := by unfold Board.clearEp; split <;> simp
theorem clearEp_cells (b : Board) : b.clearEp.r.cells = b.r.cells := by unfold Board.clearEp; split <;> simp
theorem clearEp_side (b : Board) : b.clearEp.r.side = b.r.side := by unfold Board.clearEp; split <;> simp
theorem clearEp_castling (b : Board) : b.clearEp.r.castling = b.r.castling := by unfold Board.clearEp; split <;> simp
theorem clearEp_ep (b : Board) : b.clearEp.r.ep = none := by
  unfold Board.clearEp; split <;> simp_all
theorem clearEp_mc (b : Board) : b.clearEp.r.mc = b.r.mc := by unfold Board.clearEp; split <;> simp
theorem clearEp_mn (b : Board) : b.clearEp.r.mn = b.r.mn := by unfold Board.clearEp; split <;> simp
theorem clearEp_hash (b : Board) :
    b.clearEp.hash = b.hash ^^^ (match b.r.ep with | some p => zEnpassant p | none => 0#64) := by
  unfold Board.clearEp; split <;> simp_all

end Owl.Lemmas

namespace Owl.Lemmas
open Owl Owl.Impl

theorem ite_uc_color (p : Prop) [Decidable p] (X : Board) (ch : BB) (c : Color) :
    (if p then updateCastling X ch else X).color c = X.color c := by split <;> simp [updateCastling_color]
theorem ite_uc_pieces (p : Prop) [Decidable p] (X : Board) (ch : BB) :
    (if p then updateCastling X ch else X).pieces = X.pieces := by split <;> simp [updateCastling_pieces]
theorem ite_uc_get (p : Prop) [Decidable p] (X : Board) (ch : BB) (t : Sq) :
    (if p then updateCastling X ch else X).get t = X.get t := by split <;> simp [updateCastling_get]
theorem ite_uc_hash (p : Prop) [Decidable p] (X : Board) (ch : BB) :
    (if p then updateCastling X ch else X).hash
      = X.hash ^^^ zCastling X.r.castling ^^^ zCastling (if p then updateCastling X ch else X).r.castling := by
  split
  · exact updateCastling_hash X ch
  · grind
theorem ite_uc_cells (p : Prop) [Decidable p] (X : Board) (ch : BB) :
    (if p then updateCastling X ch else X).r.cells = X.r.cells := by split <;> simp [updateCastling_cells]
theorem ite_uc_side (p : Prop) [Decidable p] (X : Board) (ch : BB) :
    (if p then updateCastling X ch else X).r.side = X.r.side := by split <;> simp [updateCastling_side]
theorem ite_uc_ep (p : Prop) [Decidable p] (X : Board) (ch : BB) :
    (if p then updateCastling X ch else X).r.ep = X.r.ep := by split <;> simp [updateCastling_ep]

def epKey : Option Sq → BB
  | some p => zEnpassant p
  | none => 0#64

theorem headerHash_change (side : Color) (ep ep' : Option Sq) (k k' : Rights) :
    headerHash side ep' k' = headerHash side ep k ^^^ epKey ep ^^^ epKey ep' ^^^ zCastling k ^^^ zCastling k' := by
  unfold headerHash epKey
  cases ep <;> cases ep' <;> simp <;> grind

theorem headerHash_flip (side : Color) (ep : Option Sq) (k : Rights) :
    headerHash side.inv ep k = headerHash side ep k ^^^ zMoveSide := by
  unfold headerHash
  cases side <;> simp [Color.inv] <;> grind

@[simp] theorem color_empty : Cell.empty.color = none := by decide
@[simp] theorem color_zero : Cell.color 0 = none := by decide
@[simp] theorem color_mk (c : Color) (p : Piece) : (Cell.mk c p).color = some c := by cases c <;> cases p <;> decide
theorem mk_ne_zero (c : Color) (p : Piece) : Cell.mk c p ≠ 0 := by cases c <;> cases p <;> decide
theorem mk_inj {c c' : Color} {p p' : Piece} (h : Cell.mk c p = Cell.mk c' p') : c = c' ∧ p = p' := by
  revert h; cases c <;> cases c' <;> cases p <;> cases p' <;> decide

theorem cell_color_ne_zero {x : Cell} {c : Color} (h : x.color = some c) : x ≠ 0 := by
  intro e; subst e; simp at h

/-- simp set: projections through the board-edit helpers -/
macro "proj_simp" : tactic => `(tactic| simp only [refreshAll_color, refreshAll_hash, refreshAll_pieces, refreshAll_get,
  refreshAll_r, refreshAll_all, xorHash_color, xorHash_hash, xorHash_pieces, xorHash_get, xorHash_r,
  setTurn_color, setTurn_hash, setTurn_pieces, setTurn_get, setTurn_cells, setTurn_side, setTurn_castling, setTurn_ep,
  ite_uc_color, ite_uc_get, ite_uc_pieces, ite_uc_hash, ite_uc_cells, ite_uc_side, ite_uc_ep,
  andNotPiece_color, andNotPiece_get, andNotPiece_pieces, andNotPiece_hash, andNotPiece_r,
  andNotColor_color, andNotColor_get, andNotColor_pieces, andNotColor_hash, andNotColor_r,
  orPiece_color, orPiece_get, orPiece_pieces, orPiece_hash, orPiece_r,
  orColor_color, orColor_get, orColor_pieces, orColor_hash, orColor_r,
  xorPiece_color, xorPiece_get, xorPiece_pieces, xorPiece_hash, xorPiece_r,
  xorColor_color, xorColor_get, xorColor_pieces, xorColor_hash, xorColor_r,
  putCell_color, putCell_get, putCell_pieces, putCell_hash, putCell_cells, putCell_castling, putCell_ep, putCell_side,
  setCastling_color, setCastling_get, setCastling_pieces, setCastling_hash, setCastling_cells, setCastling_castling,
  setCastling_ep, setCastling_side,
  setEp_color, setEp_get, setEp_pieces, setEp_hash, setEp_cells, setEp_castling, setEp_ep, setEp_side,
  clearEp_color, clearEp_get, clearEp_pieces, clearEp_hash, clearEp_cells, clearEp_castling, clearEp_ep, clearEp_side,
  updateCastling_color, updateCastling_pieces, updateCastling_get, updateCastling_cells, updateCastling_side,
  updateCastling_ep, Tab.get_put])

/-- what `make_move_unchecked` needs of its argument, per kind (implied by well-formed + semilegal on a
board with `Shape`, and trivially true for the null move) -/
def MakeOk (b : Board) (mv : Move) : Prop :=
  let c := b.r.side
  match mv.kind with
  | .null => True
  | .simple =>
    b.get mv.src = mv.cell ∧ mv.cell.color = some c ∧ (b.get mv.dst).color ≠ some c ∧ mv.src ≠ mv.dst
  | .promN | .promB | .promR | .promQ =>
    b.get mv.src = mv.cell ∧ mv.cell = Cell.mk c .pawn ∧ (b.get mv.dst).color ≠ some c ∧ mv.src ≠ mv.dst
  | .double =>
    b.get mv.src = Cell.mk c .pawn ∧ b.get mv.dst = Cell.empty ∧ mv.src ≠ mv.dst
  | .ep =>
    let taken := addU mv.dst (-(forwardDelta c))
    b.get mv.src = Cell.mk c .pawn ∧ b.get mv.dst = Cell.empty ∧ b.get taken = Cell.mk c.inv .pawn
      ∧ mv.src ≠ mv.dst ∧ taken ≠ mv.src ∧ taken ≠ mv.dst
  | .castleK =>
    let rank := castlingRank c
    b.get (Sq.mk fileE rank) = Cell.mk c .king ∧ b.get (Sq.mk fileF rank) = Cell.empty
      ∧ b.get (Sq.mk fileG rank) = Cell.empty ∧ b.get (Sq.mk fileH rank) = Cell.mk c .rook
  | .castleQ =>
    let rank := castlingRank c
    b.get (Sq.mk fileA rank) = Cell.mk c .rook ∧ b.get (Sq.mk fileC rank) = Cell.empty
      ∧ b.get (Sq.mk fileD rank) = Cell.empty ∧ b.get (Sq.mk fileE rank) = Cell.mk c .king

/-- everything in `Consistent` except the combined occupancy, which `do_make_move` refreshes at the end -/
def Core (b : Board) : Prop :=
  b.hash = headerHash b.r.side b.r.ep b.r.castling ^^^ cellsHash b.r.cells
  ∧ (∀ c t, (b.color c).has t = decide ((b.get t).color = some c))
  ∧ (∀ x t, (b.pieces.get x).has t = (decide (x.val ≠ 0) && decide (b.get t = x)))

theorem consistent_core (b : Board) : Consistent b ↔ Core b ∧ b.all = b.color .white ||| b.color .black := by
  rw [consistent_iff']; unfold Core
  constructor
  · intro ⟨a, b, c, d⟩; exact ⟨⟨a, b, d⟩, c⟩
  · intro ⟨⟨a, b, d⟩, c⟩; exact ⟨a, b, c, d⟩

theorem clearEp_hash' (b : Board) : b.clearEp.hash = b.hash ^^^ epKey b.r.ep := by
  rw [clearEp_hash]; cases b.r.ep <;> rfl

theorem clearEp_core (b : Board) (hb : Core b) : Core b.clearEp := by
  obtain ⟨hh, hc, hp⟩ := hb
  refine ⟨?_, ?_, ?_⟩
  · rw [clearEp_hash', clearEp_side, clearEp_ep, clearEp_castling, clearEp_cells,
      headerHash_change b.r.side b.r.ep none b.r.castling b.r.castling, hh]
    simp only [epKey]; grind
  · intro c t; rw [clearEp_color, clearEp_get]; exact hc c t
  · intro x t; rw [clearEp_pieces, clearEp_get]; exact hp x t

theorem tail_consistent (B : Board) (mc mn : Nat) (hB : Core B) :
    Consistent (((B.setTurn mc B.r.side.inv mn).xorHash zMoveSide).refreshAll) := by
  rw [consistent_iff']
  obtain ⟨hh, hc, hp⟩ := hB
  refine ⟨?_, ?_, ?_, ?_⟩
  · proj_simp
    rw [headerHash_flip, hh]; grind
  · intro c t; proj_simp; exact hc c t
  · simp
  · intro x t; proj_simp; exact hp x t

theorem body_simple_core (b : Board) (mv : Move) (hb : Core b) (hk : mv.kind = .simple)
    (ok : MakeOk b mv) : Core (makeBody b.r.side b mv (b.get mv.dst)) := by
  obtain ⟨hh, hc, hp⟩ := hb
  simp only [MakeOk, hk] at ok
  obtain ⟨hsrc, hcol, hdst, hne⟩ := ok
  unfold makeBody
  simp only [hk]
  refine ⟨?_, ?_, ?_⟩
  · proj_simp
    generalize (if mv.cell ≠ Cell.mk b.r.side Piece.pawn then _ else _ : Board).r.castling = K
    rw [headerHash_change b.r.side b.r.ep b.r.ep b.r.castling K, cellsHash_put, cellsHash_put, hh]
    simp only [cellKey_eq, Tab.get_put, hne, if_false]
    have e1 : b.r.cells.get mv.src = mv.cell := hsrc
    have e2 : b.r.cells.get mv.dst = b.get mv.dst := rfl
    have e3 : zPieces Cell.empty mv.src = 0#64 := zPieces_empty mv.src
    rw [e1, e2, e3]
    grind
  · intro c t
    proj_simp
    have hd := hc b.r.side mv.dst
    cases hs : b.r.side <;> cases c <;> simp only [hs] at hcol hdst hd ⊢ <;>
      by_cases h1 : mv.dst = t <;> by_cases h2 : mv.src = t <;> simp_all [Color.inv]
  · intro x t
    proj_simp
    have hz := cell_color_ne_zero hcol
    by_cases h1 : mv.dst = t <;> by_cases h2 : mv.src = t <;> by_cases h3 : b.get mv.dst = x <;>
      by_cases h4 : mv.cell = x <;> simp_all [Cell.empty] <;> grind

theorem promote_cell_facts (c : Color) (k : Kind) (hk : k = .promN ∨ k = .promB ∨ k = .promR ∨ k = .promQ) :
    (Cell.mk c (k.promote.getD .queen)).color = some c ∧ Cell.mk c (k.promote.getD .queen) ≠ Cell.mk c .pawn
      ∧ Cell.mk c (k.promote.getD .queen) ≠ 0 := by
  rcases hk with h | h | h | h <;> subst h <;> cases c <;> decide

theorem body_promote_core (b : Board) (mv : Move) (hb : Core b)
    (hk : mv.kind = .promN ∨ mv.kind = .promB ∨ mv.kind = .promR ∨ mv.kind = .promQ)
    (ok : MakeOk b mv) : Core (makeBody b.r.side b mv (b.get mv.dst)) := by
  obtain ⟨hh, hc, hp⟩ := hb
  obtain ⟨hPc, hPne, hPz⟩ := promote_cell_facts b.r.side mv.kind hk
  have ok' : b.get mv.src = mv.cell ∧ mv.cell = Cell.mk b.r.side .pawn ∧ (b.get mv.dst).color ≠ some b.r.side
      ∧ mv.src ≠ mv.dst := by
    rcases hk with h | h | h | h <;> simpa [MakeOk, h] using ok
  obtain ⟨hsrc, hcell, hdst, hne⟩ := ok'
  have hmk : makeBody b.r.side b mv (b.get mv.dst) =
      updateCastling ((((((((b.putCell mv.src Cell.empty).putCell mv.dst
        (Cell.mk b.r.side (mv.kind.promote.getD .queen))).xorHash
          (zPieces mv.cell mv.src ^^^ zPieces (Cell.mk b.r.side (mv.kind.promote.getD .queen)) mv.dst
            ^^^ zPieces (b.get mv.dst) mv.dst)).xorColor b.r.side (BB.single mv.src ||| BB.single mv.dst)).xorPiece
          (Cell.mk b.r.side .pawn) (BB.single mv.src)).xorPiece (Cell.mk b.r.side (mv.kind.promote.getD .queen))
          (BB.single mv.dst)).andNotColor b.r.side.inv (BB.single mv.dst)).andNotPiece (b.get mv.dst) (BB.single mv.dst))
        (BB.single mv.src ||| BB.single mv.dst) := by
    unfold makeBody
    rcases hk with h | h | h | h <;> simp [h]
  rw [hmk]
  generalize hP : Cell.mk b.r.side (mv.kind.promote.getD .queen) = P at *
  refine ⟨?_, ?_, ?_⟩
  · rw [updateCastling_hash]
    proj_simp
    generalize (updateCastling _ _).r.castling = K
    rw [headerHash_change b.r.side b.r.ep b.r.ep b.r.castling K, cellsHash_put, cellsHash_put, hh]
    simp only [cellKey_eq, Tab.get_put, hne, if_false]
    have e1 : b.r.cells.get mv.src = mv.cell := hsrc
    have e2 : b.r.cells.get mv.dst = b.get mv.dst := rfl
    have e3 : zPieces Cell.empty mv.src = 0#64 := zPieces_empty mv.src
    rw [e1, e2, e3]
    grind
  · intro c t
    proj_simp
    have hd := hc b.r.side mv.dst
    cases hs : b.r.side <;> cases c <;> simp only [hs] at hcell hdst hd hPc ⊢ <;>
      by_cases h1 : mv.dst = t <;> by_cases h2 : mv.src = t <;> simp_all [Color.inv]
  · intro x t
    proj_simp
    have hz : mv.cell ≠ 0 := by rw [hcell]; exact mk_ne_zero _ _
    by_cases h1 : mv.dst = t <;> by_cases h2 : mv.src = t <;> by_cases h3 : b.get mv.dst = x <;>
      by_cases h4 : mv.cell = x <;> by_cases h5 : P = x <;> simp_all [Cell.empty] <;> grind

theorem body_null_core (b : Board) (mv : Move) (hb : Core b) (hk : mv.kind = .null) :
    Core (makeBody b.r.side b mv (b.get mv.dst)) := by
  unfold makeBody; simp only [hk]; exact hb

theorem body_double_core (b : Board) (mv : Move) (hb : Core b) (hk : mv.kind = .double)
    (ok : MakeOk b mv) (hep : b.r.ep = none) : Core (makeBody b.r.side b mv (b.get mv.dst)) := by
  obtain ⟨hh, hc, hp⟩ := hb
  simp only [MakeOk, hk] at ok
  obtain ⟨hsrc, hdst, hne⟩ := ok
  unfold makeBody
  simp only [hk]
  unfold makePawnDouble
  simp only [Bool.false_eq_true, if_false, Bool.not_false, if_true]
  refine ⟨?_, ?_, ?_⟩
  · proj_simp
    rw [headerHash_change b.r.side b.r.ep (some mv.dst) b.r.castling b.r.castling, cellsHash_put, cellsHash_put, hh]
    simp only [cellKey_eq, Tab.get_put, hne, if_false, epKey]
    have e1 : b.r.cells.get mv.src = Cell.mk b.r.side .pawn := hsrc
    have e2 : b.r.cells.get mv.dst = Cell.empty := hdst
    have e3 : ∀ s, zPieces Cell.empty s = 0#64 := zPieces_empty
    rw [e1, e2, e3, e3, hep]
    grind
  · intro c t
    proj_simp
    have hd := hc b.r.side mv.dst
    cases hs : b.r.side <;> cases c <;> simp only [hs] at hsrc hd ⊢ <;>
      by_cases h1 : mv.dst = t <;> by_cases h2 : mv.src = t <;> simp_all [Color.inv]
  · intro x t
    proj_simp
    have hz : Cell.mk b.r.side .pawn ≠ 0 := mk_ne_zero _ _
    by_cases h1 : mv.dst = t <;> by_cases h2 : mv.src = t <;>
      by_cases h4 : Cell.mk b.r.side .pawn = x <;> simp_all [Cell.empty] <;> grind

theorem body_ep_core (b : Board) (mv : Move) (hb : Core b) (hk : mv.kind = .ep)
    (ok : MakeOk b mv) : Core (makeBody b.r.side b mv (b.get mv.dst)) := by
  obtain ⟨hh, hc, hp⟩ := hb
  simp only [MakeOk, hk] at ok
  obtain ⟨hsrc, hdst, htk, hne, hts, htd⟩ := ok
  unfold makeBody
  simp only [hk]
  unfold makeEnpassant
  simp only [Bool.false_eq_true, if_false]
  generalize addU mv.dst (-(forwardDelta b.r.side)) = tk at *
  refine ⟨?_, ?_, ?_⟩
  · proj_simp
    rw [cellsHash_put, cellsHash_put, cellsHash_put, hh]
    have hts' : ¬ mv.src = tk := fun e => hts e.symm
    have htd' : ¬ mv.dst = tk := fun e => htd e.symm
    simp only [cellKey_eq, Tab.get_put, hne, hts', htd', if_false]
    have e1 : b.r.cells.get mv.src = Cell.mk b.r.side .pawn := hsrc
    have e2 : b.r.cells.get mv.dst = Cell.empty := hdst
    have e4 : b.r.cells.get tk = Cell.mk b.r.side.inv .pawn := htk
    have e3 : ∀ s, zPieces Cell.empty s = 0#64 := zPieces_empty
    rw [e1, e2, e4, e3, e3, e3]
    grind
  · intro c t
    proj_simp
    cases hs : b.r.side <;> cases c <;> simp only [hs] at hsrc htk ⊢ <;>
      by_cases h1 : mv.dst = t <;> by_cases h2 : mv.src = t <;> by_cases h3 : tk = t <;> simp_all [Color.inv]
  · intro x t
    proj_simp
    have hz : Cell.mk b.r.side .pawn ≠ 0 := mk_ne_zero _ _
    have hz' : Cell.mk b.r.side.inv .pawn ≠ 0 := mk_ne_zero _ _
    have hne' : Cell.mk b.r.side .pawn ≠ Cell.mk b.r.side.inv .pawn := by
      intro e; exact Color.inv_ne _ (mk_inj e).1.symm
    by_cases h1 : mv.dst = t <;> by_cases h2 : mv.src = t <;> by_cases h3 : tk = t <;>
      by_cases h4 : Cell.mk b.r.side .pawn = x <;> by_cases h5 : Cell.mk b.r.side.inv .pawn = x <;>
      simp_all [Cell.empty] <;> grind

theorem ks_masks (c : Color) (t : Sq) :
    (BB.ofNat (Gen.ksColorMask <<< genericOffset c)).has t
        = (decide (Sq.mk fileE (castlingRank c) = t) || decide (Sq.mk fileF (castlingRank c) = t)
           || decide (Sq.mk fileG (castlingRank c) = t) || decide (Sq.mk fileH (castlingRank c) = t))
    ∧ (BB.ofNat (Gen.ksRookMask <<< genericOffset c)).has t
        = (decide (Sq.mk fileF (castlingRank c) = t) || decide (Sq.mk fileH (castlingRank c) = t))
    ∧ (BB.ofNat (Gen.ksKingMask <<< genericOffset c)).has t
        = (decide (Sq.mk fileE (castlingRank c) = t) || decide (Sq.mk fileG (castlingRank c) = t)) := by
  cases c <;> revert t <;> decide +kernel

theorem qs_masks (c : Color) (t : Sq) :
    (BB.ofNat (Gen.qsColorMask <<< genericOffset c)).has t
        = (decide (Sq.mk fileA (castlingRank c) = t) || decide (Sq.mk fileC (castlingRank c) = t)
           || decide (Sq.mk fileD (castlingRank c) = t) || decide (Sq.mk fileE (castlingRank c) = t))
    ∧ (BB.ofNat (Gen.qsRookMask <<< genericOffset c)).has t
        = (decide (Sq.mk fileA (castlingRank c) = t) || decide (Sq.mk fileD (castlingRank c) = t))
    ∧ (BB.ofNat (Gen.qsKingMask <<< genericOffset c)).has t
        = (decide (Sq.mk fileC (castlingRank c) = t) || decide (Sq.mk fileE (castlingRank c) = t)) := by
  cases c <;> revert t <;> decide +kernel

theorem castle_delta (c : Color) :
    zCastlingDelta c .king = zPieces (Cell.mk c .king) (Sq.mk fileE (castlingRank c))
        ^^^ zPieces (Cell.mk c .king) (Sq.mk fileG (castlingRank c))
        ^^^ zPieces (Cell.mk c .rook) (Sq.mk fileH (castlingRank c))
        ^^^ zPieces (Cell.mk c .rook) (Sq.mk fileF (castlingRank c))
    ∧ zCastlingDelta c .queen = zPieces (Cell.mk c .king) (Sq.mk fileE (castlingRank c))
        ^^^ zPieces (Cell.mk c .king) (Sq.mk fileC (castlingRank c))
        ^^^ zPieces (Cell.mk c .rook) (Sq.mk fileA (castlingRank c))
        ^^^ zPieces (Cell.mk c .rook) (Sq.mk fileD (castlingRank c)) := by
  cases c <;> decide +kernel

theorem castle_sq_ne (c : Color) :
    Sq.mk fileE (castlingRank c) ≠ Sq.mk fileF (castlingRank c) ∧ Sq.mk fileE (castlingRank c) ≠ Sq.mk fileG (castlingRank c)
    ∧ Sq.mk fileE (castlingRank c) ≠ Sq.mk fileH (castlingRank c) ∧ Sq.mk fileF (castlingRank c) ≠ Sq.mk fileG (castlingRank c)
    ∧ Sq.mk fileF (castlingRank c) ≠ Sq.mk fileH (castlingRank c) ∧ Sq.mk fileG (castlingRank c) ≠ Sq.mk fileH (castlingRank c)
    ∧ Sq.mk fileA (castlingRank c) ≠ Sq.mk fileC (castlingRank c) ∧ Sq.mk fileA (castlingRank c) ≠ Sq.mk fileD (castlingRank c)
    ∧ Sq.mk fileA (castlingRank c) ≠ Sq.mk fileE (castlingRank c) ∧ Sq.mk fileC (castlingRank c) ≠ Sq.mk fileD (castlingRank c)
    ∧ Sq.mk fileC (castlingRank c) ≠ Sq.mk fileE (castlingRank c) ∧ Sq.mk fileD (castlingRank c) ≠ Sq.mk fileE (castlingRank c) := by
  cases c <;> decide

theorem body_castleK_core (b : Board) (mv : Move) (hb : Core b) (hk : mv.kind = .castleK)
    (ok : MakeOk b mv) : Core (makeBody b.r.side b mv (b.get mv.dst)) := by
  obtain ⟨hh, hc, hp⟩ := hb
  simp only [MakeOk, hk] at ok
  obtain ⟨hE, hF, hG, hH⟩ := ok
  unfold makeBody
  simp only [hk]
  unfold makeCastlingK
  simp only [Bool.false_eq_true, if_false, Bool.not_false, if_true]
  obtain ⟨nEF, nEG, nEH, nFG, nFH, nGH, -⟩ := castle_sq_ne b.r.side
  generalize hEs : Sq.mk fileE (castlingRank b.r.side) = E at *
  generalize hFs : Sq.mk fileF (castlingRank b.r.side) = F at *
  generalize hGs : Sq.mk fileG (castlingRank b.r.side) = G at *
  generalize hHs : Sq.mk fileH (castlingRank b.r.side) = H at *
  have hm := fun t => ks_masks b.r.side t
  rw [hEs, hFs, hGs, hHs] at hm
  refine ⟨?_, ?_, ?_⟩
  · proj_simp
    generalize rWithoutColor b.r.castling b.r.side = K
    rw [headerHash_change b.r.side b.r.ep b.r.ep b.r.castling K, cellsHash_put, cellsHash_put, cellsHash_put,
      cellsHash_put, hh, (castle_delta b.r.side).1, hEs, hFs, hGs, hHs]
    have nFE : ¬ F = E := fun e => nEF e.symm
    have nGE : ¬ G = E := fun e => nEG e.symm
    have nHE : ¬ H = E := fun e => nEH e.symm
    have nGF : ¬ G = F := fun e => nFG e.symm
    have nHF : ¬ H = F := fun e => nFH e.symm
    have nHG : ¬ H = G := fun e => nGH e.symm
    simp only [cellKey_eq, Tab.get_put, nEF, nEG, nEH, nFG, nFH, nGH, nFE, nGE, nHE, nGF, nHF, nHG, if_false]
    have e1 : b.r.cells.get E = Cell.mk b.r.side .king := hE
    have e2 : b.r.cells.get F = Cell.empty := hF
    have e3 : b.r.cells.get G = Cell.empty := hG
    have e4 : b.r.cells.get H = Cell.mk b.r.side .rook := hH
    have e0 : ∀ s, zPieces Cell.empty s = 0#64 := zPieces_empty
    rw [e1, e2, e3, e4]
    simp only [e0]
    grind
  · intro c t
    proj_simp
    have hm1 := (hm t).1
    cases hs : b.r.side <;> cases c <;> simp only [hs] at hE hH ⊢ <;>
      by_cases h1 : E = t <;> by_cases h2 : F = t <;> by_cases h3 : G = t <;> by_cases h4 : H = t <;>
      simp_all [Color.inv]
  · intro x t
    proj_simp
    have hm2 := (hm t).2.1
    have hm3 := (hm t).2.2
    have hz : Cell.mk b.r.side .king ≠ 0 := mk_ne_zero _ _
    have hz' : Cell.mk b.r.side .rook ≠ 0 := mk_ne_zero _ _
    have hne' : Cell.mk b.r.side .rook ≠ Cell.mk b.r.side .king := by
      intro e; exact absurd (mk_inj e).2 (by decide)
    by_cases h1 : E = t <;> by_cases h2 : F = t <;> by_cases h3 : G = t <;> by_cases h4 : H = t <;>
      by_cases h5 : Cell.mk b.r.side .king = x <;> by_cases h6 : Cell.mk b.r.side .rook = x <;>
      simp_all [Cell.empty] <;> grind

theorem body_castleQ_core (b : Board) (mv : Move) (hb : Core b) (hk : mv.kind = .castleQ)
    (ok : MakeOk b mv) : Core (makeBody b.r.side b mv (b.get mv.dst)) := by
  obtain ⟨hh, hc, hp⟩ := hb
  simp only [MakeOk, hk] at ok
  obtain ⟨hA, hC, hD, hE⟩ := ok
  unfold makeBody
  simp only [hk]
  unfold makeCastlingQ
  simp only [Bool.false_eq_true, if_false, Bool.not_false, if_true]
  obtain ⟨-, -, -, -, -, -, nAC, nAD, nAE, nCD, nCE, nDE⟩ := castle_sq_ne b.r.side
  generalize hAs : Sq.mk fileA (castlingRank b.r.side) = A at *
  generalize hCs : Sq.mk fileC (castlingRank b.r.side) = C at *
  generalize hDs : Sq.mk fileD (castlingRank b.r.side) = D at *
  generalize hEs : Sq.mk fileE (castlingRank b.r.side) = E at *
  have hm := fun t => qs_masks b.r.side t
  rw [hAs, hCs, hDs, hEs] at hm
  refine ⟨?_, ?_, ?_⟩
  · proj_simp
    generalize rWithoutColor b.r.castling b.r.side = K
    rw [headerHash_change b.r.side b.r.ep b.r.ep b.r.castling K, cellsHash_put, cellsHash_put, cellsHash_put,
      cellsHash_put, hh, (castle_delta b.r.side).2, hAs, hCs, hDs, hEs]
    have nCA : ¬ C = A := fun e => nAC e.symm
    have nDA : ¬ D = A := fun e => nAD e.symm
    have nEA : ¬ E = A := fun e => nAE e.symm
    have nDC : ¬ D = C := fun e => nCD e.symm
    have nEC : ¬ E = C := fun e => nCE e.symm
    have nED : ¬ E = D := fun e => nDE e.symm
    simp only [cellKey_eq, Tab.get_put, nAC, nAD, nAE, nCD, nCE, nDE, nCA, nDA, nEA, nDC, nEC, nED, if_false]
    have e1 : b.r.cells.get A = Cell.mk b.r.side .rook := hA
    have e2 : b.r.cells.get C = Cell.empty := hC
    have e3 : b.r.cells.get D = Cell.empty := hD
    have e4 : b.r.cells.get E = Cell.mk b.r.side .king := hE
    have e0 : ∀ s, zPieces Cell.empty s = 0#64 := zPieces_empty
    rw [e1, e2, e3, e4]
    simp only [e0]
    grind
  · intro c t
    proj_simp
    have hm1 := (hm t).1
    cases hs : b.r.side <;> cases c <;> simp only [hs] at hA hE ⊢ <;>
      by_cases h1 : A = t <;> by_cases h2 : C = t <;> by_cases h3 : D = t <;> by_cases h4 : E = t <;>
      simp_all [Color.inv]
  · intro x t
    proj_simp
    have hm2 := (hm t).2.1
    have hm3 := (hm t).2.2
    have hz : Cell.mk b.r.side .king ≠ 0 := mk_ne_zero _ _
    have hz' : Cell.mk b.r.side .rook ≠ 0 := mk_ne_zero _ _
    have hne' : Cell.mk b.r.side .rook ≠ Cell.mk b.r.side .king := by
      intro e; exact absurd (mk_inj e).2 (by decide)
    by_cases h1 : A = t <;> by_cases h2 : C = t <;> by_cases h3 : D = t <;> by_cases h4 : E = t <;>
      by_cases h5 : Cell.mk b.r.side .king = x <;> by_cases h6 : Cell.mk b.r.side .rook = x <;>
      simp_all [Cell.empty] <;> grind

end Owl.Lemmas

namespace Owl.Lemmas
open Owl Owl.Impl

/-- the body of `do_make_move` does not touch side to move or the counters -/
theorem makeBody_side (c : Color) (b : Board) (mv : Move) (d : Cell) :
    (makeBody c b mv d).r.side = b.r.side ∧ (makeBody c b mv d).r.mc = b.r.mc ∧ (makeBody c b mv d).r.mn = b.r.mn := by
  unfold makeBody
  cases mv.kind <;>
    simp [makeCastlingK, makeCastlingQ, makePawnDouble, makeEnpassant, updateCastling_side, updateCastling_mc,
      updateCastling_mn]
  split <;> simp [updateCastling_side, updateCastling_mc, updateCastling_mn]

theorem makeOk_clearEp (b : Board) (mv : Move) (ok : MakeOk b mv) : MakeOk b.clearEp mv := by
  unfold MakeOk at ok ⊢
  simp only [clearEp_side, clearEp_get]
  exact ok

theorem body_core (b : Board) (mv : Move) (hb : Core b) (ok : MakeOk b mv) (hep : b.r.ep = none) :
    Core (makeBody b.r.side b mv (b.get mv.dst)) := by
  cases hk : mv.kind
  · exact body_null_core b mv hb hk
  · exact body_simple_core b mv hb hk ok
  · exact body_castleK_core b mv hb hk ok
  · exact body_castleQ_core b mv hb hk ok
  · exact body_double_core b mv hb hk ok hep
  · exact body_ep_core b mv hb hk ok
  · exact body_promote_core b mv hb (Or.inl hk) ok
  · exact body_promote_core b mv hb (Or.inr (Or.inl hk)) ok
  · exact body_promote_core b mv hb (Or.inr (Or.inr (Or.inl hk))) ok
  · exact body_promote_core b mv hb (Or.inr (Or.inr (Or.inr hk))) ok

/-- C05 backbone: `make_move_unchecked` keeps hash and occupancy sets equal to the from-scratch values -/
theorem make_consistent (b : Board) (mv : Move) (hb : Consistent b) (ok : MakeOk b mv) :
    Consistent (makeMove b mv).1 := by
  have hcore := clearEp_core b ((consistent_core b).mp hb).1
  have hbody := body_core b.clearEp mv hcore (makeOk_clearEp b mv ok) (clearEp_ep b)
  rw [clearEp_side, clearEp_get] at hbody
  unfold makeMove
  simp only
  have hs := (makeBody_side b.r.side b.clearEp mv (b.get mv.dst)).1
  rw [clearEp_side] at hs
  have := tail_consistent (makeBody b.r.side b.clearEp mv (b.get mv.dst))
    (if b.get mv.dst ≠ Cell.empty || mv.cell = Cell.mk b.r.side .pawn then 0 else satInc b.r.mc)
    (if b.r.side = .black then satInc b.r.mn else b.r.mn) hbody
  rw [hs] at this
  exact this

end Owl.Lemmas
