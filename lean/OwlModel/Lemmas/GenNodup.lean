/-
C01/C06 "each exactly once": the generator's output has no duplicates (`genWith_nodup`).  The classes are emitted in a
fixed order (`tag`), each component list is duplicate-free by construction from duplicate-free bit-set enumerations.
-/
import OwlModel.Lemmas.GenExact

namespace Owl.Lemmas
open Owl Owl.Impl

theorem toList_nodup (X : BB) : X.toList.Nodup := List.Pairwise.filter _ sqall_nodup

theorem nodup_map_of_inj {α β : Type} (l : List α) (f : α → β) (hl : l.Nodup) (hf : ∀ a b, f a = f b → a = b) :
    (l.map f).Nodup := by
  unfold List.Nodup
  rw [List.pairwise_map]
  exact List.Pairwise.imp (fun {a b} hne e => hne (hf a b e)) hl

theorem nodup_flatMap_of {α β : Type} (l : List α) (f : α → List β) (hl : l.Nodup) (h1 : ∀ a ∈ l, (f a).Nodup)
    (h2 : ∀ a b, a ≠ b → ∀ x ∈ f a, ∀ y ∈ f b, x ≠ y) : (l.flatMap f).Nodup := by
  unfold List.Nodup
  rw [List.pairwise_flatMap]
  exact ⟨h1, List.Pairwise.imp (fun {a b} hne => h2 a b hne) hl⟩

theorem mkMove_inj {c : Color} {k k' : Kind} {p p' : Piece} {s s' d d' : Sq}
    (h : mkMove c k p s d = mkMove c k' p' s' d') : k = k' ∧ p = p' ∧ s = s' ∧ d = d' := by
  unfold mkMove at h
  injection h with h1 h2 h3 h4
  exact ⟨h1, (mk_inj h2).2, h3, h4⟩

theorem genKN_nodup (b : Board) (c : Color) (fs fc : Bool) (p : Piece) : (genKN b c fs fc p).Nodup := by
  unfold genKN
  apply nodup_flatMap_of _ _ (toList_nodup _)
  · intro s _
    exact nodup_map_of_inj _ _ (toList_nodup _) (fun a b e => (mkMove_inj e).2.2.2)
  · intro s s' hne x hx y hy e
    simp only [List.mem_map] at hx hy
    obtain ⟨d, _, rfl⟩ := hx
    obtain ⟨d', _, rfl⟩ := hy
    exact hne (mkMove_inj e).2.2.1

theorem genBRQOf_nodup (b : Board) (c : Color) (fs fc x y : Bool) (p : Piece) : (genBRQOf b c fs fc x y p).Nodup := by
  unfold genBRQOf
  apply nodup_flatMap_of _ _ (toList_nodup _)
  · intro s _
    exact nodup_map_of_inj _ _ (toList_nodup _) (fun a b e => (mkMove_inj e).2.2.2)
  · intro s s' hne x hx y hy e
    simp only [List.mem_map] at hx hy
    obtain ⟨d, _, rfl⟩ := hx
    obtain ⟨d', _, rfl⟩ := hy
    exact hne (mkMove_inj e).2.2.1

theorem addPawn_nodup (c : Color) (isPromote : Bool) (s d : Sq) : (addPawnWithPromote c isPromote s d).Nodup := by
  unfold addPawnWithPromote
  cases isPromote
  · simp
  · have hne : ∀ k k' : Kind, k ≠ k' → mkMove c k .pawn s d ≠ mkMove c k' .pawn s d :=
      fun k k' h e => h (mkMove_inj e).1
    simp [hne]

theorem addPawn_dst (c : Color) (isPromote : Bool) (s d : Sq) (mv : Move) (h : mv ∈ addPawnWithPromote c isPromote s d) :
    mv.src = s ∧ mv.dst = d := by
  rw [mem_addPawn] at h
  cases isPromote
  · simp only [Bool.false_eq_true, if_false] at h; subst h; exact ⟨rfl, rfl⟩
  · simp only [if_true] at h
    rcases h with rfl | rfl | rfl | rfl <;> exact ⟨rfl, rfl⟩

theorem genPawnSingle_nodup (b : Board) (c : Color) (isPromote : Bool) (pawns : BB) :
    (genPawnSingle b c isPromote pawns).Nodup := by
  unfold genPawnSingle
  apply nodup_flatMap_of _ _ (toList_nodup _)
  · intro d _; exact addPawn_nodup _ _ _ _
  · intro d d' hne x hx y hy e
    subst e
    exact hne ((addPawn_dst _ _ _ _ _ hx).2.symm.trans (addPawn_dst _ _ _ _ _ hy).2)

theorem genPawnDouble_nodup (b : Board) (c : Color) (pawns : BB) : (genPawnDouble b c pawns).Nodup := by
  unfold genPawnDouble
  exact nodup_map_of_inj _ _ (toList_nodup _) (fun a b e => (mkMove_inj e).2.2.2)

theorem lr_ne (c : Color) : ∀ d : Sq, addU d (-(leftDelta c)) ≠ addU d (-(rightDelta c)) := by
  cases c <;> decide

theorem genPawnCaptureOf_nodup (b : Board) (c : Color) (isPromote : Bool) (pawns : BB) :
    (genPawnCaptureOf b c isPromote pawns).Nodup := by
  unfold genPawnCaptureOf
  rw [List.nodup_append]
  refine ⟨?_, ?_, ?_⟩
  · apply nodup_flatMap_of _ _ (toList_nodup _)
    · intro d _; exact addPawn_nodup _ _ _ _
    · intro d d' hne x hx y hy e
      subst e
      exact hne ((addPawn_dst _ _ _ _ _ hx).2.symm.trans (addPawn_dst _ _ _ _ _ hy).2)
  · apply nodup_flatMap_of _ _ (toList_nodup _)
    · intro d _; exact addPawn_nodup _ _ _ _
    · intro d d' hne x hx y hy e
      subst e
      exact hne ((addPawn_dst _ _ _ _ _ hx).2.symm.trans (addPawn_dst _ _ _ _ _ hy).2)
  · intro x hx y hy e
    subst e
    simp only [List.mem_flatMap] at hx hy
    obtain ⟨d, _, hd⟩ := hx
    obtain ⟨d', _, hd'⟩ := hy
    obtain ⟨s1, d1⟩ := addPawn_dst _ _ _ _ _ hd
    obtain ⟨s2, d2⟩ := addPawn_dst _ _ _ _ _ hd'
    have : d = d' := d1.symm.trans d2
    subst this
    exact lr_ne c d (s1.symm.trans s2)

theorem ep_lr_ne : ∀ p : Sq, addU p (-1) ≠ addU p 1 := by decide

theorem genPawnEnpassant_nodup (b : Board) (c : Color) : (genPawnEnpassant b c).Nodup := by
  unfold genPawnEnpassant
  cases b.r.ep with
  | none => simp
  | some p =>
    simp only
    rw [List.nodup_append]
    refine ⟨by split <;> simp, by split <;> simp, ?_⟩
    intro x hx y hy e
    subst e
    split at hx <;> split at hy <;> simp at hx hy
    subst hx
    exact ep_lr_ne p (mkMove_inj hy).2.2.1

theorem genCastling_nodup (b : Board) (c : Color) : (genCastling b c).Nodup := by
  unfold genCastling
  split
  · simp
  · rw [List.nodup_append]
    refine ⟨by repeat' split <;> simp, by repeat' split <;> simp, ?_⟩
    intro x hx y hy e
    subst e
    have h1 : x.kind = .castleK := by
      repeat' split at hx
      all_goals simp at hx
      rw [hx.2]; rfl
    have h2 : x.kind = .castleQ := by
      repeat' split at hy
      all_goals simp at hy
      rw [hy.2]; rfl
    rw [h1] at h2; cases h2

/-- position of a move's class in the generator's output order -/
def tag (mv : Move) : Nat :=
  match mv.kind with
  | .simple =>
    (match mv.cell.piece with
     | some .pawn => if mv.src.file = mv.dst.file then 0 else 3
     | some .knight => 6 | some .king => 7 | some .bishop => 8 | some .rook => 9 | some .queen => 10
     | none => 13)
  | .double => 1
  | .promN | .promB | .promR | .promQ => if mv.src.file = mv.dst.file then 2 else 4
  | .ep => 5
  | .castleK | .castleQ => 11
  | .null => 12

theorem nodup_append_tag (l1 l2 : List Move) (n : Nat) (h1 : l1.Nodup) (h2 : l2.Nodup)
    (ht1 : ∀ a ∈ l1, tag a < n) (ht2 : ∀ b ∈ l2, n ≤ tag b) : (l1 ++ l2).Nodup := by
  rw [List.nodup_append]
  refine ⟨h1, h2, ?_⟩
  intro a ha b hb e
  subst e
  have := ht1 a ha; have := ht2 a hb; omega

theorem nodup_ite (c : Bool) (l : List Move) (h : l.Nodup) : (if c = true then l else []).Nodup := by
  cases c <;> simp [h]

theorem tag_ite (c : Bool) (l : List Move) (P : Move → Prop) (h : ∀ a ∈ l, P a) : ∀ a ∈ (if c = true then l else []), P a := by
  cases c <;> simp <;> exact h

theorem tag_promo (mv : Move) (h : mv.kind.promote.isSome = true) : tag mv = if mv.src.file = mv.dst.file then 2 else 4 := by
  rcases (isPromo_iff _).mp h with e | e | e | e <;> simp [tag, e]

def ND (l : List Move) (lo hi : Nat) : Prop := l.Nodup ∧ ∀ a ∈ l, lo ≤ tag a ∧ tag a < hi

theorem ND.append {l1 l2 : List Move} {lo m hi : Nat} (h1 : ND l1 lo m) (h2 : ND l2 m hi) (hle : lo ≤ m) (hle2 : m ≤ hi) :
    ND (l1 ++ l2) lo hi := by
  refine ⟨nodup_append_tag l1 l2 m h1.1 h2.1 (fun a ha => (h1.2 a ha).2) (fun a ha => (h2.2 a ha).1), ?_⟩
  intro a ha
  rcases List.mem_append.mp ha with h | h
  · have := h1.2 a h; omega
  · have := h2.2 a h; omega

theorem ND.ite {l : List Move} {lo hi : Nat} (c : Bool) (h : ND l lo hi) : ND (if c = true then l else []) lo hi := by
  cases c
  · exact ⟨by simp, by simp⟩
  · simpa using h

theorem ND.of_tag {l : List Move} (n : Nat) (h1 : l.Nodup) (h2 : ∀ a ∈ l, tag a = n) : ND l n (n + 1) :=
  ⟨h1, fun a ha => by rw [h2 a ha]; omega⟩

/-- each exactly once: the generator's output has no duplicates -/
theorem genWith_nodup (b : Board) (hv : Valid b) (fs fc fp fz : Bool) : (genWith b b.r.side fs fc fp fz).Nodup := by
  have hb := hv.shape.cons
  -- tags of the components
  have t0 : ∀ a ∈ genPawnSingle b b.r.side false (b.piece2 b.r.side .pawn &&& ~~~ rankBB (promoteSrcRank b.r.side)), tag a = 0 := by
    intro a ha; obtain ⟨_, hk, hc, hf⟩ := (mem_push_iff b hv a).mp ha; simp [tag, hk, hc, piece_mk, hf]
  have t1 : ∀ a ∈ genPawnDouble b b.r.side (b.piece2 b.r.side .pawn &&& rankBB (doubleSrcRank b.r.side)), tag a = 1 := by
    intro a ha; obtain ⟨_, hk⟩ := (mem_double_iff b hv a).mp ha; simp [tag, hk]
  have t2 : ∀ a ∈ genPawnSingle b b.r.side true (b.piece2 b.r.side .pawn &&& rankBB (promoteSrcRank b.r.side)), tag a = 2 := by
    intro a ha; obtain ⟨_, hk, hf⟩ := (mem_promo_push_iff b hv a).mp ha; rw [tag_promo a hk]; simp [hf]
  have t3 : ∀ a ∈ genPawnCaptureOf b b.r.side false (b.piece2 b.r.side .pawn &&& ~~~ rankBB (promoteSrcRank b.r.side)), tag a = 3 := by
    intro a ha; obtain ⟨_, hk, hc, hf⟩ := (mem_cap_iff b hv a).mp ha; simp [tag, hk, hc, piece_mk, hf]
  have t4 : ∀ a ∈ genPawnCaptureOf b b.r.side true (b.piece2 b.r.side .pawn &&& rankBB (promoteSrcRank b.r.side)), tag a = 4 := by
    intro a ha; obtain ⟨_, hk, hf⟩ := (mem_promo_cap_iff b hv a).mp ha; rw [tag_promo a hk]; simp [hf]
  have t5 : ∀ a ∈ genPawnEnpassant b b.r.side, tag a = 5 := by
    intro a ha; obtain ⟨_, hk⟩ := (mem_ep_iff b hv a).mp ha; simp [tag, hk]
  have t6 : ∀ a ∈ genKN b b.r.side fs fc .knight, tag a = 6 := by
    intro a ha; obtain ⟨s, d, _, _, _, rfl⟩ := (mem_genKN b _ fs fc .knight (Or.inl rfl) a).mp ha
    simp [tag, mkMove, piece_mk]
  have t7 : ∀ a ∈ genKN b b.r.side fs fc .king, tag a = 7 := by
    intro a ha; obtain ⟨s, d, _, _, _, rfl⟩ := (mem_genKN b _ fs fc .king (Or.inr rfl) a).mp ha
    simp [tag, mkMove, piece_mk]
  have t8 : ∀ a ∈ genBRQOf b b.r.side fs fc true false .bishop, tag a = 8 := by
    intro a ha; obtain ⟨s, d, _, _, _, rfl⟩ := (mem_genBRQOf b _ fs fc a).1.mp ha
    simp [tag, mkMove, piece_mk]
  have t9 : ∀ a ∈ genBRQOf b b.r.side fs fc false true .rook, tag a = 9 := by
    intro a ha; obtain ⟨s, d, _, _, _, rfl⟩ := (mem_genBRQOf b _ fs fc a).2.1.mp ha
    simp [tag, mkMove, piece_mk]
  have t10 : ∀ a ∈ genBRQOf b b.r.side fs fc true true .queen, tag a = 10 := by
    intro a ha; obtain ⟨s, d, _, _, _, rfl⟩ := (mem_genBRQOf b _ fs fc a).2.2.mp ha
    simp [tag, mkMove, piece_mk]
  have t11 : ∀ a ∈ genCastling b b.r.side, tag a = 11 := by
    intro a ha; obtain ⟨_, hk⟩ := (mem_castle_iff b hv a).mp ha
    rcases hk with hk | hk <;> simp [tag, hk]
  have n0 := ND.of_tag 0 (genPawnSingle_nodup b b.r.side false _) t0
  have n1 := ND.of_tag 1 (genPawnDouble_nodup b b.r.side _) t1
  have n2 := ND.of_tag 2 (genPawnSingle_nodup b b.r.side true _) t2
  have n3 := ND.of_tag 3 (genPawnCaptureOf_nodup b b.r.side false _) t3
  have n4 := ND.of_tag 4 (genPawnCaptureOf_nodup b b.r.side true _) t4
  have n5 := ND.of_tag 5 (genPawnEnpassant_nodup b b.r.side) t5
  have n6 := ND.of_tag 6 (genKN_nodup b b.r.side fs fc .knight) t6
  have n7 := ND.of_tag 7 (genKN_nodup b b.r.side fs fc .king) t7
  have n8 := ND.of_tag 8 (genBRQOf_nodup b b.r.side fs fc true false .bishop) t8
  have n9 := ND.of_tag 9 (genBRQOf_nodup b b.r.side fs fc false true .rook) t9
  have n10 := ND.of_tag 10 (genBRQOf_nodup b b.r.side fs fc true true .queen) t10
  have n11 := ND.of_tag 11 (genCastling_nodup b b.r.side) t11
  have hsimple : ND (genPawnSimple b b.r.side fs fp) 0 3 := by
    unfold genPawnSimple
    exact ND.append (ND.ite fs (ND.append n0 n1 (by omega) (by omega))) (ND.ite fp n2) (by omega) (by omega)
  have hcap : ND (genPawnCapture b b.r.side ++ genPawnEnpassant b b.r.side) 3 6 := by
    unfold genPawnCapture
    exact ND.append (ND.append n3 n4 (by omega) (by omega)) n5 (by omega) (by omega)
  have hbrq : ND (genBRQ b b.r.side fs fc) 8 11 := by
    unfold genBRQ
    exact ND.append (ND.append n8 n9 (by omega) (by omega)) n10 (by omega) (by omega)
  have hall : ND (genWith b b.r.side fs fc fp fz) 0 12 := by
    unfold genWith
    exact ND.append (ND.append (ND.append (ND.append (ND.append (ND.ite (fs || fp) hsimple) (ND.ite fc hcap)
      (by omega) (by omega)) n6 (by omega) (by omega)) n7 (by omega) (by omega)) hbrq (by omega) (by omega))
      (ND.ite fz n11) (by omega) (by omega)
  exact hall.1

end Owl.Lemmas
