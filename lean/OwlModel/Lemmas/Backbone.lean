/-
Backbone: `Consistent` (stored derived state = from-scratch recomputation), projections of the
board-edit helpers, and the characterisation used by the make / unmake proofs.
-/
import OwlModel.Lemmas.Consistent

namespace Owl.Lemmas
open Owl Owl.Impl

/-- the stored hash and occupancy sets equal those rebuilt from the raw board (C05) -/
def Consistent (b : Board) : Prop := b = buildBoard b.r

theorem zPieces_empty (s : Sq) : zPieces 0 s = 0#64 := by revert s; decide +kernel

theorem cellKey_eq (c : Cell) (s : Sq) : cellKey c s = zPieces c s := by
  unfold cellKey Cell.isOcc
  by_cases h : c = 0
  · subst h; simp [zPieces_empty]
  · have : c.val ≠ 0 := fun e => h (Fin.ext e)
    simp [this]

theorem color_white (b : Board) : b.color .white = b.white := by simp [Board.color]
theorem color_black (b : Board) : b.color .black = b.black := by simp [Board.color]

theorem consistent_iff (b : Board) :
    Consistent b ↔
      b.hash = headerHash b.r.side b.r.ep b.r.castling ^^^ cellsHash b.r.cells
      ∧ (∀ c t, (b.color c).has t = decide ((b.get t).color = some c))
      ∧ b.all = b.white ||| b.black
      ∧ (∀ x t, (b.pieces.get x).has t = (decide (x.val ≠ 0) && decide (b.get t = x))) := by
  unfold Consistent
  constructor
  · intro h
    rw [h]
    refine ⟨?_, ?_, ?_, ?_⟩
    · simp [buildBoard, zobrist_eq]
    · intro c t; cases c <;> simp [buildBoard, Board.color, Board.get, RawBoard.get, has_colorSet] <;> rfl
    · simp [buildBoard]
    · intro x t; simp [buildBoard, Board.get, RawBoard.get, has_pieceSet] <;> rfl
  · intro ⟨hh, hc, ha, hp⟩
    cases b with
    | mk r hash white black all pieces =>
      simp only [buildBoard, Board.mk.injEq, true_and]
      simp only [Board.color, Board.get, RawBoard.get] at hh hc ha hp
      refine ⟨?_, ?_, ?_, ?_, ?_⟩
      · rw [hh, zobrist_eq]
      · apply BB.ext_has; intro t; have := hc .white t; simp at this; rw [this, has_colorSet]; rfl
      · apply BB.ext_has; intro t; have := hc .black t; simp at this; rw [this, has_colorSet]; rfl
      · rw [ha]; congr 1
        · apply BB.ext_has; intro t; have := hc .white t; simp at this; rw [this, has_colorSet]; rfl
        · apply BB.ext_has; intro t; have := hc .black t; simp at this; rw [this, has_colorSet]; rfl
      · apply Tab.ext; intro x; apply BB.ext_has; intro t
        rw [hp x t, Tab.get_ofFn, has_pieceSet]; rfl

end Owl.Lemmas

namespace Owl.Lemmas
open Owl Owl.Impl

/-! ### projections of the board-edit helpers -/

section proj
variable (b : Board) (c c' : Color) (v h : BB) (x : Cell) (s t : Sq) (y : Cell)

@[simp] theorem setColor_color : (b.setColor c v).color c' = if c = c' then v else b.color c' := by
  cases c <;> cases c' <;> simp [Board.setColor, Board.color]
@[simp] theorem setColor_r : (b.setColor c v).r = b.r := by cases c <;> simp [Board.setColor]
@[simp] theorem setColor_hash : (b.setColor c v).hash = b.hash := by cases c <;> simp [Board.setColor]
@[simp] theorem setColor_pieces : (b.setColor c v).pieces = b.pieces := by cases c <;> simp [Board.setColor]
@[simp] theorem setColor_get : (b.setColor c v).get t = b.get t := by simp [Board.get]

@[simp] theorem xorColor_color : (b.xorColor c v).color c' = if c = c' then b.color c' ^^^ v else b.color c' := by
  unfold Board.xorColor; rw [setColor_color]; by_cases e : c = c' <;> simp [e]
@[simp] theorem xorColor_r : (b.xorColor c v).r = b.r := by simp [Board.xorColor]
@[simp] theorem xorColor_hash : (b.xorColor c v).hash = b.hash := by simp [Board.xorColor]
@[simp] theorem xorColor_pieces : (b.xorColor c v).pieces = b.pieces := by simp [Board.xorColor]
@[simp] theorem xorColor_get : (b.xorColor c v).get t = b.get t := by simp [Board.get]

@[simp] theorem andNotColor_color :
    (b.andNotColor c v).color c' = if c = c' then b.color c' &&& ~~~ v else b.color c' := by
  unfold Board.andNotColor; rw [setColor_color]; by_cases e : c = c' <;> simp [e]
@[simp] theorem andNotColor_r : (b.andNotColor c v).r = b.r := by simp [Board.andNotColor]
@[simp] theorem andNotColor_hash : (b.andNotColor c v).hash = b.hash := by simp [Board.andNotColor]
@[simp] theorem andNotColor_pieces : (b.andNotColor c v).pieces = b.pieces := by simp [Board.andNotColor]
@[simp] theorem andNotColor_get : (b.andNotColor c v).get t = b.get t := by simp [Board.get]

@[simp] theorem orColor_color : (b.orColor c v).color c' = if c = c' then b.color c' ||| v else b.color c' := by
  unfold Board.orColor; rw [setColor_color]; by_cases e : c = c' <;> simp [e]
@[simp] theorem orColor_r : (b.orColor c v).r = b.r := by simp [Board.orColor]
@[simp] theorem orColor_hash : (b.orColor c v).hash = b.hash := by simp [Board.orColor]
@[simp] theorem orColor_pieces : (b.orColor c v).pieces = b.pieces := by simp [Board.orColor]
@[simp] theorem orColor_get : (b.orColor c v).get t = b.get t := by simp [Board.get]

@[simp] theorem xorPiece_color : (b.xorPiece x v).color c' = b.color c' := by simp [Board.xorPiece, Board.color]
@[simp] theorem xorPiece_r : (b.xorPiece x v).r = b.r := rfl
@[simp] theorem xorPiece_hash : (b.xorPiece x v).hash = b.hash := rfl
@[simp] theorem xorPiece_pieces : (b.xorPiece x v).pieces = b.pieces.put x (b.pieces.get x ^^^ v) := rfl
@[simp] theorem xorPiece_get : (b.xorPiece x v).get t = b.get t := rfl

@[simp] theorem andNotPiece_color : (b.andNotPiece x v).color c' = b.color c' := by simp [Board.andNotPiece, Board.color]
@[simp] theorem andNotPiece_r : (b.andNotPiece x v).r = b.r := rfl
@[simp] theorem andNotPiece_hash : (b.andNotPiece x v).hash = b.hash := rfl
@[simp] theorem andNotPiece_pieces : (b.andNotPiece x v).pieces = b.pieces.put x (b.pieces.get x &&& ~~~ v) := rfl
@[simp] theorem andNotPiece_get : (b.andNotPiece x v).get t = b.get t := rfl

@[simp] theorem orPiece_color : (b.orPiece x v).color c' = b.color c' := by simp [Board.orPiece, Board.color]
@[simp] theorem orPiece_r : (b.orPiece x v).r = b.r := rfl
@[simp] theorem orPiece_hash : (b.orPiece x v).hash = b.hash := rfl
@[simp] theorem orPiece_pieces : (b.orPiece x v).pieces = b.pieces.put x (b.pieces.get x ||| v) := rfl
@[simp] theorem orPiece_get : (b.orPiece x v).get t = b.get t := rfl

@[simp] theorem putCell_color : (b.putCell s y).color c' = b.color c' := by simp [Board.putCell, Board.color]
@[simp] theorem putCell_hash : (b.putCell s y).hash = b.hash := rfl
@[simp] theorem putCell_pieces : (b.putCell s y).pieces = b.pieces := rfl
@[simp] theorem putCell_get : (b.putCell s y).get t = if s = t then y else b.get t := by
  simp [Board.putCell, Board.get, RawBoard.get, RawBoard.put]
@[simp] theorem putCell_cells : (b.putCell s y).r.cells = b.r.cells.put s y := rfl
@[simp] theorem putCell_side : (b.putCell s y).r.side = b.r.side := rfl
@[simp] theorem putCell_castling : (b.putCell s y).r.castling = b.r.castling := rfl
@[simp] theorem putCell_ep : (b.putCell s y).r.ep = b.r.ep := rfl
@[simp] theorem putCell_mc : (b.putCell s y).r.mc = b.r.mc := rfl
@[simp] theorem putCell_mn : (b.putCell s y).r.mn = b.r.mn := rfl

@[simp] theorem xorHash_color : (b.xorHash h).color c' = b.color c' := by simp [Board.xorHash, Board.color]
@[simp] theorem xorHash_r : (b.xorHash h).r = b.r := rfl
@[simp] theorem xorHash_hash : (b.xorHash h).hash = b.hash ^^^ h := rfl
@[simp] theorem xorHash_pieces : (b.xorHash h).pieces = b.pieces := rfl
@[simp] theorem xorHash_get : (b.xorHash h).get t = b.get t := rfl

variable (rt : Rights) (e : Option Sq)
@[simp] theorem setCastling_color : (b.setCastling rt).color c' = b.color c' := by simp [Board.setCastling, Board.color]
@[simp] theorem setCastling_hash : (b.setCastling rt).hash = b.hash := rfl
@[simp] theorem setCastling_pieces : (b.setCastling rt).pieces = b.pieces := rfl
@[simp] theorem setCastling_get : (b.setCastling rt).get t = b.get t := rfl
@[simp] theorem setCastling_cells : (b.setCastling rt).r.cells = b.r.cells := rfl
@[simp] theorem setCastling_side : (b.setCastling rt).r.side = b.r.side := rfl
@[simp] theorem setCastling_castling : (b.setCastling rt).r.castling = rt := rfl
@[simp] theorem setCastling_ep : (b.setCastling rt).r.ep = b.r.ep := rfl
@[simp] theorem setCastling_mc : (b.setCastling rt).r.mc = b.r.mc := rfl
@[simp] theorem setCastling_mn : (b.setCastling rt).r.mn = b.r.mn := rfl

@[simp] theorem setEp_color : (b.setEp e).color c' = b.color c' := by simp [Board.setEp, Board.color]
@[simp] theorem setEp_hash : (b.setEp e).hash = b.hash := rfl
@[simp] theorem setEp_pieces : (b.setEp e).pieces = b.pieces := rfl
@[simp] theorem setEp_get : (b.setEp e).get t = b.get t := rfl
@[simp] theorem setEp_cells : (b.setEp e).r.cells = b.r.cells := rfl
@[simp] theorem setEp_side : (b.setEp e).r.side = b.r.side := rfl
@[simp] theorem setEp_castling : (b.setEp e).r.castling = b.r.castling := rfl
@[simp] theorem setEp_ep : (b.setEp e).r.ep = e := rfl
@[simp] theorem setEp_mc : (b.setEp e).r.mc = b.r.mc := rfl
@[simp] theorem setEp_mn : (b.setEp e).r.mn = b.r.mn := rfl
end proj

/-! `update_castling` touches only the hash and the rights, and keeps `hash ^^^ key(rights)` -/

theorem updateCastling_color (b : Board) (ch : BB) (c : Color) : (updateCastling b ch).color c = b.color c := by
  unfold updateCastling; split
  · rfl
  · split <;> simp
theorem updateCastling_pieces (b : Board) (ch : BB) : (updateCastling b ch).pieces = b.pieces := by
  unfold updateCastling; split
  · rfl
  · split <;> simp
theorem updateCastling_get (b : Board) (ch : BB) (t : Sq) : (updateCastling b ch).get t = b.get t := by
  unfold updateCastling; split
  · rfl
  · split <;> simp
theorem updateCastling_cells (b : Board) (ch : BB) : (updateCastling b ch).r.cells = b.r.cells := by
  unfold updateCastling; split
  · rfl
  · split <;> simp
theorem updateCastling_side (b : Board) (ch : BB) : (updateCastling b ch).r.side = b.r.side := by
  unfold updateCastling; split
  · rfl
  · split <;> simp
theorem updateCastling_ep (b : Board) (ch : BB) : (updateCastling b ch).r.ep = b.r.ep := by
  unfold updateCastling; split
  · rfl
  · split <;> simp
theorem updateCastling_mc (b : Board) (ch : BB) : (updateCastling b ch).r.mc = b.r.mc := by
  unfold updateCastling; split
  · rfl
  · split <;> simp
theorem updateCastling_mn (b : Board) (ch : BB) : (updateCastling b ch).r.mn = b.r.mn := by
  unfold updateCastling; split
  · rfl
  · split <;> simp
theorem updateCastling_hash (b : Board) (ch : BB) :
    (updateCastling b ch).hash = b.hash ^^^ zCastling b.r.castling ^^^ zCastling (updateCastling b ch).r.castling := by
  unfold updateCastling
  split
  · grind
  · split
    · simp
    · grind

end Owl.Lemmas

namespace Owl.Lemmas
open Owl Owl.Impl
section proj2
variable (b : Board) (c' : Color) (t : Sq) (mc mn : Nat) (sd : Color) (h : BB) (rt : Rights) (e : Option Sq)
@[simp] theorem setTurn_color : (b.setTurn mc sd mn).color c' = b.color c' := by simp [Board.setTurn, Board.color]
@[simp] theorem setTurn_hash : (b.setTurn mc sd mn).hash = b.hash := rfl
@[simp] theorem setTurn_pieces : (b.setTurn mc sd mn).pieces = b.pieces := rfl
@[simp] theorem setTurn_get : (b.setTurn mc sd mn).get t = b.get t := rfl
@[simp] theorem setTurn_cells : (b.setTurn mc sd mn).r.cells = b.r.cells := rfl
@[simp] theorem setTurn_side : (b.setTurn mc sd mn).r.side = sd := rfl
@[simp] theorem setTurn_castling : (b.setTurn mc sd mn).r.castling = b.r.castling := rfl
@[simp] theorem setTurn_ep : (b.setTurn mc sd mn).r.ep = b.r.ep := rfl
@[simp] theorem setTurn_mc : (b.setTurn mc sd mn).r.mc = mc := rfl
@[simp] theorem setTurn_mn : (b.setTurn mc sd mn).r.mn = mn := rfl
@[simp] theorem refreshAll_color : b.refreshAll.color c' = b.color c' := by simp [Board.refreshAll, Board.color]
@[simp] theorem refreshAll_hash : b.refreshAll.hash = b.hash := rfl
@[simp] theorem refreshAll_pieces : b.refreshAll.pieces = b.pieces := rfl
@[simp] theorem refreshAll_get : b.refreshAll.get t = b.get t := rfl
@[simp] theorem refreshAll_r : b.refreshAll.r = b.r := rfl
@[simp] theorem refreshAll_all : b.refreshAll.all = b.color .white ||| b.color .black := by
  simp [Board.refreshAll, Board.color]
@[simp] theorem refreshAll_white : b.refreshAll.white = b.color .white := by simp [Board.refreshAll, Board.color]
@[simp] theorem refreshAll_black : b.refreshAll.black = b.color .black := by simp [Board.refreshAll, Board.color]
@[simp] theorem restore_color : (b.restore h rt e mc sd mn).color c' = b.color c' := by simp [Board.restore, Board.color]
@[simp] theorem restore_hash : (b.restore h rt e mc sd mn).hash = h := rfl
@[simp] theorem restore_pieces : (b.restore h rt e mc sd mn).pieces = b.pieces := rfl
@[simp] theorem restore_get : (b.restore h rt e mc sd mn).get t = b.get t := rfl
@[simp] theorem restore_cells : (b.restore h rt e mc sd mn).r.cells = b.r.cells := rfl
@[simp] theorem restore_side : (b.restore h rt e mc sd mn).r.side = sd := rfl
@[simp] theorem restore_castling : (b.restore h rt e mc sd mn).r.castling = rt := rfl
@[simp] theorem restore_ep : (b.restore h rt e mc sd mn).r.ep = e := rfl
@[simp] theorem restore_mc : (b.restore h rt e mc sd mn).r.mc = mc := rfl
@[simp] theorem restore_mn : (b.restore h rt e mc sd mn).r.mn = mn := rfl
end proj2

/-- variant of the characterisation with `white`/`black` folded into `color` -/
theorem consistent_iff' (b : Board) :
    Consistent b ↔
      b.hash = headerHash b.r.side b.r.ep b.r.castling ^^^ cellsHash b.r.cells
      ∧ (∀ c t, (b.color c).has t = decide ((b.get t).color = some c))
      ∧ b.all = b.color .white ||| b.color .black
      ∧ (∀ x t, (b.pieces.get x).has t = (decide (x.val ≠ 0) && decide (b.get t = x))) := by
  rw [consistent_iff, color_white, color_black]

end Owl.Lemmas
