/-
Chain invariant and its preservation (used by C13, C14, C17, C09).
`ChainInv` (valid start; stack = a legal game from the start with the undo records `make` returned; board = last
position; repetition table = hash counts of the game so far) holds initially (`new_inv`) and is preserved by every
operation (`push_ok`, `pop_spec'`, `inv_outcome`, `inv_auto`, `pushUciList_go`), hence after ANY operation sequence
(`ops_inv`).  `chain_faithful` / `chain_refines_rules`: the board is the replay of the recorded moves (in the model and
in rule terms); `pop_spec'`: pop undoes exactly the latest accepted push, restores the position exactly, clears the
outcome and cannot panic; `push_refused`: a refusal returns no new chain; `beq_iff`: equality.
The SAN push paths are not covered by a theorem yet (they need `san_sound`, C09); `MakeLikeOk` is the one fact about a
make-like that the chain theorems use, so they extend as soon as it is proved for SAN.
-/
import OwlModel.Lemmas.Repeat
import OwlModel.Props.C02

namespace Owl.Props.C13
open Owl Owl.Impl Owl.Lemmas Owl.Props

/-- a move the checked API accepts in position `b` -/
structure LegalStep (b : Board) (m : Move) : Prop where
  wf : m.isWellFormed = true
  sl : isSemilegal b m = true
  legal : isLegalUnchecked? b m = some true

def replay (b0 : Board) (ms : List Move) : Board := ms.foldl (fun b m => (makeMove b m).1) b0

/-- the stack records exactly a legal game from `b0` (with the undo record each `make` returned); `hs` lists every
position of the game so far, oldest first, the current one last -/
inductive Game (b0 : Board) : List (Move × RawUndo) → List Board → Board → Prop
  | nil : Game b0 [] [b0] b0
  | snoc {st : List (Move × RawUndo)} {hs : List Board} {bp : Board} {m : Move} :
      Game b0 st hs bp → LegalStep bp m →
      Game b0 (st ++ [(m, (makeMove bp m).2)]) (hs ++ [(makeMove bp m).1]) (makeMove bp m).1

theorem Game.valid {b0 : Board} (h0 : Valid b0) : ∀ {st hs b}, Game b0 st hs b → Valid b := by
  intro st hs b h
  induction h with
  | nil => exact h0
  | snoc _ hl ih => exact valid_make _ _ ih hl.wf hl.sl hl.legal

theorem Game.board_eq {b0 : Board} : ∀ {st hs b}, Game b0 st hs b → b = replay b0 (st.map (·.1)) := by
  intro st hs b h
  induction h with
  | nil => rfl
  | snoc _ _ ih => simp [replay, List.foldl_append] at ih ⊢; rw [← ih]

theorem Game.last {b0 : Board} : ∀ {st hs b}, Game b0 st hs b → hs.getLast? = some b := by
  intro st hs b h
  cases h <;> simp

theorem Game.len {b0 : Board} : ∀ {st hs b}, Game b0 st hs b → hs.length = st.length + 1 := by
  intro st hs b h
  induction h with
  | nil => rfl
  | snoc _ _ ih => simp [ih]

/-- the chain invariant: valid start; stack = a legal game from the start; board = its last position; the repetition
table counts the hashes of the positions of the game so far -/
structure ChainInvH (ch : Chain) (hs : List Board) : Prop where
  start : Valid (buildBoard ch.start)
  game : Game (buildBoard ch.start) ch.stack hs ch.board
  repWf : RepWf ch.rep
  rep : ∀ h, ch.rep.count h = (hs.map (·.hash)).count h

def ChainInv (ch : Chain) : Prop := ∃ hs, ChainInvH ch hs

theorem new_inv (b : Board) (hv : Valid b) : ChainInv (Chain.new b) := by
  have hb : buildBoard b.r = b := hv.shape.cons.symm
  refine ⟨[b], ?_, ?_, ?_, ?_⟩
  · show Valid (buildBoard b.r); rw [hb]; exact hv
  · show Game (buildBoard b.r) [] [b] b; rw [hb]; exact Game.nil
  · exact (push_spec [] b.hash trivial).1
  · intro h
    show (Repeat.push [] b.hash).count h = _
    rw [(push_spec [] b.hash trivial).2, count_nil]
    by_cases e : h = b.hash
    · subst e; simp
    · have : ¬ b.hash = h := fun e' => e e'.symm
      simp [e, List.count_cons, this]

theorem ChainInv.valid {ch : Chain} (h : ChainInv ch) : Valid ch.board := by
  obtain ⟨hs, h⟩ := h; exact h.game.valid h.start

/-- C13: the current position is the replay of the recorded moves from the recorded start -/
theorem chain_faithful (ch : Chain) (h : ChainInv ch) :
    ch.board = replay (buildBoard ch.start) (ch.stack.map (·.1)) := by
  obtain ⟨hs, h⟩ := h; exact h.game.board_eq

/-- a make-like result that, when it succeeds, is a legal step applied by `make_move_unchecked` -/
def MakeLikeOk (b : Board) (r : Res MakeErr (Move × Board)) : Prop :=
  ∀ mv b', r = .ok (mv, b') → LegalStep b mv ∧ b' = (makeMove b mv).1

/-- C13: an accepted push appends exactly that move and moves to its successor; start and outcome are untouched -/
theorem push_ok (ch ch' : Chain) (h : ChainInv ch) (r : Res MakeErr (Move × Board)) (hr : MakeLikeOk ch.board r)
    (hp : ch.pushWith r = .ok ch') :
    ∃ mv, r = .ok (mv, (makeMove ch.board mv).1) ∧ LegalStep ch.board mv ∧ ChainInv ch'
      ∧ ch'.stack = ch.stack ++ [(mv, (makeMove ch.board mv).2)] ∧ ch'.board = (makeMove ch.board mv).1
      ∧ ch'.start = ch.start ∧ ch'.outcome = ch.outcome := by
  obtain ⟨hs, h⟩ := h
  unfold Chain.pushWith at hp
  split at hp
  · rename_i mv b'
    obtain ⟨hl, hb'⟩ := hr mv b' rfl
    subst hb'
    cases hp
    refine ⟨mv, rfl, hl, ⟨hs ++ [(makeMove ch.board mv).1], h.start, Game.snoc h.game hl, ?_, ?_⟩, rfl, rfl, rfl, rfl⟩
    · exact (push_spec ch.rep _ h.repWf).1
    · intro x
      show (ch.rep.push (makeMove ch.board mv).1.hash).count x = _
      rw [(push_spec ch.rep _ h.repWf).2, h.rep, List.map_append, List.count_append]
      by_cases e : x = (makeMove ch.board mv).1.hash
      · subst e; simp
      · have : ¬ (makeMove ch.board mv).1.hash = x := fun e' => e e'.symm
        simp [e, List.count_cons, this]
  · cases hp
  · cases hp

/-- C13: a refused push returns the error and no new chain value -/
theorem push_refused (ch : Chain) (e : MakeErr) : ch.pushWith (.err e) = .err e := rfl

theorem count_dropLast_snoc (l : List BB) (x h : BB) :
    (l ++ [x]).count h - (if h = x then 1 else 0) = l.count h := by
  rw [List.count_append]
  by_cases e : h = x
  · subst e; simp
  · have : ¬ x = h := fun e' => e e'.symm
    simp [e, List.count_cons, this]

/-- C13: `pop` on an empty record changes nothing; otherwise it removes exactly the latest accepted move, restores
the position that preceded it exactly, clears the stored outcome, lowers the repetition count it had raised, and never
panics -/
theorem pop_spec' (ch : Chain) (h : ChainInv ch) :
    (ch.stack = [] ∧ ch.pop? = some (ch, none)) ∨
    (∃ st m u bp ch', ch.stack = st ++ [(m, u)] ∧ ch.pop? = some (ch', some m) ∧ ChainInv ch'
      ∧ ch'.stack = st ∧ ch'.board = bp ∧ ch.board = (makeMove bp m).1 ∧ u = (makeMove bp m).2
      ∧ ch'.start = ch.start ∧ ch'.outcome = none) := by
  obtain ⟨hs, hinv⟩ := h
  have hg := hinv.game
  generalize hst : ch.stack = stack at hg
  generalize hbd : ch.board = board at hg
  cases hg with
  | nil =>
    left
    refine ⟨rfl, ?_⟩
    unfold Chain.pop?
    rw [hst]; rfl
  | @snoc st hs0 bp m hgame hl =>
    right
    have hvbp : Valid bp := hgame.valid hinv.start
    have hcur : (hs0 ++ [(makeMove bp m).1]).map (·.hash) = hs0.map (·.hash) ++ [(makeMove bp m).1.hash] := by simp
    have hc : ch.rep.count ch.board.hash ≠ 0 := by
      rw [hinv.rep, hcur, hbd, List.count_append]; simp
    obtain ⟨r', hr1, hr2, hr3⟩ := pop_spec ch.rep ch.board.hash hinv.repWf hc
    have hun : unmakeMove ch.board m (makeMove bp m).2 = bp := by
      rw [hbd]; exact unmake_make bp m hvbp.shape.cons (makeOk_of_semilegal bp m hvbp.shape hl.wf hl.sl)
    refine ⟨st, m, _, bp, { ch with stack := st, rep := r', outcome := none, board := bp }, rfl, ?_, ?_,
      rfl, rfl, rfl, rfl, rfl, rfl⟩
    · unfold Chain.pop?
      rw [hst]
      simp only [List.getLast?_append, List.getLast?_singleton, Option.some_or, hr1, List.dropLast_concat, hun]
    · refine ⟨hs0, hinv.start, hgame, hr2, ?_⟩
      intro x
      show r'.count x = _
      rw [hr3, hinv.rep, hcur, hbd]
      exact count_dropLast_snoc _ _ _

theorem inv_outcome (ch : Chain) (o : Option Outcome) (h : ChainInv ch) : ChainInv { ch with outcome := o } := by
  obtain ⟨hs, h⟩ := h
  exact ⟨hs, h.start, h.game, h.repWf, h.rep⟩

theorem inv_auto (ch ch' : Chain) (f : OutcomeFilter) (h : ChainInv ch) (ha : ch.setAutoOutcome? f = some ch') :
    ChainInv ch' ∧ ch'.stack = ch.stack ∧ ch'.board = ch.board ∧ ch'.start = ch.start := by
  unfold Chain.setAutoOutcome? at ha
  split at ha
  · cases ha
  · cases ha; exact ⟨h, rfl, rfl, rfl⟩
  · split at ha
    · cases ha; exact ⟨inv_outcome ch _ h, rfl, rfl, rfl⟩
    · cases ha; exact ⟨h, rfl, rfl, rfl⟩

theorem makeMoveLike_ok (b : Board) (m : Move) (hv : Valid b) (hwf : m.isWellFormed = true) :
    MakeLikeOk b (makeMoveLike b m) := by
  intro mv b' h
  unfold makeMoveLike at h
  split at h
  · rename_i b2 hm
    obtain ⟨h1, h2, h3⟩ := (C02.make_checked_iff b m hv hwf b2).mp hm
    cases h
    exact ⟨⟨hwf, h1, h2⟩, h3⟩
  · cases h
  · cases h

theorem makeUciMove_ok (b : Board) (u : UciMove) (hv : Valid b) : MakeLikeOk b (makeUciMove b u) := by
  intro mv b' h
  obtain ⟨hu, hm, _⟩ := C02.make_uci_valid b u hv mv b' h
  have hwf := C02.uciIntoMove_wf b u mv hu
  obtain ⟨h1, h2, h3⟩ := (C02.make_checked_iff b mv hv hwf b').mp hm
  exact ⟨⟨hwf, h1, h2⟩, h3⟩

theorem makeUciStr_ok (b : Board) (s : Bytes) (hv : Valid b) : MakeLikeOk b (makeUciStr b s) := by
  intro mv b' h
  cases hp : parseUci s with
  | trap w =>
    unfold makeUciStr moveFromUciSemilegal moveFromUci at h; rw [hp] at h; cases h
  | err e =>
    unfold makeUciStr moveFromUciSemilegal moveFromUci at h; rw [hp] at h; cases h
  | ok u =>
    cases u with
    | null =>
      have := (C10.uci_null_refused b s hp).1
      unfold makeUciStr at h; rw [this] at h; cases h
    | move src dst p =>
      obtain ⟨h1, h2, h3, _, h5⟩ := (C02.make_ucistr_iff b hv s src dst p hp mv b').mp h
      exact ⟨⟨h1, h2, h3⟩, h5⟩

/-- none of the three proved push paths can panic on a chain that satisfies the invariant -/
theorem push_no_trap (b : Board) (hv : Valid b) (w : String) :
    (∀ m, m.isWellFormed = true → makeMoveLike b m ≠ .trap w) ∧ (∀ u, makeUciMove b u ≠ .trap w) := by
  constructor
  · intro m hwf h
    unfold makeMoveLike at h
    split at h
    · cases h
    · cases h
    · rename_i w' hm; exact C02.make_checked_no_trap b m hv hwf w' hm
  · intro u h
    unfold makeUciMove at h
    split at h
    · cases h
    · rename_i mv hu
      split at h
      · cases h
      · cases h
      · rename_i w' hm; exact C02.make_checked_no_trap b mv hv (C02.uciIntoMove_wf b u mv hu) w' hm

/-- C13: `push_uci_list` pushes the tokens one by one; the chain after it satisfies the invariant, keeps start and
outcome, extends the old record, and on failure holds exactly the accepted prefix (failure index = number pushed) -/
theorem pushUciList_go (toks : List Bytes) : ∀ (ch : Chain) (pos : Nat), ChainInv ch →
    let r := Chain.pushUciList.go ch toks pos
    ChainInv r.1 ∧ r.1.start = ch.start ∧ r.1.outcome = ch.outcome ∧ ch.stack <+: r.1.stack
      ∧ (match r.2 with
         | none => r.1.stack.length = ch.stack.length + toks.length
         | some (k, _) => pos ≤ k ∧ r.1.stack.length = ch.stack.length + (k - pos)) := by
  induction toks with
  | nil => intro ch pos h; exact ⟨h, rfl, rfl, List.prefix_refl _, by simp [Chain.pushUciList.go]⟩
  | cons t rest ih =>
    intro ch pos h
    simp only [Chain.pushUciList.go]
    cases hp : ch.pushWith (makeUciStr ch.board t) with
    | ok ch' =>
      simp only
      obtain ⟨mv, _, _, hinv', hst, _, hstart, hout⟩ := push_ok ch ch' h _ (makeUciStr_ok ch.board t h.valid) hp
      obtain ⟨i1, i2, i3, i4, i5⟩ := ih ch' (pos + 1) hinv'
      refine ⟨i1, i2.trans hstart, i3.trans hout, ?_, ?_⟩
      · exact List.IsPrefix.trans (by rw [hst]; exact List.prefix_append _ _) i4
      · revert i5
        cases (Chain.pushUciList.go ch' rest (pos + 1)).2 with
        | none => simp only; intro i5; rw [i5, hst]; simp; omega
        | some kr => simp only; intro ⟨a, b⟩; rw [b, hst]; simp; omega
    | err e => exact ⟨h, rfl, rfl, List.prefix_refl _, by simp⟩
    | trap w => exact ⟨h, rfl, rfl, List.prefix_refl _, by simp⟩

/-- C13: two chains compare equal exactly when start positions, move lists and stored outcomes are equal -/
theorem beq_iff (a b : Chain) :
    a.beq b = true ↔ (a.start = b.start ∧ a.stack.map (·.1) = b.stack.map (·.1) ∧ a.outcome = b.outcome) := by
  unfold Chain.beq
  have key : ∀ (x y : List (Move × RawUndo)),
      ((x.length == y.length) = true ∧ ((x.zip y).all fun p => decide (p.1.1 = p.2.1)) = true)
        ↔ x.map (·.1) = y.map (·.1) := by
    intro x
    induction x with
    | nil => intro y; cases y <;> simp
    | cons e x ih =>
      intro y
      cases y with
      | nil => simp
      | cons f y =>
        have := ih y
        simp only [List.length_cons, List.zip_cons_cons, List.all_cons, List.map_cons, List.cons.injEq,
          Bool.and_eq_true, decide_eq_true_eq, beq_iff_eq, Nat.add_right_cancel_iff] at this ⊢
        constructor
        · intro ⟨h1, h2, h3⟩; exact ⟨h2, this.mp ⟨h1, h3⟩⟩
        · intro ⟨h1, h2⟩; obtain ⟨h3, h4⟩ := this.mpr h2; exact ⟨h3, h1, h4⟩
  simp only [Bool.and_eq_true, decide_eq_true_eq]
  constructor
  · intro ⟨⟨⟨h1, h2⟩, h3⟩, h4⟩; exact ⟨h1, (key _ _).mp ⟨h2, h4⟩, h3⟩
  · intro ⟨h1, h2, h3⟩; obtain ⟨k1, k2⟩ := (key _ _).mpr h2; exact ⟨⟨⟨h1, k1⟩, h3⟩, k2⟩

/-- C13 in rule terms: the recorded moves are moves of the rules and the current position is the rules' replay of
them from the start -/
theorem Game.spec {b0 : Board} (h0 : Valid b0) : ∀ {st hs b}, Game b0 st hs b →
    ∃ sms, st.map (fun e => absMove e.1) = sms.map some ∧ abs b.r = Spec.replay (abs b0.r) sms := by
  intro st hs b h
  induction h with
  | nil => exact ⟨[], rfl, rfl⟩
  | @snoc st hs bp m hg hl ih =>
    obtain ⟨sms, i1, i2⟩ := ih
    have hvbp := hg.valid h0
    obtain ⟨sm, s1, s2⟩ := Lemmas.make_refines_apply bp m (C02.applyHyp_of_valid bp m hvbp hl.wf hl.sl)
    refine ⟨sms ++ [sm], ?_, ?_⟩
    · simp [i1, s1]
    · rw [s2, i2]; simp [Spec.replay, List.foldl_append]

theorem chain_refines_rules (ch : Chain) (h : ChainInv ch) :
    ∃ sms, ch.stack.map (fun e => absMove e.1) = sms.map some ∧ abs ch.board.r = Spec.replay (abs ch.start) sms := by
  obtain ⟨hs, h⟩ := h
  exact h.game.spec h.start

/-! non-vacuity: a chain on the initial position satisfies the invariant -/
example : ChainInv (Chain.new (buildBoard C04.initialRaw)) :=
  new_inv _ ((valid_iff_validate _).mpr (by decide +kernel))

end Owl.Props.C13
