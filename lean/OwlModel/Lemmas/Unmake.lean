/-
Backbone: `unmake_move_unchecked` after `make_move_unchecked` restores the board exactly (C04).
-/
import OwlModel.Lemmas.Make

namespace Owl.Lemmas
open Owl Owl.Impl

section
variable (b : Board) (c c' : Color) (x : Cell) (v : BB) (t : Sq)
@[simp] theorem restoreCaptured_color : (b.restoreCaptured c x v).color c'
    = if x.isOcc = true ∧ c = c' then b.color c' ||| v else b.color c' := by
  unfold Board.restoreCaptured
  by_cases h : x.isOcc <;> by_cases e : c = c' <;> simp [h, e]
@[simp] theorem restoreCaptured_pieces : (b.restoreCaptured c x v).pieces
    = if x.isOcc then b.pieces.put x (b.pieces.get x ||| v) else b.pieces := by
  unfold Board.restoreCaptured; split <;> simp
@[simp] theorem restoreCaptured_get : (b.restoreCaptured c x v).get t = b.get t := by
  unfold Board.restoreCaptured; split <;> simp
@[simp] theorem restoreCaptured_cells : (b.restoreCaptured c x v).r.cells = b.r.cells := by
  unfold Board.restoreCaptured; split <;> simp
end

/-- agreement of two boards on squares, colour sets and piece sets -/
def SameSets (X Y : Board) : Prop :=
  X.r.cells = Y.r.cells ∧ (∀ c, X.color c = Y.color c) ∧ X.pieces = Y.pieces

theorem SameSets.get {X Y : Board} (h : SameSets X Y) (t : Sq) : X.get t = Y.get t := by
  simp [Board.get, RawBoard.get, h.1]

macro "proj_simp3" : tactic => `(tactic| simp only [putCell_color, putCell_get, putCell_pieces, putCell_cells,
  xorColor_color, xorColor_get, xorColor_pieces, xorColor_r, orColor_color, orColor_get, orColor_pieces, orColor_r,
  xorPiece_color, xorPiece_get, xorPiece_pieces, xorPiece_r, orPiece_color, orPiece_get, orPiece_pieces, orPiece_r,
  andNotColor_color, andNotColor_get, andNotColor_pieces, andNotColor_r, andNotPiece_color, andNotPiece_get,
  andNotPiece_pieces, andNotPiece_r, xorHash_color, xorHash_get, xorHash_pieces, xorHash_r,
  ite_uc_color, ite_uc_get, ite_uc_pieces, ite_uc_cells, updateCastling_color, updateCastling_get,
  updateCastling_pieces, updateCastling_cells, setCastling_color, setCastling_get, setCastling_pieces,
  setCastling_cells, setEp_color, setEp_get, setEp_pieces, setEp_cells,
  restoreCaptured_color, restoreCaptured_pieces, restoreCaptured_get, restoreCaptured_cells, Tab.get_put])

theorem isOcc_iff (x : Cell) : x.isOcc = true ↔ x ≠ 0 := by
  unfold Cell.isOcc; constructor
  · intro h e; subst e; simp at h
  · intro h; have : x.val ≠ 0 := fun e => h (Fin.ext e); simpa using this

theorem color_cases (x : Cell) : x = 0 ∨ x.color = some .white ∨ x.color = some .black := by
  revert x; decide

theorem unbody_simple (B X : Board) (mv : Move) (hB : Core B) (hk : mv.kind = .simple) (ok : MakeOk B mv)
    (hX : SameSets X (makeBody B.r.side B mv (B.get mv.dst))) :
    SameSets (unmakeBody B.r.side X mv (X.get mv.dst) (B.get mv.dst)) B := by
  obtain ⟨hh, hc, hp⟩ := hB
  simp only [MakeOk, hk] at ok
  obtain ⟨hsrc, hcol, hdst, hne⟩ := ok
  have hXget := hX.get
  obtain ⟨hXc, hXcol, hXp⟩ := hX
  unfold makeBody at hXc hXcol hXp hXget
  simp only [hk] at hXc hXcol hXp hXget
  unfold unmakeBody
  simp only [hk]
  have hz := cell_color_ne_zero hcol
  refine ⟨?_, ?_, ?_⟩
  · proj_simp3
    simp only [hXc, hXget]
    proj_simp3
    clear hXc hXcol hXp hXget hh
    apply Tab.ext; intro t
    simp only [Tab.get_put]
    by_cases h1 : mv.dst = t <;> by_cases h2 : mv.src = t <;> simp_all [Board.get, RawBoard.get]
  · intro c
    proj_simp3
    simp only [hXcol]
    proj_simp3
    clear hXc hXcol hXp hXget hh
    apply BB.ext_has; intro t
    have hd := hc B.r.side.inv mv.dst
    have hd2 := hc B.r.side mv.dst
    have hs2 := hc B.r.side mv.src
    have hcc := color_cases (B.get mv.dst)
    simp only [isOcc_iff]
    cases hs : B.r.side <;> cases c <;> simp only [hs] at hcol hdst hd hd2 hs2 ⊢ <;>
      by_cases h1 : mv.dst = t <;> by_cases h2 : mv.src = t <;> by_cases h3 : B.get mv.dst = 0 <;>
      simp_all [Color.inv] <;> grind
  · proj_simp3
    simp only [hXp, hXget]
    proj_simp3
    clear hXc hXcol hXp hXget hh
    simp only [isOcc_iff]
    apply Tab.ext; intro x; apply BB.ext_has; intro t
    have hd := hp (B.get mv.dst) mv.dst
    have hs2 := hp mv.cell mv.src
    have hs3 := hp mv.cell mv.dst
    by_cases h3 : B.get mv.dst = 0 <;> by_cases h4 : mv.cell = x <;> by_cases h5 : B.get mv.dst = x <;>
      by_cases h1 : mv.dst = t <;> by_cases h2 : mv.src = t <;>
      simp_all [Tab.get_put] <;> grind

theorem unbody_null (B X : Board) (mv : Move) (hk : mv.kind = .null)
    (hX : SameSets X (makeBody B.r.side B mv (B.get mv.dst))) :
    SameSets (unmakeBody B.r.side X mv (X.get mv.dst) (B.get mv.dst)) B := by
  unfold makeBody at hX; simp only [hk] at hX
  unfold unmakeBody; simp only [hk]; exact hX

theorem unbody_promote (B X : Board) (mv : Move) (hB : Core B)
    (hk : mv.kind = .promN ∨ mv.kind = .promB ∨ mv.kind = .promR ∨ mv.kind = .promQ) (ok : MakeOk B mv)
    (hX : SameSets X (makeBody B.r.side B mv (B.get mv.dst))) :
    SameSets (unmakeBody B.r.side X mv (X.get mv.dst) (B.get mv.dst)) B := by
  obtain ⟨hh, hc, hp⟩ := hB
  obtain ⟨hPc, hPne, hPz⟩ := promote_cell_facts B.r.side mv.kind hk
  have ok' : B.get mv.src = mv.cell ∧ mv.cell = Cell.mk B.r.side .pawn ∧ (B.get mv.dst).color ≠ some B.r.side
      ∧ mv.src ≠ mv.dst := by
    rcases hk with h | h | h | h <;> simpa [MakeOk, h] using ok
  obtain ⟨hsrc, hcell, hdst, hne⟩ := ok'
  have hXget := hX.get
  obtain ⟨hXc, hXcol, hXp⟩ := hX
  have hmk : makeBody B.r.side B mv (B.get mv.dst) =
      updateCastling ((((((((B.putCell mv.src Cell.empty).putCell mv.dst
        (Cell.mk B.r.side (mv.kind.promote.getD .queen))).xorHash
          (zPieces mv.cell mv.src ^^^ zPieces (Cell.mk B.r.side (mv.kind.promote.getD .queen)) mv.dst
            ^^^ zPieces (B.get mv.dst) mv.dst)).xorColor B.r.side (BB.single mv.src ||| BB.single mv.dst)).xorPiece
          (Cell.mk B.r.side .pawn) (BB.single mv.src)).xorPiece (Cell.mk B.r.side (mv.kind.promote.getD .queen))
          (BB.single mv.dst)).andNotColor B.r.side.inv (BB.single mv.dst)).andNotPiece (B.get mv.dst) (BB.single mv.dst))
        (BB.single mv.src ||| BB.single mv.dst) := by
    unfold makeBody
    rcases hk with h | h | h | h <;> simp [h]
  have hum : unmakeBody B.r.side X mv (X.get mv.dst) (B.get mv.dst) =
      (((((X.putCell mv.src (Cell.mk B.r.side .pawn)).putCell mv.dst (B.get mv.dst)).xorColor B.r.side
        (BB.single mv.src ||| BB.single mv.dst)).xorPiece (Cell.mk B.r.side .pawn) (BB.single mv.src)).xorPiece
        (X.get mv.dst) (BB.single mv.dst)).restoreCaptured B.r.side.inv (B.get mv.dst) (BB.single mv.dst) := by
    unfold unmakeBody
    rcases hk with h | h | h | h <;> simp [h]
  rw [hmk] at hXc hXcol hXp hXget
  rw [hum]
  generalize hP : Cell.mk B.r.side (mv.kind.promote.getD .queen) = P at *
  have hpz : Cell.mk B.r.side .pawn ≠ 0 := mk_ne_zero _ _
  have hcc := color_cases (B.get mv.dst)
  refine ⟨?_, ?_, ?_⟩
  · proj_simp3
    simp only [hXc, hXget]
    proj_simp3
    clear hXc hXcol hXp hXget hh
    apply Tab.ext; intro t
    simp only [Tab.get_put]
    by_cases h1 : mv.dst = t <;> by_cases h2 : mv.src = t <;> simp_all [Board.get, RawBoard.get]
  · intro c
    proj_simp3
    simp only [hXcol]
    proj_simp3
    clear hXc hXcol hXp hXget hh
    apply BB.ext_has; intro t
    have hd := hc B.r.side.inv mv.dst
    have hd2 := hc B.r.side mv.dst
    have hs2 := hc B.r.side mv.src
    simp only [isOcc_iff]
    cases hs : B.r.side <;> cases c <;> simp only [hs] at hcell hdst hd hd2 hs2 hPc ⊢ <;>
      by_cases h1 : mv.dst = t <;> by_cases h2 : mv.src = t <;> by_cases h3 : B.get mv.dst = 0 <;>
      simp_all [Color.inv] <;> grind
  · proj_simp3
    simp only [hXp, hXget]
    proj_simp3
    clear hXc hXcol hXp hXget hh
    simp only [isOcc_iff]
    apply Tab.ext; intro x; apply BB.ext_has; intro t
    have hd := hp (B.get mv.dst) mv.dst
    have hs2 := hp (Cell.mk B.r.side .pawn) mv.src
    have hs3 := hp P mv.dst
    by_cases h3 : B.get mv.dst = 0 <;> by_cases h4 : Cell.mk B.r.side .pawn = x <;> by_cases h5 : B.get mv.dst = x <;>
      by_cases h6 : P = x <;> by_cases h1 : mv.dst = t <;> by_cases h2 : mv.src = t <;>
      simp_all [Tab.get_put] <;> grind

theorem unbody_double (B X : Board) (mv : Move) (hB : Core B) (hk : mv.kind = .double) (ok : MakeOk B mv)
    (hX : SameSets X (makeBody B.r.side B mv (B.get mv.dst))) :
    SameSets (unmakeBody B.r.side X mv (X.get mv.dst) (B.get mv.dst)) B := by
  obtain ⟨hh, hc, hp⟩ := hB
  simp only [MakeOk, hk] at ok
  obtain ⟨hsrc, hdst, hne⟩ := ok
  have hXget := hX.get
  obtain ⟨hXc, hXcol, hXp⟩ := hX
  unfold makeBody at hXc hXcol hXp hXget
  simp only [hk] at hXc hXcol hXp hXget
  unfold makePawnDouble at hXc hXcol hXp hXget
  simp only [Bool.false_eq_true, if_false, Bool.not_false, if_true] at hXc hXcol hXp hXget
  unfold unmakeBody
  simp only [hk]
  unfold makePawnDouble
  simp only [if_true, Bool.not_true, Bool.false_eq_true, if_false]
  have hpz : Cell.mk B.r.side .pawn ≠ 0 := mk_ne_zero _ _
  refine ⟨?_, ?_, ?_⟩
  · proj_simp3
    simp only [hXc]
    proj_simp3
    clear hXc hXcol hXp hXget hh
    apply Tab.ext; intro t
    simp only [Tab.get_put]
    by_cases h1 : mv.dst = t <;> by_cases h2 : mv.src = t <;> simp_all [Board.get, RawBoard.get]
  · intro c
    proj_simp3
    simp only [hXcol]
    proj_simp3
    clear hXc hXcol hXp hXget hh
    apply BB.ext_has; intro t
    cases hs : B.r.side <;> cases c <;> simp only [hs] at hsrc ⊢ <;>
      by_cases h1 : mv.dst = t <;> by_cases h2 : mv.src = t <;> simp_all [Color.inv]
  · proj_simp3
    simp only [hXp]
    proj_simp3
    clear hXc hXcol hXp hXget hh
    apply Tab.ext; intro x; apply BB.ext_has; intro t
    by_cases h4 : Cell.mk B.r.side .pawn = x <;> by_cases h1 : mv.dst = t <;> by_cases h2 : mv.src = t <;>
      simp_all [Tab.get_put] <;> grind

theorem unbody_ep (B X : Board) (mv : Move) (hB : Core B) (hk : mv.kind = .ep) (ok : MakeOk B mv)
    (hX : SameSets X (makeBody B.r.side B mv (B.get mv.dst))) :
    SameSets (unmakeBody B.r.side X mv (X.get mv.dst) (B.get mv.dst)) B := by
  obtain ⟨hh, hc, hp⟩ := hB
  simp only [MakeOk, hk] at ok
  obtain ⟨hsrc, hdst, htk, hne, hts, htd⟩ := ok
  have hXget := hX.get
  obtain ⟨hXc, hXcol, hXp⟩ := hX
  unfold makeBody at hXc hXcol hXp hXget
  simp only [hk] at hXc hXcol hXp hXget
  unfold makeEnpassant at hXc hXcol hXp hXget
  simp only [Bool.false_eq_true, if_false] at hXc hXcol hXp hXget
  unfold unmakeBody
  simp only [hk]
  unfold makeEnpassant
  simp only [if_true]
  generalize addU mv.dst (-(forwardDelta B.r.side)) = tk at *
  have hpz : Cell.mk B.r.side .pawn ≠ 0 := mk_ne_zero _ _
  have hpz' : Cell.mk B.r.side.inv .pawn ≠ 0 := mk_ne_zero _ _
  have hne' : Cell.mk B.r.side .pawn ≠ Cell.mk B.r.side.inv .pawn := by
    intro e; exact Color.inv_ne _ (mk_inj e).1.symm
  refine ⟨?_, ?_, ?_⟩
  · proj_simp3
    simp only [hXc]
    proj_simp3
    clear hXc hXcol hXp hXget hh
    apply Tab.ext; intro t
    simp only [Tab.get_put]
    by_cases h1 : mv.dst = t <;> by_cases h2 : mv.src = t <;> by_cases h3 : tk = t <;>
      simp_all [Board.get, RawBoard.get]
  · intro c
    proj_simp3
    simp only [hXcol]
    proj_simp3
    clear hXc hXcol hXp hXget hh
    apply BB.ext_has; intro t
    cases hs : B.r.side <;> cases c <;> simp only [hs] at hsrc htk ⊢ <;>
      by_cases h1 : mv.dst = t <;> by_cases h2 : mv.src = t <;> by_cases h3 : tk = t <;> simp_all [Color.inv]
  · proj_simp3
    simp only [hXp]
    proj_simp3
    clear hXc hXcol hXp hXget hh
    apply Tab.ext; intro x; apply BB.ext_has; intro t
    by_cases h4 : Cell.mk B.r.side .pawn = x <;> by_cases h5 : Cell.mk B.r.side.inv .pawn = x <;>
      by_cases h1 : mv.dst = t <;> by_cases h2 : mv.src = t <;> by_cases h3 : tk = t <;>
      simp_all [Tab.get_put] <;> grind

theorem unbody_castleK (B X : Board) (mv : Move) (hB : Core B) (hk : mv.kind = .castleK) (ok : MakeOk B mv)
    (hX : SameSets X (makeBody B.r.side B mv (B.get mv.dst))) :
    SameSets (unmakeBody B.r.side X mv (X.get mv.dst) (B.get mv.dst)) B := by
  obtain ⟨hh, hc, hp⟩ := hB
  simp only [MakeOk, hk] at ok
  obtain ⟨hE, hF, hG, hH⟩ := ok
  have hXget := hX.get
  obtain ⟨hXc, hXcol, hXp⟩ := hX
  unfold makeBody at hXc hXcol hXp hXget
  simp only [hk] at hXc hXcol hXp hXget
  unfold makeCastlingK at hXc hXcol hXp hXget
  simp only [Bool.false_eq_true, if_false, Bool.not_false, if_true] at hXc hXcol hXp hXget
  unfold unmakeBody
  simp only [hk]
  unfold makeCastlingK
  simp only [if_true, Bool.not_true, Bool.false_eq_true, if_false]
  obtain ⟨nEF, nEG, nEH, nFG, nFH, nGH, -⟩ := castle_sq_ne B.r.side
  generalize hEs : Sq.mk fileE (castlingRank B.r.side) = E at *
  generalize hFs : Sq.mk fileF (castlingRank B.r.side) = F at *
  generalize hGs : Sq.mk fileG (castlingRank B.r.side) = G at *
  generalize hHs : Sq.mk fileH (castlingRank B.r.side) = H at *
  have hm := fun t => ks_masks B.r.side t
  rw [hEs, hFs, hGs, hHs] at hm
  have hz : Cell.mk B.r.side .king ≠ 0 := mk_ne_zero _ _
  have hz' : Cell.mk B.r.side .rook ≠ 0 := mk_ne_zero _ _
  have hne' : Cell.mk B.r.side .rook ≠ Cell.mk B.r.side .king := by
    intro e; exact absurd (mk_inj e).2 (by decide)
  refine ⟨?_, ?_, ?_⟩
  · proj_simp3
    simp only [hXc]
    proj_simp3
    clear hXc hXcol hXp hXget hh
    apply Tab.ext; intro t
    simp only [Tab.get_put]
    by_cases h1 : E = t <;> by_cases h2 : F = t <;> by_cases h3 : G = t <;> by_cases h4 : H = t <;>
      simp_all [Board.get, RawBoard.get]
  · intro c
    proj_simp3
    simp only [hXcol]
    proj_simp3
    clear hXc hXcol hXp hXget hh
    apply BB.ext_has; intro t
    have hm1 := (hm t).1
    cases hs : B.r.side <;> cases c <;> simp only [hs] at hE hH ⊢ <;> simp_all [Color.inv]
  · proj_simp3
    simp only [hXp]
    proj_simp3
    clear hXc hXcol hXp hXget hh
    apply Tab.ext; intro x; apply BB.ext_has; intro t
    have hm2 := (hm t).2.1
    have hm3 := (hm t).2.2
    by_cases h5 : Cell.mk B.r.side .king = x <;> by_cases h6 : Cell.mk B.r.side .rook = x <;>
      simp_all [Tab.get_put] <;> grind

theorem unbody_castleQ (B X : Board) (mv : Move) (hB : Core B) (hk : mv.kind = .castleQ) (ok : MakeOk B mv)
    (hX : SameSets X (makeBody B.r.side B mv (B.get mv.dst))) :
    SameSets (unmakeBody B.r.side X mv (X.get mv.dst) (B.get mv.dst)) B := by
  obtain ⟨hh, hc, hp⟩ := hB
  simp only [MakeOk, hk] at ok
  obtain ⟨hA, hC, hD, hE⟩ := ok
  have hXget := hX.get
  obtain ⟨hXc, hXcol, hXp⟩ := hX
  unfold makeBody at hXc hXcol hXp hXget
  simp only [hk] at hXc hXcol hXp hXget
  unfold makeCastlingQ at hXc hXcol hXp hXget
  simp only [Bool.false_eq_true, if_false, Bool.not_false, if_true] at hXc hXcol hXp hXget
  unfold unmakeBody
  simp only [hk]
  unfold makeCastlingQ
  simp only [if_true, Bool.not_true, Bool.false_eq_true, if_false]
  obtain ⟨-, -, -, -, -, -, nAC, nAD, nAE, nCD, nCE, nDE⟩ := castle_sq_ne B.r.side
  generalize hAs : Sq.mk fileA (castlingRank B.r.side) = A at *
  generalize hCs : Sq.mk fileC (castlingRank B.r.side) = C at *
  generalize hDs : Sq.mk fileD (castlingRank B.r.side) = D at *
  generalize hEs : Sq.mk fileE (castlingRank B.r.side) = E at *
  have hm := fun t => qs_masks B.r.side t
  rw [hAs, hCs, hDs, hEs] at hm
  have hz : Cell.mk B.r.side .king ≠ 0 := mk_ne_zero _ _
  have hz' : Cell.mk B.r.side .rook ≠ 0 := mk_ne_zero _ _
  have hne' : Cell.mk B.r.side .rook ≠ Cell.mk B.r.side .king := by
    intro e; exact absurd (mk_inj e).2 (by decide)
  refine ⟨?_, ?_, ?_⟩
  · proj_simp3
    simp only [hXc]
    proj_simp3
    clear hXc hXcol hXp hXget hh
    apply Tab.ext; intro t
    simp only [Tab.get_put]
    by_cases h1 : A = t <;> by_cases h2 : C = t <;> by_cases h3 : D = t <;> by_cases h4 : E = t <;>
      simp_all [Board.get, RawBoard.get]
  · intro c
    proj_simp3
    simp only [hXcol]
    proj_simp3
    clear hXc hXcol hXp hXget hh
    apply BB.ext_has; intro t
    have hm1 := (hm t).1
    cases hs : B.r.side <;> cases c <;> simp only [hs] at hA hE ⊢ <;> simp_all [Color.inv]
  · proj_simp3
    simp only [hXp]
    proj_simp3
    clear hXc hXcol hXp hXget hh
    apply Tab.ext; intro x; apply BB.ext_has; intro t
    have hm2 := (hm t).2.1
    have hm3 := (hm t).2.2
    by_cases h5 : Cell.mk B.r.side .king = x <;> by_cases h6 : Cell.mk B.r.side .rook = x <;>
      simp_all [Tab.get_put] <;> grind


theorem unbody_sameSets (B X : Board) (mv : Move) (hB : Core B) (ok : MakeOk B mv)
    (hX : SameSets X (makeBody B.r.side B mv (B.get mv.dst))) :
    SameSets (unmakeBody B.r.side X mv (X.get mv.dst) (B.get mv.dst)) B := by
  cases hk : mv.kind
  · exact unbody_null B X mv hk hX
  · exact unbody_simple B X mv hB hk ok hX
  · exact unbody_castleK B X mv hB hk ok hX
  · exact unbody_castleQ B X mv hB hk ok hX
  · exact unbody_double B X mv hB hk ok hX
  · exact unbody_ep B X mv hB hk ok hX
  · exact unbody_promote B X mv hB (Or.inl hk) ok hX
  · exact unbody_promote B X mv hB (Or.inr (Or.inl hk)) ok hX
  · exact unbody_promote B X mv hB (Or.inr (Or.inr (Or.inl hk))) ok hX
  · exact unbody_promote B X mv hB (Or.inr (Or.inr (Or.inr hk))) ok hX

theorem board_ext {a b : Board} (hr : a.r = b.r) (hh : a.hash = b.hash) (hw : a.white = b.white)
    (hbk : a.black = b.black) (ha : a.all = b.all) (hp : a.pieces = b.pieces) : a = b := by
  cases a; cases b; simp_all

theorem raw_ext {a b : RawBoard} (h1 : a.cells = b.cells) (h2 : a.side = b.side) (h3 : a.castling = b.castling)
    (h4 : a.ep = b.ep) (h5 : a.mc = b.mc) (h6 : a.mn = b.mn) : a = b := by
  cases a; cases b; simp_all

/-- C04 backbone: applying a move and undoing it restores the board in every field -/
theorem unmake_make (b : Board) (mv : Move) (hb : Consistent b) (ok : MakeOk b mv) :
    unmakeMove (makeMove b mv).1 mv (makeMove b mv).2 = b := by
  have hcons := (consistent_core b).mp hb
  have hcore := clearEp_core b hcons.1
  have hsame : SameSets (makeMove b mv).1 (makeBody b.clearEp.r.side b.clearEp mv (b.clearEp.get mv.dst)) := by
    unfold makeMove
    simp only [clearEp_side, clearEp_get]
    refine ⟨?_, ?_, ?_⟩ <;> simp
  have hs := unbody_sameSets b.clearEp (makeMove b mv).1 mv hcore (makeOk_clearEp b mv ok) hsame
  rw [clearEp_side, clearEp_get] at hs
  have hside : (makeMove b mv).1.r.side = b.r.side.inv := by unfold makeMove; simp
  have hundo : (makeMove b mv).2 = (⟨b.hash, b.get mv.dst, b.r.castling, b.r.ep, b.r.mc, b.r.mn⟩ : RawUndo) := by
    unfold makeMove; rfl
  unfold unmakeMove
  simp only [hside, Color.inv_inv, hundo]
  obtain ⟨hc1, hc2, hc3⟩ := hs
  apply board_ext
  · apply raw_ext <;> simp
    rw [hc1]; exact clearEp_cells b
  · simp
  · have := hc2 .white; rw [clearEp_color] at this; simpa [Board.color, Board.restore, Board.refreshAll] using this
  · have := hc2 .black; rw [clearEp_color] at this; simpa [Board.color, Board.restore, Board.refreshAll] using this
  · have hw := hc2 .white; have hbk := hc2 .black
    rw [clearEp_color] at hw hbk
    simp only [refreshAll_all, restore_color, hw, hbk]
    exact hcons.2.symm
  · simp only [refreshAll_pieces, restore_pieces, hc3, clearEp_pieces]

end Owl.Lemmas
