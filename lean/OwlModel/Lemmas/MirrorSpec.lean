import OwlModel.Spec.Rules
namespace Owl.Props.C18
open Owl Owl.Spec

/-!
# C18 at the level of the rules: mirror symmetries of chess

`mirrorV` mirrors a position top-to-bottom and swaps the colours; `mirrorH` mirrors it left-to-right.
Both are instances of one abstract board symmetry `Sym` (a square map, a direction map and a colour map
with the handful of compatibility facts the rules use), so every statement is proved once, generically
(`mir`, `mirMan`, `mirMove`), and then instantiated.
-/

/-! ## 0. small utilities -/

theorem opt_ext {α : Type} {a b : Option α} (h : ∀ x, a = some x ↔ b = some x) : a = b := by
  cases a with
  | none => cases b with
    | none => rfl
    | some y => exact (h y).2 rfl
  | some x => exact ((h x).1 rfl).symm

theorem sq_ext {a b : Sq} (hf : file a = file b) (hr : rank a = rank b) : a = b := by
  apply Fin.ext; unfold file rank at *; omega

theorem mkSq?_eq_some (f r : Int) (t : Sq) :
    mkSq? f r = some t ↔ ((file t : Int) = f ∧ (rank t : Int) = r) := by
  unfold mkSq?
  split
  · rename_i h
    simp only [Option.some.injEq]
    constructor
    · intro e; subst e; simp only [file, rank]; omega
    · intro ⟨h1, h2⟩; apply Fin.ext; simp only [file, rank] at h1 h2; simp only; omega
  · rename_i h
    constructor
    · intro e; cases e
    · intro ⟨h1, h2⟩; exfalso; apply h; have := t.isLt; simp only [file, rank] at h1 h2; omega

theorem step_eq_some (s t : Sq) (d : Int × Int) :
    step s d = some t ↔ ((file t : Int) = (file s : Int) + d.1 ∧ (rank t : Int) = (rank s : Int) + d.2) :=
  mkSq?_eq_some _ _ _

/-! ## 1. abstract board symmetries -/

/-- A symmetry of the board geometry together with a colour map. `castleOK` says that the symmetry
respects the castling squares (true for the vertical mirror, false for the horizontal one). -/
structure Sym where
  sq : Sq → Sq
  dir : Int × Int → Int × Int
  col : Color → Color
  dirf : Int → Int
  castleOK : Prop
  sq_sq : ∀ s, sq (sq s) = s
  col_col : ∀ c, col (col c) = c
  col_inv : ∀ c, col c.inv = (col c).inv
  dir_dir : ∀ d, dir (dir d) = d
  step_sq : ∀ s d, step (sq s) (dir d) = (step s d).map sq
  knight : ∀ d, d ∈ knightSteps → dir d ∈ knightSteps
  king : ∀ d, d ∈ kingSteps → dir d ∈ kingSteps
  rook : ∀ d, d ∈ rookDirs → dir d ∈ rookDirs
  bishop : ∀ d, d ∈ bishopDirs → dir d ∈ bishopDirs
  pawn_dir : ∀ c df, dir (df, forward c) = (dirf df, forward (col c))
  dirf_zero : dirf 0 = 0
  dirf_dirf : ∀ x, dirf (dirf x) = x
  dirf_mem : ∀ x, x ∈ [(-1 : Int), 1] → dirf x ∈ [(-1 : Int), 1]
  promo : ∀ t c, rank (sq t) = promoRank (col c) ↔ rank t = promoRank c
  start : ∀ t c, rank (sq t) = pawnStartRank (col c) ↔ rank t = pawnStartRank c
  dbl : ∀ t c, rank (sq t) = doubleDstRank (col c) ↔ rank t = doubleDstRank c
  rank_eq : ∀ a b, rank (sq a) = rank (sq b) ↔ rank a = rank b
  edge : ∀ s, (rank (sq s) ≠ 0 ∧ rank (sq s) ≠ 7) ↔ (rank s ≠ 0 ∧ rank s ≠ 7)
  light : ∀ s, squareLight (sq s) = !squareLight s
  castle_sq : castleOK → ∀ f c, sqOf f (homeRank (col c)) = sq (sqOf f (homeRank c))

namespace Sym
variable (S : Sym)

theorem sq_inj {a b : Sq} (h : S.sq a = S.sq b) : a = b := by
  have := congrArg S.sq h; rwa [S.sq_sq, S.sq_sq] at this

theorem sq_eq_iff (a b : Sq) : S.sq a = b ↔ a = S.sq b :=
  ⟨fun h => by rw [← h, S.sq_sq], fun h => by rw [h, S.sq_sq]⟩

theorem col_inj {a b : Color} (h : S.col a = S.col b) : a = b := by
  have := congrArg S.col h; rwa [S.col_col, S.col_col] at this

theorem col_eq_iff (a b : Color) : S.col a = S.col b ↔ a = b :=
  ⟨S.col_inj, fun h => by rw [h]⟩

theorem col_cases : (∀ c, S.col c = c) ∨ (∀ c, S.col c = c.inv) := by
  cases hw : S.col .white <;> cases hb : S.col .black
  · exfalso; have := S.col_col .black; rw [hb, hw] at this; cases this
  · left; intro c; cases c <;> assumption
  · right; intro c; cases c <;> assumption
  · exfalso; have := S.col_col .white; rw [hw, hb] at this; cases this

/-- colour-mapped man -/
def man (m : Man) : Man := ⟨S.col m.color, m.piece⟩

theorem man_man (m : Man) : S.man (S.man m) = m := by
  cases m; simp only [man, S.col_col]

theorem man_eq_iff (a b : Man) : S.man a = b ↔ a = S.man b :=
  ⟨fun h => by rw [← h, S.man_man], fun h => by rw [h, S.man_man]⟩

theorem man_mk (c : Color) (pc : Piece) : S.man ⟨c, pc⟩ = ⟨S.col c, pc⟩ := rfl

/-- the mirrored position -/
def mir (p : Pos) : Pos :=
  { board := Tab.ofFn fun s => (p.get (S.sq s)).map S.man
    side := S.col p.side
    rights := RightsSet.ofFn fun c s => p.rights.has (S.col c) s
    ep := p.ep.map S.sq
    half := p.half
    full := p.full }

/-- the mirrored move -/
def mirMove (m : Move) : Move := ⟨m.kind, S.man m.man, S.sq m.src, S.sq m.dst⟩

theorem get_mir (p : Pos) (s : Sq) : (S.mir p).get s = (p.get (S.sq s)).map S.man := by
  simp only [mir, Pos.get, Tab.get_ofFn]

theorem get_mir' (p : Pos) (s : Sq) : (S.mir p).get (S.sq s) = (p.get s).map S.man := by
  rw [get_mir, S.sq_sq]

theorem occ_mir' (p : Pos) (s : Sq) : (S.mir p).occ (S.sq s) = p.occ s := by
  simp only [Pos.occ, get_mir', Option.isSome_map]

theorem side_mir (p : Pos) : (S.mir p).side = S.col p.side := rfl
theorem ep_mir (p : Pos) : (S.mir p).ep = p.ep.map S.sq := rfl
theorem half_mir (p : Pos) : (S.mir p).half = p.half := by simp only [mir]
theorem full_mir (p : Pos) : (S.mir p).full = p.full := by simp only [mir]
theorem has_mir (p : Pos) (c : Color) (sd : Side) :
    (S.mir p).rights.has c sd = p.rights.has (S.col c) sd := by
  simp only [mir, RightsSet.has_ofFn]

theorem ofFn_has (r : RightsSet) : RightsSet.ofFn r.has = r := by cases r; rfl

theorem rights_ext {a b : RightsSet} (h : ∀ c sd, a.has c sd = b.has c sd) : a = b := by
  cases a; cases b
  have h1 := h .white .king; have h2 := h .white .queen
  have h3 := h .black .king; have h4 := h .black .queen
  simp only [RightsSet.has] at h1 h2 h3 h4
  subst h1 h2 h3 h4; rfl

theorem pos_ext {a b : Pos} (h1 : ∀ s, a.get s = b.get s) (h2 : a.side = b.side)
    (h3 : a.rights = b.rights) (h4 : a.ep = b.ep) (h5 : a.half = b.half) (h6 : a.full = b.full) :
    a = b := by
  cases a; cases b
  simp only at h2 h3 h4 h5 h6
  subst h2 h3 h4 h5 h6
  rename_i b1 _ _ _ _ _ b2
  have : b1 = b2 := Tab.ext h1
  subst this; rfl

/-! ### 1. involutions -/

theorem mir_mir (p : Pos) : S.mir (S.mir p) = p := by
  apply pos_ext
  · intro s
    rw [get_mir, get_mir, S.sq_sq, Option.map_map]
    cases p.get s with
    | none => rfl
    | some m => simp only [Option.map_some, Function.comp, S.man_man]
  · simp only [side_mir, S.col_col]
  · apply rights_ext; intro c sd; rw [has_mir, has_mir, S.col_col]
  · simp only [ep_mir, Option.map_map]
    cases p.ep with
    | none => rfl
    | some e => simp only [Option.map_some, Function.comp, S.sq_sq]
  · simp only [half_mir]
  · simp only [full_mir]

theorem mirMove_mirMove (m : Move) : S.mirMove (S.mirMove m) = m := by
  cases m; simp only [mirMove, S.man_man, S.sq_sq]

theorem mirMove_eq_iff (a b : Move) : S.mirMove a = b ↔ a = S.mirMove b :=
  ⟨fun h => by rw [← h, S.mirMove_mirMove], fun h => by rw [h, S.mirMove_mirMove]⟩

theorem mem_map_sq (t : Sq) (l : List Sq) : t ∈ l.map S.sq ↔ S.sq t ∈ l := by
  rw [List.mem_map]
  constructor
  · rintro ⟨a, ha, rfl⟩; rwa [S.sq_sq]
  · intro h; exact ⟨_, h, S.sq_sq t⟩

theorem mem_map_mirMove (m : Move) (l : List Move) : m ∈ l.map S.mirMove ↔ S.mirMove m ∈ l := by
  rw [List.mem_map]
  constructor
  · rintro ⟨a, ha, rfl⟩; rwa [S.mirMove_mirMove]
  · intro h; exact ⟨_, h, S.mirMove_mirMove m⟩

/-! ### 2. geometry -/

theorem step_sq' (s : Sq) (d : Int × Int) : step (S.sq s) d = (step s (S.dir d)).map S.sq := by
  have := S.step_sq s (S.dir d); rwa [S.dir_dir] at this

theorem step_sq_eq_some (s t : Sq) (d : Int × Int) :
    step (S.sq s) (S.dir d) = some (S.sq t) ↔ step s d = some t := by
  rw [S.step_sq, Option.map_eq_some_iff]
  constructor
  · rintro ⟨a, ha, e⟩; rw [ha, S.sq_inj e]
  · intro h; exact ⟨t, h, rfl⟩

theorem ray_sq (d : Int × Int) (n : Nat) (s : Sq) :
    ray (S.dir d) n (S.sq s) = (ray d n s).map S.sq := by
  induction n generalizing s with
  | zero => rfl
  | succ n ih =>
    simp only [ray, S.step_sq]
    cases step s d with
    | none => rfl
    | some t => simp only [Option.map_some, List.map_cons, ih]

theorem reach_sq (p : Pos) (l : List Sq) :
    reach (S.mir p).occ (l.map S.sq) = (reach p.occ l).map S.sq := by
  induction l with
  | nil => rfl
  | cons t rest ih =>
    simp only [List.map_cons, reach, occ_mir']
    split
    · rfl
    · simp only [List.map_cons, ih]

/-- closure of a direction set under the direction map -/
def Closed (dirs : List (Int × Int)) : Prop := ∀ d, d ∈ dirs → S.dir d ∈ dirs

theorem mem_slide (dirs : List (Int × Int)) (hd : S.Closed dirs) (p : Pos) (s t : Sq) :
    t ∈ slide dirs (S.mir p).occ (S.sq s) ↔ S.sq t ∈ slide dirs p.occ s := by
  simp only [slide, List.mem_flatMap]
  constructor
  · rintro ⟨d, hdm, h⟩
    refine ⟨S.dir d, hd d hdm, ?_⟩
    have e := S.ray_sq (S.dir d) 7 s
    rw [S.dir_dir] at e
    rw [e, reach_sq, mem_map_sq] at h
    exact h
  · rintro ⟨d, hdm, h⟩
    refine ⟨S.dir d, hd d hdm, ?_⟩
    rw [ray_sq, reach_sq, mem_map_sq]
    exact h

theorem closed_dirsOf (pc : Piece) : S.Closed (dirsOf pc) := by
  intro d hd
  cases pc <;> simp only [dirsOf, List.mem_append, List.not_mem_nil] at hd ⊢
  · exact S.bishop d hd
  · exact S.rook d hd
  · rcases hd with h | h
    · exact Or.inl (S.bishop d h)
    · exact Or.inr (S.rook d h)


/-! ### 3. attacks, attackers, kings, check -/

/-- `any` over step lists: two direction lists that are mapped into each other -/
theorem any_step (L L' : List (Int × Int)) (h1 : ∀ d, d ∈ L → S.dir d ∈ L')
    (h2 : ∀ d, d ∈ L' → S.dir d ∈ L) (s t : Sq) :
    (L'.any fun d => step (S.sq s) d == some (S.sq t)) = (L.any fun d => step s d == some t) := by
  rw [Bool.eq_iff_iff]
  simp only [List.any_eq_true, beq_iff_eq]
  constructor
  · rintro ⟨d, hd, h⟩
    refine ⟨S.dir d, h2 d hd, ?_⟩
    rw [← S.step_sq_eq_some, S.dir_dir]; exact h
  · rintro ⟨d, hd, h⟩
    exact ⟨S.dir d, h1 d hd, (S.step_sq_eq_some s t d).2 h⟩

theorem pawn_dirs_closed (c : Color) (d : Int × Int)
    (hd : d ∈ [((-1 : Int), forward c), (1, forward c)]) :
    S.dir d ∈ [((-1 : Int), forward (S.col c)), (1, forward (S.col c))] := by
  simp only [List.mem_cons, List.not_mem_nil, or_false] at hd
  rcases hd with rfl | rfl
  · rw [S.pawn_dir]
    have := S.dirf_mem (-1) (by simp)
    simp only [List.mem_cons, List.not_mem_nil, or_false] at this
    rcases this with h | h <;> simp [h]
  · rw [S.pawn_dir]
    have := S.dirf_mem 1 (by simp)
    simp only [List.mem_cons, List.not_mem_nil, or_false] at this
    rcases this with h | h <;> simp [h]

theorem contains_slide (pc : Piece) (p : Pos) (s t : Sq) :
    (slide (dirsOf pc) (S.mir p).occ (S.sq s)).contains (S.sq t)
      = (slide (dirsOf pc) p.occ s).contains t := by
  rw [Bool.eq_iff_iff, List.contains_iff_mem, List.contains_iff_mem]
  have := S.mem_slide _ (S.closed_dirsOf pc) p s (S.sq t)
  rw [S.sq_sq] at this; exact this

theorem attacks_mir (p : Pos) (s t : Sq) :
    attacks (S.mir p) (S.sq s) (S.sq t) = attacks p s t := by
  unfold attacks
  rw [get_mir']
  cases p.get s with
  | none => rfl
  | some m =>
    obtain ⟨c, pc⟩ := m
    simp only [Option.map_some, man]
    cases pc <;> simp only
    · exact S.any_step _ _ (S.pawn_dirs_closed c)
        (fun d hd => by have := S.pawn_dirs_closed (S.col c) d hd; rwa [S.col_col] at this) s t
    · exact S.any_step _ _ S.king S.king s t
    · exact S.any_step _ _ S.knight S.knight s t
    all_goals exact S.contains_slide _ p s t

theorem beq_col (a b : Color) : (S.col a == S.col b) = (a == b) := by
  rw [Bool.eq_iff_iff, beq_iff_eq, beq_iff_eq]; exact S.col_eq_iff a b

theorem any_color_mir (p : Pos) (s : Sq) (c : Color) :
    ((S.mir p).get (S.sq s)).any (·.color == S.col c) = (p.get s).any (·.color == c) := by
  rw [get_mir', Option.any_map]
  simp only [man, beq_col]

end Sym

theorem mem_attackers (p : Pos) (s t : Sq) (c : Color) :
    s ∈ attackers p t c ↔ ((p.get s).any (·.color == c) && attacks p s t) = true := by
  simp only [attackers, allSq, List.mem_filter, List.mem_finRange, true_and]

theorem attackedBy_iff (p : Pos) (t : Sq) (c : Color) :
    attackedBy p t c = true ↔ ∃ s, ((p.get s).any (·.color == c) && attacks p s t) = true := by
  unfold attackedBy
  constructor
  · intro h
    have hne : attackers p t c ≠ [] := by intro e; rw [e] at h; simp at h
    obtain ⟨s, hs⟩ := List.exists_mem_of_ne_nil _ hne
    exact ⟨s, (mem_attackers p s t c).1 hs⟩
  · rintro ⟨s, hs⟩
    have := (mem_attackers p s t c).2 hs
    cases h : attackers p t c with
    | nil => rw [h] at this; cases this
    | cons a l => rfl

/-- colour `c` has at most one king on the board -/
def UniqueKing (p : Pos) (c : Color) : Prop :=
  ∀ s t, p.get s = some ⟨c, .king⟩ → p.get t = some ⟨c, .king⟩ → s = t

theorem mem_kingSqs (p : Pos) (c : Color) (s : Sq) : s ∈ kingSqs p c ↔ p.get s = some ⟨c, .king⟩ := by
  simp only [kingSqs, allSq, List.mem_filter, List.mem_finRange, true_and, beq_iff_eq]

theorem eq_of_length_le_one {α : Type} : ∀ (l : List α), l.length ≤ 1 → ∀ a b, a ∈ l → b ∈ l → a = b
  | [], _, a, _, ha, _ => by cases ha
  | [x], _, a, b, ha, hb => by
    simp only [List.mem_cons, List.not_mem_nil, or_false] at ha hb; rw [ha, hb]
  | _ :: _ :: _, h, _, _, _, _ => by simp only [List.length_cons] at h; omega

theorem uniqueKing_of_length_le {p : Pos} {c : Color} (h : (kingSqs p c).length ≤ 1) : UniqueKing p c := by
  intro s t hs ht
  rw [← mem_kingSqs] at hs ht
  exact eq_of_length_le_one _ h s t hs ht

/-- with at most one king, "in check" means: some king square of that colour is attacked -/
theorem inCheck_iff {p : Pos} {c : Color} (hu : UniqueKing p c) :
    inCheck p c = true ↔ ∃ k, p.get k = some ⟨c, .king⟩ ∧ attackedBy p k c.inv = true := by
  unfold inCheck kingSq
  rw [Option.any_eq_true]
  constructor
  · rintro ⟨k, hk, ha⟩
    exact ⟨k, (mem_kingSqs p c k).1 (List.mem_of_mem_head? hk), ha⟩
  · rintro ⟨k, hk, ha⟩
    have hm := (mem_kingSqs p c k).2 hk
    cases hh : (kingSqs p c).head? with
    | none => rw [List.head?_eq_none_iff] at hh; rw [hh] at hm; cases hm
    | some k' =>
      have := (mem_kingSqs p c k').1 (List.mem_of_mem_head? hh)
      have e := hu k' k this hk
      subst e; exact ⟨_, rfl, ha⟩

namespace Sym
variable (S : Sym)

theorem attackedBy_mir (p : Pos) (t : Sq) (c : Color) :
    attackedBy (S.mir p) (S.sq t) (S.col c) = attackedBy p t c := by
  rw [Bool.eq_iff_iff, attackedBy_iff, attackedBy_iff]
  constructor
  · rintro ⟨s, hs⟩
    refine ⟨S.sq s, ?_⟩
    rw [← S.any_color_mir, ← S.attacks_mir, S.sq_sq]; exact hs
  · rintro ⟨s, hs⟩
    refine ⟨S.sq s, ?_⟩
    rw [S.any_color_mir, S.attacks_mir]; exact hs

theorem get_mir_eq_some (p : Pos) (s : Sq) (x : Man) :
    (S.mir p).get (S.sq s) = some (S.man x) ↔ p.get s = some x := by
  rw [get_mir', Option.map_eq_some_iff]
  constructor
  · rintro ⟨a, ha, e⟩
    have := congrArg S.man e
    rw [S.man_man, S.man_man] at this
    rw [ha, this]
  · intro h; exact ⟨x, h, rfl⟩

theorem king_mir (p : Pos) (s : Sq) (c : Color) :
    (S.mir p).get (S.sq s) = some ⟨S.col c, .king⟩ ↔ p.get s = some ⟨c, .king⟩ :=
  S.get_mir_eq_some p s ⟨c, .king⟩

theorem uniqueKing_mir {p : Pos} {c : Color} (hu : UniqueKing p c) : UniqueKing (S.mir p) (S.col c) := by
  intro s t hs ht
  have h1 := (S.king_mir p (S.sq s) c).1 (by rw [S.sq_sq]; exact hs)
  have h2 := (S.king_mir p (S.sq t) c).1 (by rw [S.sq_sq]; exact ht)
  exact S.sq_inj (hu _ _ h1 h2)

/-- item 3: check commutes with mirroring (for a colour with at most one king) -/
theorem inCheck_mir {p : Pos} {c : Color} (hu : UniqueKing p c) :
    inCheck (S.mir p) (S.col c) = inCheck p c := by
  rw [Bool.eq_iff_iff, inCheck_iff (S.uniqueKing_mir hu), inCheck_iff hu]
  constructor
  · rintro ⟨k, hk, ha⟩
    refine ⟨S.sq k, (S.king_mir p (S.sq k) c).1 (by rw [S.sq_sq]; exact hk), ?_⟩
    rw [← S.attackedBy_mir, S.sq_sq, S.col_inv]; exact ha
  · rintro ⟨k, hk, ha⟩
    refine ⟨S.sq k, (S.king_mir p k c).2 hk, ?_⟩
    rw [← S.col_inv, S.attackedBy_mir]; exact ha

end Sym

/-! ### 4. pseudo-legal moves

The generator is cut into named pieces (`pmk`, `ppush`, `pcap`, `stepMove`, `slideMove`, `fromSq`);
the `*_eq` lemmas (all `rfl`) say that these pieces are literally the sub-terms of the rules. -/

def pmk (c : Color) (s : Sq) (k : Kind) (t : Sq) : List Move :=
  if rank t = promoRank c ∧ k = .simple then promKinds.map fun pk => ⟨pk, ⟨c, .pawn⟩, s, t⟩
  else [⟨k, ⟨c, .pawn⟩, s, t⟩]

def ppush (p : Pos) (s : Sq) (c : Color) : List Move :=
  match step s (0, forward c) with
  | some t => if (p.get t).isNone then
      pmk c s .simple t ++ (if rank s = pawnStartRank c then
        match step t (0, forward c) with
        | some u => if (p.get u).isNone then [⟨.double, ⟨c, .pawn⟩, s, u⟩] else []
        | none => [] else [])
    else []
  | none => []

def pcap (p : Pos) (s : Sq) (c : Color) (df : Int) : List Move :=
  match step s (df, forward c) with
  | some t => match p.get t with
    | some x => if x.color ≠ c then pmk c s .simple t else []
    | none => match p.ep with
      | some e => if step e (0, forward c) = some t ∧ rank e = rank s then [⟨.ep, ⟨c, .pawn⟩, s, t⟩] else []
      | none => []
  | none => []

theorem pawnMoves_eq (p : Pos) (s : Sq) (c : Color) :
    pawnMoves p s c = ppush p s c ++ [(-1 : Int), 1].flatMap (pcap p s c) := rfl

def free (p : Pos) (x : Man) (t : Sq) : Bool := !(p.get t).any (·.color == x.color)

def stepMove (p : Pos) (x : Man) (s : Sq) (d : Int × Int) : Option Move :=
  (step s d).bind fun t => if free p x t then some ⟨.simple, x, s, t⟩ else none

def slideMove (p : Pos) (x : Man) (s : Sq) (t : Sq) : Option Move :=
  if free p x t then some ⟨.simple, x, s, t⟩ else none

theorem pieceMoves_pawn (p : Pos) (s : Sq) (c : Color) :
    pieceMoves p s ⟨c, .pawn⟩ = pawnMoves p s c := rfl
theorem pieceMoves_knight (p : Pos) (s : Sq) (c : Color) :
    pieceMoves p s ⟨c, .knight⟩ = knightSteps.filterMap (stepMove p ⟨c, .knight⟩ s) := rfl
theorem pieceMoves_king (p : Pos) (s : Sq) (c : Color) :
    pieceMoves p s ⟨c, .king⟩ = kingSteps.filterMap (stepMove p ⟨c, .king⟩ s) := rfl
theorem pieceMoves_bishop (p : Pos) (s : Sq) (c : Color) :
    pieceMoves p s ⟨c, .bishop⟩
      = (slide (dirsOf .bishop) p.occ s).filterMap (slideMove p ⟨c, .bishop⟩ s) := rfl
theorem pieceMoves_rook (p : Pos) (s : Sq) (c : Color) :
    pieceMoves p s ⟨c, .rook⟩
      = (slide (dirsOf .rook) p.occ s).filterMap (slideMove p ⟨c, .rook⟩ s) := rfl
theorem pieceMoves_queen (p : Pos) (s : Sq) (c : Color) :
    pieceMoves p s ⟨c, .queen⟩
      = (slide (dirsOf .queen) p.occ s).filterMap (slideMove p ⟨c, .queen⟩ s) := rfl

def fromSq (p : Pos) (s : Sq) : List Move :=
  match p.get s with
  | some m => if m.color ≠ p.side then [] else pieceMoves p s m
  | none => []

theorem pseudoMoves_eq (p : Pos) :
    pseudoMoves p = allSq.flatMap (fromSq p) ++ castleMoves p p.side := rfl

theorem none_has (c : Color) (sd : Side) : RightsSet.none.has c sd = false := by
  cases c <;> cases sd <;> rfl

theorem castleMoves_nil {p : Pos} (h : p.rights = RightsSet.none) (c : Color) : castleMoves p c = [] := by
  unfold castleMoves
  simp only [h, none_has, Bool.false_eq_true, false_and, if_false, List.append_nil]

namespace Sym
variable (S : Sym)

theorem map_mirMove_eq_some (o : Option Move) (m : Move) :
    o.map S.mirMove = some m ↔ o = some (S.mirMove m) := by
  rw [Option.map_eq_some_iff]
  constructor
  · rintro ⟨a, rfl, rfl⟩; rw [S.mirMove_mirMove]
  · intro h; exact ⟨_, h, S.mirMove_mirMove m⟩

theorem pmk_mir (c : Color) (s : Sq) (k : Kind) (t : Sq) :
    pmk (S.col c) (S.sq s) k (S.sq t) = (pmk c s k t).map S.mirMove := by
  unfold pmk
  simp only [S.promo]
  split
  · rfl
  · rfl

theorem fwd0 (c : Color) : ((0 : Int), forward (S.col c)) = S.dir (0, forward c) := by
  rw [S.pawn_dir, S.dirf_zero]

theorem step0 (u : Sq) (c : Color) :
    step (S.sq u) (0, forward (S.col c)) = (step u (0, forward c)).map S.sq := by
  rw [fwd0, S.step_sq]

theorem step0_iff (e t : Sq) (c : Color) :
    step (S.sq e) (0, forward (S.col c)) = some (S.sq t) ↔ step e (0, forward c) = some t := by
  rw [fwd0, S.step_sq_eq_some]

theorem ppush_mir (p : Pos) (s : Sq) (c : Color) :
    ppush (S.mir p) (S.sq s) (S.col c) = (ppush p s c).map S.mirMove := by
  unfold ppush
  rw [step0]
  cases step s (0, forward c) with
  | none => rfl
  | some t =>
    simp only [Option.map_some, get_mir', Option.isNone_map, S.start]
    split
    · rw [List.map_append, pmk_mir]
      congr 1
      split
      · rw [step0]
        cases step t (0, forward c) with
        | none => rfl
        | some u =>
          simp only [Option.map_some, get_mir', Option.isNone_map]
          split <;> rfl
      · rfl
    · rfl

theorem pcap_mir (p : Pos) (s : Sq) (c : Color) (df : Int) :
    pcap (S.mir p) (S.sq s) (S.col c) (S.dirf df) = (pcap p s c df).map S.mirMove := by
  unfold pcap
  have e1 : step (S.sq s) (S.dirf df, forward (S.col c)) = (step s (df, forward c)).map S.sq := by
    rw [← S.step_sq, S.pawn_dir]
  rw [e1]
  cases step s (df, forward c) with
  | none => rfl
  | some t =>
    simp only [Option.map_some, get_mir']
    cases p.get t with
    | some x =>
      simp only [Option.map_some, man, ne_eq, S.col_eq_iff]
      split
      · exact S.pmk_mir c s .simple t
      · rfl
    | none =>
      simp only [Option.map_none, ep_mir]
      cases p.ep with
      | none => rfl
      | some e =>
        simp only [Option.map_some, S.step0_iff, S.rank_eq]
        split <;> rfl

theorem mem_pawnMoves_mir (p : Pos) (s : Sq) (c : Color) (m : Move) :
    m ∈ pawnMoves (S.mir p) (S.sq s) (S.col c) ↔ S.mirMove m ∈ pawnMoves p s c := by
  rw [pawnMoves_eq, pawnMoves_eq, List.mem_append, List.mem_append, ppush_mir, mem_map_mirMove]
  apply or_congr Iff.rfl
  simp only [List.mem_flatMap]
  constructor
  · rintro ⟨df, hdf, h⟩
    refine ⟨S.dirf df, S.dirf_mem df hdf, ?_⟩
    have := S.pcap_mir p s c (S.dirf df)
    rw [S.dirf_dirf] at this
    rw [this, mem_map_mirMove] at h; exact h
  · rintro ⟨df, hdf, h⟩
    exact ⟨S.dirf df, S.dirf_mem df hdf, by rw [pcap_mir, mem_map_mirMove]; exact h⟩

theorem free_mir (p : Pos) (x : Man) (t : Sq) : free (S.mir p) (S.man x) (S.sq t) = free p x t := by
  unfold free
  rw [show (S.man x).color = S.col x.color from rfl, any_color_mir]

theorem stepMove_mir (p : Pos) (x : Man) (s : Sq) (d : Int × Int) :
    stepMove (S.mir p) (S.man x) (S.sq s) (S.dir d) = (stepMove p x s d).map S.mirMove := by
  unfold stepMove
  rw [S.step_sq]
  cases step s d with
  | none => rfl
  | some t =>
    simp only [Option.map_some, Option.bind_some, free_mir]
    split <;> rfl

theorem slideMove_mir (p : Pos) (x : Man) (s t : Sq) :
    slideMove (S.mir p) (S.man x) (S.sq s) (S.sq t) = (slideMove p x s t).map S.mirMove := by
  unfold slideMove
  rw [free_mir]
  split <;> rfl

theorem mem_stepMoves_mir (L : List (Int × Int)) (hL : S.Closed L) (p : Pos) (x : Man) (s : Sq) (m : Move) :
    m ∈ L.filterMap (stepMove (S.mir p) (S.man x) (S.sq s))
      ↔ S.mirMove m ∈ L.filterMap (stepMove p x s) := by
  simp only [List.mem_filterMap]
  constructor
  · rintro ⟨d, hd, h⟩
    refine ⟨S.dir d, hL d hd, ?_⟩
    have := S.stepMove_mir p x s (S.dir d)
    rw [S.dir_dir] at this
    rw [this, map_mirMove_eq_some] at h; exact h
  · rintro ⟨d, hd, h⟩
    refine ⟨S.dir d, hL d hd, ?_⟩
    rw [stepMove_mir, map_mirMove_eq_some]; exact h

theorem mem_slideMoves_mir (pc : Piece) (p : Pos) (x : Man) (s : Sq) (m : Move) :
    m ∈ (slide (dirsOf pc) (S.mir p).occ (S.sq s)).filterMap (slideMove (S.mir p) (S.man x) (S.sq s))
      ↔ S.mirMove m ∈ (slide (dirsOf pc) p.occ s).filterMap (slideMove p x s) := by
  simp only [List.mem_filterMap]
  constructor
  · rintro ⟨t, ht, h⟩
    refine ⟨S.sq t, (S.mem_slide _ (S.closed_dirsOf pc) p s t).1 ht, ?_⟩
    have := S.slideMove_mir p x s (S.sq t)
    rw [S.sq_sq] at this
    rw [this, map_mirMove_eq_some] at h; exact h
  · rintro ⟨t, ht, h⟩
    refine ⟨S.sq t, (S.mem_slide _ (S.closed_dirsOf pc) p s (S.sq t)).2 (by rw [S.sq_sq]; exact ht), ?_⟩
    rw [slideMove_mir, map_mirMove_eq_some]; exact h

theorem mem_pieceMoves_mir (p : Pos) (s : Sq) (x : Man) (m : Move) :
    m ∈ pieceMoves (S.mir p) (S.sq s) (S.man x) ↔ S.mirMove m ∈ pieceMoves p s x := by
  obtain ⟨c, pc⟩ := x
  cases pc
  · exact S.mem_pawnMoves_mir p s c m
  · exact S.mem_stepMoves_mir kingSteps S.king p ⟨c, .king⟩ s m
  · exact S.mem_stepMoves_mir knightSteps S.knight p ⟨c, .knight⟩ s m
  · exact S.mem_slideMoves_mir .bishop p ⟨c, .bishop⟩ s m
  · exact S.mem_slideMoves_mir .rook p ⟨c, .rook⟩ s m
  · exact S.mem_slideMoves_mir .queen p ⟨c, .queen⟩ s m

theorem mem_fromSq_mir (p : Pos) (s : Sq) (m : Move) :
    m ∈ fromSq (S.mir p) (S.sq s) ↔ S.mirMove m ∈ fromSq p s := by
  unfold fromSq
  rw [get_mir']
  cases p.get s with
  | none => simp only [Option.map_none, List.not_mem_nil]
  | some x =>
    simp only [Option.map_some, side_mir, show (S.man x).color = S.col x.color from rfl, ne_eq,
      S.col_eq_iff]
    split
    · simp only [List.not_mem_nil]
    · exact S.mem_pieceMoves_mir p s x m

theorem rights_mir_none {p : Pos} (h : p.rights = RightsSet.none) : (S.mir p).rights = RightsSet.none := by
  apply rights_ext; intro c sd; rw [has_mir, h, none_has, none_has]

theorem castleMoves_mir (hc : S.castleOK) (p : Pos) (c : Color) :
    castleMoves (S.mir p) (S.col c) = (castleMoves p c).map S.mirMove := by
  unfold castleMoves
  simp only [S.castle_sq hc, has_mir, S.col_col, get_mir', Option.isNone_map, ← S.col_inv,
    attackedBy_mir]
  rw [List.map_append]
  congr 1 <;> split <;> rfl

/-- the standing assumption about castling: the symmetry respects the castling squares, or there are
no castling rights at all -/
def CastleHyp (p : Pos) : Prop := S.castleOK ∨ p.rights = RightsSet.none

theorem castleHyp_mir {p : Pos} (h : S.CastleHyp p) : S.CastleHyp (S.mir p) := by
  rcases h with h | h
  · exact Or.inl h
  · exact Or.inr (S.rights_mir_none h)

/-- item 4 -/
theorem mem_pseudoMoves_mir {p : Pos} (hc : S.CastleHyp p) (m : Move) :
    m ∈ pseudoMoves (S.mir p) ↔ S.mirMove m ∈ pseudoMoves p := by
  rw [pseudoMoves_eq, pseudoMoves_eq, List.mem_append, List.mem_append]
  apply or_congr
  · simp only [List.mem_flatMap]
    constructor
    · rintro ⟨s, _, h⟩
      refine ⟨S.sq s, List.mem_finRange _, ?_⟩
      rw [← S.sq_sq s] at h
      exact (S.mem_fromSq_mir p _ m).1 h
    · rintro ⟨s, _, h⟩
      exact ⟨S.sq s, List.mem_finRange _, (S.mem_fromSq_mir p s m).2 h⟩
  · rcases hc with hc | hc
    · rw [side_mir, S.castleMoves_mir hc, mem_map_mirMove]
    · rw [castleMoves_nil hc, castleMoves_nil (S.rights_mir_none hc)]
      simp only [List.not_mem_nil]

end Sym

/-! ### 5. making a move -/

/-- the board of `apply p m`, square by square (literally the `cell` of the rules) -/
def cellOf (p : Pos) (m : Move) (s : Sq) : Option Man :=
  let c := m.man.color
  let sq (f : Fin 8) : Sq := sqOf f (homeRank c)
  let captured := capturedSq p m
  let placed : Man := match m.kind.promote with | some pc => ⟨c, pc⟩ | none => m.man
  if s = m.dst then some placed
  else if s = m.src then none
  else if some s = captured then none
  else if m.kind = .castleK ∧ s = sq 7 then none
  else if m.kind = .castleK ∧ s = sq 5 then some ⟨c, .rook⟩
  else if m.kind = .castleQ ∧ s = sq 0 then none
  else if m.kind = .castleQ ∧ s = sq 3 then some ⟨c, .rook⟩
  else p.get s

/-- the `keeps` of the rules -/
def keepsOf (p : Pos) (m : Move) (cc : Color) (s : Side) : Bool :=
  p.rights.has cc s
    && !(m.man == ⟨cc, .king⟩)
    && !(m.man == ⟨cc, .rook⟩ && m.src == rookHome cc s)
    && !(m.dst == rookHome cc s && p.get m.dst == some ⟨cc, .rook⟩)

theorem get_apply (p : Pos) (m : Move) (s : Sq) : (apply p m).get s = cellOf p m s := by
  show Tab.get (Tab.ofFn _) s = _
  rw [Tab.get_ofFn]; rfl

theorem side_apply (p : Pos) (m : Move) : (apply p m).side = m.man.color.inv := rfl
theorem has_apply (p : Pos) (m : Move) (cc : Color) (s : Side) :
    (apply p m).rights.has cc s = keepsOf p m cc s := by
  show (RightsSet.ofFn _).has cc s = _
  rw [RightsSet.has_ofFn]; rfl
theorem ep_apply (p : Pos) (m : Move) :
    (apply p m).ep = if m.kind = .double then some m.dst else none := rfl
theorem half_apply (p : Pos) (m : Move) :
    (apply p m).half = if m.man.piece = .pawn ∨ (capturedSq p m).isSome then 0 else min (p.half + 1) 65535 := by
  simp only [apply]
theorem full_apply (p : Pos) (m : Move) :
    (apply p m).full = if m.man.color = .black then min (p.full + 1) 65535 else p.full := by
  simp only [apply]

/-- the same position with another full-move counter -/
def withFull (p : Pos) (n : Nat) : Pos := { p with full := n }

theorem get_withFull (p : Pos) (n : Nat) (s : Sq) : (withFull p n).get s = p.get s := rfl
theorem side_withFull (p : Pos) (n : Nat) : (withFull p n).side = p.side := rfl
theorem rights_withFull (p : Pos) (n : Nat) : (withFull p n).rights = p.rights := rfl
theorem ep_withFull (p : Pos) (n : Nat) : (withFull p n).ep = p.ep := rfl
theorem half_withFull (p : Pos) (n : Nat) : (withFull p n).half = p.half := by simp only [withFull]
theorem full_withFull (p : Pos) (n : Nat) : (withFull p n).full = n := by simp only [withFull]

namespace Sym
variable (S : Sym)

theorem sq_eq_sq_iff (a b : Sq) : S.sq a = S.sq b ↔ a = b := ⟨S.sq_inj, fun h => by rw [h]⟩

theorem beq_sq (a b : Sq) : (S.sq a == S.sq b) = (a == b) := by
  rw [Bool.eq_iff_iff, beq_iff_eq, beq_iff_eq]; exact S.sq_eq_sq_iff a b

theorem man_eq_man_iff (a b : Man) : S.man a = S.man b ↔ a = b :=
  ⟨fun h => by have := congrArg S.man h; rwa [S.man_man, S.man_man] at this, fun h => by rw [h]⟩

theorem beq_man (a b : Man) : (S.man a == S.man b) = (a == b) := by
  rw [Bool.eq_iff_iff, beq_iff_eq, beq_iff_eq]; exact S.man_eq_man_iff a b

theorem beq_get_mir (p : Pos) (s : Sq) (x : Man) :
    ((S.mir p).get (S.sq s) == some (S.man x)) = (p.get s == some x) := by
  rw [Bool.eq_iff_iff, beq_iff_eq, beq_iff_eq]; exact S.get_mir_eq_some p s x

theorem some_sq_eq_map (t : Sq) (o : Option Sq) : some (S.sq t) = o.map S.sq ↔ some t = o := by
  cases o with
  | none => simp only [Option.map_none]; constructor <;> intro h <;> cases h
  | some a => simp only [Option.map_some, Option.some.injEq]; exact S.sq_eq_sq_iff t a

theorem capturedSq_mir (p : Pos) (m : Move) :
    capturedSq (S.mir p) (S.mirMove m) = (capturedSq p m).map S.sq := by
  obtain ⟨k, x, src, dst⟩ := m
  cases k <;> simp only [capturedSq, mirMove, ep_mir, get_mir', Option.isSome_map] <;>
    (try rfl) <;> split <;> rfl

theorem rookHome_mir (hc : S.castleOK) (c : Color) (sd : Side) :
    rookHome (S.col c) sd = S.sq (rookHome c sd) := by
  cases sd <;> exact S.castle_sq hc _ c

theorem kingHome_mir (hc : S.castleOK) (c : Color) : kingHome (S.col c) = S.sq (kingHome c) :=
  S.castle_sq hc _ c

/-- hypothesis for `apply`: the symmetry respects castling, or there are no rights and the move is not castling -/
def ApplyHyp (p : Pos) (m : Move) : Prop :=
  S.castleOK ∨ (p.rights = RightsSet.none ∧ m.kind ≠ .castleK ∧ m.kind ≠ .castleQ)

theorem cellOf_mir {p : Pos} {m : Move} (hc : S.ApplyHyp p m) (t : Sq) :
    cellOf (S.mir p) (S.mirMove m) (S.sq t) = (cellOf p m t).map S.man := by
  have hK : ∀ f : Fin 8, (m.kind = .castleK ∧ S.sq t = sqOf f (homeRank (S.col m.man.color)))
      ↔ (m.kind = .castleK ∧ t = sqOf f (homeRank m.man.color)) := by
    intro f
    rcases hc with hc | ⟨_, h1, _⟩
    · rw [S.castle_sq hc, S.sq_eq_sq_iff]
    · constructor <;> intro h <;> exact absurd h.1 h1
  have hQ : ∀ f : Fin 8, (m.kind = .castleQ ∧ S.sq t = sqOf f (homeRank (S.col m.man.color)))
      ↔ (m.kind = .castleQ ∧ t = sqOf f (homeRank m.man.color)) := by
    intro f
    rcases hc with hc | ⟨_, _, h1⟩
    · rw [S.castle_sq hc, S.sq_eq_sq_iff]
    · constructor <;> intro h <;> exact absurd h.1 h1
  have hpl : (match m.kind.promote with
      | some pc => (⟨S.col m.man.color, pc⟩ : Man) | none => S.man m.man)
      = S.man (match m.kind.promote with | some pc => ⟨m.man.color, pc⟩ | none => m.man) := by
    cases m.kind.promote <;> rfl
  unfold cellOf
  simp only [capturedSq_mir, S.some_sq_eq_map]
  simp only [mirMove, man, S.sq_eq_sq_iff, hK, hQ, get_mir']
  simp only [man] at hpl
  simp only [apply_ite (Option.map S.man), Option.map_some, Option.map_none, hpl]
  rfl

theorem keepsOf_mir {p : Pos} {m : Move} (hc : S.ApplyHyp p m) (c : Color) (sd : Side) :
    keepsOf (S.mir p) (S.mirMove m) (S.col c) sd = keepsOf p m c sd := by
  rcases hc with hc | ⟨h, _, _⟩
  · have e1 : (S.mir p).rights.has (S.col c) sd = p.rights.has c sd := by rw [has_mir, S.col_col]
    have e2 : ∀ pc, ((S.mirMove m).man == (⟨S.col c, pc⟩ : Man)) = (m.man == ⟨c, pc⟩) :=
      fun pc => S.beq_man m.man ⟨c, pc⟩
    have e3 : ((S.mirMove m).src == rookHome (S.col c) sd) = (m.src == rookHome c sd) := by
      rw [S.rookHome_mir hc]; exact S.beq_sq _ _
    have e4 : ((S.mirMove m).dst == rookHome (S.col c) sd) = (m.dst == rookHome c sd) := by
      rw [S.rookHome_mir hc]; exact S.beq_sq _ _
    have e5 : ((S.mir p).get (S.mirMove m).dst == some ⟨S.col c, .rook⟩)
        = (p.get m.dst == some ⟨c, .rook⟩) := S.beq_get_mir p m.dst ⟨c, .rook⟩
    unfold keepsOf
    rw [e1, e2, e2, e3, e4, e5]
  · unfold keepsOf
    rw [S.rights_mir_none h, h, none_has, none_has]
    simp only [Bool.false_and]

/-- item 5 (corrected): making the mirrored move in the mirrored position gives the mirrored result,
except for the full-move counter: it advances after Black's moves, and the colour map may turn Black into
White. (For a colour-preserving symmetry the `withFull` is the identity, see `apply_mirrorH`.) -/
theorem apply_mir {p : Pos} {m : Move} (hc : S.ApplyHyp p m) :
    apply (S.mir p) (S.mirMove m)
      = withFull (S.mir (apply p m))
          (if S.col m.man.color = .black then min (p.full + 1) 65535 else p.full) := by
  apply pos_ext
  · intro s
    rw [get_apply, get_withFull, get_mir, get_apply, ← S.cellOf_mir hc, S.sq_sq]
  · rw [side_apply, side_withFull, side_mir, side_apply, S.col_inv]; rfl
  · apply rights_ext
    intro c sd
    rw [has_apply, rights_withFull, has_mir, has_apply, ← S.keepsOf_mir hc, S.col_col]
  · rw [ep_apply, ep_withFull, ep_mir, ep_apply]
    show (if m.kind = .double then some (S.sq m.dst) else none) = _
    split <;> rfl
  · rw [half_apply, half_withFull, S.half_mir (apply p m), half_apply, capturedSq_mir,
      Option.isSome_map, half_mir]
    rfl
  · rw [full_apply, full_withFull, full_mir]
    rfl

end Sym

/-! ### 6. legal moves -/

theorem promote_ne_king (k : Kind) : k.promote ≠ some .king := by cases k <;> decide

theorem cellOf_king {p : Pos} {m : Move} {s : Sq} {c : Color} (h : cellOf p m s = some ⟨c, .king⟩) :
    (s = m.dst ∧ m.man = ⟨c, .king⟩) ∨ (s ≠ m.dst ∧ s ≠ m.src ∧ p.get s = some ⟨c, .king⟩) := by
  unfold cellOf at h
  by_cases hd : s = m.dst
  · left
    refine ⟨hd, ?_⟩
    simp only [hd, if_true] at h
    have hp := promote_ne_king m.kind
    cases hk : m.kind.promote with
    | none => rw [hk] at h; simpa using h
    | some pc =>
      rw [hk] at h hp
      simp only [Option.some.injEq, Man.mk.injEq] at h
      exact absurd (by rw [h.2]) hp
  · right
    simp only [hd, if_false] at h
    by_cases hs : s = m.src
    · simp only [hs, if_true] at h; cases h
    · simp only [hs, if_false] at h
      refine ⟨hd, hs, ?_⟩
      repeat' split at h
      all_goals first
        | exact h
        | (simp only [Option.some.injEq, Man.mk.injEq, reduceCtorEq, and_false] at h)

/-- a move of a man standing on its source square cannot create a second king -/
theorem uniqueKing_apply {p : Pos} {m : Move} {c : Color} (hu : UniqueKing p c)
    (hsrc : p.get m.src = some m.man) : UniqueKing (apply p m) c := by
  intro s t hs ht
  rw [get_apply] at hs ht
  rcases cellOf_king hs with ⟨h1, h2⟩ | ⟨h1, h2, h3⟩ <;> rcases cellOf_king ht with ⟨k1, k2⟩ | ⟨k1, k2, k3⟩
  · rw [h1, k1]
  · rw [h2] at hsrc; exact absurd (hu _ _ k3 hsrc) k2
  · rw [k2] at hsrc; exact absurd (hu _ _ h3 hsrc) h2
  · exact hu _ _ h3 k3

/-- shape of the moves generated from square `s` for the man `x` -/
def Plain (m : Move) (s : Sq) (x : Man) : Prop :=
  m.src = s ∧ m.man = x ∧ m.kind ≠ .castleK ∧ m.kind ≠ .castleQ

theorem plain_pmk {c : Color} {s t : Sq} {m : Move} (h : m ∈ pmk c s .simple t) : Plain m s ⟨c, .pawn⟩ := by
  unfold pmk at h
  split at h
  · simp only [promKinds, List.map_cons, List.map_nil, List.mem_cons, List.not_mem_nil, or_false] at h
    rcases h with rfl | rfl | rfl | rfl <;> exact ⟨rfl, rfl, fun h => Kind.noConfusion h, fun h => Kind.noConfusion h⟩
  · simp only [List.mem_cons, List.not_mem_nil, or_false] at h
    subst h; exact ⟨rfl, rfl, fun h => Kind.noConfusion h, fun h => Kind.noConfusion h⟩

theorem plain_ppush {p : Pos} {c : Color} {s : Sq} {m : Move} (h : m ∈ ppush p s c) : Plain m s ⟨c, .pawn⟩ := by
  unfold ppush at h
  split at h
  · split at h
    · rw [List.mem_append] at h
      rcases h with h | h
      · exact plain_pmk h
      · split at h
        · split at h
          · split at h
            · simp only [List.mem_cons, List.not_mem_nil, or_false] at h
              subst h; exact ⟨rfl, rfl, fun h => Kind.noConfusion h, fun h => Kind.noConfusion h⟩
            · cases h
          · cases h
        · cases h
    · cases h
  · cases h

theorem plain_pcap {p : Pos} {c : Color} {s : Sq} {df : Int} {m : Move} (h : m ∈ pcap p s c df) :
    Plain m s ⟨c, .pawn⟩ := by
  unfold pcap at h
  split at h
  · split at h
    · split at h
      · exact plain_pmk h
      · cases h
    · split at h
      · split at h
        · simp only [List.mem_cons, List.not_mem_nil, or_false] at h
          subst h; exact ⟨rfl, rfl, fun h => Kind.noConfusion h, fun h => Kind.noConfusion h⟩
        · cases h
      · cases h
  · cases h

theorem plain_stepMove {p : Pos} {x : Man} {s : Sq} {d : Int × Int} {m : Move}
    (h : stepMove p x s d = some m) : Plain m s x := by
  unfold stepMove at h
  cases hs : step s d with
  | none => rw [hs] at h; cases h
  | some t =>
    rw [hs] at h
    simp only [Option.bind_some] at h
    split at h
    · simp only [Option.some.injEq] at h; subst h; exact ⟨rfl, rfl, fun h => Kind.noConfusion h, fun h => Kind.noConfusion h⟩
    · cases h

theorem plain_slideMove {p : Pos} {x : Man} {s t : Sq} {m : Move}
    (h : slideMove p x s t = some m) : Plain m s x := by
  unfold slideMove at h
  split at h
  · simp only [Option.some.injEq] at h; subst h; exact ⟨rfl, rfl, fun h => Kind.noConfusion h, fun h => Kind.noConfusion h⟩
  · cases h

theorem plain_pieceMoves {p : Pos} {s : Sq} {x : Man} {m : Move} (h : m ∈ pieceMoves p s x) : Plain m s x := by
  obtain ⟨c, pc⟩ := x
  cases pc
  · rw [pieceMoves_pawn, pawnMoves_eq, List.mem_append] at h
    rcases h with h | h
    · exact plain_ppush h
    · rw [List.mem_flatMap] at h
      obtain ⟨df, _, h⟩ := h
      exact plain_pcap h
  · rw [pieceMoves_king, List.mem_filterMap] at h
    obtain ⟨d, _, h⟩ := h; exact plain_stepMove h
  · rw [pieceMoves_knight, List.mem_filterMap] at h
    obtain ⟨d, _, h⟩ := h; exact plain_stepMove h
  · rw [pieceMoves_bishop, List.mem_filterMap] at h
    obtain ⟨d, _, h⟩ := h; exact plain_slideMove h
  · rw [pieceMoves_rook, List.mem_filterMap] at h
    obtain ⟨d, _, h⟩ := h; exact plain_slideMove h
  · rw [pieceMoves_queen, List.mem_filterMap] at h
    obtain ⟨d, _, h⟩ := h; exact plain_slideMove h

theorem src_fromSq {p : Pos} {s : Sq} {m : Move} (h : m ∈ fromSq p s) :
    p.get m.src = some m.man ∧ m.kind ≠ .castleK ∧ m.kind ≠ .castleQ := by
  unfold fromSq at h
  split at h
  · rename_i x hx
    split at h
    · cases h
    · obtain ⟨h1, h2, h3, h4⟩ := plain_pieceMoves h
      rw [h1, h2]; exact ⟨hx, h3, h4⟩
  · cases h

theorem mem_castleMoves {p : Pos} {c : Color} {m : Move} (h : m ∈ castleMoves p c) :
    m.src = kingHome c ∧ m.man = ⟨c, .king⟩ ∧ ∃ sd, p.rights.has c sd = true := by
  unfold castleMoves at h
  rw [List.mem_append] at h
  rcases h with h | h
  · split at h
    · rename_i hh
      simp only [List.mem_cons, List.not_mem_nil, or_false] at h
      subst h; exact ⟨rfl, rfl, .king, hh.1⟩
    · cases h
  · split at h
    · rename_i hh
      simp only [List.mem_cons, List.not_mem_nil, or_false] at h
      subst h; exact ⟨rfl, rfl, .queen, hh.1⟩
    · cases h

/-- a castling right of the side to move implies that its king stands on its home square
(true after `normalise`; the rules' `castleMoves` does not look at the king's square) -/
def KingHomeOK (p : Pos) : Prop :=
  ∀ sd, p.rights.has p.side sd = true → p.get (kingHome p.side) = some ⟨p.side, .king⟩

theorem src_pseudoMoves {p : Pos} (hk : KingHomeOK p) {m : Move} (h : m ∈ pseudoMoves p) :
    p.get m.src = some m.man := by
  rw [pseudoMoves_eq, List.mem_append] at h
  rcases h with h | h
  · rw [List.mem_flatMap] at h
    obtain ⟨s, _, h⟩ := h
    exact (src_fromSq h).1
  · obtain ⟨h1, h2, sd, h3⟩ := mem_castleMoves h
    rw [h1, h2]; exact hk sd h3

theorem not_castle_pseudoMoves {p : Pos} (hr : p.rights = RightsSet.none) {m : Move}
    (h : m ∈ pseudoMoves p) : m.kind ≠ .castleK ∧ m.kind ≠ .castleQ := by
  rw [pseudoMoves_eq, List.mem_append, castleMoves_nil hr] at h
  rcases h with h | h
  · rw [List.mem_flatMap] at h
    obtain ⟨s, _, h⟩ := h
    exact (src_fromSq h).2
  · cases h

theorem mem_legalMoves (p : Pos) (m : Move) :
    m ∈ legalMoves p ↔ m ∈ pseudoMoves p ∧ inCheck (apply p m) p.side = false := by
  simp only [legalMoves, List.mem_filter, Bool.not_eq_true']

theorem inCheck_withFull (q : Pos) (n : Nat) (c : Color) : inCheck (withFull q n) c = inCheck q c := rfl

namespace Sym
variable (S : Sym)

theorem applyHyp_of_pseudo {p : Pos} (hc : S.CastleHyp p) {m : Move} (h : m ∈ pseudoMoves p) :
    S.ApplyHyp p m := by
  rcases hc with hc | hc
  · exact Or.inl hc
  · exact Or.inr ⟨hc, not_castle_pseudoMoves hc h⟩

/-- item 6. Hypotheses: the side to move has at most one king (otherwise "the" king of `inCheck`, the first
in board order, is a different one after mirroring), and its castling rights are backed by a king on its home
square (otherwise castling creates a second king). -/
theorem mem_legalMoves_mir {p : Pos} (hc : S.CastleHyp p) (hu : UniqueKing p p.side) (hk : KingHomeOK p)
    (m : Move) : m ∈ legalMoves (S.mir p) ↔ S.mirMove m ∈ legalMoves p := by
  rw [mem_legalMoves, mem_legalMoves, S.mem_pseudoMoves_mir hc]
  apply and_congr_right
  intro hm
  have := S.apply_mir (S.applyHyp_of_pseudo hc hm)
  rw [S.mirMove_mirMove] at this
  rw [this, inCheck_withFull, side_mir, S.inCheck_mir (uniqueKing_apply hu (src_pseudoMoves hk hm))]

theorem legalMoves_isEmpty_mir {p : Pos} (hc : S.CastleHyp p) (hu : UniqueKing p p.side)
    (hk : KingHomeOK p) : (legalMoves (S.mir p)).isEmpty = (legalMoves p).isEmpty := by
  rw [Bool.eq_iff_iff, List.isEmpty_iff, List.isEmpty_iff, List.eq_nil_iff_forall_not_mem,
    List.eq_nil_iff_forall_not_mem]
  constructor
  · intro h m hm
    exact h (S.mirMove m) ((S.mem_legalMoves_mir hc hu hk _).2 (by rwa [S.mirMove_mirMove]))
  · intro h m hm
    exact h (S.mirMove m) ((S.mem_legalMoves_mir hc hu hk _).1 hm)

end Sym

/-! ### 7. validity, insufficient material, outcome -/

theorem get_normalise (p : Pos) (s : Sq) : (normalise p).get s = p.get s := rfl
theorem side_normalise (p : Pos) : (normalise p).side = p.side := rfl
theorem ep_normalise (p : Pos) : (normalise p).ep = epKept p := rfl
theorem has_normalise (p : Pos) (c : Color) (sd : Side) : (normalise p).rights.has c sd = rightKept p c sd := by
  show (RightsSet.ofFn _).has c sd = _
  rw [RightsSet.has_ofFn]
theorem half_normalise (p : Pos) : (normalise p).half = p.half := by simp only [normalise]
theorem full_normalise (p : Pos) : (normalise p).full = p.full := by simp only [normalise]
theorem kingSqs_normalise (p : Pos) (c : Color) : kingSqs (normalise p) c = kingSqs p c := rfl

theorem validRaw_iff (p : Pos) : ValidRaw p = true ↔
    ((∀ e, p.ep = some e → rank e = epRank p.side)
      ∧ (∀ c, (menOf p c).length ≤ 16) ∧ (∀ c, (kingSqs p c).length = 1)
      ∧ (∀ s, s ∈ pawnSqs p → rank s ≠ 0 ∧ rank s ≠ 7)
      ∧ inCheck (normalise p) p.side.inv = false) := by
  have hc : ∀ P : Color → Prop, (∀ c, P c) ↔ (P .white ∧ P .black) :=
    fun P => ⟨fun h => ⟨h _, h _⟩, fun h c => by cases c; exact h.1; exact h.2⟩
  unfold ValidRaw
  rw [hc (fun c => (menOf p c).length ≤ 16), hc (fun c => (kingSqs p c).length = 1)]
  cases p.ep with
  | none =>
    simp only [Bool.true_and, Bool.and_eq_true, decide_eq_true_eq, List.all_eq_true,
      Bool.not_eq_true', and_assoc, reduceCtorEq, false_imp_iff, implies_true, true_and,
      Bool.decide_and]
  | some e =>
    simp only [Bool.and_eq_true, decide_eq_true_eq, List.all_eq_true,
      Bool.not_eq_true', and_assoc, Option.some.injEq, forall_eq', Bool.decide_and]

def othersOf (p : Pos) : List Sq := allSq.filter fun s => (p.get s).any (·.piece != .king)

theorem insufficient_eq (p : Pos) : insufficient p =
    ((othersOf p).isEmpty
    || ((othersOf p).length = 1 && (othersOf p).all fun s => (p.get s).any (·.piece == .knight))
    || ((othersOf p).all (fun s => (p.get s).any (·.piece == .bishop))
        && ((othersOf p).all squareLight || (othersOf p).all (fun s => !squareLight s)))) := rfl

/-- how the colour map acts on outcomes: only the winner of a checkmate changes -/
def mapWinner (f : Color → Color) : Outcome → Outcome
  | .checkmate c => .checkmate (f c)
  | o => o

theorem drawSimple_map (p : Pos) (f : Color → Color) : (drawSimple p).map (mapWinner f) = drawSimple p := by
  unfold drawSimple
  split
  · rfl
  · split
    · rfl
    · split <;> rfl

namespace Sym
variable (S : Sym)

theorem length_filter_sq (g : Sq → Bool) :
    (allSq.filter (fun s => g (S.sq s))).length = (allSq.filter g).length := by
  have hperm : (allSq.map S.sq).Perm allSq := by
    apply (List.perm_ext_iff_of_nodup ?_ (List.nodup_finRange 64)).2
    · intro a
      simp only [allSq, List.mem_map, List.mem_finRange, true_and, iff_true]
      exact ⟨S.sq a, S.sq_sq a⟩
    · exact List.Pairwise.map S.sq (fun a b h e => h (S.sq_inj e)) (List.nodup_finRange 64)
  have := (hperm.filter g).length_eq
  rw [List.filter_map, List.length_map] at this
  exact this

theorem length_filter_congr (f' g : Sq → Bool) (h : ∀ s, f' (S.sq s) = g s) :
    (allSq.filter f').length = (allSq.filter g).length := by
  have : f' = fun s => g (S.sq s) := funext fun s => by rw [← h, S.sq_sq]
  rw [this, length_filter_sq]

theorem mem_filter_congr (f' g : Sq → Bool) (h : ∀ s, f' (S.sq s) = g s) (s : Sq) :
    S.sq s ∈ allSq.filter f' ↔ s ∈ allSq.filter g := by
  simp only [allSq, List.mem_filter, List.mem_finRange, true_and, h]

theorem all_filter_congr (f' g h' k : Sq → Bool) (hf : ∀ s, f' (S.sq s) = g s)
    (hh : ∀ s, h' (S.sq s) = k s) : (allSq.filter f').all h' = (allSq.filter g).all k := by
  rw [Bool.eq_iff_iff, List.all_eq_true, List.all_eq_true]
  constructor
  · intro H s hs
    rw [← hh]; exact H _ ((S.mem_filter_congr f' g hf s).2 hs)
  · intro H s hs
    rw [← S.sq_sq s, hh]
    apply H
    rw [← S.sq_sq s] at hs
    exact (S.mem_filter_congr f' g hf _).1 hs

theorem isEmpty_filter_congr (f' g : Sq → Bool) (h : ∀ s, f' (S.sq s) = g s) :
    (allSq.filter f').isEmpty = (allSq.filter g).isEmpty := by
  have := S.length_filter_congr f' g h
  cases h1 : allSq.filter f' <;> cases h2 : allSq.filter g <;> rw [h1, h2] at this <;>
    simp only [List.length_nil, List.length_cons] at this <;> first | rfl | omega

theorem any_piece_mir (p : Pos) (s : Sq) (f : Piece → Bool) :
    ((S.mir p).get (S.sq s)).any (fun x => f x.piece) = (p.get s).any (fun x => f x.piece) := by
  rw [get_mir', Option.any_map]
  rfl

theorem length_menOf_mir (p : Pos) (c : Color) : (menOf (S.mir p) (S.col c)).length = (menOf p c).length :=
  S.length_filter_congr _ _ fun s => S.any_color_mir p s c

theorem length_kingSqs_mir (p : Pos) (c : Color) :
    (kingSqs (S.mir p) (S.col c)).length = (kingSqs p c).length :=
  S.length_filter_congr _ _ fun s => S.beq_get_mir p s ⟨c, .king⟩

theorem mem_pawnSqs_mir (p : Pos) (s : Sq) : S.sq s ∈ pawnSqs (S.mir p) ↔ s ∈ pawnSqs p := by
  simp only [pawnSqs, allSq, List.mem_filter, List.mem_finRange, true_and, get_mir', Option.any_map, man]

theorem rightKept_mir {p : Pos} (hc : S.CastleHyp p) (c : Color) (sd : Side) :
    rightKept (S.mir p) (S.col c) sd = rightKept p c sd := by
  unfold rightKept
  rcases hc with hc | hc
  · rw [has_mir, S.col_col, S.kingHome_mir hc, S.rookHome_mir hc]
    have e1 := S.beq_get_mir p (kingHome c) ⟨c, .king⟩
    have e2 := S.beq_get_mir p (rookHome c sd) ⟨c, .rook⟩
    simp only [man] at e1 e2
    rw [e1, e2]
  · rw [S.rights_mir_none hc, hc, none_has, none_has]
    simp only [Bool.false_and]

theorem epKept_mir (p : Pos) : epKept (S.mir p) = (epKept p).map S.sq := by
  unfold epKept
  rw [ep_mir]
  cases p.ep with
  | none => rfl
  | some e =>
    have h1 := S.get_mir_eq_some p e ⟨p.side.inv, .pawn⟩
    have h2 : (step (S.sq e) (0, forward (S.col p.side))).any (fun t => ((S.mir p).get t).isNone)
        = (step e (0, forward p.side)).any (fun t => (p.get t).isNone) := by
      rw [step0, Option.any_map]
      simp only [get_mir', Option.isNone_map]
    simp only [Option.map_some, side_mir, ← S.col_inv]
    simp only [man] at h1
    simp only [h1, h2]
    split <;> rfl

theorem normalise_mir {p : Pos} (hc : S.CastleHyp p) : normalise (S.mir p) = S.mir (normalise p) := by
  apply pos_ext
  · intro s
    rw [get_normalise, get_mir, get_mir, get_normalise]
  · rfl
  · apply rights_ext
    intro c sd
    rw [has_normalise, has_mir, has_normalise, ← S.rightKept_mir hc, S.col_col]
  · rw [ep_normalise, ep_mir, ep_normalise, epKept_mir]
  · rw [half_normalise, half_mir, half_mir, half_normalise]
  · rw [full_normalise, full_mir, full_mir, full_normalise]

theorem validRaw_mir_of {p : Pos} (hc : S.CastleHyp p) (h : ValidRaw p = true) : ValidRaw (S.mir p) = true := by
  rw [validRaw_iff] at h ⊢
  obtain ⟨h1, h2, h3, h4, h5⟩ := h
  refine ⟨?_, ?_, ?_, ?_, ?_⟩
  · intro e he
    rw [ep_mir, Option.map_eq_some_iff] at he
    obtain ⟨a, ha, rfl⟩ := he
    have := h1 a ha
    rw [side_mir, epRank, ← S.col_inv, S.dbl]; exact this
  · intro c
    have := S.length_menOf_mir p (S.col c)
    rw [S.col_col] at this; rw [this]; exact h2 _
  · intro c
    have := S.length_kingSqs_mir p (S.col c)
    rw [S.col_col] at this; rw [this]; exact h3 _
  · intro s hs
    rw [← S.sq_sq s] at hs ⊢
    rw [S.mem_pawnSqs_mir] at hs
    rw [S.edge]; exact h4 _ hs
  · rw [S.normalise_mir hc, side_mir, ← S.col_inv, S.inCheck_mir]
    · exact h5
    · apply uniqueKing_of_length_le
      rw [kingSqs_normalise, h3]
      exact Nat.le_refl 1

/-- item 7a -/
theorem validRaw_mir {p : Pos} (hc : S.CastleHyp p) : ValidRaw (S.mir p) = ValidRaw p := by
  rw [Bool.eq_iff_iff]
  constructor
  · intro h
    have := S.validRaw_mir_of (S.castleHyp_mir hc) h
    rwa [S.mir_mir] at this
  · exact S.validRaw_mir_of hc

theorem othersOf_congr (p : Pos) (s : Sq) :
    ((S.mir p).get (S.sq s)).any (fun x => x.piece != .king) = (p.get s).any (fun x => x.piece != .king) :=
  S.any_piece_mir p s (· != .king)

/-- item 7b -/
theorem insufficient_mir (p : Pos) : insufficient (S.mir p) = insufficient p := by
  rw [insufficient_eq, insufficient_eq]
  have e1 : (othersOf (S.mir p)).isEmpty = (othersOf p).isEmpty :=
    S.isEmpty_filter_congr _ _ (S.othersOf_congr p)
  have e2 : (othersOf (S.mir p)).length = (othersOf p).length :=
    S.length_filter_congr _ _ (S.othersOf_congr p)
  have e3 : ((othersOf (S.mir p)).all fun s => ((S.mir p).get s).any (·.piece == .knight))
      = ((othersOf p).all fun s => (p.get s).any (·.piece == .knight)) :=
    S.all_filter_congr _ _ _ _ (S.othersOf_congr p) (fun s => S.any_piece_mir p s (· == .knight))
  have e4 : ((othersOf (S.mir p)).all fun s => ((S.mir p).get s).any (·.piece == .bishop))
      = ((othersOf p).all fun s => (p.get s).any (·.piece == .bishop)) :=
    S.all_filter_congr _ _ _ _ (S.othersOf_congr p) (fun s => S.any_piece_mir p s (· == .bishop))
  have e5 : (othersOf (S.mir p)).all squareLight = (othersOf p).all (fun s => !squareLight s) :=
    S.all_filter_congr _ _ _ _ (S.othersOf_congr p) S.light
  have e6 : (othersOf (S.mir p)).all (fun s => !squareLight s) = (othersOf p).all squareLight :=
    S.all_filter_congr _ _ _ _ (S.othersOf_congr p) (fun s => by rw [S.light, Bool.not_not])
  rw [e1, e2, e3, e4, e5, e6, Bool.or_comm ((othersOf p).all fun s => !squareLight s)]

theorem drawSimple_mir (p : Pos) : drawSimple (S.mir p) = drawSimple p := by
  unfold drawSimple
  rw [insufficient_mir, half_mir]

/-- item 7c -/
theorem outcome_mir {p : Pos} (hc : S.CastleHyp p) (hu : UniqueKing p p.side) (hk : KingHomeOK p) :
    outcome (S.mir p) = (outcome p).map (mapWinner S.col) := by
  unfold outcome
  rw [S.legalMoves_isEmpty_mir hc hu hk, side_mir, S.inCheck_mir hu, drawSimple_mir, ← S.col_inv]
  split
  · split <;> rfl
  · rw [drawSimple_map]

end Sym

/-! ## The two concrete symmetries -/

theorem rank_lt (s : Sq) : rank s < 8 := by unfold rank; have := s.isLt; omega
theorem file_lt (s : Sq) : file s < 8 := by unfold file; omega

theorem file_flipRank : ∀ s : Sq, file s.flipRank = file s := by decide
theorem rank_flipRank : ∀ s : Sq, rank s.flipRank = 7 - rank s := by decide
theorem flipRank_flipRank : ∀ s : Sq, s.flipRank.flipRank = s := by decide
theorem file_flipFile : ∀ s : Sq, file s.flipFile = 7 - file s := by decide
theorem rank_flipFile : ∀ s : Sq, rank s.flipFile = rank s := by decide
theorem flipFile_flipFile : ∀ s : Sq, s.flipFile.flipFile = s := by decide

/-- item 2, the basic fact: a step commutes with the top-to-bottom mirror when the direction's rank
component is negated -/
theorem step_flipRank (s : Sq) (d : Int × Int) :
    step s.flipRank (d.1, -d.2) = (step s d).map Sq.flipRank := by
  apply opt_ext
  intro t
  rw [step_eq_some, Option.map_eq_some_iff]
  have hf1 := file_flipRank s; have hr1 := rank_flipRank s; have := rank_lt s; have := rank_lt t
  constructor
  · intro ⟨h1, h2⟩
    refine ⟨t.flipRank, (step_eq_some _ _ _).2 ⟨?_, ?_⟩, flipRank_flipRank t⟩
    · have := file_flipRank t; simp only at h1; omega
    · have := rank_flipRank t; simp only at h2; omega
  · rintro ⟨a, ha, rfl⟩
    rw [step_eq_some] at ha
    have := file_flipRank a; have := rank_flipRank a; have := rank_lt a
    simp only; omega

theorem step_flipFile (s : Sq) (d : Int × Int) :
    step s.flipFile (-d.1, d.2) = (step s d).map Sq.flipFile := by
  apply opt_ext
  intro t
  rw [step_eq_some, Option.map_eq_some_iff]
  have hf1 := file_flipFile s; have hr1 := rank_flipFile s; have := file_lt s; have := file_lt t
  constructor
  · intro ⟨h1, h2⟩
    refine ⟨t.flipFile, (step_eq_some _ _ _).2 ⟨?_, ?_⟩, flipFile_flipFile t⟩
    · have := file_flipFile t; simp only at h1; omega
    · have := rank_flipFile t; simp only at h2; omega
  · rintro ⟨a, ha, rfl⟩
    rw [step_eq_some] at ha
    have := file_flipFile a; have := rank_flipFile a; have := file_lt a
    simp only; omega

/-- top-to-bottom mirror with colour swap -/
def symV : Sym where
  sq := Sq.flipRank
  dir := fun d => (d.1, -d.2)
  col := Color.inv
  dirf := fun x => x
  castleOK := True
  sq_sq := flipRank_flipRank
  col_col := Color.inv_inv
  col_inv := fun _ => rfl
  dir_dir := fun d => by cases d; simp only [Int.neg_neg]
  step_sq := step_flipRank
  knight := by decide
  king := by decide
  rook := by decide
  bishop := by decide
  pawn_dir := fun c df => by cases c <;> rfl
  dirf_zero := rfl
  dirf_dirf := fun _ => rfl
  dirf_mem := fun _ h => h
  promo := fun t c => by cases c <;> revert t <;> decide
  start := fun t c => by cases c <;> revert t <;> decide
  dbl := fun t c => by cases c <;> revert t <;> decide
  rank_eq := fun a b => by
    rw [rank_flipRank, rank_flipRank]; have := rank_lt a; have := rank_lt b; omega
  edge := by decide
  light := by decide
  castle_sq := fun _ f c => by cases c <;> revert f <;> decide

/-- left-to-right mirror, colours kept -/
def symH : Sym where
  sq := Sq.flipFile
  dir := fun d => (-d.1, d.2)
  col := fun c => c
  dirf := fun x => -x
  castleOK := False
  sq_sq := flipFile_flipFile
  col_col := fun _ => rfl
  col_inv := fun _ => rfl
  dir_dir := fun d => by cases d; simp only [Int.neg_neg]
  step_sq := step_flipFile
  knight := by decide
  king := by decide
  rook := by decide
  bishop := by decide
  pawn_dir := fun _ _ => rfl
  dirf_zero := rfl
  dirf_dirf := fun x => Int.neg_neg x
  dirf_mem := fun x h => by
    simp only [List.mem_cons, List.not_mem_nil, or_false] at h ⊢
    rcases h with rfl | rfl
    · right; rfl
    · left; rfl
  promo := fun t c => by rw [rank_flipFile]
  start := fun t c => by rw [rank_flipFile]
  dbl := fun t c => by rw [rank_flipFile]
  rank_eq := fun a b => by rw [rank_flipFile, rank_flipFile]
  edge := fun s => by rw [rank_flipFile]
  light := by decide
  castle_sq := fun h => h.elim

namespace Sym
variable (S : Sym)
theorem mem_attackers_mir (p : Pos) (s t : Sq) (c : Color) :
    S.sq s ∈ attackers (S.mir p) (S.sq t) (S.col c) ↔ s ∈ attackers p t c := by
  rw [mem_attackers, mem_attackers, S.any_color_mir, S.attacks_mir]
end Sym

/-! ## C18, top-to-bottom mirror with colour swap -/

def mirrorSqV (s : Sq) : Sq := s.flipRank
def mirrorManV (m : Man) : Man := ⟨m.color.inv, m.piece⟩
/-- mirror top-to-bottom and swap the colours of the men, the side to move, the castling rights
(White's ↔ Black's, king side stays king side) and the en-passant mark; counters kept -/
def mirrorV (p : Pos) : Pos :=
  { board := Tab.ofFn fun s => (p.get (mirrorSqV s)).map mirrorManV
    side := p.side.inv
    rights := ⟨p.rights.bk, p.rights.bq, p.rights.wk, p.rights.wq⟩
    ep := p.ep.map mirrorSqV
    half := p.half
    full := p.full }
def mirrorMoveV (m : Move) : Move := ⟨m.kind, mirrorManV m.man, mirrorSqV m.src, mirrorSqV m.dst⟩
/-- direction of a step after the top-to-bottom mirror -/
def mirrorDirV (d : Int × Int) : Int × Int := (d.1, -d.2)

def swapWinner : Outcome → Outcome
  | .checkmate c => .checkmate c.inv
  | o => o

theorem mirrorV_eq (p : Pos) : mirrorV p = symV.mir p := rfl
theorem mirrorMoveV_eq (m : Move) : mirrorMoveV m = symV.mirMove m := rfl
theorem swapWinner_eq : swapWinner = mapWinner Color.inv := by
  funext o; cases o <;> rfl

/-- `mirrorSqV` maps rank index `r` to `7 - r` and keeps the file -/
theorem mirrorSqV_file_rank (s : Sq) : file (mirrorSqV s) = file s ∧ rank (mirrorSqV s) = 7 - rank s :=
  ⟨file_flipRank s, rank_flipRank s⟩

/-! ### item 1 -/
theorem mirrorV_mirrorV (p : Pos) : mirrorV (mirrorV p) = p := symV.mir_mir p
theorem mirrorMoveV_mirrorMoveV (m : Move) : mirrorMoveV (mirrorMoveV m) = m := symV.mirMove_mirMove m
theorem mirrorSqV_mirrorSqV (s : Sq) : mirrorSqV (mirrorSqV s) = s := flipRank_flipRank s

/-! ### item 2 -/
theorem step_mirrorV (s : Sq) (d : Int × Int) :
    step (mirrorSqV s) (d.1, -d.2) = (step s d).map mirrorSqV := step_flipRank s d
theorem ray_mirrorV (d : Int × Int) (n : Nat) (s : Sq) :
    ray (mirrorDirV d) n (mirrorSqV s) = (ray d n s).map mirrorSqV := symV.ray_sq d n s
theorem reach_mirrorV (p : Pos) (l : List Sq) :
    reach (mirrorV p).occ (l.map mirrorSqV) = (reach p.occ l).map mirrorSqV := symV.reach_sq p l
/-- the direction sets of the rules are closed under the flip (as sets; the list order changes) -/
theorem dirs_closed_V :
    (∀ d, d ∈ knightSteps → mirrorDirV d ∈ knightSteps) ∧ (∀ d, d ∈ kingSteps → mirrorDirV d ∈ kingSteps)
    ∧ (∀ d, d ∈ rookDirs → mirrorDirV d ∈ rookDirs) ∧ (∀ d, d ∈ bishopDirs → mirrorDirV d ∈ bishopDirs) :=
  ⟨symV.knight, symV.king, symV.rook, symV.bishop⟩
/-- sliding commutes with the mirror for every direction set closed under the flip -/
theorem mem_slide_mirrorV (dirs : List (Int × Int)) (hd : ∀ d, d ∈ dirs → mirrorDirV d ∈ dirs)
    (p : Pos) (s t : Sq) :
    t ∈ slide dirs (mirrorV p).occ (mirrorSqV s) ↔ mirrorSqV t ∈ slide dirs p.occ s :=
  symV.mem_slide dirs hd p s t
theorem mem_slide_dirsOf_mirrorV (pc : Piece) (p : Pos) (s t : Sq) :
    t ∈ slide (dirsOf pc) (mirrorV p).occ (mirrorSqV s) ↔ mirrorSqV t ∈ slide (dirsOf pc) p.occ s :=
  symV.mem_slide _ (symV.closed_dirsOf pc) p s t

/-! ### item 3 -/
theorem get_mirrorV (p : Pos) (s : Sq) : (mirrorV p).get s = (p.get (mirrorSqV s)).map mirrorManV :=
  symV.get_mir p s
theorem attacks_mirrorV (p : Pos) (s t : Sq) :
    attacks (mirrorV p) (mirrorSqV s) (mirrorSqV t) = attacks p s t := symV.attacks_mir p s t
theorem mem_attackers_mirrorV (p : Pos) (s t : Sq) (c : Color) :
    mirrorSqV s ∈ attackers (mirrorV p) (mirrorSqV t) c.inv ↔ s ∈ attackers p t c :=
  symV.mem_attackers_mir p s t c
theorem attackedBy_mirrorV (p : Pos) (t : Sq) (c : Color) :
    attackedBy (mirrorV p) (mirrorSqV t) c.inv = attackedBy p t c := symV.attackedBy_mir p t c
/-- Hypothesis `(kingSqs p c).length ≤ 1`: `kingSq` is the FIRST king in board order, which is another
king after mirroring when there are several (see NOTES.md for a counterexample). -/
theorem inCheck_mirrorV {p : Pos} {c : Color} (h : (kingSqs p c).length ≤ 1) :
    inCheck (mirrorV p) c.inv = inCheck p c := symV.inCheck_mir (uniqueKing_of_length_le h)
theorem length_kingSqs_mirrorV (p : Pos) (c : Color) :
    (kingSqs (mirrorV p) c.inv).length = (kingSqs p c).length := symV.length_kingSqs_mir p c

/-! ### item 4 -/
theorem mem_pseudoMoves_mirrorV (p : Pos) (m : Move) :
    m ∈ pseudoMoves (mirrorV p) ↔ mirrorMoveV m ∈ pseudoMoves p :=
  symV.mem_pseudoMoves_mir (Or.inl trivial) m

/-! ### item 5 (corrected, see NOTES.md): the full-move counter is NOT mirrored -/
theorem apply_mirrorV (p : Pos) (m : Move) :
    apply (mirrorV p) (mirrorMoveV m)
      = { mirrorV (apply p m) with
          full := if m.man.color = .white then min (p.full + 1) 65535 else p.full } := by
  have := symV.apply_mir (p := p) (m := m) (Or.inl trivial)
  have e : (if symV.col m.man.color = .black then min (p.full + 1) 65535 else p.full)
      = (if m.man.color = .white then min (p.full + 1) 65535 else p.full) := by
    show (if m.man.color.inv = .black then _ else _) = _
    cases m.man.color <;> rfl
  rw [e] at this
  exact this

/-- all fields except `full` commute -/
theorem apply_mirrorV_fields (p : Pos) (m : Move) :
    (apply (mirrorV p) (mirrorMoveV m)).board = (mirrorV (apply p m)).board
    ∧ (apply (mirrorV p) (mirrorMoveV m)).side = (mirrorV (apply p m)).side
    ∧ (apply (mirrorV p) (mirrorMoveV m)).rights = (mirrorV (apply p m)).rights
    ∧ (apply (mirrorV p) (mirrorMoveV m)).ep = (mirrorV (apply p m)).ep
    ∧ (apply (mirrorV p) (mirrorMoveV m)).half = (mirrorV (apply p m)).half := by
  rw [apply_mirrorV]
  exact ⟨rfl, rfl, rfl, rfl, rfl⟩

/-- the uncorrected statement of item 5 fails (on the `full` field) -/
theorem apply_mirrorV_counterexample :
    ∃ p m, apply (mirrorV p) (mirrorMoveV m) ≠ mirrorV (apply p m) := by
  refine ⟨⟨Tab.ofFn fun _ => none, .white, RightsSet.none, none, 0, 1⟩,
    ⟨.simple, ⟨.white, .king⟩, 60, 52⟩, fun h => ?_⟩
  have := congrArg Pos.full h
  rw [mirrorV_eq, mirrorV_eq, mirrorMoveV_eq, full_apply, Sym.full_mir, Sym.full_mir, full_apply] at this
  revert this
  decide

/-! ### item 6 -/
/-- Hypotheses (both hold for normalised valid positions, see `C18_V`): the side to move has at most one
king, and its castling rights are backed by a king on the home square. Without them the statement is
false: `inCheck` looks at the first king in board order, and `castleMoves` puts a king on g1/c1
without checking that there is one on e1. -/
theorem mem_legalMoves_mirrorV {p : Pos} (hu : (kingSqs p p.side).length ≤ 1) (hk : KingHomeOK p)
    (m : Move) : m ∈ legalMoves (mirrorV p) ↔ mirrorMoveV m ∈ legalMoves p :=
  symV.mem_legalMoves_mir (Or.inl trivial) (uniqueKing_of_length_le hu) hk m
theorem legalMoves_isEmpty_mirrorV {p : Pos} (hu : (kingSqs p p.side).length ≤ 1) (hk : KingHomeOK p) :
    (legalMoves (mirrorV p)).isEmpty = (legalMoves p).isEmpty :=
  symV.legalMoves_isEmpty_mir (Or.inl trivial) (uniqueKing_of_length_le hu) hk

/-! ### item 7 -/
theorem normalise_mirrorV (p : Pos) : normalise (mirrorV p) = mirrorV (normalise p) :=
  symV.normalise_mir (Or.inl trivial)
theorem validRaw_mirrorV (p : Pos) : ValidRaw (mirrorV p) = ValidRaw p :=
  symV.validRaw_mir (Or.inl trivial)
theorem insufficient_mirrorV (p : Pos) : insufficient (mirrorV p) = insufficient p :=
  symV.insufficient_mir p
theorem drawSimple_mirrorV (p : Pos) : drawSimple (mirrorV p) = drawSimple p := symV.drawSimple_mir p
/-- same hypotheses as `mem_legalMoves_mirrorV` -/
theorem outcome_mirrorV {p : Pos} (hu : (kingSqs p p.side).length ≤ 1) (hk : KingHomeOK p) :
    outcome (mirrorV p) = (outcome p).map swapWinner := by
  rw [swapWinner_eq]
  exact symV.outcome_mir (Or.inl trivial) (uniqueKing_of_length_le hu) hk

/-! ### valid positions -/

theorem kingHomeOK_normalise (p : Pos) : KingHomeOK (normalise p) := by
  intro sd h
  rw [has_normalise, side_normalise] at h
  rw [get_normalise, side_normalise]
  unfold rightKept at h
  simp only [Bool.and_eq_true, beq_iff_eq] at h
  exact h.1.2

theorem length_kingSqs_of_valid {p : Pos} (h : ValidRaw p = true) (c : Color) : (kingSqs p c).length = 1 :=
  ((validRaw_iff p).1 h).2.2.1 c

/-- C18 for the top-to-bottom mirror: for a valid raw position `p` the mirror image is valid, mirroring
commutes with normalisation, and for the normalised position `q` the legal moves of the mirror image are
exactly the mirror images of the legal moves, check is preserved and the outcome is the same with the
winner swapped. -/
theorem C18_V {p : Pos} (hv : ValidRaw p = true) :
    ValidRaw (mirrorV p) = true
    ∧ normalise (mirrorV p) = mirrorV (normalise p)
    ∧ (∀ m, m ∈ legalMoves (mirrorV (normalise p)) ↔ mirrorMoveV m ∈ legalMoves (normalise p))
    ∧ (∀ c, inCheck (mirrorV (normalise p)) c.inv = inCheck (normalise p) c)
    ∧ (legalMoves (mirrorV (normalise p))).isEmpty = (legalMoves (normalise p)).isEmpty
    ∧ insufficient (mirrorV (normalise p)) = insufficient (normalise p)
    ∧ outcome (mirrorV (normalise p)) = (outcome (normalise p)).map swapWinner := by
  have hu : ∀ c, (kingSqs (normalise p) c).length ≤ 1 := fun c => by
    rw [kingSqs_normalise, length_kingSqs_of_valid hv c]; exact Nat.le_refl 1
  have hk := kingHomeOK_normalise p
  exact ⟨by rw [validRaw_mirrorV, hv], normalise_mirrorV p, mem_legalMoves_mirrorV (hu _) hk,
    fun c => inCheck_mirrorV (hu c), legalMoves_isEmpty_mirrorV (hu _) hk, insufficient_mirrorV _,
    outcome_mirrorV (hu _) hk⟩

/-! ## C18, left-to-right mirror (positions without castling rights) -/

def mirrorSqH (s : Sq) : Sq := s.flipFile
/-- mirror left-to-right; colours, side to move, counters kept; the rights are kept as they are
(every theorem below assumes that there are none) -/
def mirrorH (p : Pos) : Pos :=
  { board := Tab.ofFn fun s => p.get (mirrorSqH s)
    side := p.side
    rights := p.rights
    ep := p.ep.map mirrorSqH
    half := p.half
    full := p.full }
def mirrorMoveH (m : Move) : Move := ⟨m.kind, m.man, mirrorSqH m.src, mirrorSqH m.dst⟩
def mirrorDirH (d : Int × Int) : Int × Int := (-d.1, d.2)

theorem symH_man (m : Man) : symH.man m = m := rfl
theorem mirrorH_eq (p : Pos) : mirrorH p = symH.mir p := by
  apply Sym.pos_ext
  · intro s
    rw [Sym.get_mir]
    show Tab.get (Tab.ofFn _) s = _
    rw [Tab.get_ofFn]
    show p.get (symH.sq s) = _
    cases p.get (symH.sq s) <;> rfl
  · simp only [mirrorH, Sym.side_mir]; rfl
  · apply Sym.rights_ext; intro c sd; rw [Sym.has_mir]; simp only [mirrorH]; rfl
  · simp only [mirrorH, Sym.ep_mir]; rfl
  · rw [Sym.half_mir]; simp only [mirrorH]
  · rw [Sym.full_mir]; simp only [mirrorH]
theorem mirrorMoveH_eq (m : Move) : mirrorMoveH m = symH.mirMove m := rfl

theorem mirrorSqH_file_rank (s : Sq) : file (mirrorSqH s) = 7 - file s ∧ rank (mirrorSqH s) = rank s :=
  ⟨file_flipFile s, rank_flipFile s⟩

/-! ### item 1 -/
theorem mirrorH_mirrorH (p : Pos) : mirrorH (mirrorH p) = p := by
  rw [mirrorH_eq, mirrorH_eq]; exact symH.mir_mir p
theorem mirrorMoveH_mirrorMoveH (m : Move) : mirrorMoveH (mirrorMoveH m) = m := symH.mirMove_mirMove m
theorem mirrorSqH_mirrorSqH (s : Sq) : mirrorSqH (mirrorSqH s) = s := flipFile_flipFile s

/-! ### item 2 -/
theorem step_mirrorH (s : Sq) (d : Int × Int) :
    step (mirrorSqH s) (-d.1, d.2) = (step s d).map mirrorSqH := step_flipFile s d
theorem ray_mirrorH (d : Int × Int) (n : Nat) (s : Sq) :
    ray (mirrorDirH d) n (mirrorSqH s) = (ray d n s).map mirrorSqH := symH.ray_sq d n s
theorem reach_mirrorH (p : Pos) (l : List Sq) :
    reach (mirrorH p).occ (l.map mirrorSqH) = (reach p.occ l).map mirrorSqH := by
  rw [mirrorH_eq]; exact symH.reach_sq p l
theorem dirs_closed_H :
    (∀ d, d ∈ knightSteps → mirrorDirH d ∈ knightSteps) ∧ (∀ d, d ∈ kingSteps → mirrorDirH d ∈ kingSteps)
    ∧ (∀ d, d ∈ rookDirs → mirrorDirH d ∈ rookDirs) ∧ (∀ d, d ∈ bishopDirs → mirrorDirH d ∈ bishopDirs) :=
  ⟨symH.knight, symH.king, symH.rook, symH.bishop⟩
theorem mem_slide_mirrorH (dirs : List (Int × Int)) (hd : ∀ d, d ∈ dirs → mirrorDirH d ∈ dirs)
    (p : Pos) (s t : Sq) :
    t ∈ slide dirs (mirrorH p).occ (mirrorSqH s) ↔ mirrorSqH t ∈ slide dirs p.occ s := by
  rw [mirrorH_eq]; exact symH.mem_slide dirs hd p s t
theorem mem_slide_dirsOf_mirrorH (pc : Piece) (p : Pos) (s t : Sq) :
    t ∈ slide (dirsOf pc) (mirrorH p).occ (mirrorSqH s) ↔ mirrorSqH t ∈ slide (dirsOf pc) p.occ s := by
  rw [mirrorH_eq]; exact symH.mem_slide _ (symH.closed_dirsOf pc) p s t

/-! ### item 3 (no hypothesis on the rights needed) -/
theorem get_mirrorH (p : Pos) (s : Sq) : (mirrorH p).get s = p.get (mirrorSqH s) := by
  show Tab.get (Tab.ofFn _) s = _
  rw [Tab.get_ofFn]
theorem attacks_mirrorH (p : Pos) (s t : Sq) :
    attacks (mirrorH p) (mirrorSqH s) (mirrorSqH t) = attacks p s t := by
  rw [mirrorH_eq]; exact symH.attacks_mir p s t
theorem attackedBy_mirrorH (p : Pos) (t : Sq) (c : Color) :
    attackedBy (mirrorH p) (mirrorSqH t) c = attackedBy p t c := by
  rw [mirrorH_eq]; exact symH.attackedBy_mir p t c
theorem inCheck_mirrorH {p : Pos} {c : Color} (h : (kingSqs p c).length ≤ 1) :
    inCheck (mirrorH p) c = inCheck p c := by
  rw [mirrorH_eq]; exact symH.inCheck_mir (uniqueKing_of_length_le h)
theorem length_kingSqs_mirrorH (p : Pos) (c : Color) :
    (kingSqs (mirrorH p) c).length = (kingSqs p c).length := by
  rw [mirrorH_eq]; exact symH.length_kingSqs_mir p c

/-! ### item 4 -/
theorem mem_pseudoMoves_mirrorH {p : Pos} (hr : p.rights = RightsSet.none) (m : Move) :
    m ∈ pseudoMoves (mirrorH p) ↔ mirrorMoveH m ∈ pseudoMoves p := by
  rw [mirrorH_eq]; exact symH.mem_pseudoMoves_mir (Or.inr hr) m
/-- castling moves do not occur without rights -/
theorem not_castle_of_no_rights {p : Pos} (hr : p.rights = RightsSet.none) {m : Move}
    (h : m ∈ pseudoMoves p) : m.kind ≠ .castleK ∧ m.kind ≠ .castleQ := not_castle_pseudoMoves hr h

/-! ### item 5 (here the full-move counter commutes as well) -/
theorem withFull_self {q : Pos} {n : Nat} (h : q.full = n) : withFull q n = q := by
  subst h; rfl

theorem apply_mirrorH {p : Pos} (hr : p.rights = RightsSet.none) {m : Move}
    (hK : m.kind ≠ .castleK) (hQ : m.kind ≠ .castleQ) :
    apply (mirrorH p) (mirrorMoveH m) = mirrorH (apply p m) := by
  rw [mirrorH_eq, mirrorH_eq, mirrorMoveH_eq]
  have := symH.apply_mir (p := p) (m := m) (Or.inr ⟨hr, hK, hQ⟩)
  rw [this]
  apply withFull_self
  rw [Sym.full_mir, full_apply]
  rfl

theorem rights_apply_none {p : Pos} (hr : p.rights = RightsSet.none) (m : Move) :
    (apply p m).rights = RightsSet.none := by
  apply Sym.rights_ext
  intro c sd
  rw [has_apply, none_has]
  unfold keepsOf
  rw [hr, none_has]
  simp only [Bool.false_and]

/-! ### item 6 -/
theorem mem_legalMoves_mirrorH {p : Pos} (hr : p.rights = RightsSet.none)
    (hu : (kingSqs p p.side).length ≤ 1) (m : Move) :
    m ∈ legalMoves (mirrorH p) ↔ mirrorMoveH m ∈ legalMoves p := by
  rw [mirrorH_eq]
  refine symH.mem_legalMoves_mir (Or.inr hr) (uniqueKing_of_length_le hu) ?_ m
  intro sd h; rw [hr, none_has] at h; cases h
theorem legalMoves_isEmpty_mirrorH {p : Pos} (hr : p.rights = RightsSet.none)
    (hu : (kingSqs p p.side).length ≤ 1) :
    (legalMoves (mirrorH p)).isEmpty = (legalMoves p).isEmpty := by
  rw [mirrorH_eq]
  refine symH.legalMoves_isEmpty_mir (Or.inr hr) (uniqueKing_of_length_le hu) ?_
  intro sd h; rw [hr, none_has] at h; cases h

/-! ### item 7 -/
theorem normalise_mirrorH {p : Pos} (hr : p.rights = RightsSet.none) :
    normalise (mirrorH p) = mirrorH (normalise p) := by
  rw [mirrorH_eq, mirrorH_eq]; exact symH.normalise_mir (Or.inr hr)
theorem validRaw_mirrorH {p : Pos} (hr : p.rights = RightsSet.none) : ValidRaw (mirrorH p) = ValidRaw p := by
  rw [mirrorH_eq]; exact symH.validRaw_mir (Or.inr hr)
theorem insufficient_mirrorH (p : Pos) : insufficient (mirrorH p) = insufficient p := by
  rw [mirrorH_eq]; exact symH.insufficient_mir p
theorem drawSimple_mirrorH (p : Pos) : drawSimple (mirrorH p) = drawSimple p := by
  rw [mirrorH_eq]; exact symH.drawSimple_mir p
theorem mapWinner_id (o : Option Outcome) : o.map (mapWinner fun c => c) = o := by
  cases o with
  | none => rfl
  | some x => cases x <;> rfl
/-- the winner is not swapped: colours are kept -/
theorem outcome_mirrorH {p : Pos} (hr : p.rights = RightsSet.none) (hu : (kingSqs p p.side).length ≤ 1) :
    outcome (mirrorH p) = outcome p := by
  rw [mirrorH_eq]
  have := symH.outcome_mir (p := p) (Or.inr hr) (uniqueKing_of_length_le hu)
    (by intro sd h; rw [hr, none_has] at h; cases h)
  rw [this]
  exact mapWinner_id _

theorem rights_normalise_none {p : Pos} (hr : p.rights = RightsSet.none) :
    (normalise p).rights = RightsSet.none := by
  apply Sym.rights_ext
  intro c sd
  rw [has_normalise, none_has]
  unfold rightKept
  rw [hr, none_has]
  simp only [Bool.false_and]

/-- C18 for the left-to-right mirror, for valid raw positions without castling rights -/
theorem C18_H {p : Pos} (hv : ValidRaw p = true) (hr : p.rights = RightsSet.none) :
    ValidRaw (mirrorH p) = true
    ∧ normalise (mirrorH p) = mirrorH (normalise p)
    ∧ (∀ m, m ∈ legalMoves (mirrorH (normalise p)) ↔ mirrorMoveH m ∈ legalMoves (normalise p))
    ∧ (∀ c, inCheck (mirrorH (normalise p)) c = inCheck (normalise p) c)
    ∧ (legalMoves (mirrorH (normalise p))).isEmpty = (legalMoves (normalise p)).isEmpty
    ∧ insufficient (mirrorH (normalise p)) = insufficient (normalise p)
    ∧ outcome (mirrorH (normalise p)) = outcome (normalise p) := by
  have hu : ∀ c, (kingSqs (normalise p) c).length ≤ 1 := fun c => by
    rw [kingSqs_normalise, length_kingSqs_of_valid hv c]; exact Nat.le_refl 1
  have hr' := rights_normalise_none hr
  exact ⟨by rw [validRaw_mirrorH hr, hv], normalise_mirrorH hr, mem_legalMoves_mirrorH hr' (hu _),
    fun c => inCheck_mirrorH (hu c), legalMoves_isEmpty_mirrorH hr' (hu _), insufficient_mirrorH _,
    outcome_mirrorH hr' (hu _)⟩

/-! ## Counterexamples showing that the extra hypotheses are needed (see NOTES.md) -/

/-- a position from a list of (square index, man) -/
def mkPos (l : List (Nat × Man)) (side : Color) (r : RightsSet) : Pos :=
  ⟨Tab.ofFn fun s => (l.find? (fun x => x.1 == s.val)).map (·.2), side, r, none, 0, 1⟩

/-- two white kings a8 (attacked by the rook h8) and a1 (not attacked): "in check" is not mirror-invariant -/
def cexTwoKings : Pos :=
  mkPos [(0, ⟨.white, .king⟩), (56, ⟨.white, .king⟩), (7, ⟨.black, .rook⟩), (28, ⟨.black, .king⟩)]
    .white RightsSet.none

theorem inCheck_mirrorV_needs_unique_king :
    inCheck cexTwoKings .white = true ∧ inCheck (mirrorV cexTwoKings) Color.white.inv = false := by
  decide +kernel

/-- White has the king-side right but its king stands on e2 (rook h1; Black: Ka8, Rg8). The position
passes `ValidRaw` and has one king each, but it is not normalised: `castleMoves` still generates O-O, which
puts a second white king on g1. -/
def cexKingNotHome : Pos :=
  mkPos [(52, ⟨.white, .king⟩), (63, ⟨.white, .rook⟩), (0, ⟨.black, .king⟩), (6, ⟨.black, .rook⟩)]
    .white ⟨true, false, false, false⟩

theorem mem_legalMoves_mirrorV_needs_kingHome :
    ValidRaw cexKingNotHome = true ∧ (kingSqs cexKingNotHome .white).length = 1
    ∧ mirrorMoveV ⟨.castleK, ⟨.black, .king⟩, 4, 6⟩ ∈ legalMoves cexKingNotHome
    ∧ (⟨.castleK, ⟨.black, .king⟩, 4, 6⟩ : Move) ∉ legalMoves (mirrorV cexKingNotHome) := by
  refine ⟨by decide +kernel, by decide +kernel, ?_, ?_⟩
  · rw [mem_legalMoves, pseudoMoves_eq, List.mem_append]
    exact ⟨Or.inr (by decide +kernel), by decide +kernel⟩
  · rw [mem_legalMoves]
    intro h
    exact absurd h.2 (by decide +kernel)
end Owl.Props.C18
