/-
C06, last clause, piece C: `simple` moves of the pieces.
King and knight: the attack tables against the step lists, decided over all pairs of squares.
Bishop, rook, queen: no enumeration here — `Spec.onRay` is `(Spec.between …).isSome` (induction over the
direction list), and `between_check_pair` (Lemmas/TablesNear.lean, C15) links that to the between tables.
-/
import OwlModel.Abs
import OwlModel.Lemmas.TablesNear

namespace Owl.Lemmas
open Owl Owl.Impl

theorem wfg_fact_king : ∀ s d : Sq,
    (!decide (s = d) && (kingAttack s).has d)
      = (decide (s ≠ d) && Spec.kingSteps.any fun st => Spec.step s st == some d) := by
  decide +kernel
theorem wfg_fact_knight : ∀ s d : Sq,
    (!decide (s = d) && (knightAttack s).has d)
      = (decide (s ≠ d) && Spec.knightSteps.any fun st => Spec.step s st == some d) := by
  decide +kernel

theorem wfg_onRay_eq_between (dirs : List (Int × Int)) (s d : Sq) :
    Spec.onRay dirs s d = (Spec.between dirs s d).isSome := by
  unfold Spec.onRay Spec.between
  induction dirs with
  | nil => rfl
  | cons a t ih =>
    rw [List.any_cons, List.findSome?_cons, ih]
    cases h : (Spec.ray a 7 s).contains d
    · simp only [h, Bool.false_eq_true, ↓reduceIte, Bool.false_or]
    · simp only [h, ↓reduceIte, Bool.true_or, Option.isSome_some]

theorem wfg_onRay_append (a b : List (Int × Int)) (s d : Sq) :
    Spec.onRay (a ++ b) s d = (Spec.onRay a s d || Spec.onRay b s d) := by
  simp [Spec.onRay, List.any_append]

theorem wfg_fact_rook (s d : Sq) : isRookValid s d = Spec.onRay Spec.rookDirs s d := by
  have h := between_check_pair s d
  simp only [betweenCheckPair, Bool.and_eq_true, beq_iff_eq] at h
  rw [wfg_onRay_eq_between]; exact h.1.1.1
theorem wfg_fact_bishop (s d : Sq) : isBishopValid s d = Spec.onRay Spec.bishopDirs s d := by
  have h := between_check_pair s d
  simp only [betweenCheckPair, Bool.and_eq_true, beq_iff_eq] at h
  rw [wfg_onRay_eq_between]; exact h.1.1.2

end Owl.Lemmas
