/-
Exactness of the legality test without prefilter (`Move::is_legal_unchecked`, `Checker::is_legal` behind
`NilPrechecker`): for a well-formed semilegal move it answers "the mover's king is not attacked in the position
after the move".  Covers the three code paths (king moves incl. castling, en passant, everything else).
-/
import OwlModel.Lemmas.Between
import OwlModel.Lemmas.MakeShape

namespace Owl.Lemmas
open Owl Owl.Impl

/-- the five-term attackers set over arbitrary piece sets and occupancy -/
def attackSet (P : Piece → BB) (pos : Sq) (inv : Color) (occ : BB) : BB :=
  (P .pawn &&& pawnAttack inv.inv pos) ||| (P .king &&& kingAttack pos) ||| (P .knight &&& knightAttack pos)
    ||| (bishopAttack pos occ &&& (P .bishop ||| P .queen)) ||| (rookAttack pos occ &&& (P .rook ||| P .queen))

theorem isCellAttacked_set (b : Board) (t : Sq) (c : Color) :
    isCellAttacked b t c = (attackSet (b.piece2 c) t c b.all).nonEmpty := by
  rw [isCellAttacked_eq]; rfl

theorem and_mask_nonEmpty (a m x : BB) : (a &&& x &&& m).nonEmpty = ((a &&& m) &&& x).nonEmpty := by
  congr 1
  apply BB.ext_has; intro s; simp only [BB.has_and]
  cases a.has s <;> cases x.has s <;> cases m.has s <;> rfl

theorem isAttacked_set (ck : Checker) (pos : Sq) (occ mask : BB) :
    ck.isAttacked pos occ mask = (attackSet (fun p => ck.b.piece2 ck.inv p &&& mask) pos ck.inv occ).nonEmpty := by
  unfold Checker.isAttacked attackSet Board.pieceDiag Board.pieceLine
  simp only [nonEmpty_or, and_mask_nonEmpty]
  have e1 : ∀ (A x y : BB), (A &&& mask &&& (x ||| y)).nonEmpty = (A &&& (x &&& mask ||| y &&& mask)).nonEmpty := by
    intro A x y; congr 1
    apply BB.ext_has; intro s; simp only [BB.has_and, BB.has_or]
    cases A.has s <;> cases x.has s <;> cases y.has s <;> cases mask.has s <;> rfl
  rw [e1, e1]
  cases (ck.b.piece2 ck.inv Piece.pawn &&& mask &&& pawnAttack ck.inv.inv pos).nonEmpty <;>
  cases (ck.b.piece2 ck.inv Piece.king &&& mask &&& kingAttack pos).nonEmpty <;>
  cases (ck.b.piece2 ck.inv Piece.knight &&& mask &&& knightAttack pos).nonEmpty <;> simp

def NonCastle (mv : Move) : Prop := mv.kind ≠ .null ∧ mv.kind ≠ .castleK ∧ mv.kind ≠ .castleQ

theorem make_get_src (b : Board) (mv : Move) (hn : NonCastle mv) (hne : mv.src ≠ mv.dst)
    (hv : mv.kind = .ep → mv.src ≠ addU mv.dst (-(forwardDelta b.r.side))) :
    (makeMove b mv).1.get mv.src = Cell.empty := by
  obtain ⟨h0, h1, h2⟩ := hn
  rw [make_get, make_cells, makeBody_cells, clearEp_cells]
  have e : ¬ mv.dst = mv.src := fun e => hne e.symm
  cases hk : mv.kind <;> simp only [hk, Tab.get_put, e, if_false, if_true] <;> first
    | exact absurd hk h0 | exact absurd hk h1 | exact absurd hk h2 | skip
  have : ¬ addU mv.dst (-(forwardDelta b.r.side)) = mv.src := fun e => hv hk e.symm
  simp [this]

theorem make_get_dst (b : Board) (mv : Move) (hn : NonCastle mv) (hcol : mv.cell.color = some b.r.side)
    (hv : mv.kind = .ep → mv.dst ≠ addU mv.dst (-(forwardDelta b.r.side))) :
    ((makeMove b mv).1.get mv.dst).color = some b.r.side := by
  obtain ⟨h0, h1, h2⟩ := hn
  rw [make_get, make_cells, makeBody_cells, clearEp_cells]
  cases hk : mv.kind <;> simp only [hk, Tab.get_put, if_true, color_mk, hcol] <;> first
    | exact absurd hk h0 | exact absurd hk h1 | exact absurd hk h2 | skip
  have : ¬ addU mv.dst (-(forwardDelta b.r.side)) = mv.dst := fun e => hv hk e.symm
  simp [this]

theorem make_get_victim (b : Board) (mv : Move) (hk : mv.kind = .ep) :
    (makeMove b mv).1.get (addU mv.dst (-(forwardDelta b.r.side))) = Cell.empty := by
  rw [make_get, make_cells, makeBody_cells, clearEp_cells]
  simp only [hk, Tab.get_put, if_true]

/-- facts about a semilegal non-castling move collected once -/
structure MoveFacts (b : Board) (mv : Move) : Prop where
  ne : mv.src ≠ mv.dst
  src : b.get mv.src = mv.cell
  col : mv.cell.color = some b.r.side
  dstc : (b.get mv.dst).color ≠ some b.r.side
  vs : mv.kind = .ep → mv.src ≠ addU mv.dst (-(forwardDelta b.r.side))
  vd : mv.kind = .ep → mv.dst ≠ addU mv.dst (-(forwardDelta b.r.side))
  vp : mv.kind = .ep → b.get (addU mv.dst (-(forwardDelta b.r.side))) = Cell.mk b.r.side.inv .pawn
  de : mv.kind = .ep → b.get mv.dst = Cell.empty

theorem moveFacts (b : Board) (mv : Move) (hs : Shape b) (hwf : mv.isWellFormed = true)
    (hsl : isSemilegal b mv = true) : MoveFacts b mv := by
  obtain ⟨hknull, hsrc, hcol, hdst⟩ := semilegal_base b mv hsl
  obtain ⟨hne, _⟩ := wf_facts mv hwf hknull
  have hv : mv.kind = .ep → ∃ p, b.r.ep = some p ∧ addU mv.dst (-(forwardDelta b.r.side)) = p
      ∧ mv.dst = addU p (forwardDelta b.r.side) ∧ (p = addU mv.src 1 ∨ p = addU mv.src (-1)) :=
    fun hk => ep_victim b mv hs hwf hsl hk
  refine ⟨hne, hsrc, hcol, hdst, ?_, ?_, ?_, ?_⟩
  · intro hk e
    obtain ⟨p, _, h2, _, h4⟩ := hv hk
    rw [h2] at e
    obtain ⟨a1, a2⟩ := addU_one_ne mv.src
    rcases h4 with h4 | h4 <;> rw [h4] at e
    · exact a1 e.symm
    · exact a2 e.symm
  · intro hk e
    obtain ⟨p, hep, h2, h3, _⟩ := hv hk
    obtain ⟨hrank, _, _⟩ := hs.ep p hep
    obtain ⟨_, a2⟩ := ep_arith p b.r.side hrank
    rw [h2, h3] at e
    exact a2 e
  · intro hk
    obtain ⟨p, hep, h2, _, _⟩ := hv hk
    obtain ⟨_, hp, _⟩ := hs.ep p hep
    rw [h2]; exact hp
  · intro hk
    obtain ⟨p, hep, _, h3, _⟩ := hv hk
    obtain ⟨_, _, he⟩ := hs.ep p hep
    rw [h3]; exact he

def victimBB (mv : Move) (c : Color) : BB :=
  if mv.kind = .ep then BB.single (addU mv.dst (-(forwardDelta c))) else 0#64

theorem inv_ne (c : Color) : c.inv ≠ c := by cases c <;> decide

/-- the opponent's piece sets after a non-castling move: the captured man is gone, nothing else changes -/
theorem post_sets (b : Board) (mv : Move) (hb : Consistent b) (hb' : Consistent (makeMove b mv).1)
    (hn : NonCastle mv) (F : MoveFacts b mv) (p : Piece) :
    (makeMove b mv).1.piece2 b.r.side.inv p
      = b.piece2 b.r.side.inv p &&& ~~~ (BB.single mv.dst ||| victimBB mv b.r.side) := by
  apply BB.ext_has
  intro t
  rw [piece2_has _ hb', BB.has_and, piece2_has _ hb, BB.has_not, BB.has_or, BB.has_single]
  have hcne : ∀ x : Cell, x.color = some b.r.side → x ≠ Cell.mk b.r.side.inv p := by
    intro x hx e; rw [e, color_mk] at hx; exact inv_ne _ (Option.some.inj hx)
  by_cases h1 : t = mv.src
  · subst h1
    rw [make_get_src b mv hn F.ne F.vs]
    have : Cell.empty ≠ Cell.mk b.r.side.inv p := fun e => mk_ne_zero _ _ e.symm
    have h2 : b.get mv.src ≠ Cell.mk b.r.side.inv p := hcne _ (by rw [F.src]; exact F.col)
    simp [this, h2]
  · by_cases h2 : t = mv.dst
    · subst h2
      have := hcne _ (make_get_dst b mv hn F.col F.vd)
      simp [this]
    · have h2' : ¬ mv.dst = t := fun e => h2 e.symm
      unfold victimBB
      by_cases hk : mv.kind = .ep
      · by_cases h3 : t = addU mv.dst (-(forwardDelta b.r.side))
        · subst h3
          rw [make_get_victim b mv hk]
          have : Cell.empty ≠ Cell.mk b.r.side.inv p := fun e => mk_ne_zero _ _ e.symm
          simp [this, hk]
        · rw [make_get_other b mv t h1 h2 (by simp [hk]) (fun _ => h3)]
          have h3' : ¬ addU mv.dst (-(forwardDelta b.r.side)) = t := fun e => h3 e.symm
          simp [hk, h2', h3']
      · rw [make_get_other b mv t h1 h2 (fun h => absurd h (by simp [hn.2.1, hn.2.2])) (fun h => absurd h hk)]
        simp [hk, h2']

/-- the occupancy after a non-castling move -/
theorem post_all (b : Board) (mv : Move) (hb : Consistent b) (hb' : Consistent (makeMove b mv).1)
    (hn : NonCastle mv) (F : MoveFacts b mv) :
    (makeMove b mv).1.all = ((b.all ^^^ BB.single mv.src) ||| BB.single mv.dst) ^^^ victimBB mv b.r.side := by
  apply BB.ext_has
  intro t
  rw [all_has _ hb', BB.has_xor, BB.has_or, BB.has_xor, all_has _ hb, BB.has_single, BB.has_single]
  have hsrc0 : b.get mv.src ≠ 0 := by
    intro e; have := F.col; rw [← F.src, e] at this; cases this
  by_cases h1 : t = mv.src
  · subst h1
    rw [make_get_src b mv hn F.ne F.vs]
    have e : ¬ mv.dst = mv.src := fun e => F.ne e.symm
    unfold victimBB
    by_cases hk : mv.kind = .ep
    · have := F.vs hk
      have h3 : ¬ addU mv.dst (-(forwardDelta b.r.side)) = mv.src := fun e => this e.symm
      simp [hk, hsrc0, e, h3]; rfl
    · simp [hk, hsrc0, e]; rfl
  · have h1' : ¬ mv.src = t := fun e => h1 e.symm
    by_cases h2 : t = mv.dst
    · subst h2
      have hc := make_get_dst b mv hn F.col F.vd
      have : (makeMove b mv).1.get mv.dst ≠ 0 := by intro e; rw [e] at hc; cases hc
      unfold victimBB
      by_cases hk : mv.kind = .ep
      · have h3 : ¬ addU mv.dst (-(forwardDelta b.r.side)) = mv.dst := fun e => F.vd hk e.symm
        simp [hk, this, h3]
      · simp [hk, this]
    · have h2' : ¬ mv.dst = t := fun e => h2 e.symm
      unfold victimBB
      by_cases hk : mv.kind = .ep
      · by_cases h3 : t = addU mv.dst (-(forwardDelta b.r.side))
        · subst h3
          rw [make_get_victim b mv hk]
          have := F.vp hk
          have hv0 : b.get (addU mv.dst (-(forwardDelta b.r.side))) ≠ 0 := by rw [this]; exact mk_ne_zero _ _
          simp [hk, hv0, h1', h2']; rfl
        · rw [make_get_other b mv t h1 h2 (by simp [hk]) (fun _ => h3)]
          have h3' : ¬ addU mv.dst (-(forwardDelta b.r.side)) = t := fun e => h3 e.symm
          simp [hk, h1', h2', h3']
      · rw [make_get_other b mv t h1 h2 (fun h => absurd h (by simp [hn.2.1, hn.2.2])) (fun h => absurd h hk)]
        simp [hk, h1', h2']

theorem adv_single (c : Color) : ∀ dst : Sq, dst.rank.val ≠ 0 → dst.rank.val ≠ 7 →
    advanceForward c.inv (BB.single dst) = BB.single (addU dst (-(forwardDelta c))) := by
  cases c <;> decide +kernel

theorem mask_xor (d v : BB) (h : d &&& v = 0#64) : ~~~ d ^^^ v = ~~~ (d ||| v) := by
  apply BB.ext_has; intro s
  have := congrArg (fun x => BB.has x s) h
  simp only [BB.has_and, BB.has_zero] at this
  simp only [BB.has_xor, BB.has_not, BB.has_or]
  revert this; cases d.has s <;> cases v.has s <;> simp

theorem attackSet_congr (P P' : Piece → BB) (h : ∀ p, P p = P' p) (pos : Sq) (inv : Color) (occ : BB) :
    attackSet P pos inv occ = attackSet P' pos inv occ := by
  have : P = P' := funext h
  rw [this]

/-- legality test for a move of a piece other than the king: exactly "the king is not attacked afterwards" -/
theorem isLegal_other (b : Board) (mv : Move) (hs : Shape b) (hwf : mv.isWellFormed = true)
    (hsl : isSemilegal b mv = true) (hn : NonCastle mv) (k : Sq) (hk : mv.src ≠ k) :
    Checker.isLegal ⟨b, .nil, b.r.side.inv, k⟩ mv = !isCellAttacked (makeMove b mv).1 k b.r.side.inv := by
  have F := moveFacts b mv hs hwf hsl
  have hb' := (make_shape b mv hs hwf hsl).cons
  unfold Checker.isLegal
  simp only [Pre.isLegalPre, hk, if_false]
  rw [isCellAttacked_set, post_all b mv hs.cons hb' hn F]
  rw [attackSet_congr _ _ (post_sets b mv hs.cons hb' hn F)]
  by_cases hep : mv.kind = .ep
  · simp only [hep, if_true]
    rw [isAttacked_set]
    obtain ⟨hknull, hsrc, hcol, hdst⟩ := semilegal_base b mv hsl
    obtain ⟨_, color, piece, hcol', hpiece, hmatch, _⟩ := wf_facts mv hwf hknull
    have hcc : color = b.r.side := by rw [hcol] at hcol'; exact (Option.some.inj hcol').symm
    subst hcc
    have hp := matches_pawn hmatch (Or.inr (Or.inl hep)); subst hp
    have hcell := piece_of_color_piece hcol hpiece
    obtain ⟨_, _, r3, r4⟩ := wf_pawn_ranks mv b.r.side hwf hcell (Or.inr (Or.inr hep))
    have hadv := adv_single b.r.side mv.dst r3 r4
    simp only [hadv]
    have hv : victimBB mv b.r.side = BB.single (addU mv.dst (-(forwardDelta b.r.side))) := by
      unfold victimBB; rw [if_pos hep]
    rw [hv]
    have hdis : BB.single mv.dst &&& BB.single (addU mv.dst (-(forwardDelta b.r.side))) = 0#64 := by
      apply BB.ext_has; intro s
      simp only [BB.has_and, BB.has_single, BB.has_zero]
      by_cases e1 : mv.dst = s
      · subst e1
        have : ¬ addU mv.dst (-(forwardDelta b.r.side)) = mv.dst := fun e => F.vd hep e.symm
        simp [this]
      · simp [e1]
    rw [mask_xor _ _ hdis]
  · simp only [hep, if_false]
    rw [isAttacked_set]
    have hv : victimBB mv b.r.side = 0#64 := by unfold victimBB; rw [if_neg hep]
    rw [hv]
    simp

theorem strict_no_end : ∀ s t : Sq, (bishopStrict s t).has t = false ∧ (rookStrict s t).has t = false
    ∧ (bishopStrict s t).has s = false ∧ (rookStrict s t).has s = false := by decide +kernel

theorem self_not_attacked : ∀ (t : Sq), (kingAttack t).has t = false ∧ (knightAttack t).has t = false
    ∧ (pawnAttack .white t).has t = false ∧ (pawnAttack .black t).has t = false
    ∧ isBishopValid t t = false ∧ isRookValid t t = false := by decide +kernel

theorem bishopAttack_self (pos : Sq) (occ : BB) : bishopAttack pos (occ ||| BB.single pos) = bishopAttack pos occ := by
  apply BB.ext_has; intro s
  rw [bishopAttack_has, bishopAttack_has]
  congr 2
  apply BB.ext_has; intro x
  simp only [BB.has_and, BB.has_or, BB.has_single]
  by_cases e : pos = x
  · subst e; simp [(strict_no_end s pos).1]
  · simp [e]

theorem rookAttack_self (pos : Sq) (occ : BB) : rookAttack pos (occ ||| BB.single pos) = rookAttack pos occ := by
  apply BB.ext_has; intro s
  rw [rookAttack_has, rookAttack_has]
  congr 2
  apply BB.ext_has; intro x
  simp only [BB.has_and, BB.has_or, BB.has_single]
  by_cases e : pos = x
  · subst e; simp [(strict_no_end s pos).2.1]
  · simp [e]

theorem attackSet_has (P : Piece → BB) (pos : Sq) (inv : Color) (occ : BB) (s : Sq) :
    (attackSet P pos inv occ).has s =
      (((P .pawn).has s && (pawnAttack inv.inv pos).has s) || ((P .king).has s && (kingAttack pos).has s)
        || ((P .knight).has s && (knightAttack pos).has s)
        || ((bishopAttack pos occ).has s && ((P .bishop).has s || (P .queen).has s))
        || ((rookAttack pos occ).has s && ((P .rook).has s || (P .queen).has s))) := by
  unfold attackSet
  simp only [BB.has_or, BB.has_and]

/-- a man standing on the target square neither attacks it nor shields it -/
theorem attackSet_drop_self (P : Piece → BB) (pos : Sq) (inv : Color) (occ : BB) :
    attackSet (fun p => P p &&& ~~~ BB.single pos) pos inv (occ ||| BB.single pos) = attackSet P pos inv occ := by
  apply BB.ext_has; intro s
  rw [attackSet_has, attackSet_has, bishopAttack_self, rookAttack_self]
  obtain ⟨h1, h2, h3, h4, h5, h6⟩ := self_not_attacked pos
  by_cases e : pos = s
  · subst e
    have hp : (pawnAttack inv.inv pos).has pos = false := by cases inv <;> assumption
    simp [h1, h2, hp, bishopAttack_has, rookAttack_has, h5, h6]
  · simp [BB.has_and, BB.has_not, BB.has_single, e]

/-- legality test for a king step -/
theorem isLegal_king (b : Board) (mv : Move) (hs : Shape b) (hwf : mv.isWellFormed = true)
    (hsl : isSemilegal b mv = true) (hn : NonCastle mv) (hep : mv.kind ≠ .ep) :
    Checker.isLegal ⟨b, .nil, b.r.side.inv, mv.src⟩ mv = !isCellAttacked (makeMove b mv).1 mv.dst b.r.side.inv := by
  have F := moveFacts b mv hs hwf hsl
  have hb' := (make_shape b mv hs hwf hsl).cons
  unfold Checker.isLegal
  simp only [Pre.isLegalPre, if_true]
  rw [isCellAttacked_set, post_all b mv hs.cons hb' hn F]
  rw [attackSet_congr _ _ (post_sets b mv hs.cons hb' hn F)]
  rw [isAttacked_set]
  have hv : victimBB mv b.r.side = 0#64 := by unfold victimBB; rw [if_neg hep]
  rw [hv]
  simp only [BitVec.or_zero, BitVec.xor_zero, BitVec.and_allOnes]
  rw [attackSet_drop_self]

theorem castleK_geom (c : Color) : ∀ s x : Sq,
    (x.rank = castlingRank c → (bishopStrict s (Sq.mk fileG (castlingRank c))).has x = false) ∧
    (s.rank ≠ castlingRank c → isRookValid s (Sq.mk fileG (castlingRank c)) = true → x.rank = castlingRank c →
      (rookStrict s (Sq.mk fileG (castlingRank c))).has x = false) ∧
    (s.rank = castlingRank c → s ≠ Sq.mk fileE (castlingRank c) → s ≠ Sq.mk fileF (castlingRank c)
      → s ≠ Sq.mk fileG (castlingRank c) → s ≠ Sq.mk fileH (castlingRank c) →
      (rookStrict s (Sq.mk fileG (castlingRank c))).has (Sq.mk fileF (castlingRank c)) = true
      ∧ isRookValid s (Sq.mk fileE (castlingRank c)) = true
      ∧ ((rookStrict s (Sq.mk fileE (castlingRank c))).has x = true →
          (rookStrict s (Sq.mk fileG (castlingRank c))).has x = true ∧ x ≠ Sq.mk fileE (castlingRank c))) := by
  cases c <;> decide +kernel

theorem make_get_castleK (b : Board) (mv : Move) (hk : mv.kind = .castleK) (t : Sq) :
    (makeMove b mv).1.get t =
      if Sq.mk fileH (castlingRank b.r.side) = t then Cell.empty
      else if Sq.mk fileG (castlingRank b.r.side) = t then Cell.mk b.r.side .king
      else if Sq.mk fileF (castlingRank b.r.side) = t then Cell.mk b.r.side .rook
      else if Sq.mk fileE (castlingRank b.r.side) = t then Cell.empty else b.get t := by
  rw [make_get, make_cells, makeBody_cells, clearEp_cells]
  simp only [hk, Tab.get_put]
  rfl

theorem and_congr_of (a1 a2 q : Bool) (h : q = true → a1 = a2) : (a1 && q) = (a2 && q) := by
  cases q
  · simp
  · simp [h rfl]

theorem isEmpty_congr (a b : BB) (h : ∀ x, a.has x = b.has x) : a.isEmpty = b.isEmpty := by
  rw [BB.ext_has h]

theorem cell_color_ne (c : Color) (p q : Piece) : Cell.mk c p ≠ Cell.mk c.inv q := by
  cases c <;> cases p <;> cases q <;> decide

/-- legality test for king-side castling: the king's destination is not attacked afterwards -/
theorem isLegal_castleK (b : Board) (mv : Move) (hs : Shape b) (hwf : mv.isWellFormed = true)
    (hsl : isSemilegal b mv = true) (hk : mv.kind = .castleK) :
    Checker.isLegal ⟨b, .nil, b.r.side.inv, mv.src⟩ mv = !isCellAttacked (makeMove b mv).1 mv.dst b.r.side.inv := by
  have hb := hs.cons
  have hb' := (make_shape b mv hs hwf hsl).cons
  have ok := makeOk_of_semilegal b mv hs hwf hsl
  obtain ⟨hknull, hsrc, hcol, hdst⟩ := semilegal_base b mv hsl
  obtain ⟨hne, color, piece, hcol', hpiece, hmatch, hK, _, _⟩ := wf_facts mv hwf hknull
  have hcc : color = b.r.side := by rw [hcol] at hcol'; exact (Option.some.inj hcol').symm
  subst hcc
  have hp := matches_king hmatch (Or.inl hk); subst hp
  obtain ⟨e1, e2⟩ := hK hk
  have htail := semilegal_tail b mv hsl .king hpiece
  simp only [hk, Bool.and_eq_true, Bool.not_eq_true'] at htail
  obtain ⟨⟨_, hnE⟩, _⟩ := htail
  unfold MakeOk at ok; simp only [hk] at ok
  obtain ⟨okE, okF, okG, okH⟩ := ok
  obtain ⟨nEF, nEG, nEH, nFG, nFH, nGH, _⟩ := castle_sq_ne b.r.side
  unfold Checker.isLegal
  simp only [Pre.isLegalPre, if_true]
  rw [isCellAttacked_set, isAttacked_set]
  simp only [BitVec.and_allOnes]
  congr 2
  apply BB.ext_has; intro s
  rw [attackSet_has, attackSet_has]
  -- the opponent's sets are unchanged
  have hP : ∀ p t, ((makeMove b mv).1.piece2 b.r.side.inv p).has t = (b.piece2 b.r.side.inv p).has t := by
    intro p t
    rw [piece2_has _ hb', piece2_has _ hb, make_get_castleK b mv hk]
    by_cases h1 : Sq.mk fileH (castlingRank b.r.side) = t
    · subst h1; rw [if_pos rfl, okH]
      have a1 : Cell.empty ≠ Cell.mk b.r.side.inv p := fun e => mk_ne_zero _ _ e.symm
      have a2 := cell_color_ne b.r.side .rook p
      simp [a1, a2]
    · rw [if_neg h1]
      by_cases h2 : Sq.mk fileG (castlingRank b.r.side) = t
      · subst h2; rw [if_pos rfl, okG]
        have a1 : Cell.empty ≠ Cell.mk b.r.side.inv p := fun e => mk_ne_zero _ _ e.symm
        have a2 := cell_color_ne b.r.side .king p
        simp [a1, a2]
      · rw [if_neg h2]
        by_cases h3 : Sq.mk fileF (castlingRank b.r.side) = t
        · subst h3; rw [if_pos rfl, okF]
          have a1 : Cell.empty ≠ Cell.mk b.r.side.inv p := fun e => mk_ne_zero _ _ e.symm
          have a2 := cell_color_ne b.r.side .rook p
          simp [a1, a2]
        · rw [if_neg h3]
          by_cases h4 : Sq.mk fileE (castlingRank b.r.side) = t
          · subst h4; rw [if_pos rfl, okE]
            have a1 : Cell.empty ≠ Cell.mk b.r.side.inv p := fun e => mk_ne_zero _ _ e.symm
            have a2 := cell_color_ne b.r.side .king p
            simp [a1, a2]
          · rw [if_neg h4]
  simp only [hP]
  -- occupancies
  have hocc2 : ∀ x, (makeMove b mv).1.all.has x =
      if Sq.mk fileH (castlingRank b.r.side) = x then false
      else if Sq.mk fileG (castlingRank b.r.side) = x then true
      else if Sq.mk fileF (castlingRank b.r.side) = x then true
      else if Sq.mk fileE (castlingRank b.r.side) = x then false else b.all.has x := by
    intro x
    rw [all_has _ hb', make_get_castleK b mv hk, all_has _ hb]
    have a1 := mk_ne_zero b.r.side .king
    have a2 := mk_ne_zero b.r.side .rook
    have a0 : Cell.empty = 0 := rfl
    split
    · simp [a0]
    · split
      · simp [a1]
      · split
        · simp [a2]
        · split
          · simp [a0]
          · rfl
  have hocc1 : ∀ x, (b.all ^^^ BB.single mv.src).has x = if Sq.mk fileE (castlingRank b.r.side) = x then false else b.all.has x := by
    intro x
    rw [BB.has_xor, BB.has_single, e1, all_has _ hb]
    by_cases h : Sq.mk fileE (castlingRank b.r.side) = x
    · subst h; rw [okE]; simp [mk_ne_zero]
    · simp [h]
  have hrk : ∀ f, (Sq.mk f (castlingRank b.r.side)).rank = castlingRank b.r.side := fun f => by simp
  have hoff : ∀ x, x.rank ≠ castlingRank b.r.side →
      (makeMove b mv).1.all.has x = (b.all ^^^ BB.single mv.src).has x := by
    intro x hx
    have n : ∀ f, ¬ Sq.mk f (castlingRank b.r.side) = x := fun f e => hx (e ▸ hrk f)
    rw [hocc2, hocc1]; simp [n]
  rw [e2]
  -- an enemy man stands on none of the four castling squares
  have hen : ∀ p, (b.piece2 b.r.side.inv p).has s = true →
      s ≠ Sq.mk fileE (castlingRank b.r.side) ∧ s ≠ Sq.mk fileF (castlingRank b.r.side)
      ∧ s ≠ Sq.mk fileG (castlingRank b.r.side) ∧ s ≠ Sq.mk fileH (castlingRank b.r.side) := by
    intro p hp
    rw [piece2_has _ hb] at hp
    have hp : b.get s = Cell.mk b.r.side.inv p := by simpa using hp
    refine ⟨?_, ?_, ?_, ?_⟩ <;> intro e <;> rw [e] at hp
    · rw [okE] at hp; exact cell_color_ne _ _ _ hp
    · rw [okF] at hp; exact mk_ne_zero _ _ hp.symm
    · rw [okG] at hp; exact mk_ne_zero _ _ hp.symm
    · rw [okH] at hp; exact cell_color_ne _ _ _ hp
  have hbishop : ((b.piece2 b.r.side.inv .bishop).has s || (b.piece2 b.r.side.inv .queen).has s) = true →
      (bishopAttack (Sq.mk fileG (castlingRank b.r.side)) (b.all ^^^ BB.single mv.src)).has s
        = (bishopAttack (Sq.mk fileG (castlingRank b.r.side)) (makeMove b mv).1.all).has s := by
    intro _
    rw [bishopAttack_has, bishopAttack_has]
    congr 1
    apply isEmpty_congr
    intro x
    rw [BB.has_and, BB.has_and]
    by_cases hx : x.rank = castlingRank b.r.side
    · rw [(castleK_geom b.r.side s x).1 hx]; rfl
    · rw [hoff x hx]
  have hrook : ((b.piece2 b.r.side.inv .rook).has s || (b.piece2 b.r.side.inv .queen).has s) = true →
      (rookAttack (Sq.mk fileG (castlingRank b.r.side)) (b.all ^^^ BB.single mv.src)).has s
        = (rookAttack (Sq.mk fileG (castlingRank b.r.side)) (makeMove b mv).1.all).has s := by
    intro hq
    have hq' : ∃ p, (b.piece2 b.r.side.inv p).has s = true ∧ (p = .rook ∨ p = .queen) := by
      rw [Bool.or_eq_true] at hq
      rcases hq with h | h
      · exact ⟨_, h, Or.inl rfl⟩
      · exact ⟨_, h, Or.inr rfl⟩
    obtain ⟨p, hp, hpq⟩ := hq'
    obtain ⟨sE, sF, sG, sH⟩ := hen p hp
    rw [rookAttack_has, rookAttack_has]
    by_cases hv : isRookValid s (Sq.mk fileG (castlingRank b.r.side)) = true
    · by_cases hsr : s.rank = castlingRank b.r.side
      · -- on the back rank: blocked by the rook afterwards, and would have checked the king before
        obtain ⟨g1, g2, _⟩ := (castleK_geom b.r.side s s).2.2 hsr sE sF sG sH
        have hreal : (rookStrict s (Sq.mk fileG (castlingRank b.r.side)) &&& (makeMove b mv).1.all).isEmpty = false := by
          cases h : (rookStrict s (Sq.mk fileG (castlingRank b.r.side)) &&& (makeMove b mv).1.all).isEmpty
          · rfl
          · have := (BB.isEmpty_iff _).mp h (Sq.mk fileF (castlingRank b.r.side))
            rw [BB.has_and, g1, hocc2] at this
            simp [nFH.symm, nFG.symm] at this
        have hcode : (rookStrict s (Sq.mk fileG (castlingRank b.r.side)) &&& (b.all ^^^ BB.single mv.src)).isEmpty = false := by
          cases h : (rookStrict s (Sq.mk fileG (castlingRank b.r.side)) &&& (b.all ^^^ BB.single mv.src)).isEmpty
          · rfl
          · exfalso
            have hfree := (BB.isEmpty_iff _).mp h
            -- then s attacks the king's square in the position before
            have hatt : (rookAttack (Sq.mk fileE (castlingRank b.r.side)) b.all).has s = true := by
              rw [rookAttack_has, g2, Bool.true_and, BB.isEmpty_iff]
              intro x
              rw [BB.has_and]
              cases hx : (rookStrict s (Sq.mk fileE (castlingRank b.r.side))).has x
              · rfl
              · obtain ⟨g3, g4⟩ := ((castleK_geom b.r.side s x).2.2 hsr sE sF sG sH).2.2 hx
                have := hfree x
                rw [BB.has_and, g3, hocc1] at this
                have g4' : ¬ Sq.mk fileE (castlingRank b.r.side) = x := fun e => g4 e.symm
                simpa [g4'] using this
            have : isCellAttacked b (Sq.mk fileE (castlingRank b.r.side)) b.r.side.inv = true := by
              rw [isCellAttacked_set, nonEmpty_iff]
              refine ⟨s, ?_⟩
              rw [attackSet_has, hatt]
              rcases hpq with e | e <;> subst e <;> simp [hp]
            rw [e1] at hnE
            rw [hnE] at this; cases this
        rw [hreal, hcode]
      · congr 1
        apply isEmpty_congr
        intro x
        rw [BB.has_and, BB.has_and]
        by_cases hx : x.rank = castlingRank b.r.side
        · rw [(castleK_geom b.r.side s x).2.1 hsr hv hx]; rfl
        · rw [hoff x hx]
    · simp [hv]
  rw [and_congr_of _ _ _ hbishop, and_congr_of _ _ _ hrook]

theorem make_get_castleQ (b : Board) (mv : Move) (hk : mv.kind = .castleQ) (t : Sq) :
    (makeMove b mv).1.get t =
      if Sq.mk fileE (castlingRank b.r.side) = t then Cell.empty
      else if Sq.mk fileD (castlingRank b.r.side) = t then Cell.mk b.r.side .rook
      else if Sq.mk fileC (castlingRank b.r.side) = t then Cell.mk b.r.side .king
      else if Sq.mk fileA (castlingRank b.r.side) = t then Cell.empty else b.get t := by
  rw [make_get, make_cells, makeBody_cells, clearEp_cells]
  simp only [hk, Tab.get_put]
  rfl

theorem castleQ_geom (c : Color) : ∀ s x : Sq,
    (x.rank = castlingRank c → (bishopStrict s (Sq.mk fileC (castlingRank c))).has x = false) ∧
    (s.rank ≠ castlingRank c → isRookValid s (Sq.mk fileC (castlingRank c)) = true → x.rank = castlingRank c →
      (rookStrict s (Sq.mk fileC (castlingRank c))).has x = false) ∧
    (s.rank = castlingRank c → s.file = (1 : Fin 8) → (rookStrict s (Sq.mk fileC (castlingRank c))).has x = false) := by
  cases c <;> decide +kernel

theorem castleQ_geom2 (c : Color) : ∀ s x : Sq,
    (s.rank = castlingRank c → s ≠ Sq.mk fileA (castlingRank c) → s.file ≠ (1 : Fin 8) → s ≠ Sq.mk fileC (castlingRank c)
      → s ≠ Sq.mk fileD (castlingRank c) → s ≠ Sq.mk fileE (castlingRank c) →
      (rookStrict s (Sq.mk fileC (castlingRank c))).has (Sq.mk fileD (castlingRank c)) = true
      ∧ isRookValid s (Sq.mk fileE (castlingRank c)) = true
      ∧ ((rookStrict s (Sq.mk fileE (castlingRank c))).has x = true →
          (rookStrict s (Sq.mk fileC (castlingRank c))).has x = true ∧ x ≠ Sq.mk fileE (castlingRank c))) := by
  cases c <;> decide +kernel

/-- legality test for queen-side castling: the king's destination is not attacked afterwards -/
theorem isLegal_castleQ (b : Board) (mv : Move) (hs : Shape b) (hwf : mv.isWellFormed = true)
    (hsl : isSemilegal b mv = true) (hk : mv.kind = .castleQ) :
    Checker.isLegal ⟨b, .nil, b.r.side.inv, mv.src⟩ mv = !isCellAttacked (makeMove b mv).1 mv.dst b.r.side.inv := by
  have hb := hs.cons
  have hb' := (make_shape b mv hs hwf hsl).cons
  have ok := makeOk_of_semilegal b mv hs hwf hsl
  obtain ⟨hknull, hsrc, hcol, hdst⟩ := semilegal_base b mv hsl
  obtain ⟨hne, color, piece, hcol', hpiece, hmatch, _, hQ, _⟩ := wf_facts mv hwf hknull
  have hcc : color = b.r.side := by rw [hcol] at hcol'; exact (Option.some.inj hcol').symm
  subst hcc
  have hp := matches_king hmatch (Or.inr hk); subst hp
  obtain ⟨e1, e2⟩ := hQ hk
  have htail := semilegal_tail b mv hsl .king hpiece
  simp only [hk, Bool.and_eq_true, Bool.not_eq_true'] at htail
  obtain ⟨⟨⟨_, hpass⟩, hnE⟩, _⟩ := htail
  unfold MakeOk at ok; simp only [hk] at ok
  obtain ⟨okA, okC, okD, okE⟩ := ok
  obtain ⟨_, _, _, _, _, _, nAC, nAD, nAE, nCD, nCE, nDE⟩ := castle_sq_ne b.r.side
  unfold Checker.isLegal
  simp only [Pre.isLegalPre, if_true]
  rw [isCellAttacked_set, isAttacked_set]
  simp only [BitVec.and_allOnes]
  congr 2
  apply BB.ext_has; intro s
  rw [attackSet_has, attackSet_has]
  have a0 : Cell.empty = 0 := rfl
  -- the opponent's sets are unchanged
  have hP : ∀ p t, ((makeMove b mv).1.piece2 b.r.side.inv p).has t = (b.piece2 b.r.side.inv p).has t := by
    intro p t
    rw [piece2_has _ hb', piece2_has _ hb, make_get_castleQ b mv hk]
    have z1 : Cell.empty ≠ Cell.mk b.r.side.inv p := fun e => mk_ne_zero _ _ e.symm
    by_cases h1 : Sq.mk fileE (castlingRank b.r.side) = t
    · subst h1; rw [if_pos rfl, okE]
      simp [z1, cell_color_ne b.r.side .king p]
    · rw [if_neg h1]
      by_cases h2 : Sq.mk fileD (castlingRank b.r.side) = t
      · subst h2; rw [if_pos rfl, okD]
        simp [z1, cell_color_ne b.r.side .rook p]
      · rw [if_neg h2]
        by_cases h3 : Sq.mk fileC (castlingRank b.r.side) = t
        · subst h3; rw [if_pos rfl, okC]
          simp [z1, cell_color_ne b.r.side .king p]
        · rw [if_neg h3]
          by_cases h4 : Sq.mk fileA (castlingRank b.r.side) = t
          · subst h4; rw [if_pos rfl, okA]
            simp [z1, cell_color_ne b.r.side .rook p]
          · rw [if_neg h4]
  simp only [hP]
  -- occupancies
  have hocc2 : ∀ x, (makeMove b mv).1.all.has x =
      if Sq.mk fileE (castlingRank b.r.side) = x then false
      else if Sq.mk fileD (castlingRank b.r.side) = x then true
      else if Sq.mk fileC (castlingRank b.r.side) = x then true
      else if Sq.mk fileA (castlingRank b.r.side) = x then false else b.all.has x := by
    intro x
    rw [all_has _ hb', make_get_castleQ b mv hk, all_has _ hb]
    have a1 := mk_ne_zero b.r.side .king
    have a2 := mk_ne_zero b.r.side .rook
    split
    · simp [a0]
    · split
      · simp [a2]
      · split
        · simp [a1]
        · split
          · simp [a0]
          · rfl
  have hocc1 : ∀ x, (b.all ^^^ BB.single mv.src).has x = if Sq.mk fileE (castlingRank b.r.side) = x then false else b.all.has x := by
    intro x
    rw [BB.has_xor, BB.has_single, e1, all_has _ hb]
    by_cases h : Sq.mk fileE (castlingRank b.r.side) = x
    · subst h; rw [okE]; simp [mk_ne_zero]
    · simp [h]
  have hrk : ∀ f, (Sq.mk f (castlingRank b.r.side)).rank = castlingRank b.r.side := fun f => by simp
  have hoff : ∀ x, x.rank ≠ castlingRank b.r.side →
      (makeMove b mv).1.all.has x = (b.all ^^^ BB.single mv.src).has x := by
    intro x hx
    have n : ∀ f, ¬ Sq.mk f (castlingRank b.r.side) = x := fun f e => hx (e ▸ hrk f)
    rw [hocc2, hocc1]; simp [n]
  rw [e2]
  -- an enemy man stands on none of the four castling squares
  have hen : ∀ p, (b.piece2 b.r.side.inv p).has s = true →
      s ≠ Sq.mk fileA (castlingRank b.r.side) ∧ s ≠ Sq.mk fileC (castlingRank b.r.side)
      ∧ s ≠ Sq.mk fileD (castlingRank b.r.side) ∧ s ≠ Sq.mk fileE (castlingRank b.r.side) := by
    intro p hp
    rw [piece2_has _ hb] at hp
    have hp : b.get s = Cell.mk b.r.side.inv p := by simpa using hp
    refine ⟨?_, ?_, ?_, ?_⟩ <;> intro e <;> rw [e] at hp
    · rw [okA] at hp; exact cell_color_ne _ _ _ hp
    · rw [okC] at hp; exact mk_ne_zero _ _ hp.symm
    · rw [okD] at hp; exact mk_ne_zero _ _ hp.symm
    · rw [okE] at hp; exact cell_color_ne _ _ _ hp
  have hbishop : ((b.piece2 b.r.side.inv .bishop).has s || (b.piece2 b.r.side.inv .queen).has s) = true →
      (bishopAttack (Sq.mk fileC (castlingRank b.r.side)) (b.all ^^^ BB.single mv.src)).has s
        = (bishopAttack (Sq.mk fileC (castlingRank b.r.side)) (makeMove b mv).1.all).has s := by
    intro _
    rw [bishopAttack_has, bishopAttack_has]
    congr 1
    apply isEmpty_congr
    intro x
    rw [BB.has_and, BB.has_and]
    by_cases hx : x.rank = castlingRank b.r.side
    · rw [(castleQ_geom b.r.side s x).1 hx]; rfl
    · rw [hoff x hx]
  have hrook : ((b.piece2 b.r.side.inv .rook).has s || (b.piece2 b.r.side.inv .queen).has s) = true →
      (rookAttack (Sq.mk fileC (castlingRank b.r.side)) (b.all ^^^ BB.single mv.src)).has s
        = (rookAttack (Sq.mk fileC (castlingRank b.r.side)) (makeMove b mv).1.all).has s := by
    intro hq
    have hq' : ∃ p, (b.piece2 b.r.side.inv p).has s = true ∧ (p = .rook ∨ p = .queen) := by
      rw [Bool.or_eq_true] at hq
      rcases hq with h | h
      · exact ⟨_, h, Or.inl rfl⟩
      · exact ⟨_, h, Or.inr rfl⟩
    obtain ⟨p, hp, hpq⟩ := hq'
    obtain ⟨sA, sC, sD, sE⟩ := hen p hp
    rw [rookAttack_has, rookAttack_has]
    by_cases hv : isRookValid s (Sq.mk fileC (castlingRank b.r.side)) = true
    · by_cases hsr : s.rank = castlingRank b.r.side
      · by_cases hsb : s.file = (1 : Fin 8)
        · -- next to the destination: nothing in between either way
          congr 1
          apply isEmpty_congr
          intro x
          rw [BB.has_and, BB.has_and, (castleQ_geom b.r.side s x).2.2 hsr hsb]; rfl
        · -- beyond the king: blocked by the rook afterwards, and would have checked the king before
          obtain ⟨g1, g2, _⟩ := castleQ_geom2 b.r.side s s hsr sA hsb sC sD sE
          have hreal : (rookStrict s (Sq.mk fileC (castlingRank b.r.side)) &&& (makeMove b mv).1.all).isEmpty = false := by
            cases h : (rookStrict s (Sq.mk fileC (castlingRank b.r.side)) &&& (makeMove b mv).1.all).isEmpty
            · rfl
            · have := (BB.isEmpty_iff _).mp h (Sq.mk fileD (castlingRank b.r.side))
              rw [BB.has_and, g1, hocc2] at this
              simp [nDE.symm] at this
          have hcode : (rookStrict s (Sq.mk fileC (castlingRank b.r.side)) &&& (b.all ^^^ BB.single mv.src)).isEmpty = false := by
            cases h : (rookStrict s (Sq.mk fileC (castlingRank b.r.side)) &&& (b.all ^^^ BB.single mv.src)).isEmpty
            · rfl
            · exfalso
              have hfree := (BB.isEmpty_iff _).mp h
              have hatt : (rookAttack (Sq.mk fileE (castlingRank b.r.side)) b.all).has s = true := by
                rw [rookAttack_has, g2, Bool.true_and, BB.isEmpty_iff]
                intro x
                rw [BB.has_and]
                cases hx : (rookStrict s (Sq.mk fileE (castlingRank b.r.side))).has x
                · rfl
                · obtain ⟨g3, g4⟩ := (castleQ_geom2 b.r.side s x hsr sA hsb sC sD sE).2.2 hx
                  have := hfree x
                  rw [BB.has_and, g3, hocc1] at this
                  have g4' : ¬ Sq.mk fileE (castlingRank b.r.side) = x := fun e => g4 e.symm
                  simpa [g4'] using this
              have : isCellAttacked b (Sq.mk fileE (castlingRank b.r.side)) b.r.side.inv = true := by
                rw [isCellAttacked_set, nonEmpty_iff]
                refine ⟨s, ?_⟩
                rw [attackSet_has, hatt]
                rcases hpq with e | e <;> subst e <;> simp [hp]
              rw [e1] at hnE
              rw [hnE] at this; cases this
          rw [hreal, hcode]
      · congr 1
        apply isEmpty_congr
        intro x
        rw [BB.has_and, BB.has_and]
        by_cases hx : x.rank = castlingRank b.r.side
        · rw [(castleQ_geom b.r.side s x).2.1 hsr hv hx]; rfl
        · rw [hoff x hx]
    · simp [hv]
  rw [and_congr_of _ _ _ hbishop, and_congr_of _ _ _ hrook]

/-- C01/C02 core: `Move::is_legal_unchecked` (the checker with no prefilter) says exactly that the mover's king is
not attacked in the position after the move -/
theorem isLegal_nil (b : Board) (mv : Move) (hs : Shape b) (hwf : mv.isWellFormed = true)
    (hsl : isSemilegal b mv = true) (k : Sq) (hking : b.get k = Cell.mk b.r.side .king)
    (huniq : ∀ t, b.get t = Cell.mk b.r.side .king → t = k) :
    Checker.isLegal ⟨b, .nil, b.r.side.inv, k⟩ mv
      = !isCellAttacked (makeMove b mv).1 (if mv.src = k then mv.dst else k) b.r.side.inv := by
  obtain ⟨hknull, hsrc, hcol, hdst⟩ := semilegal_base b mv hsl
  obtain ⟨hne, color, piece, hcol', hpiece, hmatch, hK, hQ, _⟩ := wf_facts mv hwf hknull
  have hcc : color = b.r.side := by rw [hcol] at hcol'; exact (Option.some.inj hcol').symm
  subst hcc
  have hcell := piece_of_color_piece hcol hpiece
  have ok := makeOk_of_semilegal b mv hs hwf hsl
  by_cases hcK : mv.kind = .castleK
  · unfold MakeOk at ok; simp only [hcK] at ok
    have : mv.src = k := by rw [(hK hcK).1]; exact huniq _ ok.1
    subst this
    rw [if_pos rfl]; exact isLegal_castleK b mv hs hwf hsl hcK
  · by_cases hcQ : mv.kind = .castleQ
    · unfold MakeOk at ok; simp only [hcQ] at ok
      have : mv.src = k := by rw [(hQ hcQ).1]; exact huniq _ ok.2.2.2
      subst this
      rw [if_pos rfl]; exact isLegal_castleQ b mv hs hwf hsl hcQ
    · have hn : NonCastle mv := ⟨hknull, hcK, hcQ⟩
      by_cases hsk : mv.src = k
      · subst hsk
        rw [if_pos rfl]
        have hpk : piece = .king := by
          rw [hsrc, hcell] at hking; exact (mk_inj hking).2
        subst hpk
        have hep : mv.kind ≠ .ep := by
          intro e; have := matches_pawn hmatch (Or.inr (Or.inl e)); cases this
        exact isLegal_king b mv hs hwf hsl hn hep
      · rw [if_neg hsk]; exact isLegal_other b mv hs hwf hsl hn k hsk

end Owl.Lemmas
