/-
The repetition table (`HashRepeat`, a `HashMap<u64, usize>` modelled as an association list) behaves as a finite
multiset of hashes: `push` raises one count, `pop` lowers it and never panics when the count is positive.
-/
import OwlModel.Impl.Chain

namespace Owl.Lemmas
open Owl Owl.Impl

/-- the association list behaves as a finite map: keys distinct, no zero counts -/
def RepWf : Repeat → Prop
  | [] => True
  | e :: r => e.2 ≠ 0 ∧ (∀ x ∈ r, x.1 ≠ e.1) ∧ RepWf r

theorem count_nil (h : BB) : Repeat.count [] h = 0 := rfl

theorem count_cons (e : BB × Nat) (r : Repeat) (h : BB) :
    Repeat.count (e :: r) h = if e.1 = h then e.2 else Repeat.count r h := by
  unfold Repeat.count
  by_cases he : e.1 = h
  · simp [List.find?, he]
  · have : (e.1 == h) = false := by simpa using he
    simp [List.find?, this, he]

theorem count_eq_zero_of_not_mem (r : Repeat) (h : BB) (hn : ∀ x ∈ r, x.1 ≠ h) : Repeat.count r h = 0 := by
  induction r with
  | nil => rfl
  | cons e r ih =>
    rw [count_cons, if_neg (hn e (by simp))]
    exact ih (fun x hx => hn x (by simp [hx]))

theorem any_key_iff (r : Repeat) (h : BB) : (r.any fun e => e.1 == h) = true ↔ ∃ x ∈ r, x.1 = h := by
  simp [List.any_eq_true]

theorem count_pos_of_mem (r : Repeat) (hw : RepWf r) (h : BB) (hm : ∃ x ∈ r, x.1 = h) : Repeat.count r h ≠ 0 := by
  induction r with
  | nil => obtain ⟨x, hx, _⟩ := hm; cases hx
  | cons e r ih =>
    rw [count_cons]
    by_cases he : e.1 = h
    · rw [if_pos he]; exact hw.1
    · rw [if_neg he]
      obtain ⟨x, hx, hxh⟩ := hm
      rcases List.mem_cons.mp hx with rfl | hx
      · exact absurd hxh he
      · exact ih hw.2.2 ⟨x, hx, hxh⟩

theorem inc_count (r : Repeat) (h h' : BB) :
    Repeat.count (r.map fun e => if e.1 == h then (e.1, e.2 + 1) else e) h'
      = if (h' = h ∧ ∃ x ∈ r, x.1 = h) then Repeat.count r h' + 1 else Repeat.count r h' := by
  induction r with
  | nil => simp [count_nil]
  | cons e r ih =>
    simp only [List.map_cons]
    by_cases he : e.1 = h
    · have : (e.1 == h) = true := by simpa using he
      simp only [this, if_true, count_cons]
      by_cases hh : h' = h
      · subst hh; simp [he]
      · have : ¬ e.1 = h' := fun e' => hh (e'.symm.trans he)
        simp only [this, if_false, ih, hh, false_and]
    · have hb : (e.1 == h) = false := by simpa using he
      simp only [hb, Bool.false_eq_true, if_false, count_cons, ih]
      by_cases hh : h' = h
      · subst hh
        simp only [he, if_false, true_and, List.mem_cons, exists_eq_or_imp, false_or]
      · simp [hh]

theorem inc_wf (r : Repeat) (h : BB) (hw : RepWf r) : RepWf (r.map fun e => if e.1 == h then (e.1, e.2 + 1) else e) := by
  induction r with
  | nil => trivial
  | cons e r ih =>
    simp only [List.map_cons]
    refine ⟨?_, ?_, ih hw.2.2⟩
    · split
      · simp
      · exact hw.1
    · intro x hx
      obtain ⟨y, hy, rfl⟩ := List.mem_map.mp hx
      have := hw.2.1 y hy
      split <;> split <;> simpa using this

/-- `HashRepeat::push` -/
theorem push_spec (r : Repeat) (h : BB) (hw : RepWf r) :
    RepWf (r.push h) ∧ ∀ h', (r.push h).count h' = r.count h' + (if h' = h then 1 else 0) := by
  unfold Repeat.push
  by_cases ha : (r.any fun e => e.1 == h) = true
  · rw [if_pos ha]
    refine ⟨inc_wf r h hw, fun h' => ?_⟩
    rw [inc_count]
    have hm := (any_key_iff r h).mp ha
    by_cases hh : h' = h
    · simp [hh, hm]
    · simp [hh]
  · rw [if_neg ha]
    have hn : ∀ x ∈ r, x.1 ≠ h := by
      intro x hx e; exact ha ((any_key_iff r h).mpr ⟨x, hx, e⟩)
    refine ⟨⟨by simp, hn, hw⟩, fun h' => ?_⟩
    rw [count_cons]
    by_cases hh : h' = h
    · subst hh; simp [count_eq_zero_of_not_mem r h' hn]
    · have : ¬ h = h' := fun e => hh e.symm
      simp [hh, this]

def decf (h : BB) (r : Repeat) : Repeat :=
  (r.map fun e => if e.1 == h then (e.1, e.2 - 1) else e).filter fun e => e.2 ≠ 0

theorem decf_keys (h : BB) (r : Repeat) : ∀ x ∈ decf h r, ∃ y ∈ r, y.1 = x.1 := by
  intro x hx
  unfold decf at hx
  obtain ⟨hx1, _⟩ := List.mem_filter.mp hx
  obtain ⟨y, hy, rfl⟩ := List.mem_map.mp hx1
  refine ⟨y, hy, ?_⟩
  split <;> rfl

theorem decf_cons (h : BB) (e : BB × Nat) (r : Repeat) :
    decf h (e :: r) =
      if e.1 = h then (if e.2 - 1 ≠ 0 then (e.1, e.2 - 1) :: decf h r else decf h r)
      else (if e.2 ≠ 0 then e :: decf h r else decf h r) := by
  unfold decf
  by_cases he : e.1 = h
  · have : (e.1 == h) = true := by simpa using he
    simp only [List.map_cons, this, if_true, he, List.filter_cons]
    by_cases h0 : e.2 - 1 = 0 <;> simp [h0]
  · have hb : (e.1 == h) = false := by simpa using he
    simp only [List.map_cons, hb, Bool.false_eq_true, if_false, he, List.filter_cons]
    by_cases h0 : e.2 = 0 <;> simp [h0]

theorem decf_spec (h : BB) (r : Repeat) (hw : RepWf r) :
    RepWf (decf h r) ∧ ∀ h', Repeat.count (decf h r) h' = Repeat.count r h' - (if h' = h then 1 else 0) := by
  induction r with
  | nil => exact ⟨trivial, fun h' => by simp [decf, count_nil]⟩
  | cons e r ih =>
    obtain ⟨ih1, ih2⟩ := ih hw.2.2
    have hkeys : ∀ x ∈ decf h r, x.1 ≠ e.1 := by
      intro x hx
      obtain ⟨y, hy, hyx⟩ := decf_keys h r x hx
      rw [← hyx]; exact hw.2.1 y hy
    rw [decf_cons]
    by_cases he : e.1 = h
    · rw [if_pos he]
      have hr0 : Repeat.count r h = 0 := count_eq_zero_of_not_mem r h (fun x hx => by rw [← he]; exact hw.2.1 x hx)
      by_cases h0 : e.2 - 1 = 0
      · simp only [h0, ne_eq, not_true_eq_false, if_false]
        refine ⟨ih1, fun h' => ?_⟩
        rw [ih2, count_cons]
        by_cases hh : h' = h
        · subst hh; simp only [he, if_true]; rw [hr0]; omega
        · have : ¬ e.1 = h' := fun e' => hh (e'.symm.trans he)
          simp [hh, this]
      · simp only [ne_eq, h0, not_false_eq_true, if_true]
        refine ⟨⟨h0, hkeys, ih1⟩, fun h' => ?_⟩
        rw [count_cons, count_cons]
        by_cases hh : h' = h
        · subst hh; simp [he]
        · have : ¬ e.1 = h' := fun e' => hh (e'.symm.trans he)
          simp only [this, if_false, ih2, hh]
    · rw [if_neg he, if_pos hw.1]
      refine ⟨⟨hw.1, hkeys, ih1⟩, fun h' => ?_⟩
      rw [count_cons, count_cons]
      by_cases hh : e.1 = h'
      · have : ¬ h' = h := fun e' => he (hh.trans e')
        simp [hh, this]
      · simp only [hh, if_false, ih2]

/-- `HashRepeat::pop` -/
theorem pop_spec (r : Repeat) (h : BB) (hw : RepWf r) (hc : r.count h ≠ 0) :
    ∃ r', r.pop? h = some r' ∧ RepWf r' ∧ ∀ h', r'.count h' = r.count h' - (if h' = h then 1 else 0) := by
  have hm : (r.any fun e => e.1 == h) = true := by
    cases ha : (r.any fun e => e.1 == h)
    · exfalso; apply hc
      apply count_eq_zero_of_not_mem
      intro x hx e
      have := (any_key_iff r h).mpr ⟨x, hx, e⟩
      rw [ha] at this; cases this
    · rfl
  refine ⟨decf h r, ?_, decf_spec h r hw⟩
  unfold Repeat.pop?
  rw [if_pos hm]; rfl

end Owl.Lemmas
