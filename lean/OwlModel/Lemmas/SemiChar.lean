/-
C06 building blocks.
(1) `sl_*`: for each kind of move, "well-formed and semilegal" (`Move::is_well_formed` ∧ `Move::is_semilegal`) spelled
    out as conditions on the squares: `sl_piece`, `sl_pawn_simple`, `sl_pawn_promo`, `sl_pawn_double`, `sl_pawn_ep`,
    `sl_castle`.
(2) `mem_gen*`: membership in each generator component in terms of the bit sets it loops over.
-/
import OwlModel.Lemmas.Prefilter
import OwlModel.Lemmas.Shifts

namespace Owl.Lemmas
open Owl Owl.Impl

/-- the attack set a non-pawn piece moves along -/
def pieceAttack (p : Piece) (s : Sq) (all : BB) : BB :=
  match p with
  | .knight => knightAttack s
  | .king => kingAttack s
  | .bishop => bishopAttack s all
  | .rook => rookAttack s all
  | .queen => bishopAttack s all ||| rookAttack s all
  | .pawn => 0#64

theorem mem_genKN (b : Board) (c : Color) (fs fc : Bool) (p : Piece) (hp : p = .knight ∨ p = .king) (mv : Move) :
    mv ∈ genKN b c fs fc p ↔ ∃ s d, (b.piece2 c p).has s = true ∧ (pieceAttack p s b.all).has d = true
      ∧ (allowedMask b c fs fc).has d = true ∧ mv = mkMove c .simple p s d := by
  unfold genKN
  simp only [List.mem_flatMap, List.mem_map, BB.mem_toList, BB.has_and, Bool.and_eq_true]
  constructor
  · rintro ⟨s, hs, d, ⟨hd1, hd2⟩, rfl⟩
    refine ⟨s, d, hs, ?_, hd2, rfl⟩
    rcases hp with rfl | rfl <;> exact hd1
  · rintro ⟨s, d, hs, hd1, hd2, rfl⟩
    refine ⟨s, hs, d, ⟨?_, hd2⟩, rfl⟩
    rcases hp with rfl | rfl <;> exact hd1

theorem mem_genBRQOf (b : Board) (c : Color) (fs fc : Bool) (mv : Move) :
    (mv ∈ genBRQOf b c fs fc true false .bishop ↔ ∃ s d, (b.piece2 c .bishop).has s = true
      ∧ (pieceAttack .bishop s b.all).has d = true ∧ (allowedMask b c fs fc).has d = true ∧ mv = mkMove c .simple .bishop s d)
    ∧ (mv ∈ genBRQOf b c fs fc false true .rook ↔ ∃ s d, (b.piece2 c .rook).has s = true
      ∧ (pieceAttack .rook s b.all).has d = true ∧ (allowedMask b c fs fc).has d = true ∧ mv = mkMove c .simple .rook s d)
    ∧ (mv ∈ genBRQOf b c fs fc true true .queen ↔ ∃ s d, (b.piece2 c .queen).has s = true
      ∧ (pieceAttack .queen s b.all).has d = true ∧ (allowedMask b c fs fc).has d = true ∧ mv = mkMove c .simple .queen s d) := by
  unfold genBRQOf pieceAttack
  simp only [List.mem_flatMap, List.mem_map, BB.mem_toList, BB.has_and, Bool.and_eq_true]
  refine ⟨?_, ?_, ?_⟩ <;> constructor
  all_goals first
    | (rintro ⟨s, hs, d, ⟨hd1, hd2⟩, rfl⟩; exact ⟨s, d, hs, hd1, hd2, rfl⟩)
    | (rintro ⟨s, d, hs, hd1, hd2, rfl⟩; exact ⟨s, hs, d, ⟨hd1, hd2⟩, rfl⟩)

/-- all non-pawn, non-castling moves the generator emits -/
theorem mem_gen_pieces (b : Board) (c : Color) (fs fc : Bool) (mv : Move) :
    (mv ∈ genKN b c fs fc .knight ++ genKN b c fs fc .king ++ genBRQ b c fs fc) ↔
      ∃ p s d, p ≠ .pawn ∧ (b.piece2 c p).has s = true ∧ (pieceAttack p s b.all).has d = true
        ∧ (allowedMask b c fs fc).has d = true ∧ mv = mkMove c .simple p s d := by
  obtain ⟨hB, hR, hQ⟩ := mem_genBRQOf b c fs fc mv
  unfold genBRQ
  simp only [List.mem_append, mem_genKN b c fs fc .knight (Or.inl rfl), mem_genKN b c fs fc .king (Or.inr rfl), hB, hR, hQ]
  constructor
  · rintro ((⟨s, d, h⟩ | ⟨s, d, h⟩) | ((⟨s, d, h⟩ | ⟨s, d, h⟩) | ⟨s, d, h⟩))
    · exact ⟨.knight, s, d, by decide, h⟩
    · exact ⟨.king, s, d, by decide, h⟩
    · exact ⟨.bishop, s, d, by decide, h⟩
    · exact ⟨.rook, s, d, by decide, h⟩
    · exact ⟨.queen, s, d, by decide, h⟩
  · rintro ⟨p, s, d, hp, h⟩
    cases p
    · exact absurd rfl hp
    · exact Or.inl (Or.inr ⟨s, d, h⟩)
    · exact Or.inl (Or.inl ⟨s, d, h⟩)
    · exact Or.inr (Or.inl (Or.inl ⟨s, d, h⟩))
    · exact Or.inr (Or.inl (Or.inr ⟨s, d, h⟩))
    · exact Or.inr (Or.inr ⟨s, d, h⟩)

theorem between_sym : ∀ s d : Sq, isBishopValid d s = isBishopValid s d ∧ isRookValid d s = isRookValid s d
    ∧ bishopStrict d s = bishopStrict s d ∧ rookStrict d s = rookStrict s d
    ∧ ¬ (isBishopValid s d = true ∧ isRookValid s d = true)
    ∧ (isBishopValid s d = true → s ≠ d) ∧ (isRookValid s d = true → s ≠ d) := by decide +kernel

theorem piece_mk (c : Color) (p : Piece) : (Cell.mk c p).piece = some p := by cases c <;> cases p <;> decide

/-- the queen's combined test is the union of the two line tests -/
theorem queen_attack_has (s d : Sq) (all : BB) :
    (bishopAttack s all ||| rookAttack s all).has d =
      ((isBishopValid s d || isRookValid s d) && isQueenSemilegal s d all) := by
  obtain ⟨e1, e2, e3, e4, ex, _, _⟩ := between_sym s d
  rw [BB.has_or, bishopAttack_has, rookAttack_has, e1, e2, e3, e4]
  unfold isQueenSemilegal
  cases hb : isBishopValid s d <;> cases hr : isRookValid s d <;> simp
  exact absurd ⟨hb, hr⟩ ex

/-- C06 (pieces): a simple move of a knight, king, bishop, rook or queen is well-formed and semilegal exactly when
that man stands on the source, the destination is in its attack set and does not hold an own man -/
theorem sl_piece (b : Board) (p : Piece) (hp : p ≠ .pawn) (s d : Sq) :
    ((mkMove b.r.side .simple p s d).isWellFormed = true ∧ isSemilegal b (mkMove b.r.side .simple p s d) = true) ↔
      (b.get s = Cell.mk b.r.side p ∧ (pieceAttack p s b.all).has d = true ∧ (b.get d).color ≠ some b.r.side) := by
  obtain ⟨e1, e2, e3, e4, ex, nb, nr⟩ := between_sym s d
  obtain ⟨k1, k2, _⟩ := self_not_attacked s
  have hne0 : ¬ (Cell.mk b.r.side p = Cell.empty) := mk_ne_zero _ _
  unfold Move.isWellFormed isSemilegal mkMove
  simp only [reduceCtorEq, if_false, color_mk, piece_mk, hne0, Bool.false_or, Kind.matchesPiece, Bool.not_true,
    Bool.false_eq_true, ne_eq, not_true_eq_false, decide_false, Bool.or_false]
  cases p
  · exact absurd rfl hp
  · -- king
    simp only [pieceAttack]
    by_cases hsd : s = d
    · subst hsd; simp [k1]
    · by_cases hg : b.get s = Cell.mk b.r.side .king <;> by_cases hc : (b.get d).color = some b.r.side <;>
        simp [hsd, hg, hc]
  · simp only [pieceAttack]
    by_cases hsd : s = d
    · subst hsd; simp [k2]
    · by_cases hg : b.get s = Cell.mk b.r.side .knight <;> by_cases hc : (b.get d).color = some b.r.side <;>
        simp [hsd, hg, hc]
  · simp only [pieceAttack, bishopAttack_has, e1, e3]
    by_cases hv : isBishopValid s d = true
    · have hsd := nb hv
      by_cases hg : b.get s = Cell.mk b.r.side .bishop <;> by_cases hc : (b.get d).color = some b.r.side <;>
        simp [hsd, hg, hc, hv]
    · have hv' : isBishopValid s d = false := by simpa using hv
      simp [hv']
  · simp only [pieceAttack, rookAttack_has, e2, e4]
    by_cases hv : isRookValid s d = true
    · have hsd := nr hv
      by_cases hg : b.get s = Cell.mk b.r.side .rook <;> by_cases hc : (b.get d).color = some b.r.side <;>
        simp [hsd, hg, hc, hv]
    · have hv' : isRookValid s d = false := by simpa using hv
      simp [hv']
  · simp only [pieceAttack, queen_attack_has]
    by_cases hv : (isBishopValid s d || isRookValid s d) = true
    · have hsd : s ≠ d := by
        rw [Bool.or_eq_true] at hv; rcases hv with h | h
        · exact nb h
        · exact nr h
      by_cases hg : b.get s = Cell.mk b.r.side .queen <;> by_cases hc : (b.get d).color = some b.r.side <;>
        simp [hsd, hg, hc, hv]
    · simp only [Bool.or_eq_true, not_or, Bool.not_eq_true] at hv
      simp [hv.1, hv.2]

theorem rankBB_has : ∀ (r : Fin 8) (s : Sq), (rankBB r).has s = decide (s.rank = r) := by decide +kernel

theorem mem_addPawn (c : Color) (isPromote : Bool) (s d : Sq) (mv : Move) :
    mv ∈ addPawnWithPromote c isPromote s d ↔
      (if isPromote then (mv = mkMove c .promN .pawn s d ∨ mv = mkMove c .promB .pawn s d
          ∨ mv = mkMove c .promR .pawn s d ∨ mv = mkMove c .promQ .pawn s d)
       else mv = mkMove c .simple .pawn s d) := by
  unfold addPawnWithPromote
  cases isPromote <;> simp

/-- pawn pushes: destination empty, the pawn one step behind it -/
theorem mem_genPawnSingle (b : Board) (c : Color) (isPromote : Bool) (pawns : BB) (mv : Move) :
    mv ∈ genPawnSingle b c isPromote pawns ↔
      ∃ d, d.rank ≠ behindRank c ∧ pawns.has (addU d (-(forwardDelta c))) = true ∧ b.all.has d = false
        ∧ mv ∈ addPawnWithPromote c isPromote (addU d (-(forwardDelta c))) d := by
  unfold genPawnSingle
  simp only [List.mem_flatMap, BB.mem_toList, BB.has_and, BB.has_not, advanceForward_has, Bool.and_eq_true,
    decide_eq_true_eq, Bool.not_eq_true']
  constructor
  · rintro ⟨d, ⟨⟨h1, h2⟩, h3⟩, h4⟩; exact ⟨d, h1, h2, h3, h4⟩
  · rintro ⟨d, h1, h2, h3, h4⟩; exact ⟨d, ⟨⟨h1, h2⟩, h3⟩, h4⟩

theorem mem_genPawnDouble (b : Board) (c : Color) (pawns : BB) (mv : Move) :
    mv ∈ genPawnDouble b c pawns ↔
      ∃ d, d.rank ≠ behindRank c ∧ (addU d (-(forwardDelta c))).rank ≠ behindRank c
        ∧ pawns.has (addU (addU d (-(forwardDelta c))) (-(forwardDelta c))) = true
        ∧ b.all.has (addU d (-(forwardDelta c))) = false ∧ b.all.has d = false
        ∧ mv = mkMove c .double .pawn (addU d (-(2 * forwardDelta c))) d := by
  unfold genPawnDouble
  simp only [List.mem_map, BB.mem_toList, BB.has_and, BB.has_not, advanceForward_has, Bool.and_eq_true,
    decide_eq_true_eq, Bool.not_eq_true']
  constructor
  · rintro ⟨d, ⟨⟨h1, ⟨h2, h3⟩, h4⟩, h5⟩, rfl⟩; exact ⟨d, h1, h2, h3, h4, h5, rfl⟩
  · rintro ⟨d, h1, h2, h3, h4, h5, rfl⟩; exact ⟨d, ⟨⟨h1, ⟨h2, h3⟩, h4⟩, h5⟩, rfl⟩

theorem mem_genPawnCaptureOf (b : Board) (c : Color) (isPromote : Bool) (pawns : BB) (mv : Move) :
    mv ∈ genPawnCaptureOf b c isPromote pawns ↔
      (∃ d, (d.rank ≠ behindRank c ∧ d.file ≠ 7) ∧ pawns.has (addU d (-(leftDelta c))) = true
          ∧ (b.color c.inv).has d = true ∧ mv ∈ addPawnWithPromote c isPromote (addU d (-(leftDelta c))) d)
      ∨ (∃ d, (d.rank ≠ behindRank c ∧ d.file ≠ 0) ∧ pawns.has (addU d (-(rightDelta c))) = true
          ∧ (b.color c.inv).has d = true ∧ mv ∈ addPawnWithPromote c isPromote (addU d (-(rightDelta c))) d) := by
  unfold genPawnCaptureOf
  simp only [List.mem_append, List.mem_flatMap, BB.mem_toList, BB.has_and, advanceLeft_has, advanceRight_has,
    Bool.and_eq_true, decide_eq_true_eq]
  constructor
  · rintro (⟨d, ⟨⟨h1, h2⟩, h3⟩, h4⟩ | ⟨d, ⟨⟨h1, h2⟩, h3⟩, h4⟩)
    · exact Or.inl ⟨d, h1, h2, h3, h4⟩
    · exact Or.inr ⟨d, h1, h2, h3, h4⟩
  · rintro (⟨d, h1, h2, h3, h4⟩ | ⟨d, h1, h2, h3, h4⟩)
    · exact Or.inl ⟨d, ⟨⟨h1, h2⟩, h3⟩, h4⟩
    · exact Or.inr ⟨d, ⟨⟨h1, h2⟩, h3⟩, h4⟩

def rankStep (c : Color) (s d : Sq) : Prop :=
  match c with
  | .white => s.rank.val = d.rank.val + 1
  | .black => s.rank.val + 1 = d.rank.val

instance (c : Color) (s d : Sq) : Decidable (rankStep c s d) := by
  unfold rankStep; cases c <;> exact inferInstance

theorem color_inv_iff (x : Cell) (c : Color) : x.color = some c.inv ↔ (x.color ≠ some c ∧ x ≠ Cell.empty) := by
  revert x; cases c <;> decide

theorem pawn_simple_core (sd Pg Pc Pe step : Prop) [Decidable sd] [Decidable Pg] [Decidable Pc] [Decidable Pe]
    [Decidable step] (n sr dr : Nat) (hss : sd → ¬ step) (hec : Pe → ¬ Pc) :
    ((if decide sd = true then false
      else if (decide (n > 1) || decide (sr = 7) || decide (sr = 0) || decide (dr = 7) || decide (dr = 0)) = true then false
      else decide step) = true
     ∧ (if (decide (¬ Pg) || decide Pc) = true then false else (decide (n = 0) == decide Pe)) = true) ↔
    (Pg ∧ sr ≠ 0 ∧ sr ≠ 7 ∧ dr ≠ 0 ∧ dr ≠ 7 ∧ step ∧ ((n = 0 ∧ Pe) ∨ (n = 1 ∧ ¬ Pc ∧ ¬ Pe))) := by
  by_cases h1 : sd
  · have := hss h1; simp [h1, this]
  · by_cases h2 : Pg <;> by_cases h3 : Pc <;> by_cases h4 : Pe <;> by_cases h5 : step <;>
      by_cases h6 : n = 0 <;> by_cases h7 : n = 1 <;> by_cases h8 : sr = 0 <;> by_cases h9 : sr = 7 <;>
      by_cases h10 : dr = 0 <;> by_cases h11 : dr = 7 <;>
      first
        | (exact absurd h3 (hec h4))
        | (simp [h1, h2, h3, h4, h5, h6, h7, h8, h9, h10, h11] <;> omega)
        | (subst h6; simp [h1, h2, h3, h4, h5, h7, h8, h9, h10, h11])
        | (subst h7; simp [h1, h2, h3, h4, h5, h6, h8, h9, h10, h11])

/-- C06 (pawn, kind simple) -/
theorem sl_pawn_simple (b : Board) (s d : Sq) :
    ((mkMove b.r.side .simple .pawn s d).isWellFormed = true ∧ isSemilegal b (mkMove b.r.side .simple .pawn s d) = true) ↔
      (b.get s = Cell.mk b.r.side .pawn ∧ s.rank.val ≠ 0 ∧ s.rank.val ≠ 7 ∧ d.rank.val ≠ 0 ∧ d.rank.val ≠ 7
        ∧ rankStep b.r.side s d
        ∧ ((s.file = d.file ∧ b.get d = Cell.empty) ∨
           (absDiff s.file.val d.file.val = 1 ∧ (b.get d).color = some b.r.side.inv))) := by
  have hne0 : ¬ (Cell.mk b.r.side .pawn = Cell.empty) := mk_ne_zero _ _
  have hfile : (s.file = d.file ↔ absDiff s.file.val d.file.val = 0) ∧ (d.file = s.file ↔ absDiff s.file.val d.file.val = 0) := by
    unfold absDiff
    constructor <;> constructor
    · intro e; rw [e]; simp
    · intro e; apply Fin.ext; split at e <;> omega
    · intro e; rw [e]; simp
    · intro e; apply Fin.ext; split at e <;> omega
  have hss : s = d → ¬ rankStep b.r.side s d := by
    intro e; subst e; unfold rankStep; cases b.r.side <;> simp
  have hec : b.get d = Cell.empty → ¬ (b.get d).color = some b.r.side := by
    intro e; rw [e, empty_color]; simp
  have hstep : (match b.r.side with
      | Color.white => decide (s.rank.val = d.rank.val + 1)
      | Color.black => decide (s.rank.val + 1 = d.rank.val)) = decide (rankStep b.r.side s d) := by
    unfold rankStep; cases b.r.side <;> rfl
  unfold Move.isWellFormed isSemilegal mkMove
  simp only [reduceCtorEq, if_false, color_mk, piece_mk, hne0, Bool.false_or, Kind.matchesPiece, Bool.not_true,
    Bool.false_eq_true, ne_eq, not_true_eq_false, decide_false, Bool.or_false, color_inv_iff, hfile.1, hfile.2]
  have core := pawn_simple_core (s = d) (b.get s = Cell.mk b.r.side .pawn) ((b.get d).color = some b.r.side)
    (b.get d = Cell.empty) (rankStep b.r.side s d) (absDiff s.file.val d.file.val) s.rank.val d.rank.val hss hec
  rw [← hstep] at core
  exact core

theorem pawn_promo_core (sd Pg Pc Pe : Prop) [Decidable sd] [Decidable Pg] [Decidable Pc] [Decidable Pe]
    (n : Nat) (R1 R2 : Prop) [Decidable R1] [Decidable R2] (hss : sd → ¬ (R1 ∧ R2)) (hec : Pe → ¬ Pc) :
    ((if decide sd = true then false else (decide R1 && decide R2 && decide (n ≤ 1)) ) = true
     ∧ (if (decide (¬ Pg) || decide Pc) = true then false else (decide (n = 0) == decide Pe)) = true) ↔
    (Pg ∧ R1 ∧ R2 ∧ ((n = 0 ∧ Pe) ∨ (n = 1 ∧ ¬ Pc ∧ ¬ Pe))) := by
  by_cases h1 : sd
  · have := hss h1; simp only [h1, decide_true, if_true, Bool.false_eq_true, false_and, false_iff]
    intro ⟨_, r1, r2, _⟩; exact this ⟨r1, r2⟩
  · by_cases h2 : Pg <;> by_cases h3 : Pc <;> by_cases h4 : Pe <;> by_cases h5 : R1 <;> by_cases h5' : R2 <;>
      by_cases h6 : n = 0 <;> by_cases h7 : n = 1 <;>
      first
        | (exact absurd h3 (hec h4))
        | (simp [h1, h2, h3, h4, h5, h5', h6, h7] <;> omega)
        | (subst h6; simp [h1, h2, h3, h4, h5, h5', h7])
        | (subst h7; simp [h1, h2, h3, h4, h5, h5', h6])

theorem promo_ranks_ne (c : Color) : ∀ s : Sq, ¬ (s.rank = promoteSrcRank c ∧ s.rank = promoteDstRank c) := by
  cases c <;> decide

/-- C06 (pawn, the four promotion kinds) -/
theorem sl_pawn_promo (b : Board) (k : Kind) (hk : k = .promN ∨ k = .promB ∨ k = .promR ∨ k = .promQ) (s d : Sq) :
    ((mkMove b.r.side k .pawn s d).isWellFormed = true ∧ isSemilegal b (mkMove b.r.side k .pawn s d) = true) ↔
      (b.get s = Cell.mk b.r.side .pawn ∧ s.rank = promoteSrcRank b.r.side ∧ d.rank = promoteDstRank b.r.side
        ∧ ((s.file = d.file ∧ b.get d = Cell.empty) ∨
           (absDiff s.file.val d.file.val = 1 ∧ (b.get d).color = some b.r.side.inv))) := by
  have hne0 : ¬ (Cell.mk b.r.side .pawn = Cell.empty) := mk_ne_zero _ _
  have hfile : (s.file = d.file ↔ absDiff s.file.val d.file.val = 0) ∧ (d.file = s.file ↔ absDiff s.file.val d.file.val = 0) := by
    unfold absDiff
    constructor <;> constructor
    · intro e; rw [e]; simp
    · intro e; apply Fin.ext; split at e <;> omega
    · intro e; rw [e]; simp
    · intro e; apply Fin.ext; split at e <;> omega
  have hss : s = d → ¬ (s.rank = promoteSrcRank b.r.side ∧ d.rank = promoteDstRank b.r.side) := by
    intro e; subst e; exact promo_ranks_ne b.r.side s
  have hec : b.get d = Cell.empty → ¬ (b.get d).color = some b.r.side := by
    intro e; rw [e, empty_color]; simp
  have core := pawn_promo_core (s = d) (b.get s = Cell.mk b.r.side .pawn) ((b.get d).color = some b.r.side)
    (b.get d = Cell.empty) (absDiff s.file.val d.file.val) (s.rank = promoteSrcRank b.r.side)
    (d.rank = promoteDstRank b.r.side) hss hec
  unfold Move.isWellFormed isSemilegal mkMove
  rcases hk with rfl | rfl | rfl | rfl <;>
    simp only [reduceCtorEq, if_false, color_mk, piece_mk, hne0, Bool.false_or, Kind.matchesPiece, Bool.not_true,
      Bool.false_eq_true, ne_eq, not_true_eq_false, decide_false, Bool.or_false, color_inv_iff, hfile.1, hfile.2,
      beq_self_eq_true] <;>
    exact core

theorem double_ranks_ne (c : Color) : ∀ s : Sq, ¬ (s.rank = doubleSrcRank c ∧ s.rank = doubleDstRank c) := by
  cases c <;> decide

/-- C06 (pawn double step) -/
theorem sl_pawn_double (b : Board) (s d : Sq) :
    ((mkMove b.r.side .double .pawn s d).isWellFormed = true ∧ isSemilegal b (mkMove b.r.side .double .pawn s d) = true) ↔
      (b.get s = Cell.mk b.r.side .pawn ∧ s.file = d.file ∧ s.rank = doubleSrcRank b.r.side
        ∧ d.rank = doubleDstRank b.r.side ∧ b.get (addU s (forwardDelta b.r.side)) = Cell.empty ∧ b.get d = Cell.empty) := by
  have hne0 : ¬ (Cell.mk b.r.side .pawn = Cell.empty) := mk_ne_zero _ _
  have hec : b.get d = Cell.empty → ¬ (b.get d).color = some b.r.side := by
    intro e; rw [e, empty_color]; simp
  unfold Move.isWellFormed isSemilegal mkMove
  simp only [reduceCtorEq, if_false, color_mk, piece_mk, hne0, Bool.false_or, Kind.matchesPiece, Bool.not_true,
    Bool.false_eq_true, ne_eq, not_true_eq_false, decide_false, Bool.or_false, beq_self_eq_true]
  by_cases hsd : s = d
  · subst hsd
    have := double_ranks_ne b.r.side s
    simp only [decide_true, if_true, Bool.false_eq_true, false_and, false_iff]
    intro ⟨_, _, r1, r2, _⟩; exact this ⟨r1, r2⟩
  · by_cases hg : b.get s = Cell.mk b.r.side .pawn <;> by_cases he : b.get d = Cell.empty
    · have := hec he
      simp [hsd, hg, he, this, and_assoc]
    · by_cases hc : (b.get d).color = some b.r.side <;> simp [hsd, hg, he, hc]
    · simp [hsd, hg]
    · simp [hsd, hg]

/-- C06 (en passant) -/
theorem sl_pawn_ep (b : Board) (s d : Sq) :
    ((mkMove b.r.side .ep .pawn s d).isWellFormed = true ∧ isSemilegal b (mkMove b.r.side .ep .pawn s d) = true) ↔
      (b.get s = Cell.mk b.r.side .pawn ∧ s.rank = epSrcRank b.r.side ∧ d.rank = epDstRank b.r.side
        ∧ absDiff s.file.val d.file.val = 1 ∧ (b.get d).color ≠ some b.r.side
        ∧ ∃ p, b.r.ep = some p ∧ (p = addU s 1 ∨ p = addU s (-1)) ∧ d = addU p (forwardDelta b.r.side)) := by
  have hne0 : ¬ (Cell.mk b.r.side .pawn = Cell.empty) := mk_ne_zero _ _
  have hss : s = d → ¬ (absDiff s.file.val d.file.val = 1) := by
    intro e; subst e; simp [absDiff]
  unfold Move.isWellFormed isSemilegal mkMove
  simp only [reduceCtorEq, if_false, color_mk, piece_mk, hne0, Bool.false_or, Kind.matchesPiece, Bool.not_true,
    Bool.false_eq_true, ne_eq, not_true_eq_false, decide_false, Bool.or_false, beq_self_eq_true]
  by_cases hsd : s = d
  · have := hss hsd
    simp only [hsd, decide_true, if_true, Bool.false_eq_true, false_and, false_iff]
    intro ⟨_, _, _, h, _⟩; rw [hsd] at this; exact this h
  · cases hep : b.r.ep with
    | none =>
      simp only [hsd, decide_false, Bool.false_eq_true, if_false]
      constructor
      · intro ⟨_, h⟩; split at h <;> cases h
      · intro ⟨_, _, _, _, _, p, hp, _⟩; cases hp
    | some p =>
      by_cases hg : b.get s = Cell.mk b.r.side .pawn <;> by_cases hc : (b.get d).color = some b.r.side
      · simp [hsd, hg, hc]
      · simp only [hsd, hg, hc, decide_false, Bool.false_eq_true, if_false, not_true_eq_false, Bool.or_self,
          Bool.and_eq_true, decide_eq_true_eq, Bool.or_eq_true, not_false_eq_true, true_and, Option.some.injEq,
          exists_eq_left']
        constructor
        · intro ⟨⟨⟨a, b'⟩, c'⟩, e, f⟩; exact ⟨a, b', c', e, f⟩
        · intro ⟨a, b', c', e, f⟩; exact ⟨⟨⟨a, b'⟩, c'⟩, e, f⟩
      · simp [hsd, hg]
      · simp [hsd, hg]

theorem rHasColor_iff (r : Rights) (c : Color) : rHasColor r c = (rHas r c .king || rHas r c .queen) := by
  revert r; cases c <;> decide

theorem castle_sq_facts (c : Color) :
    addU (Sq.mk fileE (castlingRank c)) 1 = Sq.mk fileF (castlingRank c)
    ∧ addU (Sq.mk fileE (castlingRank c)) (-1) = Sq.mk fileD (castlingRank c)
    ∧ Sq.mk fileE (castlingRank c) ≠ Sq.mk fileG (castlingRank c)
    ∧ Sq.mk fileE (castlingRank c) ≠ Sq.mk fileC (castlingRank c) := by cases c <;> decide

/-- C06 (castling): well-formed and semilegal = on the home squares with the right, free path, king not in check and
not crossing an attacked square -/
theorem sl_castle (b : Board) (sd : Side) (s d : Sq) :
    let k : Kind := match sd with | .king => .castleK | .queen => .castleQ
    ((mkMove b.r.side k .king s d).isWellFormed = true ∧ isSemilegal b (mkMove b.r.side k .king s d) = true) ↔
      (s = Sq.mk fileE (castlingRank b.r.side)
        ∧ d = Sq.mk (match sd with | .king => fileG | .queen => fileC) (castlingRank b.r.side)
        ∧ b.get s = Cell.mk b.r.side .king ∧ (b.get d).color ≠ some b.r.side
        ∧ rHas b.r.castling b.r.side sd = true ∧ (b.all &&& castlingPass b.r.side sd).isEmpty = true
        ∧ isCellAttacked b s b.r.side.inv = false
        ∧ isCellAttacked b (match sd with
            | .king => Sq.mk fileF (castlingRank b.r.side) | .queen => Sq.mk fileD (castlingRank b.r.side)) b.r.side.inv = false) := by
  have hne0 : ¬ (Cell.mk b.r.side .king = Cell.empty) := mk_ne_zero _ _
  obtain ⟨f1, f2, n1, n2⟩ := castle_sq_facts b.r.side
  have hgc : Sq.mk fileG (castlingRank b.r.side) ≠ Sq.mk fileC (castlingRank b.r.side) := by
    cases b.r.side <;> decide
  cases sd with
  | king =>
    simp only
    unfold Move.isWellFormed isSemilegal mkMove
    simp only [reduceCtorEq, if_false, color_mk, piece_mk, hne0, Bool.false_or, Kind.matchesPiece, Bool.not_true,
      Bool.false_eq_true, ne_eq, not_true_eq_false, decide_false, Bool.or_false, beq_self_eq_true]
    by_cases hs : s = Sq.mk fileE (castlingRank b.r.side)
    · by_cases hd : d = Sq.mk fileG (castlingRank b.r.side)
      · subst hs hd
        by_cases hg : b.get (Sq.mk fileE (castlingRank b.r.side)) = Cell.mk b.r.side .king <;>
          by_cases hc : (b.get (Sq.mk fileG (castlingRank b.r.side))).color = some b.r.side <;>
          simp [n1, hg, hc, f1, and_assoc]
      · by_cases hsd : s = d
        · simp [hsd, hd]
        · simp [hs, hd, hsd]
    · by_cases hsd : s = d
      · subst hsd; simp [hs]
      · simp [hs, hsd]
  | queen =>
    simp only
    unfold Move.isWellFormed isSemilegal mkMove
    simp only [reduceCtorEq, if_false, color_mk, piece_mk, hne0, Bool.false_or, Kind.matchesPiece, Bool.not_true,
      Bool.false_eq_true, ne_eq, not_true_eq_false, decide_false, Bool.or_false, beq_self_eq_true]
    by_cases hs : s = Sq.mk fileE (castlingRank b.r.side)
    · by_cases hd : d = Sq.mk fileC (castlingRank b.r.side)
      · subst hs hd
        by_cases hg : b.get (Sq.mk fileE (castlingRank b.r.side)) = Cell.mk b.r.side .king <;>
          by_cases hc : (b.get (Sq.mk fileC (castlingRank b.r.side))).color = some b.r.side <;>
          simp [n2, hg, hc, f2, and_assoc]
      · by_cases hsd : s = d
        · simp [hsd, hd]
        · simp [hs, hd, hsd]
    · by_cases hsd : s = d
      · subst hsd; simp [hs]
      · simp [hs, hsd]

theorem mem_ite_single {α : Type} (c : Bool) (a x : α) : x ∈ (if c = true then [a] else []) ↔ (c = true ∧ x = a) := by
  cases c <;> simp

theorem mem_ite_single' {α : Type} (P : Prop) [Decidable P] (a x : α) : x ∈ (if P then [a] else []) ↔ (P ∧ x = a) := by
  by_cases h : P <;> simp [h]

theorem mem_genCastling (b : Board) (c : Color) (mv : Move) :
    mv ∈ genCastling b c ↔
      ((rHas b.r.castling c .king = true ∧ (castlingPass c .king &&& b.all).isEmpty = true
          ∧ isCellAttacked b (Sq.mk fileE (castlingRank c)) c.inv = false
          ∧ isCellAttacked b (Sq.mk fileF (castlingRank c)) c.inv = false
          ∧ mv = mkMove c .castleK .king (Sq.mk fileE (castlingRank c)) (Sq.mk fileG (castlingRank c)))
       ∨ (rHas b.r.castling c .queen = true ∧ (castlingPass c .queen &&& b.all).isEmpty = true
          ∧ isCellAttacked b (Sq.mk fileE (castlingRank c)) c.inv = false
          ∧ isCellAttacked b (Sq.mk fileD (castlingRank c)) c.inv = false
          ∧ mv = mkMove c .castleQ .king (Sq.mk fileE (castlingRank c)) (Sq.mk fileC (castlingRank c)))) := by
  unfold genCastling
  rw [rHasColor_iff]
  cases hk : rHas b.r.castling c .king <;> cases hq : rHas b.r.castling c .queen <;>
    simp only [Bool.or_self, Bool.or_true, Bool.or_false, Bool.not_false, Bool.not_true, if_true, if_false,
      Bool.false_eq_true, List.append_nil, List.nil_append, List.not_mem_nil, false_and, or_false, false_or, true_and,
      List.mem_append, mem_ite_single, mem_ite_single', Bool.and_eq_true, Bool.not_eq_true', and_assoc]

end Owl.Lemmas
