/-
Driver: chain scripts (C13, C14, C17).
-/
import OwlModel.Driver.Ops2

namespace Owl.Drv
open Owl

def opChain (_args : List String) (_impl : String) : String × String := ("~", "-")

/-- perft on the implementation model's legal generator -/
def perftM : Nat → Impl.Board → Nat
  | 0, _ => 1
  | n+1, b => match Impl.legalGen? .all b with
    | none => 0
    | some ms => ms.foldl (fun acc m => acc + perftM n (Impl.makeMove b m).1) 0

end Owl.Drv
