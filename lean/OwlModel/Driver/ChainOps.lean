/-
Driver: chain scripts (C13, C14, C17) — implementation model run and specification verdicts.
-/
import OwlModel.Driver.Ops2

namespace Owl.Drv
open Owl

/-- perft on the implementation model's legal generator -/
def perftM : Nat → Impl.Board → Nat
  | 0, _ => 1
  | n+1, b => match Impl.legalGen? .all b with
    | none => 0
    | some ms => ms.foldl (fun acc m => acc + perftM n (Impl.makeMove b m).1) 0

def underscored (s : String) : String := s.map fun c => if c = ' ' then '_' else c

/-- split tokens at `;` -/
def splitSteps (toks : List String) : List (List String) :=
  let (cur, acc) := toks.foldl (fun (st : List String × List (List String)) t =>
    if t = ";" then ([], st.1.reverse :: st.2) else (t :: st.1, st.2)) ([], [])
  ((cur.reverse :: acc).reverse).filter (fun l => !l.isEmpty)

/-! ### implementation model -/

structure MState where
  cur : Impl.Chain
  other : Option Impl.Chain

def stM (c : Impl.Chain) : String :=
  s!"len={c.stack.length} out={fmtOutcome c.outcome} last={underscored (fmtFull c.board)} start={underscored (fmtRaw c.start)} moves={fmtMovesInOrder (c.stack.map (·.1))}"

def pushResM (st : MState) (r : Res Impl.MakeErr Impl.Chain) : MState × String :=
  match r with
  | .ok ch => ({ st with cur := ch }, "ok")
  | .err e => (st, "err:" ++ fmtMakeErr e)
  | .trap _ => (st, "panic")

def filterOfStr (s : String) : Option Impl.OutcomeFilter :=
  if s = "f" then some .force else if s = "s" then some .strict else if s = "r" then some .relaxed else none

def numPolicyOfStr (s : String) : Option Impl.NumberPolicy :=
  if s = "o" then some .omit else if s = "b" then some .fromBoard
  else if s.startsWith "c" then (sdrop s 1).toNat?.map .custom else none

def styleOfStr (s : String) : Option Impl.MoveStyle :=
  if s = "s" then some .san else if s = "u" then some .sanUtf8 else if s = "U" then some .uci else none

def walkM (ch : Impl.Chain) (letters : String) : String :=
  let rec go (ls : List Char) (w : Impl.Walker) (acc : List String) : Option (List String) :=
    match ls with
    | [] => some acc.reverse
    | 'n' :: rest =>
      (match w.next? with
       | none => none
       | some (w', none) => go rest w' ("none" :: acc)
       | some (w', some (b, m)) => go rest w' ((underscored (fmtFull b) ++ "/" ++ fmtMove m) :: acc))
    | 'p' :: rest =>
      (match w.prev? with
       | none => none
       | some (w', none) => go rest w' ("none" :: acc)
       | some (w', some (b, m)) => go rest w' ((underscored (fmtFull b) ++ "/" ++ fmtMove m) :: acc))
    | 's' :: rest => go rest w.toStart ("." :: acc)
    | 'e' :: rest => go rest w.toEnd ("." :: acc)
    | _ => none
  match go letters.toList ch.walk [] with
  | none => "panic"
  | some obs => (if obs.isEmpty then "-" else String.intercalate "," obs) ++ " unch=1"

def stepM (st : MState) (step : List String) : MState × String :=
  let ch := st.cur
  match step with
  | ["pm", mv] =>
    if ch.isFinished then (st, "skip") else
    (match parseMove mv with
     | none => (st, "badstep")
     | some m => if !m.isWellFormed then (st, "notwf") else pushResM st (ch.pushWith (Impl.makeMoveLike ch.board m)))
  | ["pU", s] =>
    if ch.isFinished then (st, "skip") else
    (match parseStr s with
     | none => (st, "badstep")
     | some t => match Impl.parseUci t with
       | .ok u => pushResM st (ch.pushWith (Impl.makeUciMove ch.board u))
       | .err _ => (st, "parse-err") | .trap _ => (st, "panic"))
  | ["pu", s] =>
    if ch.isFinished then (st, "skip") else
    (match parseStr s with
     | none => (st, "badstep")
     | some t => pushResM st (ch.pushWith (Impl.makeUciStr ch.board t)))
  | ["pS", s] =>
    if ch.isFinished then (st, "skip") else
    (match parseStr s with
     | none => (st, "badstep")
     | some t => match Impl.parseSan t with
       | .ok sm => pushResM st (ch.pushWith (Impl.makeSanMove ch.board sm))
       | .err _ => (st, "parse-err") | .trap _ => (st, "panic"))
  | ["ps", s] =>
    if ch.isFinished then (st, "skip") else
    (match parseStr s with
     | none => (st, "badstep")
     | some t => pushResM st (ch.pushWith (Impl.makeSanStr ch.board t)))
  | ["pn"] =>
    -- the null move recorded with `push_unchecked` (contract: the game is not finished, the side to move not in check)
    if ch.isFinished then (st, "skip") else
    (match Impl.isCheck? ch.board with
     | some false =>
       let (b', u) := Impl.makeMove ch.board Impl.Move.null
       ({ st with cur := ch.finishPush b' Impl.Move.null u }, "ok")
     | _ => (st, "skip"))
  | ["pl", s] =>
    if ch.isFinished then (st, "skip") else
    (match parseStr s with
     | none => (st, "badstep")
     | some t =>
       let (ch', fail) := ch.pushUciList t
       match fail with
       | none => ({ st with cur := ch' }, "ok")
       | some (pos, .err e) => ({ st with cur := ch' }, s!"err@{pos}:" ++ fmtMakeErr e)
       | some (_, _) => (st, "panic"))
  | ["pop"] =>
    (match ch.pop? with
     | none => (st, "panic")
     | some (ch', none) => ({ st with cur := ch' }, "none")
     | some (ch', some m) => ({ st with cur := ch' }, fmtMove m))
  | ["so", o] =>
    if ch.isFinished then (st, "skip") else
    (match parseOutcome o with
     | some (some oc) => ({ st with cur := { ch with outcome := some oc } }, "ok")
     | _ => (st, "badstep"))
  | ["co"] => ({ st with cur := { ch with outcome := none } }, "ok")
  | ["ro", o] =>
    (match parseOutcome o with
     | some oc => ({ st with cur := { ch with outcome := oc } }, "ok")
     | none => (st, "badstep"))
  | ["calc"] => (st, match ch.calcOutcome? with | some o => fmtOutcome o | none => "panic")
  | ["auto", f] =>
    if ch.isFinished then (st, "skip") else
    (match filterOfStr f with
     | none => (st, "badstep")
     | some f => match ch.setAutoOutcome? f with
       | none => (st, "panic")
       | some ch' => ({ st with cur := ch' }, fmtOutcome ch'.outcome))
  | ["st"] => (st, stM ch)
  | ["uci"] => (st, fmtStr ch.uciList)
  | ["rebuild"] =>
    (match Impl.validate ch.start with
     | .ok b0 =>
       let (ch', fail) := (Impl.Chain.new b0).pushUciList ch.uciList
       (match fail with
        | none => (st, "eq=" ++ bool01 (ch'.beq { ch with outcome := none }))
        | some (pos, .err e) => (st, s!"err@{pos}:" ++ fmtMakeErr e)
        | some (_, _) => (st, "panic"))
     | .err e => (st, "err:start:" ++ fmtValidateErr e)
     | .trap _ => (st, "panic"))
  | ["sty", n, s, g] =>
    (match numPolicyOfStr n, styleOfStr s with
     | some n, some s =>
       (match ch.styled? n s (g == "s") with
        | some t => (st, fmtStr t)
        | none => (st, "panic"))
     | _, _ => (st, "badstep"))
  | ["w", letters] => (st, walkM ch letters)
  | ["clone"] => ({ st with other := some ch }, "ok")
  | "alt" :: rawToks =>
    (match parseRaw rawToks with
     | some (raw, []) =>
       (match Impl.validate raw with
        | .ok b0 =>
          let (ch', fail) := (Impl.Chain.new b0).pushUciList ch.uciList
          (match fail with
           | none => ({ st with other := some ch' }, "ok")
           | some (pos, .err _) => (st, s!"err@{pos}")
           | some (_, _) => (st, "panic"))
        | _ => (st, "invalid"))
     | _ => (st, "badstep"))
  | ["swap"] =>
    (match st.other with
     | some o => ({ cur := o, other := some ch }, "ok")
     | none => (st, "n/a"))
  | ["eq"] =>
    (match st.other with
     | some o => (st, if ch.beq o then "==" else "!=")
     | none => (st, "n/a"))
  | _ => (st, "badstep")

def chainM (raw : Impl.RawBoard) (steps : List (List String)) : String :=
  match implBoard? raw with
  | none => "invalid"
  | some b =>
    if steps.isEmpty then "-" else
    let (_, obs) := steps.foldl (fun (acc : MState × List String) step =>
      let (st', o) := stepM acc.1 step
      (st', o :: acc.2)) ({ cur := Impl.Chain.new b, other := none }, [])
    String.intercalate ";" obs.reverse

/-! ### specification: a chain is (start, accepted moves, stored outcome) -/

structure SChain where
  start : Spec.Pos
  moves : List Spec.Move
  outcome : Option Impl.Outcome     -- a stored label; only its winner matters to the printer

structure SState where
  cur : SChain
  other : Option SChain

def SChain.pos (c : SChain) : Spec.Pos := Spec.replay c.start c.moves

def stS (c : SChain) : String :=
  s!"len={c.moves.length} out={fmtOutcome c.outcome} last={underscored (fullOfPos c.pos)} start={underscored (fmtRaw (conc c.start))} moves={fmtMovesInOrder (c.moves.map concMove)}"

def specFilter (f : Impl.OutcomeFilter) : Spec.Filter :=
  match f with | .force => .force | .strict => .strict | .relaxed => .relaxed

def specOutcomeOfStr (s : String) : Option (Option Spec.Outcome) :=
  [none, some (Spec.Outcome.checkmate .white), some (.checkmate .black), some .stalemate, some .insufficient,
   some .moves75, some .moves50, some .repeat5, some .repeat3].find? fun o => fmtSpecOutcome o == s

def implOutcomeOfSpec : Spec.Outcome → Impl.Outcome
  | .checkmate c => .win c .checkmate | .stalemate => .draw .stalemate | .insufficient => .draw .insufficientMaterial
  | .moves75 => .draw .moves75 | .moves50 => .draw .moves50 | .repeat5 => .draw .repeat5 | .repeat3 => .draw .repeat3

def winnerOf : Option Impl.Outcome → Option (Option Color)
  | none => none
  | some (.win c _) => some (some c)
  | some (.draw _) => some none

/-- verdict on a push: `d` = the legal moves the pushed value denotes -/
def pushS (st : SState) (d : List Spec.Move) (impl : String) (allowParseErr : Bool) : SState × String :=
  match d with
  | [m] =>
    if impl == "ok" then ({ st with cur := { st.cur with moves := st.cur.moves ++ [m] } }, ok)
    else (st, bad "a legal move was refused")
  | _ =>
    if impl.startsWith "err" || (allowParseErr && impl == "parse-err") then (st, ok)
    else (st, bad s!"push accepted although the value denotes {d.length} legal moves")

/-- replay UCI texts from another start: the moves they denote there, or the index of the first that denotes none -/
def altReplay (p : Spec.Pos) (ts : List (List Nat)) (acc : List Spec.Move) (k : Nat) : Except Nat (List Spec.Move) :=
  match ts with
  | [] => .ok acc
  | t :: rest =>
    match denotedUci p t true with
    | [m] => altReplay (Spec.apply p m) rest (acc ++ [m]) (k + 1)
    | _ => .error k

def walkS (c : SChain) (letters : String) : String :=
  let n := c.moves.length
  let obsAt (i : Nat) : String :=
    match c.moves[i]? with
    | some m => underscored (fullOfPos (Spec.replay c.start (c.moves.take i))) ++ "/" ++ fmtMove (concMove m)
    | none => "none"
  let (_, acc) := letters.toList.foldl (fun (st : Nat × List String) ch =>
    let pos := st.1
    match ch with
    | 'n' => if pos = n then (pos, "none" :: st.2) else (pos + 1, obsAt pos :: st.2)
    | 'p' => if pos = 0 then (pos, "none" :: st.2) else (pos - 1, obsAt (pos - 1) :: st.2)
    | 's' => (0, "." :: st.2)
    | 'e' => (n, "." :: st.2)
    | _ => st) (0, [])
  (if acc.isEmpty then "-" else String.intercalate "," acc.reverse) ++ " unch=1"

def stepS (st : SState) (step : List String) (impl : String) : SState × String :=
  let ch := st.cur
  let p := ch.pos
  let finished := ch.outcome.isSome
  if impl == "panic" then (st, bad "panic") else
  match step with
  | ["pm", mv] =>
    if finished then (st, expect "skip" impl) else
    (match parseMove mv with
     | none => (st, "-")
     | some m =>
       if !Spec.geomPossible m.kind (absCell m.cell) m.src m.dst then (st, expect "notwf" impl) else
       match absMove m with
       | some sm => pushS st (if (Spec.legalMoves p).contains sm then [sm] else []) impl false
       | none => pushS st [] impl false)
  | ["pU", s] | ["pu", s] =>
    if finished then (st, expect "skip" impl) else
    (match parseStr s with
     | none => (st, "-")
     | some t =>
       if t == [48, 48, 48, 48] then pushS st [] impl false
       else if !uciLanguage t then
         (if step.head? == some "pU" then (st, expect "parse-err" impl) else pushS st [] impl false)
       else pushS st (denotedUci p t true) impl false)
  | ["pS", s] | ["ps", s] =>
    if finished then (st, expect "skip" impl) else
    (match parseStr s with
     | none => (st, "-")
     | some t => pushS st (Spec.San.denotes p t) impl (step.head? == some "pS"))
  | ["pl", s] =>
    if finished then (st, expect "skip" impl) else
    (match parseStr s with
     | none => (st, "-")
     | some t =>
       let toks := Impl.splitAsciiWhitespace t
       let rec go (c : SChain) (ts : List (List Nat)) (pos : Nat) : SChain × Option Nat :=
         match ts with
         | [] => (c, none)
         | tk :: rest =>
           let d := if tk == [48, 48, 48, 48] || !uciLanguage tk then [] else denotedUci c.pos tk true
           match d with
           | [m] => go { c with moves := c.moves ++ [m] } rest (pos + 1)
           | _ => (c, some pos)
       let (c', fail) := go ch toks 0
       match fail with
       | none => ({ st with cur := c' }, expect "ok" impl)
       | some pos => ({ st with cur := c' }, if impl.startsWith s!"err@{pos}:" then ok else bad s!"expected err@{pos}"))
  | ["pop"] =>
    (match ch.moves.getLast? with
     | none => (st, expect "none" impl)
     | some m => ({ st with cur := { ch with moves := ch.moves.dropLast, outcome := none } },
                  expect (fmtMove (concMove m)) impl))
  | ["so", o] =>
    if finished then (st, expect "skip" impl) else
    (match parseOutcome o with
     | some (some oc) => ({ st with cur := { ch with outcome := some oc } }, expect "ok" impl)
     | _ => (st, "-"))
  | ["co"] => ({ st with cur := { ch with outcome := none } }, expect "ok" impl)
  | ["ro", o] =>
    (match parseOutcome o with
     | some oc => ({ st with cur := { ch with outcome := oc } }, expect "ok" impl)
     | none => (st, "-"))
  | ["calc"] =>
    let allowed := (Spec.chainOutcomes ch.start ch.moves).map fmtSpecOutcome
    (st, if allowed.contains impl then ok else bad s!"calc: allowed={allowed}")
  | ["auto", f] =>
    if finished then (st, expect "skip" impl) else
    (match filterOfStr f with
     | none => (st, "-")
     | some f =>
       let allowed := Spec.chainOutcomes ch.start ch.moves
       let passing := allowed.filter fun o => match o with | some oc => Spec.passes oc (specFilter f) | none => false
       if passing.isEmpty then (st, expect "none" impl)
       else match specOutcomeOfStr impl with
         | some (some oc) =>
           if passing.contains (some oc) then ({ st with cur := { ch with outcome := some (implOutcomeOfSpec oc) } }, ok)
           else (st, bad s!"auto: allowed={passing.map fmtSpecOutcome}")
         | _ => (st, bad s!"auto: allowed={passing.map fmtSpecOutcome}"))
  | ["st"] => (st, expect (stS ch) impl)
  | ["uci"] =>
    (st, expect (fmtStr ((ch.moves.map Spec.Uci.write).foldl (fun (acc : List Nat × Bool) t =>
      ((if acc.2 then acc.1 else acc.1 ++ [32]) ++ t, false)) ([], true)).1) impl)
  | ["rebuild"] => (st, expect "eq=1" impl)
  | ["sty", n, s, g] =>
    (match numPolicyOfStr n, styleOfStr s with
     | some n, some s =>
       let n' : Spec.NumPolicy := match n with | .omit => .omit | .fromBoard => .fromBoard | .custom k => .custom k
       let s' : Spec.TextStyle := match s with | .san => .san | .sanUtf8 => .sanFig | .uci => .uci
       let status := if g == "s" then some (winnerOf ch.outcome) else none
       (st, expect (fmtStr (Spec.render ch.start ch.moves n' s' status)) impl)
     | _, _ => (st, "-"))
  | ["w", letters] => (st, expect (walkS ch letters) impl)
  | ["clone"] => ({ st with other := some ch }, expect "ok" impl)
  | "alt" :: rawToks =>
    (match parseRaw rawToks with
     | some (raw, []) =>
       if !Spec.ValidRaw (abs raw) then (st, expect "invalid" impl) else
       let start := Spec.normalise (abs raw)
       let texts := ch.moves.map Spec.Uci.write
       (match altReplay start texts [] 0 with
        | .ok ms => ({ st with other := some { start := start, moves := ms, outcome := none } }, expect "ok" impl)
        | .error k => (st, expect s!"err@{k}" impl))
     | _ => (st, "-"))
  | ["swap"] =>
    (match st.other with
     | some o => ({ cur := o, other := some ch }, expect "ok" impl)
     | none => (st, expect "n/a" impl))
  | ["eq"] =>
    (match st.other with
     | some o =>
       let same := decide (o.start = ch.start) && decide (o.moves = ch.moves) && decide (o.outcome = ch.outcome)
       (st, expect (if same then "==" else "!=") impl)
     | none => (st, expect "n/a" impl))
  | _ => (st, "-")

def chainS (raw : Impl.RawBoard) (steps : List (List String)) (impl : String) : String :=
  match specPos? raw with
  | none => expect "invalid" impl
  | some p =>
    if steps.isEmpty then "-" else
    -- a null move is not a move of the rules: scripts that record one are judged by the model correspondence alone
    if steps.contains ["pn"] then "-" else
    let obs := impl.splitOn ";"
    if obs.length ≠ steps.length then bad "number of observations differs from number of steps" else
    let (_, verdict, _) := (steps.zip obs).foldl (fun (acc : SState × Option String × Nat) so =>
      match acc.2.1 with
      | some _ => acc
      | none =>
        let (st', v) := stepS acc.1 so.1 so.2
        if v.startsWith "bad" then (st', some s!"step {acc.2.2} ({String.intercalate " " so.1}): {v}", acc.2.2 + 1)
        else (st', none, acc.2.2 + 1)) ({ cur := { start := p, moves := [], outcome := none }, other := none }, none, 0)
    match verdict with
    | some v => "bad " ++ v
    | none => ok

def opChain (args : List String) (impl : String) : String × String :=
  match parseRaw args with
  | none => ("badop", "-")
  | some (raw, rest) =>
    let steps := splitSteps rest
    (chainM raw steps, chainS raw steps impl)

end Owl.Drv
