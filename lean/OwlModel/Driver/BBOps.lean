/-
Driver: bitboard and conversion operations (C20): model answers and set-theoretic verdicts.
-/
import OwlModel.Driver.Ops2
import OwlModel.Impl.Bits

namespace Owl.Drv
open Owl

def fmtSqList (l : List Sq) : String := if l.isEmpty then "-" else String.intercalate "," (l.map fun s => toString s.val)

def parseInt (s : String) : Option Int :=
  if s.startsWith "-" then (sdrop s 1).toNat?.map fun n => -(n : Int) else s.toNat?.map fun n => (n : Int)

/-- the set of squares of a bitboard, by membership test -/
def setOf (b : BB) : List Sq := Sq.all.filter fun s => b.has s
def bbOfSet (l : List Sq) : BB := BB.ofList l

def specFlipRank (s : Sq) : Option Sq := Spec.mkSq? (Spec.file s) (7 - (Spec.rank s : Int))
def specFlipFile (s : Sq) : Option Sq := Spec.mkSq? (7 - (Spec.file s : Int)) (Spec.rank s)

def constM : String :=
  String.intercalate "," (
    ((List.range 15).map fun i => hexBB (tabGet Gen.diagTab i))
    ++ ((List.range 15).map fun i => hexBB (tabGet Gen.antidiagTab i))
    ++ ((List.range 8).map fun i => hexBB (tabGet Gen.rankTab i))
    ++ ((List.range 8).map fun i => hexBB (tabGet Gen.fileTab i))
    ++ [hexBB Impl.lightSquares, hexBB Impl.darkSquares])

def constS : String :=
  let sel (p : Sq → Bool) := hexBB (bbOfSet (Sq.all.filter p))
  String.intercalate "," (
    ((List.range 15).map fun i => sel fun s => Spec.file s + Spec.rank s = i)
    ++ ((List.range 15).map fun i => sel fun s => 7 - Spec.rank s + Spec.file s = i)
    ++ ((List.range 8).map fun i => sel fun s => Spec.rank s = i)
    ++ ((List.range 8).map fun i => sel fun s => Spec.file s = i)
    ++ [sel Spec.squareLight, sel fun s => !Spec.squareLight s])

def opBB (args : List String) (impl : String) : String × String :=
  match args with
  | [op, a, b] =>
    (match op with
     | "and" | "or" | "xor" | "andassign" | "orassign" | "xorassign" =>
       (match parseBB a, parseBB b with
        | some x, some y =>
          -- the compound-assignment forms of the implementation have the same meaning as the by-value ones
          let op := match op with | "andassign" => "and" | "orassign" => "or" | "xorassign" => "xor" | o => o
          let m := match op with | "and" => x &&& y | "or" => x ||| y | _ => x ^^^ y
          let s := match op with
            | "and" => (setOf x).filter (setOf y).contains
            | "or" => Sq.all.filter fun t => (setOf x).contains t || (setOf y).contains t
            | _ => Sq.all.filter fun t => (setOf x).contains t != (setOf y).contains t
          (hexBB m, expect (hexBB (bbOfSet s)) impl)
        | _, _ => ("badop", "-"))
     | "with" | "without" | "has" =>
       (match parseBB a, parseSq b with
        | some x, some t =>
          (match op with
           | "with" => (hexBB (x ||| BB.single t), expect (hexBB (bbOfSet (t :: setOf x))) impl)
           | "without" => (hexBB (x &&& ~~~ BB.single t), expect (hexBB (bbOfSet ((setOf x).filter (· ≠ t)))) impl)
           | _ => (bool01 (((x >>> t.val) &&& 1#64) != 0#64), expect (bool01 ((setOf x).contains t)) impl))
        | _, _ => ("badop", "-"))
     | "deposit" =>
       (match parseBB a, parseBB b with
        | some mask, some x =>
          let pos := setOf mask
          let s := (List.range pos.length).filterMap fun i => if x.getLsbD i then pos[i]? else none
          (hexBB (Impl.depositBits mask x), expect (hexBB (bbOfSet s)) impl)
        | _, _ => ("badop", "-"))
     | "shl" | "shr" =>
       (match parseBB a, b.toNat? with
        | some x, some n =>
          if op = "shl" then
            (hexBB (x <<< n), expect (hexBB (bbOfSet ((setOf x).filterMap fun s => if h : s.val + n < 64 then some ⟨s.val + n, h⟩ else none))) impl)
          else
            (hexBB (x >>> n), expect (hexBB (bbOfSet ((setOf x).filterMap fun s => if h : n ≤ s.val then some ⟨s.val - n, by have := s.isLt; omega⟩ else none))) impl)
        | _, _ => ("badop", "-"))
     | "add" =>
       (match parseSq a, parseInt b with
        | some s, some d =>
          let r := match s.add? d with | some t => toString t.val | none => "panic"
          let v : Int := (s.val : Int) + d
          (r, expect (if 0 ≤ v ∧ v < 64 then toString v else "panic") impl)
        | _, _ => ("badop", "-"))
     | _ => ("badop", "-"))
  | [op, a] =>
    (match op with
     | "not" =>
       (match parseBB a with
        | some x => (hexBB (~~~ x), expect (hexBB (bbOfSet (Sq.all.filter fun t => !(setOf x).contains t))) impl)
        | none => ("badop", "-"))
     | "len" =>
       (match parseBB a with
        | some x => (toString (Impl.popCount x), expect (toString (setOf x).length) impl)
        | none => ("badop", "-"))
     | "iter" =>
       (match parseBB a with
        | some x => (fmtSqList (Impl.bbIter x), expect (fmtSqList (setOf x)) impl)
        | none => ("badop", "-"))
     | "fliprank" =>
       (match parseBB a with
        | some x => (hexBB (Impl.flippedRank x), expect (hexBB (bbOfSet ((setOf x).filterMap specFlipRank))) impl)
        | none => ("badop", "-"))
     | "flipfile" =>
       (match parseBB a with
        | some x => (hexBB (Impl.flippedFile x), expect (hexBB (bbOfSet ((setOf x).filterMap specFlipFile))) impl)
        | none => ("badop", "-"))
     | "sq" =>
       (match parseSq a with
        | some s =>
          let m := s!"{s.file.val} {s.rank.val} {s.flipRank.val} {s.flipFile.val} {s.file.val + s.rank.val} {7 - s.rank.val + s.file.val}"
          let f := Spec.file s; let r := Spec.rank s
          let e := s!"{f} {r} {(7 - r) * 8 + f} {r * 8 + (7 - f)} {f + r} {7 - r + f}"
          (m, expect e impl)
        | none => ("badop", "-"))
     | _ => ("badop", "-"))
  | ["shift", a, df, dr] =>
    (match parseSq a, parseInt df, parseInt dr with
     | some s, some df, some dr =>
       let m := match s.shift df dr with | some t => toString t.val | none => "-"
       let e := match Spec.step s (df, dr) with | some t => toString t.val | none => "-"
       (m, expect e impl)
     | _, _, _ => ("badop", "-"))
  | ["const"] => (constM, expect constS impl)
  | _ => ("badop", "-")

/-- indices probed at the checked index constructors: 0..70 and values whose low bits look like a valid index -/
def extraProbes : List Nat :=
  [127, 128, 191, 192, 255, 256, 257, 300, 319, 320, 321, 511, 512, 575, 576, 1023, 1024, 4095, 4096, 65535, 65536, 65599,
   65600, 16777216, 4294967295, 4294967296, 4294967297, 4294967359, 9223372036854775808, 18446744073709551615]

def probes (f : Nat → Bool) : String :=
  String.ofList ((List.range 71 ++ extraProbes).map fun n => if f n then '1' else '0')

/-- the 71 probes 0..70 alone (the colour constructor is probed by character, not by index) -/
def probes71 (f : Nat → Bool) : String := String.ofList ((List.range 71).map fun n => if f n then '1' else '0')

def opConv (ty : String) (impl : String) : String × String :=
  let ch (n : Nat) : String := String.singleton (Char.ofNat n)
  let str (l : List Nat) : String := String.ofList (l.map Char.ofNat)
  match ty with
  | "file" =>
    (String.intercalate "," ((List.finRange 8).map fun f => s!"{f.val}:{ch (Impl.fileByte f)}") ++ " " ++ probes (· < 8),
     expect "0:a,1:b,2:c,3:d,4:e,5:f,6:g,7:h 11111111000000000000000000000000000000000000000000000000000000000000000000000000000000000000000000000" impl)
  | "rank" =>
    (String.intercalate "," ((List.finRange 8).map fun r => s!"{r.val}:{ch (Impl.rankByte r)}") ++ " " ++ probes (· < 8),
     expect "0:8,1:7,2:6,3:5,4:4,5:3,6:2,7:1 11111111000000000000000000000000000000000000000000000000000000000000000000000000000000000000000000000" impl)
  | "coord" =>
    let files := "abcdefgh".toList
    let e := String.intercalate "," ((List.range 64).map fun i =>
      s!"{i}:{files.getD (i % 8) '?'}{8 - i / 8}") ++ " " ++ probes (· < 64)
    (String.intercalate "," (Sq.all.map fun s => s!"{s.val}:{str (Impl.fmtCoord s)}") ++ " " ++ probes (· < 64), expect e impl)
  | "piece" =>
    let names := ["Pawn", "King", "Knight", "Bishop", "Rook", "Queen"]
    let m := String.intercalate "," (Piece.all.map fun p => s!"{p.idx}:{names.getD p.idx "?"}") ++ " "
      ++ probes fun n => (Piece.ofIdx n).isSome
    (m, expect "0:Pawn,1:King,2:Knight,3:Bishop,4:Rook,5:Queen 11111100000000000000000000000000000000000000000000000000000000000000000000000000000000000000000000000" impl)
  | "cell" =>
    (String.intercalate "," (Cell.all.map fun c => s!"{c.val}:{ch (Impl.cellByte c)}") ++ " " ++ probes (· < 13),
     expect "0:.,1:P,2:K,3:N,4:B,5:R,6:Q,7:p,8:k,9:n,10:b,11:r,12:q 11111111111110000000000000000000000000000000000000000000000000000000000000000000000000000000000000000" impl)
  | "color" =>
    (s!"0:{ch (Impl.colorByte .white)},1:{ch (Impl.colorByte .black)} " ++ probes71 fun n => (Impl.colorOfByte (n + 33)).isSome,
     expect ("0:w,1:b " ++ probes71 fun n => n + 33 = 98 || n + 33 = 119) impl)
  | "rights" =>
    let e := "0:-,1:Q,2:K,3:KQ,4:q,5:Qq,6:Kq,7:KQq,8:k,9:Qk,10:Kk,11:KQk,12:kq,13:Qkq,14:Kkq,15:KQkq "
      ++ probes (· < 16)
    (String.intercalate "," ((List.finRange 16).map fun r => s!"{r.val}:{str (Impl.fmtRights r)}") ++ " " ++ probes (· < 16),
     expect e impl)
  | "geom" =>
    let one (c : Color) : List String :=
      [toString (Impl.castlingRank c).val, toString (Impl.doubleSrcRank c).val, toString (Impl.doubleDstRank c).val,
       toString (Impl.promoteSrcRank c).val, toString (Impl.promoteDstRank c).val, toString (Impl.epSrcRank c).val,
       toString (Impl.epDstRank c).val, toString (Impl.forwardDelta c), toString (Impl.leftDelta c),
       toString (Impl.rightDelta c)]
    (String.intercalate " " (one .white ++ one .black), expect "7 6 4 1 0 3 2 -8 -9 -7 0 1 3 6 7 4 5 8 7 9" impl)
  | _ => ("badop", "-")

end Owl.Drv
