/-
Driver: bitboard and conversion operations (C20).
-/
import OwlModel.Driver.Ops2

namespace Owl.Drv
open Owl

def opBB (_args : List String) (_impl : String) : String × String := ("~", "-")
def opConv (_ty : String) (_impl : String) : String × String := ("~", "-")

end Owl.Drv
