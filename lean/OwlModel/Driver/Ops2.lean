/-
Driver: operations that do not take a validated position (validate, text parsers, tables, bitboards).
-/
import OwlModel.Driver.Ops

namespace Owl.Drv
open Owl

/-! ### validate -/

def opMValidate (raw : Impl.RawBoard) : String :=
  match Impl.validate raw with
  | .ok b => "ok " ++ fmtFull b
  | .err e => "err:" ++ fmtValidateErr e
  | .trap _ => "panic"

def opSValidate (raw : Impl.RawBoard) (impl : String) : String :=
  let p := abs raw
  if Spec.ValidRaw p then expect ("ok " ++ fullOfPos (Spec.normalise p)) impl
  else if impl.startsWith "err:" then
    match parseReject (sdrop impl 4) with
    | some r => if Spec.Holds r p then ok else bad "reported reason does not hold"
    | none => bad "malformed"
  else bad "invalid raw board accepted"

/-! ### two positions' semilegal moves appended to ONE fixed-capacity move list (C19) -/

/-- `MoveList` holds `Gen.moveListCap` moves; its checked `push` panics when full -/
def opMGenInto2 (raw1 raw2 : Impl.RawBoard) : String :=
  match implBoard? raw1, implBoard? raw2 with
  | some b1, some b2 =>
    let n := (Impl.semilegalGen .all b1).length + (Impl.semilegalGen .all b2).length
    if n ≤ Gen.moveListCap then "len=" ++ toString n else "panic"
  | _, _ => "invalid"

def opSGenInto2 (raw1 raw2 : Impl.RawBoard) (impl : String) : String :=
  match specPos? raw1, specPos? raw2 with
  | some p1, some p2 =>
    let n := (Spec.pseudoMoves p1).length + (Spec.pseudoMoves p2).length
    if n ≤ 256 then expect ("len=" ++ toString n) impl
    else if impl == "panic" then ok else bad "more than 256 moves written into a 256-slot move list"
  | _, _ => expect "invalid" impl

/-! ### well-formedness bitmap -/

def bitmapHex (f : Nat → Bool) : String :=
  String.ofList ((List.range 1024).map fun j =>
    hexDigit ((if f (4*j) then 1 else 0) + (if f (4*j+1) then 2 else 0) + (if f (4*j+2) then 4 else 0) + (if f (4*j+3) then 8 else 0)))

def sqOfNat (n : Nat) : Sq := ⟨n % 64, Nat.mod_lt _ (by decide)⟩

def opMWfbulk (k : Kind) (c : Cell) : String :=
  bitmapHex fun i => (Impl.Move.new? k c (sqOfNat (i / 64)) (sqOfNat (i % 64))).isSome

def opSWfbulk (k : Kind) (c : Cell) (impl : String) : String :=
  expect (bitmapHex fun i => Spec.geomPossible k (absCell c) (sqOfNat (i / 64)) (sqOfNat (i % 64))) impl

/-! ### FEN -/

def opMFenparse (t : List Nat) : String :=
  match Impl.parseFen t with
  | .ok r => "ok " ++ fmtRaw r
  | .err e => "err:" ++ fmtRawFenErr e
  | .trap _ => "panic"

def opSFenparse (t : List Nat) (impl : String) : String :=
  if impl.startsWith "panic" then bad "panic" else
  if impl.endsWith " rt=0" then bad "parse-format-parse is not stable" else
  match Spec.Fen.read t with
  | some p => if impl.startsWith ("ok " ++ fmtRaw (conc p)) then ok else bad ("expected=ok " ++ fmtRaw (conc p))
  | none => ok

def opMFenboard (t : List Nat) : String :=
  match Impl.parseFenBoard t with
  | .ok b => "ok " ++ fmtFull b
  | .err e => "err:" ++ fmtFenErr e
  | .trap _ => "panic"

def opSFenboard (t : List Nat) (impl : String) : String :=
  if impl.startsWith "panic" then bad "panic" else
  match Spec.Fen.read t with
  | some p =>
    if Spec.ValidRaw p then
      (if impl.startsWith ("ok " ++ fullOfPos (Spec.normalise p)) then ok else bad ("expected=ok " ++ fullOfPos (Spec.normalise p)))
    else if impl.startsWith "err:Valid:" then
      match parseReject (sdrop impl 10) with
      | some r => if Spec.Holds r p then ok else bad "reported reason does not hold"
      | none => bad "malformed"
    else bad "invalid position accepted"
  | none => ok

/-! ### UCI / SAN text -/

def opMUciparse (t : List Nat) : String :=
  match Impl.parseUci t with
  | .ok u => "ok " ++ fmtUciMove u ++ " " ++ fmtStr (Impl.fmtUci u)
  | .err e => "err:" ++ fmtUciRawErr e
  | .trap _ => "panic"

def opSUciparse (t : List Nat) (impl : String) : String :=
  if impl.startsWith "panic" then bad "panic" else
  if impl.endsWith " rt=0" then bad "re-parse differs" else
  if t == [48, 48, 48, 48] then (if impl.startsWith ("ok null " ++ fmtStr t) then ok else bad "0000 must parse as null")
  else if uciLanguage t then
    let sq (f r : Nat) : Nat := (56 - r) * 8 + (f - 97)
    let p := match t.getD 4 0 with | 110 => 2 | 98 => 3 | 114 => 4 | 113 => 5 | _ => 0
    let e := s!"ok {sq (t.getD 0 0) (t.getD 1 0)}.{sq (t.getD 2 0) (t.getD 3 0)}.{p} " ++ fmtStr t
    if impl.startsWith e then ok else bad ("expected=" ++ e)
  else if impl.startsWith "err:" then ok else bad "string outside the UCI grammar accepted"

def opMUcifmt (m : Impl.Move) : String := fmtStr (Impl.fmtUci (Impl.uciOfMove m))
def opSUcifmt (m : Impl.Move) (impl : String) : String :=
  if m.kind = .null then expect (fmtStr [48, 48, 48, 48]) impl
  else match absMove m with
    | some sm => expect (fmtStr (Spec.Uci.write sm)) impl
    | none => "-"

def opMSanparse (t : List Nat) : String :=
  match Impl.parseSan t with
  | .ok sm =>
    (match Impl.fmtSan sm with
     | .ok txt => "ok " ++ fmtSanDataTok sm.data ++ " " ++ fmtCheckTok sm.check ++ " " ++ fmtStr txt
     | _ => "panic")
  | .err e => "err:" ++ fmtSanRawErr e
  | .trap _ => "panic"

def opSSanparse (impl : String) : String :=
  if impl.startsWith "panic" then bad "panic" else if impl.endsWith " rt=0" then bad "re-parse differs" else ok

/-! ### base-type parsers -/

def opMParse (ty : String) (t : List Nat) : String :=
  match ty with
  | "coord" => (match Impl.parseCoord t with
      | .ok s => s!"ok {s.val} " ++ fmtStr (Impl.fmtCoord s) | .error e => "err:" ++ fmtCoordErr e)
  | "cell" => (match Impl.parseCell t with
      | .ok c => s!"ok {c.val} " ++ fmtStr [Impl.cellByte c] | .error e => "err:" ++ fmtCharErr e)
  | "color" => (match Impl.parseColor t with
      | .ok c => s!"ok {c.idx} " ++ fmtStr [Impl.colorByte c] | .error e => "err:" ++ fmtCharErr e)
  | "rights" => (match Impl.parseRights t with
      | .ok r => s!"ok {r.val} " ++ fmtStr (Impl.fmtRights r) | .error e => "err:" ++ fmtRightsErr e)
  | _ => "badop"

/-- documented spellings of the four base types -/
def opSParse (ty : String) (t : List Nat) (impl : String) : String :=
  if impl.startsWith "panic" then bad "panic" else if impl.endsWith " rt=0" then bad "re-parse differs" else
  let expectOk (e : String) := if impl.startsWith e then ok else bad ("expected=" ++ e)
  let expectErr := if impl.startsWith "err:" then ok else bad "undocumented spelling accepted"
  match ty with
  | "coord" =>
    (match t with
     | [f, r] => if 97 ≤ f ∧ f ≤ 104 ∧ 49 ≤ r ∧ r ≤ 56 then expectOk s!"ok {(56 - r) * 8 + (f - 97)} {fmtStr t}" else expectErr
     | _ => expectErr)
  | "cell" =>
    (match t with
     | [b] => (match ".PKNBRQpknbrq".toList.idxOf? (Char.ofNat b) with
        | some i => expectOk s!"ok {i} {fmtStr t}" | none => expectErr)
     | _ => expectErr)
  | "color" => if t == [119] then expectOk s!"ok 0 {fmtStr t}" else if t == [98] then expectOk s!"ok 1 {fmtStr t}" else expectErr
  | "rights" =>
    if t == [45] then expectOk s!"ok 0 {fmtStr t}"
    else if !t.isEmpty && t.all (fun b => b = 75 || b = 81 || b = 107 || b = 113) && t.eraseDups.length = t.length then
      let v := (if t.contains 81 then 1 else 0) + (if t.contains 75 then 2 else 0) + (if t.contains 113 then 4 else 0)
        + (if t.contains 107 then 8 else 0)
      expectOk s!"ok {v} "
    else expectErr
  | _ => "-"

/-! ### attack / between tables -/

def opMAtk (piece : String) (s : Sq) (occ : BB) : String :=
  match piece with
  | "k" => hexBB (Impl.kingAttack s)
  | "n" => hexBB (Impl.knightAttack s)
  | "pw" => hexBB (Impl.pawnAttack .white s)
  | "pb" => hexBB (Impl.pawnAttack .black s)
  | "r" => hexBB (Impl.rookAttack s occ)
  | "b" => hexBB (Impl.bishopAttack s occ)
  | _ => "badop"

def stepsBB (s : Sq) (steps : List (Int × Int)) : BB := bbOfSqs (steps.filterMap fun d => Spec.step s d)

def opSAtk (piece : String) (s : Sq) (occ : BB) (impl : String) : String :=
  match piece with
  | "k" => expect (hexBB (stepsBB s Spec.kingSteps)) impl
  | "n" => expect (hexBB (stepsBB s Spec.knightSteps)) impl
  | "pw" => expect (hexBB (stepsBB s [(-1, Spec.forward .white), (1, Spec.forward .white)])) impl
  | "pb" => expect (hexBB (stepsBB s [(-1, Spec.forward .black), (1, Spec.forward .black)])) impl
  | "r" => expect (hexBB (bbOfSqs (Spec.slide Spec.rookDirs (fun t => occ.has t) s))) impl
  | "b" => expect (hexBB (bbOfSqs (Spec.slide Spec.bishopDirs (fun t => occ.has t) s))) impl
  | _ => "-"

def opMBtw (a b : Sq) : String :=
  hexBB (Impl.bishopStrict a b) ++ " " ++ hexBB (Impl.rookStrict a b) ++ " "
    ++ bool01 (Impl.isBishopValid a b) ++ " " ++ bool01 (Impl.isRookValid a b)

def opSBtw (a b : Sq) (impl : String) : String :=
  match impl.splitOn " " with
  | [bs, rs, bv, rv] =>
    let bb? := Spec.between Spec.bishopDirs a b
    let rb? := Spec.between Spec.rookDirs a b
    if bv != bool01 bb?.isSome then bad "is_bishop_valid"
    else if rv != bool01 rb?.isSome then bad "is_rook_valid"
    else if (match bb? with | some l => bs != hexBB (bbOfSqs l) | none => false) then bad "bishop_strict"
    else if (match rb? with | some l => rs != hexBB (bbOfSqs l) | none => false) then bad "rook_strict"
    else ok
  | _ => bad "malformed"

end Owl.Drv
