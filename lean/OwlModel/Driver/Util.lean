/-
Driver utilities: parsing of protocol tokens and canonical printing (see /verif/PROTOCOL.md).
-/
import OwlModel.Abs

namespace Owl.Drv
open Owl

def hexDigit (n : Nat) : Char := if n < 10 then Char.ofNat (48 + n) else Char.ofNat (87 + n)

partial def hexOfNat (n : Nat) : String :=
  if n < 16 then String.singleton (hexDigit n) else hexOfNat (n / 16) ++ String.singleton (hexDigit (n % 16))

def hexBB (b : BB) : String := hexOfNat b.toNat

def hexVal (c : Char) : Option Nat :=
  if '0' ≤ c ∧ c ≤ '9' then some (c.toNat - 48)
  else if 'a' ≤ c ∧ c ≤ 'f' then some (c.toNat - 87)
  else if 'A' ≤ c ∧ c ≤ 'F' then some (c.toNat - 55)
  else none

def parseHex (s : String) : Option Nat :=
  if s.isEmpty then none else
  s.toList.foldl (fun acc c => match acc, hexVal c with | some a, some v => some (a * 16 + v) | _, _ => none) (some 0)

def parseBB (s : String) : Option BB := (parseHex s).map BB.ofNat

/-- STR: `x` + hex bytes -/
def parseStr (s : String) : Option (List Nat) :=
  match s.toList with
  | 'x' :: rest =>
    let rec go : List Char → Option (List Nat)
      | [] => some []
      | a :: b :: t => match hexVal a, hexVal b, go t with
        | some x, some y, some r => some ((x * 16 + y) :: r)
        | _, _, _ => none
      | _ => none
    go rest
  | _ => none

def fmtStr (b : List Nat) : String :=
  "x" ++ String.join (b.map fun v => String.singleton (hexDigit (v / 16)) ++ String.singleton (hexDigit (v % 16)))

def cellLetters : List Char := ".PKNBRQpknbrq".toList

def cellOfChar (c : Char) : Option Cell :=
  match cellLetters.idxOf? c with
  | some i => if h : i < 13 then some ⟨i, h⟩ else none
  | none => none

def parseSq (s : String) : Option Sq := match s.toNat? with | some n => if h : n < 64 then some ⟨n, h⟩ else none | none => none
def parseFin (n : Nat) (s : String) : Option (Fin n) := match s.toNat? with | some v => if h : v < n then some ⟨v, h⟩ else none | none => none

/-- RAW: six tokens -/
def parseRaw (t : List String) : Option (Impl.RawBoard × List String) :=
  match t with
  | cells :: side :: rights :: ep :: mc :: mn :: rest =>
    let cs := cells.toList
    if cs.length ≠ 64 then none else
    match cs.mapM cellOfChar with
    | none => none
    | some cl =>
      let side? : Option Color := if side = "w" then some .white else if side = "b" then some .black else none
      let ep? : Option (Option Sq) := if ep = "-" then some none else (parseSq ep).map some
      match side?, parseFin 16 rights, ep?, mc.toNat?, mn.toNat? with
      | some sd, some r, some e, some c, some n =>
        some ({ cells := Tab.ofFn fun i => cl.getD i.val 0, side := sd, castling := r, ep := e, mc := c, mn := n }, rest)
      | _, _, _, _, _ => none
  | _ => none

def fmtRaw (r : Impl.RawBoard) : String :=
  String.ofList (Sq.all.map fun s => cellLetters.getD (r.cells.get s).val '?') ++ " "
    ++ (match r.side with | .white => "w" | .black => "b") ++ " " ++ toString r.castling.val ++ " "
    ++ (match r.ep with | some e => toString e.val | none => "-") ++ " " ++ toString r.mc ++ " " ++ toString r.mn

def fmtFull (b : Impl.Board) : String :=
  fmtRaw b.r ++ " " ++ hexBB b.hash ++ " " ++ hexBB b.white ++ " " ++ hexBB b.black ++ " " ++ hexBB b.all
    ++ String.join (Cell.all.map fun c => " " ++ hexBB (b.pieces.get c))

def kindOfNat (n : Nat) : Option Kind := Kind.ofIdx n

/-- MV: `k.c.s.d` -/
def parseMove (s : String) : Option Impl.Move :=
  match s.splitOn "." with
  | [k, c, a, b] =>
    match k.toNat?.bind kindOfNat, parseFin 13 c, parseSq a, parseSq b with
    | some k, some c, some a, some b => some ⟨k, c, a, b⟩
    | _, _, _, _ => none
  | _ => none

def fmtMove (m : Impl.Move) : String :=
  toString m.kind.idx ++ "." ++ toString m.cell.val ++ "." ++ toString m.src.val ++ "." ++ toString m.dst.val

def moveKey (m : Impl.Move) : Nat := ((m.kind.idx * 13 + m.cell.val) * 64 + m.src.val) * 64 + m.dst.val

def fmtMoves (l : List Impl.Move) : String :=
  if l.isEmpty then "-" else
  String.intercalate "," ((l.mergeSort fun a b => moveKey a ≤ moveKey b).map fmtMove)

def fmtMovesInOrder (l : List Impl.Move) : String :=
  if l.isEmpty then "-" else String.intercalate "," (l.map fmtMove)

def colorCh : Color → String | .white => "w" | .black => "b"

def fmtValidateErr : Impl.ValidateError → String
  | .invalidEnpassant s => s!"InvalidEnpassant({s.val})"
  | .tooManyPieces c => s!"TooManyPieces({colorCh c})"
  | .noKing c => s!"NoKing({colorCh c})"
  | .tooManyKings c => s!"TooManyKings({colorCh c})"
  | .invalidPawn s => s!"InvalidPawn({s.val})"
  | .opponentKingAttacked => "OpponentKingAttacked"

def fmtMoveValidateErr : Impl.MoveValidateError → String
  | .notSemiLegal => "NotSemiLegal" | .notLegal => "NotLegal"

def fmtCoordErr : Impl.CoordErr → String
  | .badLength => "BadLength" | .fileChar b => s!"UnexpectedFileChar({b})" | .rankChar b => s!"UnexpectedRankChar({b})"
def fmtCharErr : Impl.CharErr → String
  | .badLength => "BadLength" | .unexpected b => s!"UnexpectedChar({b})"
def fmtRightsErr : Impl.RightsErr → String
  | .unexpected b => s!"UnexpectedChar({b})" | .duplicate b => s!"DuplicateChar({b})" | .emptyString => "EmptyString"
def fmtCellsErr : Impl.CellsErr → String
  | .rankOverflow r => s!"RankOverflow({r})" | .rankUnderflow r => s!"RankUnderflow({r})"
  | .overflow => "Overflow" | .underflow => "Underflow" | .unexpected b => s!"UnexpectedChar({b})"
def fmtRawFenErr : Impl.RawFenErr → String
  | .nonAscii => "NonAscii" | .noBoard => "NoBoard" | .board e => "Board:" ++ fmtCellsErr e
  | .noMoveSide => "NoMoveSide" | .moveSide e => "MoveSide:" ++ fmtCharErr e
  | .noCastling => "NoCastling" | .castling e => "Castling:" ++ fmtRightsErr e
  | .noEnpassant => "NoEnpassant" | .enpassant e => "Enpassant:" ++ fmtCoordErr e
  | .invalidEnpassantRank r => s!"InvalidEnpassantRank({r})"
  | .moveCounter => "MoveCounter" | .moveNumber => "MoveNumber" | .extraData => "ExtraData"
def fmtFenErr : Impl.FenErr → String
  | .fen e => "Fen:" ++ fmtRawFenErr e | .valid e => "Valid:" ++ fmtValidateErr e
def fmtUciRawErr : Impl.UciRawErr → String
  | .badLength => "BadLength" | .badSrc e => "BadSrc:" ++ fmtCoordErr e | .badDst e => "BadDst:" ++ fmtCoordErr e
  | .badPromote b => s!"BadPromote({b})"
def fmtUciErr : Impl.UciErr → String
  | .parse e => "Parse:" ++ fmtUciRawErr e | .create => "Create:NotWellFormed"
  | .validate e => "Validate:" ++ fmtMoveValidateErr e
def fmtSanRawErr : Impl.SanRawErr → String
  | .emptyString => "EmptyString" | .invalidDst e => "InvalidDst:" ++ fmtCoordErr e
  | .nonPawnMoveTooLong => "NonPawnMoveTooLong" | .pawnMoveTooShort => "PawnMoveTooShort"
  | .pawnMoveTooLong => "PawnMoveTooLong" | .syntax => "Syntax"
def fmtSanIntoErr : Impl.SanIntoErr → String
  | .create => "Create:NotWellFormed" | .validate e => "Validate:" ++ fmtMoveValidateErr e
  | .captureExpected => "CaptureExpected" | .notFound => "NotFound" | .ambiguity _ _ => "Ambiguity"
def fmtSanErr : Impl.SanErr → String
  | .parse e => "Parse:" ++ fmtSanRawErr e | .convert e => "Convert:" ++ fmtSanIntoErr e
def fmtMakeErr : Impl.MakeErr → String
  | .validate e => fmtMoveValidateErr e | .uci e => fmtUciErr e | .sanInto e => fmtSanIntoErr e | .san e => fmtSanErr e

def fmtDrawReason : Impl.DrawReason → String
  | .stalemate => "Stalemate" | .insufficientMaterial => "InsufficientMaterial" | .moves75 => "Moves75"
  | .repeat5 => "Repeat5" | .moves50 => "Moves50" | .repeat3 => "Repeat3" | .agreement => "Agreement" | .unknown => "Unknown"
def fmtWinReason : Impl.WinReason → String
  | .checkmate => "Checkmate" | .timeForfeit => "TimeForfeit" | .invalidMove => "InvalidMove"
  | .engineError => "EngineError" | .resign => "Resign" | .abandon => "Abandon" | .unknown => "Unknown"
def fmtOutcome : Option Impl.Outcome → String
  | none => "none"
  | some (.win c r) => s!"win:{colorCh c}:{fmtWinReason r}"
  | some (.draw r) => "draw:" ++ fmtDrawReason r

def parseDrawReason (s : String) : Option Impl.DrawReason :=
  [Impl.DrawReason.stalemate, .insufficientMaterial, .moves75, .repeat5, .moves50, .repeat3, .agreement, .unknown].find?
    fun r => fmtDrawReason r == s
def parseWinReason (s : String) : Option Impl.WinReason :=
  [Impl.WinReason.checkmate, .timeForfeit, .invalidMove, .engineError, .resign, .abandon, .unknown].find?
    fun r => fmtWinReason r == s
/-- OUT; outer none = malformed -/
def parseOutcome (s : String) : Option (Option Impl.Outcome) :=
  if s = "none" then some none else
  match s.splitOn ":" with
  | ["win", c, r] =>
    let c? : Option Color := if c = "w" then some .white else if c = "b" then some .black else none
    match c?, parseWinReason r with | some c, some r => some (some (.win c r)) | _, _ => none
  | ["draw", r] => (parseDrawReason r).map fun r => some (.draw r)
  | _ => none

/-- validate a raw board with the implementation model -/
def implBoard? (r : Impl.RawBoard) : Option Impl.Board :=
  match Impl.validate r with | .ok b => some b | _ => none

def bool01 (b : Bool) : String := if b then "1" else "0"

end Owl.Drv
