/-
Driver: dispatch of one protocol line to the model answer and the oracle verdict.
-/
import OwlModel.Driver.Ops2
import OwlModel.Driver.ChainOps
import OwlModel.Driver.BBOps

namespace Owl.Drv
open Owl

def posOps : List String :=
  ["gen", "genvec", "semibulk", "mvalidate", "legalunchecked", "make", "makelike", "attackers", "check", "queryafter",
   "outcome", "outcomeafter", "fenformat", "uciinto", "saninto", "sanof"]

/-- (model answer, oracle verdict) for one plain case line and the implementation's answer -/
def answerCore (line impl : String) : String × String :=
  let toks := (line.splitOn " ").filter (· ≠ "")
  match toks with
  | [] => ("~", "-")
  | op :: args =>
    if posOps.contains op then
      match parseRaw args with
      | none => ("badop", "-")
      | some (raw, rest) => (opMPos op raw rest, opSPos op raw rest impl)
    else match op, args with
    | "geninto2", _ =>
      (match parseRaw args with
       | some (raw1, rest) =>
         (match parseRaw rest with
          | some (raw2, []) => (opMGenInto2 raw1 raw2, opSGenInto2 raw1 raw2 impl)
          | _ => ("badop", "-"))
       | none => ("badop", "-"))
    | "validate", _ =>
      (match parseRaw args with
       | some (raw, []) => (opMValidate raw, opSValidate raw impl)
       | _ => ("badop", "-"))
    | "mirror", _ =>
      (match parseRaw args with
       | some (raw, [dir]) => (opMMirror raw dir, opSMirror impl)
       | _ => ("badop", "-"))
    | "wfbulk", [k, c] =>
      (match k.toNat?.bind kindOfNat, parseFin 13 c with
       | some k, some c => (opMWfbulk k c, opSWfbulk k c impl)
       | _, _ => ("badop", "-"))
    | "fenparse", [s] => (match parseStr s with | some t => (opMFenparse t, opSFenparse t impl) | none => ("badop", "-"))
    | "fenboard", [s] => (match parseStr s with | some t => (opMFenboard t, opSFenboard t impl) | none => ("badop", "-"))
    | "uciparse", [s] => (match parseStr s with | some t => (opMUciparse t, opSUciparse t impl) | none => ("badop", "-"))
    | "ucifmt", [m] => (match parseMove m with | some m => (opMUcifmt m, opSUcifmt m impl) | none => ("badop", "-"))
    | "sanparse", [s] => (match parseStr s with | some t => (opMSanparse t, opSSanparse impl) | none => ("badop", "-"))
    | "parse", [ty, s] => (match parseStr s with | some t => (opMParse ty t, opSParse ty t impl) | none => ("badop", "-"))
    | "atk", [p, s, o] =>
      (match parseSq s, parseBB o with
       | some s, some o => (opMAtk p s o, opSAtk p s o impl)
       | _, _ => ("badop", "-"))
    | "btw", [a, b] =>
      (match parseSq a, parseSq b with
       | some a, some b => (opMBtw a b, opSBtw a b impl)
       | _, _ => ("badop", "-"))
    | "fromchar", [ty, cp] =>
      (match cp.toNat? with
       | none => ("badop", "-")
       | some n =>
         let fmtO (o : Option Nat) : String := match o with | some i => toString i | none => "none"
         -- the Rust functions take a `char`; the model's byte-level functions are total on naturals
         let m : Option Nat := match ty with
           | "file" => (Impl.fileOfByte n).map (·.val)
           | "rank" => (Impl.rankOfByte n).map (·.val)
           | "cell" => (Impl.cellOfByte n).map (·.val)
           | "color" => (Impl.colorOfByte n).map Color.idx
           | _ => none
         let spec : Option Nat := match ty with
           | "file" => "abcdefgh".toList.idxOf? (Char.ofNat n)
           | "rank" => "87654321".toList.idxOf? (Char.ofNat n)
           | "cell" => ".PKNBRQpknbrq".toList.idxOf? (Char.ofNat n)
           | "color" => "wb".toList.idxOf? (Char.ofNat n)
           | _ => none
         (fmtO m, expect (fmtO spec) impl))
    | "bb", _ => opBB args impl
    | "conv", [ty] => opConv ty impl
    | "chain", _ => opChain args impl
    | "perft", _ =>
      (match parseRaw args with
       | some (raw, [d]) =>
         (match implBoard? raw, specPos? raw, d.toNat? with
          | some b, some p, some d => (toString (perftM d b), toString (Spec.perft d p))
          | _, _, _ => ("invalid", "-"))
       | _ => ("badop", "-"))
    | _, _ => ("badop", "-")

/-- steps of a `via` prefix: `u<MV>` (make in place and take back), `m<MV>` (`Board::make_move`), `n` (the null move made
in place and kept; only when the side to move is not in check) -/
def parseSteps (t : String) : Option (List (Bool × Impl.Move)) :=
  (t.splitOn ",").mapM fun part =>
    match part.toList with
    | ['n'] => some (true, Impl.Move.null)
    | 'u' :: rest => (parseMove (String.ofList rest)).map fun m => (false, m)
    | 'm' :: rest => (parseMove (String.ofList rest)).map fun m => (true, m)
    | _ => none

/-- run the `m` steps on the model (the `u` steps leave the board as it was: `C04.undo_restores_semilegal`,
`C04.undo_null`); `none` + verdict at the first step that is not a legal move -/
def runSteps (impl : String) : List (Bool × Impl.Move) → Impl.Board → Except (String × String) Impl.Board
  | [], b => .ok b
  | (false, _) :: rest, b => runSteps impl rest b
  | (true, m) :: rest, b =>
    if m = Impl.Move.null then
      -- the null move made (contract: not in check) and kept: side flips, en-passant mark cleared, clock + 1
      (match Impl.isCheck? b with
       | some false => runSteps impl rest (Impl.makeMove b m).1
       | _ => .error ("n/a", expect "n/a" impl))
    else
    let na : String × String :=
      ("n/a", match specPos? b.r, absMove m with
              | some p, some sm =>
                if (Spec.legalMoves p).contains sm then bad "a legal move of the rules was refused" else expect "n/a" impl
              | _, _ => expect "n/a" impl)
    if !m.isWellFormed then .error na else
    match Impl.makeMoveChecked b m with
    | .ok b' => runSteps impl rest b'
    | _ => .error na

def answerVia (steps : List (Bool × Impl.Move)) (op : String) (args : List String) (impl : String) : String × String :=
  match parseRaw args with
  | some (raw, rest) =>
    (match implBoard? raw with
     | none => answerCore (String.intercalate " " (op :: args)) impl
     | some b =>
       match runSteps impl steps b with
       | .ok b' => answerCore (String.intercalate " " (op :: fmtRaw b'.r :: rest)) impl
       | .error r => r)
  | none => ("badop", "-")

/-- (model answer, oracle verdict) for one case line, object prefixes included.

`restored MV <case>`: the implementation answers the case on the board OBJECT it gets by making MV on the validated
board and taking it back. In the model that object is the original board (`C04.restored_is_original`: un-making
restores the whole board, derived sets and hash included, for every well-formed semilegal move, legal or not;
`C04.restored_null_is_original` for the null move), so the model
answer and the oracle verdict are those of the inner case.

`reached MV <op> RAW <args>`: the implementation answers on the board object `Board::make_move` returned. In the
model a legal move leads from a valid board to a valid board whose derived state is the one validation would build
from its raw contents (`C04.reached_validates`; `C04.null_validates` for the null step), so the inner case is answered for
the raw board after the move;
`n/a` when the move is not well-formed or not legal (oracle: it must then not be a legal move of the rules).

`via STEPS <op> RAW <args>`: a sequence of such steps (`u<MV>` = make and take back, `m<MV>` = make), e.g. an un-made
promotion followed by another move: the question is asked of the board object at the end. -/
def answer (line impl : String) : String × String :=
  let toks := (line.splitOn " ").filter (· ≠ "")
  match toks with
  | "restored" :: _ :: rest => answerCore (String.intercalate " " rest) impl
  | "reached" :: mv :: op :: args =>
    (match parseMove mv with
     | some m => answerVia [(true, m)] op args impl
     | none => ("badop", "-"))
  | "via" :: steps :: op :: args =>
    (match parseSteps steps with
     | some st => answerVia st op args impl
     | none => ("badop", "-"))
  | _ => answerCore line impl

end Owl.Drv
