/-
Driver: for each protocol operation, the implementation model's answer (`opM`) and the oracle's verdict
on the implementation's answer (`opS`: `ok`, `bad <why>` or `-`).
-/
import OwlModel.Driver.Util

namespace Owl.Drv
open Owl

def sdrop (s : String) (n : Nat) : String := String.ofList (s.toList.drop n)
def sdropEnd (s : String) (n : Nat) : String := String.ofList (s.toList.take (s.length - n))

def ok : String := "ok"
def bad (why : String) : String := "bad " ++ why
def expect (expected impl : String) : String := if expected == impl then ok else bad ("expected=" ++ expected)
def noPanic (impl : String) : String := if impl == "panic" || impl.startsWith "panic" then bad "panic" else ok

/-- valid specification position of a raw board (normalised), if valid -/
def specPos? (raw : Impl.RawBoard) : Option Spec.Pos :=
  let p := abs raw
  if Spec.ValidRaw p then some (Spec.normalise p) else none

def fullOfPos (p : Spec.Pos) : String := fmtFull (Impl.buildBoard (conc p))

def specMoves (l : List Spec.Move) : String := fmtMoves (l.map concMove)

def parseReject (s : String) : Option Spec.Reject :=
  let arg (pre : String) : Option String :=
    if s.startsWith pre && s.endsWith ")" then some (sdropEnd (sdrop s pre.length) 1) else none
  let col (t : String) : Option Color := if t = "w" then some .white else if t = "b" then some .black else none
  if s = "OpponentKingAttacked" then some .opponentKingAttacked
  else if let some t := arg "InvalidEnpassant(" then (parseSq t).map .invalidEnpassant
  else if let some t := arg "InvalidPawn(" then (parseSq t).map .invalidPawn
  else if let some t := arg "TooManyPieces(" then (col t).map .tooManyPieces
  else if let some t := arg "NoKing(" then (col t).map .noKing
  else if let some t := arg "TooManyKings(" then (col t).map .tooManyKings
  else none

def whichOfNat : Nat → Option Impl.Which
  | 0 => some .all | 1 => some .capture | 2 => some .simple | 3 => some .simpleNoPromote | 4 => some .simplePromote
  | _ => none

def specSubset (p : Spec.Pos) (w : Impl.Which) (m : Spec.Move) : Bool :=
  let cap := Spec.isCapture p m
  let prom := m.kind.promote.isSome
  match w with
  | .all => true
  | .capture => cap
  | .simple => !cap
  | .simpleNoPromote => !cap && !prom
  | .simplePromote => !cap && prom

def fmtSpecOutcome : Option Spec.Outcome → String
  | none => "none"
  | some (.checkmate c) => s!"win:{colorCh c}:Checkmate"
  | some .stalemate => "draw:Stalemate"
  | some .insufficient => "draw:InsufficientMaterial"
  | some .moves75 => "draw:Moves75"
  | some .moves50 => "draw:Moves50"
  | some .repeat5 => "draw:Repeat5"
  | some .repeat3 => "draw:Repeat3"

def fmtSpecDraw : Option Spec.Outcome → String
  | none => "none"
  | some .insufficient => "InsufficientMaterial"
  | some .moves75 => "Moves75"
  | some .moves50 => "Moves50"
  | _ => "?"

def bbOfSqs (l : List Sq) : BB := BB.ofList l

/-! ### position operations -/

def withBoard (raw : Impl.RawBoard) (f : Impl.Board → String) : String :=
  match implBoard? raw with | some b => f b | none => "invalid"

/-- oracle wrapper: invalid raw ⇒ the implementation must say `invalid` -/
def withPos (raw : Impl.RawBoard) (impl : String) (f : Spec.Pos → String) : String :=
  match specPos? raw with
  | some p => if impl == "invalid" then bad "valid position reported invalid" else f p
  | none => expect "invalid" impl

def fmtUciMove : Impl.UciMove → String
  | .null => "null"
  | .move s d p => s!"{s.val}.{d.val}.{match p with | none => 0 | some pc => pc.idx}"

def fmtOptFin8 : Option (Fin 8) → String | none => "-" | some f => toString f.val
def fmtPromoIdx : Option Piece → String | none => "0" | some p => toString p.idx

def fmtSanDataTok : Impl.SanData → String
  | .uci u => "uci:" ++ fmtUciMove u
  | .castling .king => "castle:K"
  | .castling .queen => "castle:Q"
  | .pawnMove d p => s!"pm:{d.val}.{fmtPromoIdx p}"
  | .pawnCapture f d p => s!"pc:{f.val}.{d.val}.{fmtPromoIdx p}"
  | .pawnCaptureShort f g p => s!"pcs:{f.val}.{g.val}.{fmtPromoIdx p}"
  | .simple pc f r c d => s!"simple:{pc.idx}.{fmtOptFin8 f}.{fmtOptFin8 r}.{bool01 c}.{d.val}"

def fmtCheckTok : Option Impl.CheckMark → String
  | none => "-" | some .single => "+" | some .double => "++" | some .checkmate => "#"

def uciLanguage (t : List Nat) : Bool :=
  let sqOk (f r : Nat) := 97 ≤ f && f ≤ 104 && 49 ≤ r && r ≤ 56
  match t with
  | [a, b, c, d] => sqOk a b && sqOk c d
  | [a, b, c, d, e] => sqOk a b && sqOk c d && (e = 110 || e = 98 || e = 114 || e = 113)
  | _ => false

def makeRes (r : Res Impl.MakeErr (Impl.Move × Impl.Board)) : String :=
  match r with
  | .ok (_, b') => "ok " ++ fmtFull b' ++ " same=1"
  | .err e => "err:" ++ fmtMakeErr e ++ " unchanged=1"
  | .trap _ => "panic"

def attackersStrM (b : Impl.Board) : String :=
  let lists := [Color.white, Color.black].flatMap fun c => Sq.all.map fun s => hexBB (Impl.cellAttackers b s c)
  let mask (c : Color) := hexBB (bbOfSqs (Sq.all.filter fun s => Impl.isCellAttacked b s c))
  String.intercalate "," lists ++ " " ++ mask .white ++ " " ++ mask .black

def checkStrM (b : Impl.Board) : String :=
  match Impl.isCheck? b, Impl.checkers? b with
  | some c, some k => bool01 c ++ " " ++ hexBB k
  | _, _ => "panic"

def attackersStrS (p : Spec.Pos) : String :=
  let lists := [Color.white, Color.black].flatMap fun c =>
    Sq.all.map fun s => hexBB (bbOfSqs (Spec.attackers p s c))
  let mask (c : Color) := hexBB (bbOfSqs (Sq.all.filter fun s => Spec.attackedBy p s c))
  String.intercalate "," lists ++ " " ++ mask .white ++ " " ++ mask .black

def checkStrS (p : Spec.Pos) : String :=
  let k := match Spec.kingSq p p.side with | some k => Spec.attackers p k p.side.inv | none => []
  bool01 (Spec.inCheck p p.side) ++ " " ++ hexBB (bbOfSqs k)

def opMPos (op : String) (raw : Impl.RawBoard) (rest : List String) : String :=
  match op, rest with
  | "gen", [w, l] =>
    withBoard raw fun b =>
      match w.toNat?.bind whichOfNat with
      | none => "badop"
      | some w =>
        if l = "0" then fmtMoves (Impl.semilegalGen w b)
        else match Impl.legalGen? w b with | some ms => fmtMoves ms | none => "panic"
  | "genvec", [] => withBoard raw fun b => toString (Impl.semilegalGen .all b).length
  | "semibulk", [] =>
    withBoard raw fun b =>
      let ms := Sq.all.flatMap fun src =>
        let cell := b.get src
        if cell.val = 0 then [] else
        Kind.all.flatMap fun k => Sq.all.filterMap fun dst =>
          let m : Impl.Move := ⟨k, cell, src, dst⟩
          if m.isWellFormed && Impl.isSemilegal b m then some m else none
      fmtMoves ms
  | "mvalidate", [mv] =>
    withBoard raw fun b =>
      match parseMove mv with
      | none => "badop"
      | some m =>
        if !m.isWellFormed then "notwf" else
        match Impl.validateMove b m with
        | .ok () => "ok" | .err e => "err:" ++ fmtMoveValidateErr e | .trap _ => "panic"
  | "legalunchecked", [mv] =>
    withBoard raw fun b =>
      match parseMove mv with
      | none => "badop"
      | some m =>
        if !m.isWellFormed || !Impl.isSemilegal b m then "n/a" else
        match Impl.isLegalUnchecked? b m with | some v => bool01 v | none => "panic"
  | "make", [mv] =>
    withBoard raw fun b =>
      match parseMove mv with
      | none => "badop"
      | some m =>
        if !m.isWellFormed || !(Impl.isSemilegal b m || m.kind = .null) then "n/a" else
        let (b', u) := Impl.makeMove b m
        let opp := match Impl.isOpponentKingAttacked? b' with | none => "nok" | some v => bool01 v
        let b'' := Impl.unmakeMove b' m u
        fmtFull b' ++ " | oppking=" ++ opp ++ " | " ++ fmtFull b''
  | "makelike", [kind, payload] =>
    withBoard raw fun b =>
      match kind with
      | "move" =>
        (match parseMove payload with
         | none => "badop"
         | some m => if !m.isWellFormed then "notwf" else makeRes (Impl.makeMoveLike b m))
      | "ucimove" =>
        (match parseStr payload with
         | none => "badop"
         | some t => match Impl.parseUci t with
           | .ok u => makeRes (Impl.makeUciMove b u) | .err _ => "parse-err" | .trap _ => "panic")
      | "ucistr" => (match parseStr payload with | none => "badop" | some t => makeRes (Impl.makeUciStr b t))
      | "sanmove" =>
        (match parseStr payload with
         | none => "badop"
         | some t => match Impl.parseSan t with
           | .ok sm => makeRes (Impl.makeSanMove b sm) | .err _ => "parse-err" | .trap _ => "panic")
      | "sanstr" => (match parseStr payload with | none => "badop" | some t => makeRes (Impl.makeSanStr b t))
      | _ => "badop"
  | "attackers", [] =>
    withBoard raw fun b =>
      let lists := [Color.white, Color.black].flatMap fun c => Sq.all.map fun s => hexBB (Impl.cellAttackers b s c)
      let mask (c : Color) := hexBB (bbOfSqs (Sq.all.filter fun s => Impl.isCellAttacked b s c))
      String.intercalate "," lists ++ " " ++ mask .white ++ " " ++ mask .black
  | "check", [] =>
    withBoard raw fun b =>
      match Impl.isCheck? b, Impl.checkers? b with
      | some c, some k => bool01 c ++ " " ++ hexBB k
      | _, _ => "panic"
  | "queryafter", [mv] =>
    withBoard raw fun b =>
      match parseMove mv with
      | none => "badop"
      | some m =>
        if !m.isWellFormed || !Impl.isSemilegal b m then "n/a" else
        let (b', u) := Impl.makeMove b m
        let legal := match Impl.isOpponentKingAttacked? b' with | some v => !v | none => false
        let b'' := Impl.unmakeMove b' m u
        (if legal then attackersStrM b' ++ " | " ++ checkStrM b' else "- | -")
          ++ " | " ++ attackersStrM b'' ++ " | " ++ checkStrM b''
  | "outcome", [] =>
    withBoard raw fun b =>
      match Impl.calcOutcome? b, Impl.hasLegalMoves? b, Impl.isCheck? b with
      | some o, some h, some c =>
        fmtOutcome o ++ " " ++ (match Impl.calcDrawSimple b with | none => "none" | some r => fmtDrawReason r)
          ++ " " ++ bool01 h ++ " " ++ bool01 c
      | _, _, _ => "panic"
  | "outcomeafter", [mv] =>
    withBoard raw fun b =>
      match parseMove mv with
      | none => "badop"
      | some m =>
        if !m.isWellFormed then "n/a" else
        match Impl.makeMoveChecked b m with
        | .ok b' =>
          (match Impl.calcOutcome? b', Impl.hasLegalMoves? b', Impl.isCheck? b' with
           | some o, some h, some c =>
             fmtOutcome o ++ " " ++ (match Impl.calcDrawSimple b' with | none => "none" | some r => fmtDrawReason r)
               ++ " " ++ bool01 h ++ " " ++ bool01 c
           | _, _, _ => "panic")
        | .err _ => "n/a"
        | .trap _ => "panic"
  | "fenformat", [] => fmtStr (Impl.fmtFen raw)
  | "uciinto", [s, mode] =>
    withBoard raw fun b =>
      match parseStr s with
      | none => "badop"
      | some t =>
        let r := match mode with
          | "basic" => Impl.moveFromUci t b
          | "semi" => Impl.moveFromUciSemilegal t b
          | _ => Impl.moveFromUciLegal t b
        match r with
        | .ok m => "ok " ++ fmtMove m | .err e => "err:" ++ fmtUciErr e | .trap _ => "panic"
  | "saninto", [s] =>
    withBoard raw fun b =>
      match parseStr s with
      | none => "badop"
      | some t =>
        match Impl.moveFromSan t b with
        | .ok m => "ok " ++ fmtMove m | .err e => "err:" ++ fmtSanErr e | .trap _ => "panic"
  | "sanof", [mv] =>
    withBoard raw fun b =>
      match parseMove mv with
      | none => "badop"
      | some m =>
        if !m.isWellFormed then "notwf" else
        match Impl.sanFromMove m b with
        | .ok sm => (match Impl.fmtSan sm with | .ok t => "ok " ++ fmtStr t | _ => "panic")
        | .err e => "err:" ++ fmtMoveValidateErr e
        | .trap _ => "panic"
  | _, _ => "~"

/-- A/B parts of the `mirror` operation computed by a generator of legal moves, outcome and check -/
def mirrorSq (h : Bool) (s : Sq) : Sq := if h then s.flipFile else s.flipRank
def mirrorCell (h : Bool) (c : Cell) : Cell :=
  if h then c else
  if c.val = 0 then c else if c.val ≤ 6 then ⟨(c.val + 6) % 13, Nat.mod_lt _ (by decide)⟩
  else ⟨(c.val - 6) % 13, Nat.mod_lt _ (by decide)⟩
def mirrorRights (r : Rights) : Rights := ⟨(r.val / 4 + (r.val % 4) * 4) % 16, Nat.mod_lt _ (by decide)⟩
def mirrorRaw (h : Bool) (r : Impl.RawBoard) : Impl.RawBoard :=
  { cells := Tab.ofFn fun s => mirrorCell h (r.cells.get (mirrorSq h s)),
    side := if h then r.side else r.side.inv,
    castling := if h then r.castling else mirrorRights r.castling,
    ep := r.ep.map (mirrorSq h), mc := r.mc, mn := r.mn }
def mirrorMove (h : Bool) (m : Impl.Move) : Impl.Move :=
  ⟨m.kind, mirrorCell h m.cell, mirrorSq h m.src, mirrorSq h m.dst⟩
def mirrorOutcomeStr (h : Bool) (s : String) : String :=
  if h then s else
  if s.startsWith "win:w:" then "win:b:" ++ sdrop s 6 else if s.startsWith "win:b:" then "win:w:" ++ sdrop s 6 else s

def mirrorPartM (b : Impl.Board) (back : Option Bool) : String :=
  match Impl.legalGen? .all b, Impl.calcOutcome? b, Impl.isCheck? b with
  | some ms, some o, some c =>
    let ms := match back with | some h => ms.map (mirrorMove h) | none => ms
    let o := match back with | some h => mirrorOutcomeStr h (fmtOutcome o) | none => fmtOutcome o
    fmtMoves ms ++ " " ++ o ++ " " ++ bool01 c
  | _, _, _ => "panic"

def opMMirror (raw : Impl.RawBoard) (dir : String) : String :=
  withBoard raw fun b =>
    let h := dir == "h"
    if h && raw.castling.val ≠ 0 then "n/a" else
    let a := mirrorPartM b none
    let bpart := match implBoard? (mirrorRaw h raw) with
      | none => "invalid"
      | some mb => mirrorPartM mb (some h)
    a ++ " | " ++ bpart

/-! ### oracle verdicts for position operations -/

def denotedUci (p : Spec.Pos) (t : List Nat) (legal : Bool) : List Spec.Move :=
  (if legal then Spec.legalMoves p else Spec.pseudoMoves p).filter fun m => Spec.Uci.write m == t

def opSPos (op : String) (raw : Impl.RawBoard) (rest : List String) (impl : String) : String :=
  match op, rest with
  | "gen", [w, l] =>
    withPos raw impl fun p =>
      match w.toNat?.bind whichOfNat with
      | none => "-"
      | some w =>
        let base := if l = "0" then Spec.pseudoMoves p else Spec.legalMoves p
        expect (specMoves (base.filter (specSubset p w))) impl
  | "genvec", [] => withPos raw impl fun p => expect (toString (Spec.pseudoMoves p).length) impl
  | "semibulk", [] => withPos raw impl fun p => expect (specMoves (Spec.pseudoMoves p)) impl
  | "mvalidate", [mv] =>
    withPos raw impl fun p =>
      match parseMove mv with
      | none => "-"
      | some m =>
        if !Spec.geomPossible m.kind (absCell m.cell) m.src m.dst then expect "notwf" impl else
        match absMove m with
        | none => expect "err:NotSemiLegal" impl
        | some sm =>
          if (Spec.legalMoves p).contains sm then expect "ok" impl
          else if (Spec.pseudoMoves p).contains sm then expect "err:NotLegal" impl
          else expect "err:NotSemiLegal" impl
  | "legalunchecked", [mv] =>
    withPos raw impl fun p =>
      match parseMove mv with
      | none => "-"
      | some m =>
        match absMove m with
        | some sm =>
          if (Spec.pseudoMoves p).contains sm then expect (bool01 ((Spec.legalMoves p).contains sm)) impl
          else expect "n/a" impl
        | none => expect "n/a" impl
  | "make", [mv] =>
    withPos raw impl fun p =>
      match parseMove mv with
      | none => "-"
      | some m =>
        let orig := fullOfPos p
        if m = Impl.Move.null then
          match impl.splitOn " | " with
          | [_, _, c] => if c == orig then ok else bad ("undo: expected=" ++ orig)
          | _ => bad "malformed"
        else match absMove m with
          | some sm =>
            if (Spec.pseudoMoves p).contains sm then
              let after := Spec.apply p sm
              expect (fullOfPos after ++ " | oppking=" ++ bool01 (Spec.inCheck after p.side) ++ " | " ++ orig) impl
            else expect "n/a" impl
          | none => expect "n/a" impl
  | "makelike", [kind, payload] =>
    withPos raw impl fun p =>
      if impl == "panic" then bad "panic" else
      let verdict (d : List Spec.Move) : String :=
        match d with
        | [m] => expect ("ok " ++ fullOfPos (Spec.apply p m) ++ " same=1") impl
        | _ => if impl.startsWith "err:" && impl.endsWith " unchanged=1" then ok
               else if impl == "parse-err" then ok
               else bad s!"expected refusal with unchanged board (denoted legal moves: {d.length})"
      match kind with
      | "move" =>
        (match parseMove payload with
         | none => "-"
         | some m =>
           if !Spec.geomPossible m.kind (absCell m.cell) m.src m.dst then expect "notwf" impl else
           match absMove m with
           | some sm => verdict (if (Spec.legalMoves p).contains sm then [sm] else [])
           | none => verdict [])
      | "ucimove" | "ucistr" =>
        (match parseStr payload with
         | none => "-"
         | some t =>
           if t == [48, 48, 48, 48] then verdict []
           else if !uciLanguage t then
             (if kind == "ucimove" then expect "parse-err" impl else verdict [])
           else verdict (denotedUci p t true))
      | "sanmove" | "sanstr" =>
        (match parseStr payload with
         | none => "-"
         | some t => verdict (Spec.San.denotes p t))
      | _ => "-"
  | "attackers", [] =>
    withPos raw impl fun p =>
      let lists := [Color.white, Color.black].flatMap fun c =>
        Sq.all.map fun s => hexBB (bbOfSqs (Spec.attackers p s c))
      let mask (c : Color) := hexBB (bbOfSqs (Sq.all.filter fun s => Spec.attackedBy p s c))
      expect (String.intercalate "," lists ++ " " ++ mask .white ++ " " ++ mask .black) impl
  | "check", [] =>
    withPos raw impl fun p =>
      let k := match Spec.kingSq p p.side with | some k => Spec.attackers p k p.side.inv | none => []
      expect (bool01 (Spec.inCheck p p.side) ++ " " ++ hexBB (bbOfSqs k)) impl
  | "queryafter", [mv] =>
    withPos raw impl fun p =>
      match (parseMove mv).bind absMove with
      | none => expect "n/a" impl
      | some sm =>
        if !(Spec.pseudoMoves p).contains sm then expect "n/a" impl else
        let after := Spec.apply p sm
        let legal := !Spec.inCheck after p.side
        expect ((if legal then attackersStrS after ++ " | " ++ checkStrS after else "- | -")
          ++ " | " ++ attackersStrS p ++ " | " ++ checkStrS p) impl
  | "outcome", [] =>
    withPos raw impl fun p =>
      match impl.splitOn " " with
      | [o, d, h, c] =>
        let outs := (Spec.outcomes p).map fmtSpecOutcome
        let draws : List String :=
          let mand := (if Spec.insufficient p then ["InsufficientMaterial"] else []) ++ (if p.half ≥ 150 then ["Moves75"] else [])
          if !mand.isEmpty then mand else if p.half ≥ 100 then ["Moves50"] else ["none"]
        if !outs.contains o then bad s!"outcome: allowed={outs}"
        else if !draws.contains d then bad s!"draw_simple: allowed={draws}"
        else if h != bool01 (!(Spec.legalMoves p).isEmpty) then bad "has_legal_moves"
        else if c != bool01 (Spec.inCheck p p.side) then bad "is_check"
        else ok
      | _ => bad "malformed"
  | "outcomeafter", [mv] =>
    withPos raw impl fun p0 =>
      match (parseMove mv).bind absMove with
      | none => expect "n/a" impl
      | some sm =>
        if !(Spec.legalMoves p0).contains sm then expect "n/a" impl else
        let p := Spec.apply p0 sm
        match impl.splitOn " " with
        | [o, d, h, c] =>
          let outs := (Spec.outcomes p).map fmtSpecOutcome
          let draws : List String :=
            let mand := (if Spec.insufficient p then ["InsufficientMaterial"] else []) ++ (if p.half ≥ 150 then ["Moves75"] else [])
            if !mand.isEmpty then mand else if p.half ≥ 100 then ["Moves50"] else ["none"]
          if !outs.contains o then bad s!"outcome after the move: allowed={outs}"
          else if !draws.contains d then bad s!"draw_simple after the move: allowed={draws}"
          else if h != bool01 (!(Spec.legalMoves p).isEmpty) then bad "has_legal_moves after the move"
          else if c != bool01 (Spec.inCheck p p.side) then bad "is_check after the move"
          else ok
        | _ => bad "malformed"
  | "fenformat", [] =>
    let p := abs raw
    let consistent := match raw.ep with | some e => Spec.rank e = Spec.epRank raw.side | none => true
    if !consistent || raw.mc > 65535 || raw.mn > 65535 then "-" else
    (match parseStr impl with
     | none => bad "malformed"
     | some t => match Spec.Fen.read t with
       | some q => if q = p then ok else bad "independent reader sees a different position"
       | none => bad "not a canonical FEN record")
  | "uciinto", [s, mode] =>
    withPos raw impl fun p =>
      if impl == "panic" then bad "panic" else
      match parseStr s with
      | none => "-"
      | some t =>
        if mode == "basic" then ok
        else if t == [48, 48, 48, 48] || !uciLanguage t then
          (if impl.startsWith "err:" then ok else bad "expected an error")
        else match denotedUci p t (mode == "legal") with
          | [m] => expect ("ok " ++ fmtMove (concMove m)) impl
          | _ => if impl.startsWith "err:" then ok else bad "no such move exists"
  | "saninto", [s] =>
    withPos raw impl fun p =>
      if impl == "panic" then bad "panic" else
      match parseStr s with
      | none => "-"
      | some t =>
        let d := Spec.San.denotes p t
        if impl.startsWith "ok " then
          match parseMove (sdrop impl 3) with
          | none => bad "malformed"
          | some m =>
            match absMove m with
            | none => bad "returned move has no man"
            | some sm =>
              if !(Spec.legalMoves p).contains sm then bad "returned move is not legal"
              else if !d.contains sm then bad "returned move does not agree with the text"
              else if d.length > 1 then bad "several legal moves agree with the text; ambiguity expected"
              else ok
        else
          -- an error: a violation only if the text is exactly the standard SAN of a (unique) legal move
          -- the standard SAN of a move is one of its spellings, so only the denoted moves need be written out
          match d.filter fun m => Spec.San.write p m == t with
          | [m] => bad ("standard SAN of legal move refused: " ++ fmtMove (concMove m))
          | _ => ok
  | "sanof", [mv] =>
    withPos raw impl fun p =>
      match parseMove mv with
      | none => "-"
      | some m =>
        if !Spec.geomPossible m.kind (absCell m.cell) m.src m.dst then expect "notwf" impl else
        match absMove m with
        | some sm =>
          if (Spec.legalMoves p).contains sm then expect ("ok " ++ fmtStr (Spec.San.write p sm)) impl
          else if (Spec.pseudoMoves p).contains sm then expect "err:NotLegal" impl
          else if impl.startsWith "err:" then ok else bad "expected an error"
        | none => if impl.startsWith "err:" then ok else bad "expected an error"
  | _, _ => "-"

def opSMirror (impl : String) : String :=
  if impl == "invalid" || impl == "n/a" then ok else
  match impl.splitOn " | " with
  | [a, b] => if a == b then ok else bad "mirror image differs"
  | _ => bad "malformed"

end Owl.Drv
