/-
Basic types shared by the implementation model (`Impl`), the generated data (`Gen`) and the
driver. No imports: everything here must link into the `owldrv` executable.

rust: chess_base/src/types.rs (File, Rank, Coord, Color, Piece, Cell, CastlingRights),
      chess_base/src/bitboard.rs (Bitboard)
-/
namespace Owl

/-- `Coord(u8)`: index = rank_index*8 + file_index, a8 = 0 … h1 = 63. -/
abbrev Sq := Fin 64
/-- `Cell(u8)`: 0 empty, 1–6 white P K N B R Q, 7–12 black. -/
abbrev Cell := Fin 13
/-- `Bitboard(u64)`. -/
abbrev BB := BitVec 64
/-- `CastlingRights(u8)`: bit = colour*2 + side (queen side 0, king side 1). -/
abbrev Rights := Fin 16

inductive Color | white | black
  deriving DecidableEq, Repr, Inhabited

inductive Piece | pawn | king | knight | bishop | rook | queen
  deriving DecidableEq, Repr, Inhabited

/-- `MoveKind` with its `repr(u8)` discriminants 0–9. -/
inductive Kind
  | null | simple | castleK | castleQ | double | ep | promN | promB | promR | promQ
  deriving DecidableEq, Repr, Inhabited

inductive Side | queen | king
  deriving DecidableEq, Repr, Inhabited

namespace Color
def inv : Color → Color | white => black | black => white
def idx : Color → Nat | white => 0 | black => 1
@[simp] theorem inv_inv (c : Color) : c.inv.inv = c := by cases c <;> rfl
theorem inv_ne (c : Color) : c.inv ≠ c := by cases c <;> decide
end Color

namespace Piece
def idx : Piece → Nat
  | pawn => 0 | king => 1 | knight => 2 | bishop => 3 | rook => 4 | queen => 5
def ofIdx : Nat → Option Piece
  | 0 => some pawn | 1 => some king | 2 => some knight | 3 => some bishop
  | 4 => some rook | 5 => some queen | _ => none
def all : List Piece := [pawn, king, knight, bishop, rook, queen]
end Piece

namespace Kind
def idx : Kind → Nat
  | null => 0 | simple => 1 | castleK => 2 | castleQ => 3 | double => 4 | ep => 5
  | promN => 6 | promB => 7 | promR => 8 | promQ => 9
def ofIdx : Nat → Option Kind
  | 0 => some null | 1 => some simple | 2 => some castleK | 3 => some castleQ
  | 4 => some double | 5 => some ep | 6 => some promN | 7 => some promB
  | 8 => some promR | 9 => some promQ | _ => none
def all : List Kind := [null, simple, castleK, castleQ, double, ep, promN, promB, promR, promQ]
/-- `MoveKind::promote` -/
def promote : Kind → Option Piece
  | promN => some .knight | promB => some .bishop | promR => some .rook | promQ => some .queen
  | _ => none
end Kind

namespace Sq
def file (s : Sq) : Fin 8 := ⟨s.val % 8, Nat.mod_lt _ (by decide)⟩
def rank (s : Sq) : Fin 8 := ⟨s.val / 8, by have := s.isLt; omega⟩
/-- `Coord::from_parts` -/
def mk (f r : Fin 8) : Sq := ⟨r.val * 8 + f.val, by have := f.isLt; have := r.isLt; omega⟩
def all : List Sq := List.finRange 64
@[simp] theorem mk_file_rank (s : Sq) : mk s.file s.rank = s := by
  apply Fin.ext; simp [mk, file, rank] <;> omega
@[simp] theorem file_mk (f r : Fin 8) : (mk f r).file = f := by
  apply Fin.ext; simp [mk, file] <;> omega
@[simp] theorem rank_mk (f r : Fin 8) : (mk f r).rank = r := by
  apply Fin.ext; simp [mk, rank] <;> omega
/-- `Coord::add_unchecked` as a *total* operation: the result if it is in range. -/
def add? (s : Sq) (d : Int) : Option Sq :=
  let v : Int := (s.val : Int) + d
  if h : 0 ≤ v ∧ v < 64 then some ⟨v.toNat, by omega⟩ else none
/-- `Coord::shift` -/
def shift (s : Sq) (df dr : Int) : Option Sq :=
  let f : Int := (s.file.val : Int) + df
  let r : Int := (s.rank.val : Int) + dr
  if h : 0 ≤ f ∧ f < 8 ∧ 0 ≤ r ∧ r < 8 then some ⟨(r * 8 + f).toNat, by omega⟩ else none
def flipRank (s : Sq) : Sq := ⟨s.val ^^^ 56, by
  have := s.isLt; exact Nat.lt_of_lt_of_le (Nat.xor_lt_two_pow (n := 6) (by omega) (by decide)) (by decide)⟩
def flipFile (s : Sq) : Sq := ⟨s.val ^^^ 7, by
  have := s.isLt; exact Nat.lt_of_lt_of_le (Nat.xor_lt_two_pow (n := 6) (by omega) (by decide)) (by decide)⟩
end Sq

namespace Cell
def empty : Cell := 0
/-- `Cell::from_parts` -/
def mk (c : Color) (p : Piece) : Cell :=
  match c with
  | .white => ⟨1 + p.idx, by cases p <;> decide⟩
  | .black => ⟨7 + p.idx, by cases p <;> decide⟩
/-- `Cell::color` -/
def color (c : Cell) : Option Color :=
  if c.val = 0 then none else if c.val ≤ 6 then some .white else some .black
/-- `Cell::piece` -/
def piece (c : Cell) : Option Piece :=
  if c.val = 0 then none else Piece.ofIdx ((c.val - 1) % 6)
def isFree (c : Cell) : Bool := c.val == 0
def isOcc (c : Cell) : Bool := c.val != 0
def all : List Cell := List.finRange 13
end Cell

namespace BB
def single (s : Sq) : BB := (1#64) <<< s.val
def has (b : BB) (s : Sq) : Bool := b.getLsbD s.val
def isEmpty (b : BB) : Bool := b == 0#64
def nonEmpty (b : BB) : Bool := b != 0#64
def ofNat (n : Nat) : BB := BitVec.ofNat 64 n
/-- ascending list of members — `Bitboard::into_iter` -/
def toList (b : BB) : List Sq := Sq.all.filter fun s => b.has s
def len (b : BB) : Nat := (toList b).length
/-- first (lowest) member — `into_iter().next()` -/
def first? (b : BB) : Option Sq := Sq.all.find? fun s => b.has s
def ofList (l : List Sq) : BB := l.foldl (fun acc s => acc ||| single s) 0#64
end BB

/-- entry `i` of a table packed into one natural number, 64 bits per entry -/
def tabGet (t : Nat) (i : Nat) : BB := BitVec.ofNat 64 (t >>> (64 * i))

/-- A fixed-size table with one rewrite rule; wraps `Vector`. -/
structure Tab (n : Nat) (α : Type) where
  v : Vector α n
  deriving DecidableEq

namespace Tab
variable {n : Nat} {α : Type}
def get (t : Tab n α) (i : Fin n) : α := t.v[i.val]'i.isLt
def put (t : Tab n α) (i : Fin n) (x : α) : Tab n α := ⟨t.v.set i.val x i.isLt⟩
def ofFn (f : Fin n → α) : Tab n α := ⟨Vector.ofFn f⟩
def fill (x : α) : Tab n α := ⟨Vector.replicate n x⟩
@[simp] theorem get_put (t : Tab n α) (i j : Fin n) (x : α) :
    (t.put i x).get j = if i = j then x else t.get j := by
  unfold get put
  by_cases h : i = j
  · subst h; simp
  · have : i.val ≠ j.val := fun e => h (Fin.ext e)
    simp [h, Vector.getElem_set_ne, this]
@[simp] theorem get_ofFn (f : Fin n → α) (i : Fin n) : (ofFn f).get i = f i := by
  simp [get, ofFn]
@[simp] theorem get_fill (x : α) (i : Fin n) : (fill x : Tab n α).get i = x := by
  simp [get, fill]
theorem ext {t u : Tab n α} (h : ∀ i, t.get i = u.get i) : t = u := by
  cases t with | mk tv => cases u with | mk uv =>
  congr
  apply Vector.ext
  intro i hi
  exact h ⟨i, hi⟩
end Tab

/-- Result of a modelled Rust function: value, error value, or a panic / UB site reached. -/
inductive Res (ε α : Type)
  | ok (a : α) | err (e : ε) | trap (why : String)
  deriving Repr, DecidableEq

deriving instance DecidableEq for Except

end Owl
