/-
The abstraction linking the implementation model's raw board and moves to the specification's
mailbox position and moves, and its inverse on the image.
-/
import OwlModel.Impl.Chain
import OwlModel.Spec.Chain

namespace Owl
open Owl

def absCell (c : Cell) : Option Spec.Man :=
  match c.color, c.piece with
  | some col, some pc => some ⟨col, pc⟩
  | _, _ => none

def absRights (r : Rights) : Spec.RightsSet :=
  ⟨Impl.rHas r .white .king, Impl.rHas r .white .queen, Impl.rHas r .black .king, Impl.rHas r .black .queen⟩

/-- raw board ↦ specification position -/
def abs (r : Impl.RawBoard) : Spec.Pos :=
  { board := Tab.ofFn fun s => absCell (r.cells.get s), side := r.side, rights := absRights r.castling,
    ep := r.ep, half := r.mc, full := r.mn }

def absMove (m : Impl.Move) : Option Spec.Move :=
  (absCell m.cell).map fun man => ⟨m.kind, man, m.src, m.dst⟩

def concCell : Option Spec.Man → Cell
  | none => Cell.empty
  | some m => Cell.mk m.color m.piece

def concRights (r : Spec.RightsSet) : Rights :=
  ⟨(if r.wq then 1 else 0) + (if r.wk then 2 else 0) + (if r.bq then 4 else 0) + (if r.bk then 8 else 0), by
    cases r.wq <;> cases r.wk <;> cases r.bq <;> cases r.bk <;> decide⟩

def concMove (m : Spec.Move) : Impl.Move := ⟨m.kind, Cell.mk m.man.color m.man.piece, m.src, m.dst⟩

def conc (p : Spec.Pos) : Impl.RawBoard :=
  { cells := Tab.ofFn fun s => concCell (p.board.get s), side := p.side, castling := concRights p.rights,
    ep := p.ep, mc := p.half, mn := p.full }

end Owl
