/-
Specification layer: a game record is (start position, accepted moves, stored outcome);
the current position is the replay of the moves from the start.
-/
import OwlModel.Spec.Text

namespace Owl.Spec
open Owl

/-- positions along the game: start, then after each move -/
def history (start : Pos) : List Move → List Pos
  | [] => [start]
  | m :: rest => start :: history (apply start m) rest

def replay (start : Pos) (moves : List Move) : Pos := moves.foldl apply start

/-- repetition key: squares, side to move, castling rights, en-passant mark -/
def sameKey (a b : Pos) : Bool :=
  decide (a.board = b.board) && decide (a.side = b.side) && decide (a.rights = b.rights) && decide (a.ep = b.ep)

def repetitions (start : Pos) (moves : List Move) : Nat :=
  let cur := replay start moves
  ((history start moves).filter fun p => sameKey p cur).length

/-- the outcomes the chain may calculate (C14): forced, else mandatory, else claimable, else none -/
def chainOutcomes (start : Pos) (moves : List Move) : List (Option Outcome) :=
  let cur := replay start moves
  if (legalMoves cur).isEmpty then
    [some (if inCheck cur cur.side then .checkmate cur.side.inv else .stalemate)]
  else
    let rep := repetitions start moves
    let mandatory : List (Option Outcome) :=
      (if insufficient cur then [some .insufficient] else []) ++ (if cur.half ≥ 150 then [some .moves75] else [])
      ++ (if rep ≥ 5 then [some .repeat5] else [])
    if !mandatory.isEmpty then mandatory
    else
      let claimable : List (Option Outcome) :=
        (if rep ≥ 3 then [some .repeat3] else []) ++ (if cur.half ≥ 100 then [some .moves50] else [])
      if !claimable.isEmpty then claimable else [none]

inductive Filter | force | strict | relaxed
  deriving DecidableEq

/-- forced outcomes pass every filter, mandatory draws the strict and relaxed ones, claimable draws only relaxed -/
def passes (o : Outcome) (f : Filter) : Bool :=
  match o with
  | .checkmate _ | .stalemate => true
  | .insufficient | .moves75 | .repeat5 => f ≠ .force
  | .moves50 | .repeat3 => f = .relaxed

inductive NumPolicy | omit | fromBoard | custom (n : Nat)
inductive TextStyle | san | sanFig | uci

def fmtDec (n : Nat) : Bytes := (toString n).toList.map (·.toNat)

def moveText (sty : TextStyle) (p : Pos) (m : Move) : Bytes :=
  match sty with
  | .san => San.write p m
  | .sanFig => San.writeWith true p m
  | .uci => Uci.write m

/-- status token: 1-0, 0-1, 1/2-1/2 or * -/
def statusText (winner : Option (Option Color)) : Bytes :=
  match winner with
  | some (some .white) => [49, 45, 48]
  | some (some .black) => [48, 45, 49]
  | some none => [49, 47, 50, 45, 49, 47, 50]
  | none => [42]

/-- the printed game: numbers continue from the start position's number (or the custom one) -/
def render (start : Pos) (moves : List Move) (nums : NumPolicy) (sty : TextStyle)
    (status : Option (Option (Option Color))) : Bytes :=
  let startNum : Option Nat := match nums with
    | .omit => none | .fromBoard => some start.full | .custom n => some n
  let rec go (p : Pos) (ms : List Move) (first : Bool) : Bytes :=
    match ms with
    | [] => []
    | m :: rest =>
      let num : Bytes := match startNum with
        | none => []
        | some n =>
          let k := n + (p.full - start.full)
          if first then (if p.side = .white then fmtDec k ++ [46, 32] else fmtDec k ++ [46, 46, 46, 32])
          else if p.side = .white then fmtDec k ++ [46, 32] else []
      (if first then [] else [32]) ++ num ++ moveText sty p m ++ go (apply p m) rest false
  let body := go start moves true
  match status with
  | none => body
  | some w => (if moves.isEmpty then [] else body ++ [32]) ++ statusText w

end Owl.Spec
