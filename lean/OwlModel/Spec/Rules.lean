/-
Specification layer: the rules of chess on a mailbox board. No bitboards, no tables, no pins.
Shares only the plain enumerations (`Sq`, `Color`, `Piece`, `Kind`, `Side`) and `Tab` with the rest.
`ep` is the square of the pawn that has just made a double step (as in `RawBoard::ep_source`).
-/
import OwlModel.Basic

namespace Owl.Spec
open Owl

structure Man where
  color : Color
  piece : Piece
  deriving DecidableEq, Repr, Inhabited

/-- castling rights as four flags -/
structure RightsSet where
  wk : Bool
  wq : Bool
  bk : Bool
  bq : Bool
  deriving DecidableEq, Repr, Inhabited

def RightsSet.has (r : RightsSet) : Color → Side → Bool
  | .white, .king => r.wk | .white, .queen => r.wq
  | .black, .king => r.bk | .black, .queen => r.bq
def RightsSet.ofFn (f : Color → Side → Bool) : RightsSet :=
  ⟨f .white .king, f .white .queen, f .black .king, f .black .queen⟩
def RightsSet.none : RightsSet := ⟨false, false, false, false⟩
@[simp] theorem RightsSet.has_ofFn (f : Color → Side → Bool) (c : Color) (s : Side) :
    (RightsSet.ofFn f).has c s = f c s := by cases c <;> cases s <;> rfl

structure Pos where
  board : Tab 64 (Option Man)
  side : Color
  rights : RightsSet
  ep : Option Sq
  half : Nat
  full : Nat
  deriving DecidableEq

def Pos.get (p : Pos) (s : Sq) : Option Man := p.board.get s

def file (s : Sq) : Nat := s.val % 8
/-- rank index: 0 = rank 8 … 7 = rank 1 -/
def rank (s : Sq) : Nat := s.val / 8
def mkSq? (f r : Int) : Option Sq :=
  if h : 0 ≤ f ∧ f < 8 ∧ 0 ≤ r ∧ r < 8 then some ⟨(r * 8 + f).toNat, by omega⟩ else none
def sqOf (f r : Fin 8) : Sq := ⟨r.val * 8 + f.val, by have := f.isLt; have := r.isLt; omega⟩
def step (s : Sq) (d : Int × Int) : Option Sq := mkSq? ((file s : Int) + d.1) ((rank s : Int) + d.2)

/-- rank-index delta of a forward pawn step -/
def forward : Color → Int | .white => -1 | .black => 1
def homeRank : Color → Fin 8 | .white => 7 | .black => 0
def pawnStartRank : Color → Nat | .white => 6 | .black => 1
def promoRank : Color → Nat | .white => 0 | .black => 7
/-- rank index on which a pawn of colour `c` stands right after its double step -/
def doubleDstRank : Color → Nat | .white => 4 | .black => 3

structure Move where
  kind : Kind
  man : Man
  src : Sq
  dst : Sq
  deriving DecidableEq, Repr, Inhabited

def knightSteps : List (Int × Int) := [(-2,-1),(-2,1),(-1,-2),(-1,2),(1,-2),(1,2),(2,-1),(2,1)]
def kingSteps : List (Int × Int) := [(-1,-1),(-1,0),(-1,1),(0,-1),(0,1),(1,-1),(1,0),(1,1)]
def rookDirs : List (Int × Int) := [(0,1),(0,-1),(-1,0),(1,0)]
def bishopDirs : List (Int × Int) := [(-1,1),(-1,-1),(1,-1),(1,1)]
def dirsOf : Piece → List (Int × Int)
  | .bishop => bishopDirs | .rook => rookDirs | .queen => bishopDirs ++ rookDirs | _ => []

/-- squares from `s` in direction `d`, nearest first (at most `n`) -/
def ray (d : Int × Int) : Nat → Sq → List Sq
  | 0, _ => []
  | n+1, s => match step s d with
    | none => []
    | some t => t :: ray d n t

/-- the squares a slider reaches along a ray: up to and including the first occupied one -/
def reach (occ : Sq → Bool) : List Sq → List Sq
  | [] => []
  | t :: rest => if occ t then [t] else t :: reach occ rest

def Pos.occ (p : Pos) (s : Sq) : Bool := (p.get s).isSome

/-- squares reached by sliding from `s` in each of the directions `dirs` -/
def slide (dirs : List (Int × Int)) (occ : Sq → Bool) (s : Sq) : List Sq :=
  dirs.flatMap fun d => reach occ (ray d 7 s)

/-- does the man standing on `s` attack square `t` (by its capturing pattern)? -/
def attacks (p : Pos) (s t : Sq) : Bool :=
  match p.get s with
  | none => false
  | some m => match m.piece with
    | .pawn => [((-1 : Int), forward m.color), (1, forward m.color)].any fun d => step s d == some t
    | .knight => knightSteps.any fun d => step s d == some t
    | .king => kingSteps.any fun d => step s d == some t
    | pc => (slide (dirsOf pc) p.occ s).contains t

def allSq : List Sq := List.finRange 64
/-- the men of colour `c` attacking square `t` -/
def attackers (p : Pos) (t : Sq) (c : Color) : List Sq :=
  allSq.filter fun s => (p.get s).any (·.color == c) && attacks p s t
def attackedBy (p : Pos) (t : Sq) (c : Color) : Bool := !(attackers p t c).isEmpty
def kingSqs (p : Pos) (c : Color) : List Sq := allSq.filter fun s => p.get s == some ⟨c, .king⟩
def kingSq (p : Pos) (c : Color) : Option Sq := (kingSqs p c).head?
def inCheck (p : Pos) (c : Color) : Bool := (kingSq p c).any fun k => attackedBy p k c.inv

def promKinds : List Kind := [.promN, .promB, .promR, .promQ]

def pawnMoves (p : Pos) (s : Sq) (c : Color) : List Move :=
  let me : Man := ⟨c, .pawn⟩
  let mk (k : Kind) (t : Sq) : List Move :=
    if rank t = promoRank c ∧ k = .simple then promKinds.map fun pk => ⟨pk, me, s, t⟩ else [⟨k, me, s, t⟩]
  let push := match step s (0, forward c) with
    | some t => if (p.get t).isNone then
        mk .simple t ++ (if rank s = pawnStartRank c then
          match step t (0, forward c) with
          | some u => if (p.get u).isNone then [⟨.double, me, s, u⟩] else []
          | none => [] else [])
      else []
    | none => []
  let caps := [(-1 : Int), 1].flatMap fun df => match step s (df, forward c) with
    | some t => match p.get t with
      | some x => if x.color ≠ c then mk .simple t else []
      | none => match p.ep with
        | some e => if step e (0, forward c) = some t ∧ rank e = rank s then [⟨.ep, me, s, t⟩] else []
        | none => []
    | none => []
  push ++ caps

def castleMoves (p : Pos) (c : Color) : List Move :=
  let sq (f : Fin 8) : Sq := sqOf f (homeRank c)
  let free (fs : List (Fin 8)) := fs.all fun f => (p.get (sq f)).isNone
  let safe (fs : List (Fin 8)) := fs.all fun f => !attackedBy p (sq f) c.inv
  (if p.rights.has c .king ∧ free [5,6] ∧ safe [4,5] then [⟨.castleK, ⟨c,.king⟩, sq 4, sq 6⟩] else []) ++
  (if p.rights.has c .queen ∧ free [1,2,3] ∧ safe [4,3] then [⟨.castleQ, ⟨c,.king⟩, sq 4, sq 2⟩] else [])

def pieceMoves (p : Pos) (s : Sq) (m : Man) : List Move :=
  let free (t : Sq) : Bool := !(p.get t).any (·.color == m.color)
  match m.piece with
  | .pawn => pawnMoves p s m.color
  | .knight => knightSteps.filterMap fun d => (step s d).bind fun t => if free t then some ⟨.simple, m, s, t⟩ else none
  | .king => kingSteps.filterMap fun d => (step s d).bind fun t => if free t then some ⟨.simple, m, s, t⟩ else none
  | pc => (slide (dirsOf pc) p.occ s).filterMap fun t => if free t then some ⟨.simple, m, s, t⟩ else none

/-- pseudo-legal moves of the side to move -/
def pseudoMoves (p : Pos) : List Move :=
  let c := p.side
  (allSq.flatMap fun s => match p.get s with
    | some m => if m.color ≠ c then [] else pieceMoves p s m
    | none => []) ++ castleMoves p c

def kingHome (c : Color) : Sq := sqOf 4 (homeRank c)
def rookHome (c : Color) : Side → Sq
  | .king => sqOf 7 (homeRank c)
  | .queen => sqOf 0 (homeRank c)

/-- the square of the man a move captures, if any -/
def capturedSq (p : Pos) (m : Move) : Option Sq :=
  match m.kind with
  | .ep => p.ep
  | .castleK | .castleQ | .null => none
  | _ => if (p.get m.dst).isSome then some m.dst else none

/-- the position after a (pseudo-legal) move, stated field by field -/
def apply (p : Pos) (m : Move) : Pos :=
  let c := m.man.color
  let sq (f : Fin 8) : Sq := sqOf f (homeRank c)
  let captured := capturedSq p m
  let placed : Man := match m.kind.promote with | some pc => ⟨c, pc⟩ | none => m.man
  let cell (s : Sq) : Option Man :=
    if s = m.dst then some placed
    else if s = m.src then none
    else if some s = captured then none
    else if m.kind = .castleK ∧ s = sq 7 then none
    else if m.kind = .castleK ∧ s = sq 5 then some ⟨c, .rook⟩
    else if m.kind = .castleQ ∧ s = sq 0 then none
    else if m.kind = .castleQ ∧ s = sq 3 then some ⟨c, .rook⟩
    else p.get s
  -- a right is lost exactly when that king moved, that rook moved, or that rook was captured at home
  let keeps (cc : Color) (s : Side) : Bool :=
    p.rights.has cc s
      && !(m.man == ⟨cc, .king⟩)
      && !(m.man == ⟨cc, .rook⟩ && m.src == rookHome cc s)
      && !(m.dst == rookHome cc s && p.get m.dst == some ⟨cc, .rook⟩)
  let resets := m.man.piece = .pawn ∨ captured.isSome
  { board := Tab.ofFn cell
    side := c.inv
    rights := RightsSet.ofFn keeps
    ep := if m.kind = .double then some m.dst else none
    half := if resets then 0 else min (p.half + 1) 65535
    full := if c = .black then min (p.full + 1) 65535 else p.full }

def legalMoves (p : Pos) : List Move :=
  (pseudoMoves p).filter fun m => !inCheck (apply p m) p.side

def PseudoLegal (p : Pos) (m : Move) : Prop := m ∈ pseudoMoves p
def Legal (p : Pos) (m : Move) : Prop := m ∈ legalMoves p

def perft : Nat → Pos → Nat
  | 0, _ => 1
  | n+1, p => (legalMoves p).foldl (fun acc m => acc + perft n (apply p m)) 0

/-! ### Valid positions, normalisation (C11) -/

def menOf (p : Pos) (c : Color) : List Sq := allSq.filter fun s => (p.get s).any (·.color == c)
def pawnSqs (p : Pos) : List Sq := allSq.filter fun s => (p.get s).any (·.piece == .pawn)

/-- rank index on which a pawn that `side` may capture en passant stands -/
def epRank (side : Color) : Nat := doubleDstRank side.inv

inductive Reject
  | invalidEnpassant (s : Sq) | tooManyPieces (c : Color) | noKing (c : Color)
  | tooManyKings (c : Color) | invalidPawn (s : Sq) | opponentKingAttacked
  deriving DecidableEq, Repr

/-- the en-passant mark survives normalisation iff an enemy pawn stands on it and the square behind is empty -/
def epKept (p : Pos) : Option Sq :=
  match p.ep with
  | none => none
  | some e =>
    if p.get e = some ⟨p.side.inv, .pawn⟩ ∧ (step e (0, forward p.side)).any (fun t => (p.get t).isNone)
    then some e else none

/-- a right survives iff the king and that rook stand on their home squares -/
def rightKept (p : Pos) (c : Color) (s : Side) : Bool :=
  p.rights.has c s && p.get (kingHome c) == some ⟨c, .king⟩ && p.get (rookHome c s) == some ⟨c, .rook⟩

def normalise (p : Pos) : Pos :=
  { p with ep := epKept p, rights := RightsSet.ofFn (rightKept p) }

/-- the conditions of C11, as a list of the reasons that hold (in the order the property lists them is irrelevant) -/
def Holds (r : Reject) (p : Pos) : Prop :=
  match r with
  | .invalidEnpassant s => p.ep = some s ∧ rank s ≠ epRank p.side
  | .tooManyPieces c => (menOf p c).length > 16
  | .noKing c => kingSqs p c = []
  | .tooManyKings c => (kingSqs p c).length > 1
  | .invalidPawn s => s ∈ pawnSqs p ∧ (rank s = 0 ∨ rank s = 7)
  | .opponentKingAttacked => inCheck (normalise p) p.side.inv

instance (r : Reject) (p : Pos) : Decidable (Holds r p) := by
  unfold Holds; cases r <;> simp only <;> exact inferInstance

/-- C11: one king and at most sixteen men each, no pawn on the first or last rank, a recorded en-passant pawn
on the rank appropriate to the side to move, and the side not to move not in check -/
def ValidRaw (p : Pos) : Bool :=
  (match p.ep with | some e => rank e = epRank p.side | none => true)
    && (menOf p .white).length ≤ 16 && (menOf p .black).length ≤ 16
    && (kingSqs p .white).length = 1 && (kingSqs p .black).length = 1
    && (pawnSqs p).all (fun s => rank s ≠ 0 ∧ rank s ≠ 7)
    && !inCheck (normalise p) p.side.inv

/-! ### Outcome (C07) -/

inductive Outcome
  | checkmate (winner : Color) | stalemate | insufficient | moves75 | moves50
  | repeat5 | repeat3
  deriving DecidableEq, Repr

def squareLight (s : Sq) : Bool := (file s + rank s) % 2 = 0

/-- besides the two kings the board holds nothing, or a single knight, or only bishops all on one square colour -/
def insufficient (p : Pos) : Bool :=
  let others := allSq.filter fun s => (p.get s).any (·.piece != .king)
  others.isEmpty
    || (others.length = 1 && others.all fun s => (p.get s).any (·.piece == .knight))
    || (others.all (fun s => (p.get s).any (·.piece == .bishop))
        && (others.all squareLight || others.all (fun s => !squareLight s)))

def drawSimple (p : Pos) : Option Outcome :=
  if insufficient p then some .insufficient
  else if p.half ≥ 150 then some .moves75
  else if p.half ≥ 100 then some .moves50
  else none

def outcome (p : Pos) : Option Outcome :=
  if (legalMoves p).isEmpty then
    if inCheck p p.side then some (.checkmate p.side.inv) else some .stalemate
  else drawSimple p

end Owl.Spec

namespace Owl.Spec

/-! ### Geometrically possible move tuples (C06) -/

/-- `dst` lies on one of the rays from `src` in the given directions (board otherwise empty) -/
def onRay (dirs : List (Int × Int)) (src dst : Sq) : Bool :=
  dirs.any fun d => (ray d 7 src).contains dst

/-- the (kind, man, source, destination) tuples that are geometrically possible for that kind -/
def geomPossible (k : Kind) (man : Option Man) (src dst : Sq) : Bool :=
  match k, man with
  | .null, none => src.val = 0 && dst.val = 0
  | .null, some _ => false
  | _, none => false
  | .simple, some m =>
    src ≠ dst && (match m.piece with
    | .pawn => ([(-1 : Int), 0, 1].any fun df => step src (df, forward m.color) == some dst)
        && rank src ≠ 0 && rank src ≠ 7 && rank dst ≠ 0 && rank dst ≠ 7
    | .king => kingSteps.any fun d => step src d == some dst
    | .knight => knightSteps.any fun d => step src d == some dst
    | pc => onRay (dirsOf pc) src dst)
  | .castleK, some m => m.piece = .king && src = kingHome m.color && dst = sqOf 6 (homeRank m.color)
  | .castleQ, some m => m.piece = .king && src = kingHome m.color && dst = sqOf 2 (homeRank m.color)
  | .double, some m =>
    m.piece = .pawn && file src = file dst && rank src = pawnStartRank m.color && rank dst = doubleDstRank m.color
  | .ep, some m =>
    m.piece = .pawn && rank src = doubleDstRank m.color.inv
      && ([(-1 : Int), 1].any fun df => step src (df, forward m.color) == some dst)
  | _, some m =>   -- the four promotions
    m.piece = .pawn && rank dst = promoRank m.color
      && ([(-1 : Int), 0, 1].any fun df => step src (df, forward m.color) == some dst)

/-- outcomes the property allows for a position (C07): forced; else any mandatory draw that applies;
else the claimable one; else none -/
def outcomes (p : Pos) : List (Option Outcome) :=
  if (legalMoves p).isEmpty then
    [some (if inCheck p p.side then .checkmate p.side.inv else .stalemate)]
  else
    let mandatory : List (Option Outcome) :=
      (if insufficient p then [some .insufficient] else []) ++ (if p.half ≥ 150 then [some .moves75] else [])
    if !mandatory.isEmpty then mandatory
    else if p.half ≥ 100 then [some .moves50] else [none]

/-- strictly-between squares of two aligned squares along direction set `dirs`; `none` if not aligned -/
def between (dirs : List (Int × Int)) (a b : Sq) : Option (List Sq) :=
  dirs.findSome? fun d =>
    let r := ray d 7 a
    if r.contains b then some (r.takeWhile (· ≠ b)) else none

end Owl.Spec
