/-
Specification layer: notations. A grammar-style FEN reader (not the code's byte loop), the standard
SAN writing rules as a function of the legal-move set, the acceptable spellings of a move, UCI text.
Bytes are `List Nat`.
-/
import OwlModel.Spec.Rules

namespace Owl.Spec
open Owl

abbrev Bytes := List Nat

def splitOn (sep : Nat) (s : Bytes) : List Bytes :=
  let (cur, acc) := s.foldr (fun b (st : Bytes × List Bytes) =>
    if b = sep then ([], st.1 :: st.2) else (b :: st.1, st.2)) ([], [])
  cur :: acc

def manOfLetter (b : Nat) : Option Man :=
  match b with
  | 80 => some ⟨.white, .pawn⟩ | 75 => some ⟨.white, .king⟩ | 78 => some ⟨.white, .knight⟩
  | 66 => some ⟨.white, .bishop⟩ | 82 => some ⟨.white, .rook⟩ | 81 => some ⟨.white, .queen⟩
  | 112 => some ⟨.black, .pawn⟩ | 107 => some ⟨.black, .king⟩ | 110 => some ⟨.black, .knight⟩
  | 98 => some ⟨.black, .bishop⟩ | 114 => some ⟨.black, .rook⟩ | 113 => some ⟨.black, .queen⟩
  | _ => none

def letterOfMan (m : Man) : Nat :=
  let up := match m.piece with
    | .pawn => 80 | .king => 75 | .knight => 78 | .bishop => 66 | .rook => 82 | .queen => 81
  match m.color with | .white => up | .black => up + 32

/-- one rank string → its eight squares; digits 1–8 are runs of empty squares, no two digits adjacent -/
def readRank : Bytes → Bool → Option (List (Option Man))
  | [], _ => some []
  | b :: rest, prevDigit =>
    if 49 ≤ b ∧ b ≤ 56 then
      if prevDigit then none
      else (readRank rest true).map fun l => List.replicate (b - 48) none ++ l
    else match manOfLetter b with
      | none => none
      | some m => (readRank rest false).map fun l => some m :: l

def readDecimal (s : Bytes) : Option Nat :=
  match s with
  | [] => none
  | [48] => some 0
  | 48 :: _ => none
  | _ =>
    if s.all (fun b => 48 ≤ b && b ≤ 57) then
      let v := s.foldl (fun a b => a * 10 + (b - 48)) 0
      if v ≤ 65535 then some v else none
    else none

def readRights (s : Bytes) : Option RightsSet :=
  if s = [45] then some RightsSet.none
  else if s = [] then none
  else
    -- a non-empty subsequence of "KQkq" in that order
    let r : RightsSet := ⟨s.contains 75, s.contains 81, s.contains 107, s.contains 113⟩
    let canon := (if r.wk then [75] else []) ++ (if r.wq then [81] else [])
      ++ (if r.bk then [107] else []) ++ (if r.bq then [113] else [])
    if s = canon then some r else none

def readSquare (s : Bytes) : Option Sq :=
  match s with
  | [f, r] => if 97 ≤ f ∧ f ≤ 104 ∧ 49 ≤ r ∧ r ≤ 56 then mkSq? ((f : Int) - 97) (56 - (r : Int)) else none
  | _ => none

/-- canonical six-field FEN record → position -/
def Fen.read (s : Bytes) : Option Pos :=
  match splitOn 32 s with
  | [f1, f2, f3, f4, f5, f6] =>
    let ranks := splitOn 47 f1
    if ranks.length ≠ 8 then none else
    match ranks.mapM (fun r => readRank r false) with
    | none => none
    | some rows =>
      if !rows.all (fun r => r.length = 8) then none else
      let cells := rows.flatten
      let side? : Option Color := if f2 = [119] then some .white else if f2 = [98] then some .black else none
      match side?, readRights f3, readDecimal f5, readDecimal f6 with
      | some side, some rights, some half, some full =>
        let ep? : Option (Option Sq) :=
          if f4 = [45] then some none
          else match readSquare f4 with
            | none => none
            | some t =>
              -- the target square is behind the pawn: rank 6 when White is to move, rank 3 when Black is
              if rank t = (match side with | .white => 2 | .black => 5) then
                (step t (0, -(forward side))).map some
              else none
        match ep? with
        | none => none
        | some ep =>
          some { board := Tab.ofFn fun i => cells.getD i.val none, side := side, rights := rights,
                 ep := ep, half := half, full := full }
      | _, _, _, _ => none
  | _ => none

/-! ### UCI -/

def sqText (s : Sq) : Bytes := [97 + file s, 56 - rank s]

def promoLetterLower : Kind → Bytes
  | .promN => [110] | .promB => [98] | .promR => [114] | .promQ => [113] | _ => []

/-- coordinate notation of a move -/
def Uci.write (m : Move) : Bytes := sqText m.src ++ sqText m.dst ++ promoLetterLower m.kind

/-! ### SAN -/

def pieceLetter : Piece → Nat
  | .pawn => 80 | .knight => 78 | .bishop => 66 | .rook => 82 | .queen => 81 | .king => 75

def promoSuffix : Kind → Bytes
  | .promN => [61, 78] | .promB => [61, 66] | .promR => [61, 82] | .promQ => [61, 81] | _ => []

def isCapture (p : Pos) (m : Move) : Bool := (capturedSq p m).isSome

/-- piece glyphs of the figurine style -/
def pieceGlyph : Piece → Bytes
  | .pawn => [0xE2, 0x99, 0x99] | .knight => [0xE2, 0x99, 0x98] | .bishop => [0xE2, 0x99, 0x97]
  | .rook => [0xE2, 0x99, 0x96] | .queen => [0xE2, 0x99, 0x95] | .king => [0xE2, 0x99, 0x94]

/-- standard algebraic notation of a legal move; `fig` selects figurine piece symbols (no `=`) -/
def San.writeWith (fig : Bool) (p : Pos) (m : Move) : Bytes :=
  let sym (pc : Piece) : Bytes := if fig then pieceGlyph pc else [pieceLetter pc]
  let prom : Bytes := match m.kind.promote with
    | some pc => (if fig then [] else [61]) ++ sym pc
    | none => []
  let body : Bytes :=
    match m.kind with
    | .castleK => [79, 45, 79]
    | .castleQ => [79, 45, 79, 45, 79]
    | _ =>
      if m.man.piece = .pawn then
        (if isCapture p m then [97 + file m.src, 120] else []) ++ sqText m.dst ++ prom
      else
        let others := (legalMoves p).filter fun o => o ≠ m ∧ o.man = m.man ∧ o.dst = m.dst
        let dis : Bytes :=
          if others.isEmpty then []
          else if others.all (fun o => file o.src ≠ file m.src) then [97 + file m.src]
          else if others.all (fun o => rank o.src ≠ rank m.src) then [56 - rank m.src]
          else sqText m.src
        sym m.man.piece ++ dis ++ (if isCapture p m then [120] else []) ++ sqText m.dst
  let after := apply p m
  let mark : Bytes :=
    if inCheck after after.side then (if (legalMoves after).isEmpty then [35] else [43]) else []
  body ++ mark

def San.write (p : Pos) (m : Move) : Bytes := San.writeWith false p m

/-- every spelling that describes move `m`: piece, destination, optional origin hints, optional capture
sign (only when capturing), promotion piece; coordinate form; files-only pawn capture. -/
def San.spellings (p : Pos) (m : Move) : List Bytes :=
  let cap := isCapture p m
  let capSigns : List Bytes := if cap then [[], [120], [58]] else [[]]
  match m.kind with
  | .castleK => [[79, 45, 79], [48, 45, 48], Uci.write m]
  | .castleQ => [[79, 45, 79, 45, 79], [48, 45, 48, 45, 48], Uci.write m]
  | _ =>
    if m.man.piece = .pawn then
      let prom : List Bytes := match m.kind.promote with
        | some pc => [[61, pieceLetter pc], [pieceLetter pc]]
        | none => [[]]
      let main : List Bytes :=
        if cap then
          prom.flatMap fun pr =>
            [[97 + file m.src, 120] ++ sqText m.dst ++ pr, [97 + file m.src, 58] ++ sqText m.dst ++ pr,
             [97 + file m.src, 97 + file m.dst] ++ pr]
        else prom.map fun pr => sqText m.dst ++ pr
      Uci.write m :: main
    else
      let hints : List Bytes := [[], [97 + file m.src], [56 - rank m.src], sqText m.src]
      Uci.write m :: (hints.flatMap fun h => capSigns.map fun cs => [pieceLetter m.man.piece] ++ h ++ cs ++ sqText m.dst)

/-- strip a check / mate suffix (`+`, `++`, `#`, and the historical trailing `x`) -/
def San.stripMark (s : Bytes) : Bytes :=
  match s.getLast? with
  | some 35 => s.dropLast
  | some 120 => s.dropLast
  | some 43 => let r := s.dropLast; if r.getLast? = some 43 then r.dropLast else r
  | _ => s

/-- the legal moves a text describes -/
def San.denotes (p : Pos) (s : Bytes) : List Move :=
  (legalMoves p).filter fun m => (San.spellings p m).contains (San.stripMark s) || (San.spellings p m).contains s

end Owl.Spec
