/-
C02 (continued): the SAN make-likes (`impl Make for san::Move`, `for San<S>`) — proved in Lemmas/SanSound, restated here
so that the evidence lists them with this property.
-/
import OwlModel.Lemmas.SanSound

namespace Owl.Props.C02
open Owl Owl.Impl Owl.Lemmas Owl.Props

/-- a SAN value / string is applied only if it denotes a legal move, and then by `make_move_unchecked` -/
theorem make_san_ok (b : Board) (hv : Valid b) :
    (∀ m, C13.MakeLikeOk b (makeSanMove b m)) ∧ (∀ s, C13.MakeLikeOk b (makeSanStr b s)) :=
  ⟨fun m => C09.makeSanMove_ok b hv m, fun s => C09.makeSanStr_ok b hv s⟩

/-- the position a SAN make-like returns is valid again -/
theorem make_san_valid (b : Board) (hv : Valid b) (mv : Move) (b' : Board) :
    (∀ m, makeSanMove b m = .ok (mv, b') → Valid b') ∧ (∀ s, makeSanStr b s = .ok (mv, b') → Valid b') := by
  constructor
  · intro m h
    obtain ⟨hl, e⟩ := C09.makeSanMove_ok b hv m mv b' h
    rw [e]; exact valid_make b mv hv hl.wf hl.sl hl.legal
  · intro s h
    obtain ⟨hl, e⟩ := C09.makeSanStr_ok b hv s mv b' h
    rw [e]; exact valid_make b mv hv hl.wf hl.sl hl.legal

end Owl.Props.C02
