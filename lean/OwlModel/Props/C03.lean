/-
C03  Applying a move produces the position the rules prescribe.
`Spec.apply` states the successor square by square and field by field (moved / promoted man on the destination,
captured man removed — for en passant the pawn beside the destination —, rook relocated when castling, side
flipped, rights removed exactly for a king or rook that moved and a rook captured on its home square, en-passant
mark exactly after a double step, clocks reset / incremented without wrapping, nothing else changes).
-/
import OwlModel.Lemmas.Apply
import OwlModel.Props.C04
import OwlModel.Props.C11

namespace Owl.Props.C03
open Owl Owl.Impl Owl.Lemmas

/-- the raw position after `make_move_unchecked` equals `Spec.apply` of the position before, for every board with
`Shape`, one king per colour at most, and every well-formed semilegal move that does not capture a king -/
theorem make_refines_apply (b : Board) (mv : Move) (H : ApplyHyp b mv) :
    ∃ sm, absMove mv = some sm ∧ abs (makeMove b mv).1.r = Spec.apply (abs b.r) sm :=
  Lemmas.make_refines_apply b mv H

theorem buildBoard_r (r : RawBoard) : (buildBoard r).r = r := rfl

/-- a board from the validation gate has exactly one king of each colour -/
theorem validate_one_king (raw : RawBoard) (b : Board) (hv : validate raw = .ok b) (c : Color) (s t : Sq)
    (hs : b.get s = Cell.mk c .king) (ht : b.get t = Cell.mk c .king) : s = t := by
  obtain ⟨hvalid, habs, _⟩ := C11.validate_ok raw b hv
  obtain ⟨_, _, _, hkw, hkb, _, _⟩ := (C11.validRaw_iff (abs raw)).mp hvalid
  have hks : Spec.kingSqs (abs b.r) c = Spec.kingSqs (abs raw) c := by
    rw [habs]; exact C11.kingSqs_normalise _ _
  have hlen : (Spec.kingSqs (abs b.r) c).length = 1 := by
    rw [hks]
    cases c
    · exact hkw
    · exact hkb
  have hmem : ∀ x, b.get x = Cell.mk c .king → x ∈ Spec.kingSqs (abs b.r) c := by
    intro x hx
    unfold Spec.kingSqs Spec.allSq
    refine List.mem_filter.mpr ⟨List.mem_finRange _, ?_⟩
    rw [get_abs_beq]; exact decide_eq_true hx
  have h1 := hmem s hs
  have h2 := hmem t ht
  obtain ⟨k, hl⟩ := List.length_eq_one_iff.mp hlen
  rw [hl] at h1 h2
  rw [List.mem_singleton.mp h1, List.mem_singleton.mp h2]

/-- neither counter ever wraps: both stay within the u16 range and never decrease except for the clock reset -/
theorem counters_no_wrap (b : Board) (mv : Move) (hmc : b.r.mc ≤ 65535) (hmn : b.r.mn ≤ 65535) :
    (makeMove b mv).1.r.mc ≤ 65535 ∧ (makeMove b mv).1.r.mn ≤ 65535 ∧ b.r.mn ≤ (makeMove b mv).1.r.mn
      ∧ ((makeMove b mv).1.r.mc = 0 ∨ (makeMove b mv).1.r.mc = min (b.r.mc + 1) 65535) := by
  rw [make_mc, make_mn]
  have h1 := satInc_eq b.r.mc
  have h2 := satInc_eq b.r.mn
  refine ⟨?_, ?_, ?_, ?_⟩
  · split <;> omega
  · split <;> omega
  · split <;> omega
  · split
    · exact Or.inl rfl
    · exact Or.inr h1

/-! non-vacuity: 1. e4 from the initial position satisfies every hypothesis -/
example : (abs (makeMove (buildBoard C04.initialRaw) ⟨.double, 1, 52, 36⟩).1.r)
    = Spec.apply (abs C04.initialRaw) ⟨.double, ⟨.white, .pawn⟩, 52, 36⟩ := by decide +kernel

end Owl.Props.C03
