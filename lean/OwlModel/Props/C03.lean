/-
C03  Applying a move produces the position the rules prescribe.
`Spec.apply` states the successor square by square and field by field (moved / promoted man on the destination,
captured man removed — for en passant the pawn beside the destination —, rook relocated when castling, side
flipped, rights removed exactly for a king or rook that moved and a rook captured on its home square, en-passant
mark exactly after a double step, clocks reset / incremented without wrapping, nothing else changes).
-/
import OwlModel.Lemmas.Capture
import OwlModel.Props.C04
import OwlModel.Props.C11

namespace Owl.Props.C03
open Owl Owl.Impl Owl.Lemmas

/-- the raw position after `make_move_unchecked` equals `Spec.apply` of the position before, for every board with
`Shape`, one king per colour at most, and every well-formed semilegal move that does not capture a king -/
theorem make_refines_apply (b : Board) (mv : Move) (H : ApplyHyp b mv) :
    ∃ sm, absMove mv = some sm ∧ abs (makeMove b mv).1.r = Spec.apply (abs b.r) sm :=
  Lemmas.make_refines_apply b mv H

theorem buildBoard_r (r : RawBoard) : (buildBoard r).r = r := rfl

/-- a board from the validation gate has exactly one king of each colour -/
theorem validate_one_king (raw : RawBoard) (b : Board) (hv : validate raw = .ok b) (c : Color) (s t : Sq)
    (hs : b.get s = Cell.mk c .king) (ht : b.get t = Cell.mk c .king) : s = t := by
  obtain ⟨hvalid, habs, _⟩ := C11.validate_ok raw b hv
  obtain ⟨_, _, _, hkw, hkb, _, _⟩ := (C11.validRaw_iff (abs raw)).mp hvalid
  have hks : Spec.kingSqs (abs b.r) c = Spec.kingSqs (abs raw) c := by
    rw [habs]; exact C11.kingSqs_normalise _ _
  have hlen : (Spec.kingSqs (abs b.r) c).length = 1 := by
    rw [hks]
    cases c
    · exact hkw
    · exact hkb
  have hmem : ∀ x, b.get x = Cell.mk c .king → x ∈ Spec.kingSqs (abs b.r) c := by
    intro x hx
    unfold Spec.kingSqs Spec.allSq
    refine List.mem_filter.mpr ⟨List.mem_finRange _, ?_⟩
    rw [get_abs_beq]; exact decide_eq_true hx
  have h1 := hmem s hs
  have h2 := hmem t ht
  obtain ⟨k, hl⟩ := List.length_eq_one_iff.mp hlen
  rw [hl] at h1 h2
  rw [List.mem_singleton.mp h1, List.mem_singleton.mp h2]

/-- in a position from the validation gate no well-formed semilegal move captures a king -/
theorem no_king_capture (raw : RawBoard) (b : Board) (hv : validate raw = .ok b) (mv : Move)
    (hwf : mv.isWellFormed = true) (hsl : isSemilegal b mv = true) (c : Color) : b.get mv.dst ≠ Cell.mk c .king := by
  intro hking
  have hs := validate_shape raw b hv
  obtain ⟨_, _, _, hdst⟩ := semilegal_base b mv hsl
  have hc : c = b.r.side.inv := by
    rw [hking, color_mk] at hdst
    cases c <;> cases hsd : b.r.side <;> simp_all [Color.inv]
  subst hc
  have hatt := semilegal_capture_attacks b mv hs hwf hsl (by rw [hking]; exact mk_ne_zero _ _)
  -- the gate guarantees that the side not to move is not attacked
  obtain ⟨hvalid, habs, _⟩ := C11.validate_ok raw b hv
  obtain ⟨_, _, _, _, _, _, hnc⟩ := (C11.validRaw_iff (abs raw)).mp hvalid
  rw [← habs] at hnc
  have hside : (abs raw).side = b.r.side := by
    have := congrArg Spec.Pos.side habs
    rw [abs_side] at this
    exact this.symm
  rw [hside] at hnc
  have hk : Spec.kingSq (abs b.r) b.r.side.inv = some mv.dst := by
    rw [← kingPos_eq b hs.cons]
    unfold Board.kingPos? BB.first?
    -- the first king square is the only king square
    cases hf : List.find? (fun s => (b.piece2 b.r.side.inv Piece.king).has s) Sq.all with
    | none =>
      have := List.find?_eq_none.mp hf mv.dst (List.mem_finRange _)
      rw [piece2_has b hs.cons] at this
      simp [hking] at this
    | some k =>
      have hkk := List.find?_some hf
      rw [piece2_has b hs.cons] at hkk
      have := validate_one_king raw b hv b.r.side.inv k mv.dst (by simpa using hkk) hking
      rw [this]
  unfold Spec.inCheck at hnc
  rw [hk] at hnc
  simp only [Option.any_some, Color.inv_inv] at hnc
  rw [← isCellAttacked_iff b hs.cons] at hnc
  rw [hatt] at hnc
  cases hnc

/-- C03 for every position accepted by validation and every well-formed semilegal (in particular every legal) move -/
theorem make_refines_apply_valid (raw : RawBoard) (b : Board) (hv : validate raw = .ok b) (mv : Move)
    (hwf : mv.isWellFormed = true) (hsl : isSemilegal b mv = true) :
    ∃ sm, absMove mv = some sm ∧ abs (makeMove b mv).1.r = Spec.apply (abs b.r) sm :=
  Lemmas.make_refines_apply b mv
    { shape := validate_shape raw b hv, wf := hwf, sl := hsl,
      oneKing := fun c s t hs ht => validate_one_king raw b hv c s t hs ht,
      noKingCapture := fun c => no_king_capture raw b hv mv hwf hsl c }

/-- neither counter ever wraps: both stay within the u16 range and never decrease except for the clock reset -/
theorem counters_no_wrap (b : Board) (mv : Move) (hmc : b.r.mc ≤ 65535) (hmn : b.r.mn ≤ 65535) :
    (makeMove b mv).1.r.mc ≤ 65535 ∧ (makeMove b mv).1.r.mn ≤ 65535 ∧ b.r.mn ≤ (makeMove b mv).1.r.mn
      ∧ ((makeMove b mv).1.r.mc = 0 ∨ (makeMove b mv).1.r.mc = min (b.r.mc + 1) 65535) := by
  rw [make_mc, make_mn]
  have h1 := satInc_eq b.r.mc
  have h2 := satInc_eq b.r.mn
  refine ⟨?_, ?_, ?_, ?_⟩
  · split <;> omega
  · split <;> omega
  · split <;> omega
  · split
    · exact Or.inl rfl
    · exact Or.inr h1

/-! non-vacuity: 1. e4 from the initial position satisfies every hypothesis -/
example : (abs (makeMove (buildBoard C04.initialRaw) ⟨.double, 1, 52, 36⟩).1.r)
    = Spec.apply (abs C04.initialRaw) ⟨.double, ⟨.white, .pawn⟩, 52, 36⟩ := by decide +kernel

end Owl.Props.C03
