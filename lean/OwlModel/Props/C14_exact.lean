/-
C14 (continued): the occurrence count is EXACT — not merely an upper bound of the true repetitions — as soon as the
history contains no 64-bit Zobrist collision with the current position; the chain's calculation restated over the true
repetition count (same squares, side to move, castling rights, en-passant mark).
-/
import OwlModel.Props.C14

namespace Owl.Props.C14
open Owl Owl.Impl Owl.Lemmas Owl.Props Owl.Props.C13

/-- the repetition key of the property: squares, side to move, castling rights, en-passant mark (counters ignored) -/
def SameKey (x b : Board) : Prop :=
  x.r.cells = b.r.cells ∧ x.r.side = b.r.side ∧ x.r.castling = b.r.castling ∧ x.r.ep = b.r.ep

instance (x b : Board) : Decidable (SameKey x b) := by unfold SameKey; infer_instance

/-- true number of occurrences of the current position among the positions of the game so far -/
def trueOccurrences (hs : List Board) (b : Board) : Nat := (hs.filter fun x => decide (SameKey x b)).length

/-- no position of the history collides with the current one: equal hashes only for equal keys -/
def NoCollision (hs : List Board) (b : Board) : Prop := ∀ x ∈ hs, x.hash = b.hash → SameKey x b

/-- C14: without a hash collision the counted occurrences are exactly the true repetitions -/
theorem occurrences_eq (hs : List Board) (b : Board) (hb : Consistent b) (hcons : ∀ x ∈ hs, Consistent x)
    (hnc : NoCollision hs b) : occurrences hs b = trueOccurrences hs b := by
  apply Nat.le_antisymm
  · unfold occurrences trueOccurrences
    rw [List.count_eq_countP, List.countP_map, ← List.countP_eq_length_filter]
    apply List.countP_mono_left
    intro x hx hk
    simp only [Function.comp, beq_iff_eq] at hk
    simp only [decide_eq_true_eq]
    exact hnc x hx hk
  · exact occurrences_ge hs b hb hcons

/-- C14, stated over the true repetition count: for every game (`Game b0 st hs ch.board` — any interleaving of
accepted pushes and pops from a valid start) whose history has no hash collision with the current position -/
theorem calc_spec_exact (ch : Chain) (hs : List Board) (h : ChainInvH ch hs) (hb : Consistent ch.board)
    (hcons : ∀ x ∈ hs, Consistent x) (hnc : NoCollision hs ch.board) :
    ch.calcOutcome? =
      (match Impl.calcOutcome? ch.board with
       | none => none
       | some o =>
         if (o.any fun x => x.passes .strict) then some o
         else if trueOccurrences hs ch.board ≥ 5 then some (some (.draw .repeat5))
         else if trueOccurrences hs ch.board ≥ 3 then some (some (.draw .repeat3))
         else some o) := by
  rw [calc_spec ch hs h, occurrences_eq hs ch.board hb hcons hnc]
  cases Impl.calcOutcome? ch.board <;> rfl

/-- the same from the chain invariant alone (which every chain built through the safe API satisfies, C13.ops_inv):
the consistency side conditions are consequences of it -/
theorem calc_spec_exact' (ch : Chain) (hs : List Board) (h : ChainInvH ch hs) (hnc : NoCollision hs ch.board) :
    ch.calcOutcome? =
      (match Impl.calcOutcome? ch.board with
       | none => none
       | some o =>
         if (o.any fun x => x.passes .strict) then some o
         else if trueOccurrences hs ch.board ≥ 5 then some (some (.draw .repeat5))
         else if trueOccurrences hs ch.board ≥ 3 then some (some (.draw .repeat3))
         else some o) :=
  calc_spec_exact ch hs h (h.game.valid h.start).shape.cons (Game.consistent h.start h.game) hnc

/-- the hypothesis is met by a concrete non-trivial history: the start position twice -/
example (b : Board) : NoCollision [b, b] b := by
  intro x hx _
  simp at hx; subst hx
  exact ⟨rfl, rfl, rfl, rfl⟩

end Owl.Props.C14
