/-
C10  UCI move text round-trips and is accepted exactly when such a move exists.
`uci_move_roundtrip` is the per-position, per-move statement (kind inference recovers castling, double step, en
passant and each promotion); `uci_parse_lang` says the reader's language is exactly the writer's image;
`uci_semilegal_iff` / `uci_legal_iff` say the checking readers succeed exactly on the strings that spell an existing
semilegal / legal move and return that move; `uci_null_refused` covers "0000".
"Legal" here is the implementation's own `is_legal_unchecked`; that this agrees with the rules is C01/C02.
-/
import OwlModel.Lemmas.Uci
import OwlModel.Props.C12
import OwlModel.Props.C20

namespace Owl.Props.C10
open Owl Owl.Impl Owl.Lemmas Owl.Props

/-- C10: writing a semilegal move in coordinate notation and reading it back in the same position gives the same
move, including its kind -/
theorem uci_move_roundtrip (b : Board) (mv : Move) (hs : Shape b) (hwf : mv.isWellFormed = true)
    (hsl : isSemilegal b mv = true) : uciIntoMove (uciOfMove mv) b = some mv := by
  obtain ⟨hknull, hsrc, hcol, hdst⟩ := semilegal_base b mv hsl
  obtain ⟨hne, color, piece, hcol', hpiece, hmatch, hK, hQ, _⟩ := wf_facts mv hwf hknull
  have hcc : color = b.r.side := by rw [hcol] at hcol'; exact (Option.some.inj hcol').symm
  subst hcc
  have hcell := piece_of_color_piece hcol hpiece
  have hnew : ∀ k, k = mv.kind → Move.new? k (b.get mv.src) mv.src mv.dst = some mv := by
    intro k hk
    unfold Move.new?
    rw [hsrc, hk]
    simp only [hwf, if_true]
  unfold uciOfMove
  rw [if_neg hknull]
  unfold uciIntoMove
  simp only
  have hsc : (b.get mv.src).color = some b.r.side := by rw [hsrc]; exact hcol
  rw [if_neg (by simp [hsc])]
  cases hp : mv.kind.promote with
  | some p =>
    simp only
    exact hnew _ (promote_kind_of _ _ hp)
  | none =>
    simp only
    have hpc : (b.get mv.src).piece = some piece := by rw [hsrc]; exact hpiece
    rw [hpc]
    have ok := makeOk_of_semilegal b mv hs hwf hsl
    unfold MakeOk at ok
    obtain ⟨hrk1, hrk2⟩ := pawn_kind_ranks b.r.side
    cases hkk : mv.kind <;> simp only [hkk, Kind.promote] at hp ok hmatch
    · exact absurd hkk hknull
    · -- simple
      cases piece
      · -- pawn
        obtain ⟨_, _, _, _, _, gP⟩ := wf_geometry mv hwf b.r.side .pawn hcell hknull
        obtain ⟨hfd, hstep⟩ := gP (Or.inl hkk) rfl
        have htail := semilegal_tail b mv hsl .pawn hpiece
        simp only [hkk] at htail
        have hnd : ¬ (mv.src.rank = doubleSrcRank b.r.side ∧ mv.dst.rank = doubleDstRank b.r.side) := by
          intro ⟨h1, h2⟩; exact hrk2 mv.src mv.dst h1 hstep h2
        have hnep : ¬ (mv.src.file ≠ mv.dst.file ∧ (b.get mv.dst).isFree = true) := by
          intro ⟨h1, h2⟩
          have hfree : b.get mv.dst = Cell.empty := by
            revert h2; generalize b.get mv.dst = x; revert x; decide
          have : ¬ mv.dst.file = mv.src.file := fun e => h1 e.symm
          simp [this, hfree] at htail
        simp only [Bool.and_eq_true, decide_eq_true_eq, bne_iff_ne, ne_eq] at *
        simp only [hnd, hnep, if_false]
        exact hnew _ hkk.symm
      · -- king
        simp only
        obtain ⟨_, gK, _⟩ := wf_geometry mv hwf b.r.side .king hcell hknull
        have hka := gK hkk rfl
        obtain ⟨n1, n2⟩ := king_step_not_castle b.r.side
        by_cases he : mv.src = Sq.mk fileE (castlingRank b.r.side)
        · rw [if_pos he]
          rw [he] at hka
          have hg : ¬ mv.dst = Sq.mk fileG (castlingRank b.r.side) := by intro e; rw [e, n1] at hka; cases hka
          have hc : ¬ mv.dst = Sq.mk fileC (castlingRank b.r.side) := by intro e; rw [e, n2] at hka; cases hka
          simp only [hg, hc, if_false]
          exact hnew _ hkk.symm
        · rw [if_neg he]; exact hnew _ hkk.symm
      all_goals (simp only; exact hnew _ hkk.symm)
    · -- castleK
      have hpk := matches_king hmatch (Or.inl rfl); subst hpk
      obtain ⟨h1, h2⟩ := hK hkk
      simp only [h1, h2, if_true]
      have := hnew _ hkk.symm
      rw [h1, h2] at this
      exact this
    · -- castleQ
      have hpk := matches_king hmatch (Or.inr rfl); subst hpk
      obtain ⟨h1, h2⟩ := hQ hkk
      obtain ⟨-, -, -, -, -, -, _, _, _, _, nCE, _⟩ := castle_sq_ne b.r.side
      have hcg : ¬ Sq.mk fileC (castlingRank b.r.side) = Sq.mk fileG (castlingRank b.r.side) := by
        cases b.r.side <;> decide
      simp only [h1, h2, if_true, hcg, if_false]
      have := hnew _ hkk.symm
      rw [h1, h2] at this
      exact this
    · -- double
      have hpp := matches_pawn hmatch (Or.inl rfl); subst hpp
      obtain ⟨_, h1, h2⟩ := wf_double mv b.r.side hwf hcell hkk
      simp only [h1, h2, and_self, decide_true, Bool.and_self, if_true]
      exact hnew _ hkk.symm
    · -- ep
      have hpp := matches_pawn hmatch (Or.inr (Or.inl rfl)); subst hpp
      obtain ⟨hf, hr⟩ := wf_ep mv b.r.side hwf hcell hkk
      have hnd : ¬ (mv.src.rank = doubleSrcRank b.r.side) := by rw [hr]; exact fun e => hrk1 e.symm
      have hfree : (b.get mv.dst).isFree = true := by rw [ok.2.1]; rfl
      simp only [hnd, false_and, decide_false, Bool.false_and, Bool.false_eq_true, if_false, ne_eq, hf, not_false_eq_true,
        hfree, and_self, decide_true, Bool.and_self, if_true, Bool.and_true]
      exact hnew _ hkk.symm
    all_goals (simp [Kind.promote] at hp)

theorem strGet_some (s t : Bytes) (a b : Nat) (h : strGet s a b = some t) : t = (s.drop a).take (b - a) := by
  unfold strGet at h
  split at h
  · exact (Option.some.inj h).symm
  · cases h

/-- the reader accepts exactly the strings the writer produces -/
theorem uci_parse_lang (s : Bytes) (u : UciMove) : parseUci s = .ok u ↔ (C12.UciShape u ∧ s = fmtUci u) := by
  constructor
  · intro h
    refine ⟨C12.parseUci_shape s u h, ?_⟩
    unfold parseUci at h
    split at h
    · rename_i h0; cases h; rw [h0]; rfl
    split at h
    · cases h
    rename_i hlen
    split at h
    · cases h
    rename_i srcTxt hsrc
    split at h
    · cases h
    rename_i src hps
    split at h
    · cases h
    rename_i dstTxt hdst
    split at h
    · cases h
    rename_i dst hpd
    have e1 := strGet_some _ _ _ _ hsrc
    have e2 := strGet_some _ _ _ _ hdst
    rw [(C20.coord_parse_exact _ _).mp hps] at e1
    rw [(C20.coord_parse_exact _ _).mp hpd] at e2
    simp only [Bool.not_eq_true, Bool.or_eq_false_iff, decide_eq_false_iff_not, not_and, Bool.not_eq_eq_eq_not,
      Bool.not_true, Bool.not_false] at hlen
    match s, hlen, e1, e2, h with
    | [a, b, c, d], _, e1, e2, h =>
      simp only [List.length_cons, List.length_nil, Nat.reduceAdd, Nat.reduceEqDiff, if_false] at h
      cases h
      simp only [List.drop, List.take, Nat.sub_zero, Nat.reduceSub] at e1 e2
      simp only [fmtUci, e1, e2]; rfl
    | [a, b, c, d, e], _, e1, e2, h =>
      simp only [List.length_cons, List.length_nil, Nat.reduceAdd, if_true, List.getD_cons_succ, List.getD_cons_zero] at h
      simp only [List.drop, List.take, Nat.sub_zero, Nat.reduceSub] at e1 e2
      repeat' (split at h)
      all_goals first
        | (cases h; done)
        | (cases h; subst_vars; simp only [fmtUci, e1, e2]; rfl)
    | [], hl, _, _, _ => simp at hl
    | [_], hl, _, _, _ => simp at hl
    | [_, _], hl, _, _, _ => simp at hl
    | [_, _, _], hl, _, _, _ => simp at hl
    | _ :: _ :: _ :: _ :: _ :: _ :: _, hl, _, _, _ => simp at hl
  · intro ⟨hs, e⟩
    subst e
    cases u with
    | null => decide
    | move src dst p => exact C12.uci_reparse_move src dst p hs

theorem new?_some (k : Kind) (c : Cell) (s d : Sq) (mv : Move) (h : Move.new? k c s d = some mv) :
    mv = ⟨k, c, s, d⟩ ∧ mv.isWellFormed = true := by
  unfold Move.new? at h
  simp only at h
  split at h
  · rename_i hw; cases h; exact ⟨rfl, hw⟩
  · cases h

/-- what the kind-inferring reader returns: a well-formed move with the written source, destination and promotion -/
theorem uciIntoMove_some (b : Board) (src dst : Sq) (p : Option Piece) (mv : Move)
    (hp : C12.UciShape (.move src dst p)) (h : uciIntoMove (.move src dst p) b = some mv) :
    mv.isWellFormed = true ∧ uciOfMove mv = .move src dst p := by
  unfold uciIntoMove at h
  simp only at h
  split at h
  · cases h
  obtain ⟨e, hw⟩ := new?_some _ _ _ _ _ h
  refine ⟨hw, ?_⟩
  unfold C12.UciShape at hp
  subst e
  unfold uciOfMove
  simp only
  rcases hp with hp | hp | hp | hp | hp <;> subst hp
  · simp only
    repeat' split
    all_goals first
      | (rename_i hh; cases hh; done)
      | simp [Kind.promote]
  all_goals simp [promoteKind, Kind.promote]

/-- C10: the semilegal-checking reader succeeds exactly when a semilegal move with that source, destination and
promotion exists, and then returns it -/
theorem uci_semilegal_iff (b : Board) (hs : Shape b) (s : Bytes) (src dst : Sq) (p : Option Piece)
    (hparse : parseUci s = .ok (.move src dst p)) (mv : Move) :
    moveFromUciSemilegal s b = .ok mv ↔
      (mv.isWellFormed = true ∧ isSemilegal b mv = true ∧ uciOfMove mv = .move src dst p) := by
  have hshape := C12.parseUci_shape s _ hparse
  unfold moveFromUciSemilegal moveFromUci
  rw [hparse]
  simp only
  constructor
  · intro h
    cases hu : uciIntoMove (.move src dst p) b with
    | none => rw [hu] at h; cases h
    | some m =>
      rw [hu] at h
      simp only at h
      split at h
      · rename_i hsl
        obtain ⟨hw, he⟩ := uciIntoMove_some b src dst p m hshape hu
        cases h
        exact ⟨hw, hsl, he⟩
      · cases h
  · intro ⟨hw, hsl, he⟩
    have := uci_move_roundtrip b mv hs hw hsl
    rw [he] at this
    rw [this]
    simp only [hsl, if_true]

/-- C10: the same for the legal-checking reader -/
theorem uci_legal_iff (b : Board) (hs : Shape b) (s : Bytes) (src dst : Sq) (p : Option Piece)
    (hparse : parseUci s = .ok (.move src dst p)) (mv : Move) :
    moveFromUciLegal s b = .ok mv ↔
      (mv.isWellFormed = true ∧ isSemilegal b mv = true ∧ isLegalUnchecked? b mv = some true
        ∧ uciOfMove mv = .move src dst p) := by
  have hshape := C12.parseUci_shape s _ hparse
  unfold moveFromUciLegal moveFromUci
  rw [hparse]
  simp only
  constructor
  · intro h
    cases hu : uciIntoMove (.move src dst p) b with
    | none => rw [hu] at h; cases h
    | some m =>
      rw [hu] at h
      simp only at h
      obtain ⟨hw, he⟩ := uciIntoMove_some b src dst p m hshape hu
      unfold validateMove at h
      split at h
      · rename_i hv
        cases h
        split at hv
        · cases hv
        · rename_i hsl
          split at hv
          · cases hv
          · rename_i hl; exact ⟨hw, by simpa using hsl, hl, he⟩
          · cases hv
      · cases h
      · cases h
  · intro ⟨hw, hsl, hl, he⟩
    have := uci_move_roundtrip b mv hs hw hsl
    rw [he] at this
    rw [this]
    simp only [validateMove, hsl, hl, Bool.not_true, Bool.false_eq_true, if_false]

/-- C10: the null move is never accepted as a move to play -/
theorem uci_null_refused (b : Board) (s : Bytes) (h : parseUci s = .ok .null) :
    moveFromUciSemilegal s b = .err (.validate .notSemiLegal)
      ∧ moveFromUciLegal s b = .err (.validate .notSemiLegal) := by
  have hn : isSemilegal b Move.null = false := by
    unfold isSemilegal; simp [Move.null]
  unfold moveFromUciSemilegal moveFromUciLegal moveFromUci validateMove
  rw [h]
  simp [uciIntoMove, hn]

/-- the three statements for positions that came through the validation gate -/
theorem uci_roundtrip_valid (raw : RawBoard) (b : Board) (hv : validate raw = .ok b) (mv : Move)
    (hwf : mv.isWellFormed = true) (hsl : isSemilegal b mv = true) :
    moveFromUciSemilegal (fmtUci (uciOfMove mv)) b = .ok mv := by
  have hs := validate_shape raw b hv
  have hk : mv.kind ≠ .null := (semilegal_base b mv hsl).1
  have hu : uciOfMove mv = .move mv.src mv.dst mv.kind.promote := by unfold uciOfMove; rw [if_neg hk]
  have hshape : C12.UciShape (.move mv.src mv.dst mv.kind.promote) := by
    unfold C12.UciShape; cases mv.kind <;> simp [Kind.promote]
  have hparse : parseUci (fmtUci (uciOfMove mv)) = .ok (.move mv.src mv.dst mv.kind.promote) := by
    rw [hu]; exact (uci_parse_lang _ _).mpr ⟨hshape, rfl⟩
  exact (uci_semilegal_iff b hs _ _ _ _ hparse mv).mpr ⟨hwf, hsl, hu⟩

/-! non-vacuity: 1. e4 in the initial position, and the refusal of "0000" -/
example : moveFromUciSemilegal [101, 50, 101, 52] (buildBoard C04.initialRaw) = .ok ⟨.double, 1, 52, 36⟩ := by
  decide +kernel
example : moveFromUciLegal [48, 48, 48, 48] (buildBoard C04.initialRaw) = .err (.validate .notSemiLegal) := by
  decide +kernel

end Owl.Props.C10
