/-
C16  Attack and check queries agree with the rules on every position.
`abs` maps the raw board to the specification's mailbox position; `Spec.attacks p s t` says the man on `s`
attacks `t` by its capturing pattern (pawns diagonally forward, knight/king steps, sliders along a ray walk).
-/
import OwlModel.Lemmas.Attacks
import OwlModel.Props.C04

namespace Owl.Props.C16
open Owl Owl.Impl Owl.Lemmas

/-- the attackers query returns exactly the men of that colour that attack the square -/
theorem cell_attackers_exact (b : Board) (hb : Consistent b) (t : Sq) (c : Color) (s : Sq) :
    (cellAttackers b t c).has s = true ↔
      (∃ m, (abs b.r).get s = some m ∧ m.color = c) ∧ Spec.attacks (abs b.r) s t = true := by
  rw [cellAttackers_has b hb]
  cases h : (abs b.r).get s with
  | none => simp
  | some m => simp

/-- 'is this square attacked by that colour' is true exactly when some man of that colour attacks it -/
theorem is_cell_attacked_iff (b : Board) (hb : Consistent b) (t : Sq) (c : Color) :
    isCellAttacked b t c = Spec.attackedBy (abs b.r) t c := isCellAttacked_iff b hb t c

/-- for every position produced by the validation gate -/
theorem is_cell_attacked_valid (raw : RawBoard) (b : Board) (hv : validate raw = .ok b) (t : Sq) (c : Color) :
    isCellAttacked b t c = Spec.attackedBy (abs b.r) t c :=
  isCellAttacked_iff b (C04.validate_consistent raw b hv) t c

/-- `king_pos` is the square of that colour's king -/
theorem king_pos_eq (b : Board) (hb : Consistent b) (c : Color) : b.kingPos? c = Spec.kingSq (abs b.r) c :=
  kingPos_eq b hb c

/-- 'is in check' is true exactly when the king of the side to move is attacked by the other side -/
theorem is_check_iff (b : Board) (hb : Consistent b) :
    isCheck? b = (Spec.kingSq (abs b.r) b.r.side).map fun k => Spec.attackedBy (abs b.r) k b.r.side.inv :=
  isCheck_eq b hb

theorem is_check_eq_inCheck (b : Board) (hb : Consistent b) (k : Sq) (hk : Spec.kingSq (abs b.r) b.r.side = some k) :
    isCheck? b = some (Spec.inCheck (abs b.r) b.r.side) := by
  rw [isCheck_eq b hb, hk]
  simp [Spec.inCheck, hk]

/-- `is_opponent_king_attacked` is true exactly when the king of the side that has just moved is attacked by the side to move -/
theorem is_opponent_king_attacked_iff (b : Board) (hb : Consistent b) :
    isOpponentKingAttacked? b =
      (Spec.kingSq (abs b.r) b.r.side.inv).map fun k => Spec.attackedBy (abs b.r) k b.r.side := by
  unfold isOpponentKingAttacked?
  rw [kingPos_eq b hb]
  cases Spec.kingSq (abs b.r) b.r.side.inv with
  | none => rfl
  | some k => simp [isCellAttacked_iff b hb]

/-- the checkers query returns exactly the checking men -/
theorem checkers_exact (b : Board) (hb : Consistent b) (s : Sq) :
    (checkers? b).map (fun bb => bb.has s) =
      (Spec.kingSq (abs b.r) b.r.side).map fun k =>
        (((abs b.r).get s).any (fun m => m.color == b.r.side.inv) && Spec.attacks (abs b.r) s k) :=
  checkers_eq b hb s

/-- the early-out query and the set query are the same question, on every board (no hypothesis): `is_cell_attacked`
is true exactly when `cell_attackers` is non-empty -/
theorem is_cell_attacked_eq_attackers (b : Board) (t : Sq) (c : Color) :
    isCellAttacked b t c = (cellAttackers b t c).nonEmpty := isCellAttacked_eq b t c

/-- `is_check` is true exactly when `checkers` is non-empty, on every board (both panic together when the king is absent) -/
theorem is_check_eq_checkers (b : Board) : isCheck? b = (checkers? b).map BB.nonEmpty := by
  unfold isCheck? checkers?
  cases b.kingPos? b.r.side with
  | none => rfl
  | some k => simp [isCellAttacked_eq]

/-- so on a consistent board `is_check` holds iff some man is reported as a checker -/
theorem is_check_iff_exists_checker (b : Board) (bb : BB) (h : checkers? b = some bb) :
    isCheck? b = some true ↔ ∃ s : Sq, bb.has s = true := by
  rw [is_check_eq_checkers, h]
  simp [nonEmpty_iff]

/-- line attacks are symmetric for every occupancy (all 2^64): a rook on `s` hits `t` iff a rook on `t` hits `s`; this is
what lets `is_cell_attacked` look outward from the target square instead of from every attacker -/
theorem rook_attack_symm (s t : Sq) (occ : BB) :
    (rookAttack s occ).has t = true ↔ (rookAttack t occ).has s = true := by
  have h := slide_symm Spec.rookDirs ray_sym_rook (fun x => occ.has x) s t
  rw [rookAttack_eq_slide, rookAttack_eq_slide]
  simpa [slideBB] using h

theorem bishop_attack_symm (s t : Sq) (occ : BB) :
    (bishopAttack s occ).has t = true ↔ (bishopAttack t occ).has s = true := by
  have h := slide_symm Spec.bishopDirs ray_sym_bishop (fun x => occ.has x) s t
  rw [bishopAttack_eq_slide, bishopAttack_eq_slide]
  simpa [slideBB] using h

/-! non-vacuity: in the initial position nothing attacks e4 for Black, and White's d2/f2 pawns… attack e3 -/
example : isCellAttacked (buildBoard C04.initialRaw) ⟨44, by decide⟩ .white = true := by decide +kernel
example : Spec.attackedBy (abs C04.initialRaw) ⟨44, by decide⟩ .white = true := by decide +kernel

/-- the hypothesis of `is_check_iff_exists_checker` is met (the start position has a king, and nobody checks it) -/
example : checkers? (buildBoard C04.initialRaw) = some 0#64 := by decide +kernel
example : isCheck? (buildBoard C04.initialRaw) = some false := by decide +kernel
/-- symmetry instance: with only squares 0 and 56 (the two ends of the a-file) occupied, rooks there see each other -/
example : (rookAttack ⟨0, by decide⟩ (1#64 ||| (1#64 <<< 56))).has ⟨56, by decide⟩ = true
    ∧ (rookAttack ⟨56, by decide⟩ (1#64 ||| (1#64 <<< 56))).has ⟨0, by decide⟩ = true := by decide +kernel

end Owl.Props.C16
