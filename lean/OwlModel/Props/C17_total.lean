import OwlModel.Props.C17
import OwlModel.Props.C09_styles
namespace Owl.Props.C17
open Owl Owl.Impl Owl.Lemmas Owl.Props Owl.Props.C13

/-
C17b  The printing clause of C17, closed: on a chain that satisfies the chain invariant the styled list printer never
panics (`styled_never_panics`), every move text it prints is the standard text of that move in the position that
preceded it (`styled_moves_standard`), and so the whole output is pinned down (`styled_exact`).
-/

/-- a recorded step is a legal move in the sense of C09 -/
theorem legal_of_step {b : Board} {m : Move} (h : LegalStep b m) : C09.Legal b m := ⟨h.wf, h.sl, h.legal⟩

/-- entry `i` of `pairs` is (position `i`, move `i`); the position is valid and the move is legal in it -/
theorem pairs_at {st : List (Move × RawUndo)} {hs : List Board} (hS : Steps st hs) (i : Nat) (hi : i < st.length) :
    ∃ b m u, hs[i]? = some b ∧ st[i]? = some (m, u) ∧ (pairs st hs)[i]? = some (b, m) ∧ Valid b ∧ C09.Legal b m := by
  obtain ⟨bi, m, u, e1, e2, _, _, e5, e6⟩ := hS.step i hi
  exact ⟨bi, m, u, e1, e2, pairs_get e1 e2, e6, legal_of_step e5⟩

/-- every member of `pairs` is (valid position, legal move of it) -/
theorem pairs_mem {st : List (Move × RawUndo)} {hs : List Board} (hS : Steps st hs) (b : Board) (m : Move)
    (hm : (b, m) ∈ pairs st hs) : Valid b ∧ C09.Legal b m := by
  obtain ⟨i, hi⟩ := List.mem_iff_getElem?.mp hm
  have hlt : i < st.length := by
    have := (List.getElem?_eq_some_iff.mp hi).1
    rw [pairs_length hS] at this; exact this
  obtain ⟨b', m', u, _, _, e3, e4, e5⟩ := pairs_at hS i hlt
  rw [hi] at e3
  cases e3
  exact ⟨e4, e5⟩

/-- `itemsTxt` succeeds as soon as every move of the list can be styled -/
theorem itemsTxt_some (style : MoveStyle) (startNum : Option Nat) (realStart : Nat) :
    ∀ (rest : List (Board × Move)), (∀ b m, (b, m) ∈ rest → ∃ t, fmtStyledMove? m b style = some t) →
      ∃ r, itemsTxt style startNum realStart rest = some r := by
  intro rest
  induction rest with
  | nil => intro _; exact ⟨[], rfl⟩
  | cons e rest ih =>
    intro hall
    obtain ⟨b, m⟩ := e
    obtain ⟨t, ht⟩ := hall b m List.mem_cons_self
    obtain ⟨r, hr⟩ := ih (fun b' m' hm => hall b' m' (List.mem_cons_of_mem _ hm))
    exact ⟨numTxt startNum realStart b ++ [32] ++ t ++ r, by simp only [itemsTxt, ht, hr]⟩

/-- C17 (printing, no panic): on a chain that satisfies the chain invariant (start move number in the `u16` range)
the styled list printer returns a text for every numbering policy, style and status flag: every recorded move is a
legal move of the valid position that preceded it, so each `.unwrap()` of a move text succeeds -/
theorem styled_never_panics (ch : Chain) (hs : List Board) (h : ChainInvH ch hs) (hmn : ch.start.mn ≤ 65535)
    (nums : NumberPolicy) (style : MoveStyle) (showStatus : Bool) :
    ∃ t, ch.styled? nums style showStatus = some t := by
  have hS := steps_of_inv h
  have hall : ∀ b m, (b, m) ∈ pairs ch.stack hs → ∃ t, fmtStyledMove? m b style = some t := by
    intro b m hm
    obtain ⟨hv, hl⟩ := pairs_mem hS b m hm
    exact C09.styled_total b hv m hl style
  rw [styled_spec ch hs h hmn nums style showStatus]
  cases hp : pairs ch.stack hs with
  | nil => exact ⟨_, rfl⟩
  | cons e rest =>
    obtain ⟨b0, m0⟩ := e
    rw [hp] at hall
    obtain ⟨t, ht⟩ := hall b0 m0 List.mem_cons_self
    obtain ⟨r, hr⟩ := itemsTxt_some style (startNumOf nums b0.r.mn) b0.r.mn rest
      (fun b' m' hm => hall b' m' (List.mem_cons_of_mem _ hm))
    simp only [ht, hr]
    exact ⟨_, rfl⟩

/-- the standard text of rules-level move `sm` (with `concMove sm = m`) made in position `b`, per style: the rules'
SAN, the rules' figurine SAN, or the coordinate text -/
def stdText (style : MoveStyle) (b : Board) (m : Move) (sm : Spec.Move) : Bytes :=
  match style with
  | .san => Spec.San.write (abs b.r) sm
  | .sanUtf8 => Spec.San.writeWith true (abs b.r) sm
  | .uci => fmtUci (uciOfMove m)

/-- C17 (printing, the move texts): for every index `i` of the record, entry `i` of `pairs` is
(position `b` preceding move `i`, move `m` number `i` of the stack); `m` is the implementation form of a rules-level
move `sm` that is legal in `abs b`, and the text printed for it is `Spec.San.write (abs b.r) sm` (style `san`),
`Spec.San.writeWith true (abs b.r) sm` (style `sanUtf8`), `fmtUci (uciOfMove m)` (style `uci`).
(Needs neither the bound on the start move number nor the numbering policy: those only concern the numbers.) -/
theorem styled_moves_standard (ch : Chain) (hs : List Board) (h : ChainInvH ch hs) (i : Nat)
    (hi : i < ch.stack.length) :
    ∃ b m u sm, (pairs ch.stack hs)[i]? = some (b, m) ∧ hs[i]? = some b ∧ ch.stack[i]? = some (m, u)
      ∧ Valid b ∧ absMove m = some sm ∧ concMove sm = m ∧ sm ∈ Spec.legalMoves (abs b.r)
      ∧ fmtStyledMove? m b .san = some (Spec.San.write (abs b.r) sm)
      ∧ fmtStyledMove? m b .sanUtf8 = some (Spec.San.writeWith true (abs b.r) sm)
      ∧ fmtStyledMove? m b .uci = some (fmtUci (uciOfMove m))
      ∧ ∀ style, fmtStyledMove? m b style = some (stdText style b m sm) := by
  obtain ⟨b, m, u, e1, e2, e3, hv, hl⟩ := pairs_at (steps_of_inv h) i hi
  obtain ⟨sm, a1, a2, a3, a4, a5, a6⟩ := C09.styled_impl b hv m hl
  refine ⟨b, m, u, sm, e3, e1, e2, hv, a1, a2, a3, a5, a4, a6, ?_⟩
  intro style
  cases style
  · exact a5
  · exact a4
  · exact a6

/-! ## the whole text -/

/-- total version of `stdText`: the rules-level move is recovered with `absMove` (which succeeds on every recorded
move, see `styled_moves_standard`) -/
def stdMoveTxt (style : MoveStyle) (b : Board) (m : Move) : Bytes :=
  match absMove m with
  | some sm => stdText style b m sm
  | none => []

/-- the moves after the first, each as (number text) (space) (standard move text) -/
def stdItems (style : MoveStyle) (startNum : Option Nat) (realStart : Nat) : List (Board × Move) → Bytes
  | [] => []
  | (b, mv) :: rest =>
    numTxt startNum realStart b ++ [32] ++ stdMoveTxt style b mv ++ stdItems style startNum realStart rest

theorem fmtStyled_std (b : Board) (hv : Valid b) (m : Move) (hl : C09.Legal b m) (style : MoveStyle) :
    fmtStyledMove? m b style = some (stdMoveTxt style b m) := by
  obtain ⟨sm, a1, _, _, a4, a5, a6⟩ := C09.styled_impl b hv m hl
  unfold stdMoveTxt
  rw [a1]
  cases style
  · exact a5
  · exact a4
  · exact a6

theorem itemsTxt_std (style : MoveStyle) (startNum : Option Nat) (realStart : Nat) :
    ∀ (rest : List (Board × Move)), (∀ b m, (b, m) ∈ rest → Valid b ∧ C09.Legal b m) →
      itemsTxt style startNum realStart rest = some (stdItems style startNum realStart rest) := by
  intro rest
  induction rest with
  | nil => intro _; rfl
  | cons e rest ih =>
    intro hall
    obtain ⟨b, m⟩ := e
    obtain ⟨hv, hl⟩ := hall b m List.mem_cons_self
    simp only [itemsTxt, stdItems, fmtStyled_std b hv m hl style,
      ih (fun b' m' hm => hall b' m' (List.mem_cons_of_mem _ hm))]

/-- C17 (printing, the exact text): on a chain that satisfies the chain invariant the printer returns exactly: nothing
(or the status token) for an empty record; otherwise the head number text, the standard text of the first move, then
for every later move its number text, a space and its standard text, then (if asked for) a space and the status
token.  All move texts are the rules' notation of the move in the position that preceded it -/
theorem styled_exact (ch : Chain) (hs : List Board) (h : ChainInvH ch hs) (hmn : ch.start.mn ≤ 65535)
    (nums : NumberPolicy) (style : MoveStyle) (showStatus : Bool) :
    ch.styled? nums style showStatus = some
      (match pairs ch.stack hs with
       | [] => if showStatus then fmtStatus ch.outcome else []
       | (b0, m0) :: rest =>
         headTxt (startNumOf nums b0.r.mn) b0 ++ stdMoveTxt style b0 m0
           ++ stdItems style (startNumOf nums b0.r.mn) b0.r.mn rest
           ++ (if showStatus then [32] ++ fmtStatus ch.outcome else [])) := by
  have hS := steps_of_inv h
  have hall := pairs_mem hS
  rw [styled_spec ch hs h hmn nums style showStatus]
  cases hp : pairs ch.stack hs with
  | nil => rfl
  | cons e rest =>
    obtain ⟨b0, m0⟩ := e
    rw [hp] at hall
    obtain ⟨hv, hl⟩ := hall b0 m0 List.mem_cons_self
    simp only [fmtStyled_std b0 hv m0 hl style,
      itemsTxt_std style (startNumOf nums b0.r.mn) b0.r.mn rest
        (fun b' m' hm => hall b' m' (List.mem_cons_of_mem _ hm))]

end Owl.Props.C17
