/-
C13  A move chain is a faithful, reversible record of the game.
`ChainInv` (Lemmas/ChainInv: valid start; stack = a legal game from the start with the undo records `make` returned;
board = last position; repetition table = hash counts of the game so far) holds initially (`new_inv`) and is preserved
by every operation (`push_ok`, `pop_spec'`, `inv_outcome`, `inv_auto`, `pushUciList_go`), hence after ANY operation
sequence (`ops_inv`, here, over moves, UCI values / strings / lists and SAN values / strings — the SAN paths through
Lemmas/SanSound `makeSanMove_ok` / `makeSanStr_ok`).  `chain_faithful` / `chain_refines_rules`: the board is the replay
of the recorded moves (in the model and in rule terms); `pop_spec'`: pop undoes exactly the latest accepted push,
restores the position exactly, clears the outcome and cannot panic; `push_refused`; `beq_iff`.
-/
import OwlModel.Lemmas.ChainInv
import OwlModel.Lemmas.SanSound

namespace Owl.Props.C13
open Owl Owl.Impl Owl.Lemmas Owl.Props

/-! ### any sequence of operations -/

inductive Op
  | pushMove (m : Move) | pushUci (u : UciMove) | pushUciStr (s : Bytes) | pushList (s : Bytes)
  | pushSan (m : SanMove) | pushSanStr (s : Bytes)
  | pop | setOutcome (o : Outcome) | clearOutcome | auto (f : OutcomeFilter)

/-- what the operation leaves in the caller's chain variable (refusals and `finished` chains leave it as it was) -/
def Op.apply (ch : Chain) : Op → Chain
  | .pushMove m => if ch.isFinished || !m.isWellFormed then ch else
      match ch.pushWith (makeMoveLike ch.board m) with | .ok c => c | _ => ch
  | .pushUci u => if ch.isFinished then ch else
      match ch.pushWith (makeUciMove ch.board u) with | .ok c => c | _ => ch
  | .pushUciStr s => if ch.isFinished then ch else
      match ch.pushWith (makeUciStr ch.board s) with | .ok c => c | _ => ch
  | .pushList s => if ch.isFinished then ch else (ch.pushUciList s).1
  | .pushSan m => if ch.isFinished then ch else
      match ch.pushWith (makeSanMove ch.board m) with | .ok c => c | _ => ch
  | .pushSanStr s => if ch.isFinished then ch else
      match ch.pushWith (makeSanStr ch.board s) with | .ok c => c | _ => ch
  | .pop => match ch.pop? with | some (c, _) => c | none => ch
  | .setOutcome o => if ch.isFinished then ch else { ch with outcome := some o }
  | .clearOutcome => { ch with outcome := none }
  | .auto f => if ch.isFinished then ch else match ch.setAutoOutcome? f with | some c => c | none => ch

/-- C13: after ANY sequence of pushes (moves, UCI values, UCI strings, UCI lists, SAN values, SAN strings — legal or
not), pops and outcome
operations, the invariant holds: valid positions throughout, stack = a legal game from the unchanged start,
board = its replay, repetition table = hash counts of the game so far -/
theorem ops_inv (ops : List Op) : ∀ ch, ChainInv ch → ChainInv (ops.foldl Op.apply ch) ∧ (ops.foldl Op.apply ch).start = ch.start := by
  induction ops with
  | nil => intro ch h; exact ⟨h, rfl⟩
  | cons op rest ih =>
    intro ch h
    have step : ChainInv (Op.apply ch op) ∧ (Op.apply ch op).start = ch.start := by
      cases op with
      | pushMove m =>
        simp only [Op.apply]
        split
        · exact ⟨h, rfl⟩
        · rename_i hc
          simp only [Bool.or_eq_true, Bool.not_eq_true', not_or, Bool.not_eq_true, Bool.not_eq_false] at hc
          split
          · rename_i c hp
            obtain ⟨_, _, _, hi, _, _, hs, _⟩ := push_ok ch c h _ (makeMoveLike_ok ch.board m h.valid hc.2) hp
            exact ⟨hi, hs⟩
          · exact ⟨h, rfl⟩
      | pushUci u =>
        simp only [Op.apply]
        split
        · exact ⟨h, rfl⟩
        · split
          · rename_i c hp
            obtain ⟨_, _, _, hi, _, _, hs, _⟩ := push_ok ch c h _ (makeUciMove_ok ch.board u h.valid) hp
            exact ⟨hi, hs⟩
          · exact ⟨h, rfl⟩
      | pushUciStr s =>
        simp only [Op.apply]
        split
        · exact ⟨h, rfl⟩
        · split
          · rename_i c hp
            obtain ⟨_, _, _, hi, _, _, hs, _⟩ := push_ok ch c h _ (makeUciStr_ok ch.board s h.valid) hp
            exact ⟨hi, hs⟩
          · exact ⟨h, rfl⟩
      | pushSan m =>
        simp only [Op.apply]
        split
        · exact ⟨h, rfl⟩
        · split
          · rename_i c hp
            obtain ⟨_, _, _, hi, _, _, hs, _⟩ := push_ok ch c h _ (C09.makeSanMove_ok ch.board h.valid m) hp
            exact ⟨hi, hs⟩
          · exact ⟨h, rfl⟩
      | pushSanStr s =>
        simp only [Op.apply]
        split
        · exact ⟨h, rfl⟩
        · split
          · rename_i c hp
            obtain ⟨_, _, _, hi, _, _, hs, _⟩ := push_ok ch c h _ (C09.makeSanStr_ok ch.board h.valid s) hp
            exact ⟨hi, hs⟩
          · exact ⟨h, rfl⟩
      | pushList s =>
        simp only [Op.apply]
        split
        · exact ⟨h, rfl⟩
        · obtain ⟨i1, i2, _⟩ := pushUciList_go (splitAsciiWhitespace s) ch 0 h
          exact ⟨i1, i2⟩
      | pop =>
        simp only [Op.apply]
        rcases pop_spec' ch h with ⟨_, hp⟩ | ⟨st, m, u, bp, ch', _, hp, hi, _, _, _, _, hs, _⟩
        · rw [hp]; exact ⟨h, rfl⟩
        · rw [hp]; exact ⟨hi, hs⟩
      | setOutcome o =>
        simp only [Op.apply]
        split
        · exact ⟨h, rfl⟩
        · exact ⟨inv_outcome ch _ h, rfl⟩
      | clearOutcome => exact ⟨inv_outcome ch _ h, rfl⟩
      | auto f =>
        simp only [Op.apply]
        split
        · exact ⟨h, rfl⟩
        · split
          · rename_i c ha
            obtain ⟨i1, _, _, i4⟩ := inv_auto ch c f h ha
            exact ⟨i1, i4⟩
          · exact ⟨h, rfl⟩
    obtain ⟨i1, i2⟩ := ih _ step.1
    exact ⟨i1, i2.trans step.2⟩


/-! the invariant lemmas, restated so that the evidence lists them with this property -/

theorem new_chain_inv (b : Board) (hv : Valid b) : ChainInv (Chain.new b) := new_inv b hv

theorem faithful (ch : Chain) (h : ChainInv ch) :
    ch.board = replay (buildBoard ch.start) (ch.stack.map (·.1)) := chain_faithful ch h

theorem refines_rules (ch : Chain) (h : ChainInv ch) :
    ∃ sms, ch.stack.map (fun e => absMove e.1) = sms.map some ∧ abs ch.board.r = Spec.replay (abs ch.start) sms :=
  chain_refines_rules ch h

theorem accepted_push (ch ch' : Chain) (h : ChainInv ch) (r : Res MakeErr (Move × Board)) (hr : MakeLikeOk ch.board r)
    (hp : ch.pushWith r = .ok ch') :
    ∃ mv, r = .ok (mv, (makeMove ch.board mv).1) ∧ LegalStep ch.board mv ∧ ChainInv ch'
      ∧ ch'.stack = ch.stack ++ [(mv, (makeMove ch.board mv).2)] ∧ ch'.board = (makeMove ch.board mv).1
      ∧ ch'.start = ch.start ∧ ch'.outcome = ch.outcome := push_ok ch ch' h r hr hp

theorem refused_push (ch : Chain) (e : MakeErr) : ch.pushWith (.err e) = .err e := push_refused ch e

theorem pop_exact (ch : Chain) (h : ChainInv ch) :
    (ch.stack = [] ∧ ch.pop? = some (ch, none)) ∨
    (∃ st m u bp ch', ch.stack = st ++ [(m, u)] ∧ ch.pop? = some (ch', some m) ∧ ChainInv ch'
      ∧ ch'.stack = st ∧ ch'.board = bp ∧ ch.board = (makeMove bp m).1 ∧ u = (makeMove bp m).2
      ∧ ch'.start = ch.start ∧ ch'.outcome = none) := pop_spec' ch h

theorem equality (a b : Chain) :
    a.beq b = true ↔ (a.start = b.start ∧ a.stack.map (·.1) = b.stack.map (·.1) ∧ a.outcome = b.outcome) := beq_iff a b

theorem all_make_likes (b : Board) (hv : Valid b) :
    (∀ m, m.isWellFormed = true → MakeLikeOk b (makeMoveLike b m)) ∧ (∀ u, MakeLikeOk b (makeUciMove b u))
    ∧ (∀ s, MakeLikeOk b (makeUciStr b s)) ∧ (∀ m, MakeLikeOk b (makeSanMove b m)) ∧ (∀ s, MakeLikeOk b (makeSanStr b s)) :=
  ⟨fun m hw => makeMoveLike_ok b m hv hw, fun u => makeUciMove_ok b u hv, fun s => makeUciStr_ok b s hv,
   fun m => C09.makeSanMove_ok b hv m, fun s => C09.makeSanStr_ok b hv s⟩

end Owl.Props.C13
