/-
C20  Core value types convert losslessly and bitboards behave as sets of squares.
-/
import OwlModel.Lemmas.BitSet
import OwlModel.Lemmas.TextBasic

namespace Owl.Props.C20
open Owl Owl.Impl Owl.Lemmas

/-! ### index round trips (every value of each finite type) -/

theorem sq_parts_roundtrip (s : Sq) : Sq.mk s.file s.rank = s := Sq.mk_file_rank s
theorem sq_mk_file (f r : Fin 8) : (Sq.mk f r).file = f := Sq.file_mk f r
theorem sq_mk_rank (f r : Fin 8) : (Sq.mk f r).rank = r := Sq.rank_mk f r
theorem sq_index (f r : Fin 8) : (Sq.mk f r).val = r.val * 8 + f.val := rfl

theorem piece_index_roundtrip (p : Piece) : Piece.ofIdx p.idx = some p := by cases p <;> rfl
theorem piece_index_rejects (n : Nat) : (Piece.ofIdx n).isSome = true ↔ n < 6 := by
  constructor
  · intro h; match n, h with
    | 0, _ | 1, _ | 2, _ | 3, _ | 4, _ | 5, _ => decide
  · intro h; match n, h with
    | 0, _ | 1, _ | 2, _ | 3, _ | 4, _ | 5, _ => rfl
theorem kind_index_roundtrip (k : Kind) : Kind.ofIdx k.idx = some k := by cases k <;> rfl
/-- the extracted enum discriminants are the indices the model uses -/
theorem discriminants : Gen.pieceDisc = Piece.all.map Piece.idx ∧ Gen.kindDisc = Kind.all.map Kind.idx := by decide

theorem cell_parts_roundtrip (c : Color) (p : Piece) :
    (Cell.mk c p).color = some c ∧ (Cell.mk c p).piece = some p := by
  cases c <;> cases p <;> decide
theorem cell_from_parts (x : Cell) (h : x ≠ Cell.empty) :
    (x.color.bind fun c => x.piece.map fun p => Cell.mk c p) = some x := by
  revert x; decide
theorem cell_empty : Cell.empty.color = none ∧ Cell.empty.piece = none := by decide
/-- `Cell::from_parts` uses the extracted bases 1 and 7 -/
theorem cell_bases : Gen.cellBaseW = 1 ∧ Gen.cellBaseB = 7 := by decide

theorem color_inv_inv (c : Color) : c.inv.inv = c := Color.inv_inv c

/-! ### castling rights as a set of (colour, side) -/

theorem rights_with (r : Rights) (c c' : Color) (s s' : Side) :
    rHas (rWith r c s) c' s' = (rHas r c' s' || (decide (c = c') && decide (s = s'))) := by
  revert r; cases c <;> cases c' <;> cases s <;> cases s' <;> decide
theorem rights_without (r : Rights) (c c' : Color) (s s' : Side) :
    rHas (rWithout r c s) c' s' = (rHas r c' s' && !(decide (c = c') && decide (s = s'))) := by
  revert r; cases c <;> cases c' <;> cases s <;> cases s' <;> decide
theorem rights_has_color (r : Rights) (c : Color) :
    rHasColor r c = (rHas r c .king || rHas r c .queen) := by
  revert r; cases c <;> decide
theorem rights_ext (r r' : Rights) (h : ∀ c s, rHas r c s = rHas r' c s) : r = r' := by
  have h1 := h .white .king; have h2 := h .white .queen; have h3 := h .black .king; have h4 := h .black .queen
  revert h1 h2 h3 h4; clear h; revert r r'; decide

/-! ### text forms: print → parse is the identity, and the parsers accept exactly the documented spellings -/

theorem coord_text_roundtrip (s : Sq) : parseCoord (fmtCoord s) = .ok s := by revert s; decide

theorem coord_parse_exact (t : Bytes) (s : Sq) : parseCoord t = .ok s ↔ t = fmtCoord s := by
  constructor
  · intro h
    match t, h with
    | [f, r], h =>
      unfold parseCoord at h
      simp only at h
      cases hfo : fileOfByte f with
      | none => simp [hfo] at h
      | some file =>
        cases hro : rankOfByte r with
        | none => simp [hfo, hro] at h
        | some rank =>
          simp only [hfo, hro] at h
          injection h with h; subst h
          simp only [fmtCoord, fileByte, rankByte, Sq.file_mk, Sq.rank_mk]
          rw [fileOfByte_some hfo, rankOfByte_some hro]
    | [], h | [_], h | _ :: _ :: _ :: _, h => simp [parseCoord] at h
  · intro h; subst h; exact coord_text_roundtrip s

theorem cell_text_roundtrip (c : Cell) : parseCell [cellByte c] = .ok c := by revert c; decide
theorem color_text_roundtrip (c : Color) : parseColor [colorByte c] = .ok c := by cases c <;> decide
theorem rights_text_roundtrip (r : Rights) : parseRights (fmtRights r) = .ok r := by revert r; decide

/-- the cell letters extracted from the source are `.PKNBRQpknbrq` -/
theorem cell_letters : Gen.cellChars = ".PKNBRQpknbrq".toList.map Char.toNat := by decide

/-- a single byte parses as a cell exactly when it is one of the thirteen letters -/
theorem cell_parse_exact (b : Nat) (c : Cell) : parseCell [b] = .ok c ↔ b = cellByte c := by
  constructor
  · intro h
    by_cases hb : b < 128
    · have key : ∀ b : Fin 128, ∀ c : Cell, parseCell [b.val] = .ok c → b.val = cellByte c := by decide
      exact key ⟨b, hb⟩ c h
    · have : cellOfByte b = none := cellOfByte_big b hb
      simp [parseCell, this] at h
  · intro h; subst h; exact cell_text_roundtrip c

theorem color_parse_exact (b : Nat) (c : Color) : parseColor [b] = .ok c ↔ b = colorByte c := by
  unfold parseColor colorOfByte
  by_cases h1 : b = 119
  · subst h1; cases c <;> simp [colorByte]
  · by_cases h2 : b = 98
    · subst h2; cases c <;> simp [colorByte]
    · cases c <;> simp [colorByte, h1, h2]

/-! ### bitboards are sets of squares -/

theorem bb_union (a b : BB) (s : Sq) : (a ||| b).has s = (a.has s || b.has s) := BB.has_or a b s
theorem bb_inter (a b : BB) (s : Sq) : (a &&& b).has s = (a.has s && b.has s) := BB.has_and a b s
theorem bb_symdiff (a b : BB) (s : Sq) : (a ^^^ b).has s = (a.has s ^^ b.has s) := BB.has_xor a b s
theorem bb_compl (a : BB) (s : Sq) : (~~~ a).has s = !a.has s := BB.has_not a s
theorem bb_insert (a : BB) (s t : Sq) : (a ||| BB.single s).has t = (a.has t || decide (s = t)) := by simp
theorem bb_remove (a : BB) (s t : Sq) : (a &&& ~~~ BB.single s).has t = (a.has t && !decide (s = t)) := by simp
theorem bb_empty (s : Sq) : BB.has (0#64) s = false := BB.has_zero s
theorem bb_full (s : Sq) : BB.has (BitVec.allOnes 64) s = true := BB.has_allOnes s
theorem bb_ext (a b : BB) (h : ∀ s, a.has s = b.has s) : a = b := BB.ext_has h
theorem bb_iter_mem (a : BB) (s : Sq) : s ∈ a.toList ↔ a.has s = true := BB.mem_toList a s
theorem bb_iter_ascending (a : BB) : a.toList.Pairwise (· < ·) := by
  unfold BB.toList Sq.all
  exact List.Pairwise.filter _ (List.pairwise_lt_finRange 64)
theorem bb_len_card (a : BB) : a.len = a.toList.length := rfl

/-! ### named constants contain exactly the squares their names say (extracted values) -/

theorem rank_const (r : Fin 8) (s : Sq) : (rankBB r).has s = decide (s.rank = r) := by revert r s; decide +kernel
theorem file_const (f : Fin 8) (s : Sq) : (fileBB f).has s = decide (s.file = f) := by revert f s; decide +kernel
theorem diag_const (i : Fin 15) (s : Sq) :
    (tabGet Gen.diagTab i.val).has s = decide (s.file.val + s.rank.val = i.val) := by revert i s; decide +kernel
theorem antidiag_const (i : Fin 15) (s : Sq) :
    (tabGet Gen.antidiagTab i.val).has s = decide (7 - s.rank.val + s.file.val = i.val) := by revert i s; decide +kernel
theorem light_const (s : Sq) : lightSquares.has s = decide ((s.file.val + s.rank.val) % 2 = 0) := by revert s; decide +kernel
theorem dark_const (s : Sq) : darkSquares.has s = decide ((s.file.val + s.rank.val) % 2 = 1) := by revert s; decide +kernel

/-! ### square arithmetic matches board geometry -/

theorem flip_rank_geom (s : Sq) : s.flipRank = Sq.mk s.file ⟨7 - s.rank.val, by omega⟩ := by revert s; decide
theorem flip_file_geom (s : Sq) : s.flipFile = Sq.mk ⟨7 - s.file.val, by omega⟩ s.rank := by revert s; decide
theorem shift_geom (s : Sq) (df dr : Int) (t : Sq) :
    s.shift df dr = some t ↔ ((t.file.val : Int) = s.file.val + df ∧ (t.rank.val : Int) = s.rank.val + dr) := by
  unfold Sq.shift
  have hs := s.isLt; have ht := t.isLt
  by_cases h : 0 ≤ (s.file.val : Int) + df ∧ (s.file.val : Int) + df < 8
      ∧ 0 ≤ (s.rank.val : Int) + dr ∧ (s.rank.val : Int) + dr < 8
  · simp only [dif_pos h, Option.some.injEq]
    simp only [Sq.file, Sq.rank] at h ⊢
    constructor
    · intro e; subst e; simp; omega
    · intro ⟨h1, h2⟩; apply Fin.ext; simp; omega
  · simp only [dif_neg h, reduceCtorEq, false_iff]
    simp only [Sq.file, Sq.rank] at h ⊢
    omega
theorem add_geom (s : Sq) (d : Int) (t : Sq) : s.add? d = some t ↔ (t.val : Int) = s.val + d := by
  unfold Sq.add?
  have hs := s.isLt; have ht := t.isLt
  by_cases h : 0 ≤ (s.val : Int) + d ∧ (s.val : Int) + d < 64
  · simp only [dif_pos h, Option.some.injEq]
    constructor
    · intro e; subst e; simp; omega
    · intro h; apply Fin.ext; simp; omega
  · simp only [dif_neg h, reduceCtorEq, false_iff]; omega

/-! non-vacuity -/
example : parseCoord [101, 52] = .ok ⟨36, by decide⟩ := by decide
example : (rankBB 7).toList.length = 8 := by decide +kernel

end Owl.Props.C20
