/-
C12 (continued): `push_uci_list` and the UCI-string make-like cannot panic on a chain that satisfies the C13 invariant
(every intermediate position is valid, hence has both kings).
-/
import OwlModel.Props.C13

namespace Owl.Props.C12
open Owl Owl.Impl Owl.Lemmas Owl.Props Owl.Props.C13

theorem makeUciStr_no_trap (b : Board) (hv : Valid b) (s : Bytes) (w : String) : makeUciStr b s ≠ .trap w := by
  intro h
  unfold makeUciStr at h
  cases hm : moveFromUciSemilegal s b with
  | trap w' =>
    -- the reader itself cannot panic
    unfold moveFromUciSemilegal moveFromUci at hm
    cases hp : parseUci s with
    | trap w2 => exact C12.uci_total s w2 hp
    | err e => rw [hp] at hm; cases hm
    | ok u =>
      rw [hp] at hm
      simp only at hm
      cases hu : uciIntoMove u b with
      | none => rw [hu] at hm; cases hm
      | some m => rw [hu] at hm; simp only at hm; split at hm <;> cases hm
  | err e => rw [hm] at h; cases h
  | ok m =>
    rw [hm] at h
    simp only at h
    have hsl : m.isWellFormed = true ∧ isSemilegal b m = true := by
      unfold moveFromUciSemilegal moveFromUci at hm
      cases hp : parseUci s with
      | trap w2 => rw [hp] at hm; cases hm
      | err e => rw [hp] at hm; cases hm
      | ok u =>
        rw [hp] at hm
        simp only at hm
        cases hu : uciIntoMove u b with
        | none => rw [hu] at hm; cases hm
        | some m' =>
          rw [hu] at hm
          simp only at hm
          split at hm
          · rename_i hs; cases hm; exact ⟨C02.uciIntoMove_wf b u _ hu, hs⟩
          · cases hm
    obtain ⟨ok, _, h2⟩ := C02.tryUnchecked_eq b m hv hsl.1 hsl.2
    rw [h2] at h
    cases ok <;> simp at h

/-- C12/C13: `push_uci_list` cannot panic at any token (every intermediate position is valid) -/
theorem pushUciList_go_no_trap (toks : List Bytes) : ∀ (ch : Chain) (pos : Nat), ChainInv ch →
    ∀ k w, (Chain.pushUciList.go ch toks pos).2 ≠ some (k, .trap w) := by
  induction toks with
  | nil => intro ch pos _ k w h; simp [Chain.pushUciList.go] at h
  | cons t rest ih =>
    intro ch pos hinv k w
    simp only [Chain.pushUciList.go]
    cases hp : ch.pushWith (makeUciStr ch.board t) with
    | ok ch' =>
      simp only
      obtain ⟨_, _, _, hinv', _⟩ := push_ok ch ch' hinv _ (makeUciStr_ok ch.board t hinv.valid) hp
      exact ih ch' (pos + 1) hinv' k w
    | err e => simp
    | trap w' =>
      exfalso
      unfold Chain.pushWith at hp
      split at hp
      · cases hp
      · cases hp
      · rename_i w2 hr
        exact makeUciStr_no_trap ch.board hinv.valid t w2 hr

theorem pushUciList_no_trap (ch : Chain) (h : ChainInv ch) (s : Bytes) (k : Nat) (w : String) :
    (ch.pushUciList s).2 ≠ some (k, .trap w) :=
  pushUciList_go_no_trap _ ch 0 h k w

end Owl.Props.C12
