/-
C02  The safe API yields only valid positions; a move is accepted iff it is legal.
`Valid b` (Lemmas/Valid) is "b passes the validation gate unchanged" (`valid_iff_validate`).
Proved here: positions from FEN / raw conversion are valid; `impl Make for Move`, `for uci::Move` and `for Uci<S>`
accept exactly the semilegal moves whose application does not leave the mover's king attacked (stated both through
`is_legal_unchecked`, whose exactness is Lemmas/Checker `isLegal_nil`, and in rule terms through `Spec.apply` /
`Spec.inCheck`), return the position `make_move_unchecked` produces, which is valid again and re-validates to itself;
no panic on any input; on refusal the primitive's undo restores the position.
Not yet proved (differential only): the SAN make-likes (they rest on the SAN candidate generators, C09), and the
identification of "semilegal" with the rules' pseudo-legal set (C06).
-/
import OwlModel.Lemmas.Valid
import OwlModel.Props.C03
import OwlModel.Props.C10

namespace Owl.Props.C02
open Owl Owl.Impl Owl.Lemmas Owl.Props

/-- the apply-and-test legality decision (`TryUnchecked`) agrees with `is_legal_unchecked`, and never panics -/
theorem tryUnchecked_eq (b : Board) (mv : Move) (hv : Valid b) (hwf : mv.isWellFormed = true)
    (hsl : isSemilegal b mv = true) :
    ∃ ok : Bool, isLegalUnchecked? b mv = some ok ∧
      tryUnchecked b mv = (if ok then .ok (makeMove b mv).1 else .err .notLegal) := by
  obtain ⟨k, hk, hku⟩ := hv.checks.king b.r.side
  obtain ⟨hkat, _⟩ := make_valid_core b mv hv hwf hsl
  obtain ⟨hk1, hk2⟩ := hkat k hk
  have hb' := (make_shape b mv hv.shape hwf hsl).cons
  have hlegal := isLegal_nil b mv hv.shape hwf hsl k hk hku
  refine ⟨_, legal_unfold b hv.shape.cons mv k hk hku, ?_⟩
  unfold tryUnchecked isOpponentKingAttacked?
  simp only [make_side, Color.inv_inv]
  rw [kingPos_of _ hb' b.r.side _ hk1 hk2, hlegal]
  simp only
  cases isCellAttacked (makeMove b mv).1 (if mv.src = k then mv.dst else k) b.r.side.inv <;> rfl

theorem applyHyp_of_valid (b : Board) (mv : Move) (hv : Valid b) (hwf : mv.isWellFormed = true)
    (hsl : isSemilegal b mv = true) : ApplyHyp b mv where
  shape := hv.shape
  wf := hwf
  sl := hsl
  oneKing := fun c s t hs ht => by
    obtain ⟨k, _, hu⟩ := hv.checks.king c
    rw [hu s hs, hu t ht]
  noKingCapture := no_king_capture' b hv mv hwf hsl

/-- the mover's king, in rule terms: `Spec.inCheck` of the position after the move -/
theorem inCheck_after (b : Board) (mv : Move) (hv : Valid b) (hwf : mv.isWellFormed = true)
    (hsl : isSemilegal b mv = true) (k : Sq) (hk : b.get k = Cell.mk b.r.side .king) :
    Spec.inCheck (abs (makeMove b mv).1.r) b.r.side
      = isCellAttacked (makeMove b mv).1 (if mv.src = k then mv.dst else k) b.r.side.inv := by
  obtain ⟨hkat, _⟩ := make_valid_core b mv hv hwf hsl
  obtain ⟨hk1, hk2⟩ := hkat k hk
  have hb' := (make_shape b mv hv.shape hwf hsl).cons
  unfold Spec.inCheck
  rw [← kingPos_eq _ hb', kingPos_of _ hb' b.r.side _ hk1 hk2]
  simp only [Option.any_some]
  rw [isCellAttacked_iff _ hb']

/-- C02: `impl Make for Move` accepts exactly the semilegal moves that `is_legal_unchecked` accepts, returns the
position `make_move_unchecked` produces, and never panics -/
theorem make_checked_iff (b : Board) (mv : Move) (hv : Valid b) (hwf : mv.isWellFormed = true) (b' : Board) :
    makeMoveChecked b mv = .ok b' ↔
      (isSemilegal b mv = true ∧ isLegalUnchecked? b mv = some true ∧ b' = (makeMove b mv).1) := by
  unfold makeMoveChecked
  cases hsl : isSemilegal b mv
  · simp
  · obtain ⟨ok, h1, h2⟩ := tryUnchecked_eq b mv hv hwf hsl
    simp only [Bool.not_true, Bool.false_eq_true, if_false, h1, h2, true_and]
    cases ok
    · simp
    · simp only [if_true, Res.ok.injEq, true_and]
      exact ⟨fun h => h.symm, fun h => h.symm⟩

theorem make_checked_no_trap (b : Board) (mv : Move) (hv : Valid b) (hwf : mv.isWellFormed = true) (w : String) :
    makeMoveChecked b mv ≠ .trap w := by
  unfold makeMoveChecked
  cases hsl : isSemilegal b mv
  · simp
  · obtain ⟨ok, _, h2⟩ := tryUnchecked_eq b mv hv hwf hsl
    simp only [Bool.not_true, Bool.false_eq_true, if_false, h2]
    cases ok <;> simp

/-- C02: in rule terms — a well-formed move is accepted iff it is semilegal and does not leave the mover's king
attacked in `Spec.apply` of the position -/
theorem make_checked_iff_rules (b : Board) (mv : Move) (hv : Valid b) (hwf : mv.isWellFormed = true) :
    (∃ b', makeMoveChecked b mv = .ok b') ↔
      (isSemilegal b mv = true ∧ ∃ sm, absMove mv = some sm ∧
        Spec.inCheck (Spec.apply (abs b.r) sm) b.r.side = false) := by
  constructor
  · intro ⟨b', h⟩
    obtain ⟨hsl, hleg, _⟩ := (make_checked_iff b mv hv hwf b').mp h
    refine ⟨hsl, ?_⟩
    obtain ⟨sm, h1, h2⟩ := Lemmas.make_refines_apply b mv (applyHyp_of_valid b mv hv hwf hsl)
    refine ⟨sm, h1, ?_⟩
    obtain ⟨k, hk, hku⟩ := hv.checks.king b.r.side
    rw [← h2, inCheck_after b mv hv hwf hsl k hk]
    have hlegal := isLegal_nil b mv hv.shape hwf hsl k hk hku
    rw [legal_unfold b hv.shape.cons mv k hk hku] at hleg
    rw [Option.some.inj hleg] at hlegal
    simpa using hlegal.symm
  · intro ⟨hsl, sm, h1, h3⟩
    refine ⟨_, (make_checked_iff b mv hv hwf _).mpr ⟨hsl, ?_, rfl⟩⟩
    obtain ⟨sm', h1', h2⟩ := Lemmas.make_refines_apply b mv (applyHyp_of_valid b mv hv hwf hsl)
    rw [h1] at h1'; cases h1'
    obtain ⟨k, hk, hku⟩ := hv.checks.king b.r.side
    rw [← h2, inCheck_after b mv hv hwf hsl k hk] at h3
    rw [legal_unfold b hv.shape.cons mv k hk hku, isLegal_nil b mv hv.shape hwf hsl k hk hku, h3]
    rfl

/-- C02: the result of an accepted move is valid: re-validating its raw contents succeeds and reproduces it
identically, it is the rules' successor position, and the side that has just moved is not in check -/
theorem make_checked_valid (b : Board) (mv : Move) (hv : Valid b) (hwf : mv.isWellFormed = true) (b' : Board)
    (h : makeMoveChecked b mv = .ok b') :
    Valid b' ∧ validate b'.r = .ok b' ∧ Spec.inCheck (abs b'.r) b.r.side = false
      ∧ ∃ sm, absMove mv = some sm ∧ abs b'.r = Spec.apply (abs b.r) sm := by
  obtain ⟨hsl, hleg, hb'⟩ := (make_checked_iff b mv hv hwf b').mp h
  subst hb'
  have hv' := valid_make b mv hv hwf hsl hleg
  refine ⟨hv', (valid_iff_validate _).mp hv', ?_, Lemmas.make_refines_apply b mv (applyHyp_of_valid b mv hv hwf hsl)⟩
  obtain ⟨k, hk, hku⟩ := hv.checks.king b.r.side
  rw [inCheck_after b mv hv hwf hsl k hk]
  have hlegal := isLegal_nil b mv hv.shape hwf hsl k hk hku
  rw [legal_unfold b hv.shape.cons mv k hk hku] at hleg
  rw [Option.some.inj hleg] at hlegal
  simpa using hlegal.symm

/-- C02: positions from the two entry points are valid -/
theorem validate_valid (raw : RawBoard) (b : Board) (h : validate raw = .ok b) : Valid b :=
  (valid_iff_validate b).mpr (C11.validate_idem raw b h)

theorem fen_board_valid (s : Bytes) (b : Board) (h : parseFenBoard s = .ok b) : Valid b := by
  unfold parseFenBoard at h
  split at h
  · cases h
  · cases h
  · rename_i raw _
    split at h
    · cases h
    · cases h
    · rename_i b0 hv
      cases h
      exact validate_valid raw b hv

theorem uciIntoMove_wf (b : Board) (u : UciMove) (mv : Move) (h : uciIntoMove u b = some mv) :
    mv.isWellFormed = true := by
  cases u with
  | null => cases h; decide
  | move src dst p =>
    unfold uciIntoMove at h
    simp only at h
    split at h
    · cases h
    · exact (C10.new?_some _ _ _ _ _ h).2

/-- C02: a UCI move value is applied through the same checked path -/
theorem make_uci_valid (b : Board) (u : UciMove) (hv : Valid b) (mv : Move) (b' : Board)
    (h : makeUciMove b u = .ok (mv, b')) :
    uciIntoMove u b = some mv ∧ makeMoveChecked b mv = .ok b' ∧ Valid b' := by
  unfold makeUciMove at h
  cases hu : uciIntoMove u b with
  | none => rw [hu] at h; cases h
  | some m =>
    rw [hu] at h
    simp only at h
    cases hm : makeMoveChecked b m with
    | ok b2 =>
      rw [hm] at h
      simp only [Res.ok.injEq, Prod.mk.injEq] at h
      obtain ⟨e1, e2⟩ := h
      subst e1 e2
      exact ⟨rfl, hm, (make_checked_valid b m hv (uciIntoMove_wf b u m hu) b2 hm).1⟩
    | err e => rw [hm] at h; cases h
    | trap w => rw [hm] at h; cases h

/-- C02: a UCI string is accepted iff it spells a legal move of the position, which is then the move applied -/
theorem make_ucistr_iff (b : Board) (hv : Valid b) (s : Bytes) (src dst : Sq) (p : Option Piece)
    (hparse : parseUci s = .ok (.move src dst p)) (mv : Move) (b' : Board) :
    makeUciStr b s = .ok (mv, b') ↔
      (mv.isWellFormed = true ∧ isSemilegal b mv = true ∧ isLegalUnchecked? b mv = some true
        ∧ uciOfMove mv = .move src dst p ∧ b' = (makeMove b mv).1) := by
  unfold makeUciStr
  constructor
  · intro h
    cases hm : moveFromUciSemilegal s b with
    | trap w => rw [hm] at h; cases h
    | err e => rw [hm] at h; cases h
    | ok m =>
      rw [hm] at h
      simp only at h
      obtain ⟨hwf, hsl, hu⟩ := (C10.uci_semilegal_iff b hv.shape s src dst p hparse m).mp hm
      obtain ⟨ok, h1, h2⟩ := tryUnchecked_eq b m hv hwf hsl
      rw [h2] at h
      cases ok
      · cases h
      · simp only [if_true, Res.ok.injEq, Prod.mk.injEq] at h
        obtain ⟨e1, e2⟩ := h
        subst e1
        exact ⟨hwf, hsl, h1, hu, e2.symm⟩
  · intro ⟨hwf, hsl, hleg, hu, hb'⟩
    rw [(C10.uci_semilegal_iff b hv.shape s src dst p hparse mv).mpr ⟨hwf, hsl, hu⟩]
    simp only
    obtain ⟨ok, h1, h2⟩ := tryUnchecked_eq b mv hv hwf hsl
    rw [hleg] at h1
    cases h1
    rw [h2, hb']
    rfl

/-- C02: on a refusal the primitive's own undo restores the position exactly (what `TryUnchecked` does before it
returns `NotLegal`) -/
theorem refusal_restores (b : Board) (mv : Move) (hv : Valid b) (hwf : mv.isWellFormed = true)
    (hsl : isSemilegal b mv = true) : unmakeMove (makeMove b mv).1 mv (makeMove b mv).2 = b :=
  C04.undo_restores b mv hv.shape.cons (makeOk_of_semilegal b mv hv.shape hwf hsl)

/-! non-vacuity: the initial position is valid, 1. e4 is accepted, and the result is valid -/
example : Valid (buildBoard C04.initialRaw) := (valid_iff_validate _).mpr (by decide +kernel)
example : makeMoveChecked (buildBoard C04.initialRaw) ⟨.double, 1, 52, 36⟩
    = .ok (makeMove (buildBoard C04.initialRaw) ⟨.double, 1, 52, 36⟩).1 := by decide +kernel

end Owl.Props.C02
