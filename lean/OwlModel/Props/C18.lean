/-
C18  White and Black, and left and right, are treated symmetrically.
Rules level (Lemmas/MirrorSpec, 1,700 lines, proved once for an abstract board symmetry and instantiated twice):
`C18_V` / `C18_H` — the mirror image of a valid position is valid, normalisation commutes with mirroring, and on the
normalised position the legal moves are exactly the mirror images, check is preserved (for the swapped colour under V),
"no legal move", insufficient material and the outcome are preserved (winner swapped under V).  H needs "no castling
rights".  The file also proves by kernel-checked counterexamples that the side conditions are necessary.
Implementation level (here): `abs_mirror` / `abs_mirrorH` — the raw-board mirror the harness applies corresponds to the
rules-level mirror; `mirror_v_impl` / `mirror_h_impl` — end to end: the mirrored raw board passes the validation gate,
the legal generator's output on it is exactly the mirror image of its output on the original (through C01), and
`calc_outcome` gives the same classification with the winner swapped (through C07).
-/
import OwlModel.Lemmas.MirrorSpec
import OwlModel.Props.C07

namespace Owl.Props.C18
open Owl Owl.Impl Owl.Lemmas Owl.Props

/-- the implementation-side mirror (top to bottom, colours swapped): what the driver's `mirror v` applies to a raw board -/
def mirrorCellV (c : Cell) : Cell :=
  if c.val = 0 then c else if c.val ≤ 6 then ⟨(c.val + 6) % 13, Nat.mod_lt _ (by decide)⟩
  else ⟨(c.val - 6) % 13, Nat.mod_lt _ (by decide)⟩
def mirrorRightsV (r : Rights) : Rights := ⟨(r.val / 4 + (r.val % 4) * 4) % 16, Nat.mod_lt _ (by decide)⟩
def mirrorRawV (r : RawBoard) : RawBoard :=
  { cells := Tab.ofFn fun s => mirrorCellV (r.cells.get (Sq.flipRank s)), side := r.side.inv,
    castling := mirrorRightsV r.castling, ep := r.ep.map Sq.flipRank, mc := r.mc, mn := r.mn }

theorem absCell_mirror : ∀ c : Cell, absCell (mirrorCellV c) = (absCell c).map mirrorManV := by decide
theorem absRights_mirror : ∀ r : Rights, absRights (mirrorRightsV r) =
    ⟨(absRights r).bk, (absRights r).bq, (absRights r).wk, (absRights r).wq⟩ := by decide

/-- the two mirrors correspond under the abstraction -/
theorem abs_mirror (r : RawBoard) : abs (mirrorRawV r) = mirrorV (abs r) := by
  apply pos_ext
  · apply Tab.ext
    intro s
    rw [abs_board, Tab.get_ofFn]
    show absCell ((Tab.ofFn fun s => mirrorCellV (r.cells.get (Sq.flipRank s))).get s) = _
    rw [Tab.get_ofFn, absCell_mirror]
    show _ = (Tab.ofFn fun s => ((abs r).get (mirrorSqV s)).map mirrorManV).get s
    rw [Tab.get_ofFn, get_abs]
    rfl
  · rfl
  · show absRights (mirrorRightsV r.castling) = _
    rw [absRights_mirror]; rfl
  · rfl
  · rfl
  · rfl

/-- C18 end to end (top-to-bottom mirror with colours swapped): if a raw board passes the validation gate, so does its
mirror image; the legal generator's output on the mirrored board consists exactly of the mirror images of its output on
the original; and `calc_outcome` gives the same classification with the winner swapped -/
theorem mirror_v_impl (raw : RawBoard) (b : Board) (hv : validate raw = .ok b) :
    ∃ b', validate (mirrorRawV raw) = .ok b' ∧ abs b'.r = mirrorV (abs b.r)
      ∧ (∃ l l', legalGen? .all b = some l ∧ legalGen? .all b' = some l'
          ∧ ∀ sm, concMove sm ∈ l' ↔ concMove (mirrorMoveV sm) ∈ l)
      ∧ (∃ o : Option Spec.Outcome, Impl.calcOutcome? b = some (o.map C07.ofSpec)
          ∧ Impl.calcOutcome? b' = some ((o.map swapWinner).map C07.ofSpec))
      ∧ (∀ c, Spec.inCheck (abs b'.r) c.inv = Spec.inCheck (abs b.r) c) := by
  obtain ⟨hvalid, habs, _⟩ := C11.validate_ok raw b hv
  obtain ⟨m1, m2, m3, m4, _, _, m7⟩ := C18_V hvalid
  rw [← abs_mirror] at m1
  obtain ⟨b', hb'⟩ := (C11.validate_ok_iff (mirrorRawV raw)).mpr m1
  obtain ⟨_, habs', _⟩ := C11.validate_ok _ b' hb'
  have hab : abs b'.r = mirrorV (abs b.r) := by rw [habs', abs_mirror, m2, habs]
  have hvb := C02.validate_valid raw b hv
  have hvb' := C02.validate_valid _ b' hb'
  refine ⟨b', hb', hab, ?_, ?_, ?_⟩
  · obtain ⟨l, h1, _, h3⟩ := C01.legalGen_eq_rules b hvb
    obtain ⟨l', h1', _, h3'⟩ := C01.legalGen_eq_rules b' hvb'
    refine ⟨l, l', h1, h1', ?_⟩
    intro sm
    rw [← h3', ← h3, hab, habs]
    exact m3 sm
  · refine ⟨Spec.outcome (abs b.r), C07.calcOutcome_eq b hvb, ?_⟩
    rw [C07.calcOutcome_eq b' hvb', hab, habs, m7]
  · intro c
    rw [hab, habs]; exact m4 c

/-- the left-to-right mirror of a raw board (colours kept) -/
def mirrorRawH (r : RawBoard) : RawBoard :=
  { cells := Tab.ofFn fun s => r.cells.get (Sq.flipFile s), side := r.side,
    castling := r.castling, ep := r.ep.map Sq.flipFile, mc := r.mc, mn := r.mn }

theorem mirrorH_side (p : Spec.Pos) : (mirrorH p).side = p.side := by unfold mirrorH; rfl
theorem mirrorH_rights (p : Spec.Pos) : (mirrorH p).rights = p.rights := by unfold mirrorH; rfl
theorem mirrorH_ep (p : Spec.Pos) : (mirrorH p).ep = p.ep.map mirrorSqH := by unfold mirrorH; rfl
theorem mirrorH_half (p : Spec.Pos) : (mirrorH p).half = p.half := by unfold mirrorH; rfl
theorem mirrorH_full (p : Spec.Pos) : (mirrorH p).full = p.full := by unfold mirrorH; rfl
theorem mirrorH_board (p : Spec.Pos) : (mirrorH p).board = Tab.ofFn fun s => p.get (mirrorSqH s) := by unfold mirrorH; rfl

theorem abs_mirrorH (r : RawBoard) : abs (mirrorRawH r) = mirrorH (abs r) := by
  apply pos_ext
  · rw [mirrorH_board]
    apply Tab.ext
    intro s
    rw [abs_board, Tab.get_ofFn, Tab.get_ofFn, get_abs]
    show absCell ((Tab.ofFn fun s => r.cells.get (Sq.flipFile s)).get s) = _
    rw [Tab.get_ofFn]
    rfl
  · rw [mirrorH_side, abs_side, abs_side]; unfold mirrorRawH; rfl
  · rw [mirrorH_rights, abs_rights, abs_rights]; unfold mirrorRawH; rfl
  · rw [mirrorH_ep, abs_ep, abs_ep]; unfold mirrorRawH mirrorSqH; rfl
  · rw [mirrorH_half, abs_half, abs_half]; unfold mirrorRawH; rfl
  · rw [mirrorH_full, abs_full, abs_full]; unfold mirrorRawH; rfl

theorem absRights_zero : absRights (0 : Rights) = Spec.RightsSet.none := by decide

/-- C18 end to end (left-to-right mirror) for positions without castling rights -/
theorem mirror_h_impl (raw : RawBoard) (b : Board) (hv : validate raw = .ok b) (hr : raw.castling = 0) :
    ∃ b', validate (mirrorRawH raw) = .ok b' ∧ abs b'.r = mirrorH (abs b.r)
      ∧ (∃ l l', legalGen? .all b = some l ∧ legalGen? .all b' = some l'
          ∧ ∀ sm, concMove sm ∈ l' ↔ concMove (mirrorMoveH sm) ∈ l)
      ∧ Impl.calcOutcome? b' = Impl.calcOutcome? b
      ∧ (∀ c, Spec.inCheck (abs b'.r) c = Spec.inCheck (abs b.r) c) := by
  obtain ⟨hvalid, habs, _⟩ := C11.validate_ok raw b hv
  have hrn : (abs raw).rights = Spec.RightsSet.none := by rw [abs_rights, hr]; exact absRights_zero
  obtain ⟨m1, m2, m3, m4, _, _, m7⟩ := C18_H hvalid hrn
  rw [← abs_mirrorH] at m1
  obtain ⟨b', hb'⟩ := (C11.validate_ok_iff (mirrorRawH raw)).mpr m1
  obtain ⟨_, habs', _⟩ := C11.validate_ok _ b' hb'
  have hab : abs b'.r = mirrorH (abs b.r) := by rw [habs', abs_mirrorH, m2, habs]
  have hvb := C02.validate_valid raw b hv
  have hvb' := C02.validate_valid _ b' hb'
  refine ⟨b', hb', hab, ?_, ?_, ?_⟩
  · obtain ⟨l, h1, _, h3⟩ := C01.legalGen_eq_rules b hvb
    obtain ⟨l', h1', _, h3'⟩ := C01.legalGen_eq_rules b' hvb'
    refine ⟨l, l', h1, h1', ?_⟩
    intro sm
    rw [← h3', ← h3, hab, habs]
    exact m3 sm
  · rw [C07.calcOutcome_eq b' hvb', C07.calcOutcome_eq b hvb, hab, habs, m7]
  · intro c
    rw [hab, habs]; exact m4 c

/-- rules-level statement (proved in Lemmas/MirrorSpec), restated so that the evidence lists it with this property -/
theorem rules_mirror_v {p : Spec.Pos} (hv : Spec.ValidRaw p = true) :
    Spec.ValidRaw (mirrorV p) = true
    ∧ Spec.normalise (mirrorV p) = mirrorV (Spec.normalise p)
    ∧ (∀ m, m ∈ Spec.legalMoves (mirrorV (Spec.normalise p)) ↔ mirrorMoveV m ∈ Spec.legalMoves (Spec.normalise p))
    ∧ (∀ c, Spec.inCheck (mirrorV (Spec.normalise p)) c.inv = Spec.inCheck (Spec.normalise p) c)
    ∧ (Spec.legalMoves (mirrorV (Spec.normalise p))).isEmpty = (Spec.legalMoves (Spec.normalise p)).isEmpty
    ∧ Spec.insufficient (mirrorV (Spec.normalise p)) = Spec.insufficient (Spec.normalise p)
    ∧ Spec.outcome (mirrorV (Spec.normalise p)) = (Spec.outcome (Spec.normalise p)).map swapWinner := C18_V hv

theorem rules_mirror_h {p : Spec.Pos} (hv : Spec.ValidRaw p = true) (hr : p.rights = Spec.RightsSet.none) :
    Spec.ValidRaw (mirrorH p) = true
    ∧ Spec.normalise (mirrorH p) = mirrorH (Spec.normalise p)
    ∧ (∀ m, m ∈ Spec.legalMoves (mirrorH (Spec.normalise p)) ↔ mirrorMoveH m ∈ Spec.legalMoves (Spec.normalise p))
    ∧ (∀ c, Spec.inCheck (mirrorH (Spec.normalise p)) c = Spec.inCheck (Spec.normalise p) c)
    ∧ (Spec.legalMoves (mirrorH (Spec.normalise p))).isEmpty = (Spec.legalMoves (Spec.normalise p)).isEmpty
    ∧ Spec.insufficient (mirrorH (Spec.normalise p)) = Spec.insufficient (Spec.normalise p)
    ∧ Spec.outcome (mirrorH (Spec.normalise p)) = Spec.outcome (Spec.normalise p) := C18_H hv hr

end Owl.Props.C18
