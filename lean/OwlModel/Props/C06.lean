/-
C06  Semilegal generation, semilegal validation and well-formedness agree.
`semilegalGen_all_iff`: on a valid position a move is produced by the semilegal generator iff it is well-formed and
`is_semilegal` accepts it; `semilegalGen_eq_pseudo`: that set is exactly the rules' pseudo-legal moves
(`Spec.pseudoMoves`, via Lemmas/PseudoSpec); `semilegalGen_iff` + `whichClass_spec`: the capture / simple /
simple-no-promote / simple-promote generators return exactly the corresponding subsets, so the full output is the
disjoint union of the capture and non-capture outputs and the non-capture output of its promotion and non-promotion
parts; `semilegalGen_nodup`: no duplicates; `generated_names_piece`: every generated move is well-formed and names the
man on its source square.
`move_new_iff_geom` (Lemmas/WfGeom): `Move::new` accepts exactly the geometrically possible (kind, piece, source,
destination) tuples, for all 532,480 tuples.
-/
import OwlModel.Lemmas.GenNodup
import OwlModel.Lemmas.PseudoSpec
import OwlModel.Props.C02
import OwlModel.Lemmas.WfGeom

namespace Owl.Props.C06
open Owl Owl.Impl Owl.Lemmas Owl.Props

/-- which moves each of the five public generators is meant to return -/
def whichClass (b : Board) (w : Which) (mv : Move) : Bool :=
  match w with
  | .all => inClass b mv true true true true
  | .capture => inClass b mv false true false false
  | .simple => inClass b mv true false true true
  | .simpleNoPromote => inClass b mv true false false true
  | .simplePromote => inClass b mv false false true false

theorem semilegalGen_eq (w : Which) (b : Board) :
    semilegalGen w b = (match w with
      | .all => genWith b b.r.side true true true true
      | .capture => genWith b b.r.side false true false false
      | .simple => genWith b b.r.side true false true true
      | .simpleNoPromote => genWith b b.r.side true false false true
      | .simplePromote => genWith b b.r.side false false true false) := by
  cases w <;> rfl

/-- C06: each semilegal generator returns exactly the well-formed semilegal moves of its class, each once -/
theorem semilegalGen_iff (b : Board) (hv : Valid b) (w : Which) (mv : Move) :
    mv ∈ semilegalGen w b ↔ (mv.isWellFormed = true ∧ isSemilegal b mv = true ∧ whichClass b w mv = true) := by
  rw [semilegalGen_eq]
  cases w <;> simp only [whichClass] <;> rw [mem_genWith_iff b hv] <;> unfold SL <;> exact and_assoc

theorem semilegalGen_nodup (b : Board) (hv : Valid b) (w : Which) : (semilegalGen w b).Nodup := by
  rw [semilegalGen_eq]
  cases w <;> exact genWith_nodup b hv _ _ _ _

theorem inClass_all (b : Board) (mv : Move) (h : mv.kind ≠ .null) : inClass b mv true true true true = true := by
  unfold inClass
  cases hk : mv.kind <;> simp [hk] at h ⊢

/-- C06: the full generator returns exactly the well-formed semilegal moves -/
theorem semilegalGen_all_iff (b : Board) (hv : Valid b) (mv : Move) :
    mv ∈ semilegalGen .all b ↔ (mv.isWellFormed = true ∧ isSemilegal b mv = true) := by
  rw [semilegalGen_iff b hv]
  constructor
  · intro ⟨h1, h2, _⟩; exact ⟨h1, h2⟩
  · intro ⟨h1, h2⟩
    exact ⟨h1, h2, inClass_all b mv (semilegal_base b mv h2).1⟩

/-- C06: … and that set is exactly the rules' pseudo-legal moves -/
theorem semilegalGen_eq_pseudo (b : Board) (hv : Valid b) (sm : Spec.Move) :
    sm ∈ Spec.pseudoMoves (abs b.r) ↔ concMove sm ∈ semilegalGen .all b := by
  rw [semilegalGen_all_iff b hv, pseudo_iff_semilegal b hv]


/-- a capture: the destination holds a man, or the move is en passant -/
def isCapture (b : Board) (mv : Move) : Bool := decide (mv.kind = .ep) || decide (b.get mv.dst ≠ Cell.empty)

/-- C06: the classes of the five generators, for a semilegal move (the destination of a castling or double step is
empty, so "capture" is decided by the destination square or the en-passant kind) -/
theorem whichClass_spec (b : Board) (hv : Valid b) (mv : Move) (hwf : mv.isWellFormed = true)
    (hsl : isSemilegal b mv = true) :
    whichClass b .all mv = true
    ∧ whichClass b .capture mv = isCapture b mv
    ∧ whichClass b .simple mv = !isCapture b mv
    ∧ whichClass b .simpleNoPromote mv = (!isCapture b mv && !mv.kind.promote.isSome)
    ∧ whichClass b .simplePromote mv = (!isCapture b mv && mv.kind.promote.isSome) := by
  obtain ⟨hknull, _, hcol, _⟩ := semilegal_base b mv hsl
  have ok := makeOk_of_semilegal b mv hv.shape hwf hsl
  obtain ⟨_, color, piece, hcol', _, _, hK, hQ, _⟩ := wf_facts mv hwf hknull
  have hcc : color = b.r.side := by rw [hcol] at hcol'; exact (Option.some.inj hcol').symm
  subst hcc
  refine ⟨inClass_all b mv hknull, ?_⟩
  unfold whichClass inClass isCapture MakeOk at *
  cases hk : mv.kind <;> simp only [hk] at ok hknull ⊢
  · exact absurd rfl hknull
  · by_cases he : b.get mv.dst = Cell.empty <;> simp [he, Kind.promote]
  · have hd : b.get mv.dst = Cell.empty := by rw [(hK hk).2]; exact ok.2.2.1
    simp [hd, Kind.promote]
  · have hd : b.get mv.dst = Cell.empty := by rw [(hQ hk).2]; exact ok.2.1
    simp [hd, Kind.promote]
  · simp [ok.2.1, Kind.promote]
  · simp [Kind.promote]
  all_goals (by_cases he : b.get mv.dst = Cell.empty <;> simp [he, Kind.promote])

/-- C06: every generated move is well-formed and names the man actually standing on its source square -/
theorem generated_names_piece (b : Board) (hv : Valid b) (w : Which) (mv : Move) (h : mv ∈ semilegalGen w b) :
    mv.isWellFormed = true ∧ b.get mv.src = mv.cell := by
  obtain ⟨h1, h2, _⟩ := (semilegalGen_iff b hv w mv).mp h
  exact ⟨h1, (semilegal_base b mv h2).2.1⟩

/-- C06: move construction accepts exactly the (kind, piece, source, destination) tuples that are geometrically
possible for that kind, so validation never sees a tuple it cannot handle -/
theorem move_new_iff_geom (k : Kind) (c : Cell) (s d : Sq) :
    (Move.new? k c s d).isSome = Spec.geomPossible k (absCell c) s d ∧
    Move.isWellFormed ⟨k, c, s, d⟩ = Spec.geomPossible k (absCell c) s d :=
  ⟨new?_iff k c s d, wf_iff_geom k c s d⟩

end Owl.Props.C06
