/-
C10 (continued): the legal-checking UCI reader in rule terms.
-/
import OwlModel.Props.C01

namespace Owl.Props.C10
open Owl Owl.Impl Owl.Lemmas Owl.Props

/-- `Move::from_uci_legal` returns `mv` exactly when `mv` is spelled by the string and is a legal move of the rules:
pseudo-legal (`Spec.pseudoMoves`) and not leaving the mover's king attacked in `Spec.apply` of the position -/
theorem uci_legal_iff_rules (b : Board) (hv : Valid b) (s : Bytes) (src dst : Sq) (p : Option Piece)
    (hparse : parseUci s = .ok (.move src dst p)) (mv : Move) :
    moveFromUciLegal s b = .ok mv ↔
      (uciOfMove mv = .move src dst p ∧ ∃ sm, concMove sm = mv ∧ sm ∈ Spec.legalMoves (abs b.r)) := by
  rw [uci_legal_iff b hv.shape s src dst p hparse mv]
  obtain ⟨l, h1, _, h3⟩ := C01.legalGen_eq_rules b hv
  obtain ⟨l2, g1, _, g3⟩ := C01.legalGen_spec b hv .all
  rw [h1] at g1; cases g1
  constructor
  · intro ⟨hwf, hsl, hleg, hu⟩
    obtain ⟨sm, _, hc, _⟩ := semilegal_abs b hv mv hwf hsl
    refine ⟨hu, sm, hc, (h3 sm).mpr ?_⟩
    rw [hc]
    exact (g3 mv).mpr ⟨hwf, hsl, C06.inClass_all b mv (semilegal_base b mv hsl).1, hleg⟩
  · intro ⟨hu, sm, hc, hm⟩
    have := (h3 sm).mp hm
    rw [hc] at this
    obtain ⟨hwf, hsl, _, hleg⟩ := (g3 mv).mp this
    exact ⟨hwf, hsl, hleg, hu⟩

end Owl.Props.C10
