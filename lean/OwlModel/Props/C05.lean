/-
C05  Incremental Zobrist hash and occupancy sets equal a from-scratch recomputation.
`Consistent b` is literally `b = buildBoard b.r`: stored hash = `RawBoard::zobrist_hash` of the raw position,
stored colour / piece / combined sets = the sets rebuilt from the squares.
-/
import OwlModel.Lemmas.Unmake
import OwlModel.Props.C04

namespace Owl.Props.C05
open Owl Owl.Impl Owl.Lemmas

/-- the validation gate establishes it -/
theorem validate_consistent (raw : RawBoard) (b : Board) (h : validate raw = .ok b) : Consistent b :=
  C04.validate_consistent raw b h

/-- applying a move preserves it (all ten move kinds) -/
theorem make_preserves (b : Board) (mv : Move) (hb : Consistent b) (ok : MakeOk b mv) :
    Consistent (makeMove b mv).1 := make_consistent b mv hb ok

/-- undoing returns to the (consistent) board before -/
theorem unmake_preserves (b : Board) (mv : Move) (hb : Consistent b) (ok : MakeOk b mv) :
    Consistent (unmakeMove (makeMove b mv).1 mv (makeMove b mv).2) := by
  rw [unmake_make b mv hb ok]; exact hb

/-! ### every apply/undo history -/

inductive Op | make (mv : Move) | unmake

/-- the undo stack as kept by chains, walkers and search code: (move, undo record) newest first -/
abbrev Stack := List (Move × RawUndo)

/-- one step; `unmake` on an empty stack does nothing -/
def step (st : Board × Stack) : Op → Board × Stack
  | .make mv => let (b', u) := makeMove st.1 mv; (b', (mv, u) :: st.2)
  | .unmake => match st.2 with
    | [] => st
    | (mv, u) :: rest => (unmakeMove st.1 mv u, rest)

/-- ghost description of a stack: the boards the moves were applied to -/
def StackOk : Stack → Board → Prop
  | [], _ => True
  | (mv, u) :: rest, cur =>
    ∃ prev, Consistent prev ∧ MakeOk prev mv ∧ cur = (makeMove prev mv).1 ∧ u = (makeMove prev mv).2 ∧ StackOk rest prev

/-- every `make` in the history meets the precondition of `make_move_unchecked` in the state it is applied to -/
def HistoryOk : Board × Stack → List Op → Prop
  | _, [] => True
  | st, .make mv :: ops => MakeOk st.1 mv ∧ HistoryOk (step st (.make mv)) ops
  | st, .unmake :: ops => HistoryOk (step st .unmake) ops

theorem step_inv (st : Board × Stack) (op : Op) (hc : Consistent st.1) (hs : StackOk st.2 st.1)
    (hop : match op with | .make mv => MakeOk st.1 mv | .unmake => True) :
    Consistent (step st op).1 ∧ StackOk (step st op).2 (step st op).1 := by
  cases op with
  | make mv =>
    simp only [step]
    exact ⟨make_consistent st.1 mv hc hop, st.1, hc, hop, rfl, rfl, hs⟩
  | unmake =>
    obtain ⟨b, stack⟩ := st
    cases stack with
    | nil => exact ⟨hc, hs⟩
    | cons e rest =>
      obtain ⟨mv, u⟩ := e
      obtain ⟨prev, hp, hok, hcur, hu, hrest⟩ := hs
      simp only [step]
      simp only at hcur hu
      subst hcur; subst hu
      rw [unmake_make prev mv hp hok]
      exact ⟨hp, hrest⟩

/-- after any finite history of moves applied and undone from any consistent start, the stored hash and sets equal
the from-scratch recomputation -/
theorem history_consistent : ∀ (ops : List Op) (st : Board × Stack), Consistent st.1 → StackOk st.2 st.1 →
    HistoryOk st ops → Consistent (ops.foldl step st).1
  | [], _, hc, _, _ => hc
  | .make mv :: ops, st, hc, hs, ⟨hok, hrest⟩ => by
    have := step_inv st (.make mv) hc hs hok
    exact history_consistent ops _ this.1 this.2 hrest
  | .unmake :: ops, st, hc, hs, hrest => by
    have := step_inv st .unmake hc hs trivial
    exact history_consistent ops _ this.1 this.2 hrest

/-! ### consequences for the hash -/

/-- same squares, side, rights and en-passant mark ⇒ same hash, however the positions were reached; the counters are ignored -/
theorem hash_depends_only_on_key (b b' : Board) (hb : Consistent b) (hb' : Consistent b')
    (h1 : b.r.cells = b'.r.cells) (h2 : b.r.side = b'.r.side) (h3 : b.r.castling = b'.r.castling)
    (h4 : b.r.ep = b'.r.ep) : b.hash = b'.hash := by
  rw [((consistent_iff b).mp hb).1, ((consistent_iff b').mp hb').1, h1, h2, h3, h4]

/-! key-table facts, decided by the kernel on the table extracted from the build under test -/

theorem key_empty_zero (s : Sq) : zPieces 0 s = 0#64 := zPieces_empty s
theorem keys_distinct_per_square : ∀ (s : Sq) (c c' : Cell), c ≠ c' → zPieces c s ≠ zPieces c' s := by decide +kernel
theorem move_side_key_nonzero : zMoveSide ≠ 0#64 := by decide +kernel
theorem castling_keys_distinct : ∀ (r r' : Rights), r ≠ r' → zCastling r ≠ zCastling r' := by decide +kernel
theorem castling_keys_linear : ∀ (r r' : Rights), (r.val &&& r'.val = 0) →
    zCastling ⟨(r.val ||| r'.val) % 16, Nat.mod_lt _ (by decide)⟩ = zCastling r ^^^ zCastling r' := by decide +kernel
theorem ep_keys_distinct : ∀ (e e' : Sq), e ≠ e' → zEnpassant e ≠ zEnpassant e' := by decide +kernel
theorem ep_keys_nonzero : ∀ (e : Sq), zEnpassant e ≠ 0#64 := by decide +kernel
theorem castling_delta_keys (c : Color) :
    zCastlingDelta c .king = zPieces (Cell.mk c .king) (Sq.mk fileE (castlingRank c))
        ^^^ zPieces (Cell.mk c .king) (Sq.mk fileG (castlingRank c))
        ^^^ zPieces (Cell.mk c .rook) (Sq.mk fileH (castlingRank c))
        ^^^ zPieces (Cell.mk c .rook) (Sq.mk fileF (castlingRank c)) := (castle_delta c).1

theorem xor_ne_of_ne {a k k' : BB} (h : k ≠ k') : a ^^^ k ≠ a ^^^ k' := by
  intro e; apply h
  have := congrArg (fun x => a ^^^ x) e
  simpa [← BitVec.xor_assoc] using this

/-- two positions differing in exactly one man on one square hash differently -/
theorem diff_one_square (r : RawBoard) (s : Sq) (c' : Cell) (h : r.get s ≠ c') :
    (r.put s c').zobrist ≠ r.zobrist := by
  rw [zobrist_eq, zobrist_eq]
  simp only [RawBoard.put, cellsHash_put, cellKey_eq]
  have hk := keys_distinct_per_square s (r.cells.get s) c' h
  intro e
  apply hk
  have : ∀ (H C k k' : BB), H ^^^ (C ^^^ k ^^^ k') = H ^^^ C → k = k' := by
    intro H C k k' e
    have e2 : H ^^^ (C ^^^ k ^^^ k') = (H ^^^ C) ^^^ (k ^^^ k') := by grind
    have e3 : (H ^^^ C) ^^^ (k ^^^ k') = (H ^^^ C) ^^^ 0#64 := by rw [← e2, e]; simp
    exact BitVec.xor_eq_zero_iff.mp ((BitVec.xor_right_inj _).mp e3)
  exact this _ _ _ _ e

/-- … in the side to move -/
theorem diff_side (r : RawBoard) : ({ r with side := r.side.inv } : RawBoard).zobrist ≠ r.zobrist := by
  rw [zobrist_eq, zobrist_eq]
  simp only [headerHash_flip]
  have := move_side_key_nonzero
  intro e; apply this
  have : ∀ (H C M : BB), H ^^^ M ^^^ C = H ^^^ C → M = 0#64 := by
    intro H C M e
    have e2 : H ^^^ M ^^^ C = (H ^^^ C) ^^^ M := by grind
    have e3 : (H ^^^ C) ^^^ M = (H ^^^ C) ^^^ 0#64 := by rw [← e2, e]; simp
    exact (BitVec.xor_right_inj _).mp e3
  exact this _ _ _ e

/-- … in the castling rights (in particular in one right) -/
theorem diff_castling (r : RawBoard) (k' : Rights) (h : r.castling ≠ k') :
    ({ r with castling := k' } : RawBoard).zobrist ≠ r.zobrist := by
  rw [zobrist_eq, zobrist_eq]
  simp only [headerHash_change r.side r.ep r.ep r.castling k']
  have := castling_keys_distinct r.castling k' h
  intro e; apply this
  have : ∀ (H E C K K' : BB), H ^^^ E ^^^ E ^^^ K ^^^ K' ^^^ C = H ^^^ C → K = K' := by
    intro H E C K K' e
    have e2 : H ^^^ E ^^^ E ^^^ K ^^^ K' ^^^ C = (H ^^^ C) ^^^ (K ^^^ K') := by grind
    have e3 : (H ^^^ C) ^^^ (K ^^^ K') = (H ^^^ C) ^^^ 0#64 := by rw [← e2, e]; simp
    exact BitVec.xor_eq_zero_iff.mp ((BitVec.xor_right_inj _).mp e3)
  exact this _ _ _ _ _ e

/-- … in the en-passant mark (one file vs another, or mark vs no mark) -/
theorem diff_ep (r : RawBoard) (e' : Option Sq) (h : r.ep ≠ e') :
    ({ r with ep := e' } : RawBoard).zobrist ≠ r.zobrist := by
  rw [zobrist_eq, zobrist_eq]
  simp only [headerHash_change r.side r.ep e' r.castling r.castling]
  have hk : epKey r.ep ≠ epKey e' := by
    cases h1 : r.ep <;> cases h2 : e' <;> simp only [epKey]
    · exact absurd (h1.trans h2.symm) h
    · exact (ep_keys_nonzero _).symm
    · exact ep_keys_nonzero _
    · rename_i a b
      exact ep_keys_distinct a b (fun e => h (by rw [h1, h2, e]))
  intro e; apply hk
  have : ∀ (H C K E E' : BB), H ^^^ E ^^^ E' ^^^ K ^^^ K ^^^ C = H ^^^ C → E = E' := by
    intro H C K E E' e
    have e2 : H ^^^ E ^^^ E' ^^^ K ^^^ K ^^^ C = (H ^^^ C) ^^^ (E ^^^ E') := by grind
    have e3 : (H ^^^ C) ^^^ (E ^^^ E') = (H ^^^ C) ^^^ 0#64 := by rw [← e2, e]; simp
    exact BitVec.xor_eq_zero_iff.mp ((BitVec.xor_right_inj _).mp e3)
  exact this _ _ _ _ _ e

/-! non-vacuity -/
example : Consistent (buildBoard C04.initialRaw) := rfl
example : (makeMove (buildBoard C04.initialRaw) ⟨.double, 1, 52, 36⟩).1.hash
    = (buildBoard (makeMove (buildBoard C04.initialRaw) ⟨.double, 1, 52, 36⟩).1.r).hash := by decide +kernel

end Owl.Props.C05
