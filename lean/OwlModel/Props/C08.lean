/-
C08  FEN formatting and FEN parsing are mutually inverse.

`fen_roundtrip`            : for every raw board whose en-passant mark lies on the rank of a pawn that has just made a
                             double step (for the side to move) and whose two counters fit `u16`, `parseFen (fmtFen r) = .ok r`
                             (all six fields, `RawBoard` equality).
`fen_roundtrip_iff`        : those three hypotheses are also necessary.
`fen_parse_format_parse`   : every board the parser returns satisfies them, so parse → format → parse is stable.
Intermediate facts: `cells_roundtrip` (run-length encoding of empty squares, `/` separators), `counter_roundtrip`
(decimal `u16`), `splitSpaces_six` / `fmtFen_split` (six fields on single spaces), `ep_roundtrip`, `fmtFen_ascii`.
-/
import OwlModel.Props.C12
import OwlModel.Props.C20
import OwlModel.Props.C04
import OwlModel.Lemmas.Valid
namespace Owl.Props.C08
open Owl Owl.Impl Owl.Lemmas Owl.Props

/-! ## `str::split(' ')` -/

/-- recursive reference form of `splitSpaces` -/
def splitRef : Bytes → Bytes → List Bytes
  | [], cur => [cur.reverse]
  | b :: t, cur => if b = 32 then cur.reverse :: splitRef t [] else splitRef t (b :: cur)

def splitStep (st : Bytes × List Bytes) (b : Nat) : Bytes × List Bytes :=
  if b = 32 then ([], st.1.reverse :: st.2) else (b :: st.1, st.2)

theorem splitSpaces_fold (s : Bytes) :
    splitSpaces s = ((s.foldl splitStep ([], [])).1.reverse :: (s.foldl splitStep ([], [])).2).reverse := rfl

theorem split_fold : ∀ (s : Bytes) (cur : Bytes) (acc : List Bytes),
    ((s.foldl splitStep (cur, acc)).1.reverse :: (s.foldl splitStep (cur, acc)).2).reverse
      = acc.reverse ++ splitRef s cur
  | [], cur, acc => by simp [splitRef]
  | b :: t, cur, acc => by
    rw [List.foldl_cons]
    by_cases hb : b = 32
    · have : splitStep (cur, acc) b = ([], cur.reverse :: acc) := by simp [splitStep, hb]
      rw [this, split_fold t]
      simp [splitRef, hb]
    · have : splitStep (cur, acc) b = (b :: cur, acc) := by simp [splitStep, hb]
      rw [this, split_fold t]
      simp [splitRef, hb]

theorem splitSpaces_ref (s : Bytes) : splitSpaces s = splitRef s [] := by
  rw [splitSpaces_fold, split_fold]; rfl

theorem splitRef_append : ∀ (a rest cur : Bytes), 32 ∉ a →
    splitRef (a ++ 32 :: rest) cur = (cur.reverse ++ a) :: splitRef rest []
  | [], rest, cur, _ => by simp [splitRef]
  | b :: t, rest, cur, h => by
    have hb : b ≠ 32 := fun e => h (by simp [e])
    have ht : 32 ∉ t := fun e => h (by simp [e])
    simp only [List.cons_append, splitRef, hb, if_false]
    rw [splitRef_append t rest (b :: cur) ht]
    simp

theorem splitRef_last : ∀ (a cur : Bytes), 32 ∉ a → splitRef a cur = [cur.reverse ++ a]
  | [], cur, _ => by simp [splitRef]
  | b :: t, cur, h => by
    have hb : b ≠ 32 := fun e => h (by simp [e])
    have ht : 32 ∉ t := fun e => h (by simp [e])
    simp only [splitRef, hb, if_false]
    rw [splitRef_last t (b :: cur) ht]
    simp

/-- a text without spaces is a single field -/
theorem splitSpaces_single (a : Bytes) (h : 32 ∉ a) : splitSpaces a = [a] := by
  rw [splitSpaces_ref, splitRef_last a [] h]; rfl

/-- splitting at the first space -/
theorem splitSpaces_cons (a rest : Bytes) (h : 32 ∉ a) :
    splitSpaces (a ++ 32 :: rest) = a :: splitSpaces rest := by
  rw [splitSpaces_ref, splitRef_append a rest [] h, splitSpaces_ref]; rfl

/-- the six-field split on single spaces -/
theorem splitSpaces_six (p0 p1 p2 p3 p4 p5 : Bytes)
    (h0 : 32 ∉ p0) (h1 : 32 ∉ p1) (h2 : 32 ∉ p2) (h3 : 32 ∉ p3) (h4 : 32 ∉ p4) (h5 : 32 ∉ p5) :
    splitSpaces (p0 ++ 32 :: (p1 ++ 32 :: (p2 ++ 32 :: (p3 ++ 32 :: (p4 ++ 32 :: p5)))))
      = [p0, p1, p2, p3, p4, p5] := by
  rw [splitSpaces_cons _ _ h0, splitSpaces_cons _ _ h1, splitSpaces_cons _ _ h2,
    splitSpaces_cons _ _ h3, splitSpaces_cons _ _ h4, splitSpaces_single _ h5]

/-! ## decimal counters -/

theorem fmtNatAux_value : ∀ (fuel n : Nat) (acc : Bytes), n < 10 ^ fuel →
    (fmtNatAux fuel n acc).foldl (fun a b => a * 10 + (b - 48)) 0
      = acc.foldl (fun a b => a * 10 + (b - 48)) n
  | 0, n, acc, h => by
    have : n = 0 := by simpa using h
    subst this; rfl
  | fuel + 1, n, acc, h => by
    have hp : 10 ^ (fuel + 1) = 10 ^ fuel * 10 := Nat.pow_succ ..
    simp only [fmtNatAux]
    split
    · rw [List.foldl_cons]
      have : 0 * 10 + (48 + n % 10 - 48) = n := by omega
      rw [this]
    · rw [fmtNatAux_value fuel (n / 10) _ (by omega), List.foldl_cons]
      have : n / 10 * 10 + (48 + n % 10 - 48) = n := by omega
      rw [this]

theorem fmtNatAux_digits : ∀ (fuel n : Nat) (acc : Bytes), (∀ b ∈ acc, isDigit b = true) →
    ∀ b ∈ fmtNatAux fuel n acc, isDigit b = true
  | 0, n, acc, h => by simpa [fmtNatAux] using h
  | fuel + 1, n, acc, h => by
    have hd : isDigit (48 + n % 10) = true := by simp [isDigit]; omega
    have h' : ∀ b ∈ (48 + n % 10) :: acc, isDigit b = true := by
      intro b hb
      rcases List.mem_cons.mp hb with e | e
      · rw [e]; exact hd
      · exact h b e
    simp only [fmtNatAux]
    split
    · exact h'
    · exact fmtNatAux_digits fuel (n / 10) _ h'

theorem fmtNatAux_ne_nil : ∀ (fuel n : Nat) (acc : Bytes), acc ≠ [] → fmtNatAux fuel n acc ≠ []
  | 0, n, acc, h => by simpa [fmtNatAux] using h
  | fuel + 1, n, acc, h => by
    simp only [fmtNatAux]
    split
    · simp
    · exact fmtNatAux_ne_nil fuel (n / 10) _ (by simp)

theorem fmtNat_digits (n : Nat) : ∀ b ∈ fmtNat n, isDigit b = true :=
  fmtNatAux_digits 32 n [] (by simp)

theorem fmtNatAux_succ_ne_nil (fuel n : Nat) (acc : Bytes) : fmtNatAux (fuel + 1) n acc ≠ [] := by
  simp only [fmtNatAux]
  split
  · simp
  · exact fmtNatAux_ne_nil _ _ _ (by simp)

theorem fmtNat_ne_nil (n : Nat) : fmtNat n ≠ [] := fmtNatAux_succ_ne_nil 31 n []

theorem fmtNat_value (n : Nat) (h : n < 10 ^ 32) :
    (fmtNat n).foldl (fun a b => a * 10 + (b - 48)) 0 = n := by
  unfold fmtNat; rw [fmtNatAux_value 32 n [] h]; rfl

/-- `u16::from_str` on a non-empty all-digit text -/
theorem parseU16_digits (l : Bytes) (hne : l ≠ []) (hd : ∀ b ∈ l, isDigit b = true) :
    parseU16 l = if l.foldl (fun a b => a * 10 + (b - 48)) 0 ≤ 65535
      then some (l.foldl (fun a b => a * 10 + (b - 48)) 0) else none := by
  unfold parseU16
  dsimp only
  split
  · rename_i rest
    have := hd 43 (by simp)
    simp [isDigit] at this
  · have h1 : l.isEmpty = false := by cases l <;> simp_all
    have h2 : l.all isDigit = true := List.all_eq_true.mpr hd
    simp [h1, h2]

/-- decimal round trip for counters in `u16` range -/
theorem counter_roundtrip (n : Nat) (h : n ≤ 65535) : parseU16 (fmtNat n) = some n := by
  rw [parseU16_digits _ (fmtNat_ne_nil n) (fmtNat_digits n),
    fmtNat_value n (Nat.lt_of_le_of_lt h (by decide))]
  simp [h]

theorem parseU16_le (s : Bytes) (v : Nat) (h : parseU16 s = some v) : v ≤ 65535 := by
  unfold parseU16 at h
  dsimp only at h
  repeat' (split at h)
  all_goals first
    | (cases h; done)
    | (injection h with h; subst h; assumption)


/-! ## board field: parser steps -/

theorem loop_digit (e : Nat) (rest : Bytes) (file rank pos : Nat) (cells : Tab 64 Cell)
    (h1 : 1 ≤ e) (h8 : file + e ≤ 8) :
    parseCellsLoop ((48 + e) :: rest) file rank pos cells = parseCellsLoop rest (file + e) rank (pos + e) cells := by
  have hd : 49 ≤ 48 + e ∧ 48 + e ≤ 56 := by omega
  have ho : ¬ (file + e > 8) := by omega
  have he : 48 + e - 48 = e := by omega
  rw [parseCellsLoop]
  simp only [hd, and_self, if_true, he, ho, if_false]

theorem loop_slash (rest : Bytes) (rank pos : Nat) (cells : Tab 64 Cell) (hr : rank + 1 < 8) :
    parseCellsLoop (47 :: rest) 8 rank pos cells = parseCellsLoop rest 0 (rank + 1) pos cells := by
  have ho : ¬ (rank + 1 ≥ 8) := by omega
  rw [parseCellsLoop]
  simp [ho]

theorem cellByte_facts : ∀ x : Cell, x ≠ Cell.empty →
    ¬ (49 ≤ cellByte x ∧ cellByte x ≤ 56) ∧ cellByte x ≠ 47 ∧ cellOfByte (cellByte x) = some x := by
  decide

theorem loop_cell (x : Cell) (hx : x ≠ Cell.empty) (rest : Bytes) (file rank pos : Nat) (cells : Tab 64 Cell)
    (hf : file < 8) (hp : pos < 64) :
    parseCellsLoop (cellByte x :: rest) file rank pos cells
      = parseCellsLoop rest (file + 1) rank (pos + 1) (cells.put ⟨pos, hp⟩ x) := by
  obtain ⟨h1, h2, h3⟩ := cellByte_facts x hx
  have hf' : ¬ file ≥ 8 := by omega
  rw [parseCellsLoop]
  simp only [h1, if_false, h2, hf', h3, hp, dite_true]

/-- the loop on a concatenation continues from the state reached on the first part -/
theorem loop_append : ∀ (a b : Bytes) (file rank pos : Nat) (cells : Tab 64 Cell) (st : Nat × Nat × Nat × Tab 64 Cell),
    parseCellsLoop a file rank pos cells = .ok st →
    parseCellsLoop (a ++ b) file rank pos cells = parseCellsLoop b st.1 st.2.1 st.2.2.1 st.2.2.2
  | [], b, file, rank, pos, cells, st, h => by
    simp only [parseCellsLoop] at h
    injection h with h; subst h; rfl
  | x :: a, b, file, rank, pos, cells, st, h => by
    rw [List.cons_append]
    rw [parseCellsLoop] at h ⊢
    by_cases hd : 49 ≤ x ∧ x ≤ 56
    · simp only [hd, and_self, if_true] at h ⊢
      by_cases ho : file + (x - 48) > 8
      · simp only [ho, if_true] at h; split at h <;> cases h
      · simp only [ho, if_false] at h ⊢
        exact loop_append a b _ _ _ _ st h
    · simp only [hd, if_false] at h ⊢
      by_cases hs : x = 47
      · simp only [hs, if_true] at h ⊢
        by_cases hf8 : file < 8
        · simp only [hf8, if_true] at h; split at h <;> cases h
        · simp only [hf8, if_false] at h ⊢
          by_cases hov : rank + 1 ≥ 8
          · simp only [hov, if_true] at h; cases h
          · simp only [hov, if_false] at h ⊢
            exact loop_append a b _ _ _ _ st h
      · simp only [hs, if_false] at h ⊢
        by_cases hf8 : file ≥ 8
        · simp only [hf8, if_true] at h; split at h <;> cases h
        · simp only [hf8, if_false] at h ⊢
          cases hc : cellOfByte x with
          | none => simp only [hc] at h; cases h
          | some c =>
            simp only [hc] at h ⊢
            by_cases hp : pos < 64
            · simp only [hp, dite_true] at h ⊢
              exact loop_append a b _ _ _ _ st h
            · simp only [hp, dite_false] at h; cases h


/-- bytes acceptable inside a FEN field: ASCII and not the field separator -/
def Clean (s : Bytes) : Prop := ∀ b ∈ s, b < 128 ∧ b ≠ 32

theorem Clean.nil : Clean [] := by intro b hb; cases hb
theorem Clean.cons {b : Nat} {s : Bytes} (hb : b < 128 ∧ b ≠ 32) (hs : Clean s) : Clean (b :: s) := by
  intro x hx
  rcases List.mem_cons.mp hx with e | e
  · rw [e]; exact hb
  · exact hs x e
theorem Clean.no_space {s : Bytes} (h : Clean s) : 32 ∉ s := fun hm => (h 32 hm).2 rfl

theorem cellOfByte_clean (b : Nat) (c : Cell) (h : cellOfByte b = some c) : b < 128 ∧ b ≠ 32 := by
  constructor
  · apply Decidable.byContradiction
    intro hb
    rw [cellOfByte_big b hb] at h; cases h
  · intro e; subst e
    have : cellOfByte 32 = none := by decide
    rw [this] at h; cases h

/-- every byte the board-field loop consumes without error is ASCII and not a space -/
theorem loop_clean : ∀ (a : Bytes) (file rank pos : Nat) (cells : Tab 64 Cell) (st : Nat × Nat × Nat × Tab 64 Cell),
    parseCellsLoop a file rank pos cells = .ok st → Clean a
  | [], _, _, _, _, _, _ => Clean.nil
  | x :: a, file, rank, pos, cells, st, h => by
    rw [parseCellsLoop] at h
    by_cases hd : 49 ≤ x ∧ x ≤ 56
    · simp only [hd, and_self, if_true] at h
      by_cases ho : file + (x - 48) > 8
      · simp only [ho, if_true] at h; split at h <;> cases h
      · simp only [ho, if_false] at h
        exact Clean.cons (by omega) (loop_clean a _ _ _ _ st h)
    · simp only [hd, if_false] at h
      by_cases hs : x = 47
      · simp only [hs, if_true] at h
        by_cases hf8 : file < 8
        · simp only [hf8, if_true] at h; split at h <;> cases h
        · simp only [hf8, if_false] at h
          by_cases hov : rank + 1 ≥ 8
          · simp only [hov, if_true] at h; cases h
          · simp only [hov, if_false] at h
            exact Clean.cons (by omega) (loop_clean a _ _ _ _ st h)
      · simp only [hs, if_false] at h
        by_cases hf8 : file ≥ 8
        · simp only [hf8, if_true] at h; split at h <;> cases h
        · simp only [hf8, if_false] at h
          cases hc : cellOfByte x with
          | none => simp only [hc] at h; cases h
          | some c =>
            simp only [hc] at h
            by_cases hp : pos < 64
            · simp only [hp, dite_true] at h
              exact Clean.cons (cellOfByte_clean x c hc) (loop_clean a _ _ _ _ st h)
            · simp only [hp, dite_false] at h; cases h

theorem parseCells_clean (s : Bytes) (cells : Tab 64 Cell) (h : parseCells s = .ok cells) : Clean s := by
  unfold parseCells at h
  split at h
  · cases h
  · cases h
  · rename_i hl; exact loop_clean _ _ _ _ _ _ hl

/-! ## board field: the formatter, one rank at a time -/

/-- pending run of empty squares written out -/
def rankFinish (st : Bytes × Nat) : Bytes := if st.2 ≠ 0 then st.1 ++ [48 + st.2] else st.1

/-- body of the file loop of `fmtRankCells` -/
def rankStep (cells : Tab 64 Cell) (rank : Fin 8) (st : Bytes × Nat) (file : Fin 8) : Bytes × Nat :=
  if (cells.get (Sq.mk file rank)).isFree then (st.1, st.2 + 1)
  else (rankFinish st ++ [cellByte (cells.get (Sq.mk file rank))], 0)

theorem fmtRankCells_eq (cells : Tab 64 Cell) (rank : Fin 8) :
    fmtRankCells cells rank = rankFinish ((List.finRange 8).foldl (rankStep cells rank) ([], 0)) := by
  have hf : (fun (st : Bytes × Nat) (file : Fin 8) =>
      let cell := cells.get (Sq.mk file rank)
      if cell.isFree then (st.1, st.2 + 1)
      else
        let o := if st.2 ≠ 0 then st.1 ++ [48 + st.2] else st.1
        (o ++ [cellByte cell], 0)) = rankStep cells rank := by
    funext st file; rfl
  unfold fmtRankCells
  rw [hf]
  generalize (List.finRange 8).foldl (rankStep cells rank) ([], 0) = st
  obtain ⟨o, e⟩ := st
  rfl

/-- body of the rank loop of `fmtCells` -/
def ranksStep (cells : Tab 64 Cell) (out : Bytes) (rank : Fin 8) : Bytes :=
  (if rank.val ≠ 0 then out ++ [47] else out) ++ fmtRankCells cells rank

theorem fmtCells_eq (cells : Tab 64 Cell) : fmtCells cells = (List.finRange 8).foldl (ranksStep cells) [] := by
  have hf : (fun (out : Bytes) (rank : Fin 8) =>
      (if rank.val ≠ 0 then out ++ [47] else out) ++ fmtRankCells cells rank) = ranksStep cells := by
    funext out rank; rfl
  unfold fmtCells
  rw [hf]

/-- the table under construction equals the target on squares `< q` and is empty from `q` on -/
def Agree (c cells : Tab 64 Cell) (q : Nat) : Prop :=
  ∀ s : Sq, c.get s = if s.val < q then cells.get s else Cell.empty

theorem isFree_eq (x : Cell) (h : x.isFree = true) : x = Cell.empty := by
  revert x; decide
theorem not_isFree_ne (x : Cell) (h : ¬ x.isFree = true) : x ≠ Cell.empty := by
  revert x; decide

theorem flush_ok (out : Bytes) (e F R P : Nat) (C : Tab 64 Cell) (f r p : Nat) (c : Tab 64 Cell)
    (hout : parseCellsLoop out F R P C = .ok (f, r, p, c)) (h8 : f + e ≤ 8) :
    parseCellsLoop (rankFinish (out, e)) F R P C = .ok (f + e, r, p + e, c) := by
  unfold rankFinish
  by_cases he : e = 0
  · subst he; simpa using hout
  · simp only [ne_eq, he, not_false_eq_true, if_true]
    rw [loop_append _ _ _ _ _ _ _ hout, loop_digit e [] f r p c (by omega) h8]
    rfl


/-- the file loop of one rank, from any point of the rank: the parser, having consumed the text written so far and
with `e` empty squares pending, ends the rank at file 8 with the table extended by this rank -/
theorem rowLoop (cells : Tab 64 Cell) (rank : Fin 8) :
    ∀ (fs : List (Fin 8)) (i : Nat) (out : Bytes) (e F R P : Nat) (C : Tab 64 Cell) (f r p : Nat) (c : Tab 64 Cell),
    (∀ j (h : j < fs.length), (fs[j]).val = i + j) →
    i + fs.length ≤ 8 →
    parseCellsLoop out F R P C = .ok (f, r, p, c) →
    f + e = i → p + e = 8 * rank.val + i →
    Agree c cells (8 * rank.val + i) →
    ∃ c', parseCellsLoop (rankFinish (fs.foldl (rankStep cells rank) (out, e))) F R P C
        = .ok (i + fs.length, r, 8 * rank.val + i + fs.length, c') ∧
      Agree c' cells (8 * rank.val + i + fs.length)
  | [], i, out, e, F, R, P, C, f, r, p, c, _, hlen, hout, hfe, hpe, hag => by
    refine ⟨c, ?_, by simpa using hag⟩
    rw [List.foldl_nil, flush_ok out e F R P C f r p c hout (by simp at hlen; omega), hfe, hpe]
    rfl
  | file0 :: fs, i, out, e, F, R, P, C, f, r, p, c, hfs, hlen, hout, hfe, hpe, hag => by
    have h0 : file0.val = i := by
      have := hfs 0 (by simp)
      simp only [List.getElem_cons_zero] at this
      omega
    have hfs' : ∀ j (h : j < fs.length), (fs[j]).val = i + 1 + j := by
      intro j h
      have := hfs (j + 1) (by simp; omega)
      simp only [List.getElem_cons_succ] at this
      omega
    have hl : (file0 :: fs).length = fs.length + 1 := rfl
    rw [hl] at hlen ⊢
    have hrk := rank.isLt
    have hs0 : (Sq.mk file0 rank).val = 8 * rank.val + i := by simp [Sq.mk]; omega
    have q1 : i + 1 + fs.length = i + (fs.length + 1) := by omega
    have q2 : 8 * rank.val + (i + 1) + fs.length = 8 * rank.val + i + (fs.length + 1) := by omega
    rw [List.foldl_cons]
    by_cases hfree : (cells.get (Sq.mk file0 rank)).isFree = true
    · have hst : rankStep cells rank (out, e) file0 = (out, e + 1) := by simp [rankStep, hfree]
      rw [hst]
      have hag' : Agree c cells (8 * rank.val + (i + 1)) := by
        intro s
        rw [hag s]
        by_cases hs : s.val = 8 * rank.val + i
        · have : s = Sq.mk file0 rank := Fin.ext (by omega)
          subst this
          rw [isFree_eq _ hfree]
          have n1 : ¬ (Sq.mk file0 rank).val < 8 * rank.val + i := by omega
          simp [n1]
        · by_cases hlt : s.val < 8 * rank.val + i
          · have : s.val < 8 * rank.val + (i + 1) := by omega
            simp [hlt, this]
          · have : ¬ s.val < 8 * rank.val + (i + 1) := by omega
            simp [hlt, this]
      obtain ⟨c', h1, h2⟩ := rowLoop cells rank fs (i + 1) out (e + 1) F R P C f r p c hfs' (by omega) hout
        (by omega) (by omega) hag'
      rw [q1, q2] at h1; rw [q2] at h2
      exact ⟨c', h1, h2⟩
    · have hst : rankStep cells rank (out, e) file0
          = (rankFinish (out, e) ++ [cellByte (cells.get (Sq.mk file0 rank))], 0) := by simp [rankStep, hfree]
      rw [hst]
      have hp : p + e < 64 := by omega
      have hsq : (⟨p + e, hp⟩ : Sq) = Sq.mk file0 rank := Fin.ext (by simp only [hs0]; omega)
      have hout' : parseCellsLoop (rankFinish (out, e) ++ [cellByte (cells.get (Sq.mk file0 rank))]) F R P C
          = .ok (f + e + 1, r, p + e + 1, c.put ⟨p + e, hp⟩ (cells.get (Sq.mk file0 rank))) := by
        rw [loop_append _ _ _ _ _ _ _ (flush_ok out e F R P C f r p c hout (by omega)),
          loop_cell _ (not_isFree_ne _ hfree) [] (f + e) r (p + e) c (by omega) hp]
        rfl
      have hag' : Agree (c.put ⟨p + e, hp⟩ (cells.get (Sq.mk file0 rank))) cells (8 * rank.val + (i + 1)) := by
        intro s
        rw [Tab.get_put]
        by_cases hs : (⟨p + e, hp⟩ : Sq) = s
        · subst hs
          have : p + e < 8 * rank.val + (i + 1) := by omega
          simp only [if_true, this]
          rw [hsq]
        · have hne : s.val ≠ p + e := fun e' => hs (Fin.ext e'.symm)
          rw [if_neg hs, hag s]
          by_cases hlt : s.val < 8 * rank.val + i
          · have : s.val < 8 * rank.val + (i + 1) := by omega
            simp [hlt, this]
          · have : ¬ s.val < 8 * rank.val + (i + 1) := by omega
            simp [hlt, this]
      obtain ⟨c', h1, h2⟩ := rowLoop cells rank fs (i + 1) _ 0 F R P C _ r _ _ hfs' (by omega) hout'
        (by omega) (by omega) hag'
      rw [q1, q2] at h1; rw [q2] at h2
      exact ⟨c', h1, h2⟩

/-- one whole rank, starting at file 0 with nothing pending -/
theorem rank_parse (cells : Tab 64 Cell) (rank : Fin 8) (c : Tab 64 Cell) (hag : Agree c cells (8 * rank.val)) :
    ∃ c', parseCellsLoop (fmtRankCells cells rank) 0 rank.val (8 * rank.val) c = .ok (8, rank.val, 8 * rank.val + 8, c')
      ∧ Agree c' cells (8 * rank.val + 8) := by
  have := rowLoop cells rank (List.finRange 8) 0 [] 0 0 rank.val (8 * rank.val) c 0 rank.val (8 * rank.val) c
    (by intro j h; simp) (by simp) rfl rfl rfl hag
  rw [fmtRankCells_eq]
  simpa using this


/-- the rank loop: before rank `k` the parser stands at the end of rank `k-1` (or at the very start) -/
theorem ranksLoop (cells : Tab 64 Cell) :
    ∀ (rs : List (Fin 8)) (k : Nat) (out : Bytes) (c : Tab 64 Cell),
    (∀ j (h : j < rs.length), (rs[j]).val = k + j) → k + rs.length = 8 →
    parseCellsLoop out 0 0 0 (Tab.fill Cell.empty) = .ok (if k = 0 then 0 else 8, k - 1, 8 * k, c) →
    Agree c cells (8 * k) →
    ∃ c', parseCellsLoop (rs.foldl (ranksStep cells) out) 0 0 0 (Tab.fill Cell.empty) = .ok (8, 7, 64, c')
      ∧ Agree c' cells 64
  | [], k, out, c, _, hlen, hout, hag => by
    have hk : k = 8 := by simpa using hlen
    subst hk
    exact ⟨c, by simpa using hout, hag⟩
  | rank0 :: rs, k, out, c, hrs, hlen, hout, hag => by
    have h0 : rank0.val = k := by
      have := hrs 0 (by simp)
      simp only [List.getElem_cons_zero] at this
      omega
    have hrs' : ∀ j (h : j < rs.length), (rs[j]).val = k + 1 + j := by
      intro j h
      have := hrs (j + 1) (by simp; omega)
      simp only [List.getElem_cons_succ] at this
      omega
    have hl : (rank0 :: rs).length = rs.length + 1 := rfl
    rw [hl] at hlen
    rw [List.foldl_cons]
    unfold ranksStep
    have hsep : parseCellsLoop (if rank0.val ≠ 0 then out ++ [47] else out) 0 0 0 (Tab.fill Cell.empty)
        = .ok (0, rank0.val, 8 * rank0.val, c) := by
      rw [h0]
      by_cases hk : k = 0
      · subst hk; simpa using hout
      · simp only [hk, if_false] at hout
        simp only [ne_eq, hk, not_false_eq_true, if_true]
        rw [loop_append _ _ _ _ _ _ _ hout, loop_slash [] (k - 1) (8 * k) c (by omega)]
        have : k - 1 + 1 = k := by omega
        rw [this]; rfl
    obtain ⟨c1, h1, h2⟩ := rank_parse cells rank0 c (by rw [h0]; exact hag)
    have hout' : parseCellsLoop ((if rank0.val ≠ 0 then out ++ [47] else out) ++ fmtRankCells cells rank0) 0 0 0
        (Tab.fill Cell.empty) = .ok (if k + 1 = 0 then 0 else 8, k + 1 - 1, 8 * (k + 1), c1) := by
      rw [loop_append _ _ _ _ _ _ _ hsep, h1, h0]
      have e1 : 8 * k + 8 = 8 * (k + 1) := by omega
      simp [e1]
    exact ranksLoop cells rs (k + 1) _ c1 hrs' (by omega) hout' (by rw [h0] at h2; exact h2)

/-- **board field round trip**: run-length encoding of empty squares and `/` separators are read back exactly -/
theorem cells_roundtrip (cells : Tab 64 Cell) : parseCells (fmtCells cells) = .ok cells := by
  obtain ⟨c', h1, h2⟩ := ranksLoop cells (List.finRange 8) 0 [] (Tab.fill Cell.empty)
    (by intro j h; simp) (by simp) rfl (by intro s; simp)
  have hc : c' = cells := Tab.ext (by
    intro s
    rw [h2 s]
    simp [s.isLt])
  subst hc
  unfold parseCells
  rw [← fmtCells_eq] at h1
  rw [h1]
  simp

theorem fmtCells_clean (cells : Tab 64 Cell) : Clean (fmtCells cells) :=
  parseCells_clean _ _ (cells_roundtrip cells)


/-! ## the other fields -/

theorem color_clean (c : Color) : Clean [colorByte c] := by
  unfold Clean; cases c <;> decide
theorem rights_clean : ∀ r : Rights, Clean (fmtRights r) := by
  unfold Clean; decide
theorem coord_clean : ∀ p : Sq, Clean (fmtCoord p) := by
  unfold Clean; decide
theorem fmtNat_clean (n : Nat) : Clean (fmtNat n) := by
  intro b hb
  have := fmtNat_digits n b hb
  simp only [isDigit, Bool.and_eq_true, decide_eq_true_eq] at this
  omega

/-- text of the en-passant field: the *destination* square of the capture (behind the pawn), or `-` -/
def epText (r : RawBoard) : Bytes :=
  match r.epDest with
  | some p => fmtCoord p
  | none => [45]

theorem epText_clean (r : RawBoard) : Clean (epText r) := by
  unfold epText
  split
  · exact coord_clean _
  · unfold Clean; decide

/-- the en-passant field round trip; needs the stored pawn square to be on the rank the parser reconstructs -/
theorem ep_roundtrip (r : RawBoard) (hep : ∀ p, r.ep = some p → p.rank = epSrcRank r.side) :
    parseEpSource (epText r) r.side = .ok r.ep := by
  unfold epText RawBoard.epDest
  cases hr : r.ep with
  | none => simp [parseEpSource]
  | some p =>
    have hne : fmtCoord (Sq.mk p.file (epDstRank r.side)) ≠ [45] := by simp [fmtCoord]
    simp only [parseEpSource, hne, if_false, C12.coord_reparse, Sq.rank_mk, Sq.file_mk, ne_eq, not_true_eq_false]
    rw [← hep p hr, Sq.mk_file_rank]

/-- `Display for RawBoard` writes six fields separated by single spaces -/
theorem fmtFen_fields (r : RawBoard) :
    fmtFen r = fmtCells r.cells ++ 32 :: ([colorByte r.side] ++ 32 :: (fmtRights r.castling ++ 32 ::
      (epText r ++ 32 :: (fmtNat r.mc ++ 32 :: fmtNat r.mn)))) := by
  unfold fmtFen epText
  cases r.epDest <;> simp [List.append_assoc]

theorem fmtFen_split (r : RawBoard) :
    splitSpaces (fmtFen r)
      = [fmtCells r.cells, [colorByte r.side], fmtRights r.castling, epText r, fmtNat r.mc, fmtNat r.mn] := by
  rw [fmtFen_fields]
  exact splitSpaces_six _ _ _ _ _ _ (fmtCells_clean _).no_space (color_clean _).no_space
    (rights_clean _).no_space (epText_clean _).no_space (fmtNat_clean _).no_space (fmtNat_clean _).no_space

theorem isAscii_of_clean {s : Bytes} (h : Clean s) : isAscii s = true := by
  unfold isAscii
  rw [List.all_eq_true]
  intro b hb
  simpa using (h b hb).1

theorem isAscii_join (a b : Bytes) (ha : isAscii a = true) (hb : isAscii b = true) :
    isAscii (a ++ 32 :: b) = true := by
  unfold isAscii at *
  simp [List.all_append, ha, hb]

theorem fmtFen_ascii (r : RawBoard) : isAscii (fmtFen r) = true := by
  rw [fmtFen_fields]
  exact isAscii_join _ _ (isAscii_of_clean (fmtCells_clean _)) <|
    isAscii_join _ _ (isAscii_of_clean (color_clean _)) <|
    isAscii_join _ _ (isAscii_of_clean (rights_clean _)) <|
    isAscii_join _ _ (isAscii_of_clean (epText_clean _)) <|
    isAscii_join _ _ (isAscii_of_clean (fmtNat_clean _)) (isAscii_of_clean (fmtNat_clean _))

/-! ## C08 -/

/-- the stored en-passant mark (the square of the pawn that has just made a double step) lies on the rank where such a
pawn stands: rank 4 when black is to move, rank 5 when white is to move -/
def EpRankOk (r : RawBoard) : Prop := ∀ p, r.ep = some p → p.rank = epSrcRank r.side

instance (r : RawBoard) : Decidable (EpRankOk r) := by unfold EpRankOk; infer_instance

/-- well-formedness of a raw board for FEN purposes: exactly what `parseFen` guarantees of its results -/
structure FenWf (r : RawBoard) : Prop where
  ep : EpRankOk r
  mc : r.mc ≤ 65535
  mn : r.mn ≤ 65535

/-- **format then parse is the identity** on raw boards, all six fields.
* `hep`: the FEN text carries only the *file* of the en-passant mark (it prints the capture destination
  `Sq.mk p.file (epDstRank side)`); the parser rebuilds the pawn square as `Sq.mk file (epSrcRank side)`. A mark stored
  on any other rank is therefore read back moved to `epSrcRank side` (see the counterexample below).
* `hmc`, `hmn`: the model's counters are `Nat`; `u16::from_str` rejects anything above 65535 (`moveCounter` /
  `moveNumber` error), and the Rust fields are `u16` in the first place. -/
theorem fen_roundtrip (r : RawBoard) (hep : EpRankOk r) (hmc : r.mc ≤ 65535) (hmn : r.mn ≤ 65535) :
    parseFen (fmtFen r) = .ok r := by
  unfold parseFen
  simp only [fmtFen_ascii, fmtFen_split, cells_roundtrip, C12.color_reparse, C12.rights_reparse,
    ep_roundtrip r hep, counter_roundtrip _ hmc, counter_roundtrip _ hmn]
  simp

theorem parseEpSource_rank (s : Bytes) (side : Color) (p : Sq) (h : parseEpSource s side = .ok (some p)) :
    p.rank = epSrcRank side := by
  unfold parseEpSource at h
  split at h
  · cases h
  · split at h
    · cases h
    · split at h
      · cases h
      · injection h with h; injection h with h; subst h; exact Sq.rank_mk _ _

theorem parseFen_wf (s : Bytes) (r : RawBoard) (h : parseFen s = .ok r) : FenWf r := by
  unfold parseFen at h
  dsimp only at h
  repeat' (split at h)
  all_goals first
    | (cases h; done)
    | (injection h with h; subst h
       refine ⟨?_, ?_, ?_⟩
       · intro p hp; dsimp only at hp; subst hp; exact parseEpSource_rank _ _ _ (by assumption)
       · first | exact parseU16_le _ _ (by assumption) | exact Nat.le_of_ble_eq_true rfl
       · first | exact parseU16_le _ _ (by assumption) | exact Nat.le_of_ble_eq_true rfl)

/-- **parse, format, parse is stable**: whatever text the parser accepts, the board it returns is a fixed point of
format-then-parse -/
theorem fen_parse_format_parse (s : Bytes) (r : RawBoard) (h : parseFen s = .ok r) :
    parseFen (fmtFen r) = .ok r :=
  have w := parseFen_wf s r h
  fen_roundtrip r w.ep w.mc w.mn

/-- the hypotheses of `fen_roundtrip` are necessary as well as sufficient -/
theorem fen_roundtrip_iff (r : RawBoard) : parseFen (fmtFen r) = .ok r ↔ FenWf r :=
  ⟨parseFen_wf _ r, fun w => fen_roundtrip r w.ep w.mc w.mn⟩

/-- formatting loses nothing: well-formed raw boards with the same FEN text are equal -/
theorem fmtFen_injective (r r' : RawBoard) (w : FenWf r) (w' : FenWf r') (h : fmtFen r = fmtFen r') : r = r' := by
  have h1 := fen_roundtrip r w.ep w.mc w.mn
  rw [h, fen_roundtrip r' w'.ep w'.mc w'.mn] at h1
  exact (Res.ok.inj h1).symm

/-- two boards with the same board field have the same squares -/
theorem fmtCells_injective (c c' : Tab 64 Cell) (h : fmtCells c = fmtCells c') : c = c' := by
  have h1 := cells_roundtrip c
  rw [h, cells_roundtrip c'] at h1
  exact (Res.ok.inj h1).symm

/-! non-vacuity -/

/-- the initial position round-trips (by the theorem, and by evaluation) -/
example : parseFen (fmtFen C04.initialRaw) = .ok C04.initialRaw :=
  fen_roundtrip _ (by decide) (by decide) (by decide)
example : parseFen (fmtFen C04.initialRaw) = .ok C04.initialRaw := by decide +kernel
/-- the text is the standard one: `rnbqkbnr/pppppppp/8/8/8/8/PPPPPPPP/RNBQKBNR w KQkq - 0 1` -/
example : fmtFen C04.initialRaw
    = "rnbqkbnr/pppppppp/8/8/8/8/PPPPPPPP/RNBQKBNR w KQkq - 0 1".toList.map Char.toNat := by decide +kernel
/-- a position with an en-passant mark (after 1. e4: black to move, pawn on e4 = square 36) -/
example : parseFen (fmtFen { C04.initialRaw with side := .black, ep := some 36 })
    = .ok { C04.initialRaw with side := .black, ep := some 36 } :=
  fen_roundtrip _ (by decide) (by decide) (by decide)
/-- the parser accepts texts the formatter never writes (`+` sign, omitted counters); stability still holds -/
example : ∃ r, parseFen ("8/8/8/8/8/8/8/8 w - - +7".toList.map Char.toNat) = .ok r ∧ r.mc = 7 ∧ r.mn = 1 ∧
    parseFen (fmtFen r) = .ok r := by
  refine ⟨{ RawBoard.empty with mc := 7 }, by decide +kernel, rfl, rfl, by decide +kernel⟩

/-! the hypotheses cannot be dropped -/

/-- a mark on another rank (a8, white to move) is written as `a6` and read back as a5 (square 24) -/
example : parseFen (fmtFen { RawBoard.empty with ep := some 0 }) = .ok { RawBoard.empty with ep := some 24 } := by
  decide +kernel
/-- a counter above `u16::MAX` is written in full and rejected by the reader -/
example : parseFen (fmtFen { RawBoard.empty with mc := 65536 }) = .err .moveCounter := by decide +kernel
example : parseFen (fmtFen { RawBoard.empty with mn := 65536 }) = .err .moveNumber := by decide +kernel

/-- C08 for valid positions: a position that passes the validation gate (whose counters fit `u16`, as every counter
the library produces does: `C03.counters_no_wrap`) is read back from its FEN text in all six fields -/
theorem fen_roundtrip_valid (b : Board) (hv : Valid b) (hmc : b.r.mc ≤ 65535) (hmn : b.r.mn ≤ 65535) :
    parseFen (fmtFen b.r) = .ok b.r ∧ parseFenBoard (fmtFen b.r) = .ok b := by
  have hep : EpRankOk b.r := fun p hp => (hv.shape.ep p hp).1
  have h1 := fen_roundtrip b.r hep hmc hmn
  refine ⟨h1, ?_⟩
  unfold parseFenBoard
  rw [h1]
  simp only
  rw [(valid_iff_validate b).mp hv]

end Owl.Props.C08
