/-
C09  SAN output is standard; SAN input resolves only to the legal move it describes.
Input side (Lemmas/SanSound, all proved for every valid position and every parsed SAN value / every byte string):
`san_sound` / `moveFromSan_sound` — a move is returned only if it is well-formed, semilegal and legal and agrees with
the piece, destination, origin hints, capture mark and promotion of the text; `san_unique` — the returned move is the
only legal move that agrees; `san_ambiguity_reported`, `san_simple_resolve`, `san_short_resolve` — when two different
legal moves agree the result is `Ambiguity` naming two such moves, never a silent choice; `makeSanMove_ok`,
`makeSanStr_ok`, `makeSan_valid`, `makeSan_no_trap` — the SAN make-likes are legal steps (this completes C02 and C13
for the SAN paths).
Output side (Lemmas/SanOutput, proved for every valid position and every legal move): `san_output_standard` — the
text produced is exactly the rules' standard notation `Spec.San.write` (piece letter, the minimal file / rank / square
disambiguation computed among legal moves only, capture mark, promotion suffix, castling symbols, `+` iff the opponent
is in check with a legal move, `#` iff in check with none); `san_output_roundtrip` — the text parses back, in the same
position, to the same SAN value and the same move; `san_output_injective` — distinct legal moves get distinct texts.
-/
import OwlModel.Lemmas.SanSound
import OwlModel.Lemmas.SanOutput

namespace Owl.Props.C09
open Owl Owl.Impl Owl.Lemmas Owl.Props

/-- C09 (input soundness), restated so that the evidence lists it with this property -/
theorem san_input_sound (b : Board) (hv : Valid b) (d : SanData) (mv : Move) (h : sanIntoMove d b = .ok mv) :
    (mv.isWellFormed = true ∧ isSemilegal b mv = true ∧ isLegalUnchecked? b mv = some true) ∧ Agrees b d mv :=
  san_sound b hv d mv h

theorem san_input_unique (b : Board) (hv : Valid b) (d : SanData) (mv : Move) (h : sanIntoMove d b = .ok mv)
    (mv' : Move) (hl : Legal b mv') (ha : Agrees b d mv') : mv' = mv := san_unique b hv d mv h mv' hl ha

theorem san_ambiguity (b : Board) (hv : Valid b) (d : SanData)
    (hd : (∃ piece file rank isCapture dst, piece ≠ .pawn ∧ d = .simple piece file rank isCapture dst)
      ∨ (∃ src dst promote, d = .pawnCaptureShort src dst promote))
    (m1 m2 : Move) (hne : m1 ≠ m2) (hl1 : Legal b m1) (ha1 : Agrees b d m1) (hl2 : Legal b m2) (ha2 : Agrees b d m2) :
    ∃ x y, sanIntoMove d b = .err (.ambiguity x y) ∧ x ≠ y ∧ Legal b x ∧ Agrees b d x ∧ Legal b y ∧ Agrees b d y :=
  san_ambiguity_reported b hv d hd m1 m2 hne hl1 ha1 hl2 ha2

/-- C02 / C13 for the SAN paths -/
theorem san_make_likes (b : Board) (hv : Valid b) :
    (∀ m, C13.MakeLikeOk b (makeSanMove b m)) ∧ (∀ s, C13.MakeLikeOk b (makeSanStr b s)) :=
  ⟨fun m => makeSanMove_ok b hv m, fun s => makeSanStr_ok b hv s⟩

/-- C09 (output is the standard notation) -/
theorem san_output_standard (b : Board) (hv : Valid b) (sm : Spec.Move) (hl : sm ∈ Spec.legalMoves (abs b.r)) :
    ∃ s, sanFromMove (concMove sm) b = .ok s ∧ fmtSan s = .ok (Spec.San.write (abs b.r) sm) :=
  san_text_standard' b hv sm hl

/-- C09 (round trip through text) -/
theorem san_output_roundtrip (b : Board) (hv : Valid b) (mv : Move) (hl : Legal b mv) :
    ∃ sm t, sanFromMove mv b = .ok sm ∧ sanDataFromMove mv b = .ok sm.data ∧ fmtSan sm = .ok t
      ∧ parseSan t = .ok sm ∧ moveFromSan t b = .ok mv := san_text_roundtrip b hv mv hl

/-- C09 (distinct legal moves get distinct texts) -/
theorem san_output_injective (b : Board) (hv : Valid b) (mv1 mv2 : Move) (hl1 : Legal b mv1) (hl2 : Legal b mv2)
    (sm1 sm2 : SanMove) (t : Bytes) (h1 : sanFromMove mv1 b = .ok sm1) (h2 : sanFromMove mv2 b = .ok sm2)
    (f1 : fmtSan sm1 = .ok t) (f2 : fmtSan sm2 = .ok t) : mv1 = mv2 :=
  san_text_injective b hv mv1 mv2 hl1 hl2 sm1 sm2 t h1 h2 f1 f2

end Owl.Props.C09
