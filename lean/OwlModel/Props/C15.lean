/-
C15  Attack and between tables are exact for every square and every occupancy.
Property theorems only; helper lemmas live in OwlModel/Lemmas. The tables are the ones the
translator extracted from the build under test (OwlModel/Gen).
-/
import OwlModel.Lemmas.Tables
import OwlModel.Lemmas.TablesNear

namespace Owl.Props.C15
open Owl Owl.Lemmas

/-- rook lines: for every square and every one of the 2^64 occupancies, the lookup contains exactly the
squares reached by sliding in each of the four directions up to and including the first occupied one -/
theorem rook_lookup_exact (s : Sq) (occ : BB) (t : Sq) :
    (Impl.rookAttack s occ).has t = true ↔ t ∈ Spec.slide Spec.rookDirs (fun x => occ.has x) s := by
  rw [rookAttack_eq_slide]; simp [slideBB]

/-- bishop lines -/
theorem bishop_lookup_exact (s : Sq) (occ : BB) (t : Sq) :
    (Impl.bishopAttack s occ).has t = true ↔ t ∈ Spec.slide Spec.bishopDirs (fun x => occ.has x) s := by
  rw [bishopAttack_eq_slide]; simp [slideBB]

/-- king, knight and pawn attack sets equal their geometric definitions -/
theorem king_table_exact (s t : Sq) :
    (Impl.kingAttack s).has t = true ↔ ∃ d ∈ Spec.kingSteps, Spec.step s d = some t := by
  rw [(near_check_sq s).1]; simp [stepsOf]

theorem knight_table_exact (s t : Sq) :
    (Impl.knightAttack s).has t = true ↔ ∃ d ∈ Spec.knightSteps, Spec.step s d = some t := by
  rw [(near_check_sq s).2.1]; simp [stepsOf]

theorem pawn_table_exact (c : Color) (s t : Sq) :
    (Impl.pawnAttack c s).has t = true ↔
      (Spec.step s (-1, Spec.forward c) = some t ∨ Spec.step s (1, Spec.forward c) = some t) := by
  cases c
  · rw [(near_check_sq s).2.2.1]; simp [stepsOf, pawnSteps]
  · rw [(near_check_sq s).2.2.2]; simp [stepsOf, pawnSteps]

/-- alignment predicates are exact for every pair of squares -/
theorem rook_valid_iff (a b : Sq) :
    Impl.isRookValid a b = true ↔ (Spec.between Spec.rookDirs a b).isSome = true := by
  have h := between_check_pair a b
  simp only [betweenCheckPair, Bool.and_eq_true, beq_iff_eq] at h
  rw [h.1.1.1]

theorem bishop_valid_iff (a b : Sq) :
    Impl.isBishopValid a b = true ↔ (Spec.between Spec.bishopDirs a b).isSome = true := by
  have h := between_check_pair a b
  simp only [betweenCheckPair, Bool.and_eq_true, beq_iff_eq] at h
  rw [h.1.1.2]

/-- strictly-between sets are exact for every aligned pair (for non-aligned pairs the Rust function is
never called and returns an unspecified set — DESIGN §6 C15) -/
theorem rook_between_exact (a b : Sq) (l : List Sq) (h : Spec.between Spec.rookDirs a b = some l) (t : Sq) :
    (Impl.rookStrict a b).has t = true ↔ t ∈ l := by
  have hc := between_check_pair a b
  simp only [betweenCheckPair, Bool.and_eq_true] at hc
  have := hc.1.2
  rw [h] at this
  rw [eq_of_beq this]; simp

theorem bishop_between_exact (a b : Sq) (l : List Sq) (h : Spec.between Spec.bishopDirs a b = some l) (t : Sq) :
    (Impl.bishopStrict a b).has t = true ↔ t ∈ l := by
  have hc := between_check_pair a b
  simp only [betweenCheckPair, Bool.and_eq_true] at hc
  have := hc.2
  rw [h] at this
  rw [eq_of_beq this]; simp

/-! non-vacuity: concrete instances with non-trivial content -/
example : Spec.slide Spec.rookDirs (fun x => (BB.ofNat 0x0000001000000000).has x) ⟨28, by decide⟩
    = [⟨36, by decide⟩, ⟨20, by decide⟩, ⟨12, by decide⟩, ⟨4, by decide⟩, ⟨27, by decide⟩, ⟨26, by decide⟩,
       ⟨25, by decide⟩, ⟨24, by decide⟩, ⟨29, by decide⟩, ⟨30, by decide⟩, ⟨31, by decide⟩] := by decide +kernel
example : Spec.between Spec.bishopDirs ⟨0, by decide⟩ ⟨27, by decide⟩ = some [⟨9, by decide⟩, ⟨18, by decide⟩] := by
  decide +kernel

end Owl.Props.C15
