/-
C04  Undoing a move restores the position exactly.
-/
import OwlModel.Lemmas.Shape

namespace Owl.Props.C04
open Owl Owl.Impl Owl.Lemmas

/-- every board produced by the validation gate has its derived state equal to the from-scratch recomputation -/
theorem validate_consistent (raw : RawBoard) (b : Board) (h : validate raw = .ok b) : Consistent b := by
  have hcb : ∀ x : Board, checkBoard x = .ok b → b = x := by
    intro x hx
    unfold checkBoard at hx
    repeat' (split at hx)
    all_goals first
      | (injection hx with hx; exact hx.symm)
      | (exact absurd hx (by simp))
  unfold validate at h
  split at h
  · exact absurd h (by simp)
  · exact absurd h (by simp)
  · rw [hcb _ h]; rfl

/-- apply-then-undo restores squares, side, rights, en-passant mark, both counters, hash and every occupancy set,
for every consistent board and every move meeting the per-kind precondition of `make_move_unchecked`
(semilegal moves, including those that leave the king attacked; the null move) -/
theorem undo_restores (b : Board) (mv : Move) (hb : Consistent b) (ok : MakeOk b mv) :
    unmakeMove (makeMove b mv).1 mv (makeMove b mv).2 = b :=
  unmake_make b mv hb ok

/-- the same for every position accepted by the validation gate and every well-formed semilegal move
(including those that leave the mover's king attacked) -/
theorem undo_restores_semilegal (raw : RawBoard) (b : Board) (mv : Move) (hv : validate raw = .ok b)
    (hwf : mv.isWellFormed = true) (hsl : isSemilegal b mv = true) :
    unmakeMove (makeMove b mv).1 mv (makeMove b mv).2 = b := by
  have hs := validate_shape raw b hv
  exact unmake_make b mv hs.cons (makeOk_of_semilegal b mv hs hwf hsl)

/-- the null move is always undoable -/
theorem undo_null (b : Board) (hb : Consistent b) :
    unmakeMove (makeMove b Move.null).1 Move.null (makeMove b Move.null).2 = b :=
  unmake_make b Move.null hb (by simp [MakeOk, Move.null])

/-- a properly nested apply/undo word: apply `mv`, run `inner`, undo `mv`, continue with `rest` -/
inductive Word
  | done
  | node (mv : Move) (inner rest : Word)

/-- every apply in the word meets its precondition in the state it is applied to -/
def Word.Ok : Board → Word → Prop
  | _, .done => True
  | b, .node mv inner rest => MakeOk b mv ∧ inner.Ok (makeMove b mv).1 ∧ rest.Ok b

/-- execution of a nested word by the undo-returning interface -/
def Word.run : Board → Word → Board
  | b, .done => b
  | b, .node mv inner rest =>
    let (b1, u) := makeMove b mv
    let b2 := inner.run b1
    rest.run (unmakeMove b2 mv u)

/-- arbitrarily deep nested apply/undo sequences (move chains, walkers, search code) end where they started -/
theorem nested_undo : ∀ (w : Word) (b : Board), Consistent b → w.Ok b → w.run b = b
  | .done, _, _, _ => rfl
  | .node mv inner rest, b, hb, ⟨hok, hin, hrest⟩ => by
    have hc1 : Consistent (makeMove b mv).1 := make_consistent b mv hb hok
    have h1 := nested_undo inner (makeMove b mv).1 hc1 hin
    simp only [Word.run]
    rw [h1, unmake_make b mv hb hok]
    exact nested_undo rest b hb hrest

/-! non-vacuity: the initial position is produced by the gate and 1. e4 meets the precondition -/
def initialCells : List Cell :=
  [11, 9, 10, 12, 8, 10, 9, 11, 7, 7, 7, 7, 7, 7, 7, 7] ++ List.replicate 32 0
    ++ [1, 1, 1, 1, 1, 1, 1, 1, 5, 3, 4, 6, 2, 4, 3, 5]

def initialRaw : RawBoard :=
  { cells := Tab.ofFn fun s => initialCells.getD s.val 0, side := .white, castling := 15, ep := none, mc := 0, mn := 1 }

instance (b : Board) (mv : Move) : Decidable (MakeOk b mv) := by
  unfold MakeOk; split <;> infer_instance

example : validate initialRaw = .ok (buildBoard initialRaw) := by decide +kernel
example : MakeOk (buildBoard initialRaw) ⟨.double, 1, 52, 36⟩ := by decide +kernel

end Owl.Props.C04
