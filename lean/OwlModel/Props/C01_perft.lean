/-
C01 (continued): counting. The rules layer enumerates every pseudo-legal and every legal move exactly once
(`pseudoMoves_nodup`, `legalMoves_nodup`, for EVERY position); the legal generator's output on a valid board is a
permutation of the rules' legal moves (`legalGen_perm`); and therefore perft — the number of move sequences of a given
length — computed through the implementation model's generator and make (`Drv.perftM`, the very function the driver
runs against the Rust library's perft) equals perft by the rules (`Spec.perft`) for EVERY depth and EVERY valid
position (`perft_eq`). The published perft numbers are thereby statements about `Spec.perft` that the correspondence
runs compare with the implementation (C01_sanity pins depth 1 in the kernel).
Proved by a proof sub-agent from the statement list; re-checked here (compile, forbidden-token scan, statement review).
-/
import OwlModel.Props.C01
import OwlModel.Props.C03
import OwlModel.Driver.ChainOps
namespace Owl.Props.C01
open Owl Owl.Impl Owl.Lemmas Owl.Props

/-! ### generic list helpers -/

theorem nodup_filterMap_of_inj {α β : Type} (l : List α) (f : α → Option β) (hl : l.Nodup)
    (hf : ∀ a b x, f a = some x → f b = some x → a = b) : (l.filterMap f).Nodup := by
  induction l with
  | nil => simp
  | cons a t ih =>
    rw [List.nodup_cons] at hl
    rw [List.filterMap_cons]
    cases hfa : f a with
    | none => exact ih hl.2
    | some x =>
      simp only
      rw [List.nodup_cons]
      refine ⟨?_, ih hl.2⟩
      intro hx
      rw [List.mem_filterMap] at hx
      obtain ⟨b, hb, hfb⟩ := hx
      have := hf a b x hfa hfb
      subst this
      exact hl.1 hb

theorem reach_sublist (occ : Sq → Bool) : ∀ l : List Sq, (Spec.reach occ l).Sublist l
  | [] => List.Sublist.refl _
  | t :: rest => by
    unfold Spec.reach
    by_cases h : occ t = true
    · rw [if_pos h]; exact List.Sublist.cons_cons _ (List.nil_sublist _)
    · rw [if_neg h]; exact List.Sublist.cons_cons _ (reach_sublist occ rest)

theorem slide_sublist (occ : Sq → Bool) (s : Sq) : ∀ dirs : List (Int × Int),
    (Spec.slide dirs occ s).Sublist (dirs.flatMap fun d => Spec.ray d 7 s)
  | [] => List.Sublist.refl _
  | d :: ds => by
    unfold Spec.slide
    rw [List.flatMap_cons, List.flatMap_cons]
    exact List.Sublist.append (reach_sublist occ _) (slide_sublist occ s ds)

section Geo
set_option maxRecDepth 100000

theorem knight_targets_nodup : ∀ s : Sq, (stepsOf s Spec.knightSteps).Nodup := by decide +kernel
theorem king_targets_nodup : ∀ s : Sq, (stepsOf s Spec.kingSteps).Nodup := by decide +kernel
theorem rays_nodup (pc : Piece) : ∀ s : Sq, ((Spec.dirsOf pc).flatMap fun d => Spec.ray d 7 s).Nodup := by
  cases pc <;> decide +kernel

theorem step_fwd_ne (c : Color) : ∀ s t : Sq, Spec.step s (0, Spec.forward c) = some t →
    Spec.step s (-1, Spec.forward c) ≠ some t ∧ Spec.step s (1, Spec.forward c) ≠ some t := by
  cases c <;> decide +kernel

theorem step_cap_ne (c : Color) : ∀ s t : Sq, Spec.step s (-1, Spec.forward c) = some t →
    Spec.step s (1, Spec.forward c) ≠ some t := by
  cases c <;> decide +kernel

end Geo

theorem targets_nodup (P : Spec.Pos) (pc : Piece) (s : Sq) : (targets P pc s).Nodup := by
  cases pc
  case knight => exact knight_targets_nodup s
  case king => exact king_targets_nodup s
  all_goals exact List.Nodup.sublist (slide_sublist _ s _) (rays_nodup _ s)

/-! ### pawns -/

theorem nodup_single {α : Type} (a : α) : [a].Nodup := by simp

theorem kindOK_cases {c : Color} {k : Kind} {t : Sq} (h : kindOK c k t) :
    k = .simple ∨ k = .promN ∨ k = .promB ∨ k = .promR ∨ k = .promQ := by
  unfold kindOK at h
  rcases h with ⟨_, h | h | h | h⟩ | ⟨_, h⟩ <;> simp [h]

theorem pmk_nodup (c : Color) (s : Sq) (k : Kind) (t : Sq) : (pmk c s k t).Nodup := by
  unfold pmk
  split
  · apply nodup_map_of_inj
    · unfold Spec.promKinds; decide
    · intro a b h; injection h
  · exact nodup_single _

theorem pushPart_nodup (P : Spec.Pos) (s : Sq) (c : Color) : (pushPart P s c).Nodup := by
  unfold pushPart
  split
  · next t _ =>
    split
    · rw [List.nodup_append]
      refine ⟨pmk_nodup _ _ _ _, ?_, ?_⟩
      · split
        · split
          · split
            · exact nodup_single _
            · exact List.nodup_nil
          · exact List.nodup_nil
        · exact List.nodup_nil
      · intro a ha b hb
        have hk := kindOK_cases ((mem_pmk c s t a).mp ha).2.2.2
        have hb' : b.kind = .double := by
          split at hb
          · split at hb
            · split at hb
              · rw [List.mem_singleton] at hb; rw [hb]
              · cases hb
            · cases hb
          · cases hb
        intro e; subst e
        rw [hb'] at hk
        simp at hk
    · exact List.nodup_nil
  · exact List.nodup_nil

theorem capAt_nodup (P : Spec.Pos) (s : Sq) (c : Color) (df : Int) : (capAt P s c df).Nodup := by
  unfold capAt
  split
  · split
    · split
      · exact pmk_nodup _ _ _ _
      · exact List.nodup_nil
    · split
      · split
        · exact nodup_single _
        · exact List.nodup_nil
      · exact List.nodup_nil
  · exact List.nodup_nil

theorem pawnMoves_nodup (P : Spec.Pos) (s : Sq) (c : Color) : (Spec.pawnMoves P s c).Nodup := by
  rw [pawnMoves_eq, List.nodup_append, List.nodup_append]
  refine ⟨pushPart_nodup P s c, ⟨capAt_nodup P s c _, capAt_nodup P s c _, ?_⟩, ?_⟩
  · intro a ha b hb e
    subst e
    rw [mem_capAt] at ha hb
    exact step_cap_ne c s a.dst ha.2.2.1 hb.2.2.1
  · intro a ha b hb e
    subst e
    rw [mem_pushPart] at ha
    have hcap : (Spec.step s (-1, Spec.forward c) = some a.dst ∨ Spec.step s (1, Spec.forward c) = some a.dst)
        ∧ a.kind ≠ .double := by
      rw [List.mem_append, mem_capAt, mem_capAt] at hb
      rcases hb with ⟨_, _, h1, h2⟩ | ⟨_, _, h1, h2⟩
      · refine ⟨Or.inl h1, ?_⟩
        rcases h2 with ⟨_, h2⟩ | ⟨h2, _⟩
        · intro e; have := kindOK_cases h2; rw [e] at this; simp at this
        · rw [h2]; decide
      · refine ⟨Or.inr h1, ?_⟩
        rcases h2 with ⟨_, h2⟩ | ⟨h2, _⟩
        · intro e; have := kindOK_cases h2; rw [e] at this; simp at this
        · rw [h2]; decide
    rcases ha.2.2 with ⟨h, _⟩ | ⟨h, _⟩
    · have := step_fwd_ne c s a.dst h
      rcases hcap.1 with h' | h'
      · exact this.1 h'
      · exact this.2 h'
    · exact hcap.2 h

/-! ### pieces -/

theorem pieceMoves_nodup (P : Spec.Pos) (s : Sq) (m : Spec.Man) : (Spec.pieceMoves P s m).Nodup := by
  by_cases hp : m.piece = .pawn
  · unfold Spec.pieceMoves; rw [hp]; exact pawnMoves_nodup P s m.color
  · rw [pieceMoves_eq P s m hp]
    apply nodup_filterMap_of_inj _ _ (targets_nodup P m.piece s)
    intro a b x ha hb
    split at ha
    · split at hb
      · cases ha; cases hb; rfl
      · cases hb
    · cases ha

theorem mem_pieceMoves_src (P : Spec.Pos) (s : Sq) (m : Spec.Man) (sm : Spec.Move) (h : sm ∈ Spec.pieceMoves P s m) :
    sm.src = s ∧ sm.kind ≠ .castleK ∧ sm.kind ≠ .castleQ := by
  by_cases hp : m.piece = .pawn
  · unfold Spec.pieceMoves at h; rw [hp] at h
    simp only at h
    rw [mem_pawnMoves] at h
    refine ⟨h.2.1, ?_⟩
    unfold SpecPawn CapOK at h
    rcases h.2.2 with ⟨_, _, h⟩ | ⟨h, _⟩ | ⟨_, ⟨_, h⟩ | ⟨h, _⟩⟩
    · have := kindOK_cases h; constructor <;> (intro e; rw [e] at this; simp at this)
    · rw [h]; decide
    · have := kindOK_cases h; constructor <;> (intro e; rw [e] at this; simp at this)
    · rw [h]; decide
  · rw [mem_pieceMoves P s m hp] at h
    refine ⟨h.2.2.1, ?_⟩
    rw [h.1]; decide

theorem castleMoves_nodup (P : Spec.Pos) (c : Color) : (Spec.castleMoves P c).Nodup := by
  unfold Spec.castleMoves
  simp only
  split <;> split <;> simp

theorem mem_castleMoves_kind (P : Spec.Pos) (c : Color) (sm : Spec.Move) (h : sm ∈ Spec.castleMoves P c) :
    sm.kind = .castleK ∨ sm.kind = .castleQ := by
  rw [mem_castleMoves] at h
  rcases h with ⟨_, h⟩ | ⟨_, h⟩ <;> simp [h]

theorem pseudoMoves_nodup (p : Spec.Pos) : (Spec.pseudoMoves p).Nodup := by
  unfold Spec.pseudoMoves
  simp only
  rw [List.nodup_append]
  have hsrc : ∀ s x, x ∈ (match p.get s with
      | some m => if m.color ≠ p.side then [] else Spec.pieceMoves p s m
      | none => []) → x.src = s ∧ x.kind ≠ .castleK ∧ x.kind ≠ .castleQ := by
    intro s x hx
    split at hx
    · split at hx
      · cases hx
      · exact mem_pieceMoves_src _ _ _ _ hx
    · cases hx
  refine ⟨?_, castleMoves_nodup _ _, ?_⟩
  · apply nodup_flatMap_of _ _ (List.nodup_finRange 64)
    · intro s _
      split
      · split
        · exact List.nodup_nil
        · exact pieceMoves_nodup _ _ _
      · exact List.nodup_nil
    · intro a b hab x hx y hy e
      subst e
      exact hab ((hsrc a x hx).1.symm.trans (hsrc b x hy).1)
  · intro a ha b hb e
    subst e
    rw [List.mem_flatMap] at ha
    obtain ⟨s, _, ha⟩ := ha
    have := (hsrc s a ha).2
    rcases mem_castleMoves_kind _ _ _ hb with h | h
    · exact this.1 h
    · exact this.2 h

theorem legalMoves_nodup (p : Spec.Pos) : (Spec.legalMoves p).Nodup :=
  List.Pairwise.filter _ (pseudoMoves_nodup p)

/-! ### the legal generator is a permutation of the rules' legal moves -/

/-- every move the legal generator returns on a valid board is legal, and is the image of a rules move -/
theorem legalGen_mem (b : Board) (hv : Valid b) (l : List Move) (hl : legalGen? .all b = some l) (mv : Move)
    (hm : mv ∈ l) :
    mv.isWellFormed = true ∧ isSemilegal b mv = true ∧ isLegalUnchecked? b mv = some true
      ∧ ∃ sm, absMove mv = some sm ∧ concMove sm = mv := by
  obtain ⟨l', h1, _, h3⟩ := legalGen_spec b hv .all
  rw [hl] at h1; cases h1
  obtain ⟨hwf, hsl, _, hleg⟩ := (h3 mv).mp hm
  obtain ⟨sm, ha, hc, _⟩ := semilegal_abs b hv mv hwf hsl
  exact ⟨hwf, hsl, hleg, sm, ha, hc⟩

theorem legalGen_perm (b : Board) (hv : Valid b) :
    ∃ l, legalGen? .all b = some l ∧ List.Perm l ((Spec.legalMoves (abs b.r)).map concMove) := by
  obtain ⟨l, h1, h2, h3⟩ := legalGen_eq_rules b hv
  refine ⟨l, h1, ?_⟩
  rw [List.perm_ext_iff_of_nodup h2
    (nodup_map_of_inj _ _ (legalMoves_nodup _) concMove_inj)]
  intro mv
  rw [List.mem_map]
  constructor
  · intro hm
    obtain ⟨_, _, _, sm, _, hc⟩ := legalGen_mem b hv l h1 mv hm
    refine ⟨sm, ?_, hc⟩
    rw [h3 sm, hc]; exact hm
  · rintro ⟨sm, hsm, rfl⟩
    exact (h3 sm).mp hsm

/-! ### perft -/

theorem foldl_add_eq_sum {α : Type} (f : α → Nat) : ∀ (l : List α) (a : Nat),
    l.foldl (fun acc m => acc + f m) a = a + (l.map f).sum
  | [], a => by simp
  | x :: t, a => by
    rw [List.foldl_cons, foldl_add_eq_sum f t, List.map_cons, List.sum_cons, Nat.add_assoc]

theorem perft_eq (d : Nat) (b : Board) (hv : Valid b) : Owl.Drv.perftM d b = Spec.perft d (abs b.r) := by
  induction d generalizing b with
  | zero => unfold Owl.Drv.perftM Spec.perft; rfl
  | succ n ih =>
    obtain ⟨l, h1, hperm⟩ := legalGen_perm b hv
    unfold Owl.Drv.perftM Spec.perft
    rw [h1]
    simp only
    rw [foldl_add_eq_sum, foldl_add_eq_sum, Nat.zero_add, Nat.zero_add,
      (hperm.map fun m => Owl.Drv.perftM n (makeMove b m).1).sum_nat, List.map_map]
    have hpt : ∀ sm ∈ Spec.legalMoves (abs b.r),
        ((fun m => Owl.Drv.perftM n (makeMove b m).1) ∘ concMove) sm
          = (fun m => Spec.perft n (Spec.apply (abs b.r) m)) sm := by
      intro sm hsm
      have hm : concMove sm ∈ l := hperm.mem_iff.mpr (List.mem_map_of_mem hsm)
      obtain ⟨hwf, hsl, hleg, _⟩ := legalGen_mem b hv l h1 _ hm
      have hv' := valid_make b _ hv hwf hsl hleg
      obtain ⟨sm', ha, hr⟩ := Lemmas.make_refines_apply b _ (C02.applyHyp_of_valid b _ hv hwf hsl)
      rw [absMove_conc] at ha
      cases ha
      simp only [Function.comp]
      rw [ih _ hv', hr]
    rw [List.map_congr_left hpt]

/-- non-vacuity: the initial position is a valid board (so `perft_eq` applies to it at every depth) -/
example : ∃ b : Board, Valid b := ⟨buildBoard C04.initialRaw, (valid_iff_validate _).mpr (by decide +kernel)⟩

example (d : Nat) : Owl.Drv.perftM d (buildBoard C04.initialRaw)
    = Spec.perft d (abs (buildBoard C04.initialRaw).r) :=
  perft_eq d _ ((valid_iff_validate _).mpr (by decide +kernel))


end Owl.Props.C01
