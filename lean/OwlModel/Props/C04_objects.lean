/-
C04 (continued): the theorems behind the driver's object prefixes (DESIGN §11.5, PROTOCOL "Object prefixes").
`restored_is_original`, `restored_null_is_original` — a board on which a well-formed semilegal move (legal or not) or the
null move was made in place and taken back IS the original board, derived sets and hash included (so `restored MV <case>`
is answered for the original position); `reached_validates` — the board a legal move produces from a valid board is
exactly what the validation gate builds from its raw contents (so `reached MV <case>` is answered for the raw board
after the move); `valid_null`, `null_validates` — the same for the null move made when the side to move is not in check
(`via n <case>`). Proved by a proof sub-agent from the statement list; re-checked here.
-/
import OwlModel.Props.C04
import OwlModel.Props.C02
namespace Owl.Props.C04
open Owl Owl.Impl Owl.Lemmas Owl.Props

/-! ### 1. make-then-undo gives back the original board -/

theorem restored_is_original (b : Board) (hv : Valid b) (mv : Move) (hwf : mv.isWellFormed = true)
    (hsl : isSemilegal b mv = true) : unmakeMove (makeMove b mv).1 mv (makeMove b mv).2 = b :=
  undo_restores_semilegal b.r b mv ((valid_iff_validate b).mp hv) hwf hsl

theorem restored_null_is_original (b : Board) (hv : Valid b) :
    unmakeMove (makeMove b Move.null).1 Move.null (makeMove b Move.null).2 = b :=
  undo_null b hv.shape.cons

/-! ### 2. the board a legal move produces passes the gate unchanged -/

theorem reached_validates (b : Board) (hv : Valid b) (mv : Move) (hwf : mv.isWellFormed = true)
    (hsl : isSemilegal b mv = true) (hleg : isLegalUnchecked? b mv = some true) :
    validate (makeMove b mv).1.r = .ok (makeMove b mv).1 :=
  (valid_iff_validate _).mp (valid_make b mv hv hwf hsl hleg)

/-! ### 3. the null move: field by field -/

theorem makeOk_null (b : Board) : MakeOk b Move.null := by simp [MakeOk, Move.null]

theorem null_cells (b : Board) : (makeMove b Move.null).1.r.cells = b.r.cells := by
  rw [make_cells, makeBody_cells, clearEp_cells]; rfl

theorem null_get (b : Board) (t : Sq) : (makeMove b Move.null).1.get t = b.get t := by
  rw [make_get, null_cells]; rfl

theorem null_rget (b : Board) (t : Sq) : (makeMove b Move.null).1.r.get t = b.r.get t := null_get b t

theorem null_side (b : Board) : (makeMove b Move.null).1.r.side = b.r.side.inv := make_side b _

theorem null_ep (b : Board) : (makeMove b Move.null).1.r.ep = none := by
  rw [make_ep]; rfl

theorem null_castling (b : Board) : (makeMove b Move.null).1.r.castling = b.r.castling := by
  rw [make_castling, makeBody_castling, clearEp_castling]; rfl

theorem null_pieces (b : Board) : (makeMove b Move.null).1.pieces = b.pieces := by
  unfold makeMove makeBody
  simp only [Move.null, refreshAll_pieces, xorHash_pieces, setTurn_pieces, clearEp_pieces]

theorem null_color (b : Board) (c : Color) : (makeMove b Move.null).1.color c = b.color c := by
  unfold makeMove makeBody
  simp only [Move.null, refreshAll_color, xorHash_color, setTurn_color, clearEp_color]

theorem null_all (b : Board) (hb : Consistent b) : (makeMove b Move.null).1.all = b.all := by
  have h1 := ((consistent_iff' _).mp (make_consistent b Move.null hb (makeOk_null b))).2.2.1
  have h2 := ((consistent_iff' _).mp hb).2.2.1
  rw [h1, h2, null_color, null_color]

/-- the attack query reads only the occupancy sets, which the null move leaves alone -/
theorem null_isCellAttacked (b : Board) (hb : Consistent b) (s : Sq) (c : Color) :
    isCellAttacked (makeMove b Move.null).1 s c = isCellAttacked b s c := by
  unfold isCellAttacked Board.pieceDiag Board.pieceLine Board.piece2
  rw [null_pieces, null_all b hb]

theorem null_colorCount (b : Board) (c : Color) : colorCount (makeMove b Move.null).1 c = colorCount b c := by
  unfold colorCount
  simp only [null_get]

theorem shape_null (b : Board) (hs : Shape b) : Shape (makeMove b Move.null).1 := by
  refine ⟨make_consistent b Move.null hs.cons (makeOk_null b), ?_, ?_⟩
  · intro c s h
    rw [null_castling] at h
    rw [null_rget, null_rget]
    exact hs.rights c s h
  · intro p hp
    rw [null_ep] at hp
    cases hp

/-- (c): the null move made when the side to move is not in check leads from a valid board to a valid board -/
theorem valid_null (b : Board) (hv : Valid b) (hnc : isCheck? b = some false) : Valid (makeMove b Move.null).1 := by
  refine ⟨shape_null b hv.shape, ?_, ?_, ?_, ?_, ?_⟩
  · rw [null_colorCount]; exact hv.checks.wlen
  · rw [null_colorCount]; exact hv.checks.blen
  · intro c
    obtain ⟨k, hk, hu⟩ := hv.checks.king c
    refine ⟨k, ?_, ?_⟩
    · rw [null_get]; exact hk
    · intro t ht; rw [null_get] at ht; exact hu t ht
  · intro t c ht
    rw [null_get] at ht
    exact hv.checks.pawns t c ht
  · intro k hk
    rw [null_get, null_side, Color.inv_inv] at hk
    rw [null_side, null_isCellAttacked b hv.shape.cons]
    obtain ⟨k0, _, hu0⟩ := hv.checks.king b.r.side
    have hu : ∀ t, b.get t = Cell.mk b.r.side .king → t = k := fun t ht => (hu0 t ht).trans (hu0 k hk).symm
    have hkp := kingPos_of b hv.shape.cons b.r.side k hk hu
    unfold isCheck? at hnc
    rw [hkp] at hnc
    exact Option.some.inj hnc

/-! ### 4. … and the result passes the gate unchanged -/

theorem null_validates (b : Board) (hv : Valid b) (hnc : isCheck? b = some false) :
    validate (makeMove b Move.null).1.r = .ok (makeMove b Move.null).1 :=
  (valid_iff_validate _).mp (valid_null b hv hnc)

/-- what the null move does to the remaining raw fields (for the record) -/
theorem null_mn (b : Board) :
    (makeMove b Move.null).1.r.mn = if b.r.side = .black then satInc b.r.mn else b.r.mn := make_mn b _

theorem null_mc (b : Board) :
    (makeMove b Move.null).1.r.mc = if b.get 0 ≠ Cell.empty then 0 else satInc b.r.mc := by
  rw [make_mc]
  have h : (Move.null.cell = Cell.mk b.r.side .pawn) = False := by
    apply eq_false; intro e; exact mk_ne_zero _ _ e.symm
  simp only [h, decide_false, Bool.or_false, decide_eq_true_eq]
  rfl

/-! ### 5. non-vacuity: the initial position meets the hypotheses of 3. and 4. -/

theorem initial_valid : Valid (buildBoard initialRaw) :=
  (valid_iff_validate _).mpr (by decide +kernel)

theorem initial_not_check : isCheck? (buildBoard initialRaw) = some false := by decide +kernel

example : Valid (makeMove (buildBoard initialRaw) Move.null).1 :=
  valid_null _ initial_valid initial_not_check

example : validate (makeMove (buildBoard initialRaw) Move.null).1.r = .ok (makeMove (buildBoard initialRaw) Move.null).1 :=
  null_validates _ initial_valid initial_not_check

/-- NOTE for the driver: in the model the null move RESETS the half-move clock when square 0 is occupied
(`dstCell = b.get Move.null.dst = b.get 0`), see `null_mc`; from the initial position (clock 0, a rook on square 0)
the clock stays 0 instead of becoming 1, while from a board with square 0 empty it is `satInc`. -/
example : (makeMove (buildBoard initialRaw) Move.null).1.r.mc = 0 := by decide +kernel
example : (makeMove (buildBoard initialRaw) Move.null).1.r.side = .black := by decide +kernel
example : (makeMove (buildBoard initialRaw) Move.null).1.r.ep = none := by decide +kernel

end Owl.Props.C04

