/-
C19 (capacity clause): no valid position has more than 256 semilegal moves — `semilegal_count_le_256`,
`pseudoMoves_le_256`, `semilegalCountBound`.  The proof forgets enemy men, bounds the slider part line by line with
a small automaton, and closes the extremal problem with LP-duality certificates (one tree per colour and king
square, 471 leaves) whose validity the kernel re-checks (Lemmas/Bound); the LP solver that produced the weights is
not trusted.  The bound is nearly tight: a valid position with 242 pseudo-legal moves exists.
-/
import OwlModel.Lemmas.Bound.Cert0
import OwlModel.Lemmas.Bound.Cert1
import OwlModel.Lemmas.Bound.Cert2
import OwlModel.Lemmas.Bound.Cert3
import OwlModel.Lemmas.Bound.Cert4
import OwlModel.Lemmas.Bound.Cert5
import OwlModel.Lemmas.Bound.Cert6
import OwlModel.Lemmas.Bound.Cert7

namespace Owl.Props.C19
open Owl Owl.Impl Owl.Lemmas Owl.Props
set_option linter.unusedSimpArgs false
set_option linter.unusedVariables false

/-! ## 7. the certificates

For each colour and each square of the king a tree: inner nodes split on "a queen of the side to move stands on `s`"
(right branch) or not (left branch); every leaf carries a multiplier and the packed weights. The data were produced
outside Lean by a linear-programming solver; nothing about that search is trusted — `checkTree` recomputes every bound
with integer arithmetic and the kernel evaluates it (`decide +kernel`). -/



def treeW : Nat → Tree
  | 0 => tree_w_0
  | 1 => tree_w_1
  | 2 => tree_w_2
  | 3 => tree_w_3
  | 4 => tree_w_4
  | 5 => tree_w_5
  | 6 => tree_w_6
  | 7 => tree_w_7
  | 8 => tree_w_8
  | 9 => tree_w_9
  | 10 => tree_w_10
  | 11 => tree_w_11
  | 12 => tree_w_12
  | 13 => tree_w_13
  | 14 => tree_w_14
  | 15 => tree_w_15
  | 16 => tree_w_16
  | 17 => tree_w_17
  | 18 => tree_w_18
  | 19 => tree_w_19
  | 20 => tree_w_20
  | 21 => tree_w_21
  | 22 => tree_w_22
  | 23 => tree_w_23
  | 24 => tree_w_24
  | 25 => tree_w_25
  | 26 => tree_w_26
  | 27 => tree_w_27
  | 28 => tree_w_28
  | 29 => tree_w_29
  | 30 => tree_w_30
  | 31 => tree_w_31
  | 32 => tree_w_32
  | 33 => tree_w_33
  | 34 => tree_w_34
  | 35 => tree_w_35
  | 36 => tree_w_36
  | 37 => tree_w_37
  | 38 => tree_w_38
  | 39 => tree_w_39
  | 40 => tree_w_40
  | 41 => tree_w_41
  | 42 => tree_w_42
  | 43 => tree_w_43
  | 44 => tree_w_44
  | 45 => tree_w_45
  | 46 => tree_w_46
  | 47 => tree_w_47
  | 48 => tree_w_48
  | 49 => tree_w_49
  | 50 => tree_w_50
  | 51 => tree_w_51
  | 52 => tree_w_52
  | 53 => tree_w_53
  | 54 => tree_w_54
  | 55 => tree_w_55
  | 56 => tree_w_56
  | 57 => tree_w_57
  | 58 => tree_w_58
  | 59 => tree_w_59
  | 60 => tree_w_60
  | 61 => tree_w_61
  | 62 => tree_w_62
  | _ => tree_w_63

theorem okW : ∀ (n : Nat) (h : n < 64), checkTree .white ⟨n, h⟩ [] [] (treeW n) = true := by
  intro n h
  match n, h with
  | 0, _ => exact ok_w_0
  | 1, _ => exact ok_w_1
  | 2, _ => exact ok_w_2
  | 3, _ => exact ok_w_3
  | 4, _ => exact ok_w_4
  | 5, _ => exact ok_w_5
  | 6, _ => exact ok_w_6
  | 7, _ => exact ok_w_7
  | 8, _ => exact ok_w_8
  | 9, _ => exact ok_w_9
  | 10, _ => exact ok_w_10
  | 11, _ => exact ok_w_11
  | 12, _ => exact ok_w_12
  | 13, _ => exact ok_w_13
  | 14, _ => exact ok_w_14
  | 15, _ => exact ok_w_15
  | 16, _ => exact ok_w_16
  | 17, _ => exact ok_w_17
  | 18, _ => exact ok_w_18
  | 19, _ => exact ok_w_19
  | 20, _ => exact ok_w_20
  | 21, _ => exact ok_w_21
  | 22, _ => exact ok_w_22
  | 23, _ => exact ok_w_23
  | 24, _ => exact ok_w_24
  | 25, _ => exact ok_w_25
  | 26, _ => exact ok_w_26
  | 27, _ => exact ok_w_27
  | 28, _ => exact ok_w_28
  | 29, _ => exact ok_w_29
  | 30, _ => exact ok_w_30
  | 31, _ => exact ok_w_31
  | 32, _ => exact ok_w_32
  | 33, _ => exact ok_w_33
  | 34, _ => exact ok_w_34
  | 35, _ => exact ok_w_35
  | 36, _ => exact ok_w_36
  | 37, _ => exact ok_w_37
  | 38, _ => exact ok_w_38
  | 39, _ => exact ok_w_39
  | 40, _ => exact ok_w_40
  | 41, _ => exact ok_w_41
  | 42, _ => exact ok_w_42
  | 43, _ => exact ok_w_43
  | 44, _ => exact ok_w_44
  | 45, _ => exact ok_w_45
  | 46, _ => exact ok_w_46
  | 47, _ => exact ok_w_47
  | 48, _ => exact ok_w_48
  | 49, _ => exact ok_w_49
  | 50, _ => exact ok_w_50
  | 51, _ => exact ok_w_51
  | 52, _ => exact ok_w_52
  | 53, _ => exact ok_w_53
  | 54, _ => exact ok_w_54
  | 55, _ => exact ok_w_55
  | 56, _ => exact ok_w_56
  | 57, _ => exact ok_w_57
  | 58, _ => exact ok_w_58
  | 59, _ => exact ok_w_59
  | 60, _ => exact ok_w_60
  | 61, _ => exact ok_w_61
  | 62, _ => exact ok_w_62
  | 63, _ => exact ok_w_63
  | n + 64, h => omega


def treeB : Nat → Tree
  | 0 => tree_b_0
  | 1 => tree_b_1
  | 2 => tree_b_2
  | 3 => tree_b_3
  | 4 => tree_b_4
  | 5 => tree_b_5
  | 6 => tree_b_6
  | 7 => tree_b_7
  | 8 => tree_b_8
  | 9 => tree_b_9
  | 10 => tree_b_10
  | 11 => tree_b_11
  | 12 => tree_b_12
  | 13 => tree_b_13
  | 14 => tree_b_14
  | 15 => tree_b_15
  | 16 => tree_b_16
  | 17 => tree_b_17
  | 18 => tree_b_18
  | 19 => tree_b_19
  | 20 => tree_b_20
  | 21 => tree_b_21
  | 22 => tree_b_22
  | 23 => tree_b_23
  | 24 => tree_b_24
  | 25 => tree_b_25
  | 26 => tree_b_26
  | 27 => tree_b_27
  | 28 => tree_b_28
  | 29 => tree_b_29
  | 30 => tree_b_30
  | 31 => tree_b_31
  | 32 => tree_b_32
  | 33 => tree_b_33
  | 34 => tree_b_34
  | 35 => tree_b_35
  | 36 => tree_b_36
  | 37 => tree_b_37
  | 38 => tree_b_38
  | 39 => tree_b_39
  | 40 => tree_b_40
  | 41 => tree_b_41
  | 42 => tree_b_42
  | 43 => tree_b_43
  | 44 => tree_b_44
  | 45 => tree_b_45
  | 46 => tree_b_46
  | 47 => tree_b_47
  | 48 => tree_b_48
  | 49 => tree_b_49
  | 50 => tree_b_50
  | 51 => tree_b_51
  | 52 => tree_b_52
  | 53 => tree_b_53
  | 54 => tree_b_54
  | 55 => tree_b_55
  | 56 => tree_b_56
  | 57 => tree_b_57
  | 58 => tree_b_58
  | 59 => tree_b_59
  | 60 => tree_b_60
  | 61 => tree_b_61
  | 62 => tree_b_62
  | _ => tree_b_63

theorem okB : ∀ (n : Nat) (h : n < 64), checkTree .black ⟨n, h⟩ [] [] (treeB n) = true := by
  intro n h
  match n, h with
  | 0, _ => exact ok_b_0
  | 1, _ => exact ok_b_1
  | 2, _ => exact ok_b_2
  | 3, _ => exact ok_b_3
  | 4, _ => exact ok_b_4
  | 5, _ => exact ok_b_5
  | 6, _ => exact ok_b_6
  | 7, _ => exact ok_b_7
  | 8, _ => exact ok_b_8
  | 9, _ => exact ok_b_9
  | 10, _ => exact ok_b_10
  | 11, _ => exact ok_b_11
  | 12, _ => exact ok_b_12
  | 13, _ => exact ok_b_13
  | 14, _ => exact ok_b_14
  | 15, _ => exact ok_b_15
  | 16, _ => exact ok_b_16
  | 17, _ => exact ok_b_17
  | 18, _ => exact ok_b_18
  | 19, _ => exact ok_b_19
  | 20, _ => exact ok_b_20
  | 21, _ => exact ok_b_21
  | 22, _ => exact ok_b_22
  | 23, _ => exact ok_b_23
  | 24, _ => exact ok_b_24
  | 25, _ => exact ok_b_25
  | 26, _ => exact ok_b_26
  | 27, _ => exact ok_b_27
  | 28, _ => exact ok_b_28
  | 29, _ => exact ok_b_29
  | 30, _ => exact ok_b_30
  | 31, _ => exact ok_b_31
  | 32, _ => exact ok_b_32
  | 33, _ => exact ok_b_33
  | 34, _ => exact ok_b_34
  | 35, _ => exact ok_b_35
  | 36, _ => exact ok_b_36
  | 37, _ => exact ok_b_37
  | 38, _ => exact ok_b_38
  | 39, _ => exact ok_b_39
  | 40, _ => exact ok_b_40
  | 41, _ => exact ok_b_41
  | 42, _ => exact ok_b_42
  | 43, _ => exact ok_b_43
  | 44, _ => exact ok_b_44
  | 45, _ => exact ok_b_45
  | 46, _ => exact ok_b_46
  | 47, _ => exact ok_b_47
  | 48, _ => exact ok_b_48
  | 49, _ => exact ok_b_49
  | 50, _ => exact ok_b_50
  | 51, _ => exact ok_b_51
  | 52, _ => exact ok_b_52
  | 53, _ => exact ok_b_53
  | 54, _ => exact ok_b_54
  | 55, _ => exact ok_b_55
  | 56, _ => exact ok_b_56
  | 57, _ => exact ok_b_57
  | 58, _ => exact ok_b_58
  | 59, _ => exact ok_b_59
  | 60, _ => exact ok_b_60
  | 61, _ => exact ok_b_61
  | 62, _ => exact ok_b_62
  | 63, _ => exact ok_b_63
  | n + 64, h => omega

/-! ## 8. the result -/

/-- the counting model never exceeds 256 (castling included) -/
theorem score_le_256 (c : Color) (τ : Sq → Ty) (κ : Sq) (hc : Cons τ κ [] []) : score c τ + castleB c κ ≤ 256 := by
  obtain ⟨n, h⟩ := κ
  cases c with
  | white => exact tree_sound .white τ ⟨n, h⟩ (treeW n) [] [] (okW n h) hc
  | black => exact tree_sound .black τ ⟨n, h⟩ (treeB n) [] [] (okB n h) hc

/-- the rules' pseudo-legal move list of a valid board has at most 256 entries -/
theorem pseudoMoves_le_256 (b : Board) (hv : Valid b) : (Spec.pseudoMoves (abs b.r)).length ≤ 256 := by
  obtain ⟨κ, hc, hcas⟩ := valid_cons b hv
  have h2 := pseudo_len (abs b.r) κ hcas
  have h3 := score_le_256 (abs b.r).side (tyOf (abs b.r)) κ hc
  omega

/-- C19: the semilegal move list of a valid board fits the fixed buffer of 256 entries -/
theorem semilegal_count_le_256 (b : Board) (hv : Valid b) : (semilegalGen .all b).length ≤ 256 :=
  Nat.le_trans (gen_le_pseudo b hv) (pseudoMoves_le_256 b hv)

/-- the clause of C19 that `Props/C19.lean` states but leaves open -/
theorem semilegalCountBound : SemilegalCountBound := by
  intro raw b h
  exact semilegal_count_le_256 b (C02.validate_valid raw b h)

end Owl.Props.C19


