import OwlModel.Props.C08
namespace Owl.Props.C08
open Owl Owl.Impl Owl.Lemmas Owl.Props

/-! ## `Spec.splitOn`: splitting a `sep`-joined list of `sep`-free pieces returns the pieces -/

/-- the `foldr` inside `Spec.splitOn` -/
def splitFold (sep : Nat) (s : Bytes) : Bytes × List Bytes :=
  s.foldr (fun b (st : Bytes × List Bytes) => if b = sep then ([], st.1 :: st.2) else (b :: st.1, st.2)) ([], [])

theorem splitOn_eq (sep : Nat) (s : Bytes) :
    Spec.splitOn sep s = (splitFold sep s).1 :: (splitFold sep s).2 := by
  unfold Spec.splitOn splitFold
  generalize List.foldr _ _ s = st
  obtain ⟨a, b⟩ := st
  rfl

theorem splitFold_cons_sep (sep : Nat) (s : Bytes) :
    splitFold sep (sep :: s) = ([], (splitFold sep s).1 :: (splitFold sep s).2) := by
  simp [splitFold]

theorem splitFold_cons_ne (sep b : Nat) (s : Bytes) (h : b ≠ sep) :
    splitFold sep (b :: s) = (b :: (splitFold sep s).1, (splitFold sep s).2) := by
  simp [splitFold, h]

theorem splitFold_append (sep : Nat) : ∀ (a rest : Bytes), sep ∉ a →
    splitFold sep (a ++ rest) = (a ++ (splitFold sep rest).1, (splitFold sep rest).2)
  | [], rest, _ => rfl
  | b :: t, rest, h => by
    have hb : b ≠ sep := fun e => h (by simp [e])
    have ht : sep ∉ t := fun e => h (by simp [e])
    rw [List.cons_append, splitFold_cons_ne _ _ _ hb, splitFold_append sep t rest ht]
    rfl

/-- splitting at the first separator -/
theorem splitOn_cons (sep : Nat) (a rest : Bytes) (h : sep ∉ a) :
    Spec.splitOn sep (a ++ sep :: rest) = a :: Spec.splitOn sep rest := by
  rw [splitOn_eq, splitOn_eq, splitFold_append sep a _ h, splitFold_cons_sep]
  simp

/-- a text without the separator is a single piece -/
theorem splitOn_single (sep : Nat) (a : Bytes) (h : sep ∉ a) : Spec.splitOn sep a = [a] := by
  have := splitFold_append sep a [] h
  rw [List.append_nil] at this
  rw [splitOn_eq, this]
  simp [splitFold]

/-- the independent reader's field split of the written text: exactly the six field texts -/
theorem fmtFen_splitOn (r : RawBoard) :
    Spec.splitOn 32 (fmtFen r)
      = [fmtCells r.cells, [colorByte r.side], fmtRights r.castling, epText r, fmtNat r.mc, fmtNat r.mn] := by
  rw [fmtFen_fields]
  rw [splitOn_cons _ _ _ (fmtCells_clean _).no_space, splitOn_cons _ _ _ (color_clean _).no_space,
    splitOn_cons _ _ _ (rights_clean _).no_space, splitOn_cons _ _ _ (epText_clean _).no_space,
    splitOn_cons _ _ _ (fmtNat_clean _).no_space, splitOn_single _ _ (fmtNat_clean _).no_space]

/-! ## one rank: front-to-back description of the run-length text -/

/-- a pending run of `e` empty squares, written out -/
def flushDigit (e : Nat) : Bytes := if e ≠ 0 then [48 + e] else []

/-- the text of a list of cells with `e` empty squares pending before them -/
def encRow : Nat → List Cell → Bytes
  | e, [] => flushDigit e
  | e, c :: cs => if c.isFree then encRow (e + 1) cs else flushDigit e ++ cellByte c :: encRow 0 cs

theorem rankFinish_eq (out : Bytes) (e : Nat) : rankFinish (out, e) = out ++ flushDigit e := by
  unfold rankFinish flushDigit
  by_cases he : e = 0 <;> simp [he]

theorem rank_fold_enc (cells : Tab 64 Cell) (rank : Fin 8) : ∀ (fs : List (Fin 8)) (out : Bytes) (e : Nat),
    rankFinish (fs.foldl (rankStep cells rank) (out, e))
      = out ++ encRow e (fs.map fun f => cells.get (Sq.mk f rank))
  | [], out, e => by simp [encRow, rankFinish_eq]
  | f :: fs, out, e => by
    rw [List.foldl_cons, List.map_cons]
    by_cases hfree : (cells.get (Sq.mk f rank)).isFree = true
    · have hst : rankStep cells rank (out, e) f = (out, e + 1) := by simp [rankStep, hfree]
      rw [hst, rank_fold_enc cells rank fs]
      simp [encRow, hfree]
    · have hst : rankStep cells rank (out, e) f
          = (rankFinish (out, e) ++ [cellByte (cells.get (Sq.mk f rank))], 0) := by simp [rankStep, hfree]
      rw [hst, rank_fold_enc cells rank fs, rankFinish_eq]
      simp [encRow, hfree]

/-- the cells of one rank, file a to file h -/
def rankCells (cells : Tab 64 Cell) (rank : Fin 8) : List Cell :=
  (List.finRange 8).map fun f => cells.get (Sq.mk f rank)

theorem fmtRankCells_enc (cells : Tab 64 Cell) (rank : Fin 8) :
    fmtRankCells cells rank = encRow 0 (rankCells cells rank) := by
  rw [fmtRankCells_eq, rank_fold_enc]
  rfl

/-! ## the independent rank reader on that text -/

theorem letter_facts : ∀ c : Cell, c.isFree = false →
    ¬ (49 ≤ cellByte c ∧ cellByte c ≤ 56) ∧ cellByte c ≠ 47 ∧
      (Spec.manOfLetter (cellByte c)).isSome = true ∧ Spec.manOfLetter (cellByte c) = absCell c := by
  decide

theorem absCell_free : ∀ c : Cell, c.isFree = true → absCell c = none := by decide

theorem readRank_letter (c : Cell) (hc : c.isFree = false) (rest : Bytes) (pd : Bool) :
    Spec.readRank (cellByte c :: rest) pd = (Spec.readRank rest false).map fun l => absCell c :: l := by
  obtain ⟨h1, _, h3, h4⟩ := letter_facts c hc
  rw [Spec.readRank]
  simp only [h1, if_false]
  rw [← h4]
  cases hm : Spec.manOfLetter (cellByte c) with
  | none => rw [hm] at h3; cases h3
  | some m => rfl

theorem readRank_digit (e : Nat) (h1 : 1 ≤ e) (h8 : e ≤ 8) (rest : Bytes) :
    Spec.readRank ((48 + e) :: rest) false
      = (Spec.readRank rest true).map fun l => List.replicate e none ++ l := by
  have hd : 49 ≤ 48 + e ∧ 48 + e ≤ 56 := by omega
  have he : 48 + e - 48 = e := by omega
  rw [Spec.readRank]
  simp only [hd, and_self, if_true, he]
  rfl

theorem readRank_flush_nil (e : Nat) (h8 : e ≤ 8) :
    Spec.readRank (flushDigit e) false = some (List.replicate e none) := by
  unfold flushDigit
  by_cases he : e = 0
  · subst he; simp [Spec.readRank]
  · simp only [ne_eq, he, not_false_eq_true, if_true]
    rw [readRank_digit e (by omega) h8]
    simp [Spec.readRank]

/-- **rank reader on the rank writer**: run lengths 1..8, never two digits in a row, letters read back -/
theorem readRank_enc : ∀ (cs : List Cell) (e : Nat), e + cs.length ≤ 8 →
    Spec.readRank (encRow e cs) false = some (List.replicate e none ++ cs.map absCell)
  | [], e, h => by
    simp only [encRow, List.map_nil, List.append_nil]
    exact readRank_flush_nil e (by simpa using h)
  | c :: cs, e, h => by
    have hl : (c :: cs).length = cs.length + 1 := rfl
    rw [hl] at h
    by_cases hfree : c.isFree = true
    · have : encRow e (c :: cs) = encRow (e + 1) cs := by simp [encRow, hfree]
      rw [this, readRank_enc cs (e + 1) (by omega), List.map_cons, absCell_free c hfree,
        List.replicate_succ']
      simp
    · have hf : c.isFree = false := by simpa using hfree
      have : encRow e (c :: cs) = flushDigit e ++ cellByte c :: encRow 0 cs := by simp [encRow, hf]
      rw [this]
      have ih := readRank_enc cs 0 (by omega)
      unfold flushDigit
      by_cases he : e = 0
      · subst he
        simp only [ne_eq, not_true_eq_false, if_false, List.nil_append]
        rw [readRank_letter c hf, ih]
        simp
      · simp only [ne_eq, he, not_false_eq_true, if_true, List.cons_append, List.nil_append]
        rw [readRank_digit e (by omega) (by omega), readRank_letter c hf, ih]
        simp

theorem flushDigit_no_slash (e : Nat) : 47 ∉ flushDigit e := by
  unfold flushDigit
  by_cases he : e = 0
  · simp [he]
  · simp [he]; omega

theorem cellByte_ne_slash : ∀ c : Cell, cellByte c ≠ 47 := by decide

theorem encRow_no_slash : ∀ (cs : List Cell) (e : Nat), 47 ∉ encRow e cs
  | [], e => by simpa [encRow] using flushDigit_no_slash e
  | c :: cs, e => by
    by_cases hfree : c.isFree = true
    · have : encRow e (c :: cs) = encRow (e + 1) cs := by simp [encRow, hfree]
      rw [this]; exact encRow_no_slash cs (e + 1)
    · have hf : c.isFree = false := by simpa using hfree
      have : encRow e (c :: cs) = flushDigit e ++ cellByte c :: encRow 0 cs := by simp [encRow, hf]
      rw [this]
      intro hm
      rcases List.mem_append.mp hm with h | h
      · exact flushDigit_no_slash e h
      · rcases List.mem_cons.mp h with h | h
        · exact cellByte_ne_slash c h.symm
        · exact encRow_no_slash cs 0 h

theorem fmtRankCells_no_slash (cells : Tab 64 Cell) (rank : Fin 8) : 47 ∉ fmtRankCells cells rank := by
  rw [fmtRankCells_enc]; exact encRow_no_slash _ _

/-- the eight abstract squares of one rank, file a to file h -/
def absRow (cells : Tab 64 Cell) (rank : Fin 8) : List (Option Spec.Man) :=
  (List.finRange 8).map fun f => absCell (cells.get (Sq.mk f rank))

theorem absRow_length (cells : Tab 64 Cell) (rank : Fin 8) : (absRow cells rank).length = 8 := by
  simp [absRow]

theorem readRank_fmtRankCells (cells : Tab 64 Cell) (rank : Fin 8) :
    Spec.readRank (fmtRankCells cells rank) false = some (absRow cells rank) := by
  rw [fmtRankCells_enc, readRank_enc _ 0 (by simp [rankCells])]
  simp [rankCells, absRow]

/-! ## the board field: eight ranks on `/` -/

theorem finRange8 : List.finRange 8 = [0, 1, 2, 3, 4, 5, 6, 7] := by decide

theorem fmtCells_ranks (cells : Tab 64 Cell) :
    fmtCells cells = fmtRankCells cells 0 ++ 47 :: (fmtRankCells cells 1 ++ 47 :: (fmtRankCells cells 2 ++ 47 ::
      (fmtRankCells cells 3 ++ 47 :: (fmtRankCells cells 4 ++ 47 :: (fmtRankCells cells 5 ++ 47 ::
      (fmtRankCells cells 6 ++ 47 :: fmtRankCells cells 7)))))) := by
  rw [fmtCells_eq, finRange8]
  simp [ranksStep]

theorem fmtCells_splitOn (cells : Tab 64 Cell) :
    Spec.splitOn 47 (fmtCells cells) = (List.finRange 8).map (fmtRankCells cells) := by
  rw [fmtCells_ranks, finRange8]
  rw [splitOn_cons _ _ _ (fmtRankCells_no_slash _ _), splitOn_cons _ _ _ (fmtRankCells_no_slash _ _),
    splitOn_cons _ _ _ (fmtRankCells_no_slash _ _), splitOn_cons _ _ _ (fmtRankCells_no_slash _ _),
    splitOn_cons _ _ _ (fmtRankCells_no_slash _ _), splitOn_cons _ _ _ (fmtRankCells_no_slash _ _),
    splitOn_cons _ _ _ (fmtRankCells_no_slash _ _), splitOn_single _ _ (fmtRankCells_no_slash _ _)]
  rfl

theorem mapM_map_some {α β γ : Type} (a : α → β) (f : β → Option γ) (g : α → γ) : ∀ (l : List α),
    (∀ x ∈ l, f (a x) = some (g x)) → (l.map a).mapM f = some (l.map g)
  | [], _ => rfl
  | x :: t, h => by
    have hx := h x (by simp)
    have ht := mapM_map_some a f g t (fun y hy => h y (by simp [hy]))
    simp [List.mapM_cons, hx, ht]

theorem ranks_mapM (cells : Tab 64 Cell) :
    ((List.finRange 8).map (fmtRankCells cells)).mapM (fun r => Spec.readRank r false)
      = some ((List.finRange 8).map (absRow cells)) :=
  mapM_map_some _ _ _ _ (fun rank _ => readRank_fmtRankCells cells rank)

theorem squares_flat :
    ((List.finRange 8).map fun r => (List.finRange 8).map fun f => Sq.mk f r).flatten = List.finRange 64 := by
  decide +kernel

theorem rows_flatten (cells : Tab 64 Cell) :
    ((List.finRange 8).map (absRow cells)).flatten = (List.finRange 64).map fun s => absCell (cells.get s) := by
  rw [← squares_flat, List.map_flatten, List.map_map]
  simp only [List.map_map, Function.comp_def]
  rfl

theorem rows_getD (cells : Tab 64 Cell) (i : Fin 64) :
    ((List.finRange 8).map (absRow cells)).flatten.getD i.val none = absCell (cells.get i) := by
  rw [rows_flatten]
  simp [List.getD_eq_getElem?_getD]

/-! ## the scalar fields -/

theorem readRights_fmtRights : ∀ c : Rights, Spec.readRights (fmtRights c) = some (absRights c) := by
  decide

theorem side_field (c : Color) :
    (if [colorByte c] = [119] then some Color.white else if [colorByte c] = [98] then some Color.black else none)
      = some c := by
  cases c <;> decide

/-- the decimal text of a non-zero number does not start with `0` -/
theorem fmtNatAux_head : ∀ (fuel n : Nat) (acc : Bytes), n ≠ 0 → n < 10 ^ fuel →
    ∃ d t, fmtNatAux fuel n acc = d :: t ∧ d ≠ 48
  | 0, n, acc, h0, h => by
    have : n = 0 := by simpa using h
    exact absurd this h0
  | fuel + 1, n, acc, h0, h => by
    have hp : 10 ^ (fuel + 1) = 10 ^ fuel * 10 := Nat.pow_succ ..
    simp only [fmtNatAux]
    split
    · exact ⟨48 + n % 10, acc, rfl, by omega⟩
    · exact fmtNatAux_head fuel (n / 10) _ (by assumption) (by omega)

theorem readDecimal_fmtNat (n : Nat) (h : n ≤ 65535) : Spec.readDecimal (fmtNat n) = some n := by
  by_cases h0 : n = 0
  · subst h0; decide
  · obtain ⟨d, t, hdt, hd⟩ := fmtNatAux_head 32 n [] h0 (Nat.lt_of_le_of_lt h (by decide))
    have hall : (fmtNat n).all (fun b => decide (48 ≤ b) && decide (b ≤ 57)) = true :=
      List.all_eq_true.mpr (fmtNat_digits n)
    have hval := fmtNat_value n (Nat.lt_of_le_of_lt h (by decide))
    have hf : fmtNat n = d :: t := hdt
    rw [hf] at hall hval ⊢
    unfold Spec.readDecimal
    split
    · rename_i heq; cases heq
    · rename_i heq; injection heq with h1 _; exact absurd h1 hd
    · rename_i heq; injection heq with h1 _; exact absurd h1 hd
    · simp only [hall, if_true, hval, h]

theorem readSquare_fmtCoord : ∀ q : Sq, Spec.readSquare (fmtCoord q) = some q := by
  decide +kernel

/-- the reader's en-passant rule on the written target square: the target is behind the pawn, one step back finds it -/
theorem ep_target_facts : ∀ (side : Color) (p : Sq), p.rank = epSrcRank side →
    Spec.rank (Sq.mk p.file (epDstRank side)) = (match side with | .white => 2 | .black => 5) ∧
    Spec.step (Sq.mk p.file (epDstRank side)) (0, -(Spec.forward side)) = some p := by
  intro side
  cases side <;> decide +kernel

theorem fmtCoord_ne_dash (q : Sq) : fmtCoord q ≠ [45] := by simp [fmtCoord]

/-- the en-passant field as the independent reader sees it -/
theorem ep_field (r : RawBoard) (hep : EpRankOk r) :
    (if epText r = [45] then some none
      else match Spec.readSquare (epText r) with
        | none => none
        | some t =>
          if Spec.rank t = (match r.side with | .white => 2 | .black => 5) then
            (Spec.step t (0, -(Spec.forward r.side))).map some
          else none) = some r.ep := by
  unfold epText RawBoard.epDest
  cases hr : r.ep with
  | none => simp
  | some p =>
    obtain ⟨h1, h2⟩ := ep_target_facts r.side p (hep p hr)
    simp only [fmtCoord_ne_dash, if_false, readSquare_fmtCoord, h1, if_true, h2]
    rfl

theorem fen_independent_reader (r : RawBoard) (hep : EpRankOk r) (hmc : r.mc ≤ 65535) (hmn : r.mn ≤ 65535) :
    Spec.Fen.read (fmtFen r) = some (abs r) := by
  unfold Spec.Fen.read
  have hlen : ((List.finRange 8).map (fmtRankCells r.cells)).length = 8 := by simp
  have hall : (((List.finRange 8).map (absRow r.cells)).all fun row => decide (row.length = 8)) = true := by
    rw [List.all_eq_true]
    intro row hrow
    obtain ⟨rank, _, rfl⟩ := List.mem_map.mp hrow
    simp [absRow_length]
  simp only [fmtFen_splitOn, fmtCells_splitOn, ranks_mapM, hlen, hall, side_field, readRights_fmtRights,
    readDecimal_fmtNat _ hmc, readDecimal_fmtNat _ hmn, rows_getD]
  simp only [ne_eq, not_true_eq_false, if_false, Bool.not_true, Bool.false_eq_true]
  have hfin : ∀ ep, ep = r.ep →
      some ({ board := Tab.ofFn fun i => absCell (r.cells.get i), side := r.side, rights := absRights r.castling,
              ep := ep, half := r.mc, full := r.mn } : Spec.Pos) = some (abs r) := by
    intro ep he
    exact congrArg some (pos_ext (abs_board r).symm (abs_side r).symm (abs_rights r).symm
      (he.trans (abs_ep r).symm) (abs_half r).symm (abs_full r).symm)
  unfold epText RawBoard.epDest
  cases hr : r.ep with
  | none =>
    simp only [if_true]
    exact hfin none hr.symm
  | some p =>
    obtain ⟨h1, h2⟩ := ep_target_facts r.side p (hep p hr)
    simp only [fmtCoord_ne_dash, if_false, readSquare_fmtCoord, h2, Option.map_some]
    split
    · rename_i heq
      split at heq
      all_goals
        rename_i hs
        simp only [hs] at h1 heq
        rw [if_pos h1] at heq
        cases heq
    · rename_i ep heq
      split at heq
      all_goals
        rename_i hs
        simp only [hs] at h1 heq
        rw [if_pos h1] at heq
        injection heq with heq
        exact hfin ep (heq.symm.trans hr.symm)

/-- C08, last clause, for valid positions: the FEN text of a position that passes the validation gate (counters in
`u16` range, as every counter the library produces is) is a canonical six-field record which the independent reader
interprets as the same position -/
theorem fen_independent_reader_valid (b : Board) (hv : Valid b) (hmc : b.r.mc ≤ 65535) (hmn : b.r.mn ≤ 65535) :
    Spec.Fen.read (fmtFen b.r) = some (abs b.r) :=
  fen_independent_reader b.r (fun p hp => (hv.shape.ep p hp).1) hmc hmn

/-- both readers agree on the written text: the implementation's parser result, abstracted, is what the independent
reader returns -/
theorem fen_readers_agree (r : RawBoard) (hep : EpRankOk r) (hmc : r.mc ≤ 65535) (hmn : r.mn ≤ 65535) :
    ∃ r', parseFen (fmtFen r) = .ok r' ∧ Spec.Fen.read (fmtFen r) = some (abs r') :=
  ⟨r, fen_roundtrip r hep hmc hmn, fen_independent_reader r hep hmc hmn⟩

/-! non-vacuity -/

example : Spec.Fen.read (fmtFen C04.initialRaw) = some (abs C04.initialRaw) :=
  fen_independent_reader _ (by decide) (by decide) (by decide)
example : Spec.Fen.read (fmtFen C04.initialRaw) = some (abs C04.initialRaw) := by decide +kernel
/-- en-passant marks for either side to move (after 1. e4: pawn on e4 = square 36; a black pawn on e5 = square 28) -/
example : Spec.Fen.read (fmtFen { C04.initialRaw with side := .black, ep := some 36 })
    = some (abs { C04.initialRaw with side := .black, ep := some 36 }) :=
  fen_independent_reader _ (by decide) (by decide) (by decide)
example : Spec.Fen.read (fmtFen { C04.initialRaw with side := .white, ep := some 28 })
    = some (abs { C04.initialRaw with side := .white, ep := some 28 }) := by decide +kernel
/-- move number 0 and half-move clock 0 are written `0` and read back as 0 by both readers -/
example : Spec.Fen.read (fmtFen { RawBoard.empty with mc := 0, mn := 0 })
    = some (abs { RawBoard.empty with mc := 0, mn := 0 }) := by decide +kernel

/-! the hypotheses cannot be dropped -/

/-- a mark on another rank (a8, white to move) is written as target `a6`; the independent reader finds the pawn on a5 -/
example : Spec.Fen.read (fmtFen { RawBoard.empty with ep := some 0 })
    = some (abs { RawBoard.empty with ep := some 24 }) := by decide +kernel
example : Spec.Fen.read (fmtFen { RawBoard.empty with ep := some 0 })
    ≠ some (abs { RawBoard.empty with ep := some 0 }) := by decide +kernel
/-- counters above 65535 are written in full and rejected by the independent reader too -/
example : Spec.Fen.read (fmtFen { RawBoard.empty with mc := 65536 }) = none := by decide +kernel
example : Spec.Fen.read (fmtFen { RawBoard.empty with mn := 65536 }) = none := by decide +kernel

end Owl.Props.C08
