/-
C01  Legal move generation is exactly the rules of chess.
`legalGen_eq_rules`: on every valid position the legal generator returns, each exactly once, precisely
`Spec.legalMoves` — the rules' pseudo-legal moves (piece movement and captures, single and double pawn steps, en
passant, the four promotions, both castlings) that do not leave the mover's king attacked.
`legalGen_spec`: the capture / simple / simple-no-promote / simple-promote legal generators return exactly the
corresponding subsets (classes of C06), never panic, no duplicates.
`validate_iff_generated`: `Move::validate` and apply-and-test (`impl Make for Move`) agree with that set.
Ingredients: generator exactness (Lemmas/GenExact, GenNodup), prefilter soundness (Lemmas/Pinned, Prefilter: the
generators' `DefaultPrechecker` short-cuts only moves the exact test accepts), exactness of the unprefiltered test on
all three code paths (Lemmas/Checker), `make_refines_apply` (C03), attack queries (C16), tables (C15), and the
pseudo-legal correspondence (Lemmas/PseudoSpec).
-/
import OwlModel.Props.C06

namespace Owl.Props.C01
open Owl Owl.Impl Owl.Lemmas Owl.Props Owl.Props.C06

/-- the legality test in rule terms: the exact test accepts a semilegal move iff the mover's king is not attacked in
`Spec.apply` of the position -/
theorem legal_iff_rules (b : Board) (mv : Move) (hv : Valid b) (hwf : mv.isWellFormed = true)
    (hsl : isSemilegal b mv = true) (sm : Spec.Move) (hsm : absMove mv = some sm) :
    isLegalUnchecked? b mv = some (!Spec.inCheck (Spec.apply (abs b.r) sm) b.r.side) := by
  obtain ⟨sm', h1, h2⟩ := Lemmas.make_refines_apply b mv (C02.applyHyp_of_valid b mv hv hwf hsl)
  rw [hsm] at h1; cases h1
  obtain ⟨k, hk, hku⟩ := hv.checks.king b.r.side
  rw [← h2, C02.inCheck_after b mv hv hwf hsl k hk, legal_unfold b hv.shape.cons mv k hk hku,
    isLegal_nil b mv hv.shape hwf hsl k hk hku]

/-- C01: each legal generator returns (without panicking) exactly the moves of its class that are well-formed,
semilegal and accepted by the exact legality test, each once -/
theorem legalGen_spec (b : Board) (hv : Valid b) (w : Which) :
    ∃ l, legalGen? w b = some l ∧ l.Nodup ∧
      ∀ mv, mv ∈ l ↔ (mv.isWellFormed = true ∧ isSemilegal b mv = true ∧ whichClass b w mv = true
        ∧ isLegalUnchecked? b mv = some true) := by
  obtain ⟨k, hk, hku⟩ := hv.checks.king b.r.side
  unfold legalGen?
  -- the checker exists
  have hck : ∃ ck, defaultChecker? b = some ck ∧ ∀ mv, mv.isWellFormed = true → isSemilegal b mv = true →
      ck.isLegal mv = Checker.isLegal ⟨b, .nil, b.r.side.inv, k⟩ mv := by
    have hkp := kingPos_of b hv.shape.cons b.r.side k hk hku
    cases hd : defaultChecker? b with
    | none =>
      obtain ⟨ck, h1, _⟩ := isLegal_default b Move.null hv (by decide) (by
        exfalso
        unfold defaultChecker? defaultPre? isCheck? mkChecker? at hd
        simp only [hkp] at hd
        cases hc : isCellAttacked b k b.r.side.inv <;> simp [hc] at hd) k hk
      rw [hd] at h1; cases h1
    | some ck =>
      refine ⟨ck, rfl, ?_⟩
      intro mv hwf hsl
      obtain ⟨ck', h1, h2⟩ := isLegal_default b mv hv hwf hsl k hk
      rw [hd] at h1; cases h1
      exact h2
  obtain ⟨ck, hck1, hck2⟩ := hck
  rw [hck1]
  refine ⟨_, rfl, ?_, ?_⟩
  · exact List.Pairwise.filter _ (semilegalGen_nodup b hv w)
  · intro mv
    rw [List.mem_filter, semilegalGen_iff b hv w]
    constructor
    · intro ⟨⟨h1, h2, h3⟩, h4⟩
      refine ⟨h1, h2, h3, ?_⟩
      rw [legal_unfold b hv.shape.cons mv k hk hku, ← hck2 mv h1 h2, h4]
    · intro ⟨h1, h2, h3, h4⟩
      refine ⟨⟨h1, h2, h3⟩, ?_⟩
      rw [legal_unfold b hv.shape.cons mv k hk hku, ← hck2 mv h1 h2] at h4
      exact Option.some.inj h4

theorem absMove_conc (sm : Spec.Move) : absMove (concMove sm) = some sm := by
  obtain ⟨k, ⟨c, p⟩, s, d⟩ := sm
  simp [absMove, concMove, absCell_mk]

/-- C01: the legal generator returns exactly the legal moves of the rules of chess (`Spec.legalMoves`: pseudo-legal
moves — piece movement, captures, single and double pawn steps, en passant, the four promotions, both castlings — that
do not leave the mover's king attacked), each exactly once -/
theorem legalGen_eq_rules (b : Board) (hv : Valid b) :
    ∃ l, legalGen? .all b = some l ∧ l.Nodup ∧ ∀ sm, sm ∈ Spec.legalMoves (abs b.r) ↔ concMove sm ∈ l := by
  obtain ⟨l, h1, h2, h3⟩ := legalGen_spec b hv .all
  refine ⟨l, h1, h2, ?_⟩
  intro sm
  unfold Spec.legalMoves
  rw [List.mem_filter, pseudo_iff_semilegal b hv, h3]
  constructor
  · intro ⟨⟨hwf, hsl⟩, hleg⟩
    refine ⟨hwf, hsl, inClass_all b _ (semilegal_base b _ hsl).1, ?_⟩
    rw [legal_iff_rules b _ hv hwf hsl sm (absMove_conc sm)]
    rw [abs_side] at hleg
    simpa using hleg
  · intro ⟨hwf, hsl, _, hleg⟩
    refine ⟨⟨hwf, hsl⟩, ?_⟩
    rw [legal_iff_rules b _ hv hwf hsl sm (absMove_conc sm)] at hleg
    rw [abs_side]
    simpa using hleg

/-- C01: every other way the library decides the legality of a single move agrees: `Move::validate`, and applying the
move and testing whether the mover's king is attacked (`TryUnchecked`, `impl Make for Move`) -/
theorem validate_iff_generated (b : Board) (hv : Valid b) (mv : Move) (hwf : mv.isWellFormed = true) :
    ∃ l, legalGen? .all b = some l ∧
      ((validateMove b mv = .ok ()) ↔ mv ∈ l) ∧ ((∃ b', makeMoveChecked b mv = .ok b') ↔ mv ∈ l) := by
  obtain ⟨l, h1, _, h3⟩ := legalGen_spec b hv .all
  refine ⟨l, h1, ?_, ?_⟩
  · rw [h3]
    unfold validateMove
    cases hsl : isSemilegal b mv
    · simp
    · obtain ⟨ok, hok, _⟩ := C02.tryUnchecked_eq b mv hv hwf hsl
      have hcl := inClass_all b mv (semilegal_base b mv hsl).1
      simp only [Bool.not_true, Bool.false_eq_true, if_false, hok, hwf, whichClass, hcl, true_and]
      cases ok <;> simp
  · rw [h3]
    constructor
    · intro ⟨b', h⟩
      obtain ⟨hsl, hleg, _⟩ := (C02.make_checked_iff b mv hv hwf b').mp h
      exact ⟨hwf, hsl, inClass_all b mv (semilegal_base b mv hsl).1, hleg⟩
    · intro ⟨_, hsl, _, hleg⟩
      exact ⟨_, (C02.make_checked_iff b mv hv hwf _).mpr ⟨hsl, hleg, rfl⟩⟩

end Owl.Props.C01
